(* C01 (soundness half): the base of the proof that a generated move never leaves the mover's king attacked.
   For a non-castling move the test `in_check_them (makemove u p m)` is carried back into the mover's own frame:
   it equals the square-by-square attack test `bit_attacked` on the board stage Q = mv_boards u p m at the square
   the mover's king stands on afterwards, and every bit of Q is known from the position before (the after_ lemmas of MakeFacts). *)
From Coq Require Import NArith ZArith List Bool Lia.
From Rawr Require Import Consts Bits Magic Position MoveGen MakeMove MakeStages Rules Abs
                         BitsFacts FlipFacts AbsFacts LsbFacts HashFacts MakeFacts MakeAbs KeyAbs KeyMove
                         AttackFacts AttackAbs GenSane Closure EpRetro.
Import ListNotations.
Local Open Scope N_scope.

Lemma BBp_of_BB8 q : HashFacts.BB8 q -> BBp q.
Proof. intros (B1 & B2 & B3 & B4 & B5 & B6 & B7 & B8). repeat split; assumption. Qed.

Lemma get_piece_lt q j : HashFacts.BB8 q -> get_piece q j < TWO64.
Proof.
  intros (B1 & B2 & B3 & B4 & B5 & B6 & B7 & B8). unfold get_piece.
  repeat match goal with |- context [match ?x with _ => _ end] => destruct x end; assumption.
Qed.

Section NCBase.
Variables (u : bool) (p : Position) (m : Mv) (k : N).
Hypothesis S : sane p m k.
Hypothesis I : Inv0 p.
Hypothesis NVK : m_to m <> tksq p.
Let R := makemove u p m.
Let Q := mv_boards u p m.
Let from := m_from m.
Let to := m_to m.
Let G := i0_good p I.
Let ka := our_king_after p m k.

(* every square of Q, in the four classes *)
Inductive qview (a : N) : Prop :=
| QvFrom : a = from -> empty_at Q a -> qview a
| QvTo : a = to -> holds Q a false (landed k (m_promo m)) -> qview a
| QvVic : mv_is_ep p m = true -> a = to - 8 -> a <> from -> a <> to -> empty_at Q a -> qview a
| QvSame : a <> from -> a <> to -> (mv_is_ep p m = true -> a <> to - 8) -> same_at p Q a -> qview a.

Lemma qview_all a : qview a.
Proof.
  destruct (N.eq_dec a from) as [E|N1]; [apply QvFrom; [exact E|subst a; exact (after_from u p m k S)]|].
  destruct (N.eq_dec a to) as [E|N2]; [apply QvTo; [exact E|subst a; exact (after_to u p m k S)]|].
  destruct (mv_is_ep p m) eqn:Hb.
  - destruct (N.eq_dec a (to - 8)) as [E|N3].
    + apply QvVic; [exact Hb|exact E|exact N1|exact N2|subst a; exact (after_vic u p m k S Hb)].
    + apply QvSame; [exact N1|exact N2|intros _; exact N3|]. apply (after_other u p m k S a N1 N2). intros _. exact N3.
  - apply QvSame; [exact N1|exact N2|intros X; congruence|]. apply (after_other u p m k S a N1 N2). rewrite Hb. discriminate.
Qed.

Lemma Q_BB8 : HashFacts.BB8 Q.
Proof.
  pose proof (g_bb p G) as HB.
  assert (Hhi : forall i, 64 <= i -> ub Q i = false /\ tb Q i = false /\ forall j, j <= 5 -> pb Q j i = false).
  { intros i Hi. pose proof (sn_from _ _ _ S) as Hf. pose proof (sn_to _ _ _ S) as Ht. fold from in Hf. fold to in Ht.
    destruct (qview_all i) as [E _|E _|_ E _ _ _|_ _ _ (Eu & Et & Ep)]; try (exfalso; lia).
    destruct HB as (B1 & B2 & B3 & B4 & B5 & B6 & B7 & B8).
    rewrite Eu, Et. unfold ub, tb, is_set. rewrite (lt64_testbit_high _ i B1 Hi), (lt64_testbit_high _ i B2 Hi).
    split; [reflexivity|split; [reflexivity|]]. intros j Hj. rewrite (Ep j Hj). unfold pb, is_set.
    apply lt64_testbit_high; [apply get_piece_lt; repeat split; assumption|exact Hi]. }
  repeat split; apply testbit_lt64; intros i Hi; destruct (Hhi i Hi) as (Hu & Ht & Hp).
  - exact Hu.
  - exact Ht.
  - exact (Hp 0 ltac:(lia)).
  - exact (Hp 1 ltac:(lia)).
  - exact (Hp 2 ltac:(lia)).
  - exact (Hp 3 ltac:(lia)).
  - exact (Hp 4 ltac:(lia)).
  - exact (Hp 5 ltac:(lia)).
Qed.

Lemma Q_WF : WF Q.
Proof. exact (WF_boards u p m k S (g_wf p G)). Qed.

Lemma ka_lt : ka < 64.
Proof.
  unfold ka, our_king_after. destruct (k =? KING); [exact (sn_to _ _ _ S)|]. exact (proj2 (king_holds p G)).
Qed.

(* our king in Q *)
Lemma Q_our_king : popcount (N.land (kings Q) (c_us Q)) = 1 /\ lsb (N.land (kings Q) (c_us Q)) = ka.
Proof.
  apply (king_by_view Q ka true Q_BB8 ka_lt). intros i Hi.
  destruct (king_holds p G) as (HK & HK64). fold (uksq p) in HK, HK64.
  pose proof (nc_from_king p m k S I NVK) as Hfk. fold from in Hfk.
  unfold ka, our_king_after. fold to.
  destruct (qview_all i) as [E (_ & _ & Hp)|E (_ & Hu & _ & Hp)|Hb E N1 N2 (_ & _ & Hp)|N1 N2 N3 (Eu & _ & Ep)].
  - rewrite (Hp 5 ltac:(lia)). cbn [andb]. symmetry. rewrite E.
    destruct (k =? KING); [apply N.eqb_neq; exact (sn_ne _ _ _ S)|exact Hfk].
  - rewrite Hu, (Hp 5 ltac:(lia)), andb_true_r. cbn [negb]. rewrite (landed_king p m k S NVK), E.
    destruct (N.eqb_spec k KING) as [Ek|Ek]; [rewrite N.eqb_refl; reflexivity|]. symmetry. apply N.eqb_neq. intros E'.
    destruct (sn_target _ _ _ S) as [Hemp|(c & Hc)]; fold to in Hemp || fold to in Hc.
    + rewrite E' in Hemp. exact (holds_not_empty _ _ _ _ HK Hemp).
    + rewrite E' in Hc. destruct (holds_excl _ _ _ _ _ _ Hc HK). discriminate.
  - rewrite (Hp 5 ltac:(lia)). cbn [andb]. symmetry. destruct (sn_ep _ _ _ S Hb) as (_ & H8 & Hv). fold to in H8, Hv. rewrite E.
    destruct (k =? KING); [apply N.eqb_neq; lia|]. apply N.eqb_neq. intros E'. rewrite E' in Hv.
    destruct (holds_excl _ _ _ _ _ _ Hv HK). discriminate.
  - rewrite Eu, (Ep 5 ltac:(lia)).
    pose proof (view_of_king p true (g_bb p G) (g_king p G) i) as Hv. cbv iota in Hv. fold (uksq p) in Hv. rewrite Hv.
    destruct (N.eqb_spec k KING) as [Ek|Ek]; [|reflexivity].
    apply N.eqb_eq in Hfk. rewrite <- Hfk.
    destruct (N.eqb_spec i from); [contradiction|]. destruct (N.eqb_spec i to); [contradiction|reflexivity].
Qed.

(* their king in Q: where it was *)
Lemma Q_their_king : popcount (N.land (kings Q) (c_them Q)) = 1 /\ lsb (N.land (kings Q) (c_them Q)) = tksq p.
Proof.
  destruct (their_king_holds p (g_wf p G) (g_bb p G) (i0_tking p I)) as (HK & HK64).
  apply (king_by_view Q (tksq p) false Q_BB8 HK64). intros i Hi.
  destruct (qview_all i) as [E (_ & _ & Hp)|E (_ & _ & Ht & _)|Hb E N1 N2 (_ & _ & Hp)|N1 N2 N3 (_ & Et & Ep)].
  - rewrite (Hp 5 ltac:(lia)). cbn [andb]. symmetry. apply N.eqb_neq. intros E'.
    pose proof (sn_mover _ _ _ S) as Hm. fold from in Hm. rewrite <- E, E' in Hm. destruct (holds_excl _ _ _ _ _ _ Hm HK). discriminate.
  - rewrite Ht, andb_false_r. symmetry. apply N.eqb_neq. rewrite E. exact NVK.
  - rewrite (Hp 5 ltac:(lia)). cbn [andb]. symmetry. apply N.eqb_neq. intros E'.
    destruct (sn_ep _ _ _ S Hb) as (_ & _ & Hv). fold to in Hv. rewrite <- E, E' in Hv. destruct (holds_excl _ _ _ _ _ _ Hv HK) as (_ & X). discriminate X.
  - rewrite Et, (Ep 5 ltac:(lia)).
    pose proof (view_of_king p false (g_bb p G) (i0_tking p I) i) as Hv. cbv iota in Hv. fold (tksq p) in Hv. exact Hv.
Qed.

(* the legality test of the result, in the mover's frame *)
Theorem nc_transfer : in_check_them R = bit_attacked Q ka false.
Proof.
  destruct Q_our_king as (K1 & _). destruct Q_their_king as (K2 & _).
  destruct (nc_our_king u p m k S I NVK) as (_ & EK). fold R in EK. unfold tksq in EK.
  unfold in_check_them. rewrite EK. fold ka. unfold R. rewrite makemove_stages.
  match goal with |- is_sq_attacked (flip ?q) _ _ = _ => set (Q' := q) end.
  assert (HW' : WF Q') by (apply WF_clocks; exact Q_WF).
  assert (HB' : HashFacts.BB8 Q') by exact Q_BB8.
  rewrite (attack_flip Q' ka true HW' HB' K1 K2 ka_lt). cbn [negb].
  rewrite (is_sq_attacked_boards Q' Q ka false eq_refl eq_refl eq_refl eq_refl eq_refl eq_refl eq_refl eq_refl).
  apply is_sq_attacked_bits; [apply BBp_of_BB8; exact Q_BB8|exact ka_lt|exact K2].
Qed.

Theorem nc_transfer_sq : in_check_them R = is_sq_attacked Q ka false.
Proof.
  rewrite nc_transfer. symmetry. destruct Q_their_king as (K2 & _).
  apply is_sq_attacked_bits; [apply BBp_of_BB8; exact Q_BB8|exact ka_lt|exact K2].
Qed.

(* the bits of Q the attack test reads, from the position before *)
Lemma Q_occ s : N.testbit (occupied Q) s = ((s =? to) || (N.testbit (occupied p) s && negb (s =? from) && negb (mv_is_ep p m && (s =? to - 8)))).
Proof.
  unfold occupied. rewrite !N.lor_spec. change (N.testbit (c_us Q) s) with (ub Q s). change (N.testbit (c_them Q) s) with (tb Q s).
  change (N.testbit (c_us p) s) with (ub p s). change (N.testbit (c_them p) s) with (tb p s).
  destruct (qview_all s) as [E (Hu & Ht & _)|E (_ & Hu & Ht & _)|Hb E N1 N2 (Hu & Ht & _)|N1 N2 N3 (Eu & Et & _)].
  - rewrite Hu, Ht, E, N.eqb_refl. cbn [negb]. rewrite andb_false_r. cbn [andb orb].
    destruct (N.eqb_spec from to) as [E'|_]; [exfalso; exact (sn_ne _ _ _ S E')|reflexivity].
  - rewrite Hu, Ht, E, N.eqb_refl. reflexivity.
  - rewrite Hu, Ht, Hb, E, N.eqb_refl. cbn [andb negb]. rewrite andb_false_r. cbn [orb].
    destruct (N.eqb_spec (to - 8) to) as [E'|_]; [exfalso; apply N2; rewrite E; exact E'|reflexivity].
  - rewrite Eu, Et. destruct (N.eqb_spec s to); [contradiction|]. destruct (N.eqb_spec s from); [contradiction|]. cbn [orb negb]. rewrite andb_true_r.
    destruct (mv_is_ep p m) eqn:Hb; cbn [andb]; [|cbn [negb]; rewrite andb_true_r; reflexivity].
    destruct (N.eqb_spec s (to - 8)) as [E|_]; [exfalso; exact (N3 eq_refl E)|]. cbn [negb]. rewrite andb_true_r. reflexivity.
Qed.

(* their men in Q: the ones that were there, minus the captured one *)
Lemma Q_them j s : j <= 5 ->
  N.testbit (N.land (get_piece Q j) (c_them Q)) s
  = N.testbit (N.land (get_piece p j) (c_them p)) s && negb (s =? to) && negb (mv_is_ep p m && (s =? to - 8)).
Proof.
  intros Hj. rewrite !N.land_spec.
  change (N.testbit (get_piece Q j) s) with (pb Q j s). change (N.testbit (c_them Q) s) with (tb Q s).
  change (N.testbit (get_piece p j) s) with (pb p j s). change (N.testbit (c_them p) s) with (tb p s).
  destruct (qview_all s) as [E (Hu & Ht & Hp)|E (_ & Hu & Ht & Hp)|Hb E N1 N2 (Hu & Ht & Hp)|N1 N2 N3 (Eu & Et & Ep)].
  - rewrite Ht, andb_false_r.
    destruct (sn_mover _ _ _ S) as (_ & _ & Ht' & _). fold from in Ht'. rewrite E, Ht', andb_false_r. reflexivity.
  - rewrite Ht, andb_false_r, E, N.eqb_refl. cbn [negb]. rewrite andb_false_r. reflexivity.
  - rewrite Ht, andb_false_r, Hb, E, N.eqb_refl. cbn [andb negb]. rewrite andb_false_r. reflexivity.
  - rewrite Et, (Ep j Hj). destruct (N.eqb_spec s to); [contradiction|]. cbn [negb]. rewrite andb_true_r.
    destruct (mv_is_ep p m) eqn:Hb; cbn [andb]; [|cbn [negb]; rewrite andb_true_r; reflexivity].
    destruct (N.eqb_spec s (to - 8)) as [E|_]; [exfalso; exact (N3 eq_refl E)|]. cbn [negb]. rewrite andb_true_r. reflexivity.
Qed.

End NCBase.
