(* C01: the five pawn blocks of the generator (single pushes, double pushes, captures to the north-east and north-west,
   en passant) only emit moves that the rules list as pseudo-legal pawn moves; White-to-move frame (stored frame =
   absolute frame), the other frame follows by proofs/RulesMirror.v.  Also the converse reading of Rules.pawn_moves at
   the bit / holds level (pawn_moves_char), for the completeness half. *)
From Coq Require Import NArith ZArith List Bool Lia ZifyN ZifyBool.
From Rawr Require Import Consts Bits Magic Position MoveGen MakeMove MakeStages Rules Abs
                         BitsFacts ShiftFacts AbsFacts HashFacts MakeFacts MakeAbs KeyAbs CountFacts GenSane GenNoDup PseudoBase.
Import ListNotations.
Local Open Scope N_scope.
Ltac Zify.zify_post_hook ::= Z.div_mod_to_equations.

(* ------------------------------------------------------------------ coordinates of the neighbours to the north *)
Lemma fz_n a : fz (a + 8) = fz a.
Proof. unfold fz. lia. Qed.
Lemma rz_n a : rz (a + 8) = (rz a + 1)%Z.
Proof. unfold rz. lia. Qed.
Lemma fz_nn a : fz (a + 16) = fz a.
Proof. unfold fz. lia. Qed.
Lemma rz_nn a : rz (a + 16) = (rz a + 2)%Z.
Proof. unfold rz. lia. Qed.
Lemma fz_ne a : a mod 8 <> 7 -> fz (a + 9) = (fz a + 1)%Z.
Proof. unfold fz. lia. Qed.
Lemma rz_ne a : a mod 8 <> 7 -> rz (a + 9) = (rz a + 1)%Z.
Proof. unfold rz. lia. Qed.
Lemma fz_nw a : a mod 8 <> 0 -> fz (a + 7) = (fz a + -1)%Z.
Proof. unfold fz. lia. Qed.
Lemma rz_nw a : a mod 8 <> 0 -> rz (a + 7) = (rz a + 1)%Z.
Proof. unfold rz. lia. Qed.
Lemma rank_rz b : (rz b =? 7)%Z = (rank_of b =? 7).
Proof. unfold rz, rank_of. destruct (Z.eqb_spec (Z.of_N (b / 8)) 7), (N.eqb_spec (b / 8) 7); try reflexivity; lia. Qed.

Lemma testbit_RANK4 i : N.testbit RANK4 i = (i <? 64) && ((24 <=? i) && (i <? 32)).
Proof. apply (testbit_small_mask RANK4 eq_refl (fun i => (24 <=? i) && (i <? 32))). vm_compute. reflexivity. Qed.

(* ------------------------------------------------------------------ promotions *)
(* the promotion field of a generated move, as the rules write it *)
Definition prk (pr : N) : option kind := if pr =? NOPIECE then None else Some (kind_of_N pr).
(* what the generator and the rules agree on: a promotion piece exactly on the last rank *)
Definition promo_cond (b pr : N) : Prop := if rank_of b =? 7 then 1 <= pr <= 4 else pr = NOPIECE.

Lemma promo_of_prk a b pr : promo_of (mkMv a b pr) = prk pr.
Proof. reflexivity. Qed.

Lemma promo_or_plain_cond delta to g : In g (promo_or_plain delta to) ->
  exists pr, g = (PAWN, to - delta, to, pr) /\ promo_cond to pr.
Proof.
  unfold promo_or_plain, promo_cond. cbv zeta. destruct (rank_of to =? 7); cbn [In]; intros H.
  - repeat destruct H as [<-|H]; try contradiction; eexists; (split; [reflexivity|unfold QUEEN, ROOK, BISHOP, KNIGHT; lia]).
  - destruct H as [<-|[]]. eexists. split; reflexivity.
Qed.

Lemma with_promo_in f r f' r' b pr : rz b = r' -> promo_cond b pr ->
  In (mkM f r f' r' (prk pr)) (with_promo White (mkM f r f' r' None)).
Proof.
  intros Er Hc. unfold with_promo, promo_cond in *. cbn [opp home tr mf mr tf]. rewrite <- Er, rank_rz.
  destruct (rank_of b =? 7).
  - assert (E : pr = 4 \/ pr = 3 \/ pr = 2 \/ pr = 1) by lia. cbn [map In].
    destruct E as [-> | [-> | [-> | ->]]].
    + left. reflexivity.
    + right. left. reflexivity.
    + right. right. left. reflexivity.
    + right. right. right. left. reflexivity.
  - rewrite Hc. left. reflexivity.
Qed.

Lemma with_promo_elim f r f' r' b sm : rz b = r' -> In sm (with_promo White (mkM f r f' r' None)) ->
  exists pr, sm = mkM f r f' r' (prk pr) /\ promo_cond b pr.
Proof.
  intros Er. unfold with_promo, promo_cond. cbn [opp home tr mf mr tf]. rewrite <- Er, rank_rz.
  destruct (rank_of b =? 7); cbn [map In]; intros H.
  - destruct H as [<-|[<-|[<-|[<-|[]]]]].
    + exists 4. split; [reflexivity|lia].
    + exists 3. split; [reflexivity|lia].
    + exists 2. split; [reflexivity|lia].
    + exists 1. split; [reflexivity|lia].
  - destruct H as [<-|[]]. exists NOPIECE. split; reflexivity.
Qed.

(* ------------------------------------------------------------------ Rules.pawn_moves for White, in four named parts *)
Definition wp_one (b : board) (f r : Z) : list smove :=
  if onb f (r + 1) && is_empty (at_ b f (r + 1)) then with_promo White (mkM f r f (r + 1) None) else [].
Definition wp_two (b : board) (f r : Z) : list smove :=
  if (r =? 1)%Z && is_empty (at_ b f (r + 1)) && is_empty (at_ b f (r + 2)) then [mkM f r f (r + 2) None] else [].
Definition wp_cap (b : board) (sep : option (Z * Z)) (f r df : Z) : list smove :=
  if onb (f + df) (r + 1) then
    if is_col Black (at_ b (f + df) (r + 1)) then with_promo White (mkM f r (f + df) (r + 1) None)
    else match sep with
         | Some (ef, er) => if (ef =? f + df)%Z && (er =? r + 1)%Z && is_empty (at_ b (f + df) (r + 1))
                            then [mkM f r (f + df) (r + 1) None] else []
         | None => []
         end
  else [].

Lemma pawn_moves_white s f r : s_turn s = White ->
  pawn_moves s f r = wp_one (s_board s) f r ++ wp_two (s_board s) f r
                     ++ wp_cap (s_board s) (s_ep s) f r 1 ++ wp_cap (s_board s) (s_ep s) f r (-1).
Proof. intros E. unfold pawn_moves. rewrite E. reflexivity. Qed.

(* ------------------------------------------------------------------ the comparison *)
Section PawnsWhite.
Variable p : Position.
Hypothesis Ht : turn p = false.
Hypothesis G : Good p.

Lemma s_ep_white : s_ep (abs_state p) = match ep p with Some e => Some (fz e, rz e) | None => None end.
Proof. unfold abs_state. cbn [s_ep]. destruct (ep p) as [e|]; [rewrite (rel_id p Ht)|]; reflexivity. Qed.

Lemma empty_bb_empty s : s < 64 -> N.testbit (empty_bb p) s = true -> empty_at p s.
Proof. intros Hs H. exact (vacant_empty p (g_wf p G) s Hs (empty_bit p s H) (empty_tb p s H)). Qed.

(* reading a square of the abstract board back *)
Lemma at_empty_inv b : b < 64 -> is_empty (at_ (board_of p) (fz b) (rz b)) = true -> empty_at p b.
Proof.
  intros Hb H. rewrite (at_sq p b Hb) in H. destruct (g_wf p G b Hb) as [He|(t & k & Hh)]; [exact He|].
  destruct t; [rewrite (man_theirs p Ht b k Hh) in H|rewrite (man_ours p Ht b k Hh) in H]; discriminate.
Qed.
Lemma at_black_inv b : b < 64 -> is_col Black (at_ (board_of p) (fz b) (rz b)) = true -> tb p b = true.
Proof.
  intros Hb H. rewrite (at_sq p b Hb) in H. destruct (g_wf p G b Hb) as [He|(t & k & Hh)].
  - rewrite (man_empty p Ht b He) in H. discriminate.
  - destruct t; [exact (proj1 (proj2 (proj2 Hh)))|rewrite (man_ours p Ht b k Hh) in H; discriminate].
Qed.
Lemma at_black b : b < 64 -> tb p b = true -> is_col Black (at_ (board_of p) (fz b) (rz b)) = true.
Proof.
  intros Hb H. destruct (theirs_holds p (g_wf p G) b Hb H) as (c & Hc).
  rewrite (at_sq p b Hb), (man_theirs p Ht b c Hc). reflexivity.
Qed.
Lemma at_not_black b : b < 64 -> tb p b = false -> is_col Black (at_ (board_of p) (fz b) (rz b)) = false.
Proof.
  intros Hb H. destruct (is_col Black (at_ (board_of p) (fz b) (rz b))) eqn:E; [|reflexivity].
  rewrite (at_black_inv b Hb E) in H. discriminate.
Qed.
Lemma at_empty b : b < 64 -> empty_at p b -> is_empty (at_ (board_of p) (fz b) (rz b)) = true.
Proof. intros Hb H. rewrite (at_sq p b Hb), (man_empty p Ht b H). reflexivity. Qed.

(* ---- membership in the four parts *)
Lemma wp_one_in f r b pr : b < 64 -> fz b = f -> rz b = (r + 1)%Z -> empty_at p b -> promo_cond b pr ->
  In (mkM f r (fz b) (rz b) (prk pr)) (wp_one (board_of p) f r).
Proof.
  intros Hb Ef Er He Hc. unfold wp_one. rewrite <- Er, <- Ef.
  rewrite (fz_rz_onb b Hb), (at_empty b Hb He). cbn [andb]. exact (with_promo_in _ _ _ _ b pr eq_refl Hc).
Qed.

Lemma wp_two_in f r b c : b < 64 -> c < 64 -> fz b = f -> rz b = (r + 1)%Z -> fz c = f -> rz c = (r + 2)%Z -> r = 1%Z ->
  empty_at p b -> empty_at p c -> In (mkM f r (fz c) (rz c) None) (wp_two (board_of p) f r).
Proof.
  intros Hb Hc Ef Er Ef' Er' E1 He He'. unfold wp_two. rewrite <- Er, <- Er'. subst f.
  rewrite (at_empty b Hb He).
  replace (at_ (board_of p) (fz b) (rz c)) with (at_ (board_of p) (fz c) (rz c)) by (rewrite Ef'; reflexivity).
  rewrite (at_empty c Hc He'). rewrite E1. cbn [Z.eqb Pos.eqb andb]. rewrite Ef'. left. reflexivity.
Qed.

Lemma wp_one_elim f r b sm : b < 64 -> fz b = f -> rz b = (r + 1)%Z -> In sm (wp_one (board_of p) f r) ->
  exists pr, sm = mkM f r (fz b) (rz b) (prk pr) /\ empty_at p b /\ promo_cond b pr.
Proof.
  intros Hb Ef Er. unfold wp_one. rewrite <- Er. subst f. rewrite (fz_rz_onb b Hb). cbn [andb].
  destruct (is_empty (at_ (board_of p) (fz b) (rz b))) eqn:He; [|contradiction]. intros H.
  destruct (with_promo_elim _ _ _ _ b sm eq_refl H) as (pr & -> & Hp).
  exists pr. split; [reflexivity|split; [exact (at_empty_inv b Hb He)|exact Hp]].
Qed.

Lemma wp_two_elim f r b c sm : b < 64 -> c < 64 -> fz b = f -> rz b = (r + 1)%Z -> fz c = f -> rz c = (r + 2)%Z ->
  In sm (wp_two (board_of p) f r) ->
  sm = mkM f r (fz c) (rz c) None /\ r = 1%Z /\ empty_at p b /\ empty_at p c.
Proof.
  intros Hb Hc Ef Er Ef' Er'. unfold wp_two. rewrite <- Er, <- Er'. subst f.
  replace (at_ (board_of p) (fz b) (rz c)) with (at_ (board_of p) (fz c) (rz c)) by (rewrite Ef'; reflexivity).
  destruct (r =? 1)%Z eqn:E1; [|contradiction]. apply Z.eqb_eq in E1. cbn [andb].
  destruct (is_empty (at_ (board_of p) (fz b) (rz b))) eqn:He1; [|contradiction].
  destruct (is_empty (at_ (board_of p) (fz c) (rz c))) eqn:He2; [|contradiction].
  cbn [andb]. intros [<-|[]]. rewrite Ef'.
  split; [reflexivity|split; [exact E1|split; [exact (at_empty_inv b Hb He1)|exact (at_empty_inv c Hc He2)]]].
Qed.

Lemma wp_cap_in sep f r df b pr : b < 64 -> fz b = (f + df)%Z -> rz b = (r + 1)%Z -> tb p b = true -> promo_cond b pr ->
  In (mkM f r (fz b) (rz b) (prk pr)) (wp_cap (board_of p) sep f r df).
Proof.
  intros Hb Ef Er Hc Hp. unfold wp_cap. rewrite <- Er, <- Ef.
  rewrite (fz_rz_onb b Hb), (at_black b Hb Hc). exact (with_promo_in _ _ _ _ b pr eq_refl Hp).
Qed.

Lemma wp_cap_ep_in f r df e : e < 64 -> fz e = (f + df)%Z -> rz e = (r + 1)%Z -> empty_at p e ->
  In (mkM f r (fz e) (rz e) None) (wp_cap (board_of p) (Some (fz e, rz e)) f r df).
Proof.
  intros Hb Ef Er He. unfold wp_cap. rewrite <- Er, <- Ef.
  rewrite (fz_rz_onb e Hb), (at_not_black e Hb (proj1 (proj2 He))), (at_empty e Hb He), !Z.eqb_refl.
  cbn [andb]. left. reflexivity.
Qed.

(* ---- the pawn moves of the rules, read at the bit / holds level *)
Definition pawn_case (a b pr : N) : Prop :=
  (b = a + 8 /\ empty_at p b /\ promo_cond b pr)
  \/ (b = a + 16 /\ rank_of a = 1 /\ empty_at p (a + 8) /\ empty_at p b /\ pr = NOPIECE)
  \/ ((b = a + 9 /\ a mod 8 <> 7 \/ b = a + 7 /\ a mod 8 <> 0)
      /\ (tb p b = true /\ promo_cond b pr \/ ep p = Some b /\ tb p b = false /\ pr = NOPIECE)).

Lemma dec_mk a b pr : dec p (mkMv a b pr) = mkM (fz a) (rz a) (fz b) (rz b) (prk pr).
Proof. rewrite (dec_white p Ht). reflexivity. Qed.

Lemma pawn_moves_split a :
  pawn_moves (abs_state p) (fz a) (rz a)
  = wp_one (board_of p) (fz a) (rz a) ++ wp_two (board_of p) (fz a) (rz a)
    ++ wp_cap (board_of p) (s_ep (abs_state p)) (fz a) (rz a) 1 ++ wp_cap (board_of p) (s_ep (abs_state p)) (fz a) (rz a) (-1).
Proof. exact (pawn_moves_white (abs_state p) (fz a) (rz a) (s_turn_white p Ht)). Qed.

Lemma pawn_moves_intro a b pr : b < 64 -> pawn_case a b pr ->
  In (dec p (mkMv a b pr)) (pawn_moves (abs_state p) (fz a) (rz a)).
Proof.
  intros Hb Hc. rewrite dec_mk, pawn_moves_split.
  destruct Hc as [(Eb & He & Hp) | [(Eb & Hr & He1 & He2 & Epr) | (Hgeo & Hcap)]].
  - apply in_or_app. left. apply wp_one_in; try assumption; subst b; [apply fz_n|apply rz_n].
  - apply in_or_app. right. apply in_or_app. left. rewrite Epr. change (prk NOPIECE) with (@None kind).
    apply (wp_two_in (fz a) (rz a) (a + 8) b); try assumption; subst b; try lia.
    + apply fz_n.
    + apply rz_n.
    + apply fz_nn.
    + apply rz_nn.
    + unfold rank_of in Hr. unfold rz. lia.
  - assert (Hd : exists df, (df = 1%Z \/ df = (-1)%Z) /\ fz b = (fz a + df)%Z /\ rz b = (rz a + 1)%Z).
    { destruct Hgeo as [(Eb & Hm)|(Eb & Hm)]; subst b.
      - exists 1%Z. split; [left; reflexivity|split; [exact (fz_ne a Hm)|exact (rz_ne a Hm)]].
      - exists (-1)%Z. split; [right; reflexivity|split; [exact (fz_nw a Hm)|exact (rz_nw a Hm)]]. }
    destruct Hd as (df & Hdf & Ef & Er).
    assert (Hin : In (mkM (fz a) (rz a) (fz b) (rz b) (prk pr)) (wp_cap (board_of p) (s_ep (abs_state p)) (fz a) (rz a) df)).
    { destruct Hcap as [(Htb & Hp)|(Ee & _ & Epr)].
      - apply wp_cap_in; assumption.
      - rewrite s_ep_white, Ee, Epr. change (prk NOPIECE) with (@None kind).
        destruct (g_ep p G b Ee) as (_ & Hemp & _). apply wp_cap_ep_in; assumption. }
    apply in_or_app. right. apply in_or_app. right. apply in_or_app.
    destruct Hdf as [E|E]; rewrite E in Hin; [left|right]; exact Hin.
Qed.

(* the converse: every pawn move of the rules is one of the four cases *)
Lemma onb_coords f r : onb f r = true -> (0 <= f < 8 /\ 0 <= r < 8)%Z.
Proof. unfold onb. intros H. repeat (apply andb_true_iff in H; destruct H as [H ?]). lia. Qed.

Lemma wp_cap_elim a df b sm : a < 64 -> b < 64 -> fz b = (fz a + df)%Z -> rz b = (rz a + 1)%Z ->
  In sm (wp_cap (board_of p) (s_ep (abs_state p)) (fz a) (rz a) df) ->
  exists pr, sm = dec p (mkMv a b pr)
             /\ (tb p b = true /\ promo_cond b pr \/ ep p = Some b /\ tb p b = false /\ pr = NOPIECE).
Proof.
  intros Ha Hb Ef Er. unfold wp_cap. rewrite <- Ef, <- Er. rewrite (fz_rz_onb b Hb).
  destruct (is_col Black (at_ (board_of p) (fz b) (rz b))) eqn:Ec.
  - intros H. destruct (with_promo_elim _ _ _ _ b sm eq_refl H) as (pr & -> & Hp).
    exists pr. split; [symmetry; apply dec_mk|left; split; [exact (at_black_inv b Hb Ec)|exact Hp]].
  - rewrite s_ep_white. destruct (ep p) as [e|] eqn:Ee; [|contradiction].
    destruct ((fz e =? fz b)%Z && (rz e =? rz b)%Z && is_empty (at_ (board_of p) (fz b) (rz b))) eqn:Ecs; [|contradiction].
    intros [<-|[]]. apply andb_true_iff in Ecs. destruct Ecs as [Ecs _]. apply andb_true_iff in Ecs. destruct Ecs as [E1 E2].
    apply Z.eqb_eq in E1, E2. destruct (g_ep p G e Ee) as ((_ & He64) & Hemp & _).
    assert (Eeb : e = b) by (apply coords_inj; assumption). subst e.
    exists NOPIECE. split; [symmetry; apply dec_mk|right; split; [reflexivity|split; [exact (proj1 (proj2 Hemp))|reflexivity]]].
Qed.

Lemma pawn_moves_char a sm : a < 64 -> In sm (pawn_moves (abs_state p) (fz a) (rz a)) ->
  exists b pr, b < 64 /\ sm = dec p (mkMv a b pr) /\ pawn_case a b pr.
Proof.
  intros Ha H. rewrite pawn_moves_split in H.
  apply in_app_or in H. destruct H as [H|H]; [|apply in_app_or in H; destruct H as [H|H]; [|apply in_app_or in H; destruct H as [H|H]]].
  - (* one step *)
    assert (Ho : onb (fz a) (rz a + 1) = true).
    { unfold wp_one in H. destruct (onb (fz a) (rz a + 1)); [reflexivity|contradiction]. }
    apply onb_coords in Ho. assert (Hb : a + 8 < 64) by (unfold fz, rz in Ho; lia).
    destruct (wp_one_elim (fz a) (rz a) (a + 8) sm Hb (fz_n a) (rz_n a) H) as (pr & E & He & Hp).
    exists (a + 8), pr. split; [exact Hb|split; [rewrite dec_mk; exact E|]].
    left. split; [reflexivity|split; [exact He|exact Hp]].
  - (* two steps *)
    assert (E1 : rz a = 1%Z).
    { unfold wp_two in H. destruct (rz a =? 1)%Z eqn:E1; [apply Z.eqb_eq in E1; exact E1|contradiction]. }
    assert (Hr : rank_of a = 1) by (unfold rz in E1; unfold rank_of; lia).
    assert (Hb : a + 8 < 64) by (unfold rank_of in Hr; lia). assert (Hc : a + 16 < 64) by (unfold rank_of in Hr; lia).
    destruct (wp_two_elim (fz a) (rz a) (a + 8) (a + 16) sm Hb Hc (fz_n a) (rz_n a) (fz_nn a) (rz_nn a) H) as (E & _ & He1 & He2).
    exists (a + 16), NOPIECE. split; [exact Hc|split; [rewrite dec_mk; exact E|]].
    right. left. split; [reflexivity|split; [exact Hr|split; [exact He1|split; [exact He2|reflexivity]]]].
  - (* capture towards the h-file *)
    assert (Ho : onb (fz a + 1) (rz a + 1) = true).
    { unfold wp_cap in H. destruct (onb (fz a + 1) (rz a + 1)); [reflexivity|contradiction]. }
    apply onb_coords in Ho. assert (Hm : a mod 8 <> 7) by (unfold fz in Ho; lia).
    assert (Hb : a + 9 < 64) by (unfold fz, rz in Ho; lia).
    destruct (wp_cap_elim a 1 (a + 9) sm Ha Hb (fz_ne a Hm) (rz_ne a Hm) H) as (pr & E & Hc).
    exists (a + 9), pr. split; [exact Hb|split; [exact E|]]. right. right. split; [left; split; [reflexivity|exact Hm]|exact Hc].
  - (* capture towards the a-file *)
    assert (Ho : onb (fz a + -1) (rz a + 1) = true).
    { unfold wp_cap in H. destruct (onb (fz a + -1) (rz a + 1)); [reflexivity|contradiction]. }
    apply onb_coords in Ho. assert (Hm : a mod 8 <> 0) by (unfold fz in Ho; lia).
    assert (Hb : a + 7 < 64) by (unfold fz, rz in Ho; lia).
    destruct (wp_cap_elim a (-1) (a + 7) sm Ha Hb (fz_nw a Hm) (rz_nw a Hm) H) as (pr & E & Hc).
    exists (a + 7), pr. split; [exact Hb|split; [exact E|]]. right. right. split; [right; split; [reflexivity|exact Hm]|exact Hc].
Qed.

(* ---- from a case to a pseudo-legal move *)
Lemma pawn_case_pseudo a b pr : a < 64 -> b < 64 -> holds p a false PAWN -> pawn_case a b pr ->
  In (dec p (mkMv a b pr)) (pseudo_moves (abs_state p)).
Proof.
  intros Ha Hb Hh Hc. apply (pseudo_white p Ht a PAWN _ Ha Hh).
  change (In (dec p (mkMv a b pr)) (pawn_moves (abs_state p) (fz a) (rz a))). exact (pawn_moves_intro a b pr Hb Hc).
Qed.

Lemma our_pawn s : s < 64 -> ub p s = true -> pb p 0 s = true -> holds p s false PAWN.
Proof. intros Hs Hu Hp. apply (ours_holds p (g_wf p G)); [unfold PAWN; lia|exact Hs|exact Hu|exact Hp]. Qed.

(* ---- the five blocks *)
Theorem singles_pseudo g : In g (blk_singles p) -> In (dec p (gen_mv g)) (pseudo_moves (abs_state p)).
Proof.
  unfold blk_singles. intros Hg. apply in_flat_map in Hg. destruct Hg as (to & Hto & Hg).
  destruct (promo_or_plain_cond _ _ _ Hg) as (pr & -> & Hpr).
  apply bits_spec in Hto. unfold g_singles in Hto. rewrite !N.land_spec in Hto.
  apply andb_true_iff in Hto. destruct Hto as [Hto _]. apply andb_true_iff in Hto. destruct Hto as [Hn He].
  rewrite testbit_north in Hn. apply andb_true_iff in Hn. destruct Hn as [Hn Hs]. apply andb_true_iff in Hn. destruct Hn as [Hlt H8].
  apply N.ltb_lt in Hlt. apply N.leb_le in H8. unfold g_pushers in Hs. destruct (pawn_src _ _ _ Hs) as (Hu & Hp).
  cbn [gen_mv]. assert (Ha : to - 8 < 64) by lia.
  apply (pawn_case_pseudo (to - 8) to pr Ha Hlt (our_pawn _ Ha Hu Hp)).
  left. split; [lia|split; [exact (empty_bb_empty to Hlt He)|exact Hpr]].
Qed.

Theorem doubles_pseudo g : In g (blk_doubles p) -> In (dec p (gen_mv g)) (pseudo_moves (abs_state p)).
Proof.
  unfold blk_doubles. intros Hg. apply in_map_iff in Hg. destruct Hg as (to & <- & Hto).
  apply bits_spec in Hto. unfold g_doubles in Hto. rewrite !N.land_spec in Hto.
  apply andb_true_iff in Hto. destruct Hto as [Hto _]. apply andb_true_iff in Hto. destruct Hto as [Hto H4].
  apply andb_true_iff in Hto. destruct Hto as [Hto Hne]. apply andb_true_iff in Hto. destruct Hto as [Hto He].
  unfold north_north in Hto. rewrite testbit_shl in Hto.
  apply andb_true_iff in Hto. destruct Hto as [Hn Hs]. apply andb_true_iff in Hn. destruct Hn as [Hlt H16].
  apply N.ltb_lt in Hlt. apply N.leb_le in H16. unfold g_pushers in Hs. destruct (pawn_src _ _ _ Hs) as (Hu & Hp).
  rewrite testbit_north in Hne. apply andb_true_iff in Hne. destruct Hne as [_ Hne].
  rewrite testbit_RANK4 in H4. apply andb_true_iff in H4. destruct H4 as [_ H4]. apply andb_true_iff in H4. destruct H4 as [H24 H32].
  apply N.leb_le in H24. apply N.ltb_lt in H32.
  cbn [gen_mv]. assert (Ha : to - 16 < 64) by lia.
  apply (pawn_case_pseudo (to - 16) to NOPIECE Ha Hlt (our_pawn _ Ha Hu Hp)).
  right. left. split; [lia|split; [unfold rank_of; lia|split; [|split; [exact (empty_bb_empty to Hlt He)|reflexivity]]]].
  replace (to - 16 + 8) with (to - 8) by lia. apply empty_bb_empty; [lia|exact Hne].
Qed.

Lemma capture_pseudo delta (shifted : N) g :
  (forall to, N.testbit shifted to = true ->
     to < 64 /\ delta <= to /\ (ub p (to - delta) = true /\ pb p 0 (to - delta) = true)
     /\ (delta = 9 /\ (to - delta) mod 8 <> 7 \/ delta = 7 /\ (to - delta) mod 8 <> 0)) ->
  In g (flat_map (promo_or_plain delta) (bits (N.land (N.land shifted (c_them p)) (gi_allowed (gen_info p))))) ->
  In (dec p (gen_mv g)) (pseudo_moves (abs_state p)).
Proof.
  intros Hsh Hg. apply in_flat_map in Hg. destruct Hg as (to & Hto & Hg).
  destruct (promo_or_plain_cond _ _ _ Hg) as (pr & -> & Hpr).
  apply bits_spec in Hto. rewrite !N.land_spec in Hto.
  apply andb_true_iff in Hto. destruct Hto as [Hto _]. apply andb_true_iff in Hto. destruct Hto as [Hs Htb].
  destruct (Hsh to Hs) as (Hlt & Hd & (Hu & Hp) & Hgeo).
  cbn [gen_mv]. assert (Ha : to - delta < 64) by lia.
  apply (pawn_case_pseudo (to - delta) to pr Ha Hlt (our_pawn _ Ha Hu Hp)).
  right. right. split; [|left; split; [exact Htb|exact Hpr]].
  destruct Hgeo as [(-> & Hm)|(-> & Hm)]; [left|right]; (split; [lia|exact Hm]).
Qed.

Theorem cap_ne_pseudo g : In g (blk_cap_ne p) -> In (dec p (gen_mv g)) (pseudo_moves (abs_state p)).
Proof.
  unfold blk_cap_ne, g_cap_ne. apply capture_pseudo. intros to H. rewrite east_north, testbit_north_east in H.
  repeat (apply andb_true_iff in H; destruct H as [H ?]).
  apply N.ltb_lt in H. match goal with X : (9 <=? to) = true |- _ => apply N.leb_le in X end.
  match goal with X : negb (to mod 8 =? 0) = true |- _ => apply negb_true_iff, N.eqb_neq in X end.
  split; [exact H|split; [assumption|split]].
  - apply (capsrc_bits p (south_west (gi_bxrays (gen_info p)))). assumption.
  - left. split; [reflexivity|lia].
Qed.

Theorem cap_nw_pseudo g : In g (blk_cap_nw p) -> In (dec p (gen_mv g)) (pseudo_moves (abs_state p)).
Proof.
  unfold blk_cap_nw, g_cap_nw. apply capture_pseudo. intros to H. rewrite testbit_north_west in H.
  repeat (apply andb_true_iff in H; destruct H as [H ?]).
  apply N.ltb_lt in H. match goal with X : (7 <=? to) = true |- _ => apply N.leb_le in X end.
  match goal with X : negb (to mod 8 =? 7) = true |- _ => apply negb_true_iff, N.eqb_neq in X end.
  split; [exact H|split; [assumption|split]].
  - apply (capsrc_bits p (south_east (gi_bxrays (gen_info p)))). assumption.
  - right. split; [reflexivity|lia].
Qed.

Theorem ep_pseudo g : In g (blk_ep p) -> In (dec p (gen_mv g)) (pseudo_moves (abs_state p)).
Proof.
  unfold blk_ep. destruct (ep p) as [e|] eqn:Ee; [|contradiction].
  destruct (g_ep p G e Ee) as ((H8 & H64) & Hemp & _).
  assert (Hcand : forall (ne : bool), In g (ep_candidate p (gen_info p) ne e) -> In (dec p (gen_mv g)) (pseudo_moves (abs_state p))).
  { intros ne Hg. unfold ep_candidate in Hg. cbv zeta in Hg.
    match type of Hg with In _ (if is_set ?sh e then _ else _) => destruct (is_set sh e) eqn:Hsh; [|contradiction] end.
    match type of Hg with In _ (if ?c then _ else _) => destruct c; [|contradiction] end.
    destruct Hg as [<-|[]]. unfold is_set in Hsh. cbn [gen_mv].
    destruct ne.
    - rewrite testbit_north_east in Hsh. repeat (apply andb_true_iff in Hsh; destruct Hsh as [Hsh ?]).
      match goal with X : (9 <=? e) = true |- _ => apply N.leb_le in X end.
      match goal with X : negb (e mod 8 =? 0) = true |- _ => apply negb_true_iff, N.eqb_neq in X end.
      match goal with X : N.testbit _ (e - 9) = true |- _ => rewrite N.land_spec in X; apply andb_true_iff in X; destruct X as [X _];
        rewrite N.land_spec in X; apply andb_true_iff in X; destruct X as [X _]; rewrite N.land_spec in X; apply andb_true_iff in X; destruct X as [Xu Xp] end.
      assert (Ha : e - 9 < 64) by lia.
      apply (pawn_case_pseudo (e - 9) e NOPIECE Ha H64 (our_pawn _ Ha Xu Xp)).
      right. right. split; [left; split; lia|right; split; [exact Ee|split; [exact (proj1 (proj2 Hemp))|reflexivity]]].
    - rewrite testbit_north_west in Hsh. repeat (apply andb_true_iff in Hsh; destruct Hsh as [Hsh ?]).
      match goal with X : (7 <=? e) = true |- _ => apply N.leb_le in X end.
      match goal with X : negb (e mod 8 =? 7) = true |- _ => apply negb_true_iff, N.eqb_neq in X end.
      match goal with X : N.testbit _ (e - 7) = true |- _ => rewrite N.land_spec in X; apply andb_true_iff in X; destruct X as [X _];
        rewrite N.land_spec in X; apply andb_true_iff in X; destruct X as [X _]; rewrite N.land_spec in X; apply andb_true_iff in X; destruct X as [Xu Xp] end.
      assert (Ha : e - 7 < 64) by lia.
      apply (pawn_case_pseudo (e - 7) e NOPIECE Ha H64 (our_pawn _ Ha Xu Xp)).
      right. right. split; [right; split; lia|right; split; [exact Ee|split; [exact (proj1 (proj2 Hemp))|reflexivity]]]. }
  intros Hg. apply in_app_or in Hg. destruct Hg as [Hg|Hg]; [exact (Hcand true Hg)|exact (Hcand false Hg)].
Qed.

End PawnsWhite.

About pawn_moves_intro. About pawn_moves_char. About pawn_case_pseudo.
About singles_pseudo. About doubles_pseudo. About cap_ne_pseudo. About cap_nw_pseudo. About ep_pseudo.
Print Assumptions singles_pseudo.
Print Assumptions doubles_pseudo.
Print Assumptions cap_ne_pseudo.
Print Assumptions cap_nw_pseudo.
Print Assumptions ep_pseudo.
Print Assumptions pawn_moves_char.
