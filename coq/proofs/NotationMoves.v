(* C09: on the moves the generator emits, the printed string (a) is the notation of the specification applied to the
   decoded move, (b) determines the move, (c) is found again by the move parser. *)
From Coq Require Import NArith ZArith List Bool Lia ZifyN ZifyBool String.
From Rawr Require Import Consts Bits Magic Position MoveGen MakeMove MakeStages Fen Uci Rules Abs UciSpec
                         BitsFacts ShiftFacts FlipFacts AbsFacts LsbFacts HashFacts MakeFacts MakeAbs CastleFacts CastleAbs KeyAbs
                         NotationFacts CountFacts GenSane GenNoDup CaptureFacts.
Import ListNotations.
Local Open Scope list_scope.
Local Open Scope N_scope.
Ltac Zify.zify_post_hook ::= Z.div_mod_to_equations.

(* ------------------------------------------------------------------ what every generated move looks like *)
Lemma legal_bounds p m : Good p -> CastleGood p -> In m (legal_moves p) ->
  m_from m < 64 /\ m_to m < 64 /\ NotationFacts.promo_ok m.
Proof.
  intros G CG Hm. unfold legal_moves in Hm. apply in_map_iff in Hm. destruct Hm as (g & <- & Hg).
  destruct (generated_move_sane p g G CG Hg) as [(S & _)|[(S & _)|(S & _)]].
  - split; [exact (sn_from _ _ _ S)|split; [exact (sn_to _ _ _ S)|]]. unfold NotationFacts.promo_ok.
    destruct (sn_promo _ _ _ S) as [E|(_ & E)]; [rewrite E; unfold NOPIECE; auto 6|lia].
  - pose proof (cs_from _ _ _ S). pose proof (cs_to _ _ _ S). pose proof (cs_promo _ _ _ S) as E.
    split; [lia|split; [lia|]]. unfold NotationFacts.promo_ok. rewrite E. unfold NOPIECE. auto 6.
  - pose proof (cs_from _ _ _ S). pose proof (cs_to _ _ _ S). pose proof (cs_promo _ _ _ S) as E.
    split; [lia|split; [lia|]]. unfold NotationFacts.promo_ok. rewrite E. unfold NOPIECE. auto 6.
Qed.

(* a generated move is a castling move exactly when its target is ours *)
Inductive shape (p : Position) (m : Mv) : Prop :=
| ShPlain k : sane p m k -> ub p (m_to m) = false -> shape p m
| ShCastle kside : csane p m kside -> (if kside then us_ksc p else us_qsc p) = true -> ub p (m_to m) = true -> shape p m.

Lemma legal_shape p m : Good p -> CastleGood p -> In m (legal_moves p) -> shape p m.
Proof.
  intros G CG Hm. unfold legal_moves in Hm. apply in_map_iff in Hm. destruct Hm as (g & <- & Hg).
  destruct (generated_move_sane p g G CG Hg) as [(S & _)|[(S & R)|(S & R)]].
  - apply (ShPlain p _ (gk g) S). destruct (sn_target _ _ _ S) as [(H & _)|(c & _ & H & _)]; exact H.
  - apply (ShCastle p _ true S R). destruct (cs_rook _ _ _ S) as (_ & H & _). exact H.
  - apply (ShCastle p _ false S R). destruct (cs_rook _ _ _ S) as (_ & H & _). exact H.
Qed.

(* ------------------------------------------------------------------ the three fields of the printed string *)
Definition printed_to (p : Position) (m : Mv) : N :=
  if negb (is_frc p) && ub p (m_to m) then (if file_of (m_from m) <? file_of (m_to m) then G1 else C1) else m_to m.

Lemma printed_to_lt p m : m_to m < 64 -> printed_to p m < 64.
Proof. intros H. unfold printed_to. destruct (negb (is_frc p) && ub p (m_to m)); [destruct (_ <? _); unfold G1, C1; lia|exact H]. Qed.

Lemma uci_fields p m1 m2 : m_from m1 < 64 -> m_to m1 < 64 -> m_from m2 < 64 -> m_to m2 < 64 ->
  NotationFacts.promo_ok m1 -> NotationFacts.promo_ok m2 -> to_uci p m1 = to_uci p m2 ->
  m_from m1 = m_from m2 /\ printed_to p m1 = printed_to p m2 /\ m_promo m1 = m_promo m2.
Proof.
  intros H1 H2 H3 H4 P1 P2 H. rewrite !to_uci_shape in H. cbv zeta in H.
  change (is_set (c_us p) ?x) with (ub p x) in H. fold (printed_to p m1) (printed_to p m2) in H.
  pose proof (printed_to_lt p m1 H2) as L1. pose proof (printed_to_lt p m2 H4) as L2.
  assert (Hsplit : forall a b c a' b' c' : str, List.length a = 2%nat -> List.length a' = 2%nat -> List.length b = 2%nat -> List.length b' = 2%nat ->
            a ++ b ++ c = a' ++ b' ++ c' -> a = a' /\ b = b' /\ c = c').
  { intros a b c a' b' c' La La' Lb Lb' E.
    destruct a as [|x [|y [|]]]; try discriminate. destruct a' as [|x' [|y' [|]]]; try discriminate.
    destruct b as [|u [|v [|]]]; try discriminate. destruct b' as [|u' [|v' [|]]]; try discriminate.
    cbn in E. injection E as -> -> -> -> ->. auto. }
  apply Hsplit in H; try apply show_sq_length. destruct H as (Ha & Hb & Hc).
  split; [|split].
  - destruct (turn p).
    + apply flip_sq_inj. apply show_sq_inj; [apply flip_sq_lt|apply flip_sq_lt|]; assumption.
    + apply show_sq_inj; assumption.
  - destruct (turn p).
    + apply flip_sq_inj. apply show_sq_inj; [apply flip_sq_lt|apply flip_sq_lt|]; assumption.
    + apply show_sq_inj; assumption.
  - unfold NotationFacts.promo_ok in *. unfold promo_suffix in Hc.
    destruct P1 as [E1|[E1|[E1|[E1|E1]]]]; destruct P2 as [E2|[E2|[E2|[E2|E2]]]]; rewrite E1, E2 in *; try reflexivity; discriminate.
Qed.

(* king moves come from the king blocks *)
Lemma king_tag_cls p g : gk g = KING -> 14 <= cls p g.
Proof.
  destruct g as [[[k f] t] pr]. cbn [gk fst]. intros ->. unfold cls.
  change (KING =? PAWN) with false; change (KING =? KNIGHT) with false; change (KING =? BISHOP) with false;
  change (KING =? ROOK) with false; change (KING =? QUEEN) with false. cbv iota beta.
  repeat match goal with |- context [if ?c then _ else _] => destruct c end; lia.
Qed.

Lemma king_move_blocks p g : Good p -> CastleGood p -> In g (move_generator p) -> gk g = KING ->
  In g (king_steps p) \/ In g (blk_castle_k p) \/ In g (blk_castle_q p).
Proof.
  intros G CG Hg Hk. pose proof (king_tag_cls p g Hk) as Hc.
  destruct (in_generator_block p g Hg) as (i & b & Hib & Hgb).
  unfold tagged_blocks in Hib. cbv zeta in Hib. cbn [In] in Hib.
  repeat destruct Hib as [Hib|Hib]; try contradiction; injection Hib as <- <-; auto; exfalso.
  - rewrite (pawn_cls p g 8 false (singles_shape p g Hgb)) in Hc by lia. cbn in Hc. lia.
  - rewrite (pawn_cls p g 16 false (doubles_shape p g Hgb)) in Hc by lia. cbn in Hc. lia.
  - rewrite (pawn_cls p g 9 true (cap_ne_shape p g Hgb)) in Hc by lia. cbn in Hc. lia.
  - rewrite (pawn_cls p g 7 true (cap_nw_shape p g Hgb)) in Hc by lia. cbn in Hc. lia.
  - destruct (ep_shape p G g Hgb) as [X|X]; [rewrite (pawn_cls p g 9 false X) in Hc by lia|rewrite (pawn_cls p g 7 false X) in Hc by lia]; cbn in Hc; lia.
  - rewrite (knights_cls p g Hgb) in Hc. lia.
  - rewrite (bishop_pinned_cls p g _ _ Hgb) in Hc. lia.
  - rewrite (bishop_free_cls p g _ _ Hgb) in Hc. lia.
  - rewrite (rook_pinned_cls p g _ _ Hgb) in Hc. lia.
  - rewrite (rook_free_cls p g _ _ Hgb) in Hc. lia.
  - rewrite (queen_b_cls p g _ _ Hgb) in Hc. lia.
  - rewrite (queen_r_cls p g _ _ Hgb) in Hc. lia.
  - rewrite (queen_free_cls p g _ _ Hgb) in Hc. lia.
Qed.

(* a king step goes to an adjacent square *)
Lemma king_step_adjacent p g : In g (king_steps p) -> N.testbit (adjacent (bit (m_from (gen_mv g)))) (m_to (gen_mv g)) = true.
Proof.
  unfold king_steps. intros Hg. apply in_flat_map in Hg. destruct Hg as (from & Hf & Hg).
  apply in_flat_map in Hg. destruct Hg as (to & Hto & Hg).
  match type of Hg with In _ (if ?c then _ else _) => destruct c; [|contradiction] end.
  destruct Hg as [<-|[]]. cbn [gen_mv m_from m_to]. apply bits_spec in Hto. rewrite N.land_spec in Hto.
  apply andb_true_iff in Hto. exact (proj1 Hto).
Qed.

(* ------------------------------------------------------------------ distinct generated moves print differently *)
(* standard mode is meant for the standard geometry: a side that may still castle has its king on the e-file *)
Definition std_geo (p : Position) : Prop :=
  is_frc p = false -> us_ksc p = true \/ us_qsc p = true -> lsb (N.land (kings p) (c_us p)) = E1.

Lemma csane_from_ksq p m kside : Good p -> csane p m kside -> m_from m = lsb (N.land (kings p) (c_us p)).
Proof.
  intros G S. pose proof (cs_king _ _ _ S) as HK. pose proof (cs_from _ _ _ S) as Hf.
  assert (Hku : popcount (N.land (c_us p) (kings p)) = 1) by (rewrite king_comm; exact (g_king p G)).
  pose proof (from_is_king0 p m KING ltac:(lia) ltac:(pose proof (cs_to _ _ _ S); lia) HK Hku) as E.
  rewrite N.eqb_refl in E. apply N.eqb_eq in E. rewrite E, N.land_comm. reflexivity.
Qed.

Lemma e1_not_adjacent_g1_c1 : N.testbit (adjacent (bit E1)) G1 = false /\ N.testbit (adjacent (bit E1)) C1 = false.
Proof. split; vm_compute; reflexivity. Qed.

Lemma Mv_eq (a b : Mv) : m_from a = m_from b -> m_to a = m_to b -> m_promo a = m_promo b -> a = b.
Proof. destruct a, b. simpl. intros -> -> ->. reflexivity. Qed.

Theorem to_uci_inj_legal p m1 m2 : Good p -> CastleGood p -> std_geo p ->
  In m1 (legal_moves p) -> In m2 (legal_moves p) -> to_uci p m1 = to_uci p m2 -> m1 = m2.
Proof.
  intros G CG SG H1 H2 E.
  destruct (legal_bounds p m1 G CG H1) as (F1' & T1 & P1). destruct (legal_bounds p m2 G CG H2) as (F2 & T2 & P2).
  destruct (uci_fields p m1 m2 F1' T1 F2 T2 P1 P2 E) as (Ef & Et & Ep).
  assert (Hto : m_to m1 = m_to m2); [|exact (Mv_eq m1 m2 Ef Hto Ep)].
  unfold printed_to in Et. destruct (is_frc p) eqn:Hfrc; cbn [negb andb] in Et; [exact Et|].
  (* standard mode: a castling move prints the g/c file *)
  assert (Hmix : forall ma mb, In ma (legal_moves p) -> In mb (legal_moves p) -> m_from ma = m_from mb ->
            ub p (m_to ma) = true -> ub p (m_to mb) = false ->
            (if file_of (m_from ma) <? file_of (m_to ma) then G1 else C1) = m_to mb -> False).
  { intros ma mb Ha Hb Efr Ua Ub Eq.
    destruct (legal_shape p ma G CG Ha) as [k S U|kside S R _]; [congruence|].
    pose proof (csane_from_ksq p ma kside G S) as Eks.
    assert (Hk1 : lsb (N.land (kings p) (c_us p)) = E1) by (apply SG; [exact Hfrc|destruct kside; auto]).
    unfold legal_moves in Hb. apply in_map_iff in Hb. destruct Hb as (g & <- & Hg).
    pose proof (generated_tag p g G CG Hg) as Tg. rewrite <- Efr in Tg.
    pose proof (holds_kind _ _ _ _ _ Tg (cs_king _ _ _ S)) as Hk.
    destruct (king_move_blocks p g G CG Hg Hk) as [Hs|[Hc|Hc]].
    - pose proof (king_step_adjacent p g Hs) as Hadj. rewrite <- Efr, Eks, Hk1, <- Eq in Hadj.
      destruct e1_not_adjacent_g1_c1 as (A1 & A2).
      destruct (file_of (m_from ma) <? file_of (m_to ma)); rewrite Hadj in *; discriminate.
    - destruct (castle_block_k p G CG g Hc) as (S' & _). destruct (cs_rook _ _ _ S') as (_ & U' & _). cbn [negb] in U'. congruence.
    - destruct (castle_block_q p G CG g Hc) as (S' & _). destruct (cs_rook _ _ _ S') as (_ & U' & _). cbn [negb] in U'. congruence. }
  destruct (ub p (m_to m1)) eqn:U1, (ub p (m_to m2)) eqn:U2.
  - (* both castle: the wing decides the printed file *)
    destruct (legal_shape p m1 G CG H1) as [k S U|ks1 S1 R1 _]; [congruence|].
    destruct (legal_shape p m2 G CG H2) as [k S U|ks2 S2 R2 _]; [congruence|].
    pose proof (cs_side _ _ _ S1) as D1'. pose proof (cs_side _ _ _ S2) as D2.
    pose proof (cs_from _ _ _ S1). pose proof (cs_to _ _ _ S1). pose proof (cs_from _ _ _ S2). pose proof (cs_to _ _ _ S2).
    assert (Hfile : forall a b, a < 8 -> b < 8 -> (file_of a <? file_of b) = (a <? b)).
    { intros a b Ha Hb. unfold file_of. rewrite !N.mod_small by lia. reflexivity. }
    rewrite !Hfile in Et by assumption. rewrite <- D1', <- D2 in Et.
    assert (Eks : ks1 = ks2) by (destruct ks1, ks2; try reflexivity; discriminate Et).
    rewrite (cs_rsq _ _ _ S1), (cs_rsq _ _ _ S2), Eks. reflexivity.
  - exfalso. exact (Hmix m1 m2 H1 H2 Ef U1 U2 Et).
  - exfalso. exact (Hmix m2 m1 H2 H1 (eq_sym Ef) U2 U1 (eq_sym Et)).
  - exact Et.
Qed.

(* ------------------------------------------------------------------ the move parser finds a printed move again *)
Lemma str_eqb_refl s : str_eqb s s = true.
Proof. induction s as [|a s IH]; cbn [str_eqb]; [reflexivity|]. rewrite N.eqb_refl, IH. reflexivity. Qed.
Lemma str_eqb_eq a : forall b, str_eqb a b = true -> a = b.
Proof.
  induction a as [|x a IH]; intros [|y b] H; cbn [str_eqb] in H; try discriminate; [reflexivity|].
  apply andb_true_iff in H. destruct H as [H1 H2]. apply N.eqb_eq in H1. rewrite H1, (IH b H2). reflexivity.
Qed.

Lemma find_unique {A} (f : A -> bool) l x : In x l -> f x = true -> (forall y, In y l -> f y = true -> y = x) -> find f l = Some x.
Proof.
  induction l as [|a l IH]; intros Hin Hx Hu; [contradiction|]. cbn [find].
  destruct (f a) eqn:Ea.
  - f_equal. apply Hu; [left; reflexivity|exact Ea].
  - destruct Hin as [->|Hin]; [congruence|]. apply IH; [exact Hin|exact Hx|intros y Hy; apply Hu; right; exact Hy].
Qed.

Theorem find_move_roundtrip p m : Good p -> CastleGood p -> std_geo p -> In m (legal_moves p) ->
  find_move p (to_uci p m) = Some m.
Proof.
  intros G CG SG Hm. unfold find_move. cbv zeta.
  rewrite (find_unique (fun m' => str_eqb (to_uci p m') (to_uci p m)) (legal_moves p) m Hm (str_eqb_refl _)); [reflexivity|].
  intros y Hy E. apply str_eqb_eq in E. exact (to_uci_inj_legal p y m G CG SG Hy Hm E).
Qed.

(* ------------------------------------------------------------------ the printed string is the specification's notation *)
Lemma sq_name_show a : sq_name (Z.of_N (a mod 8)) (Z.of_N (a / 8)) = show_sq a.
Proof. unfold sq_name, show_sq. rewrite !N2Z.id. reflexivity. Qed.

Lemma castle_is_castle p m kside : csane p m kside -> is_castle (abs_state p) (dec p m) = true.
Proof.
  intros S. pose proof (cs_rook _ _ _ S) as HR. pose proof (cs_king _ _ _ S) as HK.
  assert (Hf : m_from m < 64) by (pose proof (cs_from _ _ _ S); lia).
  assert (Ht : m_to m < 64) by (pose proof (cs_to _ _ _ S); lia).
  unfold is_castle. rewrite (mover_is0 p m KING Hf HK).
  assert (Htgt : at_ (s_board (abs_state p)) (tf (dec p m)) (tr (dec p m)) = Some (colour_of_turn (turn p), kind_of_N ROOK)).
  { unfold abs_state, dec. cbn [s_board tf tr]. rewrite at_board by (apply rel_sq_lt; exact Ht).
    rewrite (man_at_holds p (rel_sq p (m_to m)) false ROOK).
    - rewrite xorb_false_r. reflexivity.
    - rewrite rel_sq_invol. exact HR. }
  rewrite Htgt. unfold abs_state. cbn [s_turn is_man]. rewrite colour_refl'. reflexivity.
Qed.

Lemma promo_part p m : NotationFacts.promo_ok m ->
  promo_suffix (m_promo m) = match promo (dec p m) with Some k => promo_letter k | None => [] end.
Proof.
  unfold NotationFacts.promo_ok, dec. cbn [promo]. intros [E|[E|[E|[E|E]]]]; rewrite E; reflexivity.
Qed.

Theorem to_uci_is_move_str p m : Good p -> CastleGood p -> In m (legal_moves p) ->
  to_uci p m = move_str (is_frc p) (abs_state p) (dec p m).
Proof.
  intros G CG Hm. destruct (legal_bounds p m G CG Hm) as (Hf & Ht & Hp).
  rewrite to_uci_shape. cbv zeta. unfold move_str. cbv zeta.
  change (is_set (c_us p) ?x) with (ub p x).
  assert (Efrom : sq_name (mf (dec p m)) (mr (dec p m)) = show_sq (if turn p then flip_sq (m_from m) else m_from m)).
  { unfold dec. cbn [mf mr]. rewrite sq_name_show. reflexivity. }
  rewrite Efrom. f_equal. f_equal; [|exact (promo_part p m Hp)].
  destruct (legal_shape p m G CG Hm) as [k S U|kside S R U].
  - rewrite (not_castle p m k S), U, andb_false_r. cbn [andb]. unfold dec. cbn [tf tr]. rewrite sq_name_show. reflexivity.
  - rewrite (castle_is_castle p m kside S), U, andb_true_r. cbn [andb]. destruct (is_frc p); cbn [negb].
    + unfold dec. cbn [tf tr]. rewrite sq_name_show. reflexivity.
    + pose proof (cs_from _ _ _ S) as F8. pose proof (cs_to _ _ _ S) as T8.
      unfold dec. cbn [mf tf tr].
      assert (Ecmp : (Z.of_N (rel_sq p (m_from m) mod 8) <? Z.of_N (rel_sq p (m_to m) mod 8))%Z = (file_of (m_from m) <? file_of (m_to m))).
      { rewrite !file_rel by lia. unfold file_of. destruct (N.ltb_spec (m_from m mod 8) (m_to m mod 8)); destruct (Z.ltb_spec (Z.of_N (m_from m mod 8)) (Z.of_N (m_to m mod 8))); try reflexivity; lia. }
      rewrite Ecmp.
      assert (Hrank : forall s, s < 8 -> (if turn p then flip_sq s else s) / 8 = rel_sq p (m_to m) / 8).
      { intros s Hs. change (if turn p then flip_sq s else s) with (rel_sq p s). rewrite !rank_rel by lia.
        destruct (turn p); rewrite !N.div_small by lia; reflexivity. }
      assert (Hfile : forall s, s < 8 -> (if turn p then flip_sq s else s) mod 8 = s).
      { intros s Hs. change (if turn p then flip_sq s else s) with (rel_sq p s). rewrite file_rel by lia. apply N.mod_small. lia. }
      unfold sq_name, show_sq. destruct (file_of (m_from m) <? file_of (m_to m)).
      * rewrite (Hrank G1), (Hfile G1) by (unfold G1; lia). rewrite N2Z.id. reflexivity.
      * rewrite (Hrank C1), (Hfile C1) by (unfold C1; lia). rewrite N2Z.id. reflexivity.
Qed.

Theorem good_pos_notation p : good_pos_b p = true -> std_geo p ->
  (forall m, In m (legal_moves p) -> to_uci p m = move_str (is_frc p) (abs_state p) (dec p m))
  /\ (forall m1 m2, In m1 (legal_moves p) -> In m2 (legal_moves p) -> to_uci p m1 = to_uci p m2 -> m1 = m2)
  /\ (forall m, In m (legal_moves p) -> find_move p (to_uci p m) = Some m).
Proof.
  intros H SG. destruct (good_pos_sound p H) as (G & CG & _). split; [|split].
  - intros m. exact (to_uci_is_move_str p m G CG).
  - intros m1 m2. exact (to_uci_inj_legal p m1 m2 G CG SG).
  - intros m. exact (find_move_roundtrip p m G CG SG).
Qed.

(* ------------------------------------------------------------------ C05: what the move matcher accepts *)
Definition conventional (p : Position) (t : str) (m : Mv) : Prop :=
  let white := negb (turn p) in
  (exists qside : bool,
     (if qside then (tok_is t "e1c1"%string && white) || (tok_is t "e8c8"%string && negb white)
      else (tok_is t "e1g1"%string && white) || (tok_is t "e8g8"%string && negb white)) = true
     /\ m = mkMv E1 (sq_of (if qside then cf1 p else cf0 p) 0) NOPIECE)
  /\ ub p (m_to m) = true /\ In m (legal_moves p).

Theorem find_move_sound p t m : find_move p t = Some m ->
  (In m (legal_moves p) /\ to_uci p m = t) \/ conventional p t m.
Proof.
  unfold find_move. cbv zeta. destruct (find _ (legal_moves p)) as [m'|] eqn:Ef.
  - intros E. injection E as <-. apply find_some in Ef. destruct Ef as (Hin & He). left. split; [exact Hin|exact (str_eqb_eq _ _ He)].
  - intros H. right.
    destruct ((tok_is t "e1g1"%string && negb (turn p)) || (tok_is t "e8g8"%string && negb (negb (turn p)))) eqn:Ek.
    + match type of H with (if ?c then _ else _) = _ => destruct c eqn:Ec; [|discriminate] end.
      injection H as <-. apply andb_true_iff in Ec. destruct Ec as [Eu Ex].
      split; [exists false; split; [exact Ek|reflexivity]|split; [exact Eu|]].
      apply existsb_exists in Ex. destruct Ex as (y & Hy & Eq). unfold mv_eqb in Eq.
      apply andb_true_iff in Eq. destruct Eq as [Eq E3]. apply andb_true_iff in Eq. destruct Eq as [E1' E2].
      apply N.eqb_eq in E1', E2, E3. rewrite (Mv_eq _ y E1' E2 E3). exact Hy.
    + destruct ((tok_is t "e1c1"%string && negb (turn p)) || (tok_is t "e8c8"%string && negb (negb (turn p)))) eqn:Eq'; [|discriminate].
      match type of H with (if ?c then _ else _) = _ => destruct c eqn:Ec; [|discriminate] end.
      injection H as <-. apply andb_true_iff in Ec. destruct Ec as [Eu Ex].
      split; [exists true; split; [exact Eq'|reflexivity]|split; [exact Eu|]].
      apply existsb_exists in Ex. destruct Ex as (y & Hy & Eq). unfold mv_eqb in Eq.
      apply andb_true_iff in Eq. destruct Eq as [Eq E3]. apply andb_true_iff in Eq. destruct Eq as [E1' E2].
      apply N.eqb_eq in E1', E2, E3. rewrite (Mv_eq _ y E1' E2 E3). exact Hy.
Qed.

(* a token no generated move prints and that is not a conventional castling string is unknown *)
Theorem find_move_none p t : (forall m, In m (legal_moves p) -> to_uci p m <> t) ->
  (forall m, ~ conventional p t m) -> find_move p t = None.
Proof.
  intros H1 H2. destruct (find_move p t) as [m|] eqn:E; [|reflexivity].
  destruct (find_move_sound p t m E) as [(Hin & Eq)|Hc]; [destruct (H1 m Hin Eq)|destruct (H2 m Hc)].
Qed.
