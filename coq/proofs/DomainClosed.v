(* The domain D of the properties (`in_D`, spec/Abs.v) is closed under every move the generator emits and under the null
   move out of check: every position reached by generated moves from a position of D is a position of D.
   Route: in_D p -> InvR p (DomainInv) -> InvR (makemove true p m) (GenLegal.invR_step) -> in_D (makemove true p m) by the
   converse of DomainInv (`invR_in_D`), which needs four facts the invariant does not carry: the material bounds, the
   counters, no pawn on the first or last rank, the en-passant square on the sixth rank. *)
From Coq Require Import NArith ZArith List Bool Lia ZifyN ZifyBool.
From Rawr Require Import Consts Bits Magic Position MoveGen MakeMove MakeStages Rules Abs
                         BitsFacts ShiftFacts FlipFacts AbsFacts LsbFacts HashFacts MakeFacts MakeAbs CastleFacts CastleAbs KeyAbs KeyMove
                         AttackFacts AttackAbs FenFacts BoundFacts CountFacts NotationFacts GenSane GenNoDup CaptureFacts NoKingCapture
                         Closure ClosureNull MenCount EpRetro LegalBridge DomainInv GenLegal.
Import ListNotations.
Local Open Scope N_scope.
Ltac Zify.zify_post_hook ::= Z.div_mod_to_equations.

(* ------------------------------------------------------------------ validate, the converse of FenFacts.validate_sound *)
Lemma occ_zero X : X = 0 -> is_occ X = false.
Proof. intros ->. reflexivity. Qed.

Lemma flag_test (f c : bool) : (f = true -> c = true) -> f && negb c = false.
Proof. destruct f; [intros H; rewrite (H eq_refl)|]; reflexivity. Qed.

Theorem validate_complete p :
  emp2 (pawns p) RANK18 -> emp2 (get_white p) (get_black p) -> pieces_disjoint p ->
  (forall e, ep p = Some e -> rank_of e = 5 /\ N.land (N.land (south (bit e)) (c_them p)) (pawns p) <> 0
                              /\ N.land (bit e) (occupied p) = 0) ->
  popcount (N.land (get_white p) (kings p)) = 1 -> popcount (N.land (get_black p) (kings p)) = 1 ->
  (0 <= halfmoves p)%Z -> (1 <= fullmoves p)%Z ->
  (us_ksc p = true -> rank_of (lsb (N.land (c_us p) (kings p))) = 0
                      /\ is_set (N.land (c_us p) (rooks p)) (sq_of (cf0 p) 0) = true) ->
  (us_qsc p = true -> rank_of (lsb (N.land (c_us p) (kings p))) = 0
                      /\ is_set (N.land (c_us p) (rooks p)) (sq_of (cf1 p) 0) = true) ->
  (them_ksc p = true -> rank_of (lsb (N.land (c_them p) (kings p))) = 7
                        /\ is_set (N.land (c_them p) (rooks p)) (sq_of (cf2 p) 7) = true) ->
  (them_qsc p = true -> rank_of (lsb (N.land (c_them p) (kings p))) = 7
                        /\ is_set (N.land (c_them p) (rooks p)) (sq_of (cf3 p) 7) = true) ->
  is_sq_attacked p (lsb (N.land (c_them p) (kings p))) true = false ->
  validate p = None.
Proof.
  unfold emp2, pieces_disjoint.
  intros H1 H2 (D1 & D2 & D3 & D4 & D5 & D6 & D7 & D8 & D9 & D10 & D11 & D12 & D13 & D14 & D15) Hep Kw Kb Hh Hf R1 R2 R3 R4 Hs.
  unfold validate.
  rewrite (occ_zero _ H1), (occ_zero _ H2), (occ_zero _ D1), (occ_zero _ D2), (occ_zero _ D3), (occ_zero _ D4), (occ_zero _ D5),
          (occ_zero _ D6), (occ_zero _ D7), (occ_zero _ D8), (occ_zero _ D9), (occ_zero _ D10), (occ_zero _ D11), (occ_zero _ D12),
          (occ_zero _ D13), (occ_zero _ D14), (occ_zero _ D15).
  assert (Eep : match ep p with
                | Some e =>
                    if negb (rank_of e =? 5) then Some 18
                    else if is_emp (N.land (N.land (south (bit e)) (c_them p)) (pawns p)) then Some 19
                    else if is_occ (N.land (bit e) (occupied p)) then Some 20 else None
                | None => None end = None).
  { destruct (ep p) as [e|]; [|reflexivity]. destruct (Hep e eq_refl) as (E1 & E2 & E3).
    rewrite E1. change (negb (5 =? 5)) with false. cbv iota.
    unfold is_emp. destruct (N.eqb_spec (N.land (N.land (south (bit e)) (c_them p)) (pawns p)) 0) as [E|_]; [contradiction|].
    rewrite (occ_zero _ E3). reflexivity. }
  cbv zeta iota. rewrite Eep. rewrite Kw, Kb. change (negb (1 =? 1)) with false. cbv iota.
  replace (halfmoves p <? 0)%Z with false by (symmetry; apply Z.ltb_ge; exact Hh).
  replace (fullmoves p <? 1)%Z with false by (symmetry; apply Z.ltb_ge; exact Hf).
  cbv zeta.
  rewrite (flag_test (us_ksc p) (rank_of (lsb (N.land (c_us p) (kings p))) =? 0)) by (intros F; apply N.eqb_eq; exact (proj1 (R1 F))).
  rewrite (flag_test (us_qsc p) (rank_of (lsb (N.land (c_us p) (kings p))) =? 0)) by (intros F; apply N.eqb_eq; exact (proj1 (R2 F))).
  rewrite (flag_test (them_ksc p) (rank_of (lsb (N.land (c_them p) (kings p))) =? 7)) by (intros F; apply N.eqb_eq; exact (proj1 (R3 F))).
  rewrite (flag_test (them_qsc p) (rank_of (lsb (N.land (c_them p) (kings p))) =? 7)) by (intros F; apply N.eqb_eq; exact (proj1 (R4 F))).
  rewrite (flag_test (us_ksc p) _ (fun F => proj2 (R1 F))), (flag_test (us_qsc p) _ (fun F => proj2 (R2 F))),
          (flag_test (them_ksc p) _ (fun F => proj2 (R3 F))), (flag_test (them_qsc p) _ (fun F => proj2 (R4 F))).
  rewrite Hs. reflexivity.
Qed.

(* ------------------------------------------------------------------ small tools *)
Lemma impl_b (a b : bool) : (a = true -> b = true) -> negb a || b = true.
Proof. destruct a; [intros H; exact (H eq_refl)|reflexivity]. Qed.

Lemma testbit_RANK18 i : N.testbit RANK18 i = (i <? 64) && ((i <? 8) || (56 <=? i)).
Proof. apply (testbit_small_mask RANK18 eq_refl (fun i => (i <? 8) || (56 <=? i))). vm_compute. reflexivity. Qed.

(* no pawn on the first or the last rank, square by square *)
Definition pawns_inside (q : Position) : Prop := forall s, s < 64 -> pb q 0 s = true -> 8 <= s < 56.

Lemma pawns_inside_emp q : pawns_inside q -> emp2 (pawns q) RANK18.
Proof.
  intros H. unfold emp2. apply N.bits_inj. intros i. rewrite N.land_spec, N.bits_0, testbit_RANK18.
  destruct (N.ltb_spec i 64) as [Hi|Hi]; [|apply andb_false_r].
  destruct (N.testbit (pawns q) i) eqn:E; [|reflexivity]. pose proof (H i Hi E) as Hr. cbn [andb].
  destruct (N.ltb_spec i 8); [lia|]. destruct (N.leb_spec 56 i); [lia|]. reflexivity.
Qed.
Lemma emp_pawns_inside q : emp2 (pawns q) RANK18 -> pawns_inside q.
Proof.
  unfold emp2. intros H s Hs Hp. pose proof (N.bits_0 s) as Hz. rewrite <- H, N.land_spec, testbit_RANK18 in Hz.
  change (N.testbit (pawns q) s) with (pb q 0 s) in Hz. rewrite Hp in Hz. cbn [andb] in Hz.
  destruct (N.ltb_spec s 64); [|lia]. destruct (N.ltb_spec s 8); [discriminate Hz|]. destruct (N.leb_spec 56 s); [discriminate Hz|]. lia.
Qed.

(* ------------------------------------------------------------------ what the invariant gives of the domain test *)
Section FromInv.
Variable q : Position.
Hypothesis I : Inv q.
Let G := iv_good q I.

Lemma fi_men : pieces_disjoint q /\ N.land (c_us q) (c_them q) = 0
  /\ N.lor (c_us q) (c_them q) = N.lor (N.lor (N.lor (pawns q) (knights q)) (N.lor (bishops q) (rooks q))) (N.lor (queens q) (kings q)).
Proof. exact (WF_men q (g_wf q G) (g_bb q G)). Qed.

Lemma fi_wb : emp2 (get_white q) (get_black q).
Proof. unfold emp2, get_white, get_black. destruct fi_men as (_ & Hd & _). destruct (turn q); [rewrite N.land_comm|]; exact Hd. Qed.

Lemma fi_kw : popcount (N.land (get_white q) (kings q)) = 1.
Proof. unfold get_white. rewrite N.land_comm. destruct (turn q); [exact (iv_tking q I)|exact (g_king q G)]. Qed.
Lemma fi_kb : popcount (N.land (get_black q) (kings q)) = 1.
Proof. unfold get_black. rewrite N.land_comm. destruct (turn q); [exact (g_king q G)|exact (iv_tking q I)]. Qed.

Lemma fi_uk64 : uksq q < 64.
Proof. exact (proj2 (king_holds q G)). Qed.
Lemma fi_tk64 : tksq q < 64.
Proof. exact (proj2 (their_king_holds q (g_wf q G) (g_bb q G) (iv_tking q I))). Qed.

Lemma rook_bit s t : holds q s t ROOK -> is_set (N.land (if t then c_them q else c_us q) (rooks q)) s = true.
Proof.
  intros (_ & Hu & Ht & Hp). unfold is_set. rewrite N.land_spec.
  change (N.testbit (rooks q) s) with (pb q 3 s). rewrite (Hp 3) by lia.
  destruct t; [change (N.testbit (c_them q) s) with (tb q s); rewrite Ht|change (N.testbit (c_us q) s) with (ub q s); rewrite Hu]; reflexivity.
Qed.

Lemma fi_r1 : us_ksc q = true -> rank_of (lsb (N.land (c_us q) (kings q))) = 0
                                 /\ is_set (N.land (c_us q) (rooks q)) (sq_of (cf0 q) 0) = true.
Proof.
  intros F. rewrite (N.land_comm (c_us q)). destruct (cg_k q (iv_cg q I) F) as (Hrook & Hlt). destruct (g_cf q G) as (C0 & _).
  split; [unfold rank_of, sq_of in *; lia|exact (rook_bit _ false Hrook)].
Qed.
Lemma fi_r2 : us_qsc q = true -> rank_of (lsb (N.land (c_us q) (kings q))) = 0
                                 /\ is_set (N.land (c_us q) (rooks q)) (sq_of (cf1 q) 0) = true.
Proof.
  intros F. rewrite (N.land_comm (c_us q)). destruct (cg_q q (iv_cg q I) F) as (Hrook & Hlt & H8).
  split; [unfold rank_of; lia|exact (rook_bit _ false Hrook)].
Qed.
Lemma fi_r3 : them_ksc q = true -> rank_of (lsb (N.land (c_them q) (kings q))) = 7
                                   /\ is_set (N.land (c_them q) (rooks q)) (sq_of (cf2 q) 7) = true.
Proof.
  intros F. rewrite (N.land_comm (c_them q)). destruct (iv_tk q I F) as (Hrook & Hlo & Hhi). destruct (g_cf q G) as (_ & _ & C2 & _).
  fold (tksq q). split; [unfold rank_of, sq_of in *; lia|exact (rook_bit _ true Hrook)].
Qed.
Lemma fi_r4 : them_qsc q = true -> rank_of (lsb (N.land (c_them q) (kings q))) = 7
                                   /\ is_set (N.land (c_them q) (rooks q)) (sq_of (cf3 q) 7) = true.
Proof.
  intros F. rewrite (N.land_comm (c_them q)). destruct (iv_tq q I F) as (Hrook & Hlo). pose proof fi_tk64 as H64.
  fold (tksq q). split; [unfold rank_of, sq_of in *; lia|exact (rook_bit _ true Hrook)].
Qed.

Lemma fi_safe : is_sq_attacked q (lsb (N.land (c_them q) (kings q))) true = false.
Proof. rewrite (N.land_comm (c_them q)). exact (iv_safe q I). Qed.

Lemma fi_ep e : ep q = Some e -> rank_of e = 5 ->
  rank_of e = 5 /\ N.land (N.land (south (bit e)) (c_them q)) (pawns q) <> 0 /\ N.land (bit e) (occupied q) = 0.
Proof.
  intros He Hr. destruct (g_ep q G e He) as ((H8 & H64) & (Eu & Et & _) & (_ & _ & Vt & Vp)).
  split; [exact Hr|split].
  - intros Hz. pose proof (N.bits_0 (e - 8)) as Hb. rewrite <- Hz, !N.land_spec, testbit_south, testbit_bit in Hb by exact H64.
    replace (e - 8 + 8) with e in Hb by lia. rewrite N.eqb_refl in Hb.
    change (N.testbit (c_them q) (e - 8)) with (tb q (e - 8)) in Hb. change (N.testbit (pawns q) (e - 8)) with (pb q 0 (e - 8)) in Hb.
    rewrite Vt, (Vp 0) in Hb by lia. discriminate Hb.
  - apply N.bits_inj. intros i. rewrite N.land_spec, N.bits_0, testbit_bit by exact H64.
    destruct (N.eqb_spec i e) as [->|]; [|reflexivity]. unfold occupied. rewrite N.lor_spec.
    change (ub q e || tb q e = false). rewrite Eu, Et. reflexivity.
Qed.

Lemma fi_consistent : consistent q = true.
Proof.
  destruct (g_bb q G) as (B1 & B2 & B3 & B4 & B5 & B6 & B7 & B8). destruct fi_men as (_ & _ & Hocc).
  unfold consistent, lt64. apply N.ltb_lt in B1, B2, B3, B4, B5, B6, B7, B8. rewrite B1, B2, B3, B4, B5, B6, B7, B8. cbn [andb].
  apply N.eqb_eq. exact Hocc.
Qed.

Lemma fi_geometry : rights_geometry q = true.
Proof.
  unfold rights_geometry. cbv zeta. rewrite !(N.land_comm (c_us q) (kings q)), !(N.land_comm (c_them q) (kings q)). fold (uksq q) (tksq q).
  destruct (g_cf q G) as (C0 & C1 & C2 & C3). pose proof fi_tk64 as H64.
  rewrite (proj2 (N.leb_le _ _) C0), (proj2 (N.leb_le _ _) C1), (proj2 (N.leb_le _ _) C2), (proj2 (N.leb_le _ _) C3). cbn [andb].
  rewrite (impl_b (us_ksc q) (file_of (uksq q) <? cf0 q)), (impl_b (us_qsc q) (cf1 q <? file_of (uksq q))),
          (impl_b (them_ksc q) (file_of (tksq q) <? cf2 q)), (impl_b (them_qsc q) (cf3 q <? file_of (tksq q))); [reflexivity| | | |].
  - intros F. destruct (iv_tq q I F) as (_ & Hlo). apply N.ltb_lt. unfold file_of, sq_of in *. lia.
  - intros F. destruct (iv_tk q I F) as (_ & Hlo & Hhi). apply N.ltb_lt. unfold file_of, sq_of in *. lia.
  - intros F. destruct (cg_q q (iv_cg q I) F) as (_ & Hlt & H8). fold (uksq q) in Hlt, H8. apply N.ltb_lt. unfold file_of, sq_of in *. lia.
  - intros F. destruct (cg_k q (iv_cg q I) F) as (_ & Hlt). fold (uksq q) in Hlt. apply N.ltb_lt. unfold file_of, sq_of in *. lia.
Qed.

Lemma fi_ep64 : match ep q with Some e => e <? 64 | None => true end = true.
Proof. destruct (ep q) as [e|] eqn:E; [|reflexivity]. apply N.ltb_lt. exact (proj2 (proj1 (g_ep q G e E))). Qed.

Lemma fi_hash : (hash q =? calculate_hash q) = true.
Proof. apply N.eqb_eq. exact (kg_hash q (iv_kg q I)). Qed.
End FromInv.

(* ------------------------------------------------------------------ ep_retro from ep_ok_b: DomainInv's section Unpush, read backwards *)
Section Unpush2.
Variables (p : Position) (e : N).
Hypothesis HW : WF p.
Hypothesis HB : HashFacts.BB8 p.
Hypothesis Hr : 40 <= e < 48.
Hypothesis Hvic : holds p (e - 8) true PAWN.
Hypothesis Horg : empty_at p (e + 8).
Hypothesis Ku : popcount (N.land (kings p) (c_us p)) = 1.
Hypothesis Kt : popcount (N.land (kings p) (c_them p)) = 1.
Let v := e - 8.
Let o := e + 8.
Let U := unpush p e.
Local Notation BB := (N.lor (bit (e - 8)) (bit (e + 8))).

Lemma u2_bb_bit s : s < 64 -> N.testbit BB s = (s =? v) || (s =? o).
Proof. intros Hs. rewrite N.lor_spec, !testbit_bit by (unfold v, o; lia). reflexivity. Qed.

Lemma u2_ub s : ub U s = ub p s.
Proof. unfold U, unpush. cbv zeta. rewrite ub_xor_piece, ub_xor_them. reflexivity. Qed.
Lemma u2_tb s : s < 64 -> tb U s = xorb (tb p s) ((s =? v) || (s =? o)).
Proof. intros Hs. unfold U, unpush. cbv zeta. rewrite tb_xor_piece, tb_xor_them, (u2_bb_bit s Hs). reflexivity. Qed.
Lemma u2_pb j s : j <= 5 -> s < 64 -> pb U j s = xorb (pb p j s) ((0 =? j) && ((s =? v) || (s =? o))).
Proof.
  intros Hj Hs. unfold U, unpush. cbv zeta. rewrite pb_xor_piece, pb_xor_them, (u2_bb_bit s Hs) by (unfold PAWN; lia). reflexivity.
Qed.

Lemma u2_at_v : empty_at U v.
Proof.
  destruct Hvic as (_ & Hu & Ht & Hp). fold v in Hu, Ht, Hp.
  assert (Hv : v < 64) by (unfold v; lia).
  split; [rewrite u2_ub; exact Hu|split].
  - rewrite (u2_tb v Hv), Ht, N.eqb_refl. reflexivity.
  - intros j Hj. rewrite (u2_pb j v Hj Hv), (Hp j Hj), N.eqb_refl, N.eqb_sym. unfold PAWN. cbn [orb]. rewrite andb_true_r. apply xorb_nilpotent.
Qed.

Lemma u2_at_o : holds U o true PAWN.
Proof.
  destruct Horg as (Hu & Ht & Hp). fold o in Hu, Ht, Hp.
  assert (Ho : o < 64) by (unfold o; lia).
  split; [unfold PAWN; lia|split; [rewrite u2_ub; exact Hu|split]].
  - rewrite (u2_tb o Ho), Ht, N.eqb_refl, orb_true_r. reflexivity.
  - intros j Hj. rewrite (u2_pb j o Hj Ho), (Hp j Hj), N.eqb_refl, orb_true_r, andb_true_r, N.eqb_sym, xorb_false_l. unfold PAWN. reflexivity.
Qed.

Lemma u2_same s : s < 64 -> s <> v -> s <> o -> same_at p U s.
Proof.
  intros Hs Hv Ho.
  assert (E : (s =? v) || (s =? o) = false).
  { destruct (N.eqb_spec s v); [contradiction|]. destruct (N.eqb_spec s o); [contradiction|]. reflexivity. }
  split; [apply u2_ub|split].
  - rewrite (u2_tb s Hs), E. apply xorb_false_r.
  - intros j Hj. rewrite (u2_pb j s Hj Hs), E, andb_false_r. apply xorb_false_r.
Qed.

Lemma u2_WFU : WF U.
Proof.
  intros s Hs. destruct (N.eq_dec s v) as [->|Hv]; [left; exact u2_at_v|].
  destruct (N.eq_dec s o) as [->|Ho]; [right; exists true, PAWN; exact u2_at_o|].
  exact (same_wf p U s (u2_same s Hs Hv Ho) (HW s Hs)).
Qed.

Lemma u2_BBU : HashFacts.BB8 U.
Proof.
  destruct HB as (B1 & B2 & B3 & B4 & B5 & B6 & B7 & B8).
  assert (Hb : BB < TWO64) by (apply lor_lt; apply bit_lt).
  unfold HashFacts.BB8, U, unpush. cbv zeta.
  cbn [xor_piece xor_them set_piece set_them get_piece PAWN c_us c_them pawns knights bishops rooks queens kings].
  repeat split; try assumption; apply lxor_lt; assumption.
Qed.

Lemma u2_king_them : N.land (kings U) (c_them U) = N.land (kings p) (c_them p).
Proof.
  destruct HB as (B1 & B2 & B3 & B4 & B5 & B6 & B7 & B8).
  assert (EK : kings U = kings p) by reflexivity. rewrite EK.
  apply board_ext; [apply land_lt_l; exact B8|apply land_lt_l; exact B8|].
  intros i Hi. rewrite !N.land_spec.
  change (N.testbit (c_them U) i) with (tb U i). change (N.testbit (c_them p) i) with (tb p i). change (N.testbit (kings p) i) with (pb p 5 i).
  rewrite (u2_tb i Hi).
  destruct (N.eqb_spec i v) as [->|Hv].
  - destruct Hvic as (_ & _ & _ & Hp). fold v in Hp. rewrite (Hp 5) by lia. reflexivity.
  - destruct (N.eqb_spec i o) as [->|Ho].
    + destruct Horg as (_ & _ & Hp). fold o in Hp. rewrite (Hp 5) by lia. reflexivity.
    + cbn [orb]. rewrite xorb_false_r. reflexivity.
Qed.

Lemma u2_ksq_lt : uksq p < 64.
Proof.
  destruct HB as (B1 & B2 & B3 & B4 & B5 & B6 & B7 & B8).
  unfold uksq. apply lsb_lt64; [apply land_lt_l; exact B8|apply popcount1_nonzero, Ku].
Qed.

Lemma u2_board :
  let a_now := rel_sq p v in
  let a_org := rel_sq p o in
  board_of U = put (put (board_of p) (Z.of_N (a_now mod 8)) (Z.of_N (a_now / 8)) None)
                   (Z.of_N (a_org mod 8)) (Z.of_N (a_org / 8)) (Some (colour_of_turn (negb (turn p)), Pawn)).
Proof.
  cbv zeta.
  assert (Hv : v < 64) by (unfold v; lia). assert (Ho : o < 64) by (unfold o; lia).
  pose proof (rel_sq_lt p v Hv) as Hv'. pose proof (rel_sq_lt p o Ho) as Ho'.
  rewrite (put_board (board_of p) (rel_sq p v) None Hv' (board_length p)).
  rewrite put_board by (exact Ho' || (rewrite upd_length; apply board_length)).
  apply list_ext64; [apply board_length|rewrite !upd_length; apply board_length|].
  intros i Hi.
  rewrite nth_upd by (rewrite upd_length, board_length; lia).
  rewrite nth_upd by (rewrite board_length; lia).
  rewrite !nth_board by exact Hi.
  set (a := N.of_nat i). assert (Ha : a < 64) by (unfold a; lia).
  assert (Er : rel_sq U a = rel_sq p a) by reflexivity.
  assert (Et : turn U = turn p) by reflexivity.
  destruct (Nat.eqb_spec i (N.to_nat (rel_sq p o))) as [E1|E1].
  - assert (Ea : rel_sq p a = o) by (rewrite <- (rel_sq_invol p o); f_equal; unfold a; lia).
    pose proof u2_at_o as Hh. rewrite <- Ea, <- Er in Hh. rewrite (man_at_holds U a true PAWN Hh).
    rewrite Et. destruct (turn p); reflexivity.
  - destruct (Nat.eqb_spec i (N.to_nat (rel_sq p v))) as [E2|E2].
    + assert (Ea : rel_sq p a = v) by (rewrite <- (rel_sq_invol p v); f_equal; unfold a; lia).
      pose proof u2_at_v as Hh. rewrite <- Ea, <- Er in Hh. exact (man_at_empty U a Hh).
    + apply man_at_same; [reflexivity|].
      apply u2_same; [apply rel_sq_lt; exact Ha| |].
      * intros E. apply E2. rewrite <- E, rel_sq_invol. unfold a. lia.
      * intros E. apply E1. rewrite <- E, rel_sq_invol. unfold a. lia.
Qed.

(* the attack query on the un-pushed position is the test of ep_retro *)
Lemma u2_retro : ep p = Some e -> ep_ok_b p = true -> ep_retro p = true.
Proof.
  intros He Hok. unfold ep_ok_b in Hok. rewrite He in Hok. apply andb_true_iff in Hok. destruct Hok as [H1 H2].
  unfold ep_retro. rewrite He. cbv zeta. rewrite H1. cbn [andb].
  rewrite (king_sq_us p HW HB Ku u2_ksq_lt). cbv zeta.
  apply negb_true_iff in H2. fold (uksq p) in H2.
  assert (Kt' : popcount (N.land (kings U) (get_side U false)) = 1).
  { unfold get_side. rewrite u2_king_them. exact Kt. }
  fold U in H2. rewrite (attack_query_is_the_rules U (uksq p) false u2_WFU u2_BBU u2_ksq_lt Kt') in H2.
  unfold spec_attacked in H2. cbv zeta in H2.
  assert (Et : turn U = turn p) by reflexivity. rewrite Et in H2.
  change (rel_sq U (uksq p)) with (rel_sq p (uksq p)) in H2.
  pose proof u2_board as B. cbv zeta in B. rewrite B in H2. fold v o. rewrite H2. reflexivity.
Qed.
End Unpush2.

(* ------------------------------------------------------------------ the converse of DomainInv *)
Theorem invR_in_D q : InvR q -> material q = true -> (0 <= halfmoves q)%Z -> (1 <= fullmoves q)%Z ->
  N.land (pawns q) RANK18 = 0 -> (forall e, ep q = Some e -> rank_of e = 5) -> in_D q = true.
Proof.
  intros [I Hok] Hmat Hh Hf Hp18 Hep. pose proof (iv_good q I) as G.
  assert (Hval : validate q = None).
  { apply validate_complete.
    - exact Hp18.
    - exact (fi_wb q I).
    - exact (proj1 (fi_men q I)).
    - intros e He. exact (fi_ep q I e He (Hep e He)).
    - exact (fi_kw q I).
    - exact (fi_kb q I).
    - exact Hh.
    - exact Hf.
    - exact (fi_r1 q I).
    - exact (fi_r2 q I).
    - exact (fi_r3 q I).
    - exact (fi_r4 q I).
    - exact (fi_safe q I). }
  assert (Hretro : ep_retro q = true).
  { destruct (ep q) as [e|] eqn:He; [|unfold ep_retro; rewrite He; reflexivity].
    destruct (g_ep q G e He) as ((H8 & H64) & Hemp & Hvic). pose proof (Hep e eq_refl) as Hr5.
    assert (Hr : 40 <= e < 48) by (unfold rank_of in Hr5; lia).
    assert (Horg : empty_at q (e + 8)).
    { unfold ep_ok_b in Hok. rewrite He in Hok. apply andb_true_iff in Hok. destruct Hok as [H1 _]. apply negb_true_iff in H1.
      unfold is_set, occupied in H1. rewrite N.lor_spec in H1. apply orb_false_iff in H1. destruct H1 as [Hu Ht].
      destruct (g_wf q G (e + 8) ltac:(lia)) as [Hx|(t & k & (_ & Hu' & Ht' & _))]; [exact Hx|exfalso].
      unfold ub, tb, is_set in Hu', Ht'. rewrite Hu in Hu'. rewrite Ht in Ht'. destruct t; discriminate. }
    exact (u2_retro q e (g_wf q G) (g_bb q G) Hr Hvic Horg (g_king q G) (iv_tking q I) He Hok). }
  unfold in_D, valid_b. rewrite Hval, (fi_consistent q I), (fi_geometry q I), (fi_hash q I), (fi_ep64 q I), Hretro, Hmat. reflexivity.
Qed.
Print Assumptions invR_in_D.

(* ------------------------------------------------------------------ counting the men of one kind and one side *)
Definition KB (q : Position) (t : bool) (j : N) : N := N.land (get_piece q j) (if t then c_them q else c_us q).
Definition cntk (q : Position) (t : bool) (j : N) : N := popcount (KB q t j).

Lemma KB_bit q t j s : N.testbit (KB q t j) s = pb q j s && (if t then tb q s else ub q s).
Proof. unfold KB. rewrite N.land_spec. destruct t; reflexivity. Qed.
Lemma KB_lt q t j : HashFacts.BB8 q -> KB q t j < TWO64.
Proof. intros (B1 & B2 & _). unfold KB. rewrite N.land_comm. apply land_lt_l. destruct t; assumption. Qed.
Lemma KB_holds q t j s t' j' : holds q s t' j' -> j <= 5 -> N.testbit (KB q t j) s = (j =? j') && Bool.eqb t t'.
Proof. intros (_ & Hu & Ht & Hp) Hj. rewrite KB_bit, (Hp j Hj). destruct t; [rewrite Ht|rewrite Hu]; destruct t'; reflexivity. Qed.
Lemma KB_empty q t j s : empty_at q s -> j <= 5 -> N.testbit (KB q t j) s = false.
Proof. intros (_ & _ & Hp) Hj. rewrite KB_bit, (Hp j Hj). reflexivity. Qed.

Lemma bswap_bit Y a : a < 64 -> N.testbit (bswap Y) (flip_sq a) = N.testbit Y a.
Proof.
  intros Ha. rewrite testbit_bswap. pose proof (flip_sq_lt _ Ha) as L. apply N.ltb_lt in L. rewrite L. cbn [andb].
  change (flipbit (flip_sq a)) with (flip_sq (flip_sq a)). rewrite flip_sq_invol. reflexivity.
Qed.

(* X: a board of the result (flipped frame), Y: the board of the position before *)
Lemma cnt_sub X Y : X < TWO64 -> Y < TWO64 ->
  (forall a, a < 64 -> N.testbit X (flip_sq a) = true -> N.testbit Y a = true) -> popcount X <= popcount Y.
Proof.
  intros HX HY H. rewrite <- (popcount_bswap Y HY). apply popcount_mono; [exact HX|apply bswap_lt|].
  intros j Hj. pose proof (testbit_lt _ j HX Hj) as Hj64. pose proof (flip_sq_lt _ Hj64) as Ha.
  rewrite <- (flip_sq_invol j) in Hj |- *. rewrite (bswap_bit Y _ Ha). exact (H _ Ha Hj).
Qed.

Lemma cnt_move X Y f t : X < TWO64 -> Y < TWO64 -> f < 64 -> t < 64 -> N.testbit Y f = true ->
  (forall a, a < 64 -> N.testbit X (flip_sq a) = true -> a = t \/ (a <> f /\ N.testbit Y a = true)) -> popcount X <= popcount Y.
Proof.
  intros HX HY Hf Ht Hyf H. rewrite <- (popcount_bswap Y HY).
  apply (popcount_move X (bswap Y) (flip_sq f) (flip_sq t) HX (bswap_lt _) (flip_sq_lt _ Hf) (flip_sq_lt _ Ht)).
  - rewrite (bswap_bit Y f Hf). exact Hyf.
  - intros j Hj. pose proof (testbit_lt _ j HX Hj) as Hj64. pose proof (flip_sq_lt _ Hj64) as Ha.
    rewrite <- (flip_sq_invol j) in Hj. destruct (H _ Ha Hj) as [E|(N1 & Hy)].
    + left. rewrite <- E. symmetry. apply flip_sq_invol.
    + right. split.
      * intros E. apply N1. rewrite E. apply flip_sq_invol.
      * rewrite <- (flip_sq_invol j), (bswap_bit Y _ Ha). exact Hy.
Qed.

Lemma cnt_clear X Y f : X < TWO64 -> Y < TWO64 -> f < 64 -> N.testbit Y f = true ->
  (forall a, a < 64 -> N.testbit X (flip_sq a) = true -> a <> f /\ N.testbit Y a = true) -> popcount X + 1 <= popcount Y.
Proof.
  intros HX HY Hf Hyf H. rewrite <- (popcount_bswap Y HY).
  rewrite (popcount_clear (bswap Y) (flip_sq f) (bswap_lt _) (flip_sq_lt _ Hf)) by (rewrite (bswap_bit Y f Hf); exact Hyf).
  apply N.add_le_mono_r. apply popcount_mono; [exact HX|apply ldiff_lt, bswap_lt|].
  intros j Hj. pose proof (testbit_lt _ j HX Hj) as Hj64. pose proof (flip_sq_lt _ Hj64) as Ha.
  rewrite <- (flip_sq_invol j) in Hj. destruct (H _ Ha Hj) as (N1 & Hy).
  rewrite N.ldiff_spec, (testbit_bit _ j (flip_sq_lt _ Hf)).
  rewrite <- (flip_sq_invol j), (bswap_bit Y _ Ha), Hy. rewrite flip_sq_invol.
  destruct (N.eqb_spec j (flip_sq f)) as [E|_]; [|reflexivity]. exfalso. apply N1. rewrite E. apply flip_sq_invol.
Qed.

Lemma cnt_set X Y t : X < TWO64 -> Y < TWO64 -> t < 64 ->
  (forall a, a < 64 -> N.testbit X (flip_sq a) = true -> a = t \/ N.testbit Y a = true) -> popcount X <= popcount Y + 1.
Proof.
  intros HX HY Ht H. rewrite <- (popcount_bswap Y HY).
  apply (N.le_trans _ (popcount (N.lor (bswap Y) (bit (flip_sq t))))); [|apply popcount_set; [apply bswap_lt|apply flip_sq_lt; exact Ht]].
  apply popcount_mono; [exact HX|apply lor_lt; [apply bswap_lt|apply bit_lt]|].
  intros j Hj. pose proof (testbit_lt _ j HX Hj) as Hj64. pose proof (flip_sq_lt _ Hj64) as Ha.
  rewrite <- (flip_sq_invol j) in Hj. rewrite N.lor_spec, (testbit_bit _ j (flip_sq_lt _ Ht)).
  destruct (H _ Ha Hj) as [E|Hy].
  - rewrite <- E, flip_sq_invol, N.eqb_refl. apply orb_true_r.
  - rewrite <- (flip_sq_invol j), (bswap_bit Y _ Ha), Hy. reflexivity.
Qed.

(* the material test of one side, on the six counts *)
Definition mat_ok (c0 c1 c2 c3 c4 tot : N) : Prop :=
  c0 <= 8 /\ tot <= 16 /\ (c1 - 2) + (c2 - 2) + (c3 - 2) + (c4 - 1) + c0 <= 8.

Lemma material_side_ok (q : Position) (t : bool) :
  material_side q (if t then c_them q else c_us q) = true <->
  mat_ok (cntk q t 0) (cntk q t 1) (cntk q t 2) (cntk q t 3) (cntk q t 4) (popcount (if t then c_them q else c_us q)).
Proof.
  unfold material_side, mat_ok, cntk, KB. cbv zeta. cbn [get_piece].
  rewrite !andb_true_iff, !N.leb_le. tauto.
Qed.

Lemma mat_ok_mono c0 c1 c2 c3 c4 tot d0 d1 d2 d3 d4 dtot :
  mat_ok c0 c1 c2 c3 c4 tot -> d0 <= c0 -> d1 <= c1 -> d2 <= c2 -> d3 <= c3 -> d4 <= c4 -> dtot <= tot -> mat_ok d0 d1 d2 d3 d4 dtot.
Proof. unfold mat_ok. lia. Qed.

Lemma mat_ok_promo c0 c1 c2 c3 c4 tot d0 d1 d2 d3 d4 dtot (e1 e2 e3 e4 : N) :
  mat_ok c0 c1 c2 c3 c4 tot -> d0 + 1 <= c0 -> d1 <= c1 + e1 -> d2 <= c2 + e2 -> d3 <= c3 + e3 -> d4 <= c4 + e4 ->
  e1 + e2 + e3 + e4 <= 1 -> dtot <= tot -> mat_ok d0 d1 d2 d3 d4 dtot.
Proof. unfold mat_ok. lia. Qed.

Lemma flip_inside a : a < 64 -> 8 <= a < 56 -> 8 <= flip_sq a < 56.
Proof. intros Ha H. change flip_sq with flipbit. rewrite flipbit_arith by exact Ha. lia. Qed.

(* ------------------------------------------------------------------ an ordinary move: pawns, counts *)
Section NCdom.
Variables (u : bool) (p : Position) (m : Mv) (k : N).
Hypothesis S : sane p m k.
Hypothesis I : Inv0 p.
Hypothesis Hin : pawns_inside p.
(* a pawn moves up, and promotes exactly on the last rank *)
Hypothesis Hpw : k = PAWN -> rank_of (m_to m) = rank_of (m_from m) + 1 \/ m_to m = m_from m + 16.
Hypothesis Hprom : k = PAWN -> if rank_of (m_to m) =? 7 then 1 <= m_promo m <= 4 else m_promo m = NOPIECE.
Let R := makemove u p m.
Let L := landed k (m_promo m).
Let G := i0_good p I.

Lemma ncd_L : (m_promo m = NOPIECE /\ L = k) \/ (k = PAWN /\ 1 <= m_promo m <= 4 /\ L = m_promo m).
Proof.
  unfold L, landed. destruct (sn_promo _ _ _ S) as [E|(Ek & E)].
  - left. rewrite E. split; reflexivity.
  - right. split; [exact Ek|split; [exact E|]]. destruct (N.eqb_spec (m_promo m) NOPIECE) as [E'|_]; [unfold NOPIECE in E'; lia|reflexivity].
Qed.

Lemma ncd_pawns_inside : pawns_inside R.
Proof.
  intros s Hs Hp. set (a := flip_sq s). assert (Ha : a < 64) by (apply flip_sq_lt; exact Hs).
  assert (Es : s = flip_sq a) by (unfold a; rewrite flip_sq_invol; reflexivity). rewrite Es in Hp |- *. unfold R in Hp.
  destruct (rview_all u p m k S I a Ha) as [E He|E Hh|Hb E He|N2 Hpe He|t j N1 N2 N3 Hh Hr].
  - destruct He as (_ & _ & Hq). rewrite (Hq 0) in Hp by lia. discriminate.
  - destruct Hh as (_ & _ & _ & Hq). rewrite (Hq 0) in Hp by lia. fold L in Hp. apply N.eqb_eq in Hp.
    apply flip_inside; [exact Ha|]. rewrite E.
    destruct ncd_L as [(Epr & EL)|(_ & Hpr & EL)]; [|lia].
    assert (Ek : k = PAWN) by (unfold PAWN; lia).
    pose proof (Hpw Ek) as Hup. pose proof (Hprom Ek) as Hpm. pose proof (sn_to _ _ _ S) as Ht.
    destruct (N.eqb_spec (rank_of (m_to m)) 7) as [E7|E7]; [unfold NOPIECE in Epr; lia|].
    unfold rank_of in *. lia.
  - destruct He as (_ & _ & Hq). rewrite (Hq 0) in Hp by lia. discriminate.
  - destruct He as (_ & _ & Hq). rewrite (Hq 0) in Hp by lia. discriminate.
  - destruct Hr as (_ & _ & _ & Hq). rewrite (Hq 0) in Hp by lia. apply N.eqb_eq in Hp. subst j.
    destruct Hh as (_ & _ & _ & Hq'). apply flip_inside; [exact Ha|]. apply (Hin a Ha). rewrite (Hq' 0) by lia. reflexivity.
Qed.

(* the side that did not move: no count grows *)
Lemma ncd_them j : j <= 5 -> cntk R false j <= cntk p true j.
Proof.
  intros Hj. unfold cntk. apply cnt_sub; [apply KB_lt; exact (BB8_R u p m)|apply KB_lt; exact (g_bb p G)|].
  intros a Ha Hb.
  destruct (rview_all u p m k S I a Ha) as [E He|E Hh|Hb' E He|N2 Hpe He|t j0 N1 N2 N3 Hh Hr].
  - rewrite (KB_empty R false j _ He Hj) in Hb. discriminate.
  - rewrite (KB_holds R false j _ _ _ Hh Hj), andb_false_r in Hb. discriminate.
  - rewrite (KB_empty R false j _ He Hj) in Hb. discriminate.
  - rewrite (KB_empty R false j _ He Hj) in Hb. discriminate.
  - rewrite (KB_holds R false j _ _ _ Hr Hj) in Hb. rewrite (KB_holds p true j _ _ _ Hh Hj).
    destruct t; [exact Hb|rewrite andb_false_r in Hb; discriminate].
Qed.

(* the mover's side *)
Lemma ncd_us_view j a : j <= 5 -> a < 64 -> N.testbit (KB R true j) (flip_sq a) = true ->
  (a = m_to m /\ j = L) \/ (a <> m_from m /\ a <> m_to m /\ N.testbit (KB p false j) a = true).
Proof.
  intros Hj Ha Hb.
  destruct (rview_all u p m k S I a Ha) as [E He|E Hh|Hb' E He|N2 Hpe He|t j0 N1 N2 N3 Hh Hr].
  - rewrite (KB_empty R true j _ He Hj) in Hb. discriminate.
  - left. rewrite (KB_holds R true j _ _ _ Hh Hj) in Hb. fold L in Hb. apply andb_true_iff in Hb. destruct Hb as [Hb _]. apply N.eqb_eq in Hb. split; assumption.
  - rewrite (KB_empty R true j _ He Hj) in Hb. discriminate.
  - rewrite (KB_empty R true j _ He Hj) in Hb. discriminate.
  - right. rewrite (KB_holds R true j _ _ _ Hr Hj) in Hb. rewrite (KB_holds p false j _ _ _ Hh Hj).
    split; [exact N1|split; [exact N2|]]. destruct t; [rewrite andb_false_r in Hb; discriminate|exact Hb].
Qed.

Lemma ncd_from_bit : N.testbit (KB p false k) (m_from m) = true.
Proof. rewrite (KB_holds p false k _ _ _ (sn_mover _ _ _ S) (sane_k p m k S)), N.eqb_refl. reflexivity. Qed.

Lemma ncd_us_other j : j <= 5 -> j <> L -> cntk R true j <= cntk p false j.
Proof.
  intros Hj Hne. unfold cntk. apply cnt_sub; [apply KB_lt; exact (BB8_R u p m)|apply KB_lt; exact (g_bb p G)|].
  intros a Ha Hb. destruct (ncd_us_view j a Hj Ha Hb) as [(_ & E)|(_ & _ & H)]; [contradiction|exact H].
Qed.
Lemma ncd_us_same : L = k -> cntk R true k <= cntk p false k.
Proof.
  intros EL. pose proof (sane_k p m k S) as Hk. unfold cntk.
  apply (cnt_move _ _ (m_from m) (m_to m)); [apply KB_lt; exact (BB8_R u p m)|apply KB_lt; exact (g_bb p G)|exact (sn_from _ _ _ S)|exact (sn_to _ _ _ S)|exact ncd_from_bit|].
  intros a Ha Hb. destruct (ncd_us_view k a Hk Ha Hb) as [(E & _)|(N1 & _ & H)]; [left; exact E|right; split; assumption].
Qed.
Lemma ncd_us_landed : L <= 5 -> cntk R true L <= cntk p false L + 1.
Proof.
  intros HL. unfold cntk.
  apply (cnt_set _ _ (m_to m)); [apply KB_lt; exact (BB8_R u p m)|apply KB_lt; exact (g_bb p G)|exact (sn_to _ _ _ S)|].
  intros a Ha Hb. destruct (ncd_us_view L a HL Ha Hb) as [(E & _)|(_ & _ & H)]; [left; exact E|right; exact H].
Qed.
Lemma ncd_us_pawn : L <> k -> cntk R true k + 1 <= cntk p false k.
Proof.
  intros Hne. pose proof (sane_k p m k S) as Hk. unfold cntk.
  apply (cnt_clear _ _ (m_from m)); [apply KB_lt; exact (BB8_R u p m)|apply KB_lt; exact (g_bb p G)|exact (sn_from _ _ _ S)|exact ncd_from_bit|].
  intros a Ha Hb. destruct (ncd_us_view k a Hk Ha Hb) as [(_ & E)|(N1 & _ & H)]; [exfalso; apply Hne; symmetry; exact E|split; assumption].
Qed.

Lemma ncd_material : material p = true -> material R = true.
Proof.
  unfold material. intros H. apply andb_true_iff in H. destruct H as [Mu Mt].
  apply (material_side_ok p false) in Mu. apply (material_side_ok p true) in Mt.
  apply andb_true_iff. split.
  - apply (material_side_ok R false).
    apply (mat_ok_mono _ _ _ _ _ _ _ _ _ _ _ _ Mt); try (apply ncd_them; lia).
    exact (nc_their_count u p m k S I).
  - apply (material_side_ok R true). pose proof (nc_our_count u p m k S I) as Htot. fold R in Htot.
    destruct ncd_L as [(Epr & EL)|(Ek & Hpr & EL)].
    + assert (Hall : forall j, j <= 5 -> cntk R true j <= cntk p false j).
      { intros j Hj. destruct (N.eq_dec j L) as [E|E]; [|exact (ncd_us_other j Hj E)]. rewrite E, EL. exact (ncd_us_same EL). }
      apply (mat_ok_mono _ _ _ _ _ _ _ _ _ _ _ _ Mu); try (apply Hall; lia). exact Htot.
    + assert (HL : L <= 5) by lia. assert (Hne : L <> k) by (rewrite Ek; unfold PAWN; lia).
      assert (Hall : forall j, j <= 5 -> cntk R true j <= cntk p false j + (if j =? L then 1 else 0)).
      { intros j Hj. destruct (N.eqb_spec j L) as [E|E]; [rewrite E; exact (ncd_us_landed HL)|]. rewrite N.add_0_r. exact (ncd_us_other j Hj E). }
      pose proof (ncd_us_pawn Hne) as H0. rewrite Ek in H0. unfold PAWN in H0.
      apply (mat_ok_promo _ _ _ _ _ _ _ _ _ _ _ _ (if 1 =? L then 1 else 0) (if 2 =? L then 1 else 0) (if 3 =? L then 1 else 0) (if 4 =? L then 1 else 0) Mu);
        try (apply Hall; lia); [exact H0| |exact Htot].
      destruct (N.eqb_spec 1 L), (N.eqb_spec 2 L), (N.eqb_spec 3 L), (N.eqb_spec 4 L); lia.
Qed.
End NCdom.

(* ------------------------------------------------------------------ a castling move: pawns, counts *)
Section CAdom.
Variables (u : bool) (p : Position) (m : Mv) (kside : bool).
Hypothesis S : csane p m kside.
Hypothesis I : Inv0 p.
Hypothesis Hin : pawns_inside p.
Let R := makemove u p m.
Let G := i0_good p I.

Lemma cad_pawns_inside : pawns_inside R.
Proof.
  intros s Hs Hp. set (a := flip_sq s). assert (Ha : a < 64) by (apply flip_sq_lt; exact Hs).
  assert (Es : s = flip_sq a) by (unfold a; rewrite flip_sq_invol; reflexivity). rewrite Es in Hp |- *. unfold R in Hp.
  destruct (cview_all u p m kside S I a Ha) as [E Hh|E Hh|E N3 N4 He|N1 N2 N3 N4 Hpe He|t j N1 N2 N3 N4 Hh Hr].
  - destruct Hh as (_ & _ & _ & Hq). rewrite (Hq 0) in Hp by lia. discriminate.
  - destruct Hh as (_ & _ & _ & Hq). rewrite (Hq 0) in Hp by lia. discriminate.
  - destruct He as (_ & _ & Hq). rewrite (Hq 0) in Hp by lia. discriminate.
  - destruct He as (_ & _ & Hq). rewrite (Hq 0) in Hp by lia. discriminate.
  - destruct Hr as (_ & _ & _ & Hq). rewrite (Hq 0) in Hp by lia. apply N.eqb_eq in Hp. subst j.
    destruct Hh as (_ & _ & _ & Hq'). apply flip_inside; [exact Ha|]. apply (Hin a Ha). rewrite (Hq' 0) by lia. reflexivity.
Qed.

Lemma cad_them j : j <= 5 -> cntk R false j <= cntk p true j.
Proof.
  intros Hj. unfold cntk. apply cnt_sub; [apply KB_lt; exact (BB8_R u p m)|apply KB_lt; exact (g_bb p G)|].
  intros a Ha Hb.
  destruct (cview_all u p m kside S I a Ha) as [E Hh|E Hh|E N3 N4 He|N1 N2 N3 N4 Hpe He|t j0 N1 N2 N3 N4 Hh Hr].
  - rewrite (KB_holds R false j _ _ _ Hh Hj), andb_false_r in Hb. discriminate.
  - rewrite (KB_holds R false j _ _ _ Hh Hj), andb_false_r in Hb. discriminate.
  - rewrite (KB_empty R false j _ He Hj) in Hb. discriminate.
  - rewrite (KB_empty R false j _ He Hj) in Hb. discriminate.
  - rewrite (KB_holds R false j _ _ _ Hr Hj) in Hb. rewrite (KB_holds p true j _ _ _ Hh Hj).
    destruct t; [exact Hb|rewrite andb_false_r in Hb; discriminate].
Qed.

Lemma cad_us_view j a : j <= 5 -> a < 64 -> N.testbit (KB R true j) (flip_sq a) = true ->
  (a = c_kt kside /\ j = KING) \/ (a = c_rt kside /\ j = ROOK) \/ (a <> m_from m /\ a <> m_to m /\ N.testbit (KB p false j) a = true).
Proof.
  intros Hj Ha Hb.
  destruct (cview_all u p m kside S I a Ha) as [E Hh|E Hh|E N3 N4 He|N1 N2 N3 N4 Hpe He|t j0 N1 N2 N3 N4 Hh Hr].
  - left. rewrite (KB_holds R true j _ _ _ Hh Hj) in Hb. apply andb_true_iff in Hb. destruct Hb as [Hb _]. apply N.eqb_eq in Hb. split; assumption.
  - right. left. rewrite (KB_holds R true j _ _ _ Hh Hj) in Hb. apply andb_true_iff in Hb. destruct Hb as [Hb _]. apply N.eqb_eq in Hb. split; assumption.
  - rewrite (KB_empty R true j _ He Hj) in Hb. discriminate.
  - rewrite (KB_empty R true j _ He Hj) in Hb. discriminate.
  - right. right. rewrite (KB_holds R true j _ _ _ Hr Hj) in Hb. rewrite (KB_holds p false j _ _ _ Hh Hj).
    split; [exact N1|split; [exact N2|]]. destruct t; [rewrite andb_false_r in Hb; discriminate|exact Hb].
Qed.

Lemma cad_us_other j : j <= 5 -> j <> KING -> j <> ROOK -> cntk R true j <= cntk p false j.
Proof.
  intros Hj NK NR. unfold cntk. apply cnt_sub; [apply KB_lt; exact (BB8_R u p m)|apply KB_lt; exact (g_bb p G)|].
  intros a Ha Hb. destruct (cad_us_view j a Hj Ha Hb) as [(_ & E)|[(_ & E)|(_ & _ & H)]]; [contradiction|contradiction|exact H].
Qed.
Lemma cad_us_rook : cntk R true ROOK <= cntk p false ROOK.
Proof.
  assert (HR : ROOK <= 5) by (unfold ROOK; lia). unfold cntk.
  apply (cnt_move _ _ (m_to m) (c_rt kside)); [apply KB_lt; exact (BB8_R u p m)|apply KB_lt; exact (g_bb p G)|exact (cs_to64 p m kside S)|exact (rt64 p m kside S)| |].
  - rewrite (KB_holds p false ROOK _ _ _ (cs_rook _ _ _ S) HR). reflexivity.
  - intros a Ha Hb. destruct (cad_us_view ROOK a HR Ha Hb) as [(_ & E)|[(E & _)|(_ & N2 & H)]]; [discriminate E|left; exact E|right; split; assumption].
Qed.

Lemma cad_material : material p = true -> material R = true.
Proof.
  unfold material. intros H. apply andb_true_iff in H. destruct H as [Mu Mt].
  apply (material_side_ok p false) in Mu. apply (material_side_ok p true) in Mt.
  apply andb_true_iff. split.
  - apply (material_side_ok R false).
    apply (mat_ok_mono _ _ _ _ _ _ _ _ _ _ _ _ Mt); try (apply cad_them; lia).
    exact (ca_their_count u p m kside S I).
  - apply (material_side_ok R true).
    apply (mat_ok_mono _ _ _ _ _ _ _ _ _ _ _ _ Mu); try (apply cad_us_other; unfold KING, ROOK; lia).
    + exact cad_us_rook.
    + exact (ca_our_count u p m kside S I).
Qed.
End CAdom.

(* ------------------------------------------------------------------ counters and the new en-passant square *)
Lemma R_clocks u p m : halfmoves (makemove u p m) = mv_hm u p m /\ fullmoves (makemove u p m) = mv_fm p.
Proof. rewrite R_eq. split; reflexivity. Qed.

Lemma mv_hm_nonneg u p m : (0 <= halfmoves p)%Z -> (0 <= mv_hm u p m)%Z.
Proof. intros H. unfold mv_hm. cbv zeta. destruct (mv_piece p m =? PAWN); [lia|]. destruct (mv_is_cap u p m); lia. Qed.
Lemma mv_fm_pos p : (1 <= fullmoves p)%Z -> (1 <= mv_fm p)%Z.
Proof. intros H. unfold mv_fm. destruct (turn p); lia. Qed.

(* a double push lands on the fourth rank: it comes from the doubles block *)
Lemma double_rank p g : Good p -> CastleGood p -> In g (move_generator p) -> gk g = PAWN ->
  m_to (gen_mv g) = m_from (gen_mv g) + 16 -> rank_of (m_to (gen_mv g)) = 3.
Proof.
  intros G CG Hg Ek H16.
  destruct (in_generator_block p g Hg) as (i & b & Hib & Hgb).
  pose proof (cls_double p g Ek H16) as Hc.
  assert (Hdb : In g (blk_doubles p)).
  { unfold tagged_blocks in Hib. cbv zeta in Hib. cbn [In] in Hib.
    repeat destruct Hib as [Hib|Hib]; try contradiction; injection Hib as <- <-; try exact Hgb; exfalso.
    - rewrite (pawn_cls p g 8 false (singles_shape p g Hgb)) in Hc by lia. discriminate.
    - rewrite (pawn_cls p g 9 true (cap_ne_shape p g Hgb)) in Hc by lia. discriminate.
    - rewrite (pawn_cls p g 7 true (cap_nw_shape p g Hgb)) in Hc by lia. discriminate.
    - destruct (ep_shape p G g Hgb) as [X|X]; [rewrite (pawn_cls p g 9 false X) in Hc by lia|rewrite (pawn_cls p g 7 false X) in Hc by lia]; discriminate.
    - rewrite (knights_cls p g Hgb) in Hc. discriminate.
    - rewrite (bishop_pinned_cls p g _ _ Hgb) in Hc. discriminate.
    - rewrite (bishop_free_cls p g _ _ Hgb) in Hc. discriminate.
    - rewrite (rook_pinned_cls p g _ _ Hgb) in Hc. discriminate.
    - rewrite (rook_free_cls p g _ _ Hgb) in Hc. discriminate.
    - rewrite (queen_b_cls p g _ _ Hgb) in Hc. discriminate.
    - rewrite (queen_r_cls p g _ _ Hgb) in Hc. discriminate.
    - rewrite (queen_free_cls p g _ _ Hgb) in Hc. discriminate.
    - rewrite (king_steps_cls p g Hgb) in Hc. discriminate.
    - rewrite (castle_k_cls p G CG g Hgb) in Hc. discriminate.
    - rewrite (castle_q_cls p G CG g Hgb) in Hc. discriminate. }
  unfold blk_doubles in Hdb. apply in_map_iff in Hdb. destruct Hdb as (to & <- & Hto). cbn [gen_mv m_from m_to m_promo] in *.
  apply bits_spec in Hto. unfold g_doubles in Hto. rewrite !N.land_spec in Hto.
  repeat (apply andb_true_iff in Hto; destruct Hto as [Hto ?]).
  match goal with X : N.testbit RANK4 _ = true |- _ => exact (rank4_bits _ X) end.
Qed.

Lemma promo_ok_cond p m : GenNoDup.promo_ok p m ->
  if rank_of (m_to m) =? 7 then 1 <= m_promo m <= 4 else m_promo m = NOPIECE.
Proof. unfold GenNoDup.promo_ok. destruct (rank_of (m_to m) =? 7); [intros (H & _); exact H|intros H; exact H]. Qed.

Lemma flip_rank2 s : 16 <= s < 24 -> rank_of (flip_sq s) = 5.
Proof. intros H. change flip_sq with flipbit. rewrite flipbit_arith by lia. unfold rank_of. lia. Qed.

(* ------------------------------------------------------------------ the domain is closed under every generated move *)
Lemma in_D_material p : in_D p = true -> material p = true.
Proof. unfold in_D. intros H. apply andb_true_iff in H. exact (proj2 H). Qed.

Lemma in_D_InvR p : in_D p = true -> InvR p.
Proof. intros H. constructor; [exact (inv_b_sound p (in_D_inv p H))|exact (in_D_ep_ok p H)]. Qed.

Theorem in_D_step p m : in_D p = true -> In m (legal_moves p) -> in_D (makemove true p m) = true.
Proof.
  intros HD Hm. pose proof (in_D_InvR p HD) as IR. pose proof (in_D_material p HD) as Hmat.
  pose proof (in_D_facts p HD) as F.
  destruct (validate_sound p (df_valid p F)) as (P18 & _ & _ & _ & _ & _ & _ & _ & _ & _ & _ & _ & _ & _ & _ & _ & _ & Hep & _ & _ & Hh & Hf & _).
  assert (Hep5 : forall e, ep p = Some e -> rank_of e = 5) by (intros e He; exact (proj1 (Hep e He))).
  pose proof (emp_pawns_inside p P18) as Hin.
  pose proof (invR_step p m IR Hm) as IR'.
  pose proof (ir_inv p IR) as I. pose proof (Inv_Inv0 p I) as I0. pose proof (iv_good p I) as G. pose proof (iv_cg p I) as CG.
  destruct (R_clocks true p m) as (Ehm & Efm). destruct (R_fields true p m) as (_ & Eep & _).
  apply invR_in_D; [exact IR'| | | | |].
  - (* material *)
    pose proof Hm as Hm'. unfold legal_moves in Hm'. apply in_map_iff in Hm'. destruct Hm' as (g & <- & Hg).
    destruct (generated_move_cases p g G Hg) as [(S & Hpw)|[H|H]].
    + apply (ncd_material true p (gen_mv g) (gk g) S I0 Hpw); [|exact Hmat].
      intros Ek. rewrite Ek in S. exact (promo_ok_cond _ _ (promotions_exact p (gen_mv g) G CG Hep5 Hm (sn_mover _ _ _ S))).
    + destruct (castle_block_k p G CG g H) as (S & _). exact (cad_material true p (gen_mv g) true S I0 Hmat).
    + destruct (castle_block_q p G CG g H) as (S & _). exact (cad_material true p (gen_mv g) false S I0 Hmat).
  - rewrite Ehm. exact (mv_hm_nonneg true p m Hh).
  - rewrite Efm. exact (mv_fm_pos p Hf).
  - (* no pawn on the first or last rank *)
    apply pawns_inside_emp.
    pose proof Hm as Hm'. unfold legal_moves in Hm'. apply in_map_iff in Hm'. destruct Hm' as (g & <- & Hg).
    destruct (generated_move_cases p g G Hg) as [(S & Hpw)|[H|H]].
    + apply (ncd_pawns_inside true p (gen_mv g) (gk g) S I0 Hin Hpw).
      intros Ek. rewrite Ek in S. exact (promo_ok_cond _ _ (promotions_exact p (gen_mv g) G CG Hep5 Hm (sn_mover _ _ _ S))).
    + destruct (castle_block_k p G CG g H) as (S & _). exact (cad_pawns_inside true p (gen_mv g) true S I0 Hin).
    + destruct (castle_block_q p G CG g H) as (S & _). exact (cad_pawns_inside true p (gen_mv g) false S I0 Hin).
  - (* the new en-passant square is on the sixth rank *)
    intros e He. rewrite Eep in He.
    pose proof Hm as Hm'. unfold legal_moves in Hm'. apply in_map_iff in Hm'. destruct Hm' as (g & Eg & Hg). subst m.
    destruct (generated_move_cases p g G Hg) as [(S & Hpw)|[H|H]].
    + unfold mv_new_ep in He. rewrite (sane_piece p (gen_mv g) (gk g) S) in He.
      destruct ((gk g =? PAWN) && (m_to (gen_mv g) - m_from (gen_mv g) =? 16)) eqn:Ec; [|discriminate]. injection He as <-.
      apply andb_true_iff in Ec. destruct Ec as [Ek Ed]. apply N.eqb_eq in Ek, Ed.
      assert (H16 : m_to (gen_mv g) = m_from (gen_mv g) + 16) by lia.
      pose proof (double_rank p g G CG Hg Ek H16) as Hr3. apply flip_rank2. unfold rank_of in Hr3. lia.
    + destruct (castle_block_k p G CG g H) as (S & _). rewrite (c_no_new_ep p (gen_mv g) true S) in He. discriminate.
    + destruct (castle_block_q p G CG g H) as (S & _). rewrite (c_no_new_ep p (gen_mv g) false S) in He. discriminate.
Qed.

Theorem in_D_run ms : forall p, in_D p = true -> gen_seq p ms -> in_D (fold_left (makemove true) ms p) = true.
Proof.
  induction ms as [|m r IH]; intros p HD H; cbn [fold_left gen_seq] in *; [exact HD|].
  destruct H as (Hm & Hr). exact (IH _ (in_D_step p m HD Hm) Hr).
Qed.

Print Assumptions in_D_step.
Print Assumptions in_D_run.

(* ------------------------------------------------------------------ the null move out of check *)
Section NullDom.
Variable p : Position.
Hypothesis HW : WF p.
Hypothesis HB : HashFacts.BB8 p.
Let q := makenull p.

Lemma nd_count t j : j <= 5 -> cntk q t j <= cntk p (negb t) j.
Proof.
  intros Hj. unfold cntk. apply cnt_sub; [apply KB_lt; exact (null_BB8 p)|apply KB_lt; exact HB|].
  intros a Ha Hb. destruct (HW a Ha) as [He|(t' & j' & Hh)].
  - rewrite (KB_empty q t j _ (null_empty p a Ha He) Hj) in Hb. discriminate.
  - rewrite (KB_holds q t j _ _ _ (null_holds p a t' j' Ha Hh) Hj) in Hb. rewrite (KB_holds p (negb t) j _ _ _ Hh Hj).
    destruct (j =? j'), t, t'; cbn in Hb |- *; congruence.
Qed.

Lemma nd_material : material p = true -> material q = true.
Proof.
  unfold material. intros H. apply andb_true_iff in H. destruct H as [Mu Mt].
  apply (material_side_ok p false) in Mu. apply (material_side_ok p true) in Mt.
  destruct (null_boards p) as (E1 & E2). destruct HB as (B1 & B2 & _).
  apply andb_true_iff. split.
  - apply (material_side_ok q false).
    apply (mat_ok_mono _ _ _ _ _ _ _ _ _ _ _ _ Mt); try (apply (nd_count false); lia).
    unfold q. rewrite E1, (popcount_bswap _ B2). apply N.le_refl.
  - apply (material_side_ok q true).
    apply (mat_ok_mono _ _ _ _ _ _ _ _ _ _ _ _ Mu); try (apply (nd_count true); lia).
    unfold q. rewrite E2, (popcount_bswap _ B1). apply N.le_refl.
Qed.

Lemma nd_pawns_inside : pawns_inside p -> pawns_inside q.
Proof.
  intros Hin s Hs Hp. set (a := flip_sq s). assert (Ha : a < 64) by (apply flip_sq_lt; exact Hs).
  assert (Es : s = flip_sq a) by (unfold a; rewrite flip_sq_invol; reflexivity). rewrite Es in Hp |- *. unfold q in Hp.
  destruct (HW a Ha) as [He|(t' & j' & Hh)].
  - destruct (null_empty p a Ha He) as (_ & _ & Hq). rewrite (Hq 0) in Hp by lia. discriminate.
  - destruct (null_holds p a t' j' Ha Hh) as (_ & _ & _ & Hq). rewrite (Hq 0) in Hp by lia. apply N.eqb_eq in Hp. subst j'.
    destruct Hh as (_ & _ & _ & Hq'). apply flip_inside; [exact Ha|]. apply (Hin a Ha). rewrite (Hq' 0) by lia. reflexivity.
Qed.

Lemma nd_clocks : halfmoves q = 0%Z /\ fullmoves q = fullmoves p.
Proof. unfold q, makenull. cbv zeta. split; reflexivity. Qed.
End NullDom.

Theorem in_D_null p : in_D p = true -> in_check p = false -> in_D (makenull p) = true.
Proof.
  intros HD Hc. pose proof (in_D_InvR p HD) as IR. pose proof (in_D_material p HD) as Hmat.
  pose proof (in_D_facts p HD) as F.
  destruct (validate_sound p (df_valid p F)) as (P18 & _ & _ & _ & _ & _ & _ & _ & _ & _ & _ & _ & _ & _ & _ & _ & _ & _ & _ & _ & _ & Hf & _).
  pose proof (iv_good p (ir_inv p IR)) as G.
  destruct (nd_clocks p) as (Ehm & Efm).
  apply invR_in_D.
  - exact (invR_null p IR Hc).
  - exact (nd_material p (g_wf p G) (g_bb p G) Hmat).
  - rewrite Ehm. lia.
  - rewrite Efm. exact Hf.
  - apply pawns_inside_emp. exact (nd_pawns_inside p (g_wf p G) (emp_pawns_inside p P18)).
  - intros e He. destruct (null_fields p) as (E & _). rewrite E in He. discriminate.
Qed.
Print Assumptions in_D_null.

(* sequences of generated moves and null moves out of check *)
Fixpoint gen_ops (p : Position) (os : list (option Mv)) : Prop :=
  match os with
  | [] => True
  | o :: r => (match o with Some m => In m (legal_moves p) | None => in_check p = false end) /\ gen_ops (play_op p o) r
  end.

Theorem in_D_ops os : forall p, in_D p = true -> gen_ops p os -> in_D (fold_left play_op os p) = true.
Proof.
  induction os as [|o r IH]; intros p HD H; cbn [fold_left gen_ops] in *; [exact HD|].
  destruct H as (Ho & Hr). apply IH; [|exact Hr].
  destruct o as [m|]; cbn [play_op]; [exact (in_D_step p m HD Ho)|exact (in_D_null p HD Ho)].
Qed.
Print Assumptions in_D_ops.
