(* The search of the model terminates: on every position satisfying the invariant of the search and for every table
   with at least one slot there is an explicit amount of fuel beyond which `negamax` and `root` are defined.
   A node in check searches its children with the depth it was given (check extension), and the model has no ply
   cut-off; what bounds the recursion is the fifty-move return at non-root nodes together with a potential that
   strictly decreases with every capture and every pawn move and never increases:
     pot p = 8 * (number of men) + sum over the pawns of the number of ranks they can still advance. *)
From Coq Require Import NArith ZArith List Bool Lia ZifyN ZifyBool Permutation.
From Rawr Require Import Consts Bits Magic Position MoveGen MakeMove MakeStages Eval TT Search Rules Abs GameTree
                         BitsFacts ShiftFacts FlipFacts AbsFacts LsbFacts HashFacts MakeFacts MakeAbs CastleFacts CastleAbs KeyAbs KeyMove
                         AttackFacts BoundFacts CountFacts GenSane GenNoDup NotationFacts NoKingCapture Closure ClosureNull
                         MenCount EpRetro CaptureFacts AlphaBeta SearchFacts SearchBound GenLegal FuelFacts DomainClosed.
Import ListNotations.
Local Open Scope N_scope.
Ltac Zify.zify_post_hook ::= Z.div_mod_to_equations.

(* ================================================================== 1. the potential *)
(* sums over lists of squares *)
Definition sumL (f : N -> nat) (l : list N) : nat := fold_right (fun a acc => (f a + acc)%nat) 0%nat l.

Lemma sumL_le f g l : (forall a, In a l -> (f a <= g a)%nat) -> (sumL f l <= sumL g l)%nat.
Proof.
  induction l as [|x l IH]; intros H; cbn [sumL fold_right]; [lia|].
  pose proof (H x (or_introl eq_refl)). pose proof (IH (fun a Ha => H a (or_intror Ha))). unfold sumL in *. lia.
Qed.
Lemma sumL_add f g l : sumL (fun a => (f a + g a)%nat) l = (sumL f l + sumL g l)%nat.
Proof. induction l as [|x l IH]; cbn [sumL fold_right]; [reflexivity|]. unfold sumL in *. lia. Qed.
Lemma sumL_delta_out x c l : ~ In x l -> sumL (fun a => if a =? x then c else 0%nat) l = 0%nat.
Proof.
  induction l as [|y l IH]; intros H; cbn [sumL fold_right]; [reflexivity|].
  destruct (N.eqb_spec y x) as [E|E]; [exfalso; apply H; left; exact E|]. unfold sumL in IH. rewrite IH; [reflexivity|].
  intros Hx. apply H. right. exact Hx.
Qed.
Lemma sumL_delta x c l : NoDup l -> In x l -> sumL (fun a => if a =? x then c else 0%nat) l = c.
Proof.
  induction l as [|y l IH]; intros Hn Hx; [destruct Hx|]. cbn [sumL fold_right]. inversion Hn as [|? ? Hy Hn']; subst.
  destruct (N.eqb_spec y x) as [E|E].
  - subst y. pose proof (sumL_delta_out x c l Hy) as H0. unfold sumL in H0. rewrite H0. lia.
  - destruct Hx as [Hx|Hx]; [contradiction|]. pose proof (IH Hn' Hx) as H1. unfold sumL in H1. rewrite H1. lia.
Qed.

Definition sum64 (f : N -> nat) : nat := sumL f sq64_list.

Lemma sq64_lt a : In a sq64_list -> a < 64.
Proof. unfold sq64_list. intros H. apply in_map_iff in H. destruct H as (n & <- & Hn). apply in_seq in Hn. lia. Qed.
Lemma sq64_nodup : NoDup sq64_list.
Proof.
  unfold sq64_list. apply FinFun.Injective_map_NoDup; [|apply seq_NoDup]. intros x y H. apply Nat2N.inj. exact H.
Qed.
Lemma sum64_le f g : (forall a, a < 64 -> (f a <= g a)%nat) -> (sum64 f <= sum64 g)%nat.
Proof. intros H. apply sumL_le. intros a Ha. apply H, sq64_lt, Ha. Qed.
Lemma sum64_delta x c : x < 64 -> sum64 (fun a => if a =? x then c else 0%nat) = c.
Proof. intros H. apply sumL_delta; [exact sq64_nodup|exact (in_sq64 x H)]. Qed.
Lemma sumL_add_64 f g : sum64 (fun a => (f a + g a)%nat) = (sum64 f + sum64 g)%nat.
Proof. apply sumL_add. Qed.
Lemma sum64_flip f : sum64 (fun a => f (flip_sq a)) = sum64 f.
Proof. unfold sum64, sumL, sq64_list. cbv - [Nat.add]. lia. Qed.

(* the weight of one square: 8 for a man, plus, for a pawn, the number of ranks it can still advance *)
Definition rk (a : N) : nat := N.to_nat (a / 8).
Definition wv (t : bool) (k a : N) : nat := (8 + (if (0 =? k)%N then (if t then rk a else 7 - rk a) else 0))%nat.
Definition wt (p : Position) (s : N) : nat :=
  ((if ub p s || tb p s then 8 else 0) + (if pb p 0 s then (if tb p s then rk s else 7 - rk s) else 0))%nat.
Definition pot (p : Position) : nat := sum64 (wt p).

Lemma wt_holds p s t k : holds p s t k -> wt p s = wv t k s.
Proof.
  intros (Hk & Hu & Ht & Hp). unfold wt, wv. rewrite Hu, Ht, (Hp 0 ltac:(lia)). destruct t; reflexivity.
Qed.
Lemma wt_empty p s : empty_at p s -> wt p s = 0%nat.
Proof. intros (Hu & Ht & Hp). unfold wt. rewrite Hu, Ht, (Hp 0 ltac:(lia)). reflexivity. Qed.
Lemma rk_flip a : a < 64 -> rk (flip_sq a) = (7 - rk a)%nat.
Proof. intros H. unfold rk. change (flip_sq a) with (flipbit a). rewrite flipbit_arith by exact H. lia. Qed.
Lemma rk_le a : a < 64 -> (rk a <= 7)%nat.
Proof. intros H. unfold rk. lia. Qed.
Lemma wv_flip t k a : a < 64 -> wv (negb t) k (flip_sq a) = wv t k a.
Proof. intros H. unfold wv. rewrite (rk_flip a H). pose proof (rk_le a H). destruct (0 =? k), t; cbn [negb]; lia. Qed.
Lemma wt_flipped R a t k : a < 64 -> holds R (flip_sq a) (negb t) k -> wt R (flip_sq a) = wv t k a.
Proof. intros Ha H. rewrite (wt_holds _ _ _ _ H). exact (wv_flip t k a Ha). Qed.
Lemma wv_ge t k a : (8 <= wv t k a)%nat.
Proof. unfold wv. lia. Qed.
Lemma wv_officer t k a : k <> PAWN -> wv t k a = 8%nat.
Proof. intros H. unfold wv. destruct (N.eqb_spec 0 k) as [E|E]; [exfalso; apply H; rewrite <- E; reflexivity|reflexivity]. Qed.
Lemma wt_le p s : s < 64 -> (wt p s <= 15)%nat.
Proof. intros H. unfold wt. pose proof (rk_le s H). destruct (ub p s || tb p s), (pb p 0 s), (tb p s); lia. Qed.

Lemma pot_le_960 p : (pot p <= 960)%nat.
Proof.
  unfold pot. apply (Nat.le_trans _ (sum64 (fun _ => 15%nat))); [apply sum64_le; intros a Ha; exact (wt_le p a Ha)|].
  vm_compute. lia.
Qed.

(* with at most 16 men a side the potential is at most 32 * 15 *)
Lemma sumL_bitsum x : forall n i,
  sumL (fun a => N.to_nat (b2n (N.testbit x a))) (map N.of_nat (seq i n)) = N.to_nat (bitsum x n (N.of_nat i)).
Proof.
  induction n as [|n IH]; intros i; cbn [seq map sumL fold_right bitsum]; [reflexivity|].
  specialize (IH (S i)). unfold sumL in IH. rewrite IH, Nat2N.inj_succ. lia.
Qed.
Lemma sum64_popcount x : x < TWO64 -> sum64 (fun a => N.to_nat (b2n (N.testbit x a))) = N.to_nat (popcount x).
Proof.
  intros Hx. unfold sum64, sq64_list. rewrite (sumL_bitsum x 64 0). change (N.of_nat 0) with 0.
  rewrite <- (popcount_bitsum 64 x) by (rewrite <- TWO64_pow; exact Hx). reflexivity.
Qed.
Lemma wv_le t k a : a < 64 -> (wv t k a <= 15)%nat.
Proof. intros H. unfold wv. pose proof (rk_le a H). destruct (0 =? k), t; lia. Qed.
Lemma pot_le_men p : WF p -> HashFacts.BB8 p -> (pot p <= 15 * N.to_nat (popcount (c_us p) + popcount (c_them p)))%nat.
Proof.
  intros HW (B1 & B2 & _). unfold pot.
  apply (Nat.le_trans _ (sum64 (fun a => (15 * N.to_nat (b2n (N.testbit (c_us p) a)) + 15 * N.to_nat (b2n (N.testbit (c_them p) a)))%nat))).
  - apply sum64_le. intros a Ha. destruct (HW a Ha) as [He|(t & j & Hh)].
    + rewrite (wt_empty _ _ He). lia.
    + rewrite (wt_holds _ _ _ _ Hh). pose proof (wv_le t j a Ha). destruct Hh as (_ & Hu & Ht & _). unfold ub, tb, is_set in Hu, Ht.
      rewrite Hu, Ht. destruct t; cbn [negb b2n]; lia.
  - rewrite sumL_add_64.
    assert (Hs : forall x, sum64 (fun a => (15 * N.to_nat (b2n (N.testbit x a)))%nat) = (15 * sum64 (fun a => N.to_nat (b2n (N.testbit x a))))%nat).
    { intros x. unfold sum64. induction sq64_list as [|y l IH]; cbn [sumL fold_right]; [reflexivity|]. unfold sumL in IH. rewrite IH. lia. }
    rewrite !Hs, (sum64_popcount _ B1), (sum64_popcount _ B2). lia.
Qed.
Lemma pot_le_480 p : InvSR p -> (pot p <= 480)%nat.
Proof.
  intros Hp. pose proof (isr p Hp) as [I Hu Ht]. pose proof (pot_le_men p (g_wf p (iv_good p I)) (g_bb p (iv_good p I))) as H.
  unfold Eval.zpop in Hu, Ht. lia.
Qed.

(* ------------------------------------------------------------------ an ordinary (non-castling) move *)
Section NCpot.
Variables (u : bool) (p : Position) (m : Mv) (k : N).
Hypothesis S : sane p m k.
Hypothesis I : Inv0 p.

Lemma nc_pot_sq a : a < 64 ->
  (wt (makemove u p m) (flip_sq a) + (if (a =? m_from m)%N then wv false k (m_from m) else 0) + (if (a =? m_to m)%N then wt p (m_to m) else 0)
   <= wt p a + (if (a =? m_to m)%N then wv false (landed k (m_promo m)) (m_to m) else 0))%nat.
Proof.
  intros Ha. pose proof (sn_ne _ _ _ S) as Hne. pose proof (sn_mover _ _ _ S) as Hmv.
  destruct (rview_all u p m k S I a Ha) as [E He|E Hh|Hb E He|N2 Hpe He|t j N1 N2 N3 Hh Hr].
  - subst a. rewrite (wt_empty _ _ He), N.eqb_refl, (wt_holds _ _ _ _ Hmv).
    destruct (N.eqb_spec (m_from m) (m_to m)); [contradiction|]. lia.
  - subst a. rewrite (wt_flipped _ _ false _ Ha Hh), N.eqb_refl.
    destruct (N.eqb_spec (m_to m) (m_from m)) as [E'|E']; [exfalso; apply Hne; symmetry; exact E'|]. lia.
  - destruct (sn_ep _ _ _ S Hb) as (_ & H8 & Hv). pose proof (sn_to _ _ _ S) as Hto.
    rewrite (wt_empty _ _ He).
    destruct (N.eqb_spec a (m_from m)) as [E1|E1].
    { exfalso. assert (X : m_to m - 8 = m_from m) by congruence. rewrite X in Hv.
      destruct (holds_excl _ _ _ _ _ _ Hv Hmv) as (Y & _). discriminate Y. }
    destruct (N.eqb_spec a (m_to m)) as [E2|E2]; [lia|]. lia.
  - rewrite (wt_empty _ _ He).
    destruct (N.eqb_spec a (m_from m)) as [E1|E1]; [exfalso; rewrite E1 in Hpe; exact (holds_not_empty _ _ _ _ Hmv Hpe)|].
    destruct (N.eqb_spec a (m_to m)) as [E2|E2]; [contradiction|]. lia.
  - rewrite (wt_flipped _ _ t j Ha Hr), (wt_holds _ _ _ _ Hh).
    destruct (N.eqb_spec a (m_from m)) as [E1|E1]; [contradiction|].
    destruct (N.eqb_spec a (m_to m)) as [E2|E2]; [contradiction|]. lia.
Qed.

Lemma nc_pot : (pot (makemove u p m) + wv false k (m_from m) + wt p (m_to m) <= pot p + wv false (landed k (m_promo m)) (m_to m))%nat.
Proof.
  pose proof (sum64_le _ _ nc_pot_sq) as H. rewrite !sumL_add_64 in H.
  rewrite (sum64_flip (wt (makemove u p m))) in H.
  rewrite !sum64_delta in H by (exact (sn_from _ _ _ S) || exact (sn_to _ _ _ S)). exact H.
Qed.

Hypothesis Hpw : k = PAWN -> rank_of (m_to m) = rank_of (m_from m) + 1 \/ m_to m = m_from m + 16.

Lemma nc_landed : (wv false (landed k (m_promo m)) (m_to m) <= wv false k (m_from m))%nat
  /\ (k = PAWN -> (wv false (landed k (m_promo m)) (m_to m) < wv false k (m_from m))%nat).
Proof.
  pose proof (sn_from _ _ _ S) as Hf. pose proof (sn_to _ _ _ S) as Ht.
  destruct (N.eq_dec k PAWN) as [Ek|Ek].
  - assert (Hlt : (wv false (landed k (m_promo m)) (m_to m) < wv false k (m_from m))%nat).
    { specialize (Hpw Ek). unfold rank_of in Hpw. unfold landed.
      assert (Hr : (rk (m_from m) < rk (m_to m) <= 7)%nat) by (unfold rk; lia).
      rewrite Ek. destruct (N.eqb_spec (m_promo m) NOPIECE) as [E|E].
      - unfold wv. change (0 =? PAWN) with true. cbv iota. lia.
      - destruct (sn_promo _ _ _ S) as [E'|(_ & E')]; [contradiction|].
        rewrite (wv_officer false (m_promo m)) by (unfold PAWN; lia). unfold wv. change (0 =? PAWN) with true. cbv iota. lia. }
    split; [lia|intros _; exact Hlt].
  - split; [|intros E; contradiction].
    destruct (sn_promo _ _ _ S) as [E'|(E' & _)]; [|contradiction]. unfold landed. rewrite E'. change (NOPIECE =? NOPIECE) with true. cbv iota.
    rewrite !(wv_officer false k) by exact Ek. lia.
Qed.

Lemma nc_pot_le : (pot (makemove u p m) <= pot p)%nat.
Proof. pose proof nc_pot. pose proof (proj1 nc_landed). lia. Qed.

Lemma nc_pot_lt : k = PAWN \/ tb p (m_to m) = true -> (pot (makemove u p m) < pot p)%nat.
Proof.
  intros [Hk|Hc]; pose proof nc_pot; destruct nc_landed as (H1 & H2).
  - specialize (H2 Hk). lia.
  - assert ((8 <= wt p (m_to m))%nat) by (unfold wt; rewrite Hc, orb_true_r; lia). lia.
Qed.
End NCpot.

(* ------------------------------------------------------------------ a castling move: the potential is not changed (shown: not raised) *)
Section CApot.
Variables (u : bool) (p : Position) (m : Mv) (kside : bool).
Hypothesis S : csane p m kside.
Hypothesis I : Inv0 p.

Lemma ca_pot_sq a : a < 64 ->
  (wt (makemove u p m) (flip_sq a) + (if (a =? m_from m)%N then 8 else 0) + (if (a =? m_to m)%N then 8 else 0)
   <= wt p a + (if (a =? c_kt kside)%N then 8 else 0) + (if (a =? c_rt kside)%N then 8 else 0))%nat.
Proof.
  intros Ha. pose proof (cs_ne _ _ _ S) as Hne.
  pose proof (wt_holds _ _ _ _ (cs_king _ _ _ S)) as Wk. rewrite (wv_officer false KING) in Wk by (unfold KING, PAWN; lia).
  pose proof (wt_holds _ _ _ _ (cs_rook _ _ _ S)) as Wr. rewrite (wv_officer false ROOK) in Wr by (unfold ROOK, PAWN; lia).
  pose proof (kt_ne_rt _ _ _ S) as Hkr.
  destruct (cview_all u p m kside S I a Ha) as [E Hh|E Hh|E N3 N4 He|N1 N2 N3 N4 Hpe He|t j N1 N2 N3 N4 Hh Hr].
  - rewrite (wt_flipped _ _ false _ Ha Hh), (wv_officer false KING) by (unfold KING, PAWN; lia).
    destruct (N.eqb_spec a (c_kt kside)) as [_|X]; [|contradiction].
    destruct (N.eqb_spec a (m_from m)) as [E1|E1]; destruct (N.eqb_spec a (m_to m)) as [E2|E2]; try (exfalso; apply Hne; congruence).
    + rewrite E1, Wk. lia.
    + rewrite E2, Wr. lia.
    + lia.
  - rewrite (wt_flipped _ _ false _ Ha Hh), (wv_officer false ROOK) by (unfold ROOK, PAWN; lia).
    destruct (N.eqb_spec a (c_rt kside)) as [_|X]; [|contradiction].
    destruct (N.eqb_spec a (m_from m)) as [E1|E1]; destruct (N.eqb_spec a (m_to m)) as [E2|E2]; try (exfalso; apply Hne; congruence).
    + rewrite E1, Wk. lia.
    + rewrite E2, Wr. lia.
    + lia.
  - rewrite (wt_empty _ _ He).
    destruct (N.eqb_spec a (m_from m)) as [E1|E1]; destruct (N.eqb_spec a (m_to m)) as [E2|E2]; try (exfalso; apply Hne; congruence).
    + rewrite E1, Wk. lia.
    + rewrite E2, Wr. lia.
    + exfalso. destruct E; contradiction.
  - rewrite (wt_empty _ _ He).
    destruct (N.eqb_spec a (m_from m)) as [E1|E1]; [contradiction|]. destruct (N.eqb_spec a (m_to m)) as [E2|E2]; [contradiction|]. lia.
  - rewrite (wt_flipped _ _ t j Ha Hr), (wt_holds _ _ _ _ Hh).
    destruct (N.eqb_spec a (m_from m)) as [E1|E1]; [contradiction|]. destruct (N.eqb_spec a (m_to m)) as [E2|E2]; [contradiction|]. lia.
Qed.

Lemma ca_pot_le : (pot (makemove u p m) <= pot p)%nat.
Proof.
  pose proof (sum64_le _ _ ca_pot_sq) as H. rewrite !sumL_add_64 in H.
  rewrite (sum64_flip (wt (makemove u p m))) in H.
  rewrite !sum64_delta in H by (exact (cs_from64 p m kside S) || exact (cs_to64 p m kside S) || exact (kt64 p m kside S) || exact (rt64 p m kside S)).
  unfold pot. lia.
Qed.
End CApot.

(* ------------------------------------------------------------------ a null move does not change the potential *)
Lemma null_pot p : WF p -> pot (makenull p) = pot p.
Proof.
  intros HW. unfold pot. rewrite <- (sum64_flip (wt (makenull p))).
  apply Nat.le_antisymm; apply sum64_le; intros a Ha.
  - destruct (HW a Ha) as [He|(t & j & Hh)].
    + rewrite (wt_empty _ _ (null_empty p a Ha He)). lia.
    + rewrite (wt_flipped _ _ t j Ha (null_holds p a t j Ha Hh)), (wt_holds _ _ _ _ Hh). lia.
  - destruct (HW a Ha) as [He|(t & j & Hh)].
    + rewrite (wt_empty _ _ (null_empty p a Ha He)), (wt_empty _ _ He). lia.
    + rewrite (wt_flipped _ _ t j Ha (null_holds p a t j Ha Hh)), (wt_holds _ _ _ _ Hh). lia.
Qed.

(* ------------------------------------------------------------------ every generated move: the potential never grows, and it strictly
   decreases exactly when the half-move clock is reset (a pawn moves or a man is captured) *)
Theorem pot_move u p m : Inv0 p -> In m (legal_moves p) ->
  (pot (makemove u p m) <= pot p)%nat
  /\ (mv_piece p m = PAWN \/ mv_is_cap u p m = true -> (pot (makemove u p m) < pot p)%nat).
Proof.
  intros I Hm. pose proof (i0_good p I) as G. pose proof (i0_cg p I) as CG.
  unfold legal_moves in Hm. apply in_map_iff in Hm. destruct Hm as (g & <- & Hg).
  destruct (generated_move_cases p g G Hg) as [(S & Hpw)|[H|H]].
  - split; [exact (nc_pot_le u p (gen_mv g) (gk g) S I Hpw)|].
    intros Hc. apply (nc_pot_lt u p (gen_mv g) (gk g) S I Hpw).
    rewrite (sane_piece _ _ _ S), is_cap_is in Hc. exact Hc.
  - destruct (castle_block_k p G CG g H) as (S & _). split; [exact (ca_pot_le u p (gen_mv g) true S I)|].
    rewrite (cs_piece _ _ _ S), (c_is_cap u _ _ _ S). intros [X|X]; discriminate X.
  - destruct (castle_block_q p G CG g H) as (S & _). split; [exact (ca_pot_le u p (gen_mv g) false S I)|].
    rewrite (cs_piece _ _ _ S), (c_is_cap u _ _ _ S). intros [X|X]; discriminate X.
Qed.

(* the clock of the child and the potential together *)
Lemma child_clock u p m : Inv0 p -> In m (legal_moves p) ->
  (halfmoves (makemove u p m) = (halfmoves p + 1)%Z /\ (pot (makemove u p m) <= pot p)%nat)
  \/ (halfmoves (makemove u p m) = 0%Z /\ (pot (makemove u p m) < pot p)%nat).
Proof.
  intros I Hm. destruct (pot_move u p m I Hm) as (Hle & Hlt). destruct (R_clocks u p m) as (Eh & _). rewrite Eh.
  unfold mv_hm. cbv zeta. destruct (N.eqb_spec (mv_piece p m) PAWN) as [E|E].
  - right. split; [reflexivity|apply Hlt; left; exact E].
  - destruct (mv_is_cap u p m) eqn:Ec.
    + right. split; [reflexivity|apply Hlt; right; reflexivity].
    + left. split; [reflexivity|exact Hle].
Qed.

(* ================================================================== 2. the measure and the stage lemmas *)
Local Open Scope Z_scope.

Definition NZ (s : SS) : Prop := t_len (ss_tt s) <> 0%N.       (* the table has a slot *)

(* the measure of a call `negamax _ p _ _ _ ply depth _`: lexicographically (potential, depth given, moves left on the
   fifty-move clock), flattened to one natural number; one extra unit for a call that may still reach ply 0, where the
   fifty-move return is not taken *)
Definition mu (p : Position) (ply depth : Z) : nat :=
  (pot p * 101 + Z.to_nat depth * 101 + Z.to_nat (100 - halfmoves p) + (if (ply <=? 0)%Z then 1 else 0))%nat.

Lemma mu_mono p ply d d' : d <= d' -> (mu p ply d <= mu p ply d')%nat.
Proof. intros H. unfold mu. lia. Qed.

Lemma null_hm p : halfmoves (makenull p) = 0.
Proof. reflexivity. Qed.

Lemma InvSR_Inv0 p : InvSR p -> Inv0 p.
Proof. intros H. exact (Inv_Inv0 p (is_inv p (isr p H))). Qed.

Lemma child_mu p m ply d dc : InvSR p -> In m (legal_moves p) -> halfmoves p < 100 \/ ply = 0 ->
  (Z.to_nat dc <= Z.to_nat d)%nat -> (mu (makemove true p m) (ply + 1) dc < mu p ply d)%nat.
Proof.
  intros Hp Hm Hpass Hd. unfold mu.
  assert (He : ((if (ply + 1 <=? 0)%Z then 1 else 0) <= (if (ply <=? 0)%Z then 1 else 0))%nat) by (destruct (Z.leb_spec (ply + 1) 0), (Z.leb_spec ply 0); lia).
  destruct (child_clock true p m (InvSR_Inv0 p Hp) Hm) as [(Eh & Hpot)|(Eh & Hpot)]; rewrite Eh.
  - destruct Hpass as [Hh|Hr].
    + lia.
    + subst ply. change (0 + 1 <=? 0) with false. change (0 <=? 0) with true. cbv iota. lia.
  - change (Z.to_nat (100 - 0)) with 100%nat. lia.
Qed.

Lemma null_mu p ply d : InvSR p -> 2 < d -> (mu (makenull p) (ply + 1) (d - 1 - 2) < mu p ply d)%nat.
Proof.
  intros Hp Hd. unfold mu. rewrite null_hm, (null_pot p (g_wf p (i0_good p (InvSR_Inv0 p Hp)))).
  assert (He : ((if (ply + 1 <=? 0)%Z then 1 else 0) <= (if (ply <=? 0)%Z then 1 else 0))%nat) by (destruct (Z.leb_spec (ply + 1) 0), (Z.leb_spec ply 0); lia).
  change (Z.to_nat (100 - 0)) with 100%nat. lia.
Qed.

Lemma K_NZ s s' : K s s' -> NZ s -> NZ s'.
Proof. intros [H _] Hs. unfold NZ in *. rewrite H. exact Hs. Qed.

Section Total.
Variable stopf : Stats -> bool.

Definition ntotal (rec : NRec) (n : nat) : Prop :=
  forall q s a b pl d cn, InvSR q -> NZ s -> (mu q pl d < n)%nat -> rec q s a b pl d cn <> None.
Definition qtot (qrec : QRec) : Prop := forall q st a b pl, Inv16R q -> qrec q st a b pl <> None.

Lemma search_move_total rec n p in_chk beta ply depth idx m np s alpha : ntotal rec n -> keepsK rec ->
  InvSR np -> NZ s -> (mu np (ply + 1) (depth - 1) < n)%nat ->
  search_move rec p in_chk beta ply depth idx m np s alpha <> None.
Proof.
  intros Hr Hk Hnp Hs Hmu. unfold search_move. destruct (idx =? 0).
  - destruct (rec np s (- beta) (- alpha) (ply + 1) (depth - 1) true) as [[v s1]|] eqn:E; [discriminate|].
    exfalso. exact (Hr _ _ _ _ _ _ _ Hnp Hs Hmu E).
  - cbv zeta.
    match goal with |- match ?x with _ => _ end <> None => destruct x as [[v s1]|] eqn:E end.
    + destruct ((alpha <? - v) && (- v <? beta)); [|discriminate].
      pose proof (K_NZ _ _ (Hk _ _ _ _ _ _ _ _ _ E) Hs) as Hs1.
      destruct (rec np s1 (- beta) (- alpha) (ply + 1) (depth - 1) true) as [[v2 s2]|] eqn:E2; [discriminate|].
      exfalso. exact (Hr _ _ _ _ _ _ _ Hnp Hs1 Hmu E2).
    + exfalso. refine (Hr _ _ _ _ _ _ _ Hnp Hs _ E).
      eapply Nat.le_lt_trans; [|exact Hmu]. apply mu_mono.
      destruct ((idx <? 4) || (depth <? 3) || in_chk || is_capture p (m_from m) (m_to m) || (m_promo m =? QUEEN)%N); lia.
Qed.

Lemma n_loop_total rec n p in_chk beta ply depth : ntotal rec n -> keepsK rec -> InvSR p ->
  (forall m, In m (legal_moves p) -> (mu (makemove true p m) (ply + 1) (depth - 1) < n)%nat) ->
  forall ms idx s alpha best bm, (forall m, In m ms -> In m (legal_moves p)) -> NZ s ->
  n_loop rec p in_chk beta ply depth ms idx s alpha best bm <> None.
Proof.
  intros Hr Hk Hp Hch. induction ms as [|m ms IH]; intros idx s alpha best bm Hms Hs; cbn [n_loop].
  - discriminate.
  - assert (Hm : In m (legal_moves p)) by (apply Hms; left; reflexivity).
    assert (Hnp : InvSR (makemove true p m)).
    { apply invSR_step; [exact Hp|exact Hm|]. exact (gen_legal true p m (InvSR_Inv0 p Hp) (isr_ep p Hp) Hm). }
    cbv zeta.
    match goal with |- match ?x with _ => _ end <> None => destruct x as [[score s1]|] eqn:E end.
    + apply search_move_K in E; [|exact Hk].
      assert (Hs1 : NZ (pop_hist s1)).
      { apply (K_NZ _ _ E). exact Hs. }
      destruct (if best <? score then (score, Some m) else (best, bm)) as [best' bm'].
      destruct (beta <=? _); [discriminate|]. apply IH; [intros x Hx; apply Hms; right; exact Hx|exact Hs1].
    + exfalso. revert E. apply (search_move_total rec n); [exact Hr|exact Hk|exact Hnp|exact Hs|exact (Hch m Hm)].
Qed.

Lemma null_move_total rec n p s is_root cn beta ply depth : ntotal rec n -> InvSR p -> NZ s ->
  (in_check p = false -> 2 < depth -> (mu (makenull p) (ply + 1) (depth - 1 - 2) < n)%nat) ->
  null_move rec p s is_root cn (in_check p) beta ply depth <> None.
Proof.
  intros Hr Hp Hs Hmu. unfold null_move.
  destruct (negb is_root && cn && (2 <? depth) && negb (in_check p) && negb (is_endgame p)) eqn:Ec; [|discriminate].
  apply andb_true_iff in Ec. destruct Ec as [Ec _]. apply andb_true_iff in Ec. destruct Ec as [Ec Hchk].
  apply andb_true_iff in Ec. destruct Ec as [_ Hd]. apply negb_true_iff in Hchk. apply Z.ltb_lt in Hd.
  cbv zeta.
  match goal with |- match ?x with _ => _ end <> None => destruct x as [[v s1]|] eqn:E end.
  - destruct (beta <=? - v); discriminate.
  - exfalso. refine (Hr _ _ _ _ _ _ _ (invSR_null p Hp Hchk) _ (Hmu Hchk Hd) E). exact Hs.
Qed.

Lemma nm_finish_total p ao beta ply depth in_chk best bm s : NZ s -> nm_finish p ao beta ply depth in_chk best bm s <> None.
Proof.
  intros Hs. unfold nm_finish. destruct bm as [bmv|]; [|discriminate].
  unfold tt_add, t_add, get_idx. destruct (N.eqb_spec (t_len (ss_tt s)) 0%N) as [E|E]; [contradiction|discriminate].
Qed.

Lemma nm_moves_total rec n p s ao alpha beta ply depth is_root cn ttm : ntotal rec n -> keepsK rec -> InvSR p -> NZ s ->
  (forall m, In m (legal_moves p) -> (mu (makemove true p m) (ply + 1) (depth - 1) < n)%nat) ->
  (in_check p = false -> 2 < depth -> (mu (makenull p) (ply + 1) (depth - 1 - 2) < n)%nat) ->
  nm_moves rec p s ao alpha beta ply depth (in_check p) is_root cn ttm <> None.
Proof.
  intros Hr Hk Hp Hs Hch Hnull. unfold nm_moves.
  destruct (null_move rec p s is_root cn (in_check p) beta ply depth) as [[oc s1]|] eqn:En.
  - pose proof (K_NZ _ _ (null_move_K rec p s is_root cn (in_check p) beta ply depth oc s1 Hk En) Hs) as Hs1.
    destruct oc as [cut|]; [discriminate|].
    destruct (n_loop rec p (in_check p) beta ply depth (sort_n p (legal_moves p) ttm) 0 s1 alpha (- INF) None) as [r|] eqn:El.
    + apply nm_finish_total. exact (K_NZ _ _ (n_loop_K rec p (in_check p) beta ply depth Hk _ _ _ _ _ _ _ El) Hs1).
    + exfalso. revert El. apply (n_loop_total rec n); [exact Hr|exact Hk|exact Hp|exact Hch| |exact Hs1].
      intros m Hm. apply (Permutation_in _ (sort_n_perm p (legal_moves p) ttm)). exact Hm.
  - exfalso. revert En. apply (null_move_total rec n); [exact Hr|exact Hp|exact Hs|exact Hnull].
Qed.

(* `d` is the depth the node was called with, `depth` the depth after the check extension *)
Lemma nm_prune_total rec qrec n p s ao alpha beta ply d depth is_pv cn ttm : ntotal rec n -> keepsK rec -> qtot qrec -> InvSR p -> NZ s ->
  depth = (if in_check p then d + 1 else d) -> (mu p ply d <= n)%nat ->
  nm_prune stopf rec qrec p s ao alpha beta ply depth (in_check p) (ply =? 0) is_pv cn ttm <> None.
Proof.
  intros Hr Hk Hq Hp Hs Hd Hmu. unfold nm_prune.
  destruct (Z.leb_spec depth 0) as [Hd0|Hd0].
  - destruct (qrec p (ss_stats s) alpha beta ply) as [[v st]|] eqn:E; [discriminate|].
    exfalso. exact (Hq _ _ _ _ _ (InvSR_16R p Hp) E).
  - destruct (stopf (ss_stats s) && negb ((ply =? 0) && (st_depth (ss_stats s) <=? 1))); [discriminate|].
    cbv zeta.
    destruct (((100 <=? halfmoves p) || _) && negb (ply =? 0)) eqn:Edraw; [discriminate|].
    destruct (negb is_pv && negb (in_check p) && (depth <? RFP_DEPTH) && _); [discriminate|].
    assert (Hpass : halfmoves p < 100 \/ ply = 0).
    { destruct (Z.eqb_spec ply 0) as [E|E]; [right; exact E|left]. cbn [negb] in Edraw. rewrite andb_true_r in Edraw.
      apply orb_false_iff in Edraw. destruct Edraw as [Edraw _]. apply Z.leb_gt in Edraw. exact Edraw. }
    apply (nm_moves_total rec n); [exact Hr|exact Hk|exact Hp|exact Hs| |].
    + intros m Hm. eapply Nat.lt_le_trans; [|exact Hmu]. apply child_mu; [exact Hp|exact Hm|exact Hpass|].
      rewrite Hd. destruct (in_check p); lia.
    + intros Hc H2. eapply Nat.lt_le_trans; [|exact Hmu]. rewrite Hc in Hd. rewrite Hd in H2 |- *.
      exact (null_mu p ply d Hp H2).
Qed.
End Total.

Section Total2.
Variable stopf : Stats -> bool.

Lemma nm_body_total rec qrec n p s alpha beta ply depth cn : ntotal rec n -> keepsK rec -> qtot qrec -> InvSR p -> NZ s ->
  (mu p ply depth <= n)%nat -> nm_body stopf rec qrec p s alpha beta ply depth cn <> None.
Proof.
  intros Hr Hk Hq Hp Hs Hmu. unfold nm_body. cbv zeta.
  match goal with |- match tt_poll ?t ?h with _ => _ end <> None => destruct (tt_poll t h) as [tte|] eqn:Epoll end.
  - unfold nm_probe. cbv zeta.
    match goal with |- (if ?c then _ else _) <> None => destruct c end; [discriminate|].
    match goal with |- (if ?c then _ else _) <> None => destruct c end; [discriminate|].
    apply (nm_prune_total stopf rec qrec n p _ _ _ _ ply depth); [exact Hr|exact Hk|exact Hq|exact Hp|exact Hs|reflexivity|exact Hmu].
  - exfalso. revert Epoll. cbn [ss_tt with_stats]. unfold tt_poll, t_poll, get_idx.
    destruct (N.eqb_spec (t_len (ss_tt s)) 0%N) as [E|E]; [contradiction|discriminate].
Qed.

(* ================================================================== 3. the theorems *)
(* enough fuel for `negamax _ p _ _ _ ply depth _` *)
Definition fuel_for (p : Position) (ply depth : Z) : nat := (mu p ply depth + 34)%nat.

Theorem negamax_total_mu : forall fuel p s alpha beta ply depth cn, InvSR p -> NZ s ->
  (fuel_for p ply depth <= fuel)%nat -> negamax stopf fuel p s alpha beta ply depth cn <> None.
Proof.
  unfold fuel_for. induction fuel as [|f IH]; intros p s alpha beta ply depth cn Hp Hs Hf; [lia|].
  cbn [negamax]. apply (nm_body_total (negamax stopf f) (qsearch f) (f - 33)%nat).
  - intros q s0 a b pl d cn0 Hq Hs0 Hmu. apply IH; [exact Hq|exact Hs0|lia].
  - exact (negamax_K stopf f).
  - intros q st a b pl Hq. apply qsearch_total_33; [exact Hq|lia].
  - exact Hp.
  - exact Hs.
  - lia.
Qed.

(* the bound without the ply: 101 * (potential + depth) + moves left on the clock + 35 *)
Definition bound (p : Position) (depth : Z) : nat :=
  (pot p * 101 + Z.to_nat depth * 101 + Z.to_nat (100 - halfmoves p) + 35)%nat.

Lemma fuel_for_bound p ply depth : (fuel_for p ply depth <= bound p depth)%nat.
Proof. unfold fuel_for, bound, mu. destruct (ply <=? 0); lia. Qed.

Theorem negamax_total : forall p s alpha beta ply depth cn fuel, InvSR p -> t_len (ss_tt s) <> 0%N ->
  (bound p depth <= fuel)%nat -> negamax stopf fuel p s alpha beta ply depth cn <> None.
Proof.
  intros p s alpha beta ply depth cn fuel Hp Hs Hf. apply negamax_total_mu; [exact Hp|exact Hs|].
  pose proof (fuel_for_bound p ply depth). lia.
Qed.

(* a bound that does not mention the position: with at most 16 men a side the potential is at most 32 * 15 *)
Corollary negamax_total_const : forall p s alpha beta ply depth cn fuel, InvSR p -> t_len (ss_tt s) <> 0%N -> 0 <= halfmoves p ->
  101 * Z.max depth 0 + 48615 <= Z.of_nat fuel -> negamax stopf fuel p s alpha beta ply depth cn <> None.
Proof.
  intros p s alpha beta ply depth cn fuel Hp Hs Hh Hf. apply negamax_total; [exact Hp|exact Hs|].
  unfold bound. pose proof (pot_le_480 p Hp). lia.
Qed.

Lemma root_loop_total : forall n fuel p depth s best infos, InvSR p -> NZ s ->
  (bound p (MAX_DEPTH - 1) <= fuel)%nat -> root_loop stopf n fuel p depth s best infos <> None.
Proof.
  induction n as [|n IH]; intros fuel p depth s best infos Hp Hs Hf; cbn [root_loop]; [discriminate|].
  destruct (Z.leb_spec MAX_DEPTH depth) as [Hd|Hd]; [discriminate|]. cbv zeta.
  match goal with |- match ?x with _ => _ end <> None => destruct x as [[score s1]|] eqn:E end.
  - pose proof (K_NZ _ _ (negamax_K stopf fuel _ _ _ _ _ _ _ _ _ E) Hs) as Hs1.
    destruct (st_best (ss_stats s1)) as [bm|]; [|discriminate].
    destruct ((1 <? depth) && stopf (ss_stats s1)); [discriminate|].
    apply IH; [exact Hp|exact Hs1|exact Hf].
  - exfalso. revert E. apply negamax_total; [exact Hp|exact Hs|].
    eapply Nat.le_trans; [|exact Hf]. unfold bound, MAX_DEPTH in *. lia.
Qed.

(* the root: every iteration runs at a depth below MAX_DEPTH = 128 *)
Definition root_bound (p : Position) : nat := bound p (MAX_DEPTH - 1).

Theorem root_total : forall p hist tt fuel, InvSR p -> t_len tt <> 0%N ->
  (root_bound p <= fuel)%nat -> root stopf fuel p hist tt <> None.
Proof.
  intros p hist tt fuel Hp Ht Hf. unfold root. apply root_loop_total; [exact Hp|exact Ht|exact Hf].
Qed.

Corollary root_total_const : forall p hist tt fuel, InvSR p -> t_len tt <> 0%N -> 0 <= halfmoves p ->
  61442 <= Z.of_nat fuel -> root stopf fuel p hist tt <> None.
Proof.
  intros p hist tt fuel Hp Ht Hh Hf. apply root_total; [exact Hp|exact Ht|].
  unfold root_bound, bound, MAX_DEPTH. pose proof (pot_le_480 p Hp). lia.
Qed.
End Total2.

Print Assumptions pot_move.
Print Assumptions negamax_total.
Print Assumptions negamax_total_const.
Print Assumptions root_total.
Print Assumptions root_total_const.
