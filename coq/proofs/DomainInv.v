(* The executable domain test of the properties (`in_D`, spec/Abs.v) implies the executable premises of the theorems
   (`inv_b`, `ep_ok_b`, `invr_b`, spec/MakeStages.v). *)
From Coq Require Import NArith ZArith List Bool Lia ZifyN ZifyBool.
From Rawr Require Import Consts Bits Magic Position MoveGen MakeMove MakeStages Rules Abs
                         BitsFacts ShiftFacts FlipFacts AbsFacts LsbFacts HashFacts MakeFacts MakeAbs KeyAbs KeyMove
                         AttackFacts AttackAbs FenFacts BoundFacts GenSane Closure EpRetro LegalBridge.
Import ListNotations.
Local Open Scope N_scope.
Ltac Zify.zify_post_hook ::= Z.div_mod_to_equations.

(* ------------------------------------------------------------------ small tools *)
Lemma zero_bit X s : X = 0 -> N.testbit X s = false.
Proof. intros ->. apply N.bits_0. Qed.

Lemma land0_bits X Y s : N.land X Y = 0 -> N.testbit X s && N.testbit Y s = false.
Proof. intros H. rewrite <- N.land_spec, H. apply N.bits_0. Qed.

(* the per-square test on eight booleans *)
Definition wfB (u t a0 a1 a2 a3 a4 a5 : bool) : Prop :=
  u && t = false
  /\ a0 && a1 = false /\ a0 && a2 = false /\ a0 && a3 = false /\ a0 && a4 = false /\ a0 && a5 = false
  /\ a1 && a2 = false /\ a1 && a3 = false /\ a1 && a4 = false /\ a1 && a5 = false
  /\ a2 && a3 = false /\ a2 && a4 = false /\ a2 && a5 = false
  /\ a3 && a4 = false /\ a3 && a5 = false /\ a4 && a5 = false
  /\ u || t = ((a0 || a1) || (a2 || a3)) || (a4 || a5).

Definition sqB (p : Position) (s : N) : Prop :=
  wfB (ub p s) (tb p s) (pb p 0 s) (pb p 1 s) (pb p 2 s) (pb p 3 s) (pb p 4 s) (pb p 5 s).

Lemma holds_b_bits p s t k :
  holds_b p s t k = (k <=? 5) && Bool.eqb (ub p s) (negb t) && Bool.eqb (tb p s) t
    && (Bool.eqb (pb p 0 s) (0 =? k) && (Bool.eqb (pb p 1 s) (1 =? k) && (Bool.eqb (pb p 2 s) (2 =? k)
    && (Bool.eqb (pb p 3 s) (3 =? k) && (Bool.eqb (pb p 4 s) (4 =? k) && (Bool.eqb (pb p 5 s) (5 =? k) && true)))))).
Proof. reflexivity. Qed.

Lemma empty_b_bits p s :
  empty_b p s = negb (ub p s) && negb (tb p s)
    && (negb (pb p 0 s) && (negb (pb p 1 s) && (negb (pb p 2 s) && (negb (pb p 3 s) && (negb (pb p 4 s) && (negb (pb p 5 s) && true)))))).
Proof. reflexivity. Qed.

Ltac bits8 p s :=
  generalize (ub p s) (tb p s) (pb p 0 s) (pb p 1 s) (pb p 2 s) (pb p 3 s) (pb p 4 s) (pb p 5 s).

Lemma sqB_wf p s : sqB p s -> wf_b p s = true.
Proof.
  unfold sqB, wfB, wf_b. cbn [existsb]. rewrite !holds_b_bits, empty_b_bits.
  bits8 p s. intros u t a0 a1 a2 a3 a4 a5 H.
  destruct u, t, a0, a1, a2, a3, a4, a5; cbn in H; (reflexivity || (exfalso; decompose [and] H; discriminate)).
Qed.

Lemma sqB_empty p s : sqB p s -> ub p s = false -> tb p s = false -> empty_b p s = true.
Proof.
  unfold sqB, wfB. rewrite empty_b_bits.
  bits8 p s. intros u t a0 a1 a2 a3 a4 a5 H -> ->.
  destruct a0, a1, a2, a3, a4, a5; cbn in H; (reflexivity || (exfalso; decompose [and] H; discriminate)).
Qed.

Lemma sqB_pawn_them p s : sqB p s -> tb p s = true -> pb p 0 s = true -> holds_b p s true PAWN = true.
Proof.
  unfold sqB, wfB, PAWN. rewrite holds_b_bits.
  bits8 p s. intros u t a0 a1 a2 a3 a4 a5 H -> ->.
  destruct u, a1, a2, a3, a4, a5; cbn in H; (reflexivity || (exfalso; decompose [and] H; discriminate)).
Qed.

Lemma sqB_rook_them p s : sqB p s -> tb p s = true -> pb p 3 s = true -> holds_b p s true ROOK = true.
Proof.
  unfold sqB, wfB, ROOK. rewrite holds_b_bits.
  bits8 p s. intros u t a0 a1 a2 a3 a4 a5 H -> ->.
  destruct u, a0, a1, a2, a4, a5; cbn in H; (reflexivity || (exfalso; decompose [and] H; discriminate)).
Qed.

Lemma sqB_rook_us p s : sqB p s -> ub p s = true -> pb p 3 s = true -> holds_b p s false ROOK = true.
Proof.
  unfold sqB, wfB, ROOK. rewrite holds_b_bits.
  bits8 p s. intros u t a0 a1 a2 a3 a4 a5 H -> ->.
  destruct t, a0, a1, a2, a4, a5; cbn in H; (reflexivity || (exfalso; decompose [and] H; discriminate)).
Qed.

(* ------------------------------------------------------------------ what the domain test gives, as propositions *)
Record DomFacts (p : Position) : Prop := {
  df_valid : validate p = None;
  df_bb : BB8 p;
  df_union : N.lor (c_us p) (c_them p) =
             N.lor (N.lor (N.lor (pawns p) (knights p)) (N.lor (bishops p) (rooks p))) (N.lor (queens p) (kings p));
  df_cf : cf0 p <= 7 /\ cf1 p <= 7 /\ cf2 p <= 7 /\ cf3 p <= 7;
  df_uk : us_ksc p = true -> file_of (lsb (N.land (c_us p) (kings p))) < cf0 p;
  df_uq : us_qsc p = true -> cf1 p < file_of (lsb (N.land (c_us p) (kings p)));
  df_tk : them_ksc p = true -> file_of (lsb (N.land (c_them p) (kings p))) < cf2 p;
  df_tq : them_qsc p = true -> cf3 p < file_of (lsb (N.land (c_them p) (kings p)));
  df_hash : hash p = calculate_hash p;
  df_ep : forall e, ep p = Some e -> e < 64;
  df_retro : ep_retro p = true;
  df_mu : popcount (c_us p) <= 16;
  df_mt : popcount (c_them p) <= 16
}.

Lemma impl_or (a b : bool) : negb a || b = true -> a = true -> b = true.
Proof. intros H ->. exact H. Qed.

Lemma in_D_facts p : in_D p = true -> DomFacts p.
Proof.
  unfold in_D, valid_b, material. intros H.
  repeat match type of H with (_ && _) = true => apply andb_true_iff in H; destruct H as [H ?] end.
  destruct (validate p) eqn:Hv; [discriminate H|]. clear H.
  match goal with Hm : material_side _ _ && material_side _ _ = true |- _ => apply andb_true_iff in Hm; destruct Hm end.
  match goal with Hc : consistent p = true |- _ => unfold consistent, lt64 in Hc;
    repeat match type of Hc with (_ && _) = true => let X := fresh "C" in apply andb_true_iff in Hc; destruct Hc as [Hc X] end end.
  match goal with Hc : rights_geometry p = true |- _ => unfold rights_geometry in Hc; cbv zeta in Hc;
    repeat match type of Hc with (_ && _) = true => let X := fresh "R" in apply andb_true_iff in Hc; destruct Hc as [Hc X] end end.
  repeat match goal with Hm : material_side p _ = true |- _ => unfold material_side in Hm; cbv zeta in Hm;
    repeat match type of Hm with (_ && _) = true => let X := fresh "M" in apply andb_true_iff in Hm; destruct Hm as [Hm X] end end.
  repeat match goal with Hl : (_ <? TWO64)%N = true |- _ => apply N.ltb_lt in Hl end.
  repeat match goal with Hl : (_ <=? _)%N = true |- _ => apply N.leb_le in Hl end.
  repeat match goal with Hl : (_ =? _)%N = true |- _ => apply N.eqb_eq in Hl end.
  constructor; try assumption.
  - unfold BB8. repeat split; assumption.
  - repeat split; assumption.
  - intros Hf. apply N.ltb_lt. eapply impl_or; eassumption.
  - intros Hf. apply N.ltb_lt. eapply impl_or; eassumption.
  - intros Hf. apply N.ltb_lt. eapply impl_or; eassumption.
  - intros Hf. apply N.ltb_lt. eapply impl_or; eassumption.
  - intros e He. match goal with X : match ep p with _ => _ end = true |- _ => rewrite He in X; apply N.ltb_lt in X; exact X end.
Qed.

Lemma implb_intro (a b : bool) : (a = true -> b = true) -> implb' a b = true.
Proof. unfold implb'. destruct a; cbn; [intros H; apply H; reflexivity|reflexivity]. Qed.

(* ------------------------------------------------------------------ (A) the invariant *)
Section Dom.
Variable p : Position.
Hypothesis F : DomFacts p.


Lemma dom_disjoint : N.land (c_us p) (c_them p) = 0.
Proof.
  destruct (validate_sound p (df_valid p F)) as (_ & Hwb & _). unfold emp2, get_white, get_black in Hwb.
  destruct (turn p); [rewrite N.land_comm|]; exact Hwb.
Qed.

Lemma dom_king_us : popcount (N.land (kings p) (c_us p)) = 1.
Proof.
  destruct (validate_sound p (df_valid p F)) as (_ & _ & _ & _ & _ & _ & _ & _ & _ & _ & _ & _ & _ & _ & _ & _ & _ & _ & Kw & Kb & _).
  unfold get_white, get_black in Kw, Kb. rewrite N.land_comm. destruct (turn p); assumption.
Qed.

Lemma dom_king_them : popcount (N.land (kings p) (c_them p)) = 1.
Proof.
  destruct (validate_sound p (df_valid p F)) as (_ & _ & _ & _ & _ & _ & _ & _ & _ & _ & _ & _ & _ & _ & _ & _ & _ & _ & Kw & Kb & _).
  unfold get_white, get_black in Kw, Kb. rewrite N.land_comm. destruct (turn p); assumption.
Qed.

Lemma dom_sq s : sqB p s.
Proof.
  destruct (validate_sound p (df_valid p F)) as (_ & _ & D1 & D2 & D3 & D4 & D5 & D6 & D7 & D8 & D9 & D10 & D11 & D12 & D13 & D14 & D15 & _).
  unfold emp2 in *.
  unfold sqB, wfB, ub, tb, pb, is_set. cbn [get_piece].
  repeat match goal with |- _ /\ _ => split end; try (apply land0_bits; assumption).
  - apply land0_bits. exact dom_disjoint.
  - rewrite <- !N.lor_spec. rewrite (df_union p F). reflexivity.
Qed.

Lemma dom_wf_all : forallb (wf_b p) sq64_list = true.
Proof. apply forallb_forall. intros s _. apply sqB_wf, dom_sq. Qed.

Lemma dom_bb8 : bb8_b p = true.
Proof.
  destruct (df_bb p F) as (B1 & B2 & B3 & B4 & B5 & B6 & B7 & B8). unfold bb8_b.
  apply N.ltb_lt in B1, B2, B3, B4, B5, B6, B7, B8. rewrite B1, B2, B3, B4, B5, B6, B7, B8. reflexivity.
Qed.

Lemma dom_ep64 : match ep p with Some e => e <? 64 | None => true end = true.
Proof. destruct (ep p) as [e|] eqn:E; [|reflexivity]. apply N.ltb_lt. exact (df_ep p F e E). Qed.

Lemma land_bits X Y s : is_set (N.land X Y) s = true -> N.testbit X s = true /\ N.testbit Y s = true.
Proof. unfold is_set. rewrite N.land_spec. intros H. apply andb_true_iff in H. exact H. Qed.

(* our rights *)
Lemma dom_uk_rook : implb' (us_ksc p) (holds_b p (sq_of (cf0 p) 0) false ROOK) = true.
Proof.
  apply implb_intro. intros Hf.
  destruct (validate_sound p (df_valid p F)) as (_ & _ & _ & _ & _ & _ & _ & _ & _ & _ & _ & _ & _ & _ & _ & _ & _ & _ & _ & _ & _ & _ & R1 & _).
  destruct (R1 Hf) as (_ & Hr). apply land_bits in Hr. destruct Hr as [Hu Hr].
  apply sqB_rook_us; [apply dom_sq|exact Hu|exact Hr].
Qed.
Lemma dom_uq_rook : implb' (us_qsc p) (holds_b p (sq_of (cf1 p) 0) false ROOK) = true.
Proof.
  apply implb_intro. intros Hf.
  destruct (validate_sound p (df_valid p F)) as (_ & _ & _ & _ & _ & _ & _ & _ & _ & _ & _ & _ & _ & _ & _ & _ & _ & _ & _ & _ & _ & _ & _ & R2 & _).
  destruct (R2 Hf) as (_ & Hr). apply land_bits in Hr. destruct Hr as [Hu Hr].
  apply sqB_rook_us; [apply dom_sq|exact Hu|exact Hr].
Qed.
Lemma dom_tk_rook : them_ksc p = true -> holds_b p (sq_of (cf2 p) 7) true ROOK = true.
Proof.
  intros Hf.
  destruct (validate_sound p (df_valid p F)) as (_ & _ & _ & _ & _ & _ & _ & _ & _ & _ & _ & _ & _ & _ & _ & _ & _ & _ & _ & _ & _ & _ & _ & _ & R3 & _).
  destruct (R3 Hf) as (_ & Hr). apply land_bits in Hr. destruct Hr as [Hu Hr].
  apply sqB_rook_them; [apply dom_sq|exact Hu|exact Hr].
Qed.
Lemma dom_tq_rook : them_qsc p = true -> holds_b p (sq_of (cf3 p) 7) true ROOK = true.
Proof.
  intros Hf.
  destruct (validate_sound p (df_valid p F)) as (_ & _ & _ & _ & _ & _ & _ & _ & _ & _ & _ & _ & _ & _ & _ & _ & _ & _ & _ & _ & _ & _ & _ & _ & _ & R4 & _).
  destruct (R4 Hf) as (_ & Hr). apply land_bits in Hr. destruct Hr as [Hu Hr].
  apply sqB_rook_them; [apply dom_sq|exact Hu|exact Hr].
Qed.
Lemma holds_b_tb s k : holds_b p s true k = true -> tb p s = true.
Proof. intros H. apply holds_b_sound in H. destruct H as (_ & _ & H & _). exact H. Qed.
Lemma dom_tk_tb : implb' (them_ksc p) (tb p (sq_of (cf2 p) 7)) = true.
Proof. apply implb_intro. intros Hf. exact (holds_b_tb _ _ (dom_tk_rook Hf)). Qed.
Lemma dom_tq_tb : implb' (them_qsc p) (tb p (sq_of (cf3 p) 7)) = true.
Proof. apply implb_intro. intros Hf. exact (holds_b_tb _ _ (dom_tq_rook Hf)). Qed.

Lemma dom_key_pos : key_pos_b p = true.
Proof.
  unfold key_pos_b. rewrite dom_bb8, dom_wf_all, dom_ep64, dom_uk_rook, dom_uq_rook, dom_tk_tb, dom_tq_tb.
  rewrite (proj2 (N.eqb_eq _ _) (df_hash p F)). reflexivity.
Qed.

(* the en-passant details *)
Lemma dom_ep_rank e : ep p = Some e -> 40 <= e < 48.
Proof.
  intros He.
  destruct (validate_sound p (df_valid p F)) as (_ & _ & _ & _ & _ & _ & _ & _ & _ & _ & _ & _ & _ & _ & _ & _ & _ & E & _).
  destruct (E e He) as (Hr & _). unfold rank_of in Hr. lia.
Qed.

Lemma dom_ep_victim e : ep p = Some e -> tb p (e - 8) = true /\ pb p 0 (e - 8) = true.
Proof.
  intros He. pose proof (dom_ep_rank e He) as Hr.
  destruct (validate_sound p (df_valid p F)) as (_ & _ & _ & _ & _ & _ & _ & _ & _ & _ & _ & _ & _ & _ & _ & _ & _ & E & _).
  destruct (E e He) as (_ & Hn & _).
  pose proof (lsb_set _ Hn) as Hb. set (i := lsb _) in Hb.
  rewrite !N.land_spec in Hb. apply andb_true_iff in Hb. destruct Hb as [Hb Hp]. apply andb_true_iff in Hb. destruct Hb as [Hs Ht].
  rewrite testbit_south, testbit_bit in Hs by lia. apply N.eqb_eq in Hs.
  replace (e - 8) with i by lia. split; [exact Ht|exact Hp].
Qed.

Lemma dom_ep_vacant e : ep p = Some e -> ub p e = false /\ tb p e = false.
Proof.
  intros He. pose proof (dom_ep_rank e He) as Hr.
  destruct (validate_sound p (df_valid p F)) as (_ & _ & _ & _ & _ & _ & _ & _ & _ & _ & _ & _ & _ & _ & _ & _ & _ & E & _).
  destruct (E e He) as (_ & _ & Hz).
  pose proof (land0_bits _ _ e Hz) as Hb. rewrite testbit_bit, N.eqb_refl in Hb by lia. cbn [andb] in Hb.
  unfold occupied in Hb. rewrite N.lor_spec in Hb. apply orb_false_iff in Hb. exact Hb.
Qed.

Lemma dom_ep_details :
  match ep p with
  | Some e => (8 <=? e) && (e <? 64) && empty_b p e && holds_b p (e - 8) true PAWN
  | None => true
  end = true.
Proof.
  destruct (ep p) as [e|] eqn:He; [|reflexivity].
  pose proof (dom_ep_rank e He) as Hr. destruct (dom_ep_victim e He) as [Ht Hp]. destruct (dom_ep_vacant e He) as [Vu Vt].
  rewrite (sqB_empty p e (dom_sq e) Vu Vt), (sqB_pawn_them p (e - 8) (dom_sq _) Ht Hp).
  replace (8 <=? e) with true by lia. replace (e <? 64) with true by lia. reflexivity.
Qed.

(* king and rook order *)
Lemma dom_uk_order : implb' (us_ksc p) (lsb (N.land (kings p) (c_us p)) <? sq_of (cf0 p) 0) = true.
Proof.
  apply implb_intro. intros Hf. rewrite (N.land_comm (kings p)).
  destruct (validate_sound p (df_valid p F)) as (_ & _ & _ & _ & _ & _ & _ & _ & _ & _ & _ & _ & _ & _ & _ & _ & _ & _ & _ & _ & _ & _ & R1 & _).
  destruct (R1 Hf) as (Hr & _). pose proof (df_uk p F Hf) as Hk.
  unfold rank_of in Hr. unfold file_of in Hk. unfold sq_of. lia.
Qed.
Lemma dom_uq_order :
  implb' (us_qsc p) ((sq_of (cf1 p) 0 <? lsb (N.land (kings p) (c_us p))) && (lsb (N.land (kings p) (c_us p)) <? 8)) = true.
Proof.
  apply implb_intro. intros Hf. rewrite (N.land_comm (kings p)).
  destruct (validate_sound p (df_valid p F)) as (_ & _ & _ & _ & _ & _ & _ & _ & _ & _ & _ & _ & _ & _ & _ & _ & _ & _ & _ & _ & _ & _ & _ & R2 & _).
  destruct (R2 Hf) as (Hr & _). pose proof (df_uq p F Hf) as Hk.
  unfold rank_of in Hr. unfold file_of in Hk. unfold sq_of. lia.
Qed.

Lemma dom_good_pos : good_pos_b p = true.
Proof.
  unfold good_pos_b. cbv zeta.
  rewrite dom_key_pos, dom_ep_details, dom_uk_order, dom_uq_order.
  rewrite (proj2 (N.eqb_eq _ _) dom_disjoint), (proj2 (N.eqb_eq _ _) dom_king_us).
  destruct (df_cf p F) as (C0 & C1 & C2 & C3). apply N.leb_le in C0, C1, C2, C3. rewrite C0, C1, C2, C3. reflexivity.
Qed.

Lemma dom_tk_all :
  implb' (them_ksc p) (holds_b p (sq_of (cf2 p) 7) true ROOK && (56 <=? lsb (N.land (kings p) (c_them p)))
                       && (lsb (N.land (kings p) (c_them p)) <? sq_of (cf2 p) 7)) = true.
Proof.
  apply implb_intro. intros Hf. rewrite (dom_tk_rook Hf). rewrite (N.land_comm (kings p)).
  destruct (validate_sound p (df_valid p F)) as (_ & _ & _ & _ & _ & _ & _ & _ & _ & _ & _ & _ & _ & _ & _ & _ & _ & _ & _ & _ & _ & _ & _ & _ & R3 & _).
  destruct (R3 Hf) as (Hr & _). pose proof (df_tk p F Hf) as Hk.
  unfold rank_of in Hr. unfold file_of in Hk. unfold sq_of. lia.
Qed.
Lemma dom_tq_all :
  implb' (them_qsc p) (holds_b p (sq_of (cf3 p) 7) true ROOK && (sq_of (cf3 p) 7 <? lsb (N.land (kings p) (c_them p)))) = true.
Proof.
  apply implb_intro. intros Hf. rewrite (dom_tq_rook Hf). rewrite (N.land_comm (kings p)).
  destruct (validate_sound p (df_valid p F)) as (_ & _ & _ & _ & _ & _ & _ & _ & _ & _ & _ & _ & _ & _ & _ & _ & _ & _ & _ & _ & _ & _ & _ & _ & _ & R4 & _).
  destruct (R4 Hf) as (Hr & _). pose proof (df_tq p F Hf) as Hk.
  unfold rank_of in Hr. unfold file_of in Hk. unfold sq_of. lia.
Qed.

Lemma dom_safe : in_check_them p = false.
Proof.
  destruct (validate_sound p (df_valid p F)) as (_ & _ & _ & _ & _ & _ & _ & _ & _ & _ & _ & _ & _ & _ & _ & _ & _ & _ & _ & _ & _ & _ & _ & _ & _ & _ & S).
  unfold in_check_them. rewrite (N.land_comm (kings p)). exact S.
Qed.

Lemma dom_inv : inv_b p = true.
Proof.
  unfold inv_b. cbv zeta.
  rewrite dom_good_pos, dom_tk_all, dom_tq_all, dom_safe, (proj2 (N.eqb_eq _ _) dom_king_them). reflexivity.
Qed.

Lemma dom_invs : invs_b p = true.
Proof.
  unfold invs_b. rewrite dom_inv.
  rewrite (proj2 (N.leb_le _ _) (df_mu p F)), (proj2 (N.leb_le _ _) (df_mt p F)). reflexivity.
Qed.
End Dom.

Theorem in_D_inv p : in_D p = true -> inv_b p = true.
Proof. intros H. apply dom_inv, in_D_facts, H. Qed.
Print Assumptions in_D_inv.

(* ------------------------------------------------------------------ (B) the en-passant consistency *)
(* the king of the side to move, on the abstract board *)
Lemma king_sq_us q : WF q -> HashFacts.BB8 q -> popcount (N.land (kings q) (c_us q)) = 1 -> uksq q < 64 ->
  let a := rel_sq q (uksq q) in
  king_sq (board_of q) (colour_of_turn (turn q)) = Some (Z.of_N (a mod 8), Z.of_N (a / 8)).
Proof.
  intros HW HB Hp HK. cbv zeta.
  apply king_sq_unique; [apply board_length|apply rel_sq_lt; exact HK|].
  intros a Ha. rewrite nth_board by lia. rewrite N2Nat.id.
  pose proof (view_of_king q true HB Hp (rel_sq q a)) as V. cbv iota in V. fold (uksq q) in V.
  assert (Es : (a =? rel_sq q (uksq q)) = (rel_sq q a =? uksq q)).
  { destruct (N.eqb_spec a (rel_sq q (uksq q))) as [E|E]; destruct (N.eqb_spec (rel_sq q a) (uksq q)) as [E'|E']; try reflexivity; exfalso.
    - apply E'. rewrite E. apply rel_sq_invol.
    - apply E. rewrite <- E'. symmetry. apply rel_sq_invol. }
  rewrite Es, <- V.
  destruct (HW (rel_sq q a) (rel_sq_lt q a Ha)) as [He|(t & k & Hh)].
  - rewrite (man_at_empty q a He). destruct He as (_ & _ & Hpb). rewrite (Hpb 5) by lia. reflexivity.
  - rewrite (man_at_holds q a t k Hh). destruct Hh as (Hk & Hu & _ & Hpb).
    rewrite (Hpb 5) by lia. rewrite Hu. cbn [is_man]. rewrite colour_turn_eqb.
    rewrite (kind_king k Hk).
    replace (5 =? k) with (k =? KING) by (unfold KING; apply N.eqb_sym).
    destruct (turn q), t; cbn [negb xorb Bool.eqb andb]; rewrite ?andb_true_r, ?andb_false_r; reflexivity.
Qed.

Lemma same_wf p q s : same_at p q s -> wf_sq p s -> wf_sq q s.
Proof.
  intros (Su & St & Sp) [(Eu & Et & Ep)|(t & k & Hk & Eu & Et & Ep)].
  - left. split; [rewrite Su; exact Eu|split; [rewrite St; exact Et|]]. intros j Hj. rewrite (Sp j Hj). exact (Ep j Hj).
  - right. exists t, k. split; [exact Hk|split; [rewrite Su; exact Eu|split; [rewrite St; exact Et|]]].
    intros j Hj. rewrite (Sp j Hj). exact (Ep j Hj).
Qed.

Section Unpush.
Variables (p : Position) (e : N).
Hypothesis F : DomFacts p.
Hypothesis He : ep p = Some e.
Let v := e - 8.
Let o := e + 8.
Let U := unpush p e.
Local Notation BB := (N.lor (bit (e - 8)) (bit (e + 8))).

Lemma up_rank : 40 <= e < 48.
Proof. exact (dom_ep_rank p F e He). Qed.

Lemma up_WF : WF p.
Proof. apply WF_sound, dom_wf_all, F. Qed.
Lemma up_BB : HashFacts.BB8 p.
Proof. exact (df_bb p F). Qed.

Lemma up_v : holds p v true PAWN.
Proof. destruct (dom_ep_victim p F e He) as [Ht Hp]. apply holds_b_sound, sqB_pawn_them; [apply dom_sq, F|exact Ht|exact Hp]. Qed.

Lemma up_o_vacant : is_set (occupied p) o = false.
Proof.
  pose proof (df_retro p F) as H. unfold ep_retro in H. rewrite He in H. cbv zeta in H.
  apply andb_true_iff in H. destruct H as [H _]. apply negb_true_iff in H. exact H.
Qed.

Lemma up_o : empty_at p o.
Proof.
  pose proof up_o_vacant as H. unfold is_set, occupied in H. rewrite N.lor_spec in H. apply orb_false_iff in H. destruct H as [Hu Ht].
  apply empty_b_sound, sqB_empty; [apply dom_sq, F|exact Hu|exact Ht].
Qed.

Lemma up_bb_bit s : s < 64 -> N.testbit BB s = (s =? v) || (s =? o).
Proof. pose proof up_rank. intros Hs. rewrite N.lor_spec, !testbit_bit by (unfold v, o; lia). reflexivity. Qed.

Lemma up_ub s : ub U s = ub p s.
Proof. unfold U, unpush. cbv zeta. rewrite ub_xor_piece, ub_xor_them. reflexivity. Qed.
Lemma up_tb s : s < 64 -> tb U s = xorb (tb p s) ((s =? v) || (s =? o)).
Proof. intros Hs. unfold U, unpush. cbv zeta. rewrite tb_xor_piece, tb_xor_them, (up_bb_bit s Hs). reflexivity. Qed.
Lemma up_pb j s : j <= 5 -> s < 64 -> pb U j s = xorb (pb p j s) ((0 =? j) && ((s =? v) || (s =? o))).
Proof.
  intros Hj Hs. unfold U, unpush. cbv zeta. rewrite pb_xor_piece, pb_xor_them, (up_bb_bit s Hs) by (unfold PAWN; lia). reflexivity.
Qed.

Lemma up_turn : turn U = turn p.
Proof. reflexivity. Qed.
Lemma up_kings : kings U = kings p.
Proof. reflexivity. Qed.
Lemma up_c_us : c_us U = c_us p.
Proof. reflexivity. Qed.

Lemma up_at_v : empty_at U v.
Proof.
  pose proof up_rank as Hr. destruct up_v as (_ & Hu & Ht & Hp).
  assert (Hv : v < 64) by (unfold v; lia).
  split; [rewrite up_ub; exact Hu|split].
  - rewrite (up_tb v Hv), Ht, N.eqb_refl. reflexivity.
  - intros j Hj. rewrite (up_pb j v Hj Hv), (Hp j Hj), N.eqb_refl, N.eqb_sym. unfold PAWN. cbn [orb]. rewrite andb_true_r. apply xorb_nilpotent.
Qed.

Lemma up_at_o : holds U o true PAWN.
Proof.
  pose proof up_rank as Hr. destruct up_o as (Hu & Ht & Hp).
  assert (Ho : o < 64) by (unfold o; lia).
  split; [unfold PAWN; lia|split; [rewrite up_ub; exact Hu|split]].
  - rewrite (up_tb o Ho), Ht, N.eqb_refl, orb_true_r. reflexivity.
  - intros j Hj. rewrite (up_pb j o Hj Ho), (Hp j Hj), N.eqb_refl, orb_true_r, andb_true_r, N.eqb_sym, xorb_false_l. unfold PAWN. reflexivity.
Qed.

Lemma up_same s : s < 64 -> s <> v -> s <> o -> same_at p U s.
Proof.
  intros Hs Hv Ho.
  assert (E : (s =? v) || (s =? o) = false).
  { destruct (N.eqb_spec s v); [contradiction|]. destruct (N.eqb_spec s o); [contradiction|]. reflexivity. }
  split; [apply up_ub|split].
  - rewrite (up_tb s Hs), E. apply xorb_false_r.
  - intros j Hj. rewrite (up_pb j s Hj Hs), E, andb_false_r. apply xorb_false_r.
Qed.

Lemma up_WFU : WF U.
Proof.
  intros s Hs. destruct (N.eq_dec s v) as [->|Hv]; [left; exact up_at_v|].
  destruct (N.eq_dec s o) as [->|Ho]; [right; exists true, PAWN; exact up_at_o|].
  exact (same_wf p U s (up_same s Hs Hv Ho) (up_WF s Hs)).
Qed.

Lemma up_BBU : HashFacts.BB8 U.
Proof.
  destruct up_BB as (B1 & B2 & B3 & B4 & B5 & B6 & B7 & B8).
  assert (Hb : BB < TWO64) by (apply lor_lt; apply bit_lt).
  unfold HashFacts.BB8, U, unpush. cbv zeta.
  cbn [xor_piece xor_them set_piece set_them get_piece PAWN c_us c_them pawns knights bishops rooks queens kings].
  repeat split; try assumption; apply lxor_lt; assumption.
Qed.

Lemma up_king_them : N.land (kings U) (c_them U) = N.land (kings p) (c_them p).
Proof.
  destruct up_BB as (B1 & B2 & B3 & B4 & B5 & B6 & B7 & B8). destruct up_BBU as (_ & C2 & _).
  rewrite up_kings. apply board_ext; [apply land_lt_l; exact B8|apply land_lt_l; exact B8|].
  intros i Hi. rewrite !N.land_spec.
  change (N.testbit (c_them U) i) with (tb U i). change (N.testbit (c_them p) i) with (tb p i). change (N.testbit (kings p) i) with (pb p 5 i).
  rewrite (up_tb i Hi).
  destruct (N.eqb_spec i v) as [->|Hv].
  - destruct up_v as (_ & _ & _ & Hp). rewrite (Hp 5) by lia. reflexivity.
  - destruct (N.eqb_spec i o) as [->|Ho].
    + destruct up_o as (_ & _ & Hp). rewrite (Hp 5) by lia. reflexivity.
    + cbn [orb]. rewrite xorb_false_r. reflexivity.
Qed.

Lemma up_uk : popcount (N.land (kings p) (c_us p)) = 1.
Proof. exact (dom_king_us p F). Qed.

Lemma up_ksq_lt : uksq p < 64.
Proof.
  destruct up_BB as (B1 & B2 & B3 & B4 & B5 & B6 & B7 & B8).
  unfold uksq. apply lsb_lt64; [apply land_lt_l; exact B8|apply popcount1_nonzero, up_uk].
Qed.

(* the board of the rules with the pawn put back *)
Lemma up_board :
  let a_now := rel_sq p v in
  let a_org := rel_sq p o in
  board_of U = put (put (board_of p) (Z.of_N (a_now mod 8)) (Z.of_N (a_now / 8)) None)
                   (Z.of_N (a_org mod 8)) (Z.of_N (a_org / 8)) (Some (colour_of_turn (negb (turn p)), Pawn)).
Proof.
  cbv zeta. pose proof up_rank as Hr.
  assert (Hv : v < 64) by (unfold v; lia). assert (Ho : o < 64) by (unfold o; lia).
  pose proof (rel_sq_lt p v Hv) as Hv'. pose proof (rel_sq_lt p o Ho) as Ho'.
  rewrite (put_board (board_of p) (rel_sq p v) None Hv' (board_length p)).
  rewrite put_board by (exact Ho' || (rewrite upd_length; apply board_length)).
  apply list_ext64; [apply board_length|rewrite !upd_length; apply board_length|].
  intros i Hi.
  rewrite nth_upd by (rewrite upd_length, board_length; lia).
  rewrite nth_upd by (rewrite board_length; lia).
  rewrite !nth_board by exact Hi.
  set (a := N.of_nat i). assert (Ha : a < 64) by (unfold a; lia).
  assert (Er : rel_sq U a = rel_sq p a) by reflexivity.
  destruct (Nat.eqb_spec i (N.to_nat (rel_sq p o))) as [E1|E1].
  - assert (Ea : rel_sq p a = o) by (rewrite <- (rel_sq_invol p o); f_equal; unfold a; lia).
    pose proof up_at_o as Hh. rewrite <- Ea, <- Er in Hh. rewrite (man_at_holds U a true PAWN Hh).
    rewrite up_turn. destruct (turn p); reflexivity.
  - destruct (Nat.eqb_spec i (N.to_nat (rel_sq p v))) as [E2|E2].
    + assert (Ea : rel_sq p a = v) by (rewrite <- (rel_sq_invol p v); f_equal; unfold a; lia).
      pose proof up_at_v as Hh. rewrite <- Ea, <- Er in Hh. exact (man_at_empty U a Hh).
    + apply man_at_same; [reflexivity|].
      apply up_same; [apply rel_sq_lt; exact Ha| |].
      * intros E. apply E2. rewrite <- E, rel_sq_invol. unfold a. lia.
      * intros E. apply E1. rewrite <- E, rel_sq_invol. unfold a. lia.
Qed.

Lemma up_safe : is_sq_attacked U (lsb (N.land (kings p) (c_us p))) false = false.
Proof.
  pose proof (df_retro p F) as H. unfold ep_retro in H. rewrite He in H. cbv zeta in H.
  apply andb_true_iff in H. destruct H as [_ H].
  rewrite (king_sq_us p up_WF up_BB up_uk up_ksq_lt) in H. cbv zeta in H. apply negb_true_iff in H.
  fold (uksq p).
  assert (Kt : popcount (N.land (kings U) (get_side U false)) = 1).
  { unfold get_side. rewrite up_king_them. exact (dom_king_them p F). }
  rewrite (attack_query_is_the_rules U (uksq p) false up_WFU up_BBU up_ksq_lt Kt).
  unfold spec_attacked. cbv zeta. rewrite up_turn.
  change (rel_sq U (uksq p)) with (rel_sq p (uksq p)).
  pose proof up_board as B. cbv zeta in B. rewrite B. exact H.
Qed.

Lemma up_ep_ok_case : negb (is_set (occupied p) (e + 8)) && negb (is_sq_attacked (unpush p e) (lsb (N.land (kings p) (c_us p))) false) = true.
Proof. pose proof up_o_vacant as H1. pose proof up_safe as H2. unfold o in H1. unfold U in H2. rewrite H1, H2. reflexivity. Qed.
End Unpush.

Theorem in_D_ep_ok p : in_D p = true -> ep_ok_b p = true.
Proof.
  intros H. pose proof (in_D_facts p H) as F. unfold ep_ok_b.
  destruct (ep p) as [e|] eqn:He; [|reflexivity].
  exact (up_ep_ok_case p e F He).
Qed.

Corollary in_D_invr p : in_D p = true -> invr_b p = true.
Proof.
  intros H. unfold invr_b. rewrite (dom_invs p (in_D_facts p H)), (in_D_ep_ok p H). reflexivity.
Qed.

Print Assumptions in_D_ep_ok.
Print Assumptions in_D_invr.
