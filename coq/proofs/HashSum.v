(* C04: XOR-sums of keys over a bitboard, as the fold zobrist.rs performs and as a sum over the 64 squares. *)
From Coq Require Import NArith ZArith List Bool Lia.
From Rawr Require Import Consts Bits Magic Position MoveGen MakeMove BitsFacts.
Import ListNotations.
Local Open Scope N_scope.

(* XOR of g over the n squares i, i+1, ... *)
Fixpoint XAr (g : N -> N) (n : nat) (i : N) : N :=
  match n with O => 0 | S n' => N.lxor (g i) (XAr g n' (N.succ i)) end.
Definition XA (g : N -> N) : N := XAr g 64 0.

Lemma XAr_ext g g' n i : (forall a, g a = g' a) -> XAr g n i = XAr g' n i.
Proof. intros H. revert i. induction n as [|n IH]; intros i; cbn [XAr]; [reflexivity|]. rewrite H, IH. reflexivity. Qed.

Lemma XAr_ext_range g g' n i : (forall a, i <= a < i + N.of_nat n -> g a = g' a) -> XAr g n i = XAr g' n i.
Proof.
  revert i. induction n as [|n IH]; intros i H; cbn [XAr]; [reflexivity|].
  rewrite H by lia. rewrite IH; [reflexivity|]. intros a Ha. apply H. lia.
Qed.

Lemma XA_ext g g' : (forall a, a < 64 -> g a = g' a) -> XA g = XA g'.
Proof. intros H. apply XAr_ext_range. intros a Ha. apply H. cbn in Ha. lia. Qed.

Lemma XAr_shift g n i : XAr g n (N.succ i) = XAr (fun a => g (N.succ a)) n i.
Proof. revert i. induction n as [|n IH]; intros i; cbn [XAr]; [reflexivity|]. rewrite IH. reflexivity. Qed.

Lemma XAr_lxor g g' n i : N.lxor (XAr g n i) (XAr g' n i) = XAr (fun a => N.lxor (g a) (g' a)) n i.
Proof.
  revert i. induction n as [|n IH]; intros i; cbn [XAr]; [reflexivity|]. rewrite <- IH.
  rewrite !N.lxor_assoc. f_equal. rewrite <- !N.lxor_assoc. rewrite (N.lxor_comm (XAr g n (N.succ i)) (g' i)). reflexivity.
Qed.
Lemma XA_lxor g g' : N.lxor (XA g) (XA g') = XA (fun a => N.lxor (g a) (g' a)).
Proof. apply XAr_lxor. Qed.

Lemma XAr_zero n i : XAr (fun _ => 0) n i = 0.
Proof. revert i. induction n as [|n IH]; intros i; cbn [XAr]; [reflexivity|]. rewrite IH. reflexivity. Qed.

(* a sum whose terms differ from another's at one square only *)
Lemma XAr_single g n i s v : i <= s < i + N.of_nat n ->
  XAr (fun a => if a =? s then v else g a) n i = N.lxor (N.lxor (XAr g n i) (g s)) v.
Proof.
  revert i. induction n as [|n IH]; intros i H; [lia|]. cbn [XAr].
  destruct (N.eqb_spec i s) as [E|E].
  - subst i.
    rewrite (XAr_ext_range (fun a => if a =? s then v else g a) g) by (intros a Ha; destruct (N.eqb_spec a s); [lia|reflexivity]).
    rewrite (N.lxor_comm (g s)), N.lxor_assoc, N.lxor_assoc. rewrite <- (N.lxor_assoc (g s) (g s)), N.lxor_nilpotent, N.lxor_0_l.
    apply N.lxor_comm.
  - rewrite IH by lia. rewrite !N.lxor_assoc. reflexivity.
Qed.
Lemma XA_single g s v : s < 64 -> XA (fun a => if a =? s then v else g a) = N.lxor (N.lxor (XA g) (g s)) v.
Proof. intros H. apply XAr_single. cbn. lia. Qed.

(* ---- the fold of zobrist.rs over the set bits *)
Fixpoint PX (f : N -> N) (p : positive) (i : N) : N :=
  match p with
  | xH => f i
  | xO q => PX f q (N.succ i)
  | xI q => N.lxor (f i) (PX f q (N.succ i))
  end.

Lemma fold_bits_pos f p : forall i h,
  fold_left (fun acc sq => N.lxor acc (f sq)) (bits_pos p i) h = N.lxor h (PX f p i).
Proof.
  induction p as [q IH|q IH|]; intros i h; cbn [bits_pos PX fold_left].
  - rewrite IH. rewrite N.lxor_assoc. reflexivity.
  - apply IH.
  - reflexivity.
Qed.

Lemma PX_shift f p : forall i, PX f p (N.succ i) = PX (fun a => f (N.succ a)) p i.
Proof. induction p as [q IH|q IH|]; intros i; cbn [PX]; rewrite ?IH; reflexivity. Qed.

Lemma testbit_1_succ a : N.testbit 1 (N.succ a) = false.
Proof. destruct a; reflexivity. Qed.

Lemma PX_XAr : forall n p f, Npos p < 2 ^ N.of_nat n ->
  PX f p 0 = XAr (fun a => if N.testbit (Npos p) a then f a else 0) n 0.
Proof.
  induction n as [|n IH]; intros p f H.
  - cbn in H. lia.
  - rewrite Nat2N.inj_succ, N.pow_succ_r' in H. cbn [XAr].
    destruct p as [q|q|].
    + cbn [PX]. change (N.testbit (Npos q~1) 0) with true. cbv iota.
      rewrite PX_shift, XAr_shift. f_equal.
      rewrite (IH q (fun a => f (N.succ a))) by lia.
      apply XAr_ext. intros a. cbv beta. rewrite <- (N.testbit_odd_succ (Npos q) a) by lia. reflexivity.
    + cbn [PX]. change (N.testbit (Npos q~0) 0) with false. cbv iota. rewrite N.lxor_0_l.
      rewrite PX_shift, XAr_shift.
      rewrite (IH q (fun a => f (N.succ a))) by lia.
      apply XAr_ext. intros a. cbv beta. rewrite <- (N.testbit_even_succ (Npos q) a) by lia. reflexivity.
    + cbn [PX]. change (N.testbit 1 0) with true. cbv iota.
      rewrite XAr_shift. rewrite (XAr_ext _ (fun _ => 0)); [rewrite XAr_zero, N.lxor_0_r; reflexivity|].
      intros a. cbv beta. rewrite testbit_1_succ. reflexivity.
Qed.

(* hash_pieces as a sum over the 64 squares *)
Theorem hash_pieces_XA colour piece bb h : bb < TWO64 ->
  hash_pieces colour piece bb h = N.lxor h (XA (fun a => if N.testbit bb a then key colour piece a else 0)).
Proof.
  intros Hb. unfold hash_pieces, bits. destruct bb as [|p].
  - cbn [fold_left]. unfold XA. rewrite (XAr_ext _ (fun _ => 0)) by (intros a; rewrite N.bits_0; reflexivity).
    rewrite XAr_zero, N.lxor_0_r. reflexivity.
  - rewrite fold_bits_pos. f_equal. apply (PX_XAr 64). exact Hb.
Qed.
