(* C01, the bridge: the engine's legality test on the made move (in_check_them (makemove u p m)) is the filter of
   Rules.legal (the mover's king is not attacked in the successor), for every generated move on a position satisfying the
   invariant; the encoding of moves round-trips on generated moves; so "a generated move that passes the engine's test is
   a legal move of the rules" reduces to "it is pseudo-legal by the rules". *)
From Coq Require Import NArith ZArith List Bool Lia ZifyN ZifyNat ZifyBool.
From Rawr Require Import Consts Bits Magic Position MoveGen MakeMove MakeStages Rules Abs
                         BitsFacts FlipFacts AbsFacts LsbFacts HashFacts MakeFacts MakeAbs CastleFacts CastleAbs KeyAbs KeyMove
                         AttackFacts GenSane AttackAbs NoKingCapture Closure.
Import ListNotations.
Local Open Scope N_scope.
Ltac Zify.zify_post_hook ::= Z.div_mod_to_equations.

(* ------------------------------------------------------------------ B1: the first king found is the king *)
Lemma all_squares_seq :
  all_squares = map (fun i => (Z.of_nat (i mod 8), Z.of_nat (i / 8))) (seq 0 64).
Proof. vm_compute. reflexivity. Qed.

Lemma find_map_seq {A} (f : A -> bool) (g : nat -> A) (k : nat) : forall n s,
  (s <= k < s + n)%nat -> (forall i, (s <= i < s + n)%nat -> f (g i) = Nat.eqb i k) ->
  find f (map g (seq s n)) = Some (g k).
Proof.
  induction n as [|n IH]; intros s Hk H; [lia|].
  cbn [seq map find]. rewrite (H s) by lia.
  destruct (Nat.eqb_spec s k) as [->|Ne]; [reflexivity|].
  apply IH; [lia|]. intros i Hi. apply H. lia.
Qed.

Lemma at_nth (b : board) (i : nat) : (i < 64)%nat ->
  at_ b (Z.of_nat (i mod 8)) (Z.of_nat (i / 8)) = nth i b None.
Proof.
  intros Hi. unfold at_, onb, idx.
  assert (E : Z.to_nat (8 * Z.of_nat (i / 8) + Z.of_nat (i mod 8)) = i) by lia.
  rewrite E.
  replace ((0 <=? Z.of_nat (i mod 8)) && (Z.of_nat (i mod 8) <? 8) && (0 <=? Z.of_nat (i / 8)) && (Z.of_nat (i / 8) <? 8))%Z with true
    by (symmetry; repeat (apply andb_true_iff; split); lia).
  reflexivity.
Qed.

Lemma king_sq_unique (b : board) (c : colour) K : length b = 64%nat -> (K < 64)%N ->
  (forall a, (a < 64)%N -> is_man c King (nth (N.to_nat a) b None) = (a =? K)%N) ->
  king_sq b c = Some (Z.of_N (K mod 8), Z.of_N (K / 8)).
Proof.
  intros _ HK H. unfold king_sq. rewrite all_squares_seq.
  rewrite (find_map_seq _ _ (N.to_nat K)).
  - f_equal. f_equal; lia.
  - lia.
  - intros i Hi. cbn [fst snd]. rewrite at_nth by lia.
    specialize (H (N.of_nat i) ltac:(lia)). rewrite Nat2N.id in H. rewrite H.
    destruct (N.eqb_spec (N.of_nat i) K); destruct (Nat.eqb_spec i (N.to_nat K)); try reflexivity; lia.
Qed.

(* ------------------------------------------------------------------ the king of the side not to move, on the abstract board *)
Lemma colour_turn_eqb a b : colour_eqb (colour_of_turn a) (colour_of_turn b) = Bool.eqb a b.
Proof. destruct a, b; reflexivity. Qed.

Lemma king_sq_them q : WF q -> HashFacts.BB8 q -> popcount (N.land (kings q) (c_them q)) = 1 ->
  let a := rel_sq q (tksq q) in
  king_sq (board_of q) (colour_of_turn (negb (turn q))) = Some (Z.of_N (a mod 8), Z.of_N (a / 8)).
Proof.
  intros HW HB Hp. cbv zeta.
  destruct (their_king_holds q HW HB Hp) as (_ & HK).
  apply king_sq_unique; [apply board_length|apply rel_sq_lt; exact HK|].
  intros a Ha. rewrite nth_board by lia. rewrite N2Nat.id.
  pose proof (view_of_king q false HB Hp (rel_sq q a)) as V. cbv iota in V. fold (tksq q) in V.
  assert (Es : (a =? rel_sq q (tksq q)) = (rel_sq q a =? tksq q)).
  { destruct (N.eqb_spec a (rel_sq q (tksq q))) as [E|E]; destruct (N.eqb_spec (rel_sq q a) (tksq q)) as [E'|E']; try reflexivity; exfalso.
    - apply E'. rewrite E. apply rel_sq_invol.
    - apply E. rewrite <- E'. symmetry. apply rel_sq_invol. }
  rewrite Es, <- V.
  destruct (HW (rel_sq q a) (rel_sq_lt q a Ha)) as [He|(t & k & Hh)].
  - rewrite (man_at_empty q a He). destruct He as (_ & _ & Hpb). rewrite (Hpb 5) by lia. reflexivity.
  - rewrite (man_at_holds q a t k Hh). destruct Hh as (Hk & _ & Ht & Hpb).
    rewrite (Hpb 5) by lia. rewrite Ht. cbn [is_man]. rewrite colour_turn_eqb.
    rewrite (kind_king k Hk).
    replace (5 =? k) with (k =? KING) by (unfold KING; apply N.eqb_sym).
    destruct (turn q), t; cbn [negb xorb Bool.eqb andb]; rewrite ?andb_true_r, ?andb_false_r; reflexivity.
Qed.

(* the rules' check test for the side not to move is the engine's in_check_them *)
Lemma in_check_of_them q : WF q -> HashFacts.BB8 q ->
  popcount (N.land (kings q) (c_them q)) = 1 -> popcount (N.land (kings q) (c_us q)) = 1 ->
  in_check_of (board_of q) (colour_of_turn (negb (turn q))) = in_check_them q.
Proof.
  intros HW HB Ht Hu. unfold in_check_of. rewrite (king_sq_them q HW HB Ht). cbv zeta.
  destruct (their_king_holds q HW HB Ht) as (_ & HK).
  unfold in_check_them. fold (tksq q).
  rewrite (attack_query_is_the_rules q (tksq q) true HW HB HK Hu).
  unfold spec_attacked. cbv zeta.
  replace (opp (colour_of_turn (negb (turn q)))) with (colour_of_turn (turn q)) by (destruct (turn q); reflexivity).
  reflexivity.
Qed.

(* ------------------------------------------------------------------ B2: the filter of Rules.legal is the engine's test *)
Lemma result_shape u p m : Inv0 p -> In m (legal_moves p) ->
  let R := makemove u p m in
  WF R /\ HashFacts.BB8 R /\ popcount (N.land (kings R) (c_them R)) = 1 /\ popcount (N.land (kings R) (c_us R)) = 1.
Proof.
  intros I Hm. cbv zeta. pose proof (i0_good p I) as G. pose proof (i0_cg p I) as CG.
  unfold legal_moves in Hm. apply in_map_iff in Hm. destruct Hm as (g & <- & Hg).
  split; [|split; [exact (BB8_R u p (gen_mv g))|]].
  - destruct (generated_move_cases p g G Hg) as [(S & _)|[H|H]].
    + exact (WF_R u p (gen_mv g) (gk g) S (g_wf p G)).
    + destruct (castle_block_k p G CG g H) as (S & _). exact (cWF_makemove u p (gen_mv g) true S (g_wf p G)).
    + destruct (castle_block_q p G CG g H) as (S & _). exact (cWF_makemove u p (gen_mv g) false S (g_wf p G)).
  - destruct (generated_move_cases p g G Hg) as [(S & _)|[H|H]].
    + pose proof (no_king_capture p g G CG (i0_tking p I) (i0_safe p I) Hg) as NK.
      split; [exact (proj1 (nc_our_king u p (gen_mv g) (gk g) S I NK))|exact (proj1 (nc_their_king u p (gen_mv g) (gk g) S I NK))].
    + destruct (castle_block_k p G CG g H) as (S & _).
      split; [exact (proj1 (ca_our_king u p (gen_mv g) true S I))|exact (proj1 (ca_their_king u p (gen_mv g) true S I))].
    + destruct (castle_block_q p G CG g H) as (S & _).
      split; [exact (proj1 (ca_our_king u p (gen_mv g) false S I))|exact (proj1 (ca_their_king u p (gen_mv g) false S I))].
Qed.

Theorem check_filter_eq u p m : Inv0 p -> In m (legal_moves p) ->
  in_check_of (s_board (apply (abs_state p) (dec p m))) (s_turn (abs_state p)) = in_check_them (makemove u p m).
Proof.
  intros I Hm.
  rewrite <- (legal_moves_refine u p m (i0_good p I) (i0_cg p I) Hm).
  destruct (result_shape u p m I Hm) as (HW & HB & Ht & Hu).
  destruct (R_fields u p m) as (Eturn & _). cbv zeta in Eturn.
  change (s_board (abs_state (makemove u p m))) with (board_of (makemove u p m)).
  change (s_turn (abs_state p)) with (colour_of_turn (turn p)).
  replace (turn p) with (negb (turn (makemove u p m))) by (rewrite Eturn; apply negb_involutive).
  exact (in_check_of_them (makemove u p m) HW HB Ht Hu).
Qed.

Theorem check_filter_bridge u p m : Inv0 p -> In m (legal_moves p) -> in_check_them (makemove u p m) = false ->
  in_check_of (s_board (apply (abs_state p) (dec p m))) (s_turn (abs_state p)) = false.
Proof. intros I Hm Hl. rewrite (check_filter_eq u p m I Hm). exact Hl. Qed.

(* ------------------------------------------------------------------ B3: the encoding round-trips *)
Lemma coords_back a : a < 64 -> Z.to_N (8 * Z.of_N (a / 8) + Z.of_N (a mod 8)) = a.
Proof. intros H. lia. Qed.

Lemma kind_back k : k <= 5 -> N_of_kind (kind_of_N k) = k.
Proof. intros H. kinds k H; reflexivity. Qed.

Lemma enc_dec p m : m_from m < 64 -> m_to m < 64 -> (m_promo m = NOPIECE \/ 1 <= m_promo m <= 4) ->
  enc p (dec p m) = m.
Proof.
  intros Hf Ht Hp. destruct m as [f t pr]. cbn [m_from m_to m_promo] in *.
  unfold enc, dec. cbn [mf mr tf tr promo m_from m_to m_promo].
  rewrite !coords_back by (apply rel_sq_lt; assumption). rewrite !rel_sq_invol.
  f_equal.
  destruct Hp as [->|Hp]; [reflexivity|].
  destruct (N.eqb_spec pr NOPIECE) as [E|E]; [unfold NOPIECE in E; lia|].
  apply kind_back. lia.
Qed.

Lemma generated_side_conditions p m : Good p -> CastleGood p -> In m (legal_moves p) ->
  m_from m < 64 /\ m_to m < 64 /\ (m_promo m = NOPIECE \/ 1 <= m_promo m <= 4).
Proof.
  intros G CG Hm. unfold legal_moves in Hm. apply in_map_iff in Hm. destruct Hm as (g & <- & Hg).
  destruct (generated_move_cases p g G Hg) as [(S & _)|[H|H]].
  - split; [exact (sn_from _ _ _ S)|split; [exact (sn_to _ _ _ S)|]].
    destruct (sn_promo _ _ _ S) as [E|(_ & E)]; [left; exact E|right; exact E].
  - destruct (castle_block_k p G CG g H) as (S & _).
    split; [exact (cs_from64 _ _ _ S)|split; [exact (cs_to64 _ _ _ S)|left; exact (cs_promo _ _ _ S)]].
  - destruct (castle_block_q p G CG g H) as (S & _).
    split; [exact (cs_from64 _ _ _ S)|split; [exact (cs_to64 _ _ _ S)|left; exact (cs_promo _ _ _ S)]].
Qed.

Lemma enc_dec_generated p m : Good p -> CastleGood p -> In m (legal_moves p) -> enc p (dec p m) = m.
Proof.
  intros G CG Hm. destruct (generated_side_conditions p m G CG Hm) as (Hf & Ht & Hp).
  exact (enc_dec p m Hf Ht Hp).
Qed.

(* ------------------------------------------------------------------ B4: soundness reduced to pseudo-legality *)
Theorem sound_reduce u p m : Inv0 p -> In m (legal_moves p) -> in_check_them (makemove u p m) = false ->
  In (dec p m) (pseudo_moves (abs_state p)) -> In m (spec_legal p).
Proof.
  intros I Hm Hl Hps. unfold spec_legal. apply in_map_iff. exists (dec p m). split.
  - exact (enc_dec_generated p m (i0_good p I) (i0_cg p I) Hm).
  - unfold legal. apply filter_In. split; [exact Hps|].
    rewrite (check_filter_bridge u p m I Hm Hl). reflexivity.
Qed.

(* and the converse direction of the filter: a generated move that is a legal move of the rules passes the engine's test *)
Theorem legal_passes_test u p m : Inv0 p -> In m (legal_moves p) -> In (dec p m) (legal (abs_state p)) ->
  in_check_them (makemove u p m) = false.
Proof.
  intros I Hm Hleg. unfold legal in Hleg. apply filter_In in Hleg. destruct Hleg as (_ & Hf).
  rewrite (check_filter_eq u p m I Hm) in Hf. apply negb_true_iff in Hf. exact Hf.
Qed.

Print Assumptions king_sq_unique.
Print Assumptions check_filter_eq.
Print Assumptions check_filter_bridge.
Print Assumptions enc_dec.
Print Assumptions sound_reduce.
