(* C09 / C06: square names and move strings; C08: popcount = number of squares enumerated. *)
From Coq Require Import NArith ZArith List Bool Lia.
From Rawr Require Import Consts Bits Magic Position MoveGen MakeMove Fen BitsFacts FlipFacts.
Import ListNotations.
Local Open Scope N_scope.

Lemma show_sq_inj s1 s2 : s1 < 64 -> s2 < 64 -> show_sq s1 = show_sq s2 -> s1 = s2.
Proof.
  unfold show_sq. intros H1 H2 H.
  assert (Ha : 97 + s1 mod 8 = 97 + s2 mod 8) by (apply (f_equal (fun l => nth 0 l 0)) in H; exact H).
  assert (Hb : 49 + s1 / 8 = 49 + s2 / 8) by (apply (f_equal (fun l => nth 1 l 0)) in H; exact H).
  pose proof (N.div_mod s1 8 ltac:(lia)) as E1. pose proof (N.div_mod s2 8 ltac:(lia)) as E2. lia.
Qed.

Lemma show_sq_length s : length (show_sq s) = 2%nat.
Proof. reflexivity. Qed.

Lemma flip_sq_lt s : s < 64 -> flip_sq s < 64.
Proof. intros H. apply (flipbit_lt s H). Qed.

Lemma flip_sq_inj a b : flip_sq a = flip_sq b -> a = b.
Proof.
  unfold flip_sq. intros H. apply (f_equal (fun x => N.lxor x 56)) in H.
  rewrite !N.lxor_assoc, N.lxor_nilpotent, !N.lxor_0_r in H. exact H.
Qed.

Definition promo_ok (m : Mv) : Prop := m_promo m = 1 \/ m_promo m = 2 \/ m_promo m = 3 \/ m_promo m = 4 \/ m_promo m = 6.
Definition promo_suffix (pr : N) : str := match pr with 1 => [110] | 2 => [98] | 3 => [114] | 4 => [113] | _ => [] end.

(* shape: origin and destination in absolute coordinates (un-flipped when Black moves), then the promotion letter;
   the destination of a castling move (king takes own rook) is rewritten to the g/c file in standard mode only *)
Theorem to_uci_shape p m :
  to_uci p m =
    show_sq (if turn p then flip_sq (m_from m) else m_from m)
    ++ show_sq (let sq := if negb (is_frc p) && is_set (c_us p) (m_to m)
                          then (if file_of (m_from m) <? file_of (m_to m) then G1 else C1) else m_to m in
                if turn p then flip_sq sq else sq)
    ++ promo_suffix (m_promo m).
Proof. unfold to_uci, promo_suffix. reflexivity. Qed.

(* in Chess960 mode the printed string determines the move *)
Theorem to_uci_frc_inj p m1 m2 :
  is_frc p = true -> m_from m1 < 64 -> m_to m1 < 64 -> m_from m2 < 64 -> m_to m2 < 64 -> promo_ok m1 -> promo_ok m2 ->
  to_uci p m1 = to_uci p m2 -> m1 = m2.
Proof.
  intros Hf H1 H2 H3 H4 P1 P2 H. rewrite !to_uci_shape in H. rewrite Hf in H. cbn [negb andb] in H. cbv zeta in H.
  destruct m1 as [f1 t1 p1], m2 as [f2 t2 p2]. cbn [m_from m_to m_promo] in *.
  assert (Hsplit : forall a b c a' b' c' : str, length a = 2%nat -> length a' = 2%nat -> length b = 2%nat -> length b' = 2%nat ->
            a ++ b ++ c = a' ++ b' ++ c' -> a = a' /\ b = b' /\ c = c').
  { intros a b c a' b' c' La La' Lb Lb' E.
    destruct a as [|x [|y [|]]]; try discriminate. destruct a' as [|x' [|y' [|]]]; try discriminate.
    destruct b as [|u [|v [|]]]; try discriminate. destruct b' as [|u' [|v' [|]]]; try discriminate.
    cbn in E. injection E as -> -> -> -> ->. auto. }
  apply Hsplit in H; try apply show_sq_length. destruct H as (Ha & Hb & Hc).
  assert (f1 = f2).
  { destruct (turn p).
    - apply flip_sq_inj. apply show_sq_inj; [apply flip_sq_lt|apply flip_sq_lt|]; assumption.
    - apply show_sq_inj; assumption. }
  assert (t1 = t2).
  { destruct (turn p).
    - apply flip_sq_inj. apply show_sq_inj; [apply flip_sq_lt|apply flip_sq_lt|]; assumption.
    - apply show_sq_inj; assumption. }
  assert (p1 = p2).
  { unfold promo_ok in *. cbn in P1, P2. unfold promo_suffix in Hc.
    destruct P1 as [->|[->|[->|[->| ->]]]]; destruct P2 as [->|[->|[->|[->| ->]]]]; try reflexivity; discriminate. }
  subst. reflexivity.
Qed.

(* ---- popcount = number of squares the iterator yields (C08: counts vs lists) *)
Lemma bits_pos_length p : forall i, N.of_nat (length (bits_pos p i)) = pop_pos p.
Proof.
  induction p as [q IH|q IH|]; intros i; cbn [bits_pos pop_pos length].
  - rewrite Nat2N.inj_succ, IH. reflexivity.
  - apply IH.
  - reflexivity.
Qed.

Theorem popcount_length_bits b : popcount b = N.of_nat (length (bits b)).
Proof. destruct b as [|p]; [reflexivity|]. cbn [popcount bits]. symmetry. apply bits_pos_length. Qed.

Lemma count_sliders_eq piece att p froms targets :
  count_sliders att p froms targets = N.of_nat (length (slider_moves piece att p froms targets)).
Proof.
  unfold count_sliders, slider_moves.
  assert (H : forall l acc, fold_left (fun a from => a + popcount (N.land (att from (occupied p)) targets)) l acc
            = acc + N.of_nat (length (flat_map (fun from => map (fun to => (piece, from, to, NOPIECE))
                                                            (bits (N.land (att from (occupied p)) targets))) l))).
  { induction l as [|x l IH]; intros acc; cbn [fold_left flat_map]; [cbn; lia|].
    rewrite IH, app_length, map_length, popcount_length_bits, Nat2N.inj_add. lia. }
  rewrite H. apply N.add_0_l.
Qed.

(* perft(d+2) is the sum of perft(d+1) over the positions after every generated move; perft(1) is the bulk counter *)
Theorem perft_unfold d p :
  perft (S (S d)) p = fold_left (fun acc m => acc + perft (S d) (makemove false p m)) (legal_moves p) 0.
Proof. reflexivity. Qed.
Theorem perft_one p : perft 1 p = count_moves p.
Proof. reflexivity. Qed.

(* the capture list is the generated list filtered, in generation order *)
Theorem legal_captures_is_filter p :
  legal_captures p = map gen_mv (filter (fun x : Gen => let '(piece, _, to, _) := x in
      is_set (c_them p) to || ((piece =? PAWN) && match ep p with Some e => to =? e | None => false end)) (move_generator p)).
Proof. reflexivity. Qed.


(* ---- C06: decimal printing round-trips through the integer parser; so does the en-passant square *)
Local Open Scope Z_scope.

Lemma digit_ok d : (d < 10)%N -> ((48 <=? 48 + d) && (48 + d <=? 57))%N = true.
Proof. intros H. apply andb_true_intro. split; apply N.leb_le; lia. Qed.

Lemma dec_digits_S f n acc :
  dec_digits (S f) n acc = if (n / 10 =? 0)%N then (48 + n mod 10)%N :: acc else dec_digits f (n / 10)%N ((48 + n mod 10)%N :: acc).
Proof. reflexivity. Qed.

Lemma dec_digits_spec : forall f n acc base, (Z.of_N n < 10 ^ Z.of_nat (S f)) ->
  exists k, digits_val (dec_digits (S f) n acc) base = digits_val acc (base * 10 ^ k + Z.of_N n) /\ 0 <= k
            /\ exists c t, dec_digits (S f) n acc = c :: t /\ (48 <= c <= 57)%N.
Proof.
  induction f as [|f IH]; intros n acc base Hn.
  - rewrite dec_digits_S. assert (Hn' : (n < 10)%N) by (change (10 ^ Z.of_nat 1) with 10 in Hn; lia).
    assert (Hq : (n / 10 = 0)%N) by (apply N.div_small; exact Hn').
    rewrite Hq. cbn [N.eqb]. rewrite N.mod_small by exact Hn'.
    exists 1. cbn [digits_val]. rewrite digit_ok by exact Hn'.
    replace (48 + n - 48)%N with n by (rewrite N.add_comm; symmetry; apply N.add_sub). split; [f_equal; lia|]. split; [lia|].
    exists (48 + n)%N, acc. split; [reflexivity|lia].
  - rewrite dec_digits_S. destruct (N.eqb_spec (n / 10) 0) as [Hq|Hq].
    + assert (Hn' : (n < 10)%N). { destruct (N.lt_ge_cases n 10) as [H|H]; [exact H|]. assert (1 <= n / 10)%N by (apply N.div_le_lower_bound; lia). lia. }
      rewrite N.mod_small by exact Hn'.
      exists 1. cbn [digits_val]. rewrite digit_ok by exact Hn'.
      replace (48 + n - 48)%N with n by (rewrite N.add_comm; symmetry; apply N.add_sub). split; [f_equal; lia|]. split; [lia|].
      exists (48 + n)%N, acc. split; [reflexivity|lia].
    + assert (Hlt : Z.of_N (n / 10) < 10 ^ Z.of_nat (S f)).
      { rewrite N2Z.inj_div. change (Z.of_N 10) with 10. apply Z.div_lt_upper_bound; [lia|].
        replace (10 * 10 ^ Z.of_nat (S f)) with (10 ^ Z.of_nat (S (S f))); [exact Hn|].
        rewrite (Nat2Z.inj_succ (S f)), Z.pow_succ_r by lia. reflexivity. }
      destruct (IH (n / 10)%N ((48 + n mod 10)%N :: acc) base Hlt) as (k & Hk & Hk0 & c & t & Hc & Hcr).
      exists (k + 1). rewrite Hk. cbn [digits_val].
      assert (Hm : (n mod 10 < 10)%N) by (apply N.mod_lt; lia).
      rewrite digit_ok by exact Hm. replace (48 + n mod 10 - 48)%N with (n mod 10)%N by (rewrite N.add_comm; symmetry; apply N.add_sub).
      split; [|split; [lia|exists c, t; split; [exact Hc|exact Hcr]]].
      f_equal. rewrite Z.pow_add_r by lia. rewrite N2Z.inj_div, N2Z.inj_mod.
      pose proof (Z.div_mod (Z.of_N n) 10 ltac:(lia)). change (Z.of_N 10) with 10. change (10 ^ 1) with 10. lia.
Qed.

Theorem parse_show_Z z : 0 <= z <= I32_MAX -> parse_i32 (show_Z z) = Some z.
Proof.
  intros Hz. unfold show_Z. assert (Hs : show_Z z = show_N (Z.to_N z)) by (unfold show_Z; destruct z; try reflexivity; lia).
  replace (match z with Zneg _ => (45%N :: show_N (Z.to_N (- z))) | _ => show_N (Z.to_N z) end) with (show_N (Z.to_N z))
    by (destruct z; try reflexivity; lia).
  unfold show_N.
  assert (Hb : Z.of_N (Z.to_N z) < 10 ^ Z.of_nat 25) by (rewrite Z2N.id by lia; unfold I32_MAX in Hz; change (10 ^ Z.of_nat 25) with 10000000000000000000000000; lia).
  destruct (dec_digits_spec 24 (Z.to_N z) [] 0 Hb) as (k & Hk & Hk0 & c & t & Hc & Hcr).
  unfold parse_i32. rewrite Hc.
  destruct (N.eqb_spec c 45); [lia|]. destruct (N.eqb_spec c 43); [lia|].
  rewrite <- Hc, Hk. cbn [digits_val]. rewrite Z2N.id by lia. cbn [Z.mul Z.add].
  replace (0 * 10 ^ k + z) with z by lia.
  destruct ((I32_MIN <=? z) && (z <=? I32_MAX)) eqn:E; [reflexivity|].
  apply andb_false_iff in E. unfold I32_MIN, I32_MAX in *. destruct E as [E|E]; [apply Z.leb_gt in E|apply Z.leb_gt in E]; lia.
Qed.

Local Open Scope N_scope.
(* the en-passant field: the two characters printed for a square parse back to it, in both arithmetic modes *)
Definition ep_roundtrip_ok (mode : bool) (e : N) : bool :=
  match show_sq e with
  | [c1; c2] =>
    match obind (u8_sub mode (c1 mod 256) 97) (fun file => obind (u8_sub mode (c2 mod 256) 49) (fun rank =>
          obind (u8_mul mode 8 rank) (fun r8 => u8_add mode r8 file))) with
    | Some idx => idx =? e
    | None => false
    end
  | _ => false
  end.

Theorem ep_field_roundtrip mode e : e < 64 -> ep_roundtrip_ok mode e = true.
Proof.
  intros H. assert (Hin : In e (map N.of_nat (seq 0 64))) by (rewrite <- (N2Nat.id e); apply in_map; apply in_seq; lia).
  assert (HF : Forall (fun x => ep_roundtrip_ok mode x = true) (map N.of_nat (seq 0 64))) by (destruct mode; vm_compute; repeat constructor).
  rewrite Forall_forall in HF. apply HF. exact Hin.
Qed.
