(* C08: the capture test classifies every generated move as the rules do, so the capture-only generator returns exactly
   the legal moves that capture (en passant included, castling excluded), in generation order. *)
From Coq Require Import NArith ZArith List Bool Lia ZifyN ZifyBool.
From Rawr Require Import Consts Bits Magic Position MoveGen MakeMove MakeStages Rules Abs
                         BitsFacts ShiftFacts FlipFacts AbsFacts LsbFacts HashFacts MakeFacts MakeAbs CastleFacts CastleAbs KeyAbs
                         CountFacts GenSane GenNoDup.
Import ListNotations.
Local Open Scope N_scope.
Ltac Zify.zify_post_hook ::= Z.div_mod_to_equations.

(* the flag the capture-only generator filters by *)
Definition cap_flag (p : Position) (g : Gen) : bool :=
  let '(piece, _, to, _) := g in
  is_set (c_them p) to || ((piece =? PAWN) && match ep p with Some e => to =? e | None => false end).

Lemma opp_turn t : opp (colour_of_turn t) = colour_of_turn (negb t).
Proof. destruct t; reflexivity. Qed.

Lemma colour_refl' x : colour_eqb x x = true.
Proof. destruct x; reflexivity. Qed.

(* which block a generated move sits in *)
Lemma in_generator_block p g : In g (move_generator p) -> exists i b, In (i, b) (tagged_blocks p) /\ In g b.
Proof.
  rewrite generator_tagged. intros H. apply in_concat in H. destruct H as (b & Hb & Hg).
  apply in_map_iff in Hb. destruct Hb as ([i b'] & E & Hi). cbn [snd] in E. subst b'. exists i, b. split; assumption.
Qed.

Lemma cls_double p g : gk g = PAWN -> m_to (gen_mv g) = m_from (gen_mv g) + 16 -> cls p g = 2.
Proof.
  destruct g as [[[k0 f0] t0] pr0]. cbn [gen_mv gk fst m_from m_to]. intros -> E. unfold cls.
  change (PAWN =? PAWN) with true. cbv iota beta. replace (t0 - f0) with 16 by lia. reflexivity.
Qed.

Section NonCastling.
Variables (p : Position) (g : Gen).
Hypothesis G : Good p.
Hypothesis CG : CastleGood p.
Hypothesis Hg : In g (move_generator p).
Hypothesis NC : NCsane p g.
Let m := gen_mv g.
Let k := gk g.

Lemma nc_captures : captures (abs_state p) (dec p m) = tb p (m_to m) || mv_is_ep p m.
Proof.
  destruct NC as (S & Hpw). fold m k in S, Hpw.
  assert (Hku : popcount (N.land (c_us p) (kings p)) = 1) by (rewrite king_comm; exact (g_king p G)).
  unfold captures. rewrite (not_castle p m k S), (ep_agrees p m k S (Hgeo' p m k S Hku (g_cf p G) Hpw)), (target_is p m k S).
  cbn [negb andb]. f_equal. unfold abs_state. cbn [s_turn]. rewrite opp_turn.
  destruct (target_man p m k S) as [((_ & Ht & _) & ->)|(c' & (_ & _ & Ht & _) & ->)]; rewrite Ht; cbn [is_col].
  - reflexivity.
  - apply colour_refl'.
Qed.

(* the engine's en-passant clause is the rules' one: our pawn lands on the en-passant square *)
Lemma nc_ep_clause : tb p (m_to m) = false ->
  (k =? PAWN) && match ep p with Some e => m_to m =? e | None => false end = mv_is_ep p m.
Proof.
  intros Hnt. destruct NC as (S & Hpw). fold m k in S, Hpw.
  destruct (mv_is_ep p m) eqn:Eep.
  - destruct (sn_ep _ _ _ S Eep) as (Ee & _). rewrite Ee, N.eqb_refl, andb_true_r.
    unfold mv_is_ep in Eep. rewrite (sane_piece p m k S) in Eep.
    apply andb_true_iff in Eep. destruct Eep as [Eep _]. apply andb_true_iff in Eep. exact (proj1 Eep).
  - destruct (N.eqb_spec k PAWN) as [Ek|Ek]; [|reflexivity]. cbn [andb].
    destruct (ep p) as [e|] eqn:Ee; [|reflexivity]. destruct (N.eqb_spec (m_to m) e) as [Et|Et]; [|reflexivity]. exfalso.
    destruct (g_ep p G e Ee) as ((H8 & H64) & Hemp & Hv).
    (* the target is empty and the mover a pawn: the files must agree, so it is a push *)
    unfold mv_is_ep in Eep. rewrite (sane_piece p m k S), Ek, Et in Eep. change (PAWN =? PAWN) with true in Eep.
    assert (Hpo : piece_on p e = None).
    { rewrite piece_on_pb. destruct Hemp as (_ & _ & Hp). rewrite !Hp by lia. reflexivity. }
    rewrite Hpo, andb_true_r in Eep. cbn [andb] in Eep. apply negb_false_iff, N.eqb_eq in Eep.
    pose proof (sn_mover _ _ _ S) as (_ & Hu & _ & _). cbn [negb] in Hu.
    destruct (Hpw Ek) as [Hr|H16].
    + (* single push from e - 8, where their pawn stands *)
      assert (m_from m = e - 8) by (unfold rank_of, file_of in *; lia).
      destruct Hv as (_ & Hu' & _). cbn [negb] in Hu'. congruence.
    + (* double push over e - 8, which is not empty: only the doubles block emits it *)
      destruct (in_generator_block p g Hg) as (i & b & Hib & Hgb).
      assert (Hc : cls p g = 2) by (apply cls_double; [exact Ek|exact H16]).
      assert (Hdb : In g (blk_doubles p)).
      { unfold tagged_blocks in Hib. cbv zeta in Hib. cbn [In] in Hib.
        repeat destruct Hib as [Hib|Hib]; try contradiction; injection Hib as <- <-; try exact Hgb; exfalso.
        - rewrite (pawn_cls p g 8 false (singles_shape p g Hgb)) in Hc by lia. discriminate.
        - rewrite (pawn_cls p g 9 true (cap_ne_shape p g Hgb)) in Hc by lia. discriminate.
        - rewrite (pawn_cls p g 7 true (cap_nw_shape p g Hgb)) in Hc by lia. discriminate.
        - destruct (ep_shape p G g Hgb) as [X|X]; [rewrite (pawn_cls p g 9 false X) in Hc by lia|rewrite (pawn_cls p g 7 false X) in Hc by lia]; discriminate.
        - rewrite (knights_cls p g Hgb) in Hc. discriminate.
        - rewrite (bishop_pinned_cls p g _ _ Hgb) in Hc. discriminate.
        - rewrite (bishop_free_cls p g _ _ Hgb) in Hc. discriminate.
        - rewrite (rook_pinned_cls p g _ _ Hgb) in Hc. discriminate.
        - rewrite (rook_free_cls p g _ _ Hgb) in Hc. discriminate.
        - rewrite (queen_b_cls p g _ _ Hgb) in Hc. discriminate.
        - rewrite (queen_r_cls p g _ _ Hgb) in Hc. discriminate.
        - rewrite (queen_free_cls p g _ _ Hgb) in Hc. discriminate.
        - rewrite (king_steps_cls p g Hgb) in Hc. discriminate.
        - rewrite (castle_k_cls p G CG g Hgb) in Hc. discriminate.
        - rewrite (castle_q_cls p G CG g Hgb) in Hc. discriminate. }
      unfold blk_doubles in Hdb. apply in_map_iff in Hdb. destruct Hdb as (to & Eg & Hto).
      assert (to = e) by (subst g; cbn [gen_mv m_to] in Et; exact Et). subst to.
      apply bits_spec in Hto. unfold g_doubles in Hto. rewrite !N.land_spec in Hto.
      repeat (apply andb_true_iff in Hto; destruct Hto as [Hto ?]).
      match goal with X : N.testbit (north (empty_bb p)) e = true |- _ => rewrite testbit_north in X;
        apply andb_true_iff in X; destruct X as [_ X]; apply (empty_tb p) in X end.
      destruct Hv as (_ & _ & Ht' & _). congruence.
Qed.

End NonCastling.

Lemma flag_shape p g : cap_flag p g = tb p (m_to (gen_mv g)) || ((gk g =? PAWN) && match ep p with Some e => m_to (gen_mv g) =? e | None => false end).
Proof. destruct g as [[[k0 f0] t0] pr0]. reflexivity. Qed.

Lemma nc_flag p g : Good p -> CastleGood p -> In g (move_generator p) -> NCsane p g ->
  cap_flag p g = captures (abs_state p) (dec p (gen_mv g)).
Proof.
  intros G CG Hg NC. rewrite (nc_captures p g G NC), flag_shape.
  destruct (tb p (m_to (gen_mv g))) eqn:Ht; [reflexivity|]. cbn [orb].
  exact (nc_ep_clause p g G CG Hg NC Ht).
Qed.

(* castling is never a capture, for the engine (the target holds our rook) and for the rules *)
Lemma castle_flag p g kside : csane p (gen_mv g) kside -> gk g = KING ->
  cap_flag p g = captures (abs_state p) (dec p (gen_mv g)).
Proof.
  intros S Hk. rewrite flag_shape, Hk. change (KING =? PAWN) with false. cbn [andb]. rewrite orb_false_r.
  pose proof (cs_rook _ _ _ S) as HR. pose proof (cs_king _ _ _ S) as HK.
  destruct HR as (HR1 & HR2 & HR3 & HR4). rewrite HR3.
  assert (Hf : m_from (gen_mv g) < 64) by (pose proof (cs_from _ _ _ S); lia).
  assert (Ht : m_to (gen_mv g) < 64) by (pose proof (cs_to _ _ _ S); lia).
  unfold captures, is_castle.
  rewrite (mover_is0 p (gen_mv g) KING Hf HK).
  assert (Htgt : at_ (s_board (abs_state p)) (tf (dec p (gen_mv g))) (tr (dec p (gen_mv g)))
                 = Some (colour_of_turn (turn p), kind_of_N ROOK)).
  { unfold abs_state, dec. cbn [s_board tf tr]. rewrite at_board by (apply rel_sq_lt; exact Ht).
    rewrite (man_at_holds p (rel_sq p (m_to (gen_mv g))) false ROOK).
    - rewrite xorb_false_r. reflexivity.
    - rewrite rel_sq_invol. repeat split; assumption. }
  rewrite Htgt. unfold abs_state. cbn [s_turn is_man]. rewrite colour_refl'. reflexivity.
Qed.

(* every callback the generator makes carries the rules' capture flag *)
Theorem generated_flag p g : Good p -> CastleGood p -> In g (move_generator p) ->
  cap_flag p g = captures (abs_state p) (dec p (gen_mv g)).
Proof.
  intros G CG Hg. destruct (generated_move_cases p g G Hg) as [NC|[H|H]].
  - exact (nc_flag p g G CG Hg NC).
  - destruct (castle_block_k p G CG g H) as (S & _). apply (castle_flag p g true S).
    unfold blk_castle_k in H. destruct (castle_ok _ _ _ _ _ _); [|contradiction]. destruct H as [<-|[]]. reflexivity.
  - destruct (castle_block_q p G CG g H) as (S & _). apply (castle_flag p g false S).
    unfold blk_castle_q in H. destruct (castle_ok _ _ _ _ _ _); [|contradiction]. destruct H as [<-|[]]. reflexivity.
Qed.

Lemma filter_ext_in' {A} (f g : A -> bool) l : (forall x, In x l -> f x = g x) -> filter f l = filter g l.
Proof.
  induction l as [|a l IH]; intros H; cbn [filter]; [reflexivity|].
  rewrite (H a (or_introl eq_refl)), IH by (intros x Hx; apply H; right; exact Hx). reflexivity.
Qed.
Lemma filter_map' {A B} (f : A -> B) (c : B -> bool) l : map f (filter (fun x => c (f x)) l) = filter c (map f l).
Proof. induction l as [|a l IH]; cbn [filter map]; [reflexivity|]. destruct (c (f a)); cbn [map]; rewrite IH; reflexivity. Qed.

(* C08: the capture-only generator = the generated moves that capture under the rules, in generation order *)
Theorem legal_captures_are_the_capturing_moves p : Good p -> CastleGood p ->
  legal_captures p = filter (fun m => captures (abs_state p) (dec p m)) (legal_moves p).
Proof.
  intros G CG. unfold legal_captures, legal_moves. rewrite <- filter_map'. f_equal.
  apply filter_ext_in'. intros g Hg. exact (generated_flag p g G CG Hg).
Qed.

(* C08: the capture test classifies every generated move as the rules do *)
Theorem is_capture_classifies p m : Good p -> CastleGood p -> In m (legal_moves p) ->
  is_capture p (m_from m) (m_to m) = captures (abs_state p) (dec p m).
Proof.
  intros G CG Hm. unfold legal_moves in Hm. apply in_map_iff in Hm. destruct Hm as (g & <- & Hg).
  rewrite <- (generated_flag p g G CG Hg), flag_shape. unfold is_capture. change (is_set (c_them p) ?x) with (tb p x).
  f_equal. pose proof (generated_tag p g G CG Hg) as (Hk & _ & _ & Hp).
  change (is_set (pawns p) ?x) with (pb p 0 x). rewrite (Hp 0) by lia. rewrite (N.eqb_sym 0 (gk g)).
  change PAWN with 0. f_equal. destruct (ep p); [apply N.eqb_sym|reflexivity].
Qed.

Theorem good_pos_captures p : good_pos_b p = true ->
  legal_captures p = filter (fun m => captures (abs_state p) (dec p m)) (legal_moves p)
  /\ forall m, In m (legal_moves p) -> is_capture p (m_from m) (m_to m) = captures (abs_state p) (dec p m).
Proof.
  intros H. destruct (good_pos_sound p H) as (G & CG & _). split.
  - exact (legal_captures_are_the_capturing_moves p G CG).
  - intros m. exact (is_capture_classifies p m G CG).
Qed.
