(* C08 (attack queries), part 3: the set-valued queries and in_check, reduced to the square query. *)
From Coq Require Import NArith ZArith List Bool Lia ZifyN ZifyBool.
From Rawr Require Import Consts Bits Magic Position MoveGen MakeMove MakeStages Rules Abs BitsFacts ShiftFacts LeaperFacts LsbFacts
                         HashFacts MakeFacts KeyAbs KeyMove AttackFacts AttackAbs.
Import ListNotations.
Local Open Scope N_scope.

(* "some square of bb is in x" *)
Lemma is_occ_land_exists x bb : bb < TWO64 -> is_occ (N.land x bb) = existsb (fun s => N.testbit x s) (bits bb).
Proof.
  intros Hb. unfold is_occ. destruct (existsb (fun s => N.testbit x s) (bits bb)) eqn:E.
  - apply existsb_exists in E. destruct E as (s & Hs & Hx). apply bits_spec in Hs.
    apply negb_true_iff, N.eqb_neq. intros E0.
    assert (H : N.testbit (N.land x bb) s = false) by (rewrite E0; apply N.bits_0). rewrite N.land_spec, Hx, Hs in H. discriminate.
  - apply negb_false_iff, N.eqb_eq. apply N.bits_inj. intros i. rewrite N.land_spec, N.bits_0.
    destruct (N.testbit bb i) eqn:Hi; [|apply andb_false_r].
    destruct (N.testbit x i) eqn:Hx; [|reflexivity]. exfalso.
    assert (Hex : existsb (fun s => N.testbit x s) (bits bb) = true) by (apply existsb_exists; exists i; split; [apply bits_spec; exact Hi|exact Hx]).
    rewrite Hex in E. discriminate.
Qed.

Lemma existsb_or {A} (f g : A -> bool) l : existsb (fun x => f x || g x) l = existsb f l || existsb g l.
Proof. induction l as [|x l IH]; cbn [existsb]; [reflexivity|]. rewrite IH. destruct (f x), (g x), (existsb f l), (existsb g l); reflexivity. Qed.

(* the knight and king patterns are symmetric: s is a knight's move from x iff x is one from s *)
Definition sym_ok (f : N -> N) : bool :=
  forallb (fun x => forallb (fun s => Bool.eqb (N.testbit (f (bit x)) s) (N.testbit (f (bit s)) x)) squares64) squares64.
Lemma knights_sym : sym_ok knights_bb = true. Proof. vm_compute. reflexivity. Qed.
Lemma adjacent_sym : sym_ok adjacent = true. Proof. vm_compute. reflexivity. Qed.

Lemma sym_use f x s : sym_ok f = true -> x < 64 -> s < 64 -> N.testbit (f (bit x)) s = N.testbit (f (bit s)) x.
Proof.
  intros H Hx Hs. unfold sym_ok in H. rewrite forallb_forall in H. specialize (H x (in_squares64' x Hx)).
  rewrite forallb_forall in H. specialize (H s (in_squares64' s Hs)). apply Bool.eqb_prop. exact H.
Qed.

(* a linear, symmetric leaper board applied to a set: s is hit iff the board of {s} meets the set *)
Lemma leaper_set f bb s : linear f -> sym_ok f = true -> bb < TWO64 -> s < 64 ->
  N.testbit (f bb) s = is_occ (N.land (f (bit s)) bb).
Proof.
  intros Hl Hsym Hb Hs. rewrite (is_occ_land_exists _ bb Hb).
  rewrite (bb_decompose bb Hb) at 1. rewrite (linear_lorfold f _ Hl), map_map, testbit_lorfold, existsb_map'.
  apply existsb_ext_in. intros x Hx. apply sym_use; [exact Hsym|exact (bits_lt64 bb x Hb Hx)|exact Hs].
Qed.

(* ---- the two queries as disjunctions *)
Lemma is_sq_or p sq us :
  is_sq_attacked p sq us =
  let sd := get_side p us in
  is_set (pawns_bb us (N.land (pawns p) sd)) sq
  || is_occ (N.land (N.land (knights_bb (bit sq)) (knights p)) sd)
  || is_occ (N.land (batt sq (occupied p)) (N.land sd (N.lor (bishops p) (queens p))))
  || is_occ (N.land (ratt sq (occupied p)) (N.land sd (N.lor (rooks p) (queens p))))
  || is_set (adjacent (bit (lsb (N.land (kings p) sd)))) sq.
Proof.
  unfold is_sq_attacked. cbv zeta.
  repeat match goal with |- context [if ?c then true else _] => destruct c; cbn [orb]; try reflexivity end.
  all: rewrite ?orb_true_r; reflexivity.
Qed.

Lemma is_bb_or p bb us :
  is_bb_attacked p bb us =
  let sd := get_side p us in
  is_occ (N.land (pawns_bb us (N.land (pawns p) sd)) bb)
  || is_occ (N.land (N.land (knights_bb bb) (knights p)) sd)
  || is_occ (N.land (N.land (adjacent bb) (kings p)) sd)
  || existsb (fun sq => is_occ (N.land (batt sq (occupied p)) (N.land sd (N.lor (bishops p) (queens p))))
                        || is_occ (N.land (ratt sq (occupied p)) (N.land sd (N.lor (rooks p) (queens p))))) (bits bb).
Proof.
  unfold is_bb_attacked. cbv zeta.
  repeat match goal with |- context [if ?c then true else _] => destruct c; cbn [orb]; try reflexivity end.
Qed.

(* a linear board applied to a set, bit by bit *)
Lemma linear_bits f bb x : linear f -> bb < TWO64 ->
  N.testbit (f bb) x = existsb (fun sq => N.testbit (f (bit sq)) x) (bits bb).
Proof.
  intros Hl Hb. rewrite (bb_decompose bb Hb) at 1. rewrite (linear_lorfold f _ Hl), map_map, testbit_lorfold, existsb_map'. reflexivity.
Qed.

Lemma leaper_meet f bb K : linear f -> bb < TWO64 -> K < TWO64 ->
  is_occ (N.land (f bb) K) = existsb (fun sq => is_occ (N.land (f (bit sq)) K)) (bits bb).
Proof.
  intros Hl Hb HK. rewrite (is_occ_land_exists _ K HK).
  rewrite (existsb_ext_in _ (fun x => existsb (fun sq => N.testbit (f (bit sq)) x) (bits bb))) by (intros x _; apply linear_bits; assumption).
  rewrite existsb_swap. apply existsb_ext_in. intros sq _. symmetry. apply is_occ_land_exists. exact HK.
Qed.

Theorem is_bb_attacked_squares p bb us : BBp p -> bb < TWO64 -> popcount (N.land (kings p) (get_side p us)) = 1 ->
  is_bb_attacked p bb us = existsb (fun sq => is_sq_attacked p sq us) (bits bb).
Proof.
  intros (B1 & B2 & B3 & B4 & B5 & B6 & B7 & B8) Hb Hk.
  assert (Bsd : get_side p us < TWO64) by (unfold get_side; destruct us; assumption).
  rewrite is_bb_or. cbv zeta.
  rewrite (existsb_ext_in _ _ (bits bb) (fun sq _ => is_sq_or p sq us)). cbv zeta.
  set (sd := get_side p us) in *.
  rewrite !existsb_or.
  (* pawns *)
  rewrite (is_occ_land_exists _ bb Hb).
  (* knights *)
  rewrite <- (N.land_assoc (knights_bb bb)), (leaper_meet knights_bb bb (N.land (knights p) sd) linear_knights Hb) by (apply land_lt_r; exact Bsd).
  rewrite (existsb_ext_in (fun sq => is_occ (N.land (N.land (knights_bb (bit sq)) (knights p)) sd)) (fun sq => is_occ (N.land (knights_bb (bit sq)) (N.land (knights p) sd))))
    by (intros sq _; rewrite N.land_assoc; reflexivity).
  (* king *)
  assert (BK : N.land (kings p) sd < TWO64) by (apply land_lt_r; exact Bsd).
  rewrite <- (N.land_assoc (adjacent bb)), (leaper_meet adjacent bb (N.land (kings p) sd) linear_adjacent Hb BK).
  assert (Hking : existsb (fun sq => is_occ (N.land (adjacent (bit sq)) (N.land (kings p) sd))) (bits bb)
                = existsb (fun sq => is_set (adjacent (bit (lsb (N.land (kings p) sd)))) sq) (bits bb)).
  { apply existsb_ext_in. intros sq Hsq. pose proof (bits_lt64 bb sq Hb Hsq) as Hs64.
    assert (Hks : lsb (N.land (kings p) sd) < 64) by (apply lsb_lt64; [exact BK|apply popcount1_nonzero; exact Hk]).
    assert (EK : N.land (kings p) sd = bit (lsb (N.land (kings p) sd))).
    { apply N.bits_inj. intros i. rewrite (single_bit_test _ i BK Hk), testbit_bit by exact Hks. reflexivity. }
    rewrite EK at 1. rewrite N.land_comm, is_occ_land_bit by exact Hks.
    unfold is_set. apply sym_use; [exact adjacent_sym|exact Hs64|exact Hks]. }
  rewrite Hking.
  unfold is_set.
  repeat match goal with |- context [existsb (N.testbit ?X) (bits bb)] => change (existsb (N.testbit X) (bits bb)) with (existsb (fun s => N.testbit X s) (bits bb)) end.
  repeat match goal with |- context [existsb ?f (bits bb)] => generalize (existsb f (bits bb)); intro end.
  repeat match goal with x : bool |- _ => match goal with |- context [x] => destruct x end end; reflexivity.
Qed.

(* in_check is the square query on the own king *)
Theorem in_check_is_attacked_king p : attack_pre_b p = true ->
  in_check p = spec_attacked p (lsb (N.land (kings p) (c_us p))) false.
Proof.
  intros H. unfold in_check. apply (attack_query_premises p H).
  unfold attack_pre_b in H.
  repeat match type of H with (_ && _) = true => let H' := fresh "P" in apply andb_true_iff in H; destruct H as [H H'] end.
  apply N.eqb_eq in P0. pose proof (bb8_sound p H) as (B1 & _).
  apply lsb_lt64; [apply land_lt_r; exact B1|apply popcount1_nonzero; exact P0].
Qed.

Theorem is_bb_attacked_rules p bb us : attack_pre_b p = true -> bb < TWO64 ->
  is_bb_attacked p bb us = existsb (fun sq => spec_attacked p sq us) (bits bb).
Proof.
  intros H Hb.
  assert (H' := H). unfold attack_pre_b in H'.
  repeat match type of H' with (_ && _) = true => let X := fresh "P" in apply andb_true_iff in H'; destruct H' as [H' X] end.
  apply N.eqb_eq in P, P0. pose proof (bb8_sound p H') as HB.
  rewrite (is_bb_attacked_squares p bb us HB Hb) by (destruct us; assumption).
  apply existsb_ext_in. intros sq Hsq. apply (attack_query_premises p H). exact (bits_lt64 bb sq Hb Hsq).
Qed.

(* ---------------------------------------------------------------- get_attacked: the attacked subset of a mask *)
Lemma fold_collect (c : N -> bool) l a x : (forall s, In s l -> s < 64) ->
  N.testbit (fold_left (fun acc sq => if c sq then N.lor acc (bit sq) else acc) l a) x
  = N.testbit a x || existsb (fun sq => (sq =? x) && c sq) l.
Proof.
  revert a. induction l as [|s l IH]; intros a Hl; cbn [fold_left existsb].
  - rewrite orb_false_r. reflexivity.
  - rewrite IH by (intros s' Hs'; apply Hl; right; exact Hs'). destruct (c s) eqn:Ec.
    + rewrite N.lor_spec, testbit_bit, andb_true_r, (N.eqb_sym x s), orb_assoc by (apply Hl; left; reflexivity). reflexivity.
    + rewrite andb_false_r. reflexivity.
Qed.

Lemma existsb_pick (c : N -> bool) M x :
  existsb (fun sq => (sq =? x) && c sq) (bits M) = N.testbit M x && c x.
Proof.
  destruct (N.testbit M x && c x) eqn:E.
  - apply andb_true_iff in E. destruct E as [E1 E2]. apply existsb_exists. exists x. split.
    + apply bits_spec. exact E1.
    + rewrite N.eqb_refl, E2. reflexivity.
  - destruct (existsb _ _) eqn:E'; [|reflexivity]. apply existsb_exists in E'. destruct E' as (s & Hs & Hc).
    apply andb_true_iff in Hc. destruct Hc as [He Hc]. apply N.eqb_eq in He. subst s.
    apply bits_spec in Hs. rewrite Hs, Hc in E. discriminate.
Qed.

Theorem get_attacked_squares p mask us x : BBp p -> x < 64 ->
  popcount (N.land (kings p) (get_side p us)) = 1 ->
  N.testbit (get_attacked p mask us) x = N.testbit mask x && is_sq_attacked p x us.
Proof.
  intros (B1 & B2 & B3 & B4 & B5 & B6 & B7 & B8) Hx Hk.
  assert (Bsd : get_side p us < TWO64) by (unfold get_side; destruct us; assumption).
  rewrite is_sq_or. unfold get_attacked. cbv zeta.
  set (sd := get_side p us) in *.
  assert (BK : N.land (kings p) sd < TWO64) by (apply land_lt_r; exact Bsd).
  assert (BN : N.land (knights p) sd < TWO64) by (apply land_lt_r; exact Bsd).
  rewrite fold_collect by (intros s Hs; apply (bits_lt64 _ s) in Hs; [exact Hs|apply land_lt_r; apply bnot_lt]). rewrite existsb_pick.
  rewrite !N.lor_spec, !N.land_spec, testbit_bnot, !N.lor_spec, !N.land_spec.
  rewrite (leaper_set knights_bb _ x linear_knights knights_sym BN Hx).
  rewrite (leaper_set adjacent _ x linear_adjacent adjacent_sym BK Hx).
  rewrite (N.land_assoc (knights_bb (bit x))).
  assert (Hks : lsb (N.land (kings p) sd) < 64) by (apply lsb_lt64; [exact BK|apply popcount1_nonzero; exact Hk]).
  assert (EK : N.land (kings p) sd = bit (lsb (N.land (kings p) sd))).
  { apply N.bits_inj. intros i. rewrite (single_bit_test _ i BK Hk), testbit_bit by exact Hks. reflexivity. }
  rewrite EK at 1 2. rewrite (N.land_comm (adjacent (bit x))), is_occ_land_bit by exact Hks.
  rewrite (sym_use adjacent x _ adjacent_sym Hx Hks).
  unfold is_set. apply N.ltb_lt in Hx. rewrite Hx.
  repeat match goal with |- context [is_occ ?t] => generalize (is_occ t); intro end.
  repeat match goal with |- context [N.testbit ?a ?b] => generalize (N.testbit a b); intro end.
  repeat match goal with b : bool |- _ => match goal with |- context [b] => destruct b end end; reflexivity.
Qed.

Theorem get_attacked_rules p mask us x : attack_pre_b p = true -> x < 64 ->
  N.testbit (get_attacked p mask us) x = N.testbit mask x && spec_attacked p x us.
Proof.
  intros H Hx.
  assert (H' := H). unfold attack_pre_b in H'.
  repeat match type of H' with (_ && _) = true => let X := fresh "P" in apply andb_true_iff in H'; destruct H' as [H' X] end.
  apply N.eqb_eq in P, P0. pose proof (bb8_sound p H') as HB.
  rewrite (get_attacked_squares p mask us x HB Hx) by (destruct us; assumption).
  rewrite (attack_query_premises p H x us Hx). reflexivity.
Qed.

Theorem in_check_them_is_attacked_king p : attack_pre_b p = true ->
  in_check_them p = spec_attacked p (lsb (N.land (kings p) (c_them p))) true.
Proof.
  intros H. unfold in_check_them. apply (attack_query_premises p H).
  unfold attack_pre_b in H.
  repeat match type of H with (_ && _) = true => let H' := fresh "P" in apply andb_true_iff in H; destruct H as [H H'] end.
  apply N.eqb_eq in P. pose proof (bb8_sound p H) as (_ & B2 & _).
  apply lsb_lt64; [apply land_lt_r; exact B2|apply popcount1_nonzero; exact P].
Qed.
