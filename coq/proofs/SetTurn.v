(* The engine's move generation, make-move boards and attack tests do not read the side-to-move flag: a position and its copy
   with the flag changed have the same generated moves, the same invariant and the same legality tests.  Used to carry
   White-frame theorems about the rules to the Black frame (with proofs/RulesMirror.v). *)
From Coq Require Import NArith ZArith List Bool Lia.
From Rawr Require Import Consts Bits Magic Position MoveGen MakeMove MakeStages Rules Abs HashFacts MakeFacts KeyAbs AttackAbs GenSane Closure EpRetro.
Import ListNotations.
Local Open Scope N_scope.
Lemma mg_set_turn p t : move_generator (set_turn p t) = move_generator p.
Proof. reflexivity. Qed.
Lemma ep_ok_set_turn p t : ep_ok_b (set_turn p t) = ep_ok_b p.
Proof. reflexivity. Qed.
Lemma holds_set_turn p t s th k : holds (set_turn p t) s th k <-> holds p s th k.
Proof. split; intros H; exact H. Qed.
Lemma Good_set_turn p t : Good p -> Good (set_turn p t).
Proof. intros G. constructor; [exact (g_wf p G)|exact (g_bb p G)|exact (g_dis p G)|exact (g_king p G)|exact (g_cf p G)|exact (g_ep p G)]. Qed.
Lemma Inv0_set_turn p t : Inv0 p -> Inv0 (set_turn p t).
Proof.
  intros I. constructor; [exact (Good_set_turn p t (i0_good p I))| |exact (i0_tking p I)|exact (i0_tk p I)|exact (i0_tq p I)|exact (i0_safe p I)].
  constructor; [exact (cg_k p (i0_cg p I))|exact (cg_q p (i0_cg p I))].
Qed.
Lemma xor_us_st p t bb : xor_us (set_turn p t) bb = set_turn (xor_us p bb) t. Proof. reflexivity. Qed.
Lemma xor_them_st p t bb : xor_them (set_turn p t) bb = set_turn (xor_them p bb) t. Proof. reflexivity. Qed.
Lemma xor_piece_st p t i bb : xor_piece (set_turn p t) i bb = set_turn (xor_piece p i bb) t.
Proof. unfold xor_piece, set_piece, get_piece. repeat match goal with |- context [match ?x with _ => _ end] => destruct x end; reflexivity. Qed.
Lemma st_move_st p t ft k : st_move (set_turn p t) ft k = set_turn (st_move p ft k) t.
Proof. unfold st_move. rewrite xor_us_st, xor_piece_st. reflexivity. Qed.
Lemma st_capture_st p t to c : st_capture (set_turn p t) to c = set_turn (st_capture p to c) t.
Proof. unfold st_capture. change (c_them (set_turn p t)) with (c_them p). destruct (is_set (c_them p) to); [rewrite xor_them_st, xor_piece_st|]; reflexivity. Qed.
Lemma st_ep_st p t b vic : st_ep (set_turn p t) b vic = set_turn (st_ep p b vic) t.
Proof. unfold st_ep. destruct b; [rewrite xor_them_st, xor_piece_st|]; reflexivity. Qed.
Lemma castle_fix_st p t a b c d e : castle_fix (set_turn p t) a b c d e = set_turn (castle_fix p a b c d e) t.
Proof. unfold castle_fix. cbv zeta. rewrite !xor_us_st, !xor_piece_st, !xor_us_st, !xor_piece_st. repeat (rewrite ?xor_us_st, ?xor_piece_st). reflexivity. Qed.
Lemma st_castle_st p t p0 a b : st_castle (set_turn p t) (set_turn p0 t) a b = set_turn (st_castle p p0 a b) t.
Proof. unfold st_castle. change (kings (set_turn p t)) with (kings p). change (rooks (set_turn p t)) with (rooks p).
  change (cf0 (set_turn p0 t)) with (cf0 p0). change (cf1 (set_turn p0 t)) with (cf1 p0).
  destruct (is_occ (N.land (kings p) (rooks p)) && (a <? b)); [apply castle_fix_st|].
  destruct (is_occ (N.land (kings p) (rooks p)) && (b <? a)); [apply castle_fix_st|reflexivity]. Qed.
Lemma st_promo_st p t pr bb : st_promo (set_turn p t) pr bb = set_turn (st_promo p pr bb) t.
Proof. unfold st_promo. destruct (negb (pr =? NOPIECE)); [rewrite !xor_piece_st|]; reflexivity. Qed.
Lemma mv_boards_set_turn p t m : mv_boards false (set_turn p t) m = set_turn (mv_boards false p m) t.
Proof.
  unfold mv_boards. cbv zeta. change (mv_start false (set_turn p t) m) with (set_turn p t). change (mv_start false p m) with p.
  change (mv_piece (set_turn p t) m) with (mv_piece p m). change (mv_cap (set_turn p t) m) with (mv_cap p m).
  change (mv_is_ep (set_turn p t) m) with (mv_is_ep p m). change (mv_vic (set_turn p t)) with (mv_vic p).
  rewrite st_move_st, st_capture_st, st_ep_st, st_castle_st, st_promo_st. reflexivity.
Qed.

Lemma legal_moves_set_turn p t : legal_moves (set_turn p t) = legal_moves p.
Proof. reflexivity. Qed.

Lemma in_check_after_set_turn p t m : in_check_them (makemove false (set_turn p t) m) = in_check_them (makemove false p m).
Proof.
  rewrite !makemove_stages. unfold in_check_them.
  match goal with |- is_sq_attacked (flip ?A) ?x _ = is_sq_attacked (flip ?B) ?y _ =>
    assert (E : c_us A = c_us B /\ c_them A = c_them B /\ pawns A = pawns B /\ knights A = knights B /\ bishops A = bishops B
               /\ rooks A = rooks B /\ queens A = queens B /\ kings A = kings B) end.
  { cbn [set_clocks_ep_rights c_us c_them pawns knights bishops rooks queens kings]. rewrite mv_boards_set_turn. repeat split; reflexivity. }
  destruct E as (E1 & E2 & E3 & E4 & E5 & E6 & E7 & E8).
  cbn [flip c_us c_them pawns knights bishops rooks queens kings] in *.
  unfold is_sq_attacked, get_side, occupied. cbn [flip c_us c_them pawns knights bishops rooks queens kings].
  rewrite E1, E2, E3, E4, E5, E6, E7, E8. reflexivity.
Qed.

Lemma sane_set_turn p t m k : sane p m k -> sane (set_turn p t) m k.
Proof.
  intros S. constructor; [exact (sn_from _ _ _ S)|exact (sn_to _ _ _ S)|exact (sn_ne _ _ _ S)|exact (sn_mover _ _ _ S)|exact (sn_target _ _ _ S)
                         |exact (sn_kr _ _ _ S)|exact (sn_ep _ _ _ S)|exact (sn_promo _ _ _ S)].
Qed.
