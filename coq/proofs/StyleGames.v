(* C20, game layer assembled: for every non-empty list of games, each a sequence of generated (= legal, C01) moves from the
   standard starting position, of any length, analysed for either side with any result headers, the statistics the tool's
   analyse_game accumulates (model/StyleGame.v) satisfy the invariant SInv of StyleFacts.v and the tool's own is_valid; hence
   the three style scores are defined (no division by zero, no failed range assertion) and lie in [0,1]. *)
From Coq Require Import NArith ZArith QArith List Bool Lqa.
From Rawr Require Import Consts Bits Magic Position MoveGen MakeMove MakeStages Style StyleGame StyleSpec StyleFacts StyleInv
                         GenLegal StyleCount StylePotential StyleValid.
Import ListNotations.
Local Open Scope Q_scope.

Definition played (g : Header * list Mv) : Prop := gen_seq startpos (snd g).

Record SAll (s : SStats) : Prop := { a_count : SCount s; a_push : SPush s; a_low : SLow s }.

Lemma SAll_empty : SAll empty_stats.
Proof. constructor; [exact SCount_empty|exact SPush_empty|exact SLow_empty]. Qed.

Lemma analyse_game_all side h ms s : gen_seq startpos ms -> SAll s ->
  SAll (analyse_game side startpos h ms s) /\ num_games (analyse_game side startpos h ms s) == num_games s + 1.
Proof.
  intros Hp [C P L]. destruct (analyse_game_count side startpos h ms s startpos_invR Hp C) as (C' & Hn).
  split; [|exact Hn]. constructor; [exact C'|exact (analyse_game_push side h ms s Hp P)|exact (analyse_game_low side h ms s Hp L)].
Qed.

Lemma fold_games side games : forall s, Forall played games -> SAll s -> 0 <= num_games s ->
  let s' := fold_left (fun s g => analyse_game side startpos (fst g) (snd g) s) games s in
  SAll s' /\ num_games s <= num_games s' /\ (games <> [] -> 0 < num_games s').
Proof.
  induction games as [|g r IH]; intros s Hall A Hn; cbn [fold_left].
  - split; [exact A|split; [apply Qle_refl|intros H; contradiction H; reflexivity]].
  - inversion Hall as [|g' r' Hg Hr]; subst.
    destruct (analyse_game_all side (fst g) (snd g) s Hg A) as (A1 & N1).
    assert (Hn1 : 0 <= num_games (analyse_game side startpos (fst g) (snd g) s)) by lra.
    destruct (IH _ Hr A1 Hn1) as (A2 & Hle & _).
    split; [exact A2|]. split; [lra|intros _; lra].
Qed.

Theorem analyse_games_all side games : games <> [] -> Forall played games ->
  SAll (analyse_games side games) /\ 0 < num_games (analyse_games side games).
Proof.
  intros Hne Hall. unfold analyse_games.
  destruct (fold_games side games empty_stats Hall SAll_empty) as (A & _ & Hpos); [apply Qle_refl|].
  split; [exact A|exact (Hpos Hne)].
Qed.

Theorem analyse_games_SInv side games : games <> [] -> Forall played games -> SInv (analyse_games side games).
Proof.
  intros Hne Hall. destruct (analyse_games_all side games Hne Hall) as ([C P _] & Hpos). exact (SInv_of _ Hpos C P).
Qed.

Theorem analyse_games_valid side games : Forall played games -> is_valid (analyse_games side games) = true.
Proof.
  intros Hall. unfold analyse_games.
  destruct (fold_games side games empty_stats Hall SAll_empty) as ([C _ L] & _); [apply Qle_refl|].
  exact (is_valid_of _ C L).
Qed.

Lemma pushes_nonneg s : SCount s -> 0 <= total_pawn_pushes s.
Proof.
  intros C. pose proof (c_towards s C) as H. destruct (c_nn s C) as (_&_&_&_&_&_&_&_&_&_&_&_&_&_&_&_&_&_&_&_&H0&_). lra.
Qed.

(* the statement of the property on the model: statistics consistent, every score a number in [0,1] *)
Theorem style_scores_of_games side games : games <> [] -> Forall played games ->
  let s := analyse_games side games in
  is_valid s = true
  /\ (exists q, aggression_score s = Score q /\ 0 <= q /\ q <= 1)
  /\ (exists q, positional_score s = Score q /\ 0 <= q /\ q <= 1)
  /\ (exists q, pawn_pusher_score s = Score q /\ 0 <= q /\ q <= 1).
Proof.
  intros Hne Hall s. pose proof (analyse_games_SInv side games Hne Hall) as I.
  destruct (analyse_games_all side games Hne Hall) as ([C _ _] & Hpos).
  split; [exact (analyse_games_valid side games Hall)|].
  split; [exact (aggression_in_unit s I (pushes_nonneg s C))|].
  split; [exact (positional_in_unit s I)|exact (pawn_pusher_in_unit s Hpos)].
Qed.

(* without games the tool prints nothing: every score function returns None *)
Theorem no_games_no_scores side :
  let s := analyse_games side [] in
  aggression_score s = NoGames /\ positional_score s = NoGames /\ pawn_pusher_score s = NoGames.
Proof. vm_compute. repeat split. Qed.

(* non-vacuity: a set of two games (1.e4 d5 2.exd5 and the empty game) meets the hypotheses *)
Example two_games_played :
  Forall played [(WhiteWins, [mkMv 12 28 NOPIECE; mkMv 11 27 NOPIECE; mkMv 28 35 NOPIECE]); (DrawnGame, [])].
Proof.
  assert (legal_in : forall p m, existsb (mv_eqb m) (legal_moves p) = true -> In m (legal_moves p)).
  { intros p m H. apply existsb_exists in H. destruct H as (x & Hx & E). unfold mv_eqb in E.
    apply andb_true_iff in E. destruct E as [E E3]. apply andb_true_iff in E. destruct E as [E1 E2].
    apply N.eqb_eq in E1, E2, E3. destruct m as [a b c], x as [a' b' c']. cbn [m_from m_to m_promo] in *. subst. exact Hx. }
  apply Forall_cons; [|apply Forall_cons; [exact I|apply Forall_nil]].
  unfold played. cbn [snd gen_seq].
  split; [apply legal_in; vm_compute; reflexivity|].
  split; [apply legal_in; vm_compute; reflexivity|].
  split; [apply legal_in; vm_compute; reflexivity|exact I].
Qed.

Print Assumptions style_scores_of_games.
Print Assumptions analyse_games_SInv.
