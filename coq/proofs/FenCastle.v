(* C06: the FEN round trip for positions WITH castling rights.  The castling field (K/Q/k/q for the outermost rook of a
   wing, a Shredder file letter A-H / a-h for an inner rook) printed by get_fen is read back by castle_loop as exactly the
   four flags and the four rook files; with FenBoard / FenRound this gives the whole-string round trip. *)
From Coq Require Import NArith ZArith List Bool Lia ZifyN ZifyBool.
From Rawr Require Import Consts Bits Magic Position MoveGen MakeMove MakeStages Fen
                         BitsFacts ShiftFacts FlipFacts AbsFacts HashFacts MakeFacts KeyAbs NotationFacts FenFacts GenSane Closure
                         FenBoard FenRound LsbFacts.
From Rawr Require AttackFacts KeyMove.
Import ListNotations.
Local Open Scope N_scope.
Ltac Zify.zify_post_hook ::= Z.div_mod_to_equations.

(* ------------------------------------------------------------------ what the parser needs of the castling data *)
(* file of the king of one side *)
Definition kfile (side kgs : N) : N := file_of (lsb (N.land side kgs)).

Lemma kfile_le side kgs : kfile side kgs <= 7.
Proof. unfold kfile, file_of. pose proof (N.mod_upper_bound (lsb (N.land side kgs)) 8). lia. Qed.

(* a held right records a file (at most 7) on the proper wing of that side's king; a right that is not held has the
   file the parser starts from (7 0 7 0): any other value cannot come back from a string *)
Definition CasOK (q : Position) : Prop :=
  (if us_ksc q then kfile (c_us q) (kings q) < cf0 q <= 7 else cf0 q = 7) /\
  (if us_qsc q then cf1 q < kfile (c_us q) (kings q) else cf1 q = 0) /\
  (if them_ksc q then kfile (c_them q) (kings q) < cf2 q <= 7 else cf2 q = 7) /\
  (if them_qsc q then cf3 q < kfile (c_them q) (kings q) else cf3 q = 0).

(* ------------------------------------------------------------------ castle_char on each kind of letter *)
Section Chars.
Variables w b r k : N.
Variable a : CastleAcc.

Lemma castle_char_K :
  let R := N.land (N.land w r) (N.land RANK1 (ray_east_bb (lsb (N.land w k)))) in
  is_occ R = true -> castle_char w b r k a 75 = Some (castle_set a false true (file_of (hsb R)), false).
Proof.
  intros R HR. unfold castle_char. cbv zeta. change (75 =? 75) with true. cbv iota. fold R. rewrite HR. reflexivity.
Qed.
Lemma castle_char_Q :
  let R := N.land (N.land w r) (N.land RANK1 (ray_west_bb (lsb (N.land w k)))) in
  is_occ R = true -> castle_char w b r k a 81 = Some (castle_set a false false (file_of (lsb R)), false).
Proof.
  intros R HR. unfold castle_char. cbv zeta. change (81 =? 75) with false. change (81 =? 81) with true. cbv iota.
  fold R. rewrite HR. reflexivity.
Qed.
Lemma castle_char_k :
  let R := N.land (N.land b r) (N.land RANK8 (ray_east_bb (lsb (N.land b k)))) in
  is_occ R = true -> castle_char w b r k a 107 = Some (castle_set a true true (file_of (hsb R)), false).
Proof.
  intros R HR. unfold castle_char. cbv zeta. change (107 =? 75) with false. change (107 =? 81) with false.
  change (107 =? 107) with true. cbv iota. fold R. rewrite HR. reflexivity.
Qed.
Lemma castle_char_q :
  let R := N.land (N.land b r) (N.land RANK8 (ray_west_bb (lsb (N.land b k)))) in
  is_occ R = true -> castle_char w b r k a 113 = Some (castle_set a true false (file_of (lsb R)), false).
Proof.
  intros R HR. unfold castle_char. cbv zeta. change (113 =? 75) with false. change (113 =? 81) with false.
  change (113 =? 107) with false. change (113 =? 113) with true. cbv iota. fold R. rewrite HR. reflexivity.
Qed.

(* a file letter: A-H are the code points 65-72, none of them K (75) or Q (81) *)
Lemma castle_char_upper f : f <= 7 ->
  castle_char w b r k a (65 + f) = Some (castle_set a false (kfile w k <? f) f, false).
Proof.
  intros Hf. unfold castle_char. cbv zeta.
  destruct (N.eqb_spec (65 + f) 75); [lia|]. destruct (N.eqb_spec (65 + f) 81); [lia|].
  destruct (N.eqb_spec (65 + f) 107); [lia|]. destruct (N.eqb_spec (65 + f) 113); [lia|].
  destruct (N.leb_spec 65 (65 + f)); [|lia]. destruct (N.leb_spec (65 + f) 72); [|lia]. cbn [andb].
  replace (65 + f - 65) with f by lia. reflexivity.
Qed.
Lemma castle_char_lower f : f <= 7 ->
  castle_char w b r k a (97 + f) = Some (castle_set a true (kfile b k <? f) f, false).
Proof.
  intros Hf. unfold castle_char. cbv zeta.
  destruct (N.eqb_spec (97 + f) 75); [lia|]. destruct (N.eqb_spec (97 + f) 81); [lia|].
  destruct (N.eqb_spec (97 + f) 107); [lia|]. destruct (N.eqb_spec (97 + f) 113); [lia|].
  destruct (N.leb_spec (97 + f) 72); [lia|]. rewrite andb_false_r.
  destruct (N.leb_spec 97 (97 + f)); [|lia]. destruct (N.leb_spec (97 + f) 104); [|lia]. cbn [andb].
  replace (97 + f - 97) with f by lia. reflexivity.
Qed.
End Chars.

(* ------------------------------------------------------------------ the printed letter of each right parses back to it *)
Section Letters.
Variable np : Position.
Variable a : CastleAcc.
Let W := c_us np.
Let B := c_them np.

Lemma parse_letter_wk : kfile (c_us np) (kings np) < cf0 np <= 7 ->
  castle_char (c_us np) (c_them np) (rooks np) (kings np) a (castle_letter np true true (cf0 np))
  = Some (castle_set a false true (cf0 np), false).
Proof.
  intros Hf. unfold castle_letter. cbv beta iota zeta.
  set (R := N.land (N.land (c_us np) (rooks np)) (N.land RANK1 (ray_east_bb (lsb (N.land (c_us np) (kings np)))))).
  destruct (is_occ R && (file_of (hsb R) =? cf0 np)) eqn:E.
  - apply andb_true_iff in E. destruct E as [E1 E2]. apply N.eqb_eq in E2.
    rewrite (castle_char_K _ (c_them np) _ _ a E1). fold R. rewrite E2. reflexivity.
  - rewrite castle_char_upper by lia. replace (kfile (c_us np) (kings np) <? cf0 np) with true; [reflexivity|].
    symmetry. apply N.ltb_lt. lia.
Qed.
Lemma parse_letter_wq : cf1 np < kfile (c_us np) (kings np) ->
  castle_char (c_us np) (c_them np) (rooks np) (kings np) a (castle_letter np true false (cf1 np))
  = Some (castle_set a false false (cf1 np), false).
Proof.
  intros Hf. pose proof (kfile_le (c_us np) (kings np)) as Hk. unfold castle_letter. cbv beta iota zeta.
  set (R := N.land (N.land (c_us np) (rooks np)) (N.land RANK1 (ray_west_bb (lsb (N.land (c_us np) (kings np)))))).
  destruct (is_occ R && (file_of (lsb R) =? cf1 np)) eqn:E.
  - apply andb_true_iff in E. destruct E as [E1 E2]. apply N.eqb_eq in E2.
    rewrite (castle_char_Q _ (c_them np) _ _ a E1). fold R. rewrite E2. reflexivity.
  - rewrite castle_char_upper by lia. replace (kfile (c_us np) (kings np) <? cf1 np) with false; [reflexivity|].
    symmetry. apply N.ltb_ge. lia.
Qed.
Lemma parse_letter_bk : kfile (c_them np) (kings np) < cf2 np <= 7 ->
  castle_char (c_us np) (c_them np) (rooks np) (kings np) a (castle_letter np false true (cf2 np))
  = Some (castle_set a true true (cf2 np), false).
Proof.
  intros Hf. unfold castle_letter. cbv beta iota zeta.
  set (R := N.land (N.land (c_them np) (rooks np)) (N.land RANK8 (ray_east_bb (lsb (N.land (c_them np) (kings np)))))).
  destruct (is_occ R && (file_of (hsb R) =? cf2 np)) eqn:E.
  - apply andb_true_iff in E. destruct E as [E1 E2]. apply N.eqb_eq in E2.
    rewrite (castle_char_k (c_us np) _ _ _ a E1). fold R. rewrite E2. reflexivity.
  - rewrite castle_char_lower by lia. replace (kfile (c_them np) (kings np) <? cf2 np) with true; [reflexivity|].
    symmetry. apply N.ltb_lt. lia.
Qed.
Lemma parse_letter_bq : cf3 np < kfile (c_them np) (kings np) ->
  castle_char (c_us np) (c_them np) (rooks np) (kings np) a (castle_letter np false false (cf3 np))
  = Some (castle_set a true false (cf3 np), false).
Proof.
  intros Hf. pose proof (kfile_le (c_them np) (kings np)) as Hk. unfold castle_letter. cbv beta iota zeta.
  set (R := N.land (N.land (c_them np) (rooks np)) (N.land RANK8 (ray_west_bb (lsb (N.land (c_them np) (kings np)))))).
  destruct (is_occ R && (file_of (lsb R) =? cf3 np)) eqn:E.
  - apply andb_true_iff in E. destruct E as [E1 E2]. apply N.eqb_eq in E2.
    rewrite (castle_char_q (c_us np) _ _ _ a E1). fold R. rewrite E2. reflexivity.
  - rewrite castle_char_lower by lia. replace (kfile (c_them np) (kings np) <? cf3 np) with false; [reflexivity|].
    symmetry. apply N.ltb_ge. lia.
Qed.
End Letters.

(* the letter is the wing letter or the file letter *)
Lemma letter_cases np white ksc f :
  castle_letter np white ksc f = (if white then (if ksc then 75 else 81) else (if ksc then 107 else 113))
  \/ castle_letter np white ksc f = (if white then 65 + f else 97 + f).
Proof. unfold castle_letter. cbv zeta. destruct (_ && _); [left|right]; reflexivity. Qed.

(* ------------------------------------------------------------------ the whole field *)
Definition cas_letters (np : Position) : str :=
  (if us_ksc np then [castle_letter np true true (cf0 np)] else [])
  ++ (if us_qsc np then [castle_letter np true false (cf1 np)] else [])
  ++ (if them_ksc np then [castle_letter np false true (cf2 np)] else [])
  ++ (if them_qsc np then [castle_letter np false false (cf3 np)] else []).
Definition cas_field (np : Position) : str :=
  if negb (us_ksc np) && negb (us_qsc np) && negb (them_ksc np) && negb (them_qsc np) then [45] else cas_letters np.

Lemma castle_loop_step w b r k a seen c t a' :
  existsb (N.eqb c) seen = false -> castle_char w b r k a c = Some (a', false) ->
  castle_loop w b r k a seen (c :: t) = castle_loop w b r k a' (c :: seen) t.
Proof. intros H1 H2. cbn [castle_loop]. rewrite H1, H2. reflexivity. Qed.

Theorem castle_field_roundtrip np : CasOK np ->
  castle_loop (c_us np) (c_them np) (rooks np) (kings np) (mkCA false false false false 7 0 7 0) [] (cas_field np)
  = Some (mkCA (us_ksc np) (us_qsc np) (them_ksc np) (them_qsc np) (cf0 np) (cf1 np) (cf2 np) (cf3 np)).
Proof.
  intros (HK & HQ & Hk & Hq).
  pose proof (kfile_le (c_us np) (kings np)) as Lw. pose proof (kfile_le (c_them np) (kings np)) as Lb.
  pose proof (fun a => parse_letter_wk np a) as CK. pose proof (fun a => parse_letter_wq np a) as CQ.
  pose proof (fun a => parse_letter_bk np a) as Ck. pose proof (fun a => parse_letter_bq np a) as Cq.
  pose proof (letter_cases np true true (cf0 np)) as RK. pose proof (letter_cases np true false (cf1 np)) as RQ.
  pose proof (letter_cases np false true (cf2 np)) as Rk. pose proof (letter_cases np false false (cf3 np)) as Rq.
  cbv iota in RK, RQ, Rk, Rq.
  unfold cas_field, cas_letters.
  set (LK := castle_letter np true true (cf0 np)) in *. set (LQ := castle_letter np true false (cf1 np)) in *.
  set (Lk := castle_letter np false true (cf2 np)) in *. set (Lq := castle_letter np false false (cf3 np)) in *.
  assert (DQK : us_ksc np = true -> us_qsc np = true -> (LQ =? LK) = false).
  { intros E1 E2. rewrite E1 in HK. rewrite E2 in HQ. apply N.eqb_neq. lia. }
  assert (DkK : us_ksc np = true -> them_ksc np = true -> (Lk =? LK) = false).
  { intros E1 E2. rewrite E1 in HK. rewrite E2 in Hk. apply N.eqb_neq. lia. }
  assert (DkQ : us_qsc np = true -> them_ksc np = true -> (Lk =? LQ) = false).
  { intros E1 E2. rewrite E1 in HQ. rewrite E2 in Hk. apply N.eqb_neq. lia. }
  assert (DqK : us_ksc np = true -> them_qsc np = true -> (Lq =? LK) = false).
  { intros E1 E2. rewrite E1 in HK. rewrite E2 in Hq. apply N.eqb_neq. lia. }
  assert (DqQ : us_qsc np = true -> them_qsc np = true -> (Lq =? LQ) = false).
  { intros E1 E2. rewrite E1 in HQ. rewrite E2 in Hq. apply N.eqb_neq. lia. }
  assert (Dqk : them_ksc np = true -> them_qsc np = true -> (Lq =? Lk) = false).
  { intros E1 E2. rewrite E1 in Hk. rewrite E2 in Hq. apply N.eqb_neq. lia. }
  clear RK RQ Rk Rq Lw Lb. clearbody LK LQ Lk Lq.
  revert HK HQ Hk Hq CK CQ Ck Cq DQK DkK DkQ DqK DqQ Dqk.
  generalize (cf0 np) (cf1 np) (cf2 np) (cf3 np). intros f0 f1 f2 f3.
  destruct (us_ksc np), (us_qsc np), (them_ksc np), (them_qsc np);
    intros HK HQ Hk Hq CK CQ Ck Cq DQK DkK DkQ DqK DqQ Dqk; cbn [negb andb app]; cbv iota;
    try specialize (DQK eq_refl eq_refl); try specialize (DkK eq_refl eq_refl); try specialize (DkQ eq_refl eq_refl);
    try specialize (DqK eq_refl eq_refl); try specialize (DqQ eq_refl eq_refl); try specialize (Dqk eq_refl eq_refl);
    try (subst f0); try (subst f1); try (subst f2); try (subst f3);
    try apply castle_dash;
    repeat (erewrite castle_loop_step;
            [ | cbn [existsb]; rewrite ?DQK, ?DkK, ?DkQ, ?DqK, ?DqQ, ?Dqk; reflexivity
              | first [ apply CK; exact HK | apply CQ; exact HQ | apply Ck; exact Hk | apply Cq; exact Hq ] ]);
    reflexivity.
Qed.

(* the field has no space and is not empty *)
Lemma cas_field_no32 np : CasOK np -> no32 (cas_field np).
Proof.
  intros (HK & HQ & Hk & Hq). pose proof (kfile_le (c_us np) (kings np)) as Lw. pose proof (kfile_le (c_them np) (kings np)) as Lb.
  pose proof (letter_cases np true true (cf0 np)) as RK. pose proof (letter_cases np true false (cf1 np)) as RQ.
  pose proof (letter_cases np false true (cf2 np)) as Rk. pose proof (letter_cases np false false (cf3 np)) as Rq.
  cbv iota in RK, RQ, Rk, Rq. unfold cas_field, cas_letters, no32.
  destruct (us_ksc np), (us_qsc np), (them_ksc np), (them_qsc np); cbn [negb andb app In]; cbv iota; cbn [In]; lia.
Qed.
Lemma cas_field_nonempty np : cas_field np <> [].
Proof.
  unfold cas_field, cas_letters.
  destruct (us_ksc np), (us_qsc np), (them_ksc np), (them_qsc np); cbn [negb andb app]; cbv iota; discriminate.
Qed.

(* ------------------------------------------------------------------ castling data under flip *)
Lemma lsb_bswap1 X : X < TWO64 -> popcount X = 1 -> lsb (bswap X) = flip_sq (lsb X) /\ lsb X < 64.
Proof.
  intros HX HP. pose proof (popcount1_nonzero X HP) as Hnz. pose proof (AttackFacts.lsb_lt64 X HX Hnz) as Hl.
  split; [|exact Hl]. symmetry. apply lsb_unique; [rewrite popcount_bswap by exact HX; exact HP|].
  change (is_set (bswap X) (flip_sq (lsb X)) = true). rewrite is_set_bswap by (apply flip_sq_lt; exact Hl).
  rewrite flip_sq_invol. apply lsb_set. exact Hnz.
Qed.

Lemma kfile_bswap side kgs : side < TWO64 -> popcount (N.land side kgs) = 1 -> kfile (bswap side) (bswap kgs) = kfile side kgs.
Proof.
  intros Hs HP. unfold kfile. rewrite <- HashFacts.bswap_land.
  destruct (lsb_bswap1 (N.land side kgs) (land_lt_l _ _ Hs) HP) as [E L]. rewrite E. apply KeyMove.file_flip. exact L.
Qed.

Lemma CasOK_flip p : HashFacts.BB8 p -> popcount (N.land (c_us p) (kings p)) = 1 -> popcount (N.land (c_them p) (kings p)) = 1 ->
  CasOK p -> CasOK (flip p).
Proof.
  intros (B1 & B2 & _) P1 P2 (HK & HQ & Hk & Hq). unfold CasOK. cbn [flip c_us c_them kings us_ksc us_qsc them_ksc them_qsc cf0 cf1 cf2 cf3].
  rewrite (kfile_bswap _ _ B1 P1), (kfile_bswap _ _ B2 P2). repeat split; assumption.
Qed.

(* ------------------------------------------------------------------ the whole string *)
Record RTC (p : Position) : Prop := {
  rc_wf : WF p;
  rc_bb : HashFacts.BB8 p;
  rc_castle : CasOK p;
  rc_valid : validate p = None;
  rc_hash : hash p = calculate_hash p;
  rc_hm : (0 <= halfmoves p <= I32_MAX)%Z;
  rc_fm : (0 <= fullmoves p <= I32_MAX)%Z;
  rc_ep : forall e, ep p = Some e -> e < 64
}.

(* the positions of FenRound.v (no right held, files at their defaults) are a special case *)
Lemma RT_RTC p : RT p -> RTC p.
Proof.
  intros [Hw Hb (R1 & R2 & R3 & R4) (F0 & F1 & F2 & F3) Hv Hh Hhm Hfm Hep]. constructor; try assumption.
  unfold CasOK. rewrite R1, R2, R3, R4. repeat split; assumption.
Qed.

Lemma RTC_kings p : RTC p -> popcount (N.land (c_us p) (kings p)) = 1 /\ popcount (N.land (c_them p) (kings p)) = 1.
Proof.
  intros H. pose proof (validate_sound p (rc_valid p H)) as V.
  repeat match type of V with _ /\ _ => let X := fresh "V" in destruct V as [X V] end.
  match goal with W : popcount (N.land (get_white p) (kings p)) = 1 |- _ => rename W into Wk end.
  match goal with W : popcount (N.land (get_black p) (kings p)) = 1 |- _ => rename W into Bk end.
  unfold get_white, get_black in Wk, Bk. destruct (turn p); split; assumption.
Qed.

Section RoundC.
Variable p : Position.
Hypothesis H : RTC p.
Let np := if turn p then flip p else p.

Lemma npc_wf : WF np.
Proof. unfold np. destruct (turn p); [apply WF_flip'|]; exact (rc_wf p H). Qed.
Lemma npc_bb : HashFacts.BB8 np.
Proof. unfold np. destruct (turn p); [apply KeyMove.BB8_flip|exact (rc_bb p H)]. Qed.
Lemma npc_castle : CasOK np.
Proof.
  destruct (RTC_kings p H) as [P1 P2]. unfold np. destruct (turn p); [|exact (rc_castle p H)].
  exact (CasOK_flip p (rc_bb p H) P1 P2 (rc_castle p H)).
Qed.
Lemma npc_fields : halfmoves np = halfmoves p /\ fullmoves np = fullmoves p /\ is_frc np = is_frc p.
Proof. unfold np. destruct (turn p); cbn; repeat split. Qed.
Lemma npc_kings : is_emp (N.land (c_us np) (kings np)) = false /\ is_emp (N.land (c_them np) (kings np)) = false.
Proof.
  destruct (RTC_kings p H) as [P1 P2]. destruct (rc_bb p H) as (B1 & B2 & _).
  unfold np. destruct (turn p); cbn [flip c_us c_them kings].
  - rewrite <- !HashFacts.bswap_land, !is_emp_false_of_pop; [split; reflexivity| |].
    + rewrite popcount_bswap by (apply land_lt_l; exact B1). exact P1.
    + rewrite popcount_bswap by (apply land_lt_l; exact B2). exact P2.
  - rewrite !is_emp_false_of_pop by assumption. split; reflexivity.
Qed.
End RoundC.

(* the record the parser assembles from the parts of a White-to-move position is that position with key 0 *)
Lemma mk_np_rights q frc : turn q = false -> frc = is_frc q ->
  mkPos (c_us q) (c_them q) (pawns q) (knights q) (bishops q) (rooks q) (queens q) (kings q)
        (halfmoves q) (fullmoves q) false (ep q) (us_ksc q) (us_qsc q) (them_ksc q) (them_qsc q)
        (cf0 q) (cf1 q) (cf2 q) (cf3 q) 0 frc = set_hash q 0.
Proof. destruct q. cbn. intros. subst. reflexivity. Qed.

Theorem fen_roundtrip_rights_raw mode p : RTC p ->
  exists s, get_fen p = Some s /\ set_fen_raw mode (is_frc p) s = Some p.
Proof.
  intros H. set (np := if turn p then flip p else p).
  pose proof (np_turn p) as Ht. pose proof (npc_wf p H) as Hw. pose proof (npc_bb p H) as Hb. pose proof (npc_castle p H) as Hc.
  fold np in Ht, Hw, Hb, Hc.
  destruct (npc_fields p) as (Ehm & Efm & Efrc). fold np in Ehm, Efm, Efrc.
  destruct (npc_kings p H) as (K1 & K2). fold np in K1, K2.
  destruct (board_field_roundtrip np mode Hw Hb Ht) as (b & Hfb & Hl).
  set (c := if turn p then 98 else 119).
  set (casf := cas_field np).
  set (epf := match ep np with Some e => show_sq e | None => [45] end).
  set (hmf := show_Z (halfmoves np)). set (fmf := show_Z (fullmoves np)).
  assert (Hget : get_fen p = Some (b ++ 32 :: [c] ++ 32 :: casf ++ 32 :: epf ++ 32 :: hmf ++ 32 :: fmf)).
  { unfold get_fen. fold np. rewrite Hfb. cbn [obind]. f_equal. f_equal. unfold c, casf, cas_field, cas_letters, epf, hmf, fmf.
    destruct (turn p); destruct (negb (us_ksc np) && negb (us_qsc np) && negb (them_ksc np) && negb (them_qsc np));
      destruct (ep np); reflexivity. }
  eexists. split; [exact Hget|].
  assert (Hsplit : split_sp (b ++ 32 :: [c] ++ 32 :: casf ++ 32 :: epf ++ 32 :: hmf ++ 32 :: fmf) [] = [b; [c]; casf; epf; hmf; fmf]).
  { rewrite (split_sp_field b (board_loop_no32 mode _ _ _ Hl)).
    rewrite (split_sp_field [c]) by (unfold c; destruct (turn p); intros [E|[]]; discriminate).
    rewrite (split_sp_field casf) by (apply cas_field_no32; exact Hc).
    rewrite (split_sp_field epf) by (unfold epf; destruct (ep np); [apply show_sq_no32|intros [E|[]]; discriminate]).
    rewrite (split_sp_field hmf) by apply show_Z_no32.
    rewrite (split_sp_last fmf) by apply show_Z_no32. reflexivity. }
  assert (Hep : forall e, ep np = Some e -> e < 64).
  { intros e He. unfold np in He. destruct (turn p); [|exact (rc_ep p H e He)].
    cbn [flip ep] in He. destruct (ep p) as [e0|] eqn:E0; [|discriminate]. injection He as <-. apply flip_sq_lt. exact (rc_ep p H e0 E0). }
  rewrite (set_fen_stages mode (is_frc p) _ b c casf epf hmf fmf _ (turn p)
             (mkCA (us_ksc np) (us_qsc np) (them_ksc np) (them_qsc np) (cf0 np) (cf1 np) (cf2 np) (cf3 np))
             (ep np) (halfmoves np) (fullmoves np) Hsplit Hl).
  - (* the parsed record is np with key 0; flipped back and re-keyed it is p *)
    cbn [ba_w ba_b ba_pc ca_uk ca_uq ca_tk ca_tq ca_f0 ca_f1 ca_f2 ca_f3]. cbv zeta.
    change (nthN [pawns np; knights np; bishops np; rooks np; queens np; kings np] 0 0) with (pawns np).
    change (nthN [pawns np; knights np; bishops np; rooks np; queens np; kings np] 1 0) with (knights np).
    change (nthN [pawns np; knights np; bishops np; rooks np; queens np; kings np] 2 0) with (bishops np).
    change (nthN [pawns np; knights np; bishops np; rooks np; queens np; kings np] 3 0) with (rooks np).
    change (nthN [pawns np; knights np; bishops np; rooks np; queens np; kings np] 4 0) with (queens np).
    change (nthN [pawns np; knights np; bishops np; rooks np; queens np; kings np] 5 0) with (kings np).
    set (Q := mkPos (c_us np) (c_them np) (pawns np) (knights np) (bishops np) (rooks np) (queens np) (kings np)
                      (halfmoves np) (fullmoves np) false (ep np) (us_ksc np) (us_qsc np) (them_ksc np) (them_qsc np)
                      (cf0 np) (cf1 np) (cf2 np) (cf3 np) 0 (is_frc p)).
    assert (Eq : (if turn p then flip Q else Q) = set_hash p 0).
    { assert (Enp : Q = set_hash np 0) by (apply mk_np_rights; [exact Ht|symmetry; exact Efrc]).
      rewrite Enp. unfold np. destruct (turn p) eqn:Et.
      - transitivity (set_hash (flip (flip p)) 0); [destruct (flip p); reflexivity|]. rewrite (flip_flip p (rc_bb p H) (rc_ep p H)). reflexivity.
      - reflexivity. }
    rewrite Eq. unfold finish_fen. rewrite calculate_hash_set_hash, <- (rc_hash p H).
    assert (Es : set_hash (set_hash p 0) (hash p) = p) by (destruct p; reflexivity). rewrite Es.
    assert (Ebit : match ep p with Some e => bit_m mode e | None => Some 0 end <> None).
    { destruct (ep p) as [e|] eqn:E; [|discriminate]. unfold bit_m. pose proof (rc_ep p H e E) as L. apply N.ltb_lt in L. rewrite L. discriminate. }
    destruct (match ep p with Some e => bit_m mode e | None => Some 0 end); [|contradiction]. rewrite (rc_valid p H). reflexivity.
  - reflexivity.
  - unfold c. destruct (turn p); reflexivity.
  - cbn [ba_w ba_pc]. change (nthN [pawns np; knights np; bishops np; rooks np; queens np; kings np] 5 0) with (kings np). exact K1.
  - cbn [ba_b ba_pc]. change (nthN [pawns np; knights np; bishops np; rooks np; queens np; kings np] 5 0) with (kings np). exact K2.
  - cbn [ba_w ba_b ba_pc].
    change (nthN [pawns np; knights np; bishops np; rooks np; queens np; kings np] 3 0) with (rooks np).
    change (nthN [pawns np; knights np; bishops np; rooks np; queens np; kings np] 5 0) with (kings np).
    exact (castle_field_roundtrip np Hc).
  - unfold epf. destruct (ep np) as [e|] eqn:E; [exact (ep_parse_sq mode e (Hep e eq_refl))|exact (ep_parse_dash mode)].
  - unfold hmf. rewrite Ehm. apply parse_show_Z. exact (rc_hm p H).
  - rewrite Ehm. apply Z.ltb_ge. exact (proj1 (rc_hm p H)).
  - unfold fmf. rewrite Efm. apply parse_show_Z. exact (rc_fm p H).
  - rewrite Efm. apply Z.ltb_ge. exact (proj1 (rc_fm p H)).
Qed.

(* the same through set_fen / from_fen (the printed string is never the word "startpos": it contains a space) *)
Theorem fen_roundtrip_rights mode p : RTC p -> exists s, get_fen p = Some s /\ set_fen mode (is_frc p) s = Some p.
Proof.
  intros H. destruct (fen_roundtrip_rights_raw mode p H) as (s & Hg & Hs). exists s. split; [exact Hg|].
  unfold set_fen. destruct (str_eqb s STARTPOS_STR) eqn:E; [|exact Hs]. exfalso.
  apply str_eqb_eq' in E. subst s.
  unfold get_fen in Hg. destruct (fen_board _ _) as [b|]; [|discriminate]. cbn [obind] in Hg. injection Hg as Hg.
  assert (Hin : In 32 STARTPOS_STR).
  { rewrite <- Hg. apply in_or_app. right. destruct (turn p); left; reflexivity. }
  vm_compute in Hin. repeat destruct Hin as [Hin|Hin]; try discriminate Hin. exact Hin.
Qed.


(* ------------------------------------------------------------------ RTC from the engine's invariant *)
(* the move invariant Inv0 (Closure.v) gives the wing conditions of the held rights; what it does not say is that a
   right which is NOT held has its file at the parser's default *)
Lemma CasOK_of_Inv0 p : Inv0 p ->
  (us_ksc p = false -> cf0 p = 7) -> (us_qsc p = false -> cf1 p = 0) ->
  (them_ksc p = false -> cf2 p = 7) -> (them_qsc p = false -> cf3 p = 0) -> CasOK p.
Proof.
  intros I D0 D1 D2 D3. pose proof (i0_good p I) as G. destruct (g_cf p G) as (L0 & L1 & L2 & L3).
  pose proof (cg_k p (i0_cg p I)) as CK. pose proof (cg_q p (i0_cg p I)) as CQ.
  pose proof (i0_tk p I) as TK. pose proof (i0_tq p I) as TQ.
  assert (Ht : tksq p < 64).
  { unfold tksq. destruct (g_bb p G) as (_ & _ & _ & _ & _ & _ & _ & B8).
    apply AttackFacts.lsb_lt64; [apply land_lt_l; exact B8|apply popcount1_nonzero; exact (i0_tking p I)]. }
  unfold tksq in *. unfold CasOK, kfile, file_of. rewrite !(N.land_comm _ (kings p)). unfold sq_of in *.
  repeat split.
  - destruct (us_ksc p); [destruct (CK eq_refl) as [_ X]; lia|exact (D0 eq_refl)].
  - destruct (us_qsc p); [destruct (CQ eq_refl) as [_ X]; lia|exact (D1 eq_refl)].
  - destruct (them_ksc p); [destruct (TK eq_refl) as [_ X]; lia|exact (D2 eq_refl)].
  - destruct (them_qsc p); [destruct (TQ eq_refl) as [_ X]; lia|exact (D3 eq_refl)].
Qed.

Lemma RTC_of_Inv p : Inv p ->
  (us_ksc p = false -> cf0 p = 7) -> (us_qsc p = false -> cf1 p = 0) ->
  (them_ksc p = false -> cf2 p = 7) -> (them_qsc p = false -> cf3 p = 0) ->
  validate p = None -> (halfmoves p <= I32_MAX)%Z -> (fullmoves p <= I32_MAX)%Z -> RTC p.
Proof.
  intros I D0 D1 D2 D3 Hv Hh Hf. pose proof (Inv_Inv0 p I) as I0. pose proof (i0_good p I0) as G.
  pose proof (validate_sound p Hv) as V.
  repeat match type of V with _ /\ _ => let X := fresh "V" in destruct V as [X V] end.
  constructor.
  - exact (g_wf p G).
  - exact (g_bb p G).
  - exact (CasOK_of_Inv0 p I0 D0 D1 D2 D3).
  - exact Hv.
  - exact (kg_hash p (iv_kg p I)).
  - split; [assumption|exact Hh].
  - split; [lia|exact Hf].
  - intros e He. destruct (g_ep p G e He) as ((_ & L) & _). exact L.
Qed.

(* ------------------------------------------------------------------ non-vacuity *)
Example rtc_startpos : RTC startpos.
Proof.
  constructor.
  - apply KeyMove.WF_sound. vm_compute. reflexivity.
  - apply KeyMove.bb8_sound. vm_compute. reflexivity.
  - vm_compute. repeat split; try reflexivity; try discriminate.
  - vm_compute. reflexivity.
  - vm_compute. reflexivity.
  - vm_compute. split; discriminate.
  - vm_compute. split; discriminate.
  - intros e H. discriminate H.
Qed.

(* a Chess960 position whose castling rooks are the INNER rooks of their wings (White: rooks f1 h1, right on f1;
   Black: rooks b8 d8, right on d8), so both letters are Shredder file letters: "1r1rk3/8/8/8/8/8/8/2K2R1R w Fd - 0 1" *)
Definition FRC_STR_W : str := [49; 114; 49; 114; 107; 51; 47; 56; 47; 56; 47; 56; 47; 56; 47; 56; 47; 56; 47; 50; 75; 50; 82; 49; 82; 32; 119; 32; 70; 100; 32; 45; 32; 48; 32; 49].
Definition FRC_STR_B : str := [49; 114; 49; 114; 107; 51; 47; 56; 47; 56; 47; 56; 47; 56; 47; 56; 47; 56; 47; 50; 75; 50; 82; 49; 82; 32; 98; 32; 70; 100; 32; 45; 32; 48; 32; 49].
Definition frc_w : Position := match set_fen_raw true true FRC_STR_W with Some q => q | None => startpos end.
Definition frc_b : Position := match set_fen_raw true true FRC_STR_B with Some q => q | None => startpos end.

Ltac rtc_by_computation :=
  constructor;
  [ apply KeyMove.WF_sound; vm_compute; reflexivity
  | apply KeyMove.bb8_sound; vm_compute; reflexivity
  | vm_compute; repeat split; try reflexivity; try discriminate
  | vm_compute; reflexivity
  | vm_compute; reflexivity
  | vm_compute; split; discriminate
  | vm_compute; split; discriminate
  | intros e H; vm_compute in H; discriminate H ].

Example rtc_frc_w : RTC frc_w /\ us_ksc frc_w = true /\ them_qsc frc_w = true /\ cf0 frc_w = 5 /\ cf3 frc_w = 3
                    /\ get_fen frc_w = Some FRC_STR_W.
Proof. split; [rtc_by_computation|vm_compute; repeat split; reflexivity]. Qed.
(* the same with Black to move: the record is stored flipped, the rights and files change sides *)
Example rtc_frc_b : RTC frc_b /\ turn frc_b = true /\ them_ksc frc_b = true /\ us_qsc frc_b = true /\ cf2 frc_b = 5 /\ cf1 frc_b = 3
                    /\ get_fen frc_b = Some FRC_STR_B.
Proof. split; [rtc_by_computation|vm_compute; repeat split; reflexivity]. Qed.


(* ------------------------------------------------------------------ why the default-file clause is needed; the round trip modulo dead files *)
(* makemove keeps the file of a right that is lost, the parser starts from 7 0 7 0: after 1.Rf1-f2 in the Chess960 position
   above the record has no White king-side right but still the file 5; its FEN parses back with the file 7.  The two
   records differ in that (dead) field only. *)
Example stale_file_witness :
  let q := makemove true frc_w (mkMv 5 13 6) in
  existsb (fun x => (m_from x =? 5) && (m_to x =? 13) && (m_promo x =? 6)) (legal_moves frc_w) = true
  /\ validate q = None /\ hash q = calculate_hash q /\ them_ksc q = false /\ cf2 q = 5
  /\ match get_fen q with
     | Some s => match set_fen true true s with Some q' => cf2 q' = 7 | None => False end
     | None => False end.
Proof. vm_compute. repeat split; reflexivity. Qed.

(* the files of rights that are not held, reset to what the parser leaves there *)
Definition norm_files (p : Position) : Position :=
  mkPos (c_us p) (c_them p) (pawns p) (knights p) (bishops p) (rooks p) (queens p) (kings p)
        (halfmoves p) (fullmoves p) (turn p) (ep p) (us_ksc p) (us_qsc p) (them_ksc p) (them_qsc p)
        (if us_ksc p then cf0 p else 7) (if us_qsc p then cf1 p else 0)
        (if them_ksc p then cf2 p else 7) (if them_qsc p then cf3 p else 0) (hash p) (is_frc p).

Definition CasW (q : Position) : Prop :=
  (us_ksc q = true -> kfile (c_us q) (kings q) < cf0 q <= 7) /\
  (us_qsc q = true -> cf1 q < kfile (c_us q) (kings q)) /\
  (them_ksc q = true -> kfile (c_them q) (kings q) < cf2 q <= 7) /\
  (them_qsc q = true -> cf3 q < kfile (c_them q) (kings q)).

Record RTW (p : Position) : Prop := {
  rw_wf : WF p;
  rw_bb : HashFacts.BB8 p;
  rw_castle : CasW p;
  rw_valid : validate p = None;
  rw_hash : hash p = calculate_hash p;
  rw_hm : (0 <= halfmoves p <= I32_MAX)%Z;
  rw_fm : (0 <= fullmoves p <= I32_MAX)%Z;
  rw_ep : forall e, ep p = Some e -> e < 64
}.

Lemma fen_rank_ext q q' :
  c_us q = c_us q' -> c_them q = c_them q' -> pawns q = pawns q' -> knights q = knights q' -> bishops q = bishops q' ->
  rooks q = rooks q' -> queens q = queens q' -> kings q = kings q' -> turn q = turn q' ->
  forall y xs sp, fen_rank q y xs sp = fen_rank q' y xs sp.
Proof.
  intros E1 E2 E3 E4 E5 E6 E7 E8 E9 y.
  assert (Eo : occupied q = occupied q') by (unfold occupied; rewrite E1, E2; reflexivity).
  assert (Ep : forall s, piece_on q s = piece_on q' s) by (intros s; unfold piece_on; rewrite E3, E4, E5, E6, E7, E8; reflexivity).
  assert (Ec : forall s, colour_on q s = colour_on q' s) by (intros s; unfold colour_on; rewrite E1, E2, E9; reflexivity).
  induction xs as [|x t IH]; intros sp; cbn [fen_rank]; [reflexivity|].
  cbv zeta. rewrite Eo, Ep, Ec, !IH. reflexivity.
Qed.
Lemma fen_board_ext q q' :
  c_us q = c_us q' -> c_them q = c_them q' -> pawns q = pawns q' -> knights q = knights q' -> bishops q = bishops q' ->
  rooks q = rooks q' -> queens q = queens q' -> kings q = kings q' -> turn q = turn q' ->
  forall ys, fen_board q ys = fen_board q' ys.
Proof.
  intros E1 E2 E3 E4 E5 E6 E7 E8 E9. induction ys as [|y t IH]; cbn [fen_board]; [reflexivity|].
  rewrite (fen_rank_ext q q' E1 E2 E3 E4 E5 E6 E7 E8 E9), IH. reflexivity.
Qed.

Lemma get_fen_norm p : get_fen (norm_files p) = get_fen p.
Proof.
  destruct p as [us th pw kn bi ro qu ki hm fm t e uk uq tk tq f0 f1 f2 f3 h frc]. unfold norm_files, get_fen.
  cbn [c_us c_them pawns knights bishops rooks queens kings halfmoves fullmoves turn ep us_ksc us_qsc them_ksc them_qsc cf0 cf1 cf2 cf3 hash is_frc].
  destruct t; unfold flip;
    cbn [c_us c_them pawns knights bishops rooks queens kings halfmoves fullmoves turn ep us_ksc us_qsc them_ksc them_qsc cf0 cf1 cf2 cf3 hash is_frc].
  - match goal with |- obind (fen_board ?A ?l) _ = obind (fen_board ?B _) _ =>
      rewrite (fen_board_ext A B eq_refl eq_refl eq_refl eq_refl eq_refl eq_refl eq_refl eq_refl eq_refl l) end.
    destruct uk, uq, tk, tq; reflexivity.
  - match goal with |- obind (fen_board ?A ?l) _ = obind (fen_board ?B _) _ =>
      rewrite (fen_board_ext A B eq_refl eq_refl eq_refl eq_refl eq_refl eq_refl eq_refl eq_refl eq_refl l) end.
    destruct uk, uq, tk, tq; reflexivity.
Qed.

Lemma validate_norm p : validate (norm_files p) = validate p.
Proof.
  destruct p as [us th pw kn bi ro qu ki hm fm t e uk uq tk tq f0 f1 f2 f3 h frc]. unfold norm_files.
  cbn [c_us c_them pawns knights bishops rooks queens kings halfmoves fullmoves turn ep us_ksc us_qsc them_ksc them_qsc cf0 cf1 cf2 cf3 hash is_frc].
  destruct uk, uq, tk, tq; reflexivity.
Qed.

Lemma RTW_RTC p : RTW p -> RTC (norm_files p).
Proof.
  intros [Hw Hb (HK & HQ & Hk & Hq) Hv Hh Hhm Hfm Hep]. constructor.
  - exact Hw.
  - exact Hb.
  - unfold CasOK, norm_files. cbn [c_us c_them kings us_ksc us_qsc them_ksc them_qsc cf0 cf1 cf2 cf3].
    repeat split.
    + destruct (us_ksc p); [exact (HK eq_refl)|reflexivity].
    + destruct (us_qsc p); [exact (HQ eq_refl)|reflexivity].
    + destruct (them_ksc p); [exact (Hk eq_refl)|reflexivity].
    + destruct (them_qsc p); [exact (Hq eq_refl)|reflexivity].
  - rewrite validate_norm. exact Hv.
  - exact Hh.
  - exact Hhm.
  - exact Hfm.
  - exact Hep.
Qed.

(* for every valid position whose held rights sit on the proper wing (whatever the dead files are): the printed FEN parses
   back to the position with the dead files reset; every other field, the key included, is the same *)
Theorem fen_roundtrip_modulo_dead_files mode p : RTW p ->
  exists s, get_fen p = Some s /\ set_fen mode (is_frc p) s = Some (norm_files p).
Proof.
  intros H. destruct (fen_roundtrip_rights mode (norm_files p) (RTW_RTC p H)) as (s & Hg & Hs).
  exists s. rewrite get_fen_norm in Hg. split; [exact Hg|exact Hs].
Qed.

Lemma norm_files_id p : CasOK p -> norm_files p = p.
Proof.
  intros (HK & HQ & Hk & Hq). destruct p as [us th pw kn bi ro qu ki hm fm t e uk uq tk tq f0 f1 f2 f3 h frc]. unfold norm_files.
  cbn [c_us c_them pawns knights bishops rooks queens kings halfmoves fullmoves turn ep us_ksc us_qsc them_ksc them_qsc cf0 cf1 cf2 cf3 hash is_frc] in *.
  destruct uk, uq, tk, tq; subst; reflexivity.
Qed.

Print Assumptions castle_field_roundtrip.
Print Assumptions fen_roundtrip_rights.
Print Assumptions fen_roundtrip_modulo_dead_files.
