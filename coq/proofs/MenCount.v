(* C17/C03/C14: no side ever has more than 16 men -- the count of either colour never grows under a generated move or a
   null move -- so the numeric bound of the evaluation (BoundFacts.eval_bounded) holds on every position reachable by
   generated legal moves and null moves from a position satisfying the invariant of Closure.v. *)
From Coq Require Import NArith ZArith List Bool Lia ZifyN ZifyBool.
From Rawr Require Import Consts Bits Magic Position MoveGen MakeMove MakeStages Eval Rules Abs
                         BitsFacts ShiftFacts FlipFacts AbsFacts LsbFacts HashFacts MakeFacts MakeAbs CastleFacts CastleAbs KeyAbs KeyMove
                         AttackFacts BoundFacts CountFacts GenSane GenNoDup NotationFacts NoKingCapture Closure ClosureNull.
Import ListNotations.
Local Open Scope N_scope.
Ltac Zify.zify_post_hook ::= Z.div_mod_to_equations.

(* ------------------------------------------------------------------ counting bits *)
Lemma TWO64_pow : TWO64 = 2 ^ N.of_nat 64. Proof. reflexivity. Qed.

Lemma popcount_mono x y : x < TWO64 -> y < TWO64 -> (forall j, N.testbit x j = true -> N.testbit y j = true) -> popcount x <= popcount y.
Proof.
  intros Hx Hy H. rewrite (popcount_bitsum 64 x), (popcount_bitsum 64 y) by (rewrite <- TWO64_pow; assumption).
  apply bitsum_le. exact H.
Qed.

Lemma ldiff_lt y z : y < TWO64 -> N.ldiff y z < TWO64.
Proof.
  intros Hy. apply testbit_lt64. intros i Hi. rewrite N.ldiff_spec.
  destruct (N.testbit y i) eqn:E; [|reflexivity]. pose proof (testbit_lt y i Hy E). lia.
Qed.

Lemma popcount_clear y f : y < TWO64 -> f < 64 -> N.testbit y f = true -> popcount y = popcount (N.ldiff y (bit f)) + 1.
Proof.
  intros Hy Hf Hb.
  assert (E : y = N.lor (N.ldiff y (bit f)) (bit f)).
  { apply N.bits_inj. intros j. rewrite N.lor_spec, N.ldiff_spec, (testbit_bit f j Hf).
    destruct (N.eqb_spec j f) as [->|]; [rewrite Hb; reflexivity|rewrite andb_true_r, orb_false_r; reflexivity]. }
  rewrite E at 1. rewrite popcount_lor_disjoint.
  - rewrite (proj1 (bit_facts f Hf)). reflexivity.
  - apply ldiff_lt. exact Hy.
  - apply bit_lt.
  - apply N.bits_inj. intros j. rewrite N.land_spec, N.ldiff_spec, N.bits_0. destruct (N.testbit (bit f) j); [rewrite andb_false_r|rewrite andb_false_r]; reflexivity.
Qed.

Lemma popcount_set z t : z < TWO64 -> t < 64 -> popcount (N.lor z (bit t)) <= popcount z + 1.
Proof.
  intros Hz Ht.
  assert (E : N.lor z (bit t) = N.lor z (N.ldiff (bit t) z)).
  { apply N.bits_inj. intros j. rewrite !N.lor_spec, N.ldiff_spec. destruct (N.testbit z j), (N.testbit (bit t) j); reflexivity. }
  rewrite E, popcount_lor_disjoint.
  - assert (popcount (N.ldiff (bit t) z) <= popcount (bit t)).
    { apply popcount_mono; [apply ldiff_lt, bit_lt|apply bit_lt|]. intros j. rewrite N.ldiff_spec. intros H. apply andb_true_iff in H. exact (proj1 H). }
    rewrite (proj1 (bit_facts t Ht)) in H. lia.
  - exact Hz.
  - apply ldiff_lt, bit_lt.
  - apply N.bits_inj. intros j. rewrite N.land_spec, N.ldiff_spec, N.bits_0. destruct (N.testbit z j), (N.testbit (bit t) j); reflexivity.
Qed.

(* one man moves from f to t (t may have been occupied): the count does not grow *)
Lemma popcount_move x y f t : x < TWO64 -> y < TWO64 -> f < 64 -> t < 64 -> N.testbit y f = true ->
  (forall j, N.testbit x j = true -> j = t \/ (j <> f /\ N.testbit y j = true)) -> popcount x <= popcount y.
Proof.
  intros Hx Hy Hf Ht Hyf Hsub.
  rewrite (popcount_clear y f Hy Hf Hyf).
  apply (N.le_trans _ (popcount (N.lor (N.ldiff y (bit f)) (bit t)))); [|apply popcount_set; [apply ldiff_lt; exact Hy|exact Ht]].
  apply popcount_mono; [exact Hx|apply lor_lt; [apply ldiff_lt; exact Hy|apply bit_lt]|].
  intros j Hj. rewrite N.lor_spec, N.ldiff_spec, !(testbit_bit _ j) by assumption.
  destruct (Hsub j Hj) as [->|(Hne & Hyj)]; [rewrite N.eqb_refl; apply orb_true_r|].
  rewrite Hyj. destruct (N.eqb_spec j f); [contradiction|reflexivity].
Qed.

Lemma popcount_move2 x y f1 f2 t1 t2 : x < TWO64 -> y < TWO64 -> f1 < 64 -> f2 < 64 -> t1 < 64 -> t2 < 64 -> f1 <> f2 ->
  N.testbit y f1 = true -> N.testbit y f2 = true ->
  (forall j, N.testbit x j = true -> j = t1 \/ j = t2 \/ (j <> f1 /\ j <> f2 /\ N.testbit y j = true)) -> popcount x <= popcount y.
Proof.
  intros Hx Hy Hf1 Hf2 Ht1 Ht2 Hne H1 H2 Hsub.
  set (z := N.ldiff (N.ldiff y (bit f1)) (bit f2)).
  assert (Hz : z < TWO64) by (apply ldiff_lt, ldiff_lt; exact Hy).
  assert (Ey : popcount y = popcount z + 2).
  { rewrite (popcount_clear y f1 Hy Hf1 H1), (popcount_clear (N.ldiff y (bit f1)) f2 (ldiff_lt _ _ Hy) Hf2).
    - fold z. lia.
    - rewrite N.ldiff_spec, H2, (testbit_bit f1 f2 Hf1). destruct (N.eqb_spec f2 f1); [congruence|reflexivity]. }
  assert (Hle : popcount (N.lor (N.lor z (bit t1)) (bit t2)) <= popcount z + 2).
  { pose proof (popcount_set (N.lor z (bit t1)) t2 (lor_lt _ _ Hz (bit_lt t1)) Ht2). pose proof (popcount_set z t1 Hz Ht1). lia. }
  apply (N.le_trans _ (popcount (N.lor (N.lor z (bit t1)) (bit t2)))); [|lia].
  apply popcount_mono; [exact Hx|apply lor_lt; [apply lor_lt; [exact Hz|apply bit_lt]|apply bit_lt]|].
  intros j Hj. unfold z. rewrite !N.lor_spec, !N.ldiff_spec, !(testbit_bit _ j) by assumption.
  destruct (Hsub j Hj) as [->|[->|(N1 & N2 & Hyj)]].
  - rewrite N.eqb_refl, orb_true_r. reflexivity.
  - rewrite N.eqb_refl, orb_true_r. reflexivity.
  - rewrite Hyj. destruct (N.eqb_spec j f1); [contradiction|]. destruct (N.eqb_spec j f2); [contradiction|]. reflexivity.
Qed.

(* ------------------------------------------------------------------ the structure of a well-formed position *)
Lemma WF_men q : WF q -> HashFacts.BB8 q ->
  pieces_disjoint q /\ N.land (c_us q) (c_them q) = 0
  /\ N.lor (c_us q) (c_them q) = N.lor (N.lor (N.lor (pawns q) (knights q)) (N.lor (bishops q) (rooks q))) (N.lor (queens q) (kings q)).
Proof.
  intros HW HB. pose proof HB as (B1 & B2 & B3 & B4 & B5 & B6 & B7 & B8).
  assert (Hpair : forall i j X Y, i <= 5 -> j <= 5 -> i <> j -> X = get_piece q i -> Y = get_piece q j -> X < TWO64 -> N.land X Y = 0).
  { intros i j X Y Hi Hj Hne -> -> HX. apply N.bits_inj. intros s. rewrite N.land_spec, N.bits_0.
    destruct (N.ltb_spec s 64) as [Hs|Hs].
    - change (pb q i s && pb q j s = false). destruct (HW s Hs) as [(_ & _ & Hp)|(t & k & (_ & _ & _ & Hp))].
      + rewrite (Hp i Hi). reflexivity.
      + rewrite (Hp i Hi), (Hp j Hj). destruct (N.eqb_spec i k), (N.eqb_spec j k); try reflexivity. congruence.
    - destruct (N.testbit (get_piece q i) s) eqn:E; [|reflexivity]. pose proof (testbit_lt _ s HX E). lia. }
  split; [|split].
  - unfold pieces_disjoint.
    repeat split.
    + apply (Hpair 0 1); [lia|lia|lia|reflexivity|reflexivity|exact B3].
    + apply (Hpair 0 2); [lia|lia|lia|reflexivity|reflexivity|exact B3].
    + apply (Hpair 0 3); [lia|lia|lia|reflexivity|reflexivity|exact B3].
    + apply (Hpair 0 4); [lia|lia|lia|reflexivity|reflexivity|exact B3].
    + apply (Hpair 0 5); [lia|lia|lia|reflexivity|reflexivity|exact B3].
    + apply (Hpair 1 2); [lia|lia|lia|reflexivity|reflexivity|exact B4].
    + apply (Hpair 1 3); [lia|lia|lia|reflexivity|reflexivity|exact B4].
    + apply (Hpair 1 4); [lia|lia|lia|reflexivity|reflexivity|exact B4].
    + apply (Hpair 1 5); [lia|lia|lia|reflexivity|reflexivity|exact B4].
    + apply (Hpair 2 3); [lia|lia|lia|reflexivity|reflexivity|exact B5].
    + apply (Hpair 2 4); [lia|lia|lia|reflexivity|reflexivity|exact B5].
    + apply (Hpair 2 5); [lia|lia|lia|reflexivity|reflexivity|exact B5].
    + apply (Hpair 3 4); [lia|lia|lia|reflexivity|reflexivity|exact B6].
    + apply (Hpair 3 5); [lia|lia|lia|reflexivity|reflexivity|exact B6].
    + apply (Hpair 4 5); [lia|lia|lia|reflexivity|reflexivity|exact B7].
  - exact (WF_disjoint q HW HB).
  - apply N.bits_inj. intros s. rewrite !N.lor_spec.
    destruct (N.ltb_spec s 64) as [Hs|Hs].
    + change (ub q s || tb q s = pb q 0 s || pb q 1 s || (pb q 2 s || pb q 3 s) || (pb q 4 s || pb q 5 s)).
      destruct (HW s Hs) as [(Hu & Ht & Hp)|(t & k & (Hk & Hu & Ht & Hp))].
      * rewrite Hu, Ht, !Hp by lia. reflexivity.
      * rewrite Hu, Ht, !Hp by lia. replace (negb t || t) with true by (destruct t; reflexivity).
        assert (Hc : k = 0 \/ k = 1 \/ k = 2 \/ k = 3 \/ k = 4 \/ k = 5) by lia.
        destruct Hc as [->|[->|[->|[->|[->| ->]]]]]; reflexivity.
    + assert (Hf : forall X, X < TWO64 -> N.testbit X s = false).
      { intros X HX. destruct (N.testbit X s) eqn:E; [|reflexivity]. pose proof (testbit_lt _ s HX E). lia. }
      rewrite !Hf by assumption. reflexivity.
Qed.

(* ------------------------------------------------------------------ the counts never grow *)
Lemma flip_eq j a : j < 64 -> a = flip_sq j -> j = flip_sq a.
Proof. intros _ ->. rewrite flip_sq_invol. reflexivity. Qed.

Section NCcount.
Variables (u : bool) (p : Position) (m : Mv) (k : N).
Hypothesis S : sane p m k.
Hypothesis I : Inv0 p.
Let R := makemove u p m.
Let G := i0_good p I.

Lemma nc_their_count : popcount (c_us R) <= popcount (c_them p).
Proof.
  unfold R. destruct (g_bb p G) as (B1 & B2 & _). destruct (BB8_R u p m) as (R1 & R2 & _).
  rewrite <- (popcount_bswap (c_them p) B2). apply popcount_mono; [exact R1|apply bswap_lt|].
  intros j Hj. pose proof (testbit_lt _ j R1 Hj) as Hj64. rewrite testbit_bswap. apply N.ltb_lt in Hj64. rewrite Hj64. cbn [andb]. apply N.ltb_lt in Hj64.
  change (flipbit j) with (flip_sq j). set (a := flip_sq j). assert (Ha : a < 64) by (apply flip_sq_lt; exact Hj64).
  assert (Ej : j = flip_sq a) by (unfold a; rewrite flip_sq_invol; reflexivity).
  change (ub (makemove u p m) j = true) in Hj. rewrite Ej in Hj. change (tb p a = true).
  destruct (rview_all u p m k S I a Ha) as [E He|E Hh|Hb E He|N2 Hpe He|t j0 N1 N2 N3 Hh Hr].
  - destruct He as (Hu & _). congruence.
  - destruct Hh as (_ & Hu & _). cbn [negb] in Hu. congruence.
  - destruct He as (Hu & _). congruence.
  - destruct He as (Hu & _). congruence.
  - destruct Hr as (_ & Hu & _). destruct Hh as (_ & _ & Ht & _). rewrite Hu in Hj. destruct t; [exact Ht|discriminate].
Qed.

Lemma nc_our_count : popcount (c_them R) <= popcount (c_us p).
Proof.
  unfold R. destruct (g_bb p G) as (B1 & B2 & _). destruct (BB8_R u p m) as (R1 & R2 & _).
  pose proof (sn_from _ _ _ S) as Hf. pose proof (sn_to _ _ _ S) as Ht.
  rewrite <- (popcount_bswap (c_us p) B1).
  apply (popcount_move (c_them (makemove u p m)) (bswap (c_us p)) (flip_sq (m_from m)) (flip_sq (m_to m)) R2 (bswap_lt _) (flip_sq_lt _ Hf) (flip_sq_lt _ Ht)).
  - rewrite testbit_bswap. pose proof (flip_sq_lt _ Hf) as L. apply N.ltb_lt in L. rewrite L. cbn [andb].
    change (flipbit (flip_sq (m_from m))) with (flip_sq (flip_sq (m_from m))). rewrite flip_sq_invol.
    destruct (sn_mover _ _ _ S) as (_ & Hu & _). exact Hu.
  - intros j Hj. pose proof (testbit_lt _ j R2 Hj) as Hj64.
    set (a := flip_sq j). assert (Ha : a < 64) by (apply flip_sq_lt; exact Hj64).
    assert (Ej : j = flip_sq a) by (unfold a; rewrite flip_sq_invol; reflexivity).
    change (tb (makemove u p m) j = true) in Hj. rewrite Ej in Hj.
    destruct (rview_all u p m k S I a Ha) as [E He|E Hh|Hb E He|N2 Hpe He|t j0 N1 N2 N3 Hh Hr].
    + destruct He as (_ & Ht' & _). congruence.
    + left. rewrite Ej, E. reflexivity.
    + destruct He as (_ & Ht' & _). congruence.
    + destruct He as (_ & Ht' & _). congruence.
    + right. destruct Hr as (_ & _ & Ht' & _). destruct Hh as (_ & Hu & _). rewrite Ht' in Hj. destruct t; [discriminate|]. cbn [negb] in Hu.
      split.
      * intros E. apply N1. rewrite Ej in E. apply (f_equal flip_sq) in E. rewrite !flip_sq_invol in E. exact E.
      * rewrite testbit_bswap. apply N.ltb_lt in Hj64. rewrite Hj64. exact Hu.
Qed.
End NCcount.

Section CAcount.
Variables (u : bool) (p : Position) (m : Mv) (kside : bool).
Hypothesis S : csane p m kside.
Hypothesis I : Inv0 p.
Let R := makemove u p m.
Let G := i0_good p I.

Lemma ca_their_count : popcount (c_us R) <= popcount (c_them p).
Proof.
  unfold R. destruct (g_bb p G) as (B1 & B2 & _). destruct (BB8_R u p m) as (R1 & R2 & _).
  rewrite <- (popcount_bswap (c_them p) B2). apply popcount_mono; [exact R1|apply bswap_lt|].
  intros j Hj. pose proof (testbit_lt _ j R1 Hj) as Hj64. rewrite testbit_bswap. apply N.ltb_lt in Hj64. rewrite Hj64. cbn [andb]. apply N.ltb_lt in Hj64.
  change (flipbit j) with (flip_sq j). set (a := flip_sq j). assert (Ha : a < 64) by (apply flip_sq_lt; exact Hj64).
  assert (Ej : j = flip_sq a) by (unfold a; rewrite flip_sq_invol; reflexivity).
  change (ub (makemove u p m) j = true) in Hj. rewrite Ej in Hj. change (tb p a = true).
  destruct (cview_all u p m kside S I a Ha) as [E Hh|E Hh|E N3 N4 He|N1 N2 N3 N4 Hpe He|t j0 N1 N2 N3 N4 Hh Hr].
  - destruct Hh as (_ & Hu & _). cbn [negb] in Hu. congruence.
  - destruct Hh as (_ & Hu & _). cbn [negb] in Hu. congruence.
  - destruct He as (Hu & _). congruence.
  - destruct He as (Hu & _). congruence.
  - destruct Hr as (_ & Hu & _). destruct Hh as (_ & _ & Ht & _). rewrite Hu in Hj. destruct t; [exact Ht|discriminate].
Qed.

Lemma ca_our_count : popcount (c_them R) <= popcount (c_us p).
Proof.
  unfold R. destruct (g_bb p G) as (B1 & B2 & _). destruct (BB8_R u p m) as (R1 & R2 & _).
  pose proof (cs_from64 p m kside S) as Hf. pose proof (cs_to64 p m kside S) as Ht.
  pose proof (kt64 p m kside S) as Hk. pose proof (rt64 p m kside S) as Hr.
  rewrite <- (popcount_bswap (c_us p) B1).
  assert (Hbit : forall s, s < 64 -> N.testbit (bswap (c_us p)) (flip_sq s) = ub p s).
  { intros s Hs. rewrite testbit_bswap. pose proof (flip_sq_lt _ Hs) as L. apply N.ltb_lt in L. rewrite L. cbn [andb].
    change (flipbit (flip_sq s)) with (flip_sq (flip_sq s)). rewrite flip_sq_invol. reflexivity. }
  apply (popcount_move2 (c_them (makemove u p m)) (bswap (c_us p)) (flip_sq (m_from m)) (flip_sq (m_to m)) (flip_sq (c_kt kside)) (flip_sq (c_rt kside)) R2 (bswap_lt _)
           (flip_sq_lt _ Hf) (flip_sq_lt _ Ht) (flip_sq_lt _ Hk) (flip_sq_lt _ Hr)).
  - intros E. apply (cs_ne _ _ _ S). apply (f_equal flip_sq) in E. rewrite !flip_sq_invol in E. exact E.
  - rewrite (Hbit _ Hf). destruct (cs_king _ _ _ S) as (_ & Hu & _). exact Hu.
  - rewrite (Hbit _ Ht). destruct (cs_rook _ _ _ S) as (_ & Hu & _). exact Hu.
  - intros j Hj. pose proof (testbit_lt _ j R2 Hj) as Hj64.
    set (a := flip_sq j). assert (Ha : a < 64) by (apply flip_sq_lt; exact Hj64).
    assert (Ej : j = flip_sq a) by (unfold a; rewrite flip_sq_invol; reflexivity).
    change (tb (makemove u p m) j = true) in Hj. rewrite Ej in Hj.
    destruct (cview_all u p m kside S I a Ha) as [E Hh|E Hh|E N3 N4 He|N1 N2 N3 N4 Hpe He|t j0 N1 N2 N3 N4 Hh Hr'].
    + left. rewrite Ej, E. reflexivity.
    + right. left. rewrite Ej, E. reflexivity.
    + destruct He as (_ & Ht' & _). congruence.
    + destruct He as (_ & Ht' & _). congruence.
    + right. right. destruct Hr' as (_ & _ & Ht' & _). destruct Hh as (_ & Hu & _). rewrite Ht' in Hj. destruct t; [discriminate|]. cbn [negb] in Hu.
      split; [|split].
      * intros E. apply N1. rewrite Ej in E. apply (f_equal flip_sq) in E. rewrite !flip_sq_invol in E. exact E.
      * intros E. apply N2. rewrite Ej in E. apply (f_equal flip_sq) in E. rewrite !flip_sq_invol in E. exact E.
      * rewrite Ej, (Hbit a Ha). exact Hu.
Qed.
End CAcount.

(* ------------------------------------------------------------------ the invariant with the counts, and the evaluation bound *)
Record Inv16 (p : Position) : Prop := {
  i16_inv : Inv0 p;
  i16_us : (zpop (c_us p) <= 16)%Z;
  i16_them : (zpop (c_them p) <= 16)%Z
}.

Theorem inv16_step u p m : Inv16 p -> In m (legal_moves p) -> in_check_them (makemove u p m) = false -> Inv16 (makemove u p m).
Proof.
  intros [I Hu Ht] Hm Hl. constructor; [exact (inv0_step u p m I Hm Hl)| |].
  all: pose proof (i0_good p I) as G; pose proof (i0_cg p I) as CG;
       unfold legal_moves in Hm; apply in_map_iff in Hm; destruct Hm as (g & <- & Hg);
       destruct (generated_move_cases p g G Hg) as [(S & _)|[H|H]].
  - pose proof (nc_their_count u p (gen_mv g) (gk g) S I). unfold zpop in *. lia.
  - destruct (castle_block_k p G CG g H) as (S & _). pose proof (ca_their_count u p (gen_mv g) true S I). unfold zpop in *. lia.
  - destruct (castle_block_q p G CG g H) as (S & _). pose proof (ca_their_count u p (gen_mv g) false S I). unfold zpop in *. lia.
  - pose proof (nc_our_count u p (gen_mv g) (gk g) S I). unfold zpop in *. lia.
  - destruct (castle_block_k p G CG g H) as (S & _). pose proof (ca_our_count u p (gen_mv g) true S I). unfold zpop in *. lia.
  - destruct (castle_block_q p G CG g H) as (S & _). pose proof (ca_our_count u p (gen_mv g) false S I). unfold zpop in *. lia.
Qed.

Theorem inv16_men p : Inv16 p -> Men16 p.
Proof.
  intros [I Hu Ht]. pose proof (i0_good p I) as G. destruct (WF_men p (g_wf p G) (g_bb p G)) as (Hpd & Hd & Hocc).
  unfold Men16. split; [exact (g_bb p G)|]. split; [exact Hpd|]. split; [exact Hd|]. split; [exact Hocc|]. split; [exact Hu|exact Ht].
Qed.

Theorem inv16_eval p : Inv16 p -> (Z.abs (eval p) <= 400000)%Z.
Proof. intros H. apply eval_bounded, inv16_men, H. Qed.

(* with the stored key as well: what the main search keeps *)
Record InvS (p : Position) : Prop := {
  is_inv : Inv p;
  is_us : (zpop (c_us p) <= 16)%Z;
  is_them : (zpop (c_them p) <= 16)%Z
}.
Lemma InvS_16 p : InvS p -> Inv16 p.
Proof. intros [I Hu Ht]. constructor; [exact (Inv_Inv0 p I)|exact Hu|exact Ht]. Qed.

Theorem invS_step p m : InvS p -> In m (legal_moves p) -> in_check_them (makemove true p m) = false -> InvS (makemove true p m).
Proof.
  intros H Hm Hl. destruct (inv16_step true p m (InvS_16 p H) Hm Hl) as [_ Hu Ht].
  constructor; [exact (inv_step p m (is_inv p H) Hm Hl)|exact Hu|exact Ht].
Qed.

Lemma null_boards p : c_us (makenull p) = bswap (c_them p) /\ c_them (makenull p) = bswap (c_us p).
Proof. unfold makenull. cbv zeta. cbn. split; reflexivity. Qed.

Theorem invS_null p : InvS p -> in_check_them (makenull p) = false -> InvS (makenull p).
Proof.
  intros [I Hu Ht] Hs. destruct (null_boards p) as (E1 & E2). destruct (g_bb p (iv_good p I)) as (B1 & B2 & _).
  constructor; [exact (null_inv p I Hs)| |].
  - unfold zpop in *. rewrite E1, (popcount_bswap _ B2). exact Ht.
  - unfold zpop in *. rewrite E2, (popcount_bswap _ B1). exact Hu.
Qed.

Theorem invS_eval p : InvS p -> (Z.abs (eval p) <= 400000)%Z.
Proof. intros H. exact (inv16_eval p (InvS_16 p H)). Qed.

Theorem invs_b_sound p : invs_b p = true -> InvS p.
Proof.
  unfold invs_b. intros H. apply andb_true_iff in H. destruct H as [H H2]. apply andb_true_iff in H. destruct H as [H H1].
  apply N.leb_le in H1, H2. constructor; [exact (inv_b_sound p H)| |]; unfold zpop; lia.
Qed.
