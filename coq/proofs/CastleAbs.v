(* C02 (move clause), part 4: a castling move refines Rules.apply -- all nine components of the specification state. *)
From Coq Require Import NArith ZArith List Bool Lia ZifyN ZifyBool.
From Rawr Require Import Consts Bits Magic Position MoveGen MakeMove MakeStages Rules Abs BitsFacts FlipFacts AbsFacts
                         MakeFacts MakeAbs CastleFacts LsbFacts.
Import ListNotations.
Local Open Scope N_scope.
Ltac Zify.zify_post_hook ::= Z.div_mod_to_equations.

(* ------------------------------------------------------------------ facts that only need "our man of kind k on the origin" *)
Section Mover.
Variables (p0 : Position) (m : Mv) (k : N).
Hypotheses (Hf : m_from m < 64) (Ht : m_to m < 64) (Hm : holds p0 (m_from m) false k).
Hypothesis Hku : popcount (N.land (c_us p0) (kings p0)) = 1.
Let from := m_from m.
Let to := m_to m.
Let sp := abs_state p0.
Let sm := dec p0 m.
Let c := colour_of_turn (turn p0).

Lemma mover_is0 : at_ (s_board sp) (mf sm) (mr sm) = Some (c, kind_of_N k).
Proof.
  unfold sp, sm, abs_state, dec. cbn [s_board mf mr]. rewrite at_board by (apply rel_sq_lt; exact Hf).
  rewrite (man_at_holds p0 (rel_sq p0 (m_from m)) false k).
  - rewrite xorb_false_r. reflexivity.
  - rewrite rel_sq_invol. exact Hm.
Qed.

Lemma from_is_king0 : (from =? lsb (N.land (c_us p0) (kings p0))) = (k =? KING).
Proof.
  destruct Hm as (Hk & Hu & _ & Hp). fold from in Hu, Hp.
  destruct (N.eqb_spec k KING) as [E|E].
  - apply N.eqb_eq. apply lsb_unique; [exact Hku|].
    rewrite N.land_spec. change (ub p0 from && pb p0 5 from = true). rewrite Hu, (Hp 5) by lia. rewrite E. reflexivity.
  - apply N.eqb_neq. intros E'. apply E.
    pose proof (lsb_set _ (popcount1_nonzero _ Hku)) as Hs. rewrite <- E', N.land_spec in Hs.
    apply andb_true_iff in Hs. destruct Hs as [_ Hs]. change (pb p0 5 from = true) in Hs. rewrite (Hp 5) in Hs by lia.
    apply N.eqb_eq in Hs. unfold KING. lia.
Qed.

Lemma from_not_their_king0 : (from =? lsb (N.land (c_them p0) (kings p0))) = false.
Proof.
  apply N.eqb_neq. intros E.
  destruct Hm as (_ & _ & Htb & _). fold from in Htb.
  destruct (N.eq_dec (N.land (c_them p0) (kings p0)) 0) as [Z|NZ].
  - rewrite Z in E. cbn in E. unfold from in E. lia.
  - pose proof (lsb_set _ NZ) as Hs. rewrite <- E, N.land_spec in Hs. apply andb_true_iff in Hs.
    destruct Hs as [Hs _]. change (tb p0 from = true) in Hs. rewrite Htb in Hs. discriminate.
Qed.

Lemma king_moves_is0 : is_man (s_turn sp) King (at_ (s_board sp) (mf sm) (mr sm)) = (k =? KING).
Proof.
  rewrite mover_is0. cbn [is_man]. replace (s_turn sp) with c by reflexivity.
  rewrite colour_refl. cbn [andb]. apply kind_king. exact (proj1 Hm).
Qed.

Lemma right_mover0 flag cf : cf <= 7 ->
  (if is_man (s_turn sp) King (at_ (s_board sp) (mf sm) (mr sm)) && colour_eqb c (s_turn sp) then None
   else lose (lose (right_of flag cf) c (mf sm) (mr sm)) c (tf sm) (tr sm))
  = right_of (keeps_right flag from to (lsb (N.land (c_us p0) (kings p0))) (sq_of cf 0)) cf.
Proof.
  intros Hc. rewrite king_moves_is0. replace (s_turn sp) with c by reflexivity. rewrite colour_refl, andb_true_r.
  unfold keeps_right. rewrite from_is_king0.
  destruct (k =? KING); cbn [negb].
  - rewrite andb_false_r. cbn [andb]. destruct flag; reflexivity.
  - rewrite andb_true_r. unfold sm, dec. cbn [mf mr tf tr]. fold from to.
    replace c with (colour_of_turn (xorb (turn p0) false)) by (rewrite xorb_false_r; reflexivity).
    rewrite (lose_rel p0 flag cf from false) by (exact Hf || exact Hc).
    rewrite (lose_rel p0 _ cf to false) by (exact Ht || exact Hc).
    reflexivity.
Qed.

Lemma right_other0 flag cf : cf <= 7 ->
  (if is_man (s_turn sp) King (at_ (s_board sp) (mf sm) (mr sm)) && colour_eqb (opp c) (s_turn sp) then None
   else lose (lose (right_of flag cf) (opp c) (mf sm) (mr sm)) (opp c) (tf sm) (tr sm))
  = right_of (keeps_right flag from to (lsb (N.land (c_them p0) (kings p0))) (sq_of cf 7)) cf.
Proof.
  intros Hc. replace (s_turn sp) with c by reflexivity.
  replace (colour_eqb (opp c) c) with false by (unfold c; destruct (turn p0); reflexivity).
  rewrite andb_false_r.
  unfold keeps_right. rewrite from_not_their_king0. cbn [negb]. rewrite andb_true_r.
  unfold sm, dec. cbn [mf mr tf tr]. fold from to.
  replace (opp c) with (colour_of_turn (xorb (turn p0) true)) by (unfold c; destruct (turn p0); reflexivity).
  rewrite (lose_rel p0 flag cf from true) by (exact Hf || exact Hc).
  rewrite (lose_rel p0 _ cf to true) by (exact Ht || exact Hc).
  reflexivity.
Qed.
End Mover.

(* ------------------------------------------------------------------ the castling move *)
Section CastleRefine.
Variables (u : bool) (p0 : Position) (m : Mv) (kside : bool).
Hypothesis S : csane p0 m kside.
Hypothesis Hdis : colours_disjoint p0.
Hypothesis Hku : popcount (N.land (c_us p0) (kings p0)) = 1.
Hypothesis Hcf : cf0 p0 <= 7 /\ cf1 p0 <= 7 /\ cf2 p0 <= 7 /\ cf3 p0 <= 7.
Let from := m_from m.
Let to := m_to m.
Let kt := c_kt kside.
Let rt := c_rt kside.
Let Q := mv_boards u p0 m.
Let sp := abs_state p0.
Let sm := dec p0 m.
Let c := colour_of_turn (turn p0).

Lemma Hf64 : from < 64. Proof. exact (cs_from64 p0 m kside S). Qed.
Lemma Ht64 : to < 64. Proof. exact (cs_to64 p0 m kside S). Qed.

Lemma inv_dec s : (s = from \/ s = to \/ s = kt \/ s = rt) \/ (s <> from /\ s <> to /\ s <> kt /\ s <> rt).
Proof.
  destruct (N.eq_dec s from); [left; left; assumption|].
  destruct (N.eq_dec s to); [left; right; left; assumption|].
  destruct (N.eq_dec s kt); [left; right; right; left; assumption|].
  destruct (N.eq_dec s rt); [left; right; right; right; assumption|].
  right. repeat split; assumption.
Qed.

Lemma cQ_disjoint : colours_disjoint Q.
Proof.
  unfold colours_disjoint. apply N.bits_inj. intros s. rewrite N.land_spec, N.bits_0.
  change (ub Q s && tb Q s = false).
  destruct (inv_dec s) as [Hi|(N1 & N2 & N3 & N4)].
  - destruct (Q_involved u p0 m kside S s Hi) as (_ & Ht & _). fold Q in Ht. rewrite Ht. apply andb_false_r.
  - destruct (castle_other u p0 m kside S s N1 N2 N3 N4) as (Hu & Ht & _). fold Q in Hu, Ht. rewrite Hu, Ht.
    unfold ub, tb, is_set. rewrite <- N.land_spec, Hdis. apply N.bits_0.
Qed.

Lemma cboard_makemove : board_of (makemove u p0 m) = board_of Q.
Proof. rewrite makemove_stages. rewrite board_of_flip by exact cQ_disjoint. reflexivity. Qed.

Lemma crel_Q a : rel_sq Q a = rel_sq p0 a.
Proof. unfold rel_sq, Q. rewrite turn_boards. reflexivity. Qed.

(* absolute squares *)
Let af := rel_sq p0 from.
Let at' := rel_sq p0 to.
Let akt := rel_sq p0 kt.
Let art := rel_sq p0 rt.

Lemma cman_rt : man_at Q art = Some (c, Rook).
Proof.
  rewrite (man_at_holds Q art false ROOK).
  - unfold Q. rewrite turn_boards, xorb_false_r. reflexivity.
  - rewrite crel_Q. unfold art. rewrite rel_sq_invol. exact (castle_rook_target u p0 m kside S).
Qed.
Lemma cman_kt : man_at Q akt = Some (c, King).
Proof.
  rewrite (man_at_holds Q akt false KING).
  - unfold Q. rewrite turn_boards, xorb_false_r. reflexivity.
  - rewrite crel_Q. unfold akt. rewrite rel_sq_invol. exact (castle_king_target u p0 m kside S).
Qed.
Lemma cman_vacated a : a = af \/ a = at' -> a <> akt -> a <> art -> man_at Q a = None.
Proof.
  intros Ha N1 N2. apply man_at_empty. rewrite crel_Q. apply (castle_vacated u p0 m kside S).
  - destruct Ha as [->| ->]; [left; unfold af|right; unfold at']; apply rel_sq_invol.
  - intros E. apply N1. unfold akt, kt. rewrite <- E. symmetry. apply rel_sq_invol.
  - intros E. apply N2. unfold art, rt. rewrite <- E. symmetry. apply rel_sq_invol.
Qed.
Lemma cman_other a : a <> af -> a <> at' -> a <> akt -> a <> art -> man_at Q a = man_at p0 a.
Proof.
  intros N1 N2 N3 N4. apply man_at_same; [unfold Q; apply turn_boards|].
  apply (castle_other u p0 m kside S).
  - intros E. apply N1. unfold af, from. rewrite <- E. symmetry. apply rel_sq_invol.
  - intros E. apply N2. unfold at', to. rewrite <- E. symmetry. apply rel_sq_invol.
  - intros E. apply N3. unfold akt, kt. rewrite <- E. symmetry. apply rel_sq_invol.
  - intros E. apply N4. unfold art, rt. rewrite <- E. symmetry. apply rel_sq_invol.
Qed.

(* ---- the rules' side *)
Lemma cmover : at_ (s_board sp) (mf sm) (mr sm) = Some (c, King).
Proof. exact (mover_is0 p0 m KING Hf64 (cs_king _ _ _ S)). Qed.

Lemma ctarget : at_ (s_board sp) (tf sm) (tr sm) = Some (c, Rook).
Proof.
  unfold sp, sm, abs_state, dec. cbn [s_board tf tr]. rewrite at_board by (apply rel_sq_lt; exact Ht64).
  rewrite (man_at_holds p0 (rel_sq p0 (m_to m)) false ROOK).
  - rewrite xorb_false_r. reflexivity.
  - rewrite rel_sq_invol. exact (cs_rook _ _ _ S).
Qed.

Lemma is_castle_true : is_castle sp sm = true.
Proof.
  unfold is_castle. rewrite cmover, ctarget. replace (s_turn sp) with c by reflexivity.
  cbn [is_man]. rewrite colour_refl. reflexivity.
Qed.

Lemma kside_agrees : (mf sm <? tf sm)%Z = kside.
Proof.
  unfold sm, dec. cbn [mf tf]. rewrite !(file_rel p0) by (exact Hf64 || exact Ht64).
  rewrite (cs_side _ _ _ S). pose proof (cs_from _ _ _ S). pose proof (cs_to _ _ _ S).
  destruct (N.ltb_spec (m_from m) (m_to m)); destruct (Z.ltb_spec (Z.of_N (m_from m mod 8)) (Z.of_N (m_to m mod 8))); try reflexivity; lia.
Qed.

Lemma home_rank : Z.of_N (af / 8) = mr sm.
Proof. reflexivity. Qed.

Lemma kt_lt8 : kt < 8. Proof. unfold kt, c_kt, G1, C1. destruct kside; lia. Qed.
Lemma rt_lt8 : rt < 8. Proof. unfold rt, c_rt, F1, D1. destruct kside; lia. Qed.

(* the king's and the rook's target squares, as the rules name them *)
Lemma akt_coords : (if kside then 6 else 2)%Z = Z.of_N (akt mod 8) /\ mr sm = Z.of_N (akt / 8).
Proof.
  pose proof kt_lt8 as Hk. pose proof (cs_from _ _ _ S) as Hf. fold from in Hf.
  unfold sm, dec. cbn [mr]. fold from af. unfold akt, af.
  rewrite (file_rel p0), !(rank_rel p0) by lia.
  split.
  - unfold kt, c_kt, G1, C1. destruct kside; reflexivity.
  - destruct (turn p0); lia.
Qed.
Lemma art_coords : (if kside then 5 else 3)%Z = Z.of_N (art mod 8) /\ mr sm = Z.of_N (art / 8).
Proof.
  pose proof rt_lt8 as Hk. pose proof (cs_from _ _ _ S) as Hf. fold from in Hf.
  unfold sm, dec. cbn [mr]. fold from af. unfold art, af.
  rewrite (file_rel p0), !(rank_rel p0) by lia.
  split.
  - unfold rt, c_rt, F1, D1. destruct kside; reflexivity.
  - destruct (turn p0); lia.
Qed.

Lemma akt_ne_art : akt <> art.
Proof. intros E. apply (kt_ne_rt p0 m kside S). exact (rel_sq_inj _ _ _ E). Qed.

Theorem cboard_refines : board_of (makemove u p0 m) = s_board (apply sp sm).
Proof.
  rewrite cboard_makemove. fold Q.
  unfold apply. cbv zeta. cbn [s_board]. rewrite is_castle_true, kside_agrees.
  replace (s_turn sp) with c by reflexivity.
  destruct akt_coords as (Kf & Kr). destruct art_coords as (Rf & Rr).
  assert (Lb : length (s_board sp) = 64%nat) by apply board_length.
  assert (Hsb : s_board sp = board_of p0) by reflexivity.
  assert (Haf : af < 64) by (apply rel_sq_lt; exact Hf64).
  assert (Hat : at' < 64) by (apply rel_sq_lt; exact Ht64).
  assert (Hak : akt < 64) by (apply rel_sq_lt; pose proof kt_lt8; unfold kt in *; lia).
  assert (Har : art < 64) by (apply rel_sq_lt; pose proof rt_lt8; unfold rt in *; lia).
  assert (E1 : put (s_board sp) (mf sm) (mr sm) None = upd (s_board sp) (N.to_nat af) None).
  { unfold sm, dec. cbn [mf mr]. fold from af. apply put_board; [exact Haf|exact Lb]. }
  rewrite E1. set (b1 := upd (s_board sp) (N.to_nat af) None).
  assert (L1 : length b1 = 64%nat) by (unfold b1; rewrite upd_length; exact Lb).
  assert (E2 : put b1 (tf sm) (tr sm) None = upd b1 (N.to_nat at') None).
  { unfold sm, dec. cbn [tf tr]. fold to at'. apply put_board; [exact Hat|exact L1]. }
  rewrite E2. set (b2 := upd b1 (N.to_nat at') None).
  assert (L2 : length b2 = 64%nat) by (unfold b2; rewrite upd_length; exact L1).
  rewrite Kf, Kr.
  assert (E3 : put b2 (Z.of_N (akt mod 8)) (Z.of_N (akt / 8)) (Some (c, King)) = upd b2 (N.to_nat akt) (Some (c, King))).
  { apply put_board; [exact Hak|exact L2]. }
  rewrite E3. set (b3 := upd b2 (N.to_nat akt) (Some (c, King))).
  assert (L3 : length b3 = 64%nat) by (unfold b3; rewrite upd_length; exact L2).
  rewrite Rf. rewrite <- Kr, Rr.
  assert (E4 : put b3 (Z.of_N (art mod 8)) (Z.of_N (art / 8)) (Some (c, Rook)) = upd b3 (N.to_nat art) (Some (c, Rook))).
  { apply put_board; [exact Har|exact L3]. }
  rewrite E4.
  apply list_ext64; [apply board_length|rewrite upd_length; exact L3|].
  intros i Hi. rewrite nth_board by exact Hi.
  set (a := N.of_nat i). assert (Ha : a < 64) by (unfold a; lia).
  rewrite nth_upd by (rewrite L3; lia).
  destruct (Nat.eqb_spec i (N.to_nat art)) as [Er|Er].
  { assert (E : a = art) by (unfold a; lia). rewrite E. exact cman_rt. }
  unfold b3. rewrite nth_upd by (rewrite L2; lia).
  destruct (Nat.eqb_spec i (N.to_nat akt)) as [Ek|Ek].
  { assert (E : a = akt) by (unfold a; lia). rewrite E. exact cman_kt. }
  assert (N3 : a <> akt) by (unfold a; lia). assert (N4 : a <> art) by (unfold a; lia).
  unfold b2. rewrite nth_upd by (rewrite L1; lia).
  destruct (Nat.eqb_spec i (N.to_nat at')) as [Et|Et].
  { apply cman_vacated; [right; unfold a; lia|exact N3|exact N4]. }
  unfold b1. rewrite nth_upd by (rewrite Lb; lia).
  destruct (Nat.eqb_spec i (N.to_nat af)) as [Ef|Ef].
  { apply cman_vacated; [left; unfold a; lia|exact N3|exact N4]. }
  rewrite Hsb, nth_board by exact Hi. fold a.
  apply cman_other; [unfold a; lia|unfold a; lia|exact N3|exact N4].
Qed.

Let R := makemove u p0 m.
Lemma cR_eq : R = flip (set_clocks_ep_rights Q (mv_hm u p0 m) (mv_fm p0) (mv_new_ep p0 m)
   (keeps_right (us_ksc p0) (m_from m) (m_to m) (lsb (N.land (c_us p0) (kings p0))) (sq_of (cf0 p0) 0))
   (keeps_right (us_qsc p0) (m_from m) (m_to m) (lsb (N.land (c_us p0) (kings p0))) (sq_of (cf1 p0) 0))
   (keeps_right (them_ksc p0) (m_from m) (m_to m) (lsb (N.land (c_them p0) (kings p0))) (sq_of (cf2 p0) 7))
   (keeps_right (them_qsc p0) (m_from m) (m_to m) (lsb (N.land (c_them p0) (kings p0))) (sq_of (cf3 p0) 7))).
Proof. apply makemove_stages. Qed.

Lemma cQ_meta : turn Q = turn p0 /\ cf0 Q = cf0 p0 /\ cf1 Q = cf1 p0 /\ cf2 Q = cf2 p0 /\ cf3 Q = cf3 p0.
Proof. pose proof (meta_boards u p0 m) as H. unfold meta in H. fold Q in H. inversion H. repeat split; reflexivity. Qed.

Lemma c_is_cap : mv_is_cap u p0 m = false.
Proof.
  unfold mv_is_cap. change (is_set (c_them ?x) (m_to m)) with (tb x (m_to m)).
  rewrite (cs_piece p0 m kside S), tb_move, tb_start. exact (proj1 (proj2 (proj2 (cs_rook _ _ _ S)))).
Qed.

Lemma c_half :
  mv_hm u p0 m =
  (if is_man (s_turn sp) Pawn (at_ (s_board sp) (mf sm) (mr sm))
      || negb (is_castle sp sm) && (negb (is_empty (at_ (s_board sp) (tf sm) (tr sm))) || is_ep_capture sp sm)
   then 0 else s_half sp + 1)%Z.
Proof.
  unfold mv_hm. rewrite c_is_cap, (cs_piece p0 m kside S), is_castle_true, cmover.
  replace (s_turn sp) with c by reflexivity. cbn [is_man negb andb orb]. rewrite colour_refl. reflexivity.
Qed.

Lemma c_ep :
  match (match mv_new_ep p0 m with Some s => Some (flip_sq s) | None => None end) with
  | Some e => let a := (if negb (turn p0) then flip_sq e else e) in Some (Z.of_N (a mod 8), Z.of_N (a / 8))
  | None => None
  end =
  (if is_man (s_turn sp) Pawn (at_ (s_board sp) (mf sm) (mr sm)) && ((tr sm - mr sm =? 2) || (mr sm - tr sm =? 2))
   then Some (mf sm, (mr sm + tr sm) / 2) else None)%Z.
Proof.
  unfold mv_new_ep. rewrite (cs_piece p0 m kside S), cmover.
  replace (s_turn sp) with c by reflexivity. cbn [is_man]. rewrite colour_refl. reflexivity.
Qed.

Theorem makemove_refines_castling : abs_state (makemove u p0 m) = apply (abs_state p0) (dec p0 m).
Proof.
  destruct Hcf as (C0 & C1 & C2 & C3). destruct cQ_meta as (Mt & M0 & M1 & M2 & M3).
  assert (Hturn : turn p0 = true \/ turn p0 = false) by (destruct (turn p0); [left|right]; reflexivity).
  pose proof (right_mover0 p0 m KING Hf64 Ht64 (cs_king _ _ _ S) Hku) as RM.
  pose proof (right_other0 p0 m KING Hf64 Ht64 (cs_king _ _ _ S) Hku) as RO.
  fold R sp sm. unfold abs_state at 1. unfold apply. cbv zeta.
  apply sstate_eq.
  - unfold R, sp, sm. rewrite cboard_refines. unfold apply. cbv zeta. reflexivity.
  - rewrite cR_eq. cbn [turn flip set_clocks_ep_rights]. rewrite Mt. replace (s_turn sp) with c by reflexivity.
    unfold c. destruct (turn p0); reflexivity.
  - rewrite cR_eq. cbn [turn flip set_clocks_ep_rights us_ksc them_ksc cf0 cf2]. rewrite Mt, M0, M2, negb_involutive.
    change (s_wk sp) with (if negb (turn p0) then right_of (us_ksc p0) (cf0 p0) else right_of (them_ksc p0) (cf2 p0)).
    destruct Hturn as [Et|Et]; rewrite Et; cbn [negb].
    + rewrite <- (RO (them_ksc p0) (cf2 p0) C2). unfold c. rewrite Et. reflexivity.
    + rewrite <- (RM (us_ksc p0) (cf0 p0) C0). unfold c. rewrite Et. reflexivity.
  - rewrite cR_eq. cbn [turn flip set_clocks_ep_rights us_qsc them_qsc cf1 cf3]. rewrite Mt, M1, M3, negb_involutive.
    change (s_wq sp) with (if negb (turn p0) then right_of (us_qsc p0) (cf1 p0) else right_of (them_qsc p0) (cf3 p0)).
    destruct Hturn as [Et|Et]; rewrite Et; cbn [negb].
    + rewrite <- (RO (them_qsc p0) (cf3 p0) C3). unfold c. rewrite Et. reflexivity.
    + rewrite <- (RM (us_qsc p0) (cf1 p0) C1). unfold c. rewrite Et. reflexivity.
  - rewrite cR_eq. cbn [turn flip set_clocks_ep_rights us_ksc them_ksc cf0 cf2]. rewrite Mt, M0, M2, negb_involutive.
    change (s_bk sp) with (if negb (turn p0) then right_of (them_ksc p0) (cf2 p0) else right_of (us_ksc p0) (cf0 p0)).
    destruct Hturn as [Et|Et]; rewrite Et; cbn [negb].
    + rewrite <- (RM (us_ksc p0) (cf0 p0) C0). unfold c. rewrite Et. reflexivity.
    + rewrite <- (RO (them_ksc p0) (cf2 p0) C2). unfold c. rewrite Et. reflexivity.
  - rewrite cR_eq. cbn [turn flip set_clocks_ep_rights us_qsc them_qsc cf1 cf3]. rewrite Mt, M1, M3, negb_involutive.
    change (s_bq sp) with (if negb (turn p0) then right_of (them_qsc p0) (cf3 p0) else right_of (us_qsc p0) (cf1 p0)).
    destruct Hturn as [Et|Et]; rewrite Et; cbn [negb].
    + rewrite <- (RM (us_qsc p0) (cf1 p0) C1). unfold c. rewrite Et. reflexivity.
    + rewrite <- (RO (them_qsc p0) (cf3 p0) C3). unfold c. rewrite Et. reflexivity.
  - rewrite cR_eq. unfold rel_sq. cbn [turn flip set_clocks_ep_rights ep]. rewrite Mt. exact c_ep.
  - rewrite cR_eq. cbn [halfmoves flip set_clocks_ep_rights]. exact c_half.
  - rewrite cR_eq. cbn [fullmoves flip set_clocks_ep_rights]. unfold mv_fm. replace (s_turn sp) with c by reflexivity.
    unfold c, sp, abs_state. cbn [s_full]. destruct (turn p0); reflexivity.
Qed.
End CastleRefine.

(* ------------------------------------------------------------------ under the executable premises *)
Theorem makemove_refines_cpremises u p m :
  cpremises_b p m = true -> abs_state (makemove u p m) = apply (abs_state p) (dec p m).
Proof.
  unfold cpremises_b. cbv zeta. intros H.
  repeat match type of H with (_ && _) = true => let H' := fresh "P" in apply andb_true_iff in H; destruct H as [H H'] end.
  repeat match goal with
  | X : (_ <? _) = true |- _ => apply N.ltb_lt in X
  | X : (_ <=? _) = true |- _ => apply N.leb_le in X
  | X : negb (_ =? _) = true |- _ => apply negb_true_iff, N.eqb_neq in X
  | X : holds_b _ _ _ _ = true |- _ => apply holds_b_sound in X
  end.
  assert (Hkt : c_kt (m_from m <? m_to m) = m_from m \/ c_kt (m_from m <? m_to m) = m_to m \/ empty_at p (c_kt (m_from m <? m_to m))).
  { match goal with X : (c_kt _ =? _) || _ || _ = true |- _ => apply orb_true_iff in X; destruct X as [X|X];
      [apply orb_true_iff in X; destruct X as [X|X]; [left|right; left]; apply N.eqb_eq; exact X|right; right; apply empty_b_sound; exact X] end. }
  assert (Hrt : c_rt (m_from m <? m_to m) = m_from m \/ c_rt (m_from m <? m_to m) = m_to m \/ empty_at p (c_rt (m_from m <? m_to m))).
  { match goal with X : (c_rt _ =? _) || _ || _ = true |- _ => apply orb_true_iff in X; destruct X as [X|X];
      [apply orb_true_iff in X; destruct X as [X|X]; [left|right; left]; apply N.eqb_eq; exact X|right; right; apply empty_b_sound; exact X] end. }
  repeat match goal with X : (_ =? _) = true |- _ => apply N.eqb_eq in X end.
  apply (makemove_refines_castling u p m (m_from m <? m_to m)).
  - constructor; try assumption. reflexivity.
  - assumption.
  - assumption.
  - repeat split; assumption.
Qed.

Theorem makemove_refines_all u p m :
  refines_b p m = true -> abs_state (makemove u p m) = apply (abs_state p) (dec p m).
Proof.
  unfold refines_b. intros H. apply orb_true_iff in H. destruct H as [H|H].
  - apply makemove_refines_premises. exact H.
  - apply makemove_refines_cpremises. exact H.
Qed.
