(* C01/C02: a generated move that lands on an enemy man attacks that square (is_sq_attacked says so), hence in a
   position whose side not to move is not in check no generated move captures a king. *)
From Coq Require Import NArith ZArith List Bool Lia ZifyN ZifyBool.
From Rawr Require Import Consts Bits Magic Position MoveGen MakeMove MakeStages Rules Abs
                         BitsFacts ShiftFacts FlipFacts AbsFacts LsbFacts HashFacts MakeFacts MakeAbs CastleFacts CastleAbs KeyAbs
                         AttackFacts CountFacts GenSane GenNoDup CaptureFacts AttackSets NotationMoves RaySym.
Import ListNotations.
Local Open Scope N_scope.
Ltac Zify.zify_post_hook ::= Z.div_mod_to_equations.

Lemma is_occ_bit X i : N.testbit X i = true -> is_occ X = true.
Proof.
  intros H. unfold is_occ. destruct (N.eqb_spec X 0) as [->|]; [rewrite N.bits_0 in H; discriminate|reflexivity].
Qed.

Section Attacks.
Variable p : Position.
Hypothesis G : Good p.
Hypothesis CG : CastleGood p.

Lemma pawn_ne_attacks src to : (forall s, N.testbit src s = true -> N.testbit (N.land (pawns p) (c_us p)) s = true) ->
  N.testbit (north_east src) to = true -> is_set (pawns_bb true (N.land (pawns p) (get_side p true))) to = true.
Proof.
  intros Hsub H. unfold is_set, pawns_bb, get_side. rewrite N.lor_spec. apply orb_true_iff. left.
  rewrite testbit_north_east in *. repeat (apply andb_true_iff in H; destruct H as [H ?]).
  repeat (apply andb_true_iff; split); try assumption. apply Hsub. assumption.
Qed.
Lemma pawn_nw_attacks src to : (forall s, N.testbit src s = true -> N.testbit (N.land (pawns p) (c_us p)) s = true) ->
  N.testbit (north_west src) to = true -> is_set (pawns_bb true (N.land (pawns p) (get_side p true))) to = true.
Proof.
  intros Hsub H. unfold is_set, pawns_bb, get_side. rewrite N.lor_spec. apply orb_true_iff. right.
  rewrite testbit_north_west in *. repeat (apply andb_true_iff in H; destruct H as [H ?]).
  repeat (apply andb_true_iff; split); try assumption. apply Hsub. assumption.
Qed.

Lemma capsrc_sub x s : N.testbit (g_capsrc p x) s = true -> N.testbit (N.land (pawns p) (c_us p)) s = true.
Proof.
  unfold g_capsrc. rewrite !N.land_spec. intros H. repeat (apply andb_true_iff in H; destruct H as [H ?]).
  rewrite H. assumption.
Qed.

(* the five clauses of the attack query, as sufficient conditions *)
Lemma attacked_by_pawn to : is_set (pawns_bb true (N.land (pawns p) (get_side p true))) to = true -> is_sq_attacked p to true = true.
Proof. intros H. rewrite is_sq_or. cbv zeta. rewrite H. reflexivity. Qed.
Lemma attacked_by_knight from to : from < 64 -> to < 64 -> N.testbit (knights_bb (bit from)) to = true ->
  N.testbit (N.land (knights p) (c_us p)) from = true -> is_sq_attacked p to true = true.
Proof.
  intros Hf Ht Hk Hs. rewrite is_sq_or. cbv zeta.
  assert (is_occ (N.land (N.land (knights_bb (bit to)) (knights p)) (get_side p true)) = true) as ->; [|rewrite orb_true_r; reflexivity].
  apply (is_occ_bit _ from). unfold get_side. rewrite <- N.land_assoc, N.land_spec, Hs, andb_true_r.
  rewrite <- (sym_use knights_bb from to knights_sym Hf Ht). exact Hk.
Qed.
Lemma attacked_by_diag from to : from < 64 -> to < 64 -> N.testbit (batt from (occupied p)) to = true ->
  N.testbit (c_us p) from = true -> N.testbit (N.lor (bishops p) (queens p)) from = true -> is_sq_attacked p to true = true.
Proof.
  intros Hf Ht Hb Hu Hq. rewrite is_sq_or. cbv zeta.
  assert (is_occ (N.land (batt to (occupied p)) (N.land (get_side p true) (N.lor (bishops p) (queens p)))) = true) as ->;
    [|rewrite !orb_true_r; reflexivity].
  apply (is_occ_bit _ from). unfold get_side. rewrite !N.land_spec, Hu, Hq, (batt_sym from to _ Hf Ht Hb). reflexivity.
Qed.
Lemma attacked_by_orth from to : from < 64 -> to < 64 -> N.testbit (ratt from (occupied p)) to = true ->
  N.testbit (c_us p) from = true -> N.testbit (N.lor (rooks p) (queens p)) from = true -> is_sq_attacked p to true = true.
Proof.
  intros Hf Ht Hb Hu Hq. rewrite is_sq_or. cbv zeta.
  assert (is_occ (N.land (ratt to (occupied p)) (N.land (get_side p true) (N.lor (rooks p) (queens p)))) = true) as ->;
    [|rewrite !orb_true_r; reflexivity].
  apply (is_occ_bit _ from). unfold get_side. rewrite !N.land_spec, Hu, Hq, (ratt_sym from to _ Hf Ht Hb). reflexivity.
Qed.
Lemma attacked_by_king to : N.testbit (adjacent (bit (lsb (N.land (kings p) (c_us p))))) to = true -> is_sq_attacked p to true = true.
Proof. intros H. rewrite is_sq_or. cbv zeta. unfold get_side, is_set at 2. rewrite H, !orb_true_r. reflexivity. Qed.

Lemma slider_src X Y from : N.testbit (N.land (N.land X (c_us p)) Y) from = true -> N.testbit X from = true /\ N.testbit (c_us p) from = true.
Proof. rewrite !N.land_spec. intros H. repeat (apply andb_true_iff in H; destruct H as [H ?]). split; assumption. Qed.

(* every generated move onto an enemy man attacks the square it lands on *)
Theorem capture_attacks g : In g (move_generator p) -> tb p (m_to (gen_mv g)) = true ->
  is_sq_attacked p (m_to (gen_mv g)) true = true.
Proof.
  intros Hg Ht.
  assert (Hb : m_from (gen_mv g) < 64 /\ m_to (gen_mv g) < 64).
  { destruct (generated_move_sane p g G CG Hg) as [(S & _)|[(S & _)|(S & _)]].
    - split; [exact (sn_from _ _ _ S)|exact (sn_to _ _ _ S)].
    - pose proof (cs_from _ _ _ S). pose proof (cs_to _ _ _ S). lia.
    - pose proof (cs_from _ _ _ S). pose proof (cs_to _ _ _ S). lia. }
  destruct Hb as (Hf64 & Ht64).
  rewrite generator_blocks in Hg.
  repeat (apply in_app_or in Hg; destruct Hg as [Hg|Hg]).
  - destruct (singles_shape p g Hg) as (to & pr & -> & _ & E). cbn [gen_mv m_to] in Ht. congruence.
  - destruct (doubles_shape p g Hg) as (to & pr & -> & _ & E). cbn [gen_mv m_to] in Ht. congruence.
  - unfold blk_cap_ne in Hg. apply in_flat_map in Hg. destruct Hg as (to & Hto & Hg).
    destruct (promo_or_plain_in _ _ _ Hg) as (pr & -> & _). cbn [gen_mv m_to] in *.
    apply bits_spec in Hto. unfold g_cap_ne in Hto. rewrite !N.land_spec in Hto.
    repeat (apply andb_true_iff in Hto; destruct Hto as [Hto ?]). rewrite east_north in Hto.
    apply attacked_by_pawn. apply (pawn_ne_attacks _ to (capsrc_sub _) Hto).
  - unfold blk_cap_nw in Hg. apply in_flat_map in Hg. destruct Hg as (to & Hto & Hg).
    destruct (promo_or_plain_in _ _ _ Hg) as (pr & -> & _). cbn [gen_mv m_to] in *.
    apply bits_spec in Hto. unfold g_cap_nw in Hto. rewrite !N.land_spec in Hto.
    repeat (apply andb_true_iff in Hto; destruct Hto as [Hto ?]).
    apply attacked_by_pawn. apply (pawn_nw_attacks _ to (capsrc_sub _) Hto).
  - destruct (ep_shape p G g Hg) as [(to & pr & -> & _ & E)|(to & pr & -> & _ & E)]; cbn [gen_mv m_to] in Ht; congruence.
  - unfold blk_knights in Hg. apply in_flat_map in Hg. destruct Hg as (from & Hf & Hg).
    apply in_map_iff in Hg. destruct Hg as (to & <- & Hto). cbn [gen_mv m_from m_to] in *.
    apply bits_spec in Hf, Hto. rewrite N.land_spec in Hto. apply andb_true_iff in Hto. destruct Hto as [Hk _].
    destruct (slider_src _ _ _ Hf) as (Hn & Hu).
    apply (attacked_by_knight from to Hf64 Ht64 Hk). rewrite N.land_spec, Hn, Hu. reflexivity.
  - destruct (slider_shape p _ _ _ _ _ Hg) as (from & to & -> & Hf & Hto). cbn [gen_mv m_from m_to] in *.
    destruct (slider_src _ _ _ Hf) as (Hn & Hu). apply (attacked_by_diag from to Hf64 Ht64 Hto Hu). rewrite N.lor_spec, Hn. reflexivity.
  - destruct (slider_shape p _ _ _ _ _ Hg) as (from & to & -> & Hf & Hto). cbn [gen_mv m_from m_to] in *.
    destruct (slider_src _ _ _ Hf) as (Hn & Hu). apply (attacked_by_diag from to Hf64 Ht64 Hto Hu). rewrite N.lor_spec, Hn. reflexivity.
  - destruct (slider_shape p _ _ _ _ _ Hg) as (from & to & -> & Hf & Hto). cbn [gen_mv m_from m_to] in *.
    destruct (slider_src _ _ _ Hf) as (Hn & Hu). apply (attacked_by_orth from to Hf64 Ht64 Hto Hu). rewrite N.lor_spec, Hn. reflexivity.
  - destruct (slider_shape p _ _ _ _ _ Hg) as (from & to & -> & Hf & Hto). cbn [gen_mv m_from m_to] in *.
    destruct (slider_src _ _ _ Hf) as (Hn & Hu). apply (attacked_by_orth from to Hf64 Ht64 Hto Hu). rewrite N.lor_spec, Hn. reflexivity.
  - destruct (slider_shape p _ _ _ _ _ Hg) as (from & to & -> & Hf & Hto). cbn [gen_mv m_from m_to] in *.
    destruct (slider_src _ _ _ Hf) as (Hn & Hu). apply (attacked_by_diag from to Hf64 Ht64 Hto Hu). rewrite N.lor_spec, Hn. apply orb_true_r.
  - destruct (slider_shape p _ _ _ _ _ Hg) as (from & to & -> & Hf & Hto). cbn [gen_mv m_from m_to] in *.
    destruct (slider_src _ _ _ Hf) as (Hn & Hu). apply (attacked_by_orth from to Hf64 Ht64 Hto Hu). rewrite N.lor_spec, Hn. apply orb_true_r.
  - destruct (slider_shape p _ _ _ _ _ Hg) as (from & to & -> & Hf & Hto). cbn [gen_mv m_from m_to] in *.
    destruct (slider_src _ _ _ Hf) as (Hn & Hu). unfold qatt in Hto. rewrite N.lor_spec in Hto. apply orb_true_iff in Hto. destruct Hto as [Hto|Hto].
    + apply (attacked_by_diag from to Hf64 Ht64 Hto Hu). rewrite N.lor_spec, Hn. apply orb_true_r.
    + apply (attacked_by_orth from to Hf64 Ht64 Hto Hu). rewrite N.lor_spec, Hn. apply orb_true_r.
  - pose proof (king_step_adjacent p g Hg) as Hadj.
    unfold king_steps in Hg. apply in_flat_map in Hg. destruct Hg as (from & Hf & Hg).
    apply in_flat_map in Hg. destruct Hg as (to & _ & Hg).
    match type of Hg with In _ (if ?c then _ else _) => destruct c; [|contradiction] end.
    destruct Hg as [<-|[]]. cbn [gen_mv m_from m_to] in *.
    apply bits_spec in Hf. destruct (g_bb p G) as (B1 & _).
    rewrite (single_bit_test _ from (land_lt_r _ _ B1) (g_king p G)) in Hf. apply N.eqb_eq in Hf. subst from.
    apply attacked_by_king. exact Hadj.
  - destruct (castle_block_k p G CG g Hg) as (S & _). destruct (cs_rook _ _ _ S) as (_ & _ & E & _). congruence.
  - destruct (castle_block_q p G CG g Hg) as (S & _). destruct (cs_rook _ _ _ S) as (_ & _ & E & _). congruence.
Qed.
End Attacks.

Theorem no_king_capture p g : Good p -> CastleGood p -> popcount (N.land (kings p) (c_them p)) = 1 -> in_check_them p = false ->
  In g (move_generator p) -> m_to (gen_mv g) <> lsb (N.land (kings p) (c_them p)).
Proof.
  intros G CG Hk Hs Hg E.
  assert (Ht : N.testbit (N.land (kings p) (c_them p)) (lsb (N.land (kings p) (c_them p))) = true)
    by (apply lsb_set; apply popcount1_nonzero; exact Hk).
  rewrite N.land_spec in Ht. apply andb_true_iff in Ht. destruct Ht as [_ Ht].
  pose proof (capture_attacks p G CG g Hg) as Ha. rewrite E in Ha. specialize (Ha Ht).
  unfold in_check_them in Hs. congruence.
Qed.
