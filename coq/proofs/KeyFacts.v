(* C04: minimum distance of the Zobrist code.  Any 1..4 distinct key-table entries XOR to a non-zero value,
   so two positions whose key-relevant features differ in one to four features have different keys.
   One vm_compute sweep (a right fold keeping the set of keys and the set of pairwise XORs seen so far) on the
   regenerated tables, lifted by induction to every sub-list. *)
From Coq Require Import NArith ZArith List Bool Lia MSetPositive.
From Rawr Require Import Consts Bits.
Import ListNotations.
Local Open Scope N_scope.

Module PS := PositiveSet.

Definition ALLKEYS : list N := KEYS ++ KEYS_EP ++ KEYS_CASTLING ++ [KEYS_TURN].

Definition k2p (x : N) : positive := N.succ_pos x.
Definition smem (x : N) (s : PS.t) : bool := PS.mem (k2p x) s.
Definition sadd (x : N) (s : PS.t) : PS.t := PS.add (k2p x) s.

Lemma k2p_inj a b : k2p a = k2p b -> a = b.
Proof. unfold k2p. intros H. apply (f_equal Pos.pred_N) in H. rewrite !N.pos_pred_succ in H. exact H. Qed.

Lemma smem_sadd x y s : smem y (sadd x s) = true <-> y = x \/ smem y s = true.
Proof.
  unfold smem, sadd. change (PS.mem (k2p y) (PS.add (k2p x) s) = true) with (PS.In (k2p y) (PS.add (k2p x) s)).
  rewrite PS.add_spec. split; intros [H|H]; [left; apply k2p_inj; exact H|right; exact H|left; congruence|right; exact H].
Qed.

(* state: elements seen (suffix t), XORs of all pairs of t *)
Definition step (x : N) (acc : option (list N * PS.t * PS.t)) : option (list N * PS.t * PS.t) :=
  match acc with
  | None => None
  | Some (t, s1, p) =>
    if (x =? 0) || smem x s1 || smem x p || existsb (fun a => smem (N.lxor x a) p) t then None
    else Some (x :: t, sadd x s1, fold_left (fun q a => sadd (N.lxor x a) q) t p)
  end.

Definition chk (l : list N) : option (list N * PS.t * PS.t) := fold_right step (Some ([], PS.empty, PS.empty)) l.

Inductive sub {A} : list A -> list A -> Prop :=
| sub_nil : sub [] []
| sub_skip x s l : sub s l -> sub s (x :: l)
| sub_take x s l : sub s l -> sub (x :: s) (x :: l).

Definition xors (l : list N) : N := fold_right N.lxor 0 l.

Lemma sub_in {A} (s l : list A) x : sub s l -> In x s -> In x l.
Proof. induction 1; intros Hin; [exact Hin|right; auto|destruct Hin as [->|Hin]; [left; reflexivity|right; auto]]. Qed.

Lemma sub_of_nil {A} (s : list A) : sub s [] -> s = [].
Proof. inversion 1; reflexivity. Qed.

Lemma sub_tail {A} (a : A) (s l : list A) : sub (a :: s) l -> sub s l.
Proof.
  intros H. remember (a :: s) as s0 eqn:Es. revert a s Es.
  induction H as [|x s1 l1 H IH|x s1 l1 H IH]; intros a s Es; [discriminate| |].
  - apply sub_skip. eapply IH. exact Es.
  - inversion Es; subst. apply sub_skip. exact H.
Qed.

Lemma fold_sadd_mem x t : forall p y,
  smem y (fold_left (fun q a => sadd (N.lxor x a) q) t p) = true <-> (exists a, In a t /\ y = N.lxor x a) \/ smem y p = true.
Proof.
  induction t as [|b t IH]; intros p y; cbn [fold_left].
  - split; [intros H; right; exact H|intros [[a [[] _]]|H]; exact H].
  - rewrite IH, smem_sadd. split.
    + intros [[a [Ha ->]]|[->|H]]; [left; exists a; split; [right; exact Ha|reflexivity]|left; exists b; split; [left; reflexivity|reflexivity]|right; exact H].
    + intros [[a [[->|Ha] ->]]|H]; [right; left; reflexivity|left; exists a; split; [exact Ha|reflexivity]|right; right; exact H].
Qed.

(* invariant of the fold *)
Definition Inv (l : list N) (st : list N * PS.t * PS.t) : Prop :=
  let '(t, s1, p) := st in
  t = l
  /\ (forall a, In a l -> smem a s1 = true)
  /\ (forall a b, sub [a; b] l -> smem (N.lxor a b) p = true)
  /\ (forall s, sub s l -> (1 <= length s <= 4)%nat -> xors s <> 0).

Lemma chk_inv : forall l st, chk l = Some st -> Inv l st.
Proof.
  induction l as [|x l IH]; intros st H; cbn [chk fold_right] in H.
  - inversion H; subst. cbn. repeat split; try (intros; contradiction).
    + intros a b Hs. inversion Hs.
    + intros s Hs Hl. apply sub_of_nil in Hs. subst. cbn in Hl. lia.
  - fold (chk l) in H. destruct (chk l) as [[[t s1] p]|] eqn:E; [|discriminate].
    specialize (IH _ eq_refl). destruct IH as (-> & I1 & I2 & I3).
    cbn [step] in H.
    destruct ((x =? 0) || smem x s1 || smem x p || existsb (fun a => smem (N.lxor x a) p) l) eqn:Ec; [discriminate|].
    inversion H; subst st; clear H.
    apply orb_false_elim in Ec. destruct Ec as [Ec E4]. apply orb_false_elim in Ec. destruct Ec as [Ec E3].
    apply orb_false_elim in Ec. destruct Ec as [E1 E2]. apply N.eqb_neq in E1.
    cbn. repeat split.
    + intros a [->|Ha]; apply smem_sadd; [left; reflexivity|right; apply I1; exact Ha].
    + intros a b Hs. apply fold_sadd_mem. inversion Hs; subst.
      * right. apply I2. assumption.
      * left. exists b. split; [|reflexivity]. match goal with Hx : sub [b] l |- _ => apply (sub_in _ _ b Hx); left; reflexivity end.
    + intros s Hs Hl. inversion Hs; subst.
      * apply I3; assumption.
      * match goal with Hx : sub ?s' l |- _ => rename Hx into Hs'; rename s' into s0 end.
        cbn [xors fold_right]. fold (xors s0).
        destruct s0 as [|a [|b [|c [|d s0]]]]; cbn in Hl; try lia; cbn [xors fold_right].
        -- rewrite N.lxor_0_r. exact E1.
        -- rewrite N.lxor_0_r. intros Hx. apply N.lxor_eq in Hx. subst a.
           rewrite I1 in E2; [discriminate|]. apply (sub_in _ _ x Hs'). left. reflexivity.
        -- rewrite N.lxor_0_r. intros Hx. apply N.lxor_eq in Hx. subst x.
           rewrite (I2 a b Hs') in E3. discriminate.
        -- rewrite N.lxor_0_r. intros Hx.
           assert (Hab : N.lxor x a = N.lxor b c).
           { apply N.lxor_eq. rewrite <- Hx. rewrite !N.lxor_assoc. reflexivity. }
           assert (Hbc : sub [b; c] l) by (apply (sub_tail a); exact Hs').
           assert (Hin : In a l) by (apply (sub_in _ _ a Hs'); left; reflexivity).
           assert (Hex : existsb (fun a0 => smem (N.lxor x a0) p) l = true).
           { apply existsb_exists. exists a. split; [exact Hin|]. rewrite Hab. apply I2. exact Hbc. }
           rewrite Hex in E4. discriminate.
Qed.

Definition chk_b (l : list N) : bool := match chk l with Some _ => true | None => false end.

(* generic in the list: no computation happens in this proof *)
Lemma chk_b_sound l : chk_b l = true -> forall s, sub s l -> (1 <= length s <= 4)%nat -> xors s <> 0.
Proof.
  unfold chk_b. intros H. destruct (chk l) as [st|] eqn:E; [|discriminate].
  apply chk_inv in E. destruct st as [[t s1] p]. destruct E as (_ & _ & _ & I3). exact I3.
Qed.

Lemma keys_ok_true : chk_b ALLKEYS = true.
Proof. vm_cast_no_check (eq_refl true). Qed.

Theorem key_min_distance : forall s, sub s ALLKEYS -> (1 <= length s <= 4)%nat -> xors s <> 0.
Proof. exact (chk_b_sound ALLKEYS keys_ok_true). Qed.

Lemma allkeys_length : length ALLKEYS = 781%nat.
Proof. vm_compute. reflexivity. Qed.
