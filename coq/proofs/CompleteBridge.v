(* Completeness, the bridge: the filter of Rules.legal is the engine's legality test for ANY move that satisfies the
   structural record sane (non-castling) or csane (castling), not only for generated moves (E1, E1'); and the rules'
   board in the White frame read back into the engine's vocabulary holds / empty_at (E2). *)
From Coq Require Import NArith ZArith List Bool Lia ZifyN ZifyNat ZifyBool.
From Rawr Require Import Consts Bits Magic Position MoveGen MakeMove MakeStages Rules Abs
                         BitsFacts FlipFacts AbsFacts LsbFacts HashFacts MakeFacts MakeAbs CastleFacts CastleAbs KeyAbs KeyMove
                         AttackFacts GenSane AttackAbs NoKingCapture Closure LegalBridge PseudoBase.
Import ListNotations.
Local Open Scope N_scope.
Ltac Zify.zify_post_hook ::= Z.div_mod_to_equations.

(* ------------------------------------------------------------------ E1 / E1': the filter bridge from the result's shape *)
Lemma filter_from_shape u p m :
  abs_state (makemove u p m) = apply (abs_state p) (dec p m) ->
  WF (makemove u p m) -> HashFacts.BB8 (makemove u p m) ->
  popcount (N.land (kings (makemove u p m)) (c_them (makemove u p m))) = 1 ->
  popcount (N.land (kings (makemove u p m)) (c_us (makemove u p m))) = 1 ->
  in_check_of (s_board (apply (abs_state p) (dec p m))) (s_turn (abs_state p)) = in_check_them (makemove u p m).
Proof.
  intros Eabs HW HB Ht Hu.
  rewrite <- Eabs.
  destruct (R_fields u p m) as (Eturn & _). cbv zeta in Eturn.
  change (s_board (abs_state (makemove u p m))) with (board_of (makemove u p m)).
  change (s_turn (abs_state p)) with (colour_of_turn (turn p)).
  replace (turn p) with (negb (turn (makemove u p m))) by (rewrite Eturn; apply negb_involutive).
  exact (in_check_of_them (makemove u p m) HW HB Ht Hu).
Qed.

Lemma sane_result_shape u p m k : Inv0 p -> sane p m k -> m_to m <> tksq p ->
  let R := makemove u p m in
  WF R /\ HashFacts.BB8 R /\ popcount (N.land (kings R) (c_them R)) = 1 /\ popcount (N.land (kings R) (c_us R)) = 1.
Proof.
  intros I S NK. cbv zeta. pose proof (i0_good p I) as G.
  split; [exact (WF_R u p m k S (g_wf p G))|].
  split; [exact (BB8_R u p m)|].
  split; [exact (proj1 (nc_our_king u p m k S I NK))|exact (proj1 (nc_their_king u p m k S I NK))].
Qed.

Lemma csane_result_shape u p m kside : Inv0 p -> csane p m kside ->
  let R := makemove u p m in
  WF R /\ HashFacts.BB8 R /\ popcount (N.land (kings R) (c_them R)) = 1 /\ popcount (N.land (kings R) (c_us R)) = 1.
Proof.
  intros I S. cbv zeta. pose proof (i0_good p I) as G.
  split; [exact (cWF_makemove u p m kside S (g_wf p G))|].
  split; [exact (BB8_R u p m)|].
  split; [exact (proj1 (ca_our_king u p m kside S I))|exact (proj1 (ca_their_king u p m kside S I))].
Qed.

Lemma sane_refines u p m k : Inv0 p -> sane p m k ->
  (k = PAWN -> rank_of (m_to m) = rank_of (m_from m) + 1 \/ m_to m = m_from m + 16) ->
  abs_state (makemove u p m) = apply (abs_state p) (dec p m).
Proof.
  intros I S Hpw. pose proof (i0_good p I) as G.
  assert (Hku : popcount (N.land (c_us p) (kings p)) = 1) by (rewrite king_comm; exact (g_king p G)).
  exact (makemove_refines_noncastling u p m k S (g_dis p G) Hku (g_cf p G) Hpw).
Qed.

Lemma csane_refines u p m kside : Inv0 p -> csane p m kside ->
  abs_state (makemove u p m) = apply (abs_state p) (dec p m).
Proof.
  intros I S. pose proof (i0_good p I) as G.
  assert (Hku : popcount (N.land (c_us p) (kings p)) = 1) by (rewrite king_comm; exact (g_king p G)).
  exact (makemove_refines_castling u p m kside S (g_dis p G) Hku (g_cf p G)).
Qed.

Theorem check_filter_eq_sane u p m k : Inv0 p -> sane p m k -> m_to m <> tksq p ->
  (k = PAWN -> rank_of (m_to m) = rank_of (m_from m) + 1 \/ m_to m = m_from m + 16) ->
  in_check_of (s_board (apply (abs_state p) (dec p m))) (s_turn (abs_state p)) = in_check_them (makemove u p m).
Proof.
  intros I S NK Hpw.
  destruct (sane_result_shape u p m k I S NK) as (HW & HB & Ht & Hu).
  exact (filter_from_shape u p m (sane_refines u p m k I S Hpw) HW HB Ht Hu).
Qed.

Theorem check_filter_eq_csane u p m kside : Inv0 p -> csane p m kside ->
  in_check_of (s_board (apply (abs_state p) (dec p m))) (s_turn (abs_state p)) = in_check_them (makemove u p m).
Proof.
  intros I S.
  destruct (csane_result_shape u p m kside I S) as (HW & HB & Ht & Hu).
  exact (filter_from_shape u p m (csane_refines u p m kside I S) HW HB Ht Hu).
Qed.

(* the two directions in the form used by the completeness argument *)
Corollary legal_filter_sane u p m k : Inv0 p -> sane p m k -> m_to m <> tksq p ->
  (k = PAWN -> rank_of (m_to m) = rank_of (m_from m) + 1 \/ m_to m = m_from m + 16) ->
  In (dec p m) (legal (abs_state p)) -> in_check_them (makemove u p m) = false.
Proof.
  intros I S NK Hpw Hleg. unfold legal in Hleg. apply filter_In in Hleg. destruct Hleg as (_ & Hf).
  rewrite (check_filter_eq_sane u p m k I S NK Hpw) in Hf. apply negb_true_iff in Hf. exact Hf.
Qed.

Corollary legal_filter_csane u p m kside : Inv0 p -> csane p m kside ->
  In (dec p m) (legal (abs_state p)) -> in_check_them (makemove u p m) = false.
Proof.
  intros I S Hleg. unfold legal in Hleg. apply filter_In in Hleg. destruct Hleg as (_ & Hf).
  rewrite (check_filter_eq_csane u p m kside I S) in Hf. apply negb_true_iff in Hf. exact Hf.
Qed.

(* ------------------------------------------------------------------ E2: reading the rules' board back, White frame *)
Lemma kind_of_N_back j : j <= 5 -> N_of_kind (kind_of_N j) = j.
Proof. exact (kind_back j). Qed.

Lemma kind_of_N_inj i j : i <= 5 -> j <= 5 -> kind_of_N i = kind_of_N j -> i = j.
Proof. intros Hi Hj E. rewrite <- (kind_back i Hi), <- (kind_back j Hj), E. reflexivity. Qed.

Lemma kind_of_N_of_kind k : kind_of_N (N_of_kind k) = k.
Proof. destruct k; reflexivity. Qed.

Lemma N_of_kind_le k : N_of_kind k <= 5.
Proof. destruct k; cbn [N_of_kind]; lia. Qed.

Lemma zsq_lt f r : on_board f r = true -> zsq f r < 64.
Proof.
  intros H. unfold on_board in H. apply andb_true_iff in H. destruct H as (H & H4).
  apply andb_true_iff in H. destruct H as (H & H3). apply andb_true_iff in H. destruct H as (H1 & H2).
  unfold zsq. lia.
Qed.

(* the classification of a square of the White-frame board *)
Lemma at_white_cases p f r : turn p = false -> Good p -> In (f, r) all_squares ->
  let a := zsq f r in
  a < 64 /\ fz a = f /\ rz a = r /\
  ((empty_at p a /\ at_ (board_of p) f r = None) \/
   (exists t j, holds p a t j /\ at_ (board_of p) f r = Some (if t then Black else White, kind_of_N j))).
Proof.
  intros Ht G Hin. cbv zeta.
  pose proof (all_sq_onb f r Hin) as Hb. change (onb f r) with (on_board f r) in Hb.
  pose proof (zsq_lt f r Hb) as Hlt.
  split; [exact Hlt|]. split; [exact (fz_zsq f r Hb)|]. split; [exact (rz_zsq f r Hb)|].
  rewrite at_coords, Hb.
  destruct (g_wf p G (zsq f r) Hlt) as [He|(t & j & Hh)].
  - left. split; [exact He|exact (man_empty p Ht _ He)].
  - right. exists t, j. split; [exact Hh|].
    destruct t.
    + exact (man_theirs p Ht _ j Hh).
    + exact (man_ours p Ht _ j Hh).
Qed.

Lemma holds_kind_le p a t j : holds p a t j -> j <= 5.
Proof. intros H. exact (proj1 H). Qed.

Lemma at_white_ours p f r k : turn p = false -> Good p -> In (f, r) all_squares ->
  at_ (board_of p) f r = Some (White, k) ->
  zsq f r < 64 /\ holds p (zsq f r) false (N_of_kind k) /\ fz (zsq f r) = f /\ rz (zsq f r) = r.
Proof.
  intros Ht G Hin Hat.
  destruct (at_white_cases p f r Ht G Hin) as (Hlt & Hf & Hr & [(_ & E)|(t & j & Hh & E)]).
  - rewrite E in Hat. discriminate Hat.
  - rewrite E in Hat.
    assert (Ec : (if t then Black else White) = White) by congruence.
    assert (Ek : kind_of_N j = k) by congruence.
    destruct t; [discriminate Ec|].
    split; [exact Hlt|]. split; [|split; [exact Hf|exact Hr]].
    rewrite <- Ek, (kind_back j (holds_kind_le _ _ _ _ Hh)). exact Hh.
Qed.

Lemma at_white_theirs p f r k : turn p = false -> Good p -> In (f, r) all_squares ->
  at_ (board_of p) f r = Some (Black, k) ->
  zsq f r < 64 /\ holds p (zsq f r) true (N_of_kind k) /\ fz (zsq f r) = f /\ rz (zsq f r) = r.
Proof.
  intros Ht G Hin Hat.
  destruct (at_white_cases p f r Ht G Hin) as (Hlt & Hf & Hr & [(_ & E)|(t & j & Hh & E)]).
  - rewrite E in Hat. discriminate Hat.
  - rewrite E in Hat.
    assert (Ec : (if t then Black else White) = Black) by congruence.
    assert (Ek : kind_of_N j = k) by congruence.
    destruct t; [|discriminate Ec].
    split; [exact Hlt|]. split; [|split; [exact Hf|exact Hr]].
    rewrite <- Ek, (kind_back j (holds_kind_le _ _ _ _ Hh)). exact Hh.
Qed.

Lemma at_white_none p f r : turn p = false -> Good p -> In (f, r) all_squares ->
  at_ (board_of p) f r = None ->
  zsq f r < 64 /\ empty_at p (zsq f r) /\ fz (zsq f r) = f /\ rz (zsq f r) = r.
Proof.
  intros Ht G Hin Hat.
  destruct (at_white_cases p f r Ht G Hin) as (Hlt & Hf & Hr & [(He & _)|(t & j & _ & E)]).
  - split; [exact Hlt|]. split; [exact He|split; [exact Hf|exact Hr]].
  - rewrite E in Hat. discriminate Hat.
Qed.

(* the same three readings for a square given by its number *)
Lemma at_sq_white_ours p a k : turn p = false -> Good p -> a < 64 ->
  at_ (board_of p) (fz a) (rz a) = Some (White, k) -> holds p a false (N_of_kind k).
Proof.
  intros Ht G Ha Hat.
  destruct (at_white_ours p (fz a) (rz a) k Ht G (sq_in_all a Ha) Hat) as (_ & Hh & _).
  rewrite (zsq_fz_rz a Ha) in Hh. exact Hh.
Qed.

Lemma at_sq_white_theirs p a k : turn p = false -> Good p -> a < 64 ->
  at_ (board_of p) (fz a) (rz a) = Some (Black, k) -> holds p a true (N_of_kind k).
Proof.
  intros Ht G Ha Hat.
  destruct (at_white_theirs p (fz a) (rz a) k Ht G (sq_in_all a Ha) Hat) as (_ & Hh & _).
  rewrite (zsq_fz_rz a Ha) in Hh. exact Hh.
Qed.

Lemma at_sq_white_none p a : turn p = false -> Good p -> a < 64 ->
  at_ (board_of p) (fz a) (rz a) = None -> empty_at p a.
Proof.
  intros Ht G Ha Hat.
  destruct (at_white_none p (fz a) (rz a) Ht G (sq_in_all a Ha) Hat) as (_ & Hh & _).
  rewrite (zsq_fz_rz a Ha) in Hh. exact Hh.
Qed.

Print Assumptions check_filter_eq_sane.
Print Assumptions check_filter_eq_csane.
Print Assumptions legal_filter_sane.
Print Assumptions legal_filter_csane.
Print Assumptions at_white_ours.
Print Assumptions at_white_theirs.
Print Assumptions at_white_none.
Print Assumptions at_sq_white_ours.
