(* The rules of chess (spec/Rules.v) are symmetric under "mirror the board top to bottom and swap the colours":
   pseudo-legal moves, apply, in_check_of and legal moves commute with the mirror image.  Theorems about the move
   lists proved for White to move therefore carry over to Black to move.  The last part connects the mirror image
   with the engine's abstraction: abs_state of a Black-to-move position is the mirror image of abs_state of the same
   bitboards read as White to move (AttackAbs.set_turn p false).

   M0  mirror_board_mirrored, mirror_board_invol, mirror_move_invol, mirror_state_invol
   M1  pseudo_mirror (general, for the relation MS) and pseudo_mirror_state
   M2  apply_MS (general), apply_mirror_state (all components but s_full), apply_mirror_full
   M3  in_check_mirror, in_check_mirror_board
   M4  legal_mirror (general), legal_mirror_state
   M5  abs_state_mirror, dec_mirror, legal_abs_mirror *)
From Coq Require Import NArith ZArith List Bool Lia ZifyN ZifyNat ZifyBool.
From Rawr Require Import Consts Bits Magic Position MoveGen MakeMove MakeStages Rules Abs BitsFacts FlipFacts AbsFacts
                         MakeFacts MakeAbs KeyAbs AttackFacts AttackAbs MirrorFacts.
Import ListNotations.
Local Open Scope Z_scope.
Ltac Zify.zify_post_hook ::= Z.div_mod_to_equations.

(* ------------------------------------------------------------------ definitions *)
(* index 8*r + f  |->  8*(7-r) + f *)
Definition flip_idx (i : nat) : nat := (8 * (7 - i / 8) + i mod 8)%nat.

(* entry 8*r+f := swapc (entry 8*(7-r)+f) *)
Definition mirror_board (b : board) : board := map (fun i => swapc (nth (flip_idx i) b None)) (seq 0 64).

Definition mirror_move (m : smove) : smove := mkM (mf m) (7 - mr m) (tf m) (7 - tr m) (promo m).

Definition mirror_ep (e : option (Z * Z)) : option (Z * Z) :=
  match e with Some (f, r) => Some (f, 7 - r) | None => None end.

Definition mirror_state (s : sstate) : sstate :=
  mkS (mirror_board (s_board s)) (opp (s_turn s)) (s_bk s) (s_bq s) (s_wk s) (s_wq s)
      (mirror_ep (s_ep s)) (s_half s) (s_full s).

(* ------------------------------------------------------------------ small facts *)
Lemma swapc_invol o : swapc (swapc o) = o.
Proof. destruct o as [[[] k]|]; reflexivity. Qed.
Lemma opp_invol c : opp (opp c) = c.
Proof. destruct c; reflexivity. Qed.
Lemma is_col_swap c o : is_col (opp c) (swapc o) = is_col c o.
Proof. destruct o as [[c' k']|]; [|reflexivity]. destruct c, c'; reflexivity. Qed.
Lemma is_empty_swap o : is_empty (swapc o) = is_empty o.
Proof. destruct o as [[c' k']|]; reflexivity. Qed.
Lemma colour_eqb_opp c c' : colour_eqb (opp c) (opp c') = colour_eqb c c'.
Proof. destruct c, c'; reflexivity. Qed.
Lemma home_opp c : home (opp c) = 7 - home c.
Proof. destruct c; reflexivity. Qed.
Lemma eqb_mir x y : (7 - x =? 7 - y) = (x =? y).
Proof. destruct (Z.eqb_spec (7 - x) (7 - y)), (Z.eqb_spec x y); try reflexivity; lia. Qed.
Lemma eqb_mir_l x y : (7 - x =? y) = (x =? 7 - y).
Proof. destruct (Z.eqb_spec (7 - x) y), (Z.eqb_spec x (7 - y)); try reflexivity; lia. Qed.

Lemma onb_bounds f r : onb f r = true <-> 0 <= f < 8 /\ 0 <= r < 8.
Proof. unfold onb. rewrite !andb_true_iff. lia. Qed.

Lemma forallb_eq {A} (g h : A -> bool) l : (forall a, g a = h a) -> forallb g l = forallb h l.
Proof. intros E. induction l as [|a l IH]; cbn [forallb]; [reflexivity|]. rewrite E, IH. reflexivity. Qed.

Lemma mirror_move_invol m : mirror_move (mirror_move m) = m.
Proof. destruct m as [a b c d e]. unfold mirror_move. cbn [mf mr tf tr promo]. f_equal; lia. Qed.

Lemma mirror_ep_invol e : mirror_ep (mirror_ep e) = e.
Proof. destruct e as [[f r]|]; [|reflexivity]. cbn [mirror_ep]. f_equal. f_equal. lia. Qed.

(* ------------------------------------------------------------------ M0: the mirror board *)
Lemma flip_idx_lt i : (i < 64)%nat -> (flip_idx i < 64)%nat.
Proof. unfold flip_idx. lia. Qed.
Lemma flip_idx_invol i : (i < 64)%nat -> flip_idx (flip_idx i) = i.
Proof. unfold flip_idx. lia. Qed.

Lemma mirror_board_length b : length (mirror_board b) = 64%nat.
Proof. unfold mirror_board. rewrite map_length, seq_length. reflexivity. Qed.

Lemma nth_mirror_board b i : (i < 64)%nat -> nth i (mirror_board b) None = swapc (nth (flip_idx i) b None).
Proof.
  intros Hi. unfold mirror_board.
  rewrite (nth_indep _ None ((fun i => swapc (nth (flip_idx i) b None)) 0%nat)) by (rewrite map_length, seq_length; exact Hi).
  rewrite (map_nth (fun i => swapc (nth (flip_idx i) b None))), seq_nth by exact Hi. reflexivity.
Qed.

Lemma flip_idx_idx f r : onb f r = true -> flip_idx (idx f r) = idx f (7 - r).
Proof. intros Hb. apply onb_bounds in Hb. unfold flip_idx, idx. lia. Qed.

(* no length condition: entries beyond the end of b read as None on both sides *)
Theorem mirror_board_mirrored b : mirrored b (mirror_board b).
Proof.
  intros f r. unfold at_. rewrite onb_mirror. destruct (onb f r) eqn:Hb; [|reflexivity].
  rewrite nth_mirror_board by (apply onb_bounds in Hb; unfold idx; lia).
  rewrite (flip_idx_idx f r Hb). reflexivity.
Qed.

Lemma mirrored_sym b b' : mirrored b b' -> mirrored b' b.
Proof.
  intros H f r. rewrite (H f (7 - r)). replace (7 - (7 - r)) with r by lia. rewrite swapc_invol. reflexivity.
Qed.

Lemma mir_at b b' : mirrored b b' -> forall f r r', r' = 7 - r -> at_ b' f r' = swapc (at_ b f r).
Proof. intros H f r r' ->. rewrite H. replace (7 - (7 - r)) with r by lia. reflexivity. Qed.

(* boards of 64 entries are determined by at_ *)
Lemma at_ext (b1 b2 : board) : length b1 = 64%nat -> length b2 = 64%nat ->
  (forall f r, at_ b1 f r = at_ b2 f r) -> b1 = b2.
Proof.
  intros L1 L2 H. apply list_ext64; [exact L1|exact L2|]. intros i Hi.
  specialize (H (Z.of_nat (i mod 8)) (Z.of_nat (i / 8))). unfold at_ in H.
  assert (Hb : onb (Z.of_nat (i mod 8)) (Z.of_nat (i / 8)) = true) by (apply onb_bounds; lia).
  rewrite Hb in H. replace (idx (Z.of_nat (i mod 8)) (Z.of_nat (i / 8))) with i in H by (unfold idx; lia). exact H.
Qed.

Lemma mirrored_unique b b1 b2 : mirrored b b1 -> mirrored b b2 -> length b1 = 64%nat -> length b2 = 64%nat -> b1 = b2.
Proof. intros H1 H2 L1 L2. apply at_ext; [exact L1|exact L2|]. intros f r. rewrite H1, H2. reflexivity. Qed.

Theorem mirror_board_invol b : length b = 64%nat -> mirror_board (mirror_board b) = b.
Proof.
  intros L. apply (mirrored_unique (mirror_board b)).
  - apply mirror_board_mirrored.
  - apply mirrored_sym, mirror_board_mirrored.
  - apply mirror_board_length.
  - exact L.
Qed.

Theorem mirror_state_invol s : length (s_board s) = 64%nat -> mirror_state (mirror_state s) = s.
Proof.
  intros L. destruct s as [b c wk wq bk bq e h fl]. unfold mirror_state.
  cbn [s_board s_turn s_wk s_wq s_bk s_bq s_ep s_half s_full] in *.
  rewrite mirror_board_invol, opp_invol, mirror_ep_invol by exact L. reflexivity.
Qed.

(* ------------------------------------------------------------------ the relation "s' is a mirror image of s" *)
(* everything but the fullmove counter; stated as a relation so that it applies both to mirror_state s and to
   pairs of abstract states of the engine *)
Record MS (s s' : sstate) : Prop := {
  ms_board : mirrored (s_board s) (s_board s');
  ms_turn : s_turn s' = opp (s_turn s);
  ms_wk : s_wk s' = s_bk s;
  ms_wq : s_wq s' = s_bq s;
  ms_bk : s_bk s' = s_wk s;
  ms_bq : s_bq s' = s_wq s;
  ms_ep : s_ep s' = mirror_ep (s_ep s);
  ms_half : s_half s' = s_half s
}.

Lemma MS_mirror_state s : MS s (mirror_state s).
Proof. split; try reflexivity. apply mirror_board_mirrored. Qed.

Lemma MS_sym s s' : MS s s' -> MS s' s.
Proof.
  intros [Hb Ht Hwk Hwq Hbk Hbq He Hh]. split.
  - apply mirrored_sym, Hb.
  - rewrite Ht, opp_invol. reflexivity.
  - symmetry; exact Hbk.
  - symmetry; exact Hbq.
  - symmetry; exact Hwk.
  - symmetry; exact Hwq.
  - rewrite He, mirror_ep_invol. reflexivity.
  - symmetry; exact Hh.
Qed.

Lemma kright_MS s s' c : MS s s' -> kright s' (opp c) = kright s c.
Proof. intros H. destruct c; cbn [opp kright]; [apply (ms_bk _ _ H)|apply (ms_wk _ _ H)]. Qed.
Lemma qright_MS s s' c : MS s s' -> qright s' (opp c) = qright s c.
Proof. intros H. destruct c; cbn [opp qright]; [apply (ms_bq _ _ H)|apply (ms_wq _ _ H)]. Qed.

(* ------------------------------------------------------------------ all_squares *)
Lemma all_squares_onb f r : In (f, r) all_squares <-> onb f r = true.
Proof.
  split.
  - intros H. assert (A : forallb (fun sq => onb (fst sq) (snd sq)) all_squares = true) by (vm_compute; reflexivity).
    rewrite forallb_forall in A. exact (A (f, r) H).
  - intros H. apply onb_bounds in H. unfold all_squares. apply in_flat_map. exists r. split; [cbn [In]; lia|].
    apply in_map_iff. exists f. split; [reflexivity|cbn [In]; lia].
Qed.

Lemma all_squares_mirror f r : In (f, r) all_squares -> In (f, 7 - r) all_squares.
Proof. rewrite !all_squares_onb, onb_mirror. exact (fun H => H). Qed.

(* ------------------------------------------------------------------ M1: pseudo-legal moves, piece by piece *)
(* a direction list closed under negating the rank component *)
Definition closed_d (ds : list (Z * Z)) : Prop := forall d, In d ds -> In (fst d, - snd d) ds.

Ltac in_list := cbn [In]; repeat first [left; reflexivity | right].
Lemma knight_closed : closed_d knight_d.
Proof. unfold closed_d, knight_d. cbn [In]. intros d H. repeat (destruct H as [<-|H]; [cbn [fst snd Z.opp]; in_list|]). destruct H. Qed.
Lemma king_closed : closed_d king_d.
Proof. unfold closed_d, king_d. cbn [In]. intros d H. repeat (destruct H as [<-|H]; [cbn [fst snd Z.opp]; in_list|]). destruct H. Qed.
Lemma diag_closed : closed_d diag_d.
Proof. unfold closed_d, diag_d. cbn [In]. intros d H. repeat (destruct H as [<-|H]; [cbn [fst snd Z.opp]; in_list|]). destruct H. Qed.
Lemma orth_closed : closed_d orth_d.
Proof. unfold closed_d, orth_d. cbn [In]. intros d H. repeat (destruct H as [<-|H]; [cbn [fst snd Z.opp]; in_list|]). destruct H. Qed.
Lemma app_closed a b : closed_d a -> closed_d b -> closed_d (a ++ b).
Proof. intros Ha Hb d H. apply in_app_or in H. apply in_or_app. destruct H; [left; apply Ha|right; apply Hb]; assumption. Qed.

Lemma flat_map_mirror (g g' : Z * Z -> list smove) ds : closed_d ds ->
  (forall d, g' (fst d, - snd d) = map mirror_move (g d)) ->
  forall m, In m (flat_map g ds) -> In (mirror_move m) (flat_map g' ds).
Proof.
  intros Hc Hg m H. apply in_flat_map in H. destruct H as (d & Hd & Hm).
  apply in_flat_map. exists (fst d, - snd d). split; [apply Hc; exact Hd|].
  rewrite Hg. apply in_map. exact Hm.
Qed.

Section Pieces.
Variables b b' : board.
Hypothesis Hm : mirrored b b'.

Lemma slide_mirror c : forall n f0 r0 f r df dr,
  slide n b' (opp c) f0 (7 - r0) f (7 - r) df (- dr) = map mirror_move (slide n b c f0 r0 f r df dr).
Proof.
  induction n as [|n IH]; intros f0 r0 f r df dr; cbn [slide]; [reflexivity|]. cbv zeta.
  replace (7 - r + - dr) with (7 - (r + dr)) by lia. rewrite onb_mirror.
  destruct (onb (f + df) (r + dr)); [|reflexivity].
  rewrite (mir_at b b' Hm (f + df) (r + dr)) by reflexivity.
  destruct (at_ b (f + df) (r + dr)) as [[c' k]|]; cbn [swapc].
  - rewrite colour_eqb_opp. destruct (colour_eqb c c'); reflexivity.
  - cbn [map]. rewrite IH. reflexivity.
Qed.

Lemma slides_mirror c f r ds : closed_d ds -> forall m,
  In m (flat_map (fun d => slide 7 b c f r f r (fst d) (snd d)) ds) ->
  In (mirror_move m) (flat_map (fun d => slide 7 b' (opp c) f (7 - r) f (7 - r) (fst d) (snd d)) ds).
Proof.
  intros Hc. apply flat_map_mirror; [exact Hc|]. intros d. cbv beta. cbn [fst snd]. apply slide_mirror.
Qed.

Lemma step_mirror c f r ds : closed_d ds -> forall m,
  In m (step_moves b c f r ds) -> In (mirror_move m) (step_moves b' (opp c) f (7 - r) ds).
Proof.
  intros Hc. unfold step_moves. apply flat_map_mirror; [exact Hc|]. intros d. cbv beta zeta. cbn [fst snd].
  replace (7 - r + - snd d) with (7 - (r + snd d)) by lia. rewrite onb_mirror.
  rewrite (mir_at b b' Hm (f + fst d) (r + snd d)) by reflexivity. rewrite is_col_swap.
  destruct (onb (f + fst d) (r + snd d) && negb (is_col c (at_ b (f + fst d) (r + snd d)))); reflexivity.
Qed.
End Pieces.

(* ---- pawns: pawn_moves with direction and start rank as parameters *)
Definition dirc (c : colour) : Z := match c with White => 1 | Black => -1 end.
Definition startc (c : colour) : Z := match c with White => 1 | Black => 6 end.
Lemma dirc_opp c : dirc (opp c) = - dirc c.
Proof. destruct c; reflexivity. Qed.
Lemma startc_opp c : startc (opp c) = 7 - startc c.
Proof. destruct c; reflexivity. Qed.

Definition pawn_cap (b : board) (c : colour) (e : option (Z * Z)) (dir f r df : Z) : list smove :=
  let f' := f + df in let r' := r + dir in
  if onb f' r' then
    if is_col (opp c) (at_ b f' r') then with_promo c (mkM f r f' r' None)
    else match e with
         | Some (ef, er) => if (ef =? f') && (er =? r') && is_empty (at_ b f' r') then [mkM f r f' r' None] else []
         | None => []
         end
  else [].

Definition pawn_gen (b : board) (c : colour) (e : option (Z * Z)) (dir start f r : Z) : list smove :=
  (if onb f (r + dir) && is_empty (at_ b f (r + dir)) then with_promo c (mkM f r f (r + dir) None) else [])
  ++ (if (r =? start) && is_empty (at_ b f (r + dir)) && is_empty (at_ b f (r + 2 * dir))
      then [mkM f r f (r + 2 * dir) None] else [])
  ++ pawn_cap b c e dir f r 1 ++ pawn_cap b c e dir f r (-1).

Lemma pawn_moves_gen s f r :
  pawn_moves s f r = pawn_gen (s_board s) (s_turn s) (s_ep s) (dirc (s_turn s)) (startc (s_turn s)) f r.
Proof. reflexivity. Qed.

Lemma with_promo_mirror c m : with_promo (opp c) (mirror_move m) = map mirror_move (with_promo c m).
Proof.
  unfold with_promo. unfold mirror_move at 1. cbn [tr mf mr tf promo].
  rewrite (home_opp (opp c)), eqb_mir. destruct (tr m =? home (opp c)); reflexivity.
Qed.

Lemma pawn_cap_mirror b b' c e dir f r df : mirrored b b' ->
  pawn_cap b' (opp c) (mirror_ep e) (- dir) f (7 - r) df = map mirror_move (pawn_cap b c e dir f r df).
Proof.
  intros Hm. unfold pawn_cap. cbv zeta.
  replace (7 - r + - dir) with (7 - (r + dir)) by lia. rewrite onb_mirror.
  destruct (onb (f + df) (r + dir)); [|reflexivity].
  rewrite (mir_at b b' Hm (f + df) (r + dir)) by reflexivity. rewrite is_col_swap, is_empty_swap.
  destruct (is_col (opp c) (at_ b (f + df) (r + dir))).
  - exact (with_promo_mirror c (mkM f r (f + df) (r + dir) None)).
  - destruct e as [[ef er]|]; [|reflexivity]. cbn [mirror_ep]. rewrite eqb_mir.
    destruct ((ef =? f + df) && (er =? r + dir) && is_empty (at_ b (f + df) (r + dir))); reflexivity.
Qed.

Lemma pawn_gen_mirror b b' c e dir start f r : mirrored b b' ->
  pawn_gen b' (opp c) (mirror_ep e) (- dir) (7 - start) f (7 - r) = map mirror_move (pawn_gen b c e dir start f r).
Proof.
  intros Hm. unfold pawn_gen. rewrite !map_app, !(pawn_cap_mirror b b') by exact Hm.
  replace (7 - r + - dir) with (7 - (r + dir)) by lia.
  replace (7 - r + 2 * - dir) with (7 - (r + 2 * dir)) by lia.
  rewrite onb_mirror, eqb_mir.
  rewrite (mir_at b b' Hm f (r + dir)), (mir_at b b' Hm f (r + 2 * dir)) by reflexivity. rewrite !is_empty_swap.
  f_equal; [|f_equal].
  - destruct (onb f (r + dir) && is_empty (at_ b f (r + dir))); [|reflexivity].
    exact (with_promo_mirror c (mkM f r f (r + dir) None)).
  - destruct ((r =? start) && is_empty (at_ b f (r + dir)) && is_empty (at_ b f (r + 2 * dir))); reflexivity.
Qed.

Lemma pawn_mirror s s' f r : MS s s' -> pawn_moves s' f (7 - r) = map mirror_move (pawn_moves s f r).
Proof.
  intros H. rewrite !pawn_moves_gen. rewrite (ms_turn _ _ H), (ms_ep _ _ H), dirc_opp, startc_opp.
  apply pawn_gen_mirror. exact (ms_board _ _ H).
Qed.

(* ---- castling *)
Lemma castle_mirror s s' kf right kside : MS s s' ->
  castle_moves s' kf right kside = map mirror_move (castle_moves s kf right kside).
Proof.
  intros H. pose proof (ms_board _ _ H) as Hm. unfold castle_moves. destruct right as [rf|]; [|reflexivity]. cbv zeta.
  rewrite (ms_turn _ _ H), home_opp.
  set (b := s_board s) in *. set (b' := s_board s') in *. set (c := s_turn s). set (h := home c).
  rewrite (mir_at b b' Hm rf h) by reflexivity. rewrite is_man_swap.
  assert (E1 : forall l, forallb (fun x => (x =? kf) || (x =? rf) || is_empty (at_ b' x (7 - h))) l
                       = forallb (fun x => (x =? kf) || (x =? rf) || is_empty (at_ b x h)) l).
  { intros l. apply forallb_eq. intros x. rewrite (mir_at b b' Hm x h) by reflexivity. rewrite is_empty_swap. reflexivity. }
  assert (E2 : forall l, forallb (fun x => negb (attacked b' (opp (opp c)) x (7 - h))) l
                       = forallb (fun x => negb (attacked b (opp c) x h)) l).
  { intros l. apply forallb_eq. intros x. rewrite (attacked_mirror b b' (opp c) x h Hm). reflexivity. }
  rewrite E1, E2.
  destruct (is_man c Rook (at_ b rf h) && (if kside then kf <? rf else rf <? kf)
            && forallb (fun x => (x =? kf) || (x =? rf) || is_empty (at_ b x h))
                       (between_incl kf (if kside then 6 else 2) ++ between_incl rf (if kside then 5 else 3))
            && forallb (fun x => negb (attacked b (opp c) x h)) (between_incl kf (if kside then 6 else 2))); reflexivity.
Qed.

(* ---- the moves of the man on one square *)
Definition cell (s : sstate) (sq : Z * Z) : list smove :=
  let b := s_board s in
  let c := s_turn s in
  let f := fst sq in let r := snd sq in
  match at_ b f r with
  | Some (c', k) =>
    if colour_eqb c c' then
      match k with
      | Pawn => pawn_moves s f r
      | Knight => step_moves b c f r knight_d
      | Bishop => flat_map (fun d => slide 7 b c f r f r (fst d) (snd d)) diag_d
      | Rook => flat_map (fun d => slide 7 b c f r f r (fst d) (snd d)) orth_d
      | Queen => flat_map (fun d => slide 7 b c f r f r (fst d) (snd d)) (diag_d ++ orth_d)
      | King => step_moves b c f r king_d
                ++ (if r =? home c then castle_moves s f (kright s c) true ++ castle_moves s f (qright s c) false else [])
      end
    else []
  | None => []
  end.

Lemma pseudo_cell s : pseudo_moves s = flat_map (cell s) all_squares.
Proof. reflexivity. Qed.

Lemma cell_mirror s s' f r : MS s s' -> forall m, In m (cell s (f, r)) -> In (mirror_move m) (cell s' (f, 7 - r)).
Proof.
  intros H. pose proof (ms_board _ _ H) as Hm. unfold cell. cbv zeta. cbn [fst snd].
  rewrite (mir_at _ _ Hm f r) by reflexivity. rewrite (ms_turn _ _ H).
  destruct (at_ (s_board s) f r) as [[c' k]|]; cbn [swapc]; [|intros m []].
  rewrite colour_eqb_opp. destruct (colour_eqb (s_turn s) c'); [|intros m []].
  destruct k.
  - rewrite (pawn_mirror s s' f r H). intros m Hin. apply in_map. exact Hin.
  - apply (step_mirror _ _ Hm). exact knight_closed.
  - apply (slides_mirror _ _ Hm). exact diag_closed.
  - apply (slides_mirror _ _ Hm). exact orth_closed.
  - apply (slides_mirror _ _ Hm). exact (app_closed _ _ diag_closed orth_closed).
  - intros m Hin. apply in_app_or in Hin. apply in_or_app. destruct Hin as [Hin|Hin].
    + left. apply (step_mirror _ _ Hm); [exact king_closed|exact Hin].
    + right. rewrite home_opp, eqb_mir. destruct (r =? home (s_turn s)); [|destruct Hin].
      rewrite (kright_MS s s' _ H), (qright_MS s s' _ H), !(castle_mirror s s') by exact H.
      rewrite <- map_app. apply in_map. exact Hin.
Qed.

Lemma pseudo_mirror_dir s s' m : MS s s' -> In m (pseudo_moves s) -> In (mirror_move m) (pseudo_moves s').
Proof.
  intros H. rewrite !pseudo_cell, !in_flat_map. intros ([f r] & Hsq & Hin).
  exists (f, 7 - r). split; [apply all_squares_mirror; exact Hsq|apply (cell_mirror s s' f r H); exact Hin].
Qed.

(* M1, for any pair of states related by MS *)
Theorem pseudo_mirror s s' m : MS s s' -> In m (pseudo_moves s) <-> In (mirror_move m) (pseudo_moves s').
Proof.
  intros H. split; [apply pseudo_mirror_dir; exact H|].
  intros Hin. rewrite <- (mirror_move_invol m). apply (pseudo_mirror_dir s' s); [apply MS_sym; exact H|exact Hin].
Qed.

Theorem pseudo_mirror_state s m : In m (pseudo_moves s) <-> In (mirror_move m) (pseudo_moves (mirror_state s)).
Proof. apply pseudo_mirror, MS_mirror_state. Qed.

(* ------------------------------------------------------------------ M3: in_check_of *)
(* colour c has at most one king on b (king_sq takes the first king in scan order, and the mirror image is
   scanned in a different order) *)
Definition one_king (b : board) (c : colour) : Prop :=
  forall x y, In x all_squares -> In y all_squares ->
    is_man c King (at_ b (fst x) (snd x)) = true -> is_man c King (at_ b (fst y) (snd y)) = true -> x = y.

Lemma pair_inj (a b c d : Z) : (a, b) = (c, d) -> a = c /\ b = d.
Proof. intros E. split; [exact (f_equal fst E)|exact (f_equal snd E)]. Qed.

Lemma one_king_mirror b b' c : mirrored b b' -> one_king b c -> one_king b' (opp c).
Proof.
  intros Hm H [f r] [f' r'] Hx Hy. cbn [fst snd].
  rewrite (mir_at b b' Hm f (7 - r)), (mir_at b b' Hm f' (7 - r')) by lia. rewrite !is_man_swap. intros K1 K2.
  specialize (H (f, 7 - r) (f', 7 - r') (all_squares_mirror _ _ Hx) (all_squares_mirror _ _ Hy) K1 K2).
  apply pair_inj in H. destruct H as [-> E]. f_equal. lia.
Qed.

Theorem in_check_mirror b b' c : mirrored b b' -> one_king b c -> in_check_of b' (opp c) = in_check_of b c.
Proof.
  intros Hm H1. unfold in_check_of, king_sq.
  set (p := fun s : Z * Z => is_man c King (at_ b (fst s) (snd s))).
  set (p' := fun s : Z * Z => is_man (opp c) King (at_ b' (fst s) (snd s))).
  assert (Hp : forall f r, p' (f, 7 - r) = p (f, r)).
  { intros f r. unfold p, p'. cbn [fst snd]. rewrite (mir_at b b' Hm f r) by reflexivity. apply is_man_swap. }
  destruct (find p all_squares) as [[f r]|] eqn:E.
  - apply find_some in E. destruct E as [Hin Hk].
    destruct (find p' all_squares) as [[f' r']|] eqn:E'.
    + apply find_some in E'. destruct E' as [Hin' Hk'].
      assert (Hk2 : p (f', 7 - r') = true) by (rewrite <- Hp; replace (7 - (7 - r')) with r' by lia; exact Hk').
      pose proof (H1 (f, r) (f', 7 - r') Hin (all_squares_mirror _ _ Hin') Hk Hk2) as Q.
      apply pair_inj in Q. destruct Q as [-> ->]. replace r' with (7 - (7 - r')) at 1 by lia.
      apply (attacked_mirror b b' (opp c) f' (7 - r') Hm).
    + pose proof (find_none _ _ E' (f, 7 - r) (all_squares_mirror _ _ Hin)) as Q. rewrite Hp in Q. congruence.
  - destruct (find p' all_squares) as [[f' r']|] eqn:E'; [|reflexivity].
    apply find_some in E'. destruct E' as [Hin' Hk'].
    assert (Hk2 : p (f', 7 - r') = true) by (rewrite <- Hp; replace (7 - (7 - r')) with r' by lia; exact Hk').
    pose proof (find_none _ _ E (f', 7 - r') (all_squares_mirror _ _ Hin')) as Q. congruence.
Qed.

Theorem in_check_mirror_board b c : one_king b c -> in_check_of (mirror_board b) (opp c) = in_check_of b c.
Proof. apply in_check_mirror, mirror_board_mirrored. Qed.

(* ------------------------------------------------------------------ M2: apply *)
Lemma put_length b f r v : length (put b f r v) = length b.
Proof. unfold put. destruct (onb f r); [apply upd_length|reflexivity]. Qed.

Lemma at_put b f r v x y : length b = 64%nat ->
  at_ (put b f r v) x y = if onb f r && (x =? f) && (y =? r) then v else at_ b x y.
Proof.
  intros L. unfold put. destruct (onb f r) eqn:Hb; cbn [andb]; [|reflexivity].
  pose proof (proj1 (onb_bounds f r) Hb) as Bf.
  unfold at_. destruct (onb x y) eqn:Hx.
  - pose proof (proj1 (onb_bounds x y) Hx) as Bx.
    rewrite nth_upd by (rewrite L; unfold idx; lia).
    destruct (Nat.eqb_spec (idx x y) (idx f r)) as [E|E], (Z.eqb_spec x f), (Z.eqb_spec y r); cbn [andb];
      try reflexivity; exfalso; unfold idx in E; lia.
  - destruct (Z.eqb_spec x f), (Z.eqb_spec y r); cbn [andb]; try reflexivity. subst. congruence.
Qed.

(* mirrored boards of 64 entries *)
Definition MB (b b' : board) : Prop := mirrored b b' /\ length b = 64%nat /\ length b' = 64%nat.

Lemma MB_put b b' : MB b b' -> forall f r v, MB (put b f r v) (put b' f (7 - r) (swapc v)).
Proof.
  intros (Hm & L & L') f r v. split; [|rewrite !put_length; split; assumption].
  intros x y. rewrite !at_put by assumption. rewrite onb_mirror, eqb_mir_l, Hm.
  destruct (onb f r && (x =? f) && (y =? 7 - r)); reflexivity.
Qed.

(* the components of apply *)
Definition app_board (s : sstate) (m : smove) : board :=
  let b := s_board s in
  let c := s_turn s in
  if is_castle s m then
    put (put (put (put b (mf m) (mr m) None) (tf m) (tr m) None)
             (if mf m <? tf m then 6 else 2) (mr m) (Some (c, King)))
        (if mf m <? tf m then 5 else 3) (mr m) (Some (c, Rook))
  else
    put (if is_ep_capture s m then put (put b (mf m) (mr m) None) (tf m) (mr m) None else put b (mf m) (mr m) None)
        (tf m) (tr m) (match promo m with Some k => Some (c, k) | None => at_ b (mf m) (mr m) end).
Definition app_right (s : sstate) (m : smove) (right : option Z) (rc : colour) : option Z :=
  if is_man (s_turn s) King (at_ (s_board s) (mf m) (mr m)) && colour_eqb rc (s_turn s) then None
  else lose (lose right rc (mf m) (mr m)) rc (tf m) (tr m).
Definition app_ep (s : sstate) (m : smove) : option (Z * Z) :=
  if is_man (s_turn s) Pawn (at_ (s_board s) (mf m) (mr m)) && ((tr m - mr m =? 2) || (mr m - tr m =? 2))
  then Some (mf m, (mr m + tr m) / 2) else None.
Definition app_half (s : sstate) (m : smove) : Z :=
  if is_man (s_turn s) Pawn (at_ (s_board s) (mf m) (mr m))
     || negb (is_castle s m) && (negb (is_empty (at_ (s_board s) (tf m) (tr m))) || is_ep_capture s m)
  then 0 else s_half s + 1.

Lemma apply_components s m :
  apply s m = mkS (app_board s m) (opp (s_turn s))
                  (app_right s m (s_wk s) White) (app_right s m (s_wq s) White)
                  (app_right s m (s_bk s) Black) (app_right s m (s_bq s) Black)
                  (app_ep s m) (app_half s m)
                  (match s_turn s with Black => s_full s + 1 | White => s_full s end).
Proof. reflexivity. Qed.

Section ApplyMirror.
Variables (s s' : sstate) (m : smove).
Hypothesis H : MS s s'.
Let Hm : mirrored (s_board s) (s_board s') := ms_board _ _ H.

Lemma mover_mirror : at_ (s_board s') (mf m) (7 - mr m) = swapc (at_ (s_board s) (mf m) (mr m)).
Proof. apply (mir_at _ _ Hm). reflexivity. Qed.
Lemma target_mirror : at_ (s_board s') (tf m) (7 - tr m) = swapc (at_ (s_board s) (tf m) (tr m)).
Proof. apply (mir_at _ _ Hm). reflexivity. Qed.

Lemma is_castle_mirror : is_castle s' (mirror_move m) = is_castle s m.
Proof.
  unfold is_castle, mirror_move. cbn [mf mr tf tr]. rewrite (ms_turn _ _ H), mover_mirror, target_mirror, !is_man_swap.
  reflexivity.
Qed.
Lemma is_ep_mirror : is_ep_capture s' (mirror_move m) = is_ep_capture s m.
Proof.
  unfold is_ep_capture, mirror_move. cbn [mf mr tf tr].
  rewrite (ms_turn _ _ H), mover_mirror, target_mirror, is_man_swap, is_empty_swap. reflexivity.
Qed.

Lemma app_board_mirror : length (s_board s) = 64%nat -> length (s_board s') = 64%nat ->
  MB (app_board s m) (app_board s' (mirror_move m)).
Proof.
  intros L L'. assert (B : MB (s_board s) (s_board s')) by (split; [exact Hm|split; assumption]).
  unfold app_board. cbv zeta. rewrite is_castle_mirror, is_ep_mirror.
  unfold mirror_move. cbn [mf mr tf tr promo].
  rewrite (ms_turn _ _ H), mover_mirror.
  set (b := s_board s) in *. set (b' := s_board s') in *. set (c := s_turn s).
  destruct (is_castle s m).
  - exact (MB_put _ _ (MB_put _ _ (MB_put _ _ (MB_put _ _ B (mf m) (mr m) None) (tf m) (tr m) None)
                                  (if mf m <? tf m then 6 else 2) (mr m) (Some (c, King)))
                  (if mf m <? tf m then 5 else 3) (mr m) (Some (c, Rook))).
  - assert (B1 : MB (if is_ep_capture s m then put (put b (mf m) (mr m) None) (tf m) (mr m) None else put b (mf m) (mr m) None)
                    (if is_ep_capture s m then put (put b' (mf m) (7 - mr m) None) (tf m) (7 - mr m) None
                     else put b' (mf m) (7 - mr m) None)).
    { destruct (is_ep_capture s m).
      - exact (MB_put _ _ (MB_put _ _ B (mf m) (mr m) None) (tf m) (mr m) None).
      - exact (MB_put _ _ B (mf m) (mr m) None). }
    destruct (promo m) as [k|].
    + exact (MB_put _ _ B1 (tf m) (tr m) (Some (c, k))).
    + exact (MB_put _ _ B1 (tf m) (tr m) (at_ b (mf m) (mr m))).
Qed.

Lemma lose_mirror right rc f r : lose right (opp rc) f (7 - r) = lose right rc f r.
Proof. unfold lose. destruct right as [rf|]; [|reflexivity]. rewrite home_opp, eqb_mir. reflexivity. Qed.

Lemma app_right_mirror right rc : app_right s' (mirror_move m) right (opp rc) = app_right s m right rc.
Proof.
  unfold app_right, mirror_move. cbn [mf mr tf tr]. rewrite (ms_turn _ _ H), mover_mirror, is_man_swap, colour_eqb_opp.
  rewrite !lose_mirror. reflexivity.
Qed.

Lemma app_ep_mirror : app_ep s' (mirror_move m) = mirror_ep (app_ep s m).
Proof.
  unfold app_ep, mirror_move. cbn [mf mr tf tr]. rewrite (ms_turn _ _ H), mover_mirror, is_man_swap.
  destruct (is_man (s_turn s) Pawn (at_ (s_board s) (mf m) (mr m))); cbn [andb]; [|reflexivity].
  destruct (Z.eqb_spec (tr m - mr m) 2), (Z.eqb_spec (mr m - tr m) 2),
           (Z.eqb_spec (7 - tr m - (7 - mr m)) 2), (Z.eqb_spec (7 - mr m - (7 - tr m)) 2);
    cbn [orb mirror_ep]; try reflexivity; try lia; f_equal; f_equal; lia.
Qed.

Lemma app_half_mirror : app_half s' (mirror_move m) = app_half s m.
Proof.
  unfold app_half. rewrite is_castle_mirror, is_ep_mirror. unfold mirror_move. cbn [mf mr tf tr].
  rewrite (ms_turn _ _ H), mover_mirror, target_mirror, is_man_swap, is_empty_swap, (ms_half _ _ H). reflexivity.
Qed.

(* M2, general form: the relation is kept by playing m on one side and its mirror image on the other *)
Theorem apply_MS : length (s_board s) = 64%nat -> length (s_board s') = 64%nat ->
  MS (apply s m) (apply s' (mirror_move m))
  /\ length (s_board (apply s m)) = 64%nat /\ length (s_board (apply s' (mirror_move m))) = 64%nat.
Proof.
  intros L L'. destruct (app_board_mirror L L') as (B1 & B2 & B3).
  rewrite !apply_components. cbn [s_board]. split; [|split; assumption].
  split; cbn [s_board s_turn s_wk s_wq s_bk s_bq s_ep s_half].
  - exact B1.
  - rewrite (ms_turn _ _ H). reflexivity.
  - rewrite (ms_wk _ _ H). exact (app_right_mirror (s_bk s) Black).
  - rewrite (ms_wq _ _ H). exact (app_right_mirror (s_bq s) Black).
  - rewrite (ms_bk _ _ H). exact (app_right_mirror (s_wk s) White).
  - rewrite (ms_bq _ _ H). exact (app_right_mirror (s_wq s) White).
  - exact app_ep_mirror.
  - exact app_half_mirror.
Qed.
End ApplyMirror.

Lemma apply_length s m : length (s_board (apply s m)) = length (s_board s).
Proof.
  rewrite apply_components. cbn [s_board]. unfold app_board. cbv zeta.
  destruct (is_castle s m); [|destruct (is_ep_capture s m)]; rewrite !put_length; reflexivity.
Qed.

(* equality of every component but the fullmove counter *)
Definition same_but_full (a b : sstate) : Prop :=
  s_board a = s_board b /\ s_turn a = s_turn b /\ s_wk a = s_wk b /\ s_wq a = s_wq b /\ s_bk a = s_bk b
  /\ s_bq a = s_bq b /\ s_ep a = s_ep b /\ s_half a = s_half b.

Lemma MS_same s s' : MS s s' -> length (s_board s') = 64%nat -> same_but_full s' (mirror_state s).
Proof.
  intros [Hb Ht Hwk Hwq Hbk Hbq He Hh] L. unfold same_but_full, mirror_state.
  cbn [s_board s_turn s_wk s_wq s_bk s_bq s_ep s_half]. repeat split; try assumption.
  apply (mirrored_unique (s_board s)); [exact Hb|apply mirror_board_mirrored|exact L|apply mirror_board_length].
Qed.

(* M2 for mirror_state: all components but s_full agree ... *)
Theorem apply_mirror_state s m : length (s_board s) = 64%nat ->
  same_but_full (apply (mirror_state s) (mirror_move m)) (mirror_state (apply s m)).
Proof.
  intros L. destruct (apply_MS s (mirror_state s) m (MS_mirror_state s) L (mirror_board_length _)) as (A & _ & B).
  apply MS_same; assumption.
Qed.

(* ... and s_full does not: the side that counts the move is the other one *)
Lemma apply_mirror_full s m :
  s_full (apply (mirror_state s) (mirror_move m)) = match s_turn s with White => s_full s + 1 | Black => s_full s end
  /\ s_full (mirror_state (apply s m)) = match s_turn s with White => s_full s | Black => s_full s + 1 end.
Proof. rewrite !apply_components. cbn [s_full mirror_state s_turn]. destruct (s_turn s); split; reflexivity. Qed.

(* ------------------------------------------------------------------ M4: legal moves *)
(* premise: after every pseudo-legal move the mover has at most one king *)
Definition one_king_after (s : sstate) : Prop :=
  forall m, In m (pseudo_moves s) -> one_king (s_board (apply s m)) (s_turn s).

Theorem legal_mirror s s' m : MS s s' -> length (s_board s) = 64%nat -> length (s_board s') = 64%nat ->
  one_king_after s -> In m (legal s) <-> In (mirror_move m) (legal s').
Proof.
  intros H L L' K. unfold legal. rewrite !filter_In, <- (pseudo_mirror s s' m H).
  split; intros [Hin Hc]; (split; [exact Hin|]).
  - destruct (apply_MS s s' m H L L') as (A & _ & _).
    rewrite (ms_turn _ _ H), (in_check_mirror _ _ (s_turn s) (ms_board _ _ A) (K m Hin)). exact Hc.
  - destruct (apply_MS s s' m H L L') as (A & _ & _).
    rewrite (ms_turn _ _ H), (in_check_mirror _ _ (s_turn s) (ms_board _ _ A) (K m Hin)) in Hc. exact Hc.
Qed.

Theorem legal_mirror_state s m : length (s_board s) = 64%nat -> one_king_after s ->
  In m (legal s) <-> In (mirror_move m) (legal (mirror_state s)).
Proof. intros L K. apply legal_mirror; [apply MS_mirror_state|exact L|apply mirror_board_length|exact K]. Qed.

(* the premise itself is symmetric *)
Lemma one_king_after_mirror s s' : MS s s' -> length (s_board s) = 64%nat -> length (s_board s') = 64%nat ->
  one_king_after s -> one_king_after s'.
Proof.
  intros H L L' K m' Hin. rewrite <- (mirror_move_invol m') in *.
  apply (pseudo_mirror s s' (mirror_move m') H) in Hin.
  destruct (apply_MS s s' (mirror_move m') H L L') as (A & _ & _).
  rewrite (ms_turn _ _ H). apply (one_king_mirror _ _ _ (ms_board _ _ A)). apply K. exact Hin.
Qed.

(* ------------------------------------------------------------------ M5: the engine's abstraction *)
(* With Black to move the stored bitboards are the mirror image of the absolute placement; reading the same
   bitboards as "White to move" (set_turn p false) gives the mirror-image state. *)
Lemma board_of_mirror p : turn p = true -> board_of p = mirror_board (board_of (set_turn p false)).
Proof.
  intros Ht. apply (mirrored_unique (board_of (set_turn p false))).
  - apply board_mirrored. exact Ht.
  - apply mirror_board_mirrored.
  - apply board_length.
  - apply mirror_board_length.
Qed.

Theorem abs_state_mirror p : turn p = true -> (forall e, ep p = Some e -> (e < 64)%N) ->
  abs_state p = mirror_state (abs_state (set_turn p false)).
Proof.
  intros Ht He. unfold mirror_state, abs_state. cbn [s_board s_turn s_wk s_wq s_bk s_bq s_ep s_half s_full].
  rewrite <- (board_of_mirror p Ht).
  change (turn (set_turn p false)) with false.
  change (us_ksc (set_turn p false)) with (us_ksc p). change (us_qsc (set_turn p false)) with (us_qsc p).
  change (them_ksc (set_turn p false)) with (them_ksc p). change (them_qsc (set_turn p false)) with (them_qsc p).
  change (cf0 (set_turn p false)) with (cf0 p). change (cf1 (set_turn p false)) with (cf1 p).
  change (cf2 (set_turn p false)) with (cf2 p). change (cf3 (set_turn p false)) with (cf3 p).
  change (ep (set_turn p false)) with (ep p).
  change (halfmoves (set_turn p false)) with (halfmoves p). change (fullmoves (set_turn p false)) with (fullmoves p).
  rewrite Ht. cbn [negb colour_of_turn opp]. f_equal.
  destruct (ep p) as [e|] eqn:E; [|reflexivity]. specialize (He e eq_refl). cbv zeta. cbn [mirror_ep].
  rewrite !file_rel, !rank_rel by exact He. rewrite Ht. change (turn (set_turn p false)) with false. cbv iota.
  f_equal. f_equal. lia.
Qed.

Theorem dec_mirror p m : turn p = true -> (m_from m < 64)%N -> (m_to m < 64)%N ->
  dec p m = mirror_move (dec (set_turn p false) m).
Proof.
  intros Ht Hf Hto. unfold dec, mirror_move. cbv zeta. cbn [mf mr tf tr promo].
  rewrite !file_rel, !rank_rel by assumption. rewrite Ht. change (turn (set_turn p false)) with false. cbv iota.
  f_equal; lia.
Qed.

(* the legal moves of a Black-to-move abstract state are the mirror images of those of the White-frame reading *)
Theorem legal_abs_mirror p m : turn p = true -> (forall e, ep p = Some e -> (e < 64)%N) ->
  one_king_after (abs_state (set_turn p false)) ->
  In m (legal (abs_state (set_turn p false))) <-> In (mirror_move m) (legal (abs_state p)).
Proof.
  intros Ht He K. rewrite (abs_state_mirror p Ht He). apply legal_mirror_state; [apply board_length|exact K].
Qed.

Theorem pseudo_abs_mirror p m : turn p = true -> (forall e, ep p = Some e -> (e < 64)%N) ->
  In m (pseudo_moves (abs_state (set_turn p false))) <-> In (mirror_move m) (pseudo_moves (abs_state p)).
Proof. intros Ht He. rewrite (abs_state_mirror p Ht He). apply pseudo_mirror_state. Qed.

Print Assumptions mirror_board_mirrored.
Print Assumptions mirror_board_invol.
Print Assumptions mirror_state_invol.
Print Assumptions pseudo_mirror.
Print Assumptions apply_MS.
Print Assumptions apply_mirror_state.
Print Assumptions in_check_mirror.
Print Assumptions legal_mirror.
Print Assumptions legal_mirror_state.
Print Assumptions one_king_after_mirror.
Print Assumptions abs_state_mirror.
Print Assumptions dec_mirror.
Print Assumptions legal_abs_mirror.
