(* C02 (move clause), part 2: the placement after a non-castling move, in absolute coordinates, is the one
   Rules.apply prescribes: origin emptied, en-passant victim removed, the mover (or the promotion piece) on the
   target, every other square untouched. *)
From Coq Require Import NArith ZArith List Bool Lia ZifyN ZifyBool.
From Rawr Require Import Consts Bits Magic Position MoveGen MakeMove MakeStages Rules Abs BitsFacts FlipFacts AbsFacts MakeFacts.
Import ListNotations.
Local Open Scope N_scope.

(* ------------------------------------------------------------------ man_at from the bits of one square *)
Lemma man_at_bits p a :
  man_at p a = match piece_on p (rel_sq p a) with
               | None => None
               | Some k => if ub p (rel_sq p a) then Some (colour_of_turn (turn p), kind_of_N k)
                           else if tb p (rel_sq p a) then Some (colour_of_turn (negb (turn p)), kind_of_N k) else None
               end.
Proof. reflexivity. Qed.

Lemma man_at_empty p a : empty_at p (rel_sq p a) -> man_at p a = None.
Proof. intros H. rewrite man_at_bits, (empty_piece_on _ _ H). reflexivity. Qed.

Lemma man_at_holds p a t k : holds p (rel_sq p a) t k ->
  man_at p a = Some (colour_of_turn (xorb (turn p) t), kind_of_N k).
Proof.
  intros H. rewrite man_at_bits, (holds_piece_on _ _ _ _ H). destruct H as (_ & Hu & Ht & _).
  rewrite Hu, Ht. destruct t; cbn [negb]; [rewrite xorb_true_r|rewrite xorb_false_r]; reflexivity.
Qed.

Lemma man_at_same p q a : turn q = turn p -> same_at p q (rel_sq p a) -> man_at q a = man_at p a.
Proof.
  intros Ht H. rewrite !man_at_bits. unfold rel_sq. rewrite Ht. fold (rel_sq p a).
  rewrite (same_piece_on _ _ _ H). destruct H as (Hu & Hth & _). rewrite Hu, Hth. reflexivity.
Qed.

(* ------------------------------------------------------------------ relative <-> absolute squares *)
Lemma rel_sq_invol p a : rel_sq p (rel_sq p a) = a.
Proof. unfold rel_sq. destruct (turn p); [apply flip_sq_invol|reflexivity]. Qed.
Lemma rel_sq_lt p a : a < 64 -> rel_sq p a < 64.
Proof. unfold rel_sq. destruct (turn p); [apply flipbit_lt|auto]. Qed.
Lemma rel_sq_inj p a b : rel_sq p a = rel_sq p b -> a = b.
Proof. intros H. rewrite <- (rel_sq_invol p a), H. apply rel_sq_invol. Qed.

(* ------------------------------------------------------------------ boards as lists *)
Lemma nth_board p i : (i < 64)%nat -> nth i (board_of p) None = man_at p (N.of_nat i).
Proof.
  intros Hi. unfold board_of.
  rewrite (nth_indep _ None (man_at p (N.of_nat 0))) by (rewrite map_length, seq_length; exact Hi).
  rewrite (map_nth (fun i => man_at p (N.of_nat i))), seq_nth by exact Hi. reflexivity.
Qed.
Lemma board_length p : length (board_of p) = 64%nat.
Proof. unfold board_of. rewrite map_length, seq_length. reflexivity. Qed.

Lemma upd_length b i v : length (upd b i v) = length b.
Proof. revert i. induction b as [|x b IH]; intros [|i]; cbn; try reflexivity. rewrite IH. reflexivity. Qed.
Lemma nth_upd b i v j d : (i < length b)%nat -> nth j (upd b i v) d = if Nat.eqb j i then v else nth j b d.
Proof.
  revert i j. induction b as [|x b IH]; intros [|i] [|j] H; cbn in *; try lia; try reflexivity.
  apply IH. lia.
Qed.

Lemma list_ext64 (a b : board) : length a = 64%nat -> length b = 64%nat ->
  (forall i, (i < 64)%nat -> nth i a None = nth i b None) -> a = b.
Proof.
  intros La Lb H. apply (nth_ext a b None None); [congruence|]. intros i Hi. apply H. lia.
Qed.

Ltac Zify.zify_post_hook ::= Z.div_mod_to_equations.

Lemma at_board p a : a < 64 -> at_ (board_of p) (Z.of_N (a mod 8)) (Z.of_N (a / 8)) = man_at p a.
Proof.
  intros Ha. unfold at_, onb, idx.
  assert (E : Z.to_nat (8 * Z.of_N (a / 8) + Z.of_N (a mod 8)) = N.to_nat a) by lia.
  rewrite E.
  replace ((0 <=? Z.of_N (a mod 8)) && (Z.of_N (a mod 8) <? 8) && (0 <=? Z.of_N (a / 8)) && (Z.of_N (a / 8) <? 8))%Z with true
    by (symmetry; repeat (apply andb_true_iff; split); lia).
  rewrite nth_board by lia. rewrite N2Nat.id. reflexivity.
Qed.

Lemma put_board (b : board) a v : a < 64 -> length b = 64%nat ->
  put b (Z.of_N (a mod 8)) (Z.of_N (a / 8)) v = upd b (N.to_nat a) v.
Proof.
  intros Ha Hl. unfold put, onb, idx.
  assert (E : Z.to_nat (8 * Z.of_N (a / 8) + Z.of_N (a mod 8)) = N.to_nat a) by lia.
  rewrite E.
  replace ((0 <=? Z.of_N (a mod 8)) && (Z.of_N (a mod 8) <? 8) && (0 <=? Z.of_N (a / 8)) && (Z.of_N (a / 8) <? 8))%Z with true
    by (symmetry; repeat (apply andb_true_iff; split); lia).
  reflexivity.
Qed.

(* ------------------------------------------------------------------ turn and colour disjointness through the stages *)
Definition meta (p : Position) := (turn p, cf0 p, cf1 p, cf2 p, cf3 p).
Lemma meta_xor_piece p i bb : meta (xor_piece p i bb) = meta p.
Proof. unfold xor_piece, set_piece. destruct i as [|[[[]|[]|]|[[]|[]|]|]]; reflexivity. Qed.
Lemma meta_castle_fix p a b c d e : meta (castle_fix p a b c d e) = meta p.
Proof. unfold castle_fix. cbv zeta. rewrite !meta_xor_piece. reflexivity. Qed.
Lemma meta_st_move p ft k : meta (st_move p ft k) = meta p.
Proof. unfold st_move. rewrite meta_xor_piece. reflexivity. Qed.
Lemma meta_st_capture p to c : meta (st_capture p to c) = meta p.
Proof. unfold st_capture. destruct (is_set (c_them p) to); [rewrite meta_xor_piece|]; reflexivity. Qed.
Lemma meta_st_ep p b vic : meta (st_ep p b vic) = meta p.
Proof. unfold st_ep. destruct b; [rewrite meta_xor_piece|]; reflexivity. Qed.
Lemma meta_st_castle p p0 from to : meta (st_castle p p0 from to) = meta p.
Proof.
  unfold st_castle.
  destruct (is_occ (N.land (kings p) (rooks p)) && (from <? to)); [apply meta_castle_fix|].
  destruct (is_occ (N.land (kings p) (rooks p)) && (to <? from)); [apply meta_castle_fix|reflexivity].
Qed.
Lemma meta_st_promo p promo bb : meta (st_promo p promo bb) = meta p.
Proof. unfold st_promo. destruct (negb (promo =? NOPIECE)); [rewrite !meta_xor_piece|]; reflexivity. Qed.

Lemma meta_boards u p0 m : meta (mv_boards u p0 m) = meta p0.
Proof.
  unfold mv_boards. cbv zeta.
  rewrite meta_st_promo, meta_st_castle, meta_st_ep, meta_st_capture, meta_st_move.
  unfold mv_start. destruct u; reflexivity.
Qed.

Lemma turn_boards u p0 m : turn (mv_boards u p0 m) = turn p0.
Proof. pose proof (meta_boards u p0 m) as H. unfold meta in H. congruence. Qed.

Lemma file_rel p0 a : a < 64 -> rel_sq p0 a mod 8 = a mod 8.
Proof.
  intros Ha. unfold rel_sq. destruct (turn p0); [|reflexivity].
  change (flip_sq a) with (flipbit a). rewrite flipbit_arith by exact Ha. lia.
Qed.
Lemma rank_rel p0 a : a < 64 -> rel_sq p0 a / 8 = if turn p0 then 7 - a / 8 else a / 8.
Proof.
  intros Ha. unfold rel_sq. destruct (turn p0); [|reflexivity].
  change (flip_sq a) with (flipbit a). rewrite flipbit_arith by exact Ha. lia.
Qed.


Section Refine.
Variables (u : bool) (p0 : Position) (m : Mv) (k : N).
Hypothesis S : sane p0 m k.
Hypothesis Hdis : colours_disjoint p0.
Let from := m_from m.
Let to := m_to m.
Let Q := mv_boards u p0 m.

Lemma rel_Q a : rel_sq Q a = rel_sq p0 a.
Proof. unfold rel_sq, Q. rewrite turn_boards. reflexivity. Qed.

Lemma Q_disjoint : colours_disjoint Q.
Proof.
  unfold colours_disjoint. apply N.bits_inj. intros s. rewrite N.land_spec, N.bits_0.
  change (ub Q s && tb Q s = false).
  destruct (N.eq_dec s from) as [->|N1].
  { destruct (after_from u p0 m k S) as (Hu & _). fold Q from in Hu. rewrite Hu. reflexivity. }
  destruct (N.eq_dec s to) as [->|N2].
  { destruct (after_to u p0 m k S) as (_ & _ & Ht & _). fold Q to in Ht. rewrite Ht. apply andb_false_r. }
  assert (Hb : mv_is_ep p0 m = true \/ mv_is_ep p0 m = false) by (destruct (mv_is_ep p0 m); [left|right]; reflexivity).
  assert (Hp0 : ub p0 s && tb p0 s = false).
  { unfold ub, tb, is_set. rewrite <- N.land_spec, Hdis. apply N.bits_0. }
  destruct Hb as [Hb|Hb].
  - destruct (N.eq_dec s (to - 8)) as [->|N3].
    { destruct (after_vic u p0 m k S Hb) as (Hu & _). fold Q to in Hu. rewrite Hu. reflexivity. }
    destruct (after_other u p0 m k S s N1 N2 (fun _ => N3)) as (Hu & Ht & _). fold Q in Hu, Ht. rewrite Hu, Ht. exact Hp0.
  - assert (N3 : mv_is_ep p0 m = true -> s <> m_to m - 8) by (rewrite Hb; discriminate).
    destruct (after_other u p0 m k S s N1 N2 N3) as (Hu & Ht & _). fold Q in Hu, Ht. rewrite Hu, Ht. exact Hp0.
Qed.

(* the placement of makemove's result is that of the position after the board stages *)
Lemma board_makemove : board_of (makemove u p0 m) = board_of Q.
Proof.
  rewrite makemove_stages. rewrite board_of_flip by exact Q_disjoint. reflexivity.
Qed.

(* ---- square by square, in absolute coordinates *)
Let af := rel_sq p0 from.
Let at' := rel_sq p0 to.
Let av := rel_sq p0 (to - 8).

Lemma man_from : man_at Q af = None.
Proof. apply man_at_empty. rewrite rel_Q. unfold af. rewrite rel_sq_invol. exact (after_from u p0 m k S). Qed.

Lemma man_to : man_at Q at' = Some (colour_of_turn (turn p0), kind_of_N (landed k (m_promo m))).
Proof.
  rewrite (man_at_holds Q at' false (landed k (m_promo m))).
  - unfold Q. rewrite turn_boards, xorb_false_r. reflexivity.
  - rewrite rel_Q. unfold at'. rewrite rel_sq_invol. exact (after_to u p0 m k S).
Qed.

Lemma man_vic : mv_is_ep p0 m = true -> man_at Q av = None.
Proof. intros Hb. apply man_at_empty. rewrite rel_Q. unfold av. rewrite rel_sq_invol. exact (after_vic u p0 m k S Hb). Qed.

Lemma man_other a : a <> af -> a <> at' -> (mv_is_ep p0 m = true -> a <> av) -> man_at Q a = man_at p0 a.
Proof.
  intros N1 N2 N3. apply man_at_same; [unfold Q; apply turn_boards|].
  apply (after_other u p0 m k S).
  - intros E. apply N1. unfold af, from. rewrite <- E. symmetry. apply rel_sq_invol.
  - intros E. apply N2. unfold at', to. rewrite <- E. symmetry. apply rel_sq_invol.
  - intros Hb E. apply (N3 Hb). unfold av, to. rewrite <- E. symmetry. apply rel_sq_invol.
Qed.

(* ---- the same placement, computed by the rules *)
Hypothesis Hgeo : mv_is_ep p0 m = true -> rank_of from + 1 = rank_of to.     (* a pawn captures one rank up *)

Let c := colour_of_turn (turn p0).
Let sp := abs_state p0.
Let sm := dec p0 m.

Lemma af_lt : af < 64. Proof. apply rel_sq_lt. exact (sn_from _ _ _ S). Qed.
Lemma at_lt : at' < 64. Proof. apply rel_sq_lt. exact (sn_to _ _ _ S). Qed.
Lemma af_ne_at : af <> at'.
Proof. intros E. apply (sn_ne _ _ _ S). exact (rel_sq_inj _ _ _ E). Qed.

Lemma mover_is : at_ (s_board sp) (mf sm) (mr sm) = Some (c, kind_of_N k).
Proof.
  unfold sp, sm, abs_state, dec. cbn [s_board mf mr]. fold from af. rewrite at_board by exact af_lt.
  rewrite (man_at_holds p0 af false k).
  - rewrite xorb_false_r. reflexivity.
  - unfold af. rewrite rel_sq_invol. exact (sn_mover _ _ _ S).
Qed.

Lemma target_is : at_ (s_board sp) (tf sm) (tr sm) = man_at p0 at'.
Proof. unfold sp, sm, abs_state, dec. cbn [s_board tf tr]. fold to at'. apply at_board. exact at_lt. Qed.

Lemma target_man :
  (empty_at p0 to /\ man_at p0 at' = None) \/
  (exists c', holds p0 to true c' /\ man_at p0 at' = Some (colour_of_turn (negb (turn p0)), kind_of_N c')).
Proof.
  destruct (sn_target _ _ _ S) as [He | [c' Hc]].
  - left. split; [exact He|]. apply man_at_empty. unfold at'. rewrite rel_sq_invol. exact He.
  - right. exists c'. split; [exact Hc|].
    rewrite (man_at_holds p0 at' true c'); [rewrite xorb_true_r; reflexivity|].
    unfold at'. rewrite rel_sq_invol. exact Hc.
Qed.

Lemma colour_neq t : colour_eqb (colour_of_turn t) (colour_of_turn (negb t)) = false.
Proof. destruct t; reflexivity. Qed.
Lemma colour_refl x : colour_eqb x x = true.
Proof. destruct x; reflexivity. Qed.

Lemma not_castle : is_castle sp sm = false.
Proof.
  unfold is_castle. rewrite mover_is, target_is.
  replace (s_turn sp) with c by reflexivity.
  destruct target_man as [(_ & ->) | (c' & _ & ->)].
  - apply andb_false_r.
  - cbn [is_man]. unfold c. rewrite colour_neq. cbn [andb]. apply andb_false_r.
Qed.

Lemma kind_pawn j : j <= 5 -> kind_eqb Pawn (kind_of_N j) = (j =? PAWN).
Proof. intros Hj. kinds j Hj; reflexivity. Qed.

Lemma ep_agrees : is_ep_capture sp sm = mv_is_ep p0 m.
Proof.
  unfold is_ep_capture. rewrite mover_is, target_is.
  replace (s_turn sp) with c by reflexivity. cbn [is_man]. rewrite colour_refl. cbn [andb].
  rewrite kind_pawn by exact (sane_k p0 m k S).
  unfold mv_is_ep. rewrite (sane_piece p0 m k S).
  assert (Hfile : negb (mf sm =? tf sm)%Z = negb (file_of (m_from m) =? file_of (m_to m))).
  { unfold sm, dec. cbn [mf tf]. rewrite !(file_rel p0) by (exact (sn_from _ _ _ S) || exact (sn_to _ _ _ S)).
    unfold file_of. f_equal. destruct (N.eqb_spec (m_from m mod 8) (m_to m mod 8)); destruct (Z.eqb_spec (Z.of_N (m_from m mod 8)) (Z.of_N (m_to m mod 8))); try reflexivity; lia. }
  rewrite Hfile. f_equal.
  destruct target_man as [(He & ->) | (c' & Hc & ->)].
  - fold to. rewrite (empty_piece_on _ _ He). reflexivity.
  - fold to. rewrite (holds_piece_on _ _ _ _ Hc). reflexivity.
Qed.

(* the victim's square in absolute coordinates is (file of the target, rank of the origin) *)
Lemma victim_square : mv_is_ep p0 m = true -> 8 * (af / 8) + at' mod 8 = av.
Proof.
  intros Hb. pose proof (Hgeo Hb) as Hg. unfold rank_of in Hg.
  destruct (sane_ep_facts p0 m k S Hb) as (_ & H8 & _).
  pose proof (sn_from _ _ _ S) as Hf. pose proof (sn_to _ _ _ S) as Ht. fold from in Hf. fold to in Ht, H8.
  unfold af, at', av. rewrite file_rel by exact Ht. rewrite rank_rel by exact Hf.
  unfold rel_sq. destruct (turn p0).
  - change (flip_sq (to - 8)) with (flipbit (to - 8)). rewrite flipbit_arith by lia. lia.
  - lia.
Qed.

Definition landed_man : option man := Some (c, kind_of_N (landed k (m_promo m))).

Lemma new_man :
  match promo sm with Some k' => Some (s_turn sp, k') | None => at_ (s_board sp) (mf sm) (mr sm) end = landed_man.
Proof.
  rewrite mover_is. unfold sm, dec, landed_man, landed. cbn [promo].
  destruct (m_promo m =? NOPIECE); reflexivity.
Qed.

Theorem board_refines : board_of (makemove u p0 m) = s_board (apply sp sm).
Proof.
  rewrite board_makemove by assumption. fold Q.
  unfold apply. cbv zeta. cbn [s_board]. rewrite not_castle. rewrite ep_agrees.
  match goal with |- _ = put ?X ?f ?r ?v => replace v with landed_man by (symmetry; exact new_man) end.
  assert (Lb : length (s_board sp) = 64%nat) by apply board_length.
  assert (Hsb : s_board sp = board_of p0) by reflexivity.
  (* the three puts as list updates *)
  assert (E1 : put (s_board sp) (mf sm) (mr sm) None = upd (s_board sp) (N.to_nat af) None).
  { unfold sm, dec. cbn [mf mr]. fold from af. apply put_board; [exact af_lt|exact Lb]. }
  rewrite E1.
  set (b1 := upd (s_board sp) (N.to_nat af) None).
  assert (L1 : length b1 = 64%nat) by (unfold b1; rewrite upd_length; exact Lb).
  set (b2 := if mv_is_ep p0 m then put b1 (tf sm) (mr sm) None else b1).
  assert (E2 : b2 = if mv_is_ep p0 m then upd b1 (N.to_nat av) None else b1).
  { assert (Hbc : mv_is_ep p0 m = true \/ mv_is_ep p0 m = false) by (destruct (mv_is_ep p0 m); [left|right]; reflexivity).
    unfold b2. destruct Hbc as [Hb|Hb]; rewrite Hb; [|reflexivity].
    pose proof (victim_square Hb) as Hv.
    assert (Hlt : av < 64) by (unfold av; apply rel_sq_lt; destruct (sane_ep_facts p0 m k S Hb) as (_ & H8 & _); pose proof (sn_to _ _ _ S); unfold to; lia).
    unfold sm, dec. cbn [tf mr]. fold from to af at'.
    replace (at' mod 8) with (av mod 8) by (rewrite <- Hv; pose proof af_lt; pose proof at_lt; lia).
    replace (af / 8) with (av / 8) by (rewrite <- Hv; pose proof af_lt; pose proof at_lt; lia).
    apply put_board; [exact Hlt|exact L1]. }
  assert (L2 : length b2 = 64%nat).
  { rewrite E2. assert (Hbc : mv_is_ep p0 m = true \/ mv_is_ep p0 m = false) by (destruct (mv_is_ep p0 m); [left|right]; reflexivity).
    destruct Hbc as [Hb|Hb]; rewrite Hb; [rewrite upd_length|]; exact L1. }
  assert (E3 : put b2 (tf sm) (tr sm) landed_man = upd b2 (N.to_nat at') landed_man).
  { unfold sm, dec. cbn [tf tr]. fold to at'. apply put_board; [exact at_lt|exact L2]. }
  rewrite E3.
  apply list_ext64; [apply board_length|rewrite upd_length; exact L2|].
  intros i Hi. rewrite nth_board by exact Hi.
  rewrite nth_upd by (rewrite L2; pose proof at_lt; lia).
  set (a := N.of_nat i). assert (Ha : a < 64) by (unfold a; lia).
  destruct (Nat.eqb_spec i (N.to_nat at')) as [Ei|Ei].
  { assert (a = at') by (unfold a; lia). subst a. rewrite H. exact man_to. }
  assert (N2 : a <> at') by (unfold a; lia).
  rewrite E2.
  assert (Hbc : mv_is_ep p0 m = true \/ mv_is_ep p0 m = false) by (destruct (mv_is_ep p0 m); [left|right]; reflexivity).
  destruct Hbc as [Hb|Hb]; rewrite Hb.
  - assert (Hlt : av < 64) by (unfold av; apply rel_sq_lt; destruct (sane_ep_facts p0 m k S Hb) as (_ & H8 & _); pose proof (sn_to _ _ _ S); unfold to; lia).
    rewrite nth_upd by (rewrite L1; lia).
    destruct (Nat.eqb_spec i (N.to_nat av)) as [Ev|Ev].
    { assert (E : a = av) by (unfold a; lia). rewrite E. exact (man_vic Hb). }
    unfold b1. rewrite nth_upd by (rewrite Lb; pose proof af_lt; lia).
    destruct (Nat.eqb_spec i (N.to_nat af)) as [Ef|Ef].
    { assert (E : a = af) by (unfold a; lia). rewrite E. exact man_from. }
    rewrite Hsb, nth_board by exact Hi. fold a.
    apply man_other; [unfold a; lia|exact N2|intros _; unfold a; lia].
  - unfold b1. rewrite nth_upd by (rewrite Lb; pose proof af_lt; lia).
    destruct (Nat.eqb_spec i (N.to_nat af)) as [Ef|Ef].
    { assert (E : a = af) by (unfold a; lia). rewrite E. exact man_from. }
    rewrite Hsb, nth_board by exact Hi. fold a.
    apply man_other; [unfold a; lia|exact N2|intros Hx; rewrite Hb in Hx; discriminate].
Qed.
End Refine.

(* ------------------------------------------------------------------ the whole specification state *)
From Rawr Require Import LsbFacts.

Lemma sstate_eq a1 a2 a3 a4 a5 a6 a7 a8 a9 b1 b2 b3 b4 b5 b6 b7 b8 b9 :
  a1 = b1 -> a2 = b2 -> a3 = b3 -> a4 = b4 -> a5 = b5 -> a6 = b6 -> a7 = b7 -> a8 = b8 -> a9 = b9 ->
  mkS a1 a2 a3 a4 a5 a6 a7 a8 a9 = mkS b1 b2 b3 b4 b5 b6 b7 b8 b9.
Proof. intros; subst; reflexivity. Qed.

(* a man leaving or landing on relative square s costs the right whose rook starts on file cf of the owner's home rank *)
Lemma lose_rel p0 flag cf s (them : bool) : s < 64 -> cf <= 7 ->
  lose (right_of flag cf) (colour_of_turn (xorb (turn p0) them))
       (Z.of_N (rel_sq p0 s mod 8)) (Z.of_N (rel_sq p0 s / 8))
  = right_of (flag && negb (s =? sq_of cf (if them then 7 else 0))) cf.
Proof.
  intros Hs Hc. unfold right_of, lose. destruct flag; [|reflexivity]. cbn [andb].
  rewrite file_rel, rank_rel by exact Hs. unfold sq_of, home.
  destruct (turn p0), them; cbn [xorb colour_of_turn];
  match goal with |- (if ?c then _ else _) = (if negb ?d then _ else _) =>
    assert (E : c = d) by (destruct d eqn:E1; lia); rewrite E; destruct d; reflexivity end.
Qed.

Lemma kind_king j : j <= 5 -> kind_eqb King (kind_of_N j) = (j =? KING).
Proof. intros Hj. kinds j Hj; reflexivity. Qed.

Section Full.
Variables (u : bool) (p0 : Position) (m : Mv) (k : N).
Hypothesis S : sane p0 m k.
Hypothesis Hdis : colours_disjoint p0.
Hypothesis Hku : popcount (N.land (c_us p0) (kings p0)) = 1.
Hypothesis Hcf : cf0 p0 <= 7 /\ cf1 p0 <= 7 /\ cf2 p0 <= 7 /\ cf3 p0 <= 7.
(* a pawn goes one rank up, or two squares straight up *)
Hypothesis Hpawn : k = PAWN -> rank_of (m_to m) = rank_of (m_from m) + 1 \/ m_to m = m_from m + 16.
Let from := m_from m.
Let to := m_to m.
Let R := makemove u p0 m.
Let sp := abs_state p0.
Let sm := dec p0 m.
Let c := colour_of_turn (turn p0).

Lemma Hgeo' : mv_is_ep p0 m = true -> rank_of (m_from m) + 1 = rank_of (m_to m).
Proof.
  intros Hb. destruct (sane_ep_facts p0 m k S Hb) as (_ & _ & _ & _ & Hk & _).
  destruct (Hpawn Hk) as [H|H]; [lia|].
  unfold mv_is_ep in Hb. apply andb_true_iff in Hb. destruct Hb as [Hb _]. apply andb_true_iff in Hb. destruct Hb as [_ Hb].
  apply negb_true_iff, N.eqb_neq in Hb. exfalso. apply Hb. rewrite H. unfold file_of.
  replace (m_from m + 16) with (m_from m + 2 * 8) by lia. rewrite N.mod_add by lia. reflexivity.
Qed.

(* ---- the mover is the king iff it starts from the king's square *)
Lemma from_is_king : (from =? lsb (N.land (c_us p0) (kings p0))) = (k =? KING).
Proof.
  destruct (sn_mover _ _ _ S) as (Hk & Hu & _ & Hp). fold from in Hu, Hp.
  destruct (N.eqb_spec k KING) as [E|E].
  - apply N.eqb_eq. apply lsb_unique; [exact Hku|].
    rewrite N.land_spec. change (ub p0 from && pb p0 5 from = true). rewrite Hu, (Hp 5) by lia. rewrite E. reflexivity.
  - apply N.eqb_neq. intros E'. apply E.
    pose proof (lsb_set _ (popcount1_nonzero _ Hku)) as Hs. rewrite <- E', N.land_spec in Hs.
    apply andb_true_iff in Hs. destruct Hs as [_ Hs]. change (pb p0 5 from = true) in Hs. rewrite (Hp 5) in Hs by lia.
    apply N.eqb_eq in Hs. unfold KING. lia.
Qed.

(* ---- our origin is never their king's square *)
Lemma from_not_their_king : (from =? lsb (N.land (c_them p0) (kings p0))) = false.
Proof.
  apply N.eqb_neq. intros E.
  destruct (sn_mover _ _ _ S) as (_ & _ & Ht & _). fold from in Ht.
  destruct (N.eq_dec (N.land (c_them p0) (kings p0)) 0) as [Z|NZ].
  - rewrite Z in E. cbn in E. pose proof (sn_from _ _ _ S). unfold from in E. lia.
  - pose proof (lsb_set _ NZ) as Hs. rewrite <- E, N.land_spec in Hs. apply andb_true_iff in Hs.
    destruct Hs as [Hs _]. change (tb p0 from = true) in Hs. rewrite Ht in Hs. discriminate.
Qed.

Lemma king_moves_is : is_man (s_turn sp) King (at_ (s_board sp) (mf sm) (mr sm)) = (k =? KING).
Proof.
  unfold sp, sm. rewrite (mover_is p0 m k S). cbn [is_man]. replace (s_turn (abs_state p0)) with c by reflexivity.
  rewrite colour_refl. cbn [andb]. apply kind_king. exact (sane_k p0 m k S).
Qed.

(* ---- one castling right of the mover / of the opponent *)
Lemma right_mover flag cf : cf <= 7 ->
  (if is_man (s_turn sp) King (at_ (s_board sp) (mf sm) (mr sm)) && colour_eqb c (s_turn sp) then None
   else lose (lose (right_of flag cf) c (mf sm) (mr sm)) c (tf sm) (tr sm))
  = right_of (keeps_right flag from to (lsb (N.land (c_us p0) (kings p0))) (sq_of cf 0)) cf.
Proof.
  intros Hc. rewrite king_moves_is. replace (s_turn sp) with c by reflexivity. rewrite colour_refl, andb_true_r.
  unfold keeps_right. rewrite from_is_king.
  destruct (k =? KING); cbn [negb].
  - rewrite andb_false_r. cbn [andb]. destruct flag; reflexivity.
  - rewrite andb_true_r. unfold sm, dec. cbn [mf mr tf tr]. fold from to.
    replace c with (colour_of_turn (xorb (turn p0) false)) by (rewrite xorb_false_r; reflexivity).
    rewrite (lose_rel p0 flag cf from false) by (exact (sn_from _ _ _ S) || exact Hc).
    rewrite (lose_rel p0 _ cf to false) by (exact (sn_to _ _ _ S) || exact Hc).
    reflexivity.
Qed.

Lemma right_other flag cf : cf <= 7 ->
  (if is_man (s_turn sp) King (at_ (s_board sp) (mf sm) (mr sm)) && colour_eqb (opp c) (s_turn sp) then None
   else lose (lose (right_of flag cf) (opp c) (mf sm) (mr sm)) (opp c) (tf sm) (tr sm))
  = right_of (keeps_right flag from to (lsb (N.land (c_them p0) (kings p0))) (sq_of cf 7)) cf.
Proof.
  intros Hc. replace (s_turn sp) with c by reflexivity.
  replace (colour_eqb (opp c) c) with false by (unfold c; destruct (turn p0); reflexivity).
  rewrite andb_false_r.
  unfold keeps_right. rewrite from_not_their_king. cbn [negb]. rewrite andb_true_r.
  unfold sm, dec. cbn [mf mr tf tr]. fold from to.
  replace (opp c) with (colour_of_turn (xorb (turn p0) true)) by (unfold c; destruct (turn p0); reflexivity).
  rewrite (lose_rel p0 flag cf from true) by (exact (sn_from _ _ _ S) || exact Hc).
  rewrite (lose_rel p0 _ cf to true) by (exact (sn_to _ _ _ S) || exact Hc).
  reflexivity.
Qed.

(* ---- projections of the result *)
Let Q := mv_boards u p0 m.
Lemma R_eq : R = flip (set_clocks_ep_rights Q (mv_hm u p0 m) (mv_fm p0) (mv_new_ep p0 m)
   (keeps_right (us_ksc p0) from to (lsb (N.land (c_us p0) (kings p0))) (sq_of (cf0 p0) 0))
   (keeps_right (us_qsc p0) from to (lsb (N.land (c_us p0) (kings p0))) (sq_of (cf1 p0) 0))
   (keeps_right (them_ksc p0) from to (lsb (N.land (c_them p0) (kings p0))) (sq_of (cf2 p0) 7))
   (keeps_right (them_qsc p0) from to (lsb (N.land (c_them p0) (kings p0))) (sq_of (cf3 p0) 7))).
Proof. apply makemove_stages. Qed.

Lemma Q_meta : turn Q = turn p0 /\ cf0 Q = cf0 p0 /\ cf1 Q = cf1 p0 /\ cf2 Q = cf2 p0 /\ cf3 Q = cf3 p0.
Proof. pose proof (meta_boards u p0 m) as H. unfold meta in H. fold Q in H. inversion H. repeat split; reflexivity. Qed.

(* half-move clock *)
Lemma is_cap_is : mv_is_cap u p0 m = tb p0 to.
Proof.
  unfold mv_is_cap. change (is_set (c_them ?x) (m_to m)) with (tb x (m_to m)).
  rewrite tb_move, tb_start. reflexivity.
Qed.

Lemma half_agrees :
  mv_hm u p0 m =
  (if is_man (s_turn sp) Pawn (at_ (s_board sp) (mf sm) (mr sm))
      || negb (is_castle sp sm) && (negb (is_empty (at_ (s_board sp) (tf sm) (tr sm))) || is_ep_capture sp sm)
   then 0 else s_half sp + 1)%Z.
Proof.
  unfold mv_hm. rewrite is_cap_is, (sane_piece p0 m k S).
  unfold sp, sm. rewrite (mover_is p0 m k S), (target_is p0 m k S), (not_castle p0 m k S), (ep_agrees p0 m k S Hgeo').
  cbn [is_man negb andb]. replace (s_turn (abs_state p0)) with c by reflexivity. rewrite colour_refl. cbn [andb].
  rewrite kind_pawn by exact (sane_k p0 m k S).
  destruct (N.eqb_spec k PAWN) as [E|E]; [reflexivity|]. cbn [orb].
  assert (Hep : mv_is_ep p0 m = false).
  { unfold mv_is_ep. rewrite (sane_piece p0 m k S). destruct (N.eqb_spec k PAWN); [contradiction|reflexivity]. }
  rewrite Hep, orb_false_r.
  destruct (target_man p0 m k S) as [((_ & Ht & _) & ->) | (c' & (_ & _ & Ht & _) & ->)]; fold to in Ht; rewrite Ht; try reflexivity.
Qed.

(* en-passant target *)
Lemma ep_field :
  match (match mv_new_ep p0 m with Some s => Some (flip_sq s) | None => None end) with
  | Some e => let a := (if negb (turn p0) then flip_sq e else e) in Some (Z.of_N (a mod 8), Z.of_N (a / 8))
  | None => None
  end =
  (if is_man (s_turn sp) Pawn (at_ (s_board sp) (mf sm) (mr sm)) && ((tr sm - mr sm =? 2) || (mr sm - tr sm =? 2))
   then Some (mf sm, (mr sm + tr sm) / 2) else None)%Z.
Proof.
  unfold mv_new_ep. rewrite (sane_piece p0 m k S).
  unfold sp, sm. rewrite (mover_is p0 m k S). cbn [is_man]. replace (s_turn (abs_state p0)) with c by reflexivity.
  rewrite colour_refl. cbn [andb]. rewrite kind_pawn by exact (sane_k p0 m k S).
  destruct (N.eqb_spec k PAWN) as [E|E]; [|reflexivity]. cbn [andb].
  unfold dec. cbn [mf mr tf tr]. fold from to.
  pose proof (sn_from _ _ _ S) as Hf. pose proof (sn_to _ _ _ S) as Ht. fold from in Hf. fold to in Ht.
  rewrite !(rank_rel p0) by assumption. rewrite (file_rel p0) by assumption.
  destruct (Hpawn E) as [H1|H16]; fold from to in H1 || fold from to in H16.
  - unfold rank_of in H1.
    replace (to - from =? 16) with false by (symmetry; apply N.eqb_neq; lia).
    destruct (turn p0);
    match goal with |- _ = (if ?c then _ else _) => replace c with false by (symmetry; apply orb_false_iff; split; lia) end; reflexivity.
  - replace (to - from =? 16) with true by (symmetry; apply N.eqb_eq; lia).
    cbv zeta.
    assert (E8 : to - 8 = from + 8) by lia. rewrite E8.
    assert (Hlt : from + 8 < 64) by lia.
    destruct (turn p0); cbn [negb].
    + change (flip_sq (from + 8)) with (flipbit (from + 8)). rewrite flipbit_arith by exact Hlt.
      match goal with |- _ = (if ?c then _ else _) => replace c with true by (symmetry; apply orb_true_iff; lia) end.
      f_equal. f_equal; lia.
    + rewrite flip_sq_invol.
      match goal with |- _ = (if ?c then _ else _) => replace c with true by (symmetry; apply orb_true_iff; lia) end.
      f_equal. f_equal; lia.
Qed.

Theorem makemove_refines_noncastling : abs_state (makemove u p0 m) = apply (abs_state p0) (dec p0 m).
Proof.
  destruct Hcf as (C0 & C1 & C2 & C3). destruct Q_meta as (Mt & M0 & M1 & M2 & M3).
  assert (Hturn : turn p0 = true \/ turn p0 = false) by (destruct (turn p0); [left|right]; reflexivity).
  fold R sp sm. unfold abs_state at 1. unfold apply. cbv zeta.
  apply sstate_eq.
  - (* placement *)
    unfold R, sp, sm. rewrite (board_refines u p0 m k S Hdis Hgeo'). unfold apply. cbv zeta. reflexivity.
  - (* side to move *)
    rewrite R_eq. cbn [turn flip set_clocks_ep_rights]. rewrite Mt. replace (s_turn sp) with c by reflexivity.
    unfold c. destruct (turn p0); reflexivity.
  - (* White king side *)
    rewrite R_eq. cbn [turn flip set_clocks_ep_rights us_ksc them_ksc cf0 cf2]. rewrite Mt, M0, M2, negb_involutive.
    change (s_wk sp) with (if negb (turn p0) then right_of (us_ksc p0) (cf0 p0) else right_of (them_ksc p0) (cf2 p0)).
    destruct Hturn as [Et|Et]; rewrite Et; cbn [negb].
    + rewrite <- (right_other (them_ksc p0) (cf2 p0) C2). unfold c. rewrite Et. reflexivity.
    + rewrite <- (right_mover (us_ksc p0) (cf0 p0) C0). unfold c. rewrite Et. reflexivity.
  - rewrite R_eq. cbn [turn flip set_clocks_ep_rights us_qsc them_qsc cf1 cf3]. rewrite Mt, M1, M3, negb_involutive.
    change (s_wq sp) with (if negb (turn p0) then right_of (us_qsc p0) (cf1 p0) else right_of (them_qsc p0) (cf3 p0)).
    destruct Hturn as [Et|Et]; rewrite Et; cbn [negb].
    + rewrite <- (right_other (them_qsc p0) (cf3 p0) C3). unfold c. rewrite Et. reflexivity.
    + rewrite <- (right_mover (us_qsc p0) (cf1 p0) C1). unfold c. rewrite Et. reflexivity.
  - rewrite R_eq. cbn [turn flip set_clocks_ep_rights us_ksc them_ksc cf0 cf2]. rewrite Mt, M0, M2, negb_involutive.
    change (s_bk sp) with (if negb (turn p0) then right_of (them_ksc p0) (cf2 p0) else right_of (us_ksc p0) (cf0 p0)).
    destruct Hturn as [Et|Et]; rewrite Et; cbn [negb].
    + rewrite <- (right_mover (us_ksc p0) (cf0 p0) C0). unfold c. rewrite Et. reflexivity.
    + rewrite <- (right_other (them_ksc p0) (cf2 p0) C2). unfold c. rewrite Et. reflexivity.
  - rewrite R_eq. cbn [turn flip set_clocks_ep_rights us_qsc them_qsc cf1 cf3]. rewrite Mt, M1, M3, negb_involutive.
    change (s_bq sp) with (if negb (turn p0) then right_of (them_qsc p0) (cf3 p0) else right_of (us_qsc p0) (cf1 p0)).
    destruct Hturn as [Et|Et]; rewrite Et; cbn [negb].
    + rewrite <- (right_mover (us_qsc p0) (cf1 p0) C1). unfold c. rewrite Et. reflexivity.
    + rewrite <- (right_other (them_qsc p0) (cf3 p0) C3). unfold c. rewrite Et. reflexivity.
  - (* en-passant target *)
    rewrite R_eq. unfold rel_sq. cbn [turn flip set_clocks_ep_rights ep]. rewrite Mt. exact ep_field.
  - (* half-move clock *)
    rewrite R_eq. cbn [halfmoves flip set_clocks_ep_rights]. exact half_agrees.
  - (* full-move number *)
    rewrite R_eq. cbn [fullmoves flip set_clocks_ep_rights]. unfold mv_fm. replace (s_turn sp) with c by reflexivity.
    unfold c, sp, abs_state. cbn [s_full]. destruct (turn p0); reflexivity.
Qed.
End Full.

(* ------------------------------------------------------------------ the premises as one executable test *)
Lemma in_kinds j : j <= 5 -> In j [0; 1; 2; 3; 4; 5].
Proof. intros H. kinds j H; cbn; tauto. Qed.

Lemma holds_b_sound p s t k : holds_b p s t k = true -> holds p s t k.
Proof.
  unfold holds_b. intros H.
  apply andb_true_iff in H. destruct H as [H H4]. apply andb_true_iff in H. destruct H as [H H3].
  apply andb_true_iff in H. destruct H as [H1 H2].
  apply N.leb_le in H1. apply Bool.eqb_prop in H2, H3.
  split; [exact H1|split; [exact H2|split; [exact H3|]]].
  intros j Hj. rewrite forallb_forall in H4. apply Bool.eqb_prop. apply H4, in_kinds, Hj.
Qed.

Lemma empty_b_sound p s : empty_b p s = true -> empty_at p s.
Proof.
  unfold empty_b. intros H.
  apply andb_true_iff in H. destruct H as [H H3]. apply andb_true_iff in H. destruct H as [H1 H2].
  apply negb_true_iff in H1, H2.
  split; [exact H1|split; [exact H2|]].
  intros j Hj. rewrite forallb_forall in H3. apply negb_true_iff. apply H3, in_kinds, Hj.
Qed.

Theorem makemove_refines_premises u p m :
  premises_b p m = true -> abs_state (makemove u p m) = apply (abs_state p) (dec p m).
Proof.
  unfold premises_b. cbv zeta. destruct (piece_on p (m_from m)) as [k|] eqn:Ek; [|discriminate].
  intros H.
  repeat match type of H with (_ && _) = true => let H' := fresh "P" in apply andb_true_iff in H; destruct H as [H H'] end.
  repeat match goal with
  | X : (_ <? _) = true |- _ => apply N.ltb_lt in X
  | X : (_ <=? _) = true |- _ => apply N.leb_le in X
  | X : negb (_ =? _) = true |- _ => apply negb_true_iff, N.eqb_neq in X
  | X : (_ =? _) = true |- _ => apply N.eqb_eq in X
  | X : holds_b _ _ _ _ = true |- _ => apply holds_b_sound in X
  end.
  assert (Htarget : empty_at p (m_to m) \/ exists c, holds p (m_to m) true c).
  { match goal with X : empty_b _ _ || _ = true |- _ => apply orb_true_iff in X; destruct X as [E|E] end;
    [left; apply empty_b_sound; exact E|right].
    destruct (piece_on p (m_to m)) as [c|]; [|discriminate]. exists c. apply holds_b_sound. exact E. }
  assert (Hep : mv_is_ep p m = true -> ep p = Some (m_to m) /\ 8 <= m_to m /\ holds p (m_to m - 8) true PAWN).
  { intros Hb. match goal with X : negb (mv_is_ep _ _) || _ = true |- _ => rewrite Hb in X; cbn [negb orb] in X;
      apply andb_true_iff in X; destruct X as [X V]; apply andb_true_iff in X; destruct X as [E L] end.
    destruct (ep p) as [e|]; [|discriminate]. apply N.eqb_eq in E. apply N.leb_le in L. apply holds_b_sound in V.
    subst e. split; [reflexivity|split; assumption]. }
  assert (Hpromo : m_promo m = NOPIECE \/ (k = PAWN /\ 1 <= m_promo m <= 4)).
  { match goal with X : (m_promo m =? NOPIECE) || _ = true |- _ => apply orb_true_iff in X; destruct X as [E|E] end;
    [left; apply N.eqb_eq; exact E|right].
    apply andb_true_iff in E. destruct E as [E L2]. apply andb_true_iff in E. destruct E as [E L1].
    apply N.eqb_eq in E. apply N.leb_le in L1, L2. split; [exact E|split; assumption]. }
  assert (Hpw : k = PAWN -> rank_of (m_to m) = rank_of (m_from m) + 1 \/ m_to m = m_from m + 16).
  { intros Ek'. match goal with X : negb (k =? PAWN) || _ || _ = true |- _ => rewrite Ek', N.eqb_refl in X; cbn [negb orb] in X;
      apply orb_true_iff in X; destruct X as [E|E]; [left|right]; apply N.eqb_eq; exact E end. }
  apply (makemove_refines_noncastling u p m k).
  - constructor; assumption.
  - assumption.
  - assumption.
  - repeat split; assumption.
  - exact Hpw.
Qed.
