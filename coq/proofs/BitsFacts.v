(* testbit characterisations of the word operations of model/Bits.v *)
From Coq Require Import NArith ZArith List Bool Lia.
From Rawr Require Import Consts Bits.
Import ListNotations.
Local Open Scope N_scope.

Lemma M64_ones : M64 = N.ones 64.
Proof. reflexivity. Qed.

Lemma testbit_M64 i : N.testbit M64 i = (i <? 64).
Proof.
  rewrite M64_ones. destruct (N.ltb_spec i 64) as [H|H].
  - apply N.ones_spec_low; exact H.
  - apply N.ones_spec_high; exact H.
Qed.

Lemma testbit_w64 x i : N.testbit (w64 x) i = N.testbit x i && (i <? 64).
Proof. unfold w64. rewrite N.land_spec, testbit_M64. reflexivity. Qed.

Lemma lt64_testbit_high x i : x < TWO64 -> 64 <= i -> N.testbit x i = false.
Proof.
  intros Hx Hi. destruct (N.eq_dec x 0) as [->|Hn]; [apply N.bits_0|].
  apply N.bits_above_log2. apply N.log2_lt_pow2; [lia|].
  apply N.lt_le_trans with (2 ^ 64); [exact Hx|]. apply N.pow_le_mono_r; lia.
Qed.

Lemma testbit_lt64 x : (forall i, 64 <= i -> N.testbit x i = false) -> x < TWO64.
Proof.
  intros H. destruct (N.eq_dec x 0) as [->|Hn]; [reflexivity|].
  destruct (N.lt_ge_cases x TWO64) as [Hl|Hg]; [exact Hl|].
  exfalso. assert (Hlog : 64 <= N.log2 x).
  { change 64 with (N.log2 TWO64). apply N.log2_le_mono. exact Hg. }
  specialize (H (N.log2 x) Hlog). rewrite N.bit_log2 in H by exact Hn. discriminate.
Qed.

Lemma land_M64_lt x : N.land x M64 < TWO64.
Proof.
  apply testbit_lt64. intros i Hi. rewrite N.land_spec, testbit_M64.
  destruct (N.ltb_spec i 64); [lia|]. apply andb_false_r.
Qed.

Lemma w64_id x : x < TWO64 -> w64 x = x.
Proof.
  intros Hx. apply N.bits_inj. intros i. rewrite testbit_w64.
  destruct (N.ltb_spec i 64) as [H|H]; [apply andb_true_r|].
  rewrite lt64_testbit_high by assumption. reflexivity.
Qed.

Lemma testbit_shl b n i :
  N.testbit (shl b n) i = (i <? 64) && (n <=? i) && N.testbit b (i - n).
Proof.
  unfold shl. rewrite N.land_spec, testbit_M64.
  destruct (N.leb_spec n i) as [H|H].
  - rewrite N.shiftl_spec_high' by exact H. rewrite andb_true_r. apply andb_comm.
  - rewrite N.shiftl_spec_low by exact H. rewrite andb_false_r. reflexivity.
Qed.

Lemma testbit_shr b n i : N.testbit (shr b n) i = N.testbit b (i + n).
Proof. unfold shr. apply N.shiftr_spec'. Qed.

Lemma testbit_bnot b i : N.testbit (bnot b) i = (i <? 64) && negb (N.testbit b i).
Proof. unfold bnot. rewrite N.ldiff_spec, testbit_M64. reflexivity. Qed.

Lemma shl_lt b n : shl b n < TWO64.
Proof. apply land_M64_lt. Qed.

Lemma bnot_lt b : bnot b < TWO64.
Proof.
  apply testbit_lt64. intros i Hi. rewrite testbit_bnot.
  destruct (N.ltb_spec i 64); [lia|reflexivity].
Qed.

Lemma testbit_bit s i : s < 64 -> N.testbit (bit s) i = (i =? s).
Proof.
  intros Hs. unfold bit. rewrite testbit_shl.
  destruct (N.eqb_spec i s) as [->|Hne].
  - replace (s - s) with 0 by lia. rewrite N.leb_refl.
    destruct (N.ltb_spec s 64); [reflexivity|lia].
  - destruct (N.leb_spec s i) as [H|H]; [|rewrite andb_false_r; reflexivity].
    replace (N.testbit 1 (i - s)) with false; [apply andb_false_r|].
    symmetry. change 1 with (2 ^ 0). rewrite N.pow2_bits_eqb.
    apply N.eqb_neq. lia.
Qed.

Lemma bit_lt s : bit s < TWO64.
Proof. apply shl_lt. Qed.

Lemma lor_lt a b : a < TWO64 -> b < TWO64 -> N.lor a b < TWO64.
Proof.
  intros Ha Hb. apply testbit_lt64. intros i Hi.
  rewrite N.lor_spec, !lt64_testbit_high by assumption. reflexivity.
Qed.

Lemma land_lt_l a b : a < TWO64 -> N.land a b < TWO64.
Proof.
  intros Ha. apply testbit_lt64. intros i Hi.
  rewrite N.land_spec, lt64_testbit_high by assumption. reflexivity.
Qed.

Lemma land_lt_r a b : b < TWO64 -> N.land a b < TWO64.
Proof. intros. rewrite N.land_comm. apply land_lt_l; assumption. Qed.

Lemma lxor_lt a b : a < TWO64 -> b < TWO64 -> N.lxor a b < TWO64.
Proof.
  intros Ha Hb. apply testbit_lt64. intros i Hi.
  rewrite N.lxor_spec, !lt64_testbit_high by assumption. reflexivity.
Qed.

Lemma shr_lt a n : a < TWO64 -> shr a n < TWO64.
Proof.
  intros Ha. apply testbit_lt64. intros i Hi. rewrite testbit_shr.
  apply lt64_testbit_high; [assumption|lia].
Qed.

(* ---- bits: the iterator enumerates exactly the set bits *)
Lemma bits_pos_spec p : forall i j,
  In j (bits_pos p i) <-> (i <= j /\ N.testbit (Npos p) (j - i) = true).
Proof.
  induction p as [q IH|q IH|]; intros i j; cbn [bits_pos].
  - cbn [In]. rewrite IH. split.
    + intros [<-|[Hle Hb]].
      * split; [lia|]. replace (i - i) with 0 by lia. reflexivity.
      * split; [lia|]. replace (j - i) with (N.succ (j - N.succ i)) by lia.
        rewrite N.testbit_succ_r_div2 by lia. exact Hb.
    + intros [Hle Hb]. destruct (N.eq_dec i j) as [->|Hne]; [left; reflexivity|].
      right. split; [lia|].
      replace (j - i) with (N.succ (j - N.succ i)) in Hb by lia.
      rewrite N.testbit_succ_r_div2 in Hb by lia. exact Hb.
  - rewrite IH. split.
    + intros [Hle Hb]. split; [lia|]. replace (j - i) with (N.succ (j - N.succ i)) by lia.
      rewrite N.testbit_succ_r_div2 by lia. exact Hb.
    + intros [Hle Hb]. destruct (N.eq_dec i j) as [->|Hne].
      * replace (j - j) with 0 in Hb by lia. discriminate.
      * split; [lia|]. replace (j - i) with (N.succ (j - N.succ i)) in Hb by lia.
        rewrite N.testbit_succ_r_div2 in Hb by lia. exact Hb.
  - cbn [In]. split.
    + intros [<-|[]]. split; [lia|]. replace (i - i) with 0 by lia. reflexivity.
    + intros [Hle Hb]. left. destruct (N.eq_dec (j - i) 0) as [H0|H0]; [lia|].
      exfalso. change (Npos 1) with (2 ^ 0) in Hb. rewrite N.pow2_bits_eqb in Hb.
      apply N.eqb_eq in Hb. lia.
Qed.

Lemma bits_spec b j : In j (bits b) <-> N.testbit b j = true.
Proof.
  destruct b as [|p]; cbn [bits].
  - rewrite N.bits_0. split; [intros []|discriminate].
  - rewrite bits_pos_spec. rewrite N.sub_0_r. split; [intros [_ H]; exact H|intros H; split; [lia|exact H]].
Qed.

Lemma bits_lt64 b j : b < TWO64 -> In j (bits b) -> j < 64.
Proof.
  intros Hb Hj. apply bits_spec in Hj. destruct (N.lt_ge_cases j 64) as [H|H]; [exact H|].
  rewrite lt64_testbit_high in Hj by assumption. discriminate.
Qed.
