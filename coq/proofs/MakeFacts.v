(* C02 (move clause), part 1: makemove, stage by stage, on the eight bitboards.
   The definition in model/MakeMove.v is one long let-chain; here it is cut into the stages of makemove.rs
   (move the man, remove a captured man, remove the en-passant victim, castling fix-up, promotion) and each stage is
   characterised bit by bit.  The result is `rman`: which man (ours / theirs, kind) stands on a relative square
   after a non-castling move. *)
From Coq Require Import NArith ZArith List Bool Lia.
From Rawr Require Import Consts Bits Magic Position MoveGen MakeMove MakeStages BitsFacts.
Import ListNotations.
Local Open Scope N_scope.

Lemma c_them_start u p0 m : c_them (mv_start u p0 m) = c_them p0.
Proof. unfold mv_start. destruct u; reflexivity. Qed.

Lemma c_them_xor_piece p i bb : c_them (xor_piece p i bb) = c_them p.
Proof. unfold xor_piece, set_piece. destruct i as [|[[[]|[]|]|[[]|[]|]|]]; reflexivity. Qed.
Lemma c_us_xor_piece p i bb : c_us (xor_piece p i bb) = c_us p.
Proof. unfold xor_piece, set_piece. destruct i as [|[[[]|[]|]|[[]|[]|]|]]; reflexivity. Qed.

Theorem makemove_stages u p0 m :
  makemove u p0 m =
  flip (set_clocks_ep_rights (mv_boards u p0 m) (mv_hm u p0 m) (mv_fm p0) (mv_new_ep p0 m)
          (keeps_right (us_ksc p0) (m_from m) (m_to m) (lsb (N.land (c_us p0) (kings p0))) (sq_of (cf0 p0) 0))
          (keeps_right (us_qsc p0) (m_from m) (m_to m) (lsb (N.land (c_us p0) (kings p0))) (sq_of (cf1 p0) 0))
          (keeps_right (them_ksc p0) (m_from m) (m_to m) (lsb (N.land (c_them p0) (kings p0))) (sq_of (cf2 p0) 7))
          (keeps_right (them_qsc p0) (m_from m) (m_to m) (lsb (N.land (c_them p0) (kings p0))) (sq_of (cf3 p0) 7))).
Proof.
  destruct u; reflexivity.
Qed.

(* ------------------------------------------------------------------ one bit of one board *)
Lemma le5_cases i : i <= 5 -> i = 0 \/ i = 1 \/ i = 2 \/ i = 3 \/ i = 4 \/ i = 5.
Proof. lia. Qed.

Ltac kinds i H := destruct (le5_cases i H) as [-> | [-> | [-> | [-> | [-> | ->]]]]].

Lemma get_set_piece p i v j : i <= 5 -> j <= 5 ->
  get_piece (set_piece p i v) j = if i =? j then v else get_piece p j.
Proof. intros Hi Hj. kinds i Hi; kinds j Hj; reflexivity. Qed.

Lemma pb_xor_piece p i bb j s : i <= 5 -> j <= 5 ->
  pb (xor_piece p i bb) j s = xorb (pb p j s) ((i =? j) && N.testbit bb s).
Proof.
  intros Hi Hj. unfold pb, xor_piece, is_set. rewrite get_set_piece by assumption.
  destruct (N.eqb_spec i j) as [->|_]; cbn [andb].
  - rewrite N.lxor_spec. reflexivity.
  - rewrite xorb_false_r. reflexivity.
Qed.

Lemma get_piece_set_us p v j : get_piece (set_us p v) j = get_piece p j.
Proof. destruct j as [|[[[]|[]|]|[[]|[]|]|]]; reflexivity. Qed.
Lemma get_piece_set_them p v j : get_piece (set_them p v) j = get_piece p j.
Proof. destruct j as [|[[[]|[]|]|[[]|[]|]|]]; reflexivity. Qed.
Lemma get_piece_set_hash p h j : get_piece (set_hash p h) j = get_piece p j.
Proof. destruct j as [|[[[]|[]|]|[[]|[]|]|]]; reflexivity. Qed.

Lemma pb_xor_us p bb j s : pb (xor_us p bb) j s = pb p j s.
Proof. unfold pb, xor_us. rewrite get_piece_set_us. reflexivity. Qed.
Lemma pb_xor_them p bb j s : pb (xor_them p bb) j s = pb p j s.
Proof. unfold pb, xor_them. rewrite get_piece_set_them. reflexivity. Qed.
Lemma pb_start u p0 m j s : pb (mv_start u p0 m) j s = pb p0 j s.
Proof. unfold pb, mv_start. destruct u; [rewrite get_piece_set_hash|]; reflexivity. Qed.

Lemma ub_xor_piece p i bb s : ub (xor_piece p i bb) s = ub p s.
Proof. unfold ub. rewrite c_us_xor_piece. reflexivity. Qed.
Lemma tb_xor_piece p i bb s : tb (xor_piece p i bb) s = tb p s.
Proof. unfold tb. rewrite c_them_xor_piece. reflexivity. Qed.
Lemma ub_xor_us p bb s : ub (xor_us p bb) s = xorb (ub p s) (N.testbit bb s).
Proof. unfold ub, xor_us, is_set. cbn [c_us set_us]. apply N.lxor_spec. Qed.
Lemma tb_xor_us p bb s : tb (xor_us p bb) s = tb p s.
Proof. reflexivity. Qed.
Lemma ub_xor_them p bb s : ub (xor_them p bb) s = ub p s.
Proof. reflexivity. Qed.
Lemma tb_xor_them p bb s : tb (xor_them p bb) s = xorb (tb p s) (N.testbit bb s).
Proof. unfold tb, xor_them, is_set. cbn [c_them set_them]. apply N.lxor_spec. Qed.
Lemma ub_start u p0 m s : ub (mv_start u p0 m) s = ub p0 s.
Proof. unfold mv_start. destruct u; reflexivity. Qed.
Lemma tb_start u p0 m s : tb (mv_start u p0 m) s = tb p0 s.
Proof. unfold mv_start. destruct u; reflexivity. Qed.

Lemma testbit_ft from to s : from < 64 -> to < 64 ->
  N.testbit (N.lor (bit from) (bit to)) s = (s =? from) || (s =? to).
Proof. intros Hf Ht. rewrite N.lor_spec, !testbit_bit by assumption. reflexivity. Qed.

(* ---- piece_on from the six bits of a square *)
Lemma piece_on_pb p s :
  piece_on p s = if pb p 0 s then Some 0 else if pb p 1 s then Some 1 else if pb p 2 s then Some 2
                 else if pb p 3 s then Some 3 else if pb p 4 s then Some 4 else if pb p 5 s then Some 5 else None.
Proof. reflexivity. Qed.

Lemma piece_on_le5 p s k : piece_on p s = Some k -> k <= 5.
Proof.
  rewrite piece_on_pb. intros H.
  repeat match type of H with (if ?c then _ else _) = _ => destruct c end; inversion H; lia.
Qed.

(* what stands on a relative square: nothing at all, or exactly one kind of exactly one side *)
Definition empty_at (p : Position) (s : N) : Prop :=
  ub p s = false /\ tb p s = false /\ forall j, j <= 5 -> pb p j s = false.
Definition holds (p : Position) (s : N) (them : bool) (k : N) : Prop :=
  k <= 5 /\ ub p s = negb them /\ tb p s = them /\ forall j, j <= 5 -> pb p j s = (j =? k).
Definition same_at (p q : Position) (s : N) : Prop :=
  ub q s = ub p s /\ tb q s = tb p s /\ forall j, j <= 5 -> pb q j s = pb p j s.

Lemma holds_piece_on p s t k : holds p s t k -> piece_on p s = Some k.
Proof.
  intros (Hk & _ & _ & Hp). rewrite piece_on_pb.
  rewrite (Hp 0), (Hp 1), (Hp 2), (Hp 3), (Hp 4), (Hp 5) by lia.
  kinds k Hk; reflexivity.
Qed.
Lemma empty_piece_on p s : empty_at p s -> piece_on p s = None.
Proof.
  intros (_ & _ & Hp). rewrite piece_on_pb.
  rewrite (Hp 0), (Hp 1), (Hp 2), (Hp 3), (Hp 4), (Hp 5) by lia. reflexivity.
Qed.
Lemma same_piece_on p q s : same_at p q s -> piece_on q s = piece_on p s.
Proof.
  intros (_ & _ & Hp). rewrite !piece_on_pb.
  rewrite (Hp 0), (Hp 1), (Hp 2), (Hp 3), (Hp 4), (Hp 5) by lia. reflexivity.
Qed.

(* ------------------------------------------------------------------ the stages, bit by bit *)
Lemma pawn_le5 : PAWN <= 5. Proof. unfold PAWN. lia. Qed.

Section Stages.
Variables (p : Position) (from to k c : N).
Hypotheses (Hf : from < 64) (Ht : to < 64) (Hk : k <= 5) (Hc : c <= 5).
Let ft := N.lor (bit from) (bit to).

Lemma ub_move s : ub (st_move p ft k) s = xorb (ub p s) ((s =? from) || (s =? to)).
Proof. unfold st_move. rewrite ub_xor_piece, ub_xor_us. unfold ft. rewrite testbit_ft by (exact Hf || exact Ht). reflexivity. Qed.
Lemma tb_move s : tb (st_move p ft k) s = tb p s.
Proof. unfold st_move. rewrite tb_xor_piece. reflexivity. Qed.
Lemma pb_move j s : j <= 5 -> pb (st_move p ft k) j s = xorb (pb p j s) ((k =? j) && ((s =? from) || (s =? to))).
Proof. intros Hj. unfold st_move. rewrite pb_xor_piece, pb_xor_us by (exact Hj || exact Hk). unfold ft. rewrite testbit_ft by (exact Hf || exact Ht). reflexivity. Qed.

Lemma ub_capture s : ub (st_capture p to c) s = ub p s.
Proof. unfold st_capture. destruct (is_set (c_them p) to); [rewrite ub_xor_piece|]; reflexivity. Qed.
Lemma tb_capture s : tb (st_capture p to c) s = xorb (tb p s) (tb p to && (s =? to)).
Proof.
  unfold st_capture. fold (tb p to). destruct (tb p to); cbn [andb].
  - rewrite tb_xor_piece, tb_xor_them, testbit_bit by exact Ht. reflexivity.
  - rewrite xorb_false_r. reflexivity.
Qed.
Lemma pb_capture j s : j <= 5 -> pb (st_capture p to c) j s = xorb (pb p j s) (tb p to && ((c =? j) && (s =? to))).
Proof.
  intros Hj. unfold st_capture. fold (tb p to). destruct (tb p to); cbn [andb].
  - rewrite pb_xor_piece, pb_xor_them, testbit_bit by (exact Hj || exact Hc || exact Ht). reflexivity.
  - rewrite xorb_false_r. reflexivity.
Qed.

Variables (is_ep : bool) (vic : N).
Lemma ub_ep s : ub (st_ep p is_ep vic) s = ub p s.
Proof. unfold st_ep. destruct is_ep; [rewrite ub_xor_piece|]; reflexivity. Qed.
Lemma tb_ep s : tb (st_ep p is_ep vic) s = xorb (tb p s) (is_ep && N.testbit vic s).
Proof.
  unfold st_ep. destruct is_ep; cbn [andb].
  - rewrite tb_xor_piece, tb_xor_them. reflexivity.
  - rewrite xorb_false_r. reflexivity.
Qed.
Lemma pb_ep j s : j <= 5 -> pb (st_ep p is_ep vic) j s = xorb (pb p j s) (is_ep && ((0 =? j) && N.testbit vic s)).
Proof.
  intros Hj. unfold st_ep. destruct is_ep; cbn [andb].
  - rewrite pb_xor_piece, pb_xor_them by (exact Hj || exact pawn_le5). reflexivity.
  - rewrite xorb_false_r. reflexivity.
Qed.

Variable promo : N.
Hypothesis Hpr : promo = NOPIECE \/ promo <= 5.
Lemma ub_promo s : ub (st_promo p promo (bit to)) s = ub p s.
Proof. unfold st_promo. destruct (negb (promo =? NOPIECE)); [rewrite !ub_xor_piece|]; reflexivity. Qed.
Lemma tb_promo s : tb (st_promo p promo (bit to)) s = tb p s.
Proof. unfold st_promo. destruct (negb (promo =? NOPIECE)); [rewrite !tb_xor_piece|]; reflexivity. Qed.
Lemma pb_promo j s : j <= 5 ->
  pb (st_promo p promo (bit to)) j s =
  xorb (pb p j s) (negb (promo =? NOPIECE) && (s =? to) && xorb (0 =? j) (promo =? j)).
Proof.
  intros Hj. unfold st_promo.
  destruct (N.eqb_spec promo NOPIECE) as [E|E]; cbn [negb andb].
  - rewrite xorb_false_r. reflexivity.
  - destruct Hpr as [Hp|Hp]; [contradiction|].
    rewrite !pb_xor_piece by (exact Hj || exact Hp || exact pawn_le5).
    rewrite testbit_bit by exact Ht. unfold PAWN.
    destruct (s =? to), (0 =? j), (promo =? j), (pb p j s); reflexivity.
Qed.
End Stages.

(* ------------------------------------------------------------------ a non-castling move, square by square *)
Ltac Zify.zify_post_hook ::= Z.div_mod_to_equations.

Record sane (p0 : Position) (m : Mv) (k : N) : Prop := {
  sn_from : m_from m < 64;
  sn_to : m_to m < 64;
  sn_ne : m_from m <> m_to m;
  sn_mover : holds p0 (m_from m) false k;                 (* our man of kind k stands on the origin *)
  sn_target : empty_at p0 (m_to m) \/ exists c, holds p0 (m_to m) true c;      (* the target is empty or theirs *)
  sn_kr : N.land (kings p0) (rooks p0) = 0;
  sn_ep : mv_is_ep p0 m = true ->
          ep p0 = Some (m_to m) /\ 8 <= m_to m /\ holds p0 (m_to m - 8) true PAWN;
  sn_promo : m_promo m = NOPIECE \/ (k = PAWN /\ 1 <= m_promo m <= 4)
}.

Lemma testbit_vic to s : to < 64 -> 8 <= to -> N.testbit (south (bit to)) s = (s =? to - 8).
Proof.
  intros Ht H8. unfold south. rewrite testbit_shr, testbit_bit by assumption.
  destruct (N.eqb_spec (s + 8) to), (N.eqb_spec s (to - 8)); try reflexivity; lia.
Qed.

Section NonCastling.
Variables (u : bool) (p0 : Position) (m : Mv) (k : N).
Hypothesis S : sane p0 m k.
Let from := m_from m.
Let to := m_to m.
Let Q := mv_boards u p0 m.
Let b := mv_is_ep p0 m.

Lemma sane_piece : mv_piece p0 m = k.
Proof. unfold mv_piece. rewrite (holds_piece_on _ _ _ _ (sn_mover _ _ _ S)). reflexivity. Qed.

Lemma sane_k : k <= 5. Proof. exact (proj1 (sn_mover _ _ _ S)). Qed.

Lemma sane_cap_le : mv_cap p0 m <= 5.
Proof.
  unfold mv_cap. destruct (piece_on p0 (m_to m)) eqn:E; [|lia]. exact (piece_on_le5 _ _ _ E).
Qed.

Lemma sane_promo_le : m_promo m = NOPIECE \/ m_promo m <= 5.
Proof. destruct (sn_promo _ _ _ S) as [H|[_ H]]; [left; exact H|right; lia]. Qed.

(* the en-passant victim's square, when there is one *)
Lemma sane_ep_facts : b = true ->
  ep p0 = Some to /\ 8 <= to /\ holds p0 (to - 8) true PAWN /\ empty_at p0 to /\ k = PAWN /\ from <> to - 8.
Proof.
  intros Hb. destruct (sn_ep _ _ _ S Hb) as (He & H8 & Hv).
  unfold b, mv_is_ep in Hb. rewrite sane_piece in Hb.
  apply andb_true_iff in Hb. destruct Hb as [Hb Hn]. apply andb_true_iff in Hb. destruct Hb as [Hp Hfile].
  apply N.eqb_eq in Hp. apply negb_true_iff, N.eqb_neq in Hfile.
  assert (He0 : empty_at p0 to).
  { destruct (sn_target _ _ _ S) as [He0 | [c Hc]]; [exact He0|].
    rewrite (holds_piece_on _ _ _ _ Hc) in Hn. discriminate. }
  refine (conj He (conj H8 (conj Hv (conj He0 (conj Hp _))))).
  intros E. apply Hfile. unfold from, to in *. rewrite E. unfold file_of.
  replace (m_to m) with (m_to m - 8 + 1 * 8) at 2 by lia. rewrite N.mod_add by lia. reflexivity.
Qed.

(* the position after the first three stages *)
Let P3 := st_ep (st_capture (st_move (mv_start u p0 m) (N.lor (bit from) (bit to)) k) to (mv_cap p0 m)) b (mv_vic p0).

Lemma p3_ub s : ub P3 s = xorb (ub p0 s) ((s =? from) || (s =? to)).
Proof.
  unfold P3. rewrite ub_ep, ub_capture, ub_move by (exact (sn_from _ _ _ S) || exact (sn_to _ _ _ S)).
  rewrite ub_start. reflexivity.
Qed.

Lemma p3_tb s : tb P3 s = xorb (xorb (tb p0 s) (tb p0 to && (s =? to))) (b && N.testbit (mv_vic p0) s).
Proof.
  unfold P3. rewrite tb_ep, tb_capture by exact (sn_to _ _ _ S). rewrite !tb_move, !tb_start. reflexivity.
Qed.

Lemma p3_pb j s : j <= 5 ->
  pb P3 j s = xorb (xorb (xorb (pb p0 j s) ((k =? j) && ((s =? from) || (s =? to))))
                         (tb p0 to && ((mv_cap p0 m =? j) && (s =? to))))
                   (b && ((0 =? j) && N.testbit (mv_vic p0) s)).
Proof.
  intros Hj. unfold P3.
  rewrite pb_ep, pb_capture, pb_move by (assumption || exact (sn_from _ _ _ S) || exact (sn_to _ _ _ S) || exact sane_k || exact sane_cap_le).
  rewrite tb_move, tb_start, pb_start. reflexivity.
Qed.

Lemma vic_bit s : b = true -> N.testbit (mv_vic p0) s = (s =? to - 8).
Proof.
  intros Hb. destruct (sane_ep_facts Hb) as (He & H8 & _). unfold mv_vic. rewrite He.
  apply testbit_vic; [exact (sn_to _ _ _ S)|exact H8].
Qed.

(* target: empty, or theirs of kind mv_cap *)
Lemma target_cases :
  (empty_at p0 to) \/ (holds p0 to true (mv_cap p0 m) /\ b = false).
Proof.
  destruct (sn_target _ _ _ S) as [He | [c Hc]]; [left; exact He|right].
  unfold mv_cap. rewrite (holds_piece_on _ _ _ _ Hc). split; [exact Hc|].
  destruct b eqn:Hb; [|reflexivity].
  destruct (sane_ep_facts Hb) as (_ & _ & _ & He0 & _).
  destruct Hc as (_ & _ & Ht & _). destruct He0 as (_ & Ht0 & _). fold to in Ht. rewrite Ht in Ht0. discriminate.
Qed.

(* ---- after the first three stages: origin empty, target ours of kind k, victim gone, the rest untouched *)
Lemma p3_from : empty_at P3 from.
Proof.
  destruct (sn_mover _ _ _ S) as (Hk & Hu & Ht & Hp). fold from in Hu, Ht, Hp.
  assert (Hne : (from =? to) = false) by (apply N.eqb_neq; exact (sn_ne _ _ _ S)).
  assert (Hv : b && N.testbit (mv_vic p0) from = false).
  { destruct b eqn:Hb; [|reflexivity]. rewrite (vic_bit _ Hb). cbn [andb]. apply N.eqb_neq.
    exact (proj2 (proj2 (proj2 (proj2 (proj2 (sane_ep_facts Hb)))))). }
  split; [|split].
  - rewrite p3_ub, Hu, N.eqb_refl. reflexivity.
  - rewrite p3_tb, Ht, Hne, Hv, andb_false_r. reflexivity.
  - intros j Hj. rewrite p3_pb by exact Hj. rewrite (Hp j Hj), N.eqb_refl, Hne.
    replace (b && ((0 =? j) && N.testbit (mv_vic p0) from)) with false
      by (destruct b; [cbn [andb] in Hv |- *; rewrite Hv, andb_false_r|]; reflexivity).
    rewrite !andb_false_r, (N.eqb_sym k j). cbn [orb]. rewrite andb_true_r.
    destruct (j =? k); reflexivity.
Qed.

Lemma p3_to : holds P3 to false k.
Proof.
  assert (Hne : (to =? from) = false) by (apply N.eqb_neq; intros E; apply (sn_ne _ _ _ S); symmetry; exact E).
  assert (Hv : b && N.testbit (mv_vic p0) to = false).
  { destruct b eqn:Hb; [|reflexivity]. rewrite (vic_bit _ Hb). cbn [andb]. apply N.eqb_neq.
    destruct (sane_ep_facts Hb) as (_ & H8 & _). lia. }
  assert (Hv' : forall j, b && ((0 =? j) && N.testbit (mv_vic p0) to) = false).
  { intros j. destruct b; [cbn [andb] in Hv |- *; rewrite Hv, andb_false_r|]; reflexivity. }
  split; [exact sane_k|].
  destruct target_cases as [(Hu & Ht & Hp) | ((Hc & Hu & Ht & Hp) & Hb)].
  - split; [|split].
    + rewrite p3_ub, Hu, N.eqb_refl, orb_true_r. reflexivity.
    + rewrite p3_tb, Ht, Hv. reflexivity.
    + intros j Hj. rewrite p3_pb by exact Hj. rewrite (Hp j Hj), Ht, Hv', N.eqb_refl, orb_true_r, andb_true_r, (N.eqb_sym k j).
      destruct (j =? k); reflexivity.
  - split; [|split].
    + rewrite p3_ub, Hu, N.eqb_refl, orb_true_r. reflexivity.
    + rewrite p3_tb, Ht, Hv, N.eqb_refl. reflexivity.
    + intros j Hj. rewrite p3_pb by exact Hj. rewrite (Hp j Hj), Ht, Hv', N.eqb_refl, orb_true_r, !andb_true_r.
      rewrite (N.eqb_sym k j), (N.eqb_sym (mv_cap p0 m) j).
      destruct (j =? k), (j =? mv_cap p0 m); reflexivity.
Qed.

Lemma p3_vic : b = true -> empty_at P3 (to - 8).
Proof.
  intros Hb. destruct (sane_ep_facts Hb) as (_ & H8 & (_ & Hu & Ht & Hp) & (_ & Ht0 & _) & _ & Hfv).
  assert (N1 : (to - 8 =? from) = false) by (apply N.eqb_neq; intros E; apply Hfv; symmetry; exact E).
  assert (N2 : (to - 8 =? to) = false) by (apply N.eqb_neq; lia).
  split; [|split].
  - rewrite p3_ub, Hu, N1, N2. reflexivity.
  - rewrite p3_tb, Ht, Ht0, Hb, (vic_bit _ Hb), N.eqb_refl. reflexivity.
  - intros j Hj. rewrite p3_pb by exact Hj.
    rewrite (Hp j Hj), Ht0, Hb, (vic_bit _ Hb), N.eqb_refl, N1, N2. cbn [orb andb]. rewrite andb_false_r, andb_true_r.
    unfold PAWN. rewrite (N.eqb_sym 0 j). destruct (j =? 0); reflexivity.
Qed.

Lemma p3_other s : s <> from -> s <> to -> (b = true -> s <> to - 8) -> same_at p0 P3 s.
Proof.
  intros N1 N2 N3. apply N.eqb_neq in N1, N2.
  assert (Hv : b && N.testbit (mv_vic p0) s = false).
  { destruct b eqn:Hb; [|reflexivity]. rewrite (vic_bit _ Hb). cbn [andb]. apply N.eqb_neq, N3. reflexivity. }
  split; [|split].
  - rewrite p3_ub, N1, N2. cbn [orb]. apply xorb_false_r.
  - rewrite p3_tb, N2, Hv, andb_false_r, !xorb_false_r. reflexivity.
  - intros j Hj. rewrite p3_pb by exact Hj. rewrite N1, N2.
    replace (b && ((0 =? j) && N.testbit (mv_vic p0) s)) with false
      by (destruct b; [cbn [andb] in Hv |- *; rewrite Hv, andb_false_r|]; reflexivity).
    cbn [orb]. rewrite !andb_false_r, !xorb_false_r. reflexivity.
Qed.

(* no king stands on a rook's square afterwards: the castling fix-up does not fire *)
Lemma p3_no_castle : N.land (kings P3) (rooks P3) = 0.
Proof.
  apply N.bits_inj. intros s. rewrite N.land_spec, N.bits_0.
  change (N.testbit (kings P3) s) with (pb P3 5 s). change (N.testbit (rooks P3) s) with (pb P3 3 s).
  destruct (N.eq_dec s from) as [->|N1].
  { destruct p3_from as (_ & _ & Hp). rewrite (Hp 5), (Hp 3) by lia. reflexivity. }
  destruct (N.eq_dec s to) as [->|N2].
  { destruct p3_to as (Hk & _ & _ & Hp). rewrite (Hp 5), (Hp 3) by lia.
    destruct (N.eqb_spec 5 k), (N.eqb_spec 3 k); try reflexivity. lia. }
  assert (Hb : b = true \/ b = false) by (destruct b; [left|right]; reflexivity).
  destruct Hb as [Hb|Hb].
  - destruct (N.eq_dec s (to - 8)) as [->|N3].
    { destruct (p3_vic Hb) as (_ & _ & Hp). rewrite (Hp 5), (Hp 3) by lia. reflexivity. }
    destruct (p3_other s N1 N2 (fun _ => N3)) as (_ & _ & Hp). rewrite (Hp 5), (Hp 3) by lia.
    change (N.testbit (kings p0) s && N.testbit (rooks p0) s = false). rewrite <- N.land_spec, (sn_kr _ _ _ S). apply N.bits_0.
  - assert (N3 : b = true -> s <> to - 8) by (rewrite Hb; discriminate).
    destruct (p3_other s N1 N2 N3) as (_ & _ & Hp). rewrite (Hp 5), (Hp 3) by lia.
    change (N.testbit (kings p0) s && N.testbit (rooks p0) s = false). rewrite <- N.land_spec, (sn_kr _ _ _ S). apply N.bits_0.
Qed.

Lemma p3_castle_id : st_castle P3 p0 from to = P3.
Proof. unfold st_castle. rewrite p3_no_castle. reflexivity. Qed.

Lemma boards_eq : Q = st_promo P3 (m_promo m) (bit to).
Proof.
  unfold Q, mv_boards. cbv zeta. rewrite sane_piece. fold from to b P3. rewrite p3_castle_id. reflexivity.
Qed.

(* the kind that ends up on the target square *)
Definition landed (k promo : N) : N := if promo =? NOPIECE then k else promo.

Theorem after_from : empty_at Q from.
Proof.
  rewrite boards_eq. destruct p3_from as (Hu & Ht & Hp).
  assert (Hne : (from =? to) = false) by (apply N.eqb_neq; exact (sn_ne _ _ _ S)).
  split; [|split].
  - rewrite ub_promo. exact Hu.
  - rewrite tb_promo. exact Ht.
  - intros j Hj. rewrite pb_promo by (exact (sn_to _ _ _ S) || exact sane_promo_le || exact Hj).
    rewrite (Hp j Hj), Hne, andb_false_r. reflexivity.
Qed.

Theorem after_to : holds Q to false (landed k (m_promo m)).
Proof.
  rewrite boards_eq. destruct p3_to as (Hk & Hu & Ht & Hp).
  split; [|split; [|split]].
  - unfold landed. destruct (sn_promo _ _ _ S) as [E|[_ E]]; [rewrite E; exact Hk|].
    destruct (N.eqb_spec (m_promo m) NOPIECE); lia.
  - rewrite ub_promo. exact Hu.
  - rewrite tb_promo. exact Ht.
  - intros j Hj. rewrite pb_promo by (exact (sn_to _ _ _ S) || exact sane_promo_le || exact Hj).
    rewrite (Hp j Hj), N.eqb_refl, andb_true_r. unfold landed.
    destruct (sn_promo _ _ _ S) as [E|[Ek E]].
    + rewrite E. cbn [N.eqb NOPIECE Pos.eqb negb andb]. apply xorb_false_r.
    + assert (En : (m_promo m =? NOPIECE) = false) by (apply N.eqb_neq; unfold NOPIECE; lia).
      rewrite En. cbn [negb andb]. subst k. unfold PAWN.
      rewrite (N.eqb_sym 0 j), (N.eqb_sym (m_promo m) j). destruct (j =? 0); destruct (j =? m_promo m); reflexivity.
Qed.

Theorem after_vic : b = true -> empty_at Q (to - 8).
Proof.
  intros Hb. destruct (p3_vic Hb) as (Hu & Ht & Hp).
  destruct (sane_ep_facts Hb) as (_ & H8 & _). rewrite boards_eq.
  assert (Hne : (to - 8 =? to) = false) by (apply N.eqb_neq; lia).
  split; [|split].
  - rewrite ub_promo. exact Hu.
  - rewrite tb_promo. exact Ht.
  - intros j Hj. rewrite pb_promo by (exact (sn_to _ _ _ S) || exact sane_promo_le || exact Hj).
    rewrite (Hp j Hj), Hne, andb_false_r. reflexivity.
Qed.

Theorem after_other s : s <> from -> s <> to -> (b = true -> s <> to - 8) -> same_at p0 Q s.
Proof.
  intros N1 N2 N3. destruct (p3_other s N1 N2 N3) as (Hu & Ht & Hp). rewrite boards_eq.
  apply N.eqb_neq in N2.
  split; [|split].
  - rewrite ub_promo. exact Hu.
  - rewrite tb_promo. exact Ht.
  - intros j Hj. rewrite pb_promo by (exact (sn_to _ _ _ S) || exact sane_promo_le || exact Hj).
    rewrite (Hp j Hj), N2, andb_false_r. apply xorb_false_r.
Qed.
End NonCastling.
