(* C18: the table model is a faithful always-replace cache. *)
From Coq Require Import NArith ZArith List Bool Lia FMapPositive.
From Rawr Require Import Consts Bits TT.
Import ListNotations.
Local Open Scope N_scope.

Section Facts.
Variable T : Type.
Variable dflt : T.
Variable teqb : T -> T -> bool.
Variable esize : N.

Notation Table := (Table T).
Notation slot := (slot T dflt).
Notation poll := (t_poll T dflt).
Notation add := (t_add T).
Notation resize := (t_resize T dflt esize).
Notation clear := (t_clear T).
Notation hashfull := (t_hashfull T dflt teqb).

(* ---- operations and their outputs *)
Inductive op := OAdd (k : N) (e : T) | OPoll (k : N) | OClear | OResize (mb : N) | OFull | OLen.
Inductive out := RUnit | REntry (e : T) | RFull (f : option Z) | RLen (n : N) | RPanic.

Definition step (t : Table) (o : op) : Table * out :=
  match o with
  | OAdd k e => match add t k e with Some t' => (t', RUnit) | None => (t, RPanic) end
  | OPoll k => match poll t k with Some e => (t, REntry e) | None => (t, RPanic) end
  | OClear => (clear t, RUnit)
  | OResize mb => (resize t mb, RUnit)
  | OFull => (t, RFull (hashfull t))
  | OLen => (t, RLen (t_len t))
  end.

(* ---- specification: a length and, per slot, the last value stored there (default if none) *)
Record Spec := mkSpec { sp_len : N; sp_at : N -> T }.
Definition sp_new : Spec := mkSpec 0 (fun _ => dflt).
Definition sp_idx (s : Spec) (k : N) : option N := if sp_len s =? 0 then None else Some (k mod sp_len s).

Fixpoint sp_count (s : Spec) (n : nat) (i : N) : Z :=
  match n with
  | O => 0%Z
  | S n' => ((if teqb (sp_at s i) dflt then 0 else 1) + sp_count s n' (N.succ i))%Z
  end.

Definition sp_step (s : Spec) (o : op) : Spec * out :=
  match o with
  | OAdd k e => match sp_idx s k with
                | Some i => (mkSpec (sp_len s) (fun j => if j =? i then e else sp_at s j), RUnit)
                | None => (s, RPanic) end
  | OPoll k => match sp_idx s k with Some i => (s, REntry (sp_at s i)) | None => (s, RPanic) end
  | OClear => (mkSpec (sp_len s) (fun _ => dflt), RUnit)
  | OResize mb => let n := num_entries esize mb in
                  (mkSpec n (fun j => if j <? n then sp_at s j else dflt), RUnit)
  | OFull => (s, RFull (let size := N.min (sp_len s) 1000 in
                        if size =? 0 then None else Some (sp_count s (N.to_nat size) 0)))
  | OLen => (s, RLen (sp_len s))
  end.

Definition R (t : Table) (s : Spec) : Prop := t_len t = sp_len s /\ forall i, slot t i = sp_at s i.

Lemma R_init : R (t_new_empty T) sp_new.
Proof. split; [reflexivity|]. intros i. unfold TT.slot. cbn. rewrite PositiveMap.gempty. reflexivity. Qed.

Lemma succ_pos_inj a b : N.succ_pos a = N.succ_pos b -> a = b.
Proof. intros H. apply (f_equal Pos.pred_N) in H. rewrite !N.pos_pred_succ in H. exact H. Qed.

Lemma slot_add t i e j :
  slot (mkTable (t_len t) (PositiveMap.add (N.succ_pos i) e (t_map t))) j = if j =? i then e else slot t j.
Proof.
  unfold TT.slot. cbn. destruct (N.eqb_spec j i) as [->|Hne].
  - rewrite PositiveMap.gss. reflexivity.
  - rewrite PositiveMap.gso; [reflexivity|]. intros H. apply succ_pos_inj in H. congruence.
Qed.

Lemma count_eq t s : (forall i, slot t i = sp_at s i) -> forall n i, count_filled T dflt teqb t n i = sp_count s n i.
Proof. intros H n. induction n as [|n IH]; intros i; cbn [count_filled sp_count]; [reflexivity|]. rewrite H, IH. reflexivity. Qed.

Lemma step_refines t s o : R t s -> R (fst (step t o)) (fst (sp_step s o)) /\ snd (step t o) = snd (sp_step s o).
Proof.
  intros [Hl Hs]. destruct o as [k e|k| |mb| |]; cbn [step sp_step].
  - unfold TT.t_add, TT.get_idx, sp_idx. rewrite <- Hl. destruct (t_len t =? 0); cbn [fst snd].
    + split; [split; assumption|reflexivity].
    + split; [|reflexivity]. split; [cbn; reflexivity|]. intros j. cbn [sp_at]. rewrite slot_add, Hs. reflexivity.
  - unfold TT.t_poll, TT.get_idx, sp_idx. rewrite <- Hl. destruct (t_len t =? 0); cbn [fst snd].
    + split; [split; assumption|reflexivity].
    + split; [split; assumption|]. rewrite Hs. reflexivity.
  - split; [|reflexivity]. split; [exact Hl|]. intros i. unfold TT.slot, TT.t_clear. cbn. rewrite PositiveMap.gempty. reflexivity.
  - split; [|reflexivity]. split; [reflexivity|]. intros i. cbn. unfold TT.slot, TT.t_resize. cbn.
    rewrite PositiveMap.gmapi. rewrite N.pos_pred_succ.
    specialize (Hs i). unfold TT.slot in Hs.
    destruct (PositiveMap.find (N.succ_pos i) (t_map t)) as [v|]; cbn.
    + destruct (i <? num_entries esize mb); [exact Hs|reflexivity].
    + rewrite <- Hs. destruct (i <? num_entries esize mb); reflexivity.
  - split; [split; assumption|]. cbn. unfold TT.t_hashfull. rewrite Hl.
    destruct (N.min (sp_len s) 1000 =? 0); [reflexivity|]. rewrite (count_eq t s Hs). reflexivity.
  - split; [split; assumption|]. cbn. rewrite Hl. reflexivity.
Qed.

Definition run (ops : list op) : Table * list out :=
  fold_left (fun acc o => let '(t, outs) := acc in let '(t', r) := step t o in (t', outs ++ [r])) ops (t_new_empty T, []).
Definition sp_run (ops : list op) : Spec * list out :=
  fold_left (fun acc o => let '(s, outs) := acc in let '(s', r) := sp_step s o in (s', outs ++ [r])) ops (sp_new, []).

(* every finite sequence of operations: same outputs as the specification, states related *)
Theorem tt_refines ops : R (fst (run ops)) (fst (sp_run ops)) /\ snd (run ops) = snd (sp_run ops).
Proof.
  unfold run, sp_run.
  assert (H : forall ops t s outs, R t s ->
    R (fst (fold_left (fun acc o => let '(t, outs) := acc in let '(t', r) := step t o in (t', outs ++ [r])) ops (t, outs)))
      (fst (fold_left (fun acc o => let '(s, outs) := acc in let '(s', r) := sp_step s o in (s', outs ++ [r])) ops (s, outs)))
    /\ snd (fold_left (fun acc o => let '(t, outs) := acc in let '(t', r) := step t o in (t', outs ++ [r])) ops (t, outs))
       = snd (fold_left (fun acc o => let '(s, outs) := acc in let '(s', r) := sp_step s o in (s', outs ++ [r])) ops (s, outs))).
  { clear ops. induction ops as [|o ops IH]; intros t s outs HR; cbn [fold_left]; [split; [exact HR|reflexivity]|].
    pose proof (step_refines t s o HR) as [HR' Ho].
    destruct (step t o) as [t' r]. destruct (sp_step s o) as [s' r']. cbn in HR', Ho. subst r'. apply IH. exact HR'. }
  apply H. apply R_init.
Qed.

(* ---- corollaries in the wording of the property *)
Theorem poll_after_add t k e t' : add t k e = Some t' -> poll t' k = Some e.
Proof.
  unfold TT.t_add, TT.t_poll, TT.get_idx. destruct (t_len t =? 0) eqn:E; [discriminate|].
  intros H. inversion H; subst t'; clear H. cbn. rewrite E. rewrite slot_add, N.eqb_refl. reflexivity.
Qed.

Theorem poll_other_slot t k e t' k' :
  add t k e = Some t' -> k' mod t_len t <> k mod t_len t -> poll t' k' = poll t k'.
Proof.
  unfold TT.t_add, TT.t_poll, TT.get_idx. destruct (t_len t =? 0) eqn:E; [discriminate|].
  intros H Hne. inversion H; subst t'; clear H. cbn. rewrite E. rewrite slot_add.
  destruct (N.eqb_spec (k' mod t_len t) (k mod t_len t)); [contradiction|reflexivity].
Qed.

Theorem clear_empties t i : slot (clear t) i = dflt /\ t_len (clear t) = t_len t.
Proof. split; [|reflexivity]. unfold TT.slot, TT.t_clear. cbn. rewrite PositiveMap.gempty. reflexivity. Qed.

Theorem resize_len t mb : t_len (resize t mb) = (mb * 1024 * 1024) / esize.
Proof. reflexivity. Qed.

Theorem resize_keeps_provenance t mb i :
  slot (resize t mb) i = dflt \/ (i < t_len (resize t mb) /\ slot (resize t mb) i = slot t i).
Proof.
  unfold TT.slot, TT.t_resize. cbn. rewrite PositiveMap.gmapi, N.pos_pred_succ.
  destruct (PositiveMap.find (N.succ_pos i) (t_map t)) as [v|]; cbn; [|left; reflexivity].
  destruct (N.ltb_spec i (num_entries esize mb)); [right; split; [assumption|reflexivity]|left; reflexivity].
Qed.

(* entries are never invented: whatever a slot holds is the default or was stored by an earlier add *)
Fixpoint stored (ops : list op) : list T :=
  match ops with [] => [] | OAdd _ e :: t => e :: stored t | _ :: t => stored t end.

Lemma stored_app a b : stored (a ++ b) = stored a ++ stored b.
Proof. induction a as [|o a IH]; [reflexivity|]. destruct o; cbn; rewrite IH; reflexivity. Qed.

Theorem never_invented ops i : let t := fst (run ops) in slot t i = dflt \/ In (slot t i) (stored ops).
Proof.
  cbn zeta. unfold run.
  assert (H : forall ops pre t outs, (forall i, slot t i = dflt \/ In (slot t i) (stored pre)) ->
    forall i, let t' := fst (fold_left (fun acc o => let '(t, outs) := acc in let '(t', r) := step t o in (t', outs ++ [r])) ops (t, outs)) in
      slot t' i = dflt \/ In (slot t' i) (stored (pre ++ ops))).
  { clear. induction ops as [|o ops IH]; intros pre t outs Hinv i; cbn [fold_left].
    - rewrite app_nil_r. apply Hinv.
    - destruct (step t o) as [t1 r] eqn:Es. cbn zeta.
      replace (pre ++ o :: ops) with ((pre ++ [o]) ++ ops) by (rewrite <- app_assoc; reflexivity).
      apply IH. intros j. rewrite stored_app.
      destruct o as [k e|k| |mb| |]; cbn [step] in Es.
      + unfold TT.t_add, TT.get_idx in Es. destruct (t_len t =? 0).
        * inversion Es; subst. destruct (Hinv j) as [H|H]; [left; exact H|right; apply in_or_app; left; exact H].
        * inversion Es; subst. rewrite slot_add. destruct (j =? k mod t_len t).
          -- right. apply in_or_app. right. left. reflexivity.
          -- destruct (Hinv j) as [H|H]; [left; exact H|right; apply in_or_app; left; exact H].
      + destruct (poll t k); inversion Es; subst; destruct (Hinv j) as [H|H]; [left; exact H|right; apply in_or_app; left; exact H|left; exact H|right; apply in_or_app; left; exact H].
      + inversion Es; subst. left. apply clear_empties.
      + inversion Es; subst. destruct (resize_keeps_provenance t mb j) as [H|[_ H]]; [left; exact H|].
        rewrite H. destruct (Hinv j) as [H'|H']; [left; exact H'|right; apply in_or_app; left; exact H'].
      + inversion Es; subst. destruct (Hinv j) as [H|H]; [left; exact H|right; apply in_or_app; left; exact H].
      + inversion Es; subst. destruct (Hinv j) as [H|H]; [left; exact H|right; apply in_or_app; left; exact H]. }
  apply (H ops [] (t_new_empty T) []). intros j. left. unfold TT.slot. cbn. rewrite PositiveMap.gempty. reflexivity.
Qed.

Lemma count_range t : forall n i, (0 <= count_filled T dflt teqb t n i <= Z.of_nat n)%Z.
Proof.
  induction n as [|n IH]; intros i; cbn [count_filled]; [lia|].
  specialize (IH (N.succ i)). destruct (teqb (slot t i) dflt); lia.
Qed.

Theorem hashfull_range t n : hashfull t = Some n -> (0 <= n <= 1000)%Z.
Proof.
  unfold TT.t_hashfull. destruct (N.min (t_len t) 1000 =? 0); [discriminate|].
  intros H. inversion H; subst n; clear H.
  pose proof (count_range t (N.to_nat (N.min (t_len t) 1000)) 0) as Hc.
  assert (Z.of_nat (N.to_nat (N.min (t_len t) 1000)) <= 1000)%Z by lia. lia.
Qed.

End Facts.
