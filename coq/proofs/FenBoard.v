(* C06: the board field of the printed FEN parses back to the same eight boards, for every well-formed position, in both
   arithmetic modes (no u8 trap is reached).  The printer walks ranks 8..1 and files a..h counting empty squares; the
   parser XOR-toggles one bit per piece character and advances a square counter. *)
From Coq Require Import NArith ZArith List Bool Lia ZifyN ZifyBool.
From Rawr Require Import Consts Bits Magic Position MoveGen MakeMove MakeStages Fen
                         BitsFacts ShiftFacts FlipFacts AbsFacts HashFacts MakeFacts KeyAbs NotationFacts GenSane Closure.
Import ListNotations.
Local Open Scope N_scope.
Ltac Zify.zify_post_hook ::= Z.div_mod_to_equations.

(* the order in which the FEN visits the squares *)
Definition ord (s : N) : N := 8 * (7 - s / 8) + s mod 8.
Definition seen (k s : N) : bool := ord s <? k.

Lemma board_loop_app mode a s1 s2 : board_loop mode a (s1 ++ s2) = obind (board_loop mode a s1) (fun a' => board_loop mode a' s2).
Proof.
  revert a. induction s1 as [|c t IH]; intros a; cbn [app board_loop]; [reflexivity|].
  destruct (board_char mode a c) as [a'|]; cbn [obind]; [apply IH|reflexivity].
Qed.

Record AccOK (np : Position) (a : BoardAcc) (k : N) : Prop := {
  ao_idx : ba_idx a = k;
  ao_w : forall s, N.testbit (ba_w a) s = (s <? 64) && ub np s && seen k s;
  ao_b : forall s, N.testbit (ba_b a) s = (s <? 64) && tb np s && seen k s;
  ao_len : length (ba_pc a) = 6%nat;
  ao_pc : forall j, j <= 5 -> forall s, N.testbit (nthN (ba_pc a) j 0) s = (s <? 64) && pb np j s && seen k s
}.

Lemma AccOK_start np : AccOK np (mkBA 0 0 [0; 0; 0; 0; 0; 0] 0) 0.
Proof.
  constructor; cbn [ba_idx ba_w ba_b ba_pc]; try reflexivity.
  - intros s. rewrite N.bits_0. unfold seen. destruct (N.ltb_spec (ord s) 0); [lia|]. rewrite andb_false_r. reflexivity.
  - intros s. rewrite N.bits_0. unfold seen. destruct (N.ltb_spec (ord s) 0); [lia|]. rewrite andb_false_r. reflexivity.
  - intros j Hj s. assert (E : nthN [0; 0; 0; 0; 0; 0] j 0 = 0).
    { unfold nthN. assert (Hc : j = 0 \/ j = 1 \/ j = 2 \/ j = 3 \/ j = 4 \/ j = 5) by lia. destruct Hc as [->|[->|[->|[->|[->| ->]]]]]; reflexivity. }
    rewrite E, N.bits_0. unfold seen. destruct (N.ltb_spec (ord s) 0); [lia|]. rewrite andb_false_r. reflexivity.
Qed.

(* square arithmetic of board_char, no trap in either mode *)
Lemma char_square mode k : k < 64 ->
  obind (u8_sub mode 7 (k / 8)) (fun r7 => obind (u8_mul mode 8 r7) (fun r8 => obind (u8_add mode r8 (k mod 8)) (fun sq => bit_m mode sq)))
  = Some (bit (8 * (7 - k / 8) + k mod 8)).
Proof.
  intros Hk. unfold u8_sub. destruct (N.leb_spec (k / 8) 7) as [_|H]; [|lia]. cbn [obind].
  unfold u8_mul. destruct (N.ltb_spec (8 * (7 - k / 8)) 256) as [_|H]; [|lia]. cbn [obind].
  unfold u8_add. destruct (N.ltb_spec (8 * (7 - k / 8) + k mod 8) 256) as [_|H]; [|lia]. cbn [obind].
  unfold bit_m. destruct (N.ltb_spec (8 * (7 - k / 8) + k mod 8) 64) as [_|H]; [reflexivity|lia].
Qed.

Lemma ord_sq k : k < 64 -> ord (8 * (7 - k / 8) + k mod 8) = k /\ 8 * (7 - k / 8) + k mod 8 < 64.
Proof. intros H. unfold ord. split; lia. Qed.
Lemma ord_inj s1 s2 : s1 < 64 -> s2 < 64 -> ord s1 = ord s2 -> s1 = s2.
Proof. unfold ord. intros. lia. Qed.

Lemma seen_succ k s sq : s < 64 -> sq < 64 -> ord sq = k -> seen (k + 1) s = seen k s || (s =? sq).
Proof.
  intros Hs Hq Ho. unfold seen. destruct (N.eqb_spec s sq) as [->|Hne].
  - rewrite Ho. destruct (N.ltb_spec k (k + 1)); [|lia]. rewrite orb_true_r. reflexivity.
  - rewrite orb_false_r. destruct (N.ltb_spec (ord s) (k + 1)), (N.ltb_spec (ord s) k); try reflexivity; try lia.
    exfalso. apply Hne. apply ord_inj; [assumption|assumption|lia].
Qed.

Lemma piece_char_roundtrip pc black : pc <= 5 -> piece_of_char (piece_char pc black) = Some (black, pc).
Proof.
  intros H. assert (Hc : pc = 0 \/ pc = 1 \/ pc = 2 \/ pc = 3 \/ pc = 4 \/ pc = 5) by lia.
  destruct Hc as [->|[->|[->|[->|[->| ->]]]]]; destruct black; reflexivity.
Qed.

Lemma nthN_upd6 l i v j : j <= 5 -> nthN (upd6 l i v) j 0 = if j =? i then v else nthN l j 0.
Proof.
  intros H. unfold upd6. assert (Hc : j = 0 \/ j = 1 \/ j = 2 \/ j = 3 \/ j = 4 \/ j = 5) by lia.
  destruct Hc as [->|[->|[->|[->|[->| ->]]]]]; reflexivity.
Qed.
Lemma upd6_len l i v : length (upd6 l i v) = 6%nat. Proof. reflexivity. Qed.

Lemma testbit_lxor_bit x sq s : sq < 64 -> N.testbit (N.lxor x (bit sq)) s = xorb (N.testbit x s) (s =? sq).
Proof. intros H. rewrite N.lxor_spec, (testbit_bit sq s H). reflexivity. Qed.

Section Step.
Variable np : Position.
Variable mode : bool.

Lemma step_piece a k t pc : AccOK np a k -> k < 64 -> holds np (8 * (7 - k / 8) + k mod 8) t pc ->
  exists a', board_char mode a (piece_char pc t) = Some a' /\ AccOK np a' (k + 1).
Proof.
  intros [Hidx Hw Hb Hlen Hpc] Hk Hh. set (sq := 8 * (7 - k / 8) + k mod 8) in *.
  destruct (ord_sq k Hk) as (Hord & Hsq). fold sq in Hord, Hsq.
  pose proof Hh as (Hp5 & Hu & Ht & Hp).
  unfold board_char. cbv zeta. rewrite Hidx.
  pose proof (char_square mode k Hk) as Hcs. fold sq in Hcs.
  destruct (u8_sub mode 7 (k / 8)) as [r7|]; [|discriminate]. cbn [obind] in Hcs |- *.
  destruct (u8_mul mode 8 r7) as [r8|]; [|discriminate]. cbn [obind] in Hcs |- *.
  destruct (u8_add mode r8 (k mod 8)) as [sq'|]; [|discriminate]. cbn [obind] in Hcs |- *.
  rewrite Hcs. cbn [obind]. rewrite (piece_char_roundtrip pc t Hp5).
  unfold u8_add at 1. destruct (N.ltb_spec (k + 1) 256) as [_|H]; [|lia]. cbn [obind].
  eexists. split; [reflexivity|].
  constructor; cbn [ba_idx ba_w ba_b ba_pc].
  - reflexivity.
  - intros s. destruct (N.ltb_spec s 64) as [Hs|Hs].
    + rewrite (seen_succ k s sq Hs Hsq Hord). destruct t.
      * rewrite Hw. apply N.ltb_lt in Hs. rewrite Hs. cbn [andb]. destruct (N.eqb_spec s sq) as [->|]; [rewrite Hu; cbn [negb andb]; reflexivity|rewrite orb_false_r; reflexivity].
      * rewrite (testbit_lxor_bit _ sq s Hsq), Hw. apply N.ltb_lt in Hs. rewrite Hs. cbn [andb].
        destruct (N.eqb_spec s sq) as [->|]; [|rewrite orb_false_r, xorb_false_r; reflexivity].
        rewrite Hu. cbn [negb andb]. unfold seen. rewrite Hord. destruct (N.ltb_spec k k); [lia|reflexivity].
    + destruct t; [rewrite Hw|rewrite (testbit_lxor_bit _ sq s Hsq), Hw]; apply N.ltb_ge in Hs; rewrite Hs; cbn [andb]; [reflexivity|].
      apply N.ltb_ge in Hs. destruct (N.eqb_spec s sq); [lia|reflexivity].
  - intros s. destruct (N.ltb_spec s 64) as [Hs|Hs].
    + rewrite (seen_succ k s sq Hs Hsq Hord). destruct t.
      * rewrite (testbit_lxor_bit _ sq s Hsq), Hb. apply N.ltb_lt in Hs. rewrite Hs. cbn [andb].
        destruct (N.eqb_spec s sq) as [->|]; [|rewrite orb_false_r, xorb_false_r; reflexivity].
        rewrite Ht. cbn [andb]. unfold seen. rewrite Hord. destruct (N.ltb_spec k k); [lia|reflexivity].
      * rewrite Hb. apply N.ltb_lt in Hs. rewrite Hs. cbn [andb]. destruct (N.eqb_spec s sq) as [->|]; [rewrite Ht; reflexivity|rewrite orb_false_r; reflexivity].
    + destruct t; [rewrite (testbit_lxor_bit _ sq s Hsq), Hb|rewrite Hb]; apply N.ltb_ge in Hs; rewrite Hs; cbn [andb]; [|reflexivity].
      apply N.ltb_ge in Hs. destruct (N.eqb_spec s sq); [lia|reflexivity].
  - apply upd6_len.
  - intros j Hj s. rewrite (nthN_upd6 _ _ _ j Hj). destruct (N.eqb_spec j pc) as [->|Hne].
    + rewrite (testbit_lxor_bit _ sq s Hsq), (Hpc pc Hp5). destruct (N.ltb_spec s 64) as [Hs|Hs].
      * rewrite (seen_succ k s sq Hs Hsq Hord). cbn [andb].
        destruct (N.eqb_spec s sq) as [->|]; [|rewrite orb_false_r, xorb_false_r; reflexivity].
        rewrite (Hp pc Hp5), N.eqb_refl. cbn [andb]. unfold seen. rewrite Hord. destruct (N.ltb_spec k k); [lia|reflexivity].
      * cbn [andb]. destruct (N.eqb_spec s sq); [lia|reflexivity].
    + rewrite (Hpc j Hj). destruct (N.ltb_spec s 64) as [Hs|Hs]; [|reflexivity].
      rewrite (seen_succ k s sq Hs Hsq Hord). cbn [andb]. destruct (N.eqb_spec s sq) as [->|]; [|rewrite orb_false_r; reflexivity].
      rewrite (Hp j Hj). destruct (N.eqb_spec j pc); [contradiction|reflexivity].
Qed.
End Step.

Section Step2.
Variable np : Position.
Variable mode : bool.

Lemma arith_ok k : k < 64 -> exists bb,
  obind (u8_sub mode 7 (k / 8)) (fun r7 => obind (u8_mul mode 8 r7) (fun r8 => obind (u8_add mode r8 (k mod 8)) (fun sq => bit_m mode sq))) = Some bb.
Proof. intros H. eexists. apply char_square. exact H. Qed.

Lemma step_digit a k n : AccOK np a k -> 1 <= n <= 8 -> k + n <= 64 ->
  (forall s, s < 64 -> k <= ord s < k + n -> empty_at np s) ->
  exists a', board_char mode a (48 + n) = Some a' /\ AccOK np a' (k + n).
Proof.
  intros [Hidx Hw Hb Hlen Hpc] Hn Hkn Hemp.
  assert (Hk : k < 64) by lia.
  unfold board_char. cbv zeta. rewrite Hidx.
  pose proof (char_square mode k Hk) as Hcs.
  destruct (u8_sub mode 7 (k / 8)) as [r7|]; [|discriminate]. cbn [obind] in Hcs |- *.
  destruct (u8_mul mode 8 r7) as [r8|]; [|discriminate]. cbn [obind] in Hcs |- *.
  destruct (u8_add mode r8 (k mod 8)) as [sq'|]; [|discriminate]. cbn [obind] in Hcs |- *.
  rewrite Hcs. cbn [obind].
  assert (Hc : n = 1 \/ n = 2 \/ n = 3 \/ n = 4 \/ n = 5 \/ n = 6 \/ n = 7 \/ n = 8) by lia.
  assert (Hpo : piece_of_char (48 + n) = None) by (destruct Hc as [->|[->|[->|[->|[->|[->|[->| ->]]]]]]]; reflexivity).
  rewrite Hpo.
  assert (Hrange : (49 <=? 48 + n) && (48 + n <=? 56) = true).
  { apply andb_true_iff. split; apply N.leb_le; lia. }
  rewrite Hrange. replace (48 + n - 48) with n by lia.
  unfold u8_add. destruct (N.ltb_spec (k + n) 256) as [_|H]; [|lia]. cbn [obind].
  eexists. split; [reflexivity|].
  assert (Hseen : forall s, s < 64 -> seen (k + n) s = seen k s || ((k <=? ord s) && (ord s <? k + n))).
  { intros s Hs. unfold seen. destruct (N.ltb_spec (ord s) (k + n)), (N.ltb_spec (ord s) k), (N.leb_spec k (ord s)); cbn; try reflexivity; lia. }
  assert (Hin : forall s, s < 64 -> (k <=? ord s) && (ord s <? k + n) = true -> empty_at np s).
  { intros s Hs H. apply andb_true_iff in H. destruct H as [H1 H2]. apply N.leb_le in H1. apply N.ltb_lt in H2. apply Hemp; [exact Hs|lia]. }
  constructor; cbn [ba_idx ba_w ba_b ba_pc].
  - reflexivity.
  - intros s. rewrite Hw. destruct (N.ltb_spec s 64) as [Hs|Hs]; [|reflexivity]. cbn [andb]. rewrite (Hseen s Hs).
    destruct ((k <=? ord s) && (ord s <? k + n)) eqn:E; [|rewrite orb_false_r; reflexivity].
    destruct (Hin s Hs E) as (Hu & _). rewrite Hu. reflexivity.
  - intros s. rewrite Hb. destruct (N.ltb_spec s 64) as [Hs|Hs]; [|reflexivity]. cbn [andb]. rewrite (Hseen s Hs).
    destruct ((k <=? ord s) && (ord s <? k + n)) eqn:E; [|rewrite orb_false_r; reflexivity].
    destruct (Hin s Hs E) as (_ & Ht & _). rewrite Ht. reflexivity.
  - exact Hlen.
  - intros j Hj s. rewrite (Hpc j Hj). destruct (N.ltb_spec s 64) as [Hs|Hs]; [|reflexivity]. cbn [andb]. rewrite (Hseen s Hs).
    destruct ((k <=? ord s) && (ord s <? k + n)) eqn:E; [|rewrite orb_false_r; reflexivity].
    destruct (Hin s Hs E) as (_ & _ & Hp). rewrite (Hp j Hj). reflexivity.
Qed.

Lemma step_slash a k : AccOK np a k -> k < 64 -> board_char mode a 47 = Some a.
Proof.
  intros [Hidx _ _ _ _] Hk. unfold board_char. cbv zeta. rewrite Hidx.
  pose proof (char_square mode k Hk) as Hcs.
  destruct (u8_sub mode 7 (k / 8)) as [r7|]; [|discriminate]. cbn [obind] in Hcs |- *.
  destruct (u8_mul mode 8 r7) as [r8|]; [|discriminate]. cbn [obind] in Hcs |- *.
  destruct (u8_add mode r8 (k mod 8)) as [sq'|]; [|discriminate]. cbn [obind] in Hcs |- *.
  rewrite Hcs. reflexivity.
Qed.
End Step2.

Lemma show_N_digit n : 1 <= n <= 8 -> show_N n = [48 + n].
Proof.
  intros H. assert (Hc : n = 1 \/ n = 2 \/ n = 3 \/ n = 4 \/ n = 5 \/ n = 6 \/ n = 7 \/ n = 8) by lia.
  destruct Hc as [->|[->|[->|[->|[->|[->|[->| ->]]]]]]]; reflexivity.
Qed.

Fixpoint Files (x : N) (xs : list N) : Prop :=
  match xs with [] => x = 8 | h :: t => h = x /\ x < 8 /\ Files (x + 1) t end.

Lemma Files_all : Files 0 [0; 1; 2; 3; 4; 5; 6; 7].
Proof. cbn. repeat split; lia. Qed.

Section Rank.
Variable np : Position.
Variable mode : bool.
Hypothesis HW : WF np.
Hypothesis Hturn : turn np = false.

Lemma sq_views_empty s : empty_at np s -> is_set (occupied np) s = false /\ piece_on np s = None /\ colour_on np s = None.
Proof.
  intros (Hu & Ht & Hp). unfold ub, tb, is_set in Hu, Ht. split; [|split].
  - unfold is_set, occupied. rewrite N.lor_spec, Hu, Ht. reflexivity.
  - rewrite piece_on_pb. rewrite !Hp by lia. reflexivity.
  - unfold colour_on, is_set. rewrite Hu, Ht. reflexivity.
Qed.
Lemma sq_views_holds s t k : holds np s t k -> is_set (occupied np) s = true /\ piece_on np s = Some k /\ colour_on np s = Some t.
Proof.
  intros Hh. pose proof Hh as (Hk & Hu & Ht & Hp). unfold ub, tb, is_set in Hu, Ht. split; [|split].
  - unfold is_set, occupied. rewrite N.lor_spec, Hu, Ht. destruct t; reflexivity.
  - exact (holds_piece_on _ _ _ _ Hh).
  - unfold colour_on, is_set. rewrite Hu, Ht, Hturn. destruct t; reflexivity.
Qed.

Lemma rank_ok y : y <= 7 -> forall xs x spaces a, Files x xs -> spaces <= x ->
  AccOK np a (8 * (7 - y) + x - spaces) ->
  (forall f, x - spaces <= f < x -> empty_at np (sq_of f y)) ->
  exists r a', fen_rank np y xs spaces = Some r /\ AccOK np a' (8 * (7 - y) + 8)
               /\ forall rest, board_loop mode a (r ++ rest) = board_loop mode a' rest.
Proof.
  intros Hy. induction xs as [|h t IH]; intros x spaces a HF Hsp Hacc Hemp; cbn [Files] in HF; cbn [fen_rank].
  - subst x. destruct (N.ltb_spec 0 spaces) as [Hpos|Hz].
    + assert (Hemp' : forall s, s < 64 -> 8 * (7 - y) + 8 - spaces <= ord s < 8 * (7 - y) + 8 - spaces + spaces -> empty_at np s).
      { intros s Hs Ho. unfold ord in Ho. replace s with (sq_of (s mod 8) y) by (unfold sq_of; lia). apply Hemp. lia. }
      destruct (step_digit np mode a _ spaces Hacc ltac:(lia) ltac:(lia) Hemp') as (a' & Hc & Ha').
      exists (show_N spaces), a'. split; [reflexivity|]. split; [replace (8 * (7 - y) + 8) with (8 * (7 - y) + 8 - spaces + spaces) by lia; exact Ha'|].
      intros rest. rewrite (show_N_digit spaces) by lia. cbn [app board_loop]. rewrite Hc. reflexivity.
    + assert (spaces = 0) by lia. subst spaces. exists [], a. split; [reflexivity|]. split; [replace (8 * (7 - y) + 8) with (8 * (7 - y) + 8 - 0) by lia; exact Hacc|reflexivity].
  - destruct HF as (-> & Hx & HF). cbv zeta.
    assert (Hsq : sq_of x y < 64) by (unfold sq_of; lia).
    destruct (HW _ Hsq) as [He|(tt & k & Hh)].
    + destruct (sq_views_empty _ He) as (Ho & Hp & Hc). rewrite Ho, Hp, Hc. cbn [andb].
      destruct (IH (x + 1) (spaces + 1) a HF ltac:(lia)) as (r & a' & Hr & Ha' & Hl).
      * replace (8 * (7 - y) + (x + 1) - (spaces + 1)) with (8 * (7 - y) + x - spaces) by lia. exact Hacc.
      * intros f Hf. destruct (N.eq_dec f x) as [->|Hne]; [exact He|apply Hemp; lia].
      * exists r, a'. rewrite Hr. cbn [option_map]. split; [reflexivity|split; [exact Ha'|exact Hl]].
    + destruct (sq_views_holds _ _ _ Hh) as (Ho & Hp & Hc). rewrite Ho, Hp, Hc. cbn [andb].
      (* flush the pending empties, then the piece *)
      assert (Hflush : exists a1, AccOK np a1 (8 * (7 - y) + x) /\
                 forall rest, board_loop mode a ((if 0 <? spaces then show_N spaces else []) ++ rest) = board_loop mode a1 rest).
      { destruct (N.ltb_spec 0 spaces) as [Hpos|Hz].
        - assert (Hemp' : forall s, s < 64 -> 8 * (7 - y) + x - spaces <= ord s < 8 * (7 - y) + x - spaces + spaces -> empty_at np s).
          { intros s Hs Ho'. unfold ord in Ho'. replace s with (sq_of (s mod 8) y) by (unfold sq_of; lia). apply Hemp. lia. }
          destruct (step_digit np mode a _ spaces Hacc ltac:(lia) ltac:(lia) Hemp') as (a1 & Hc1 & Ha1).
          exists a1. split; [replace (8 * (7 - y) + x) with (8 * (7 - y) + x - spaces + spaces) by lia; exact Ha1|].
          intros rest. rewrite (show_N_digit spaces) by lia. cbn [app board_loop]. rewrite Hc1. reflexivity.
        - assert (spaces = 0) by lia. subst spaces. exists a. split; [replace (8 * (7 - y) + x) with (8 * (7 - y) + x - 0) by lia; exact Hacc|reflexivity]. }
      destruct Hflush as (a1 & Ha1 & Hl1).
      assert (Hk64 : 8 * (7 - y) + x < 64) by lia.
      assert (Esq : 8 * (7 - (8 * (7 - y) + x) / 8) + (8 * (7 - y) + x) mod 8 = sq_of x y) by (unfold sq_of; lia).
      destruct (step_piece np mode a1 _ tt k Ha1 Hk64) as (a2 & Hc2 & Ha2); [rewrite Esq; exact Hh|].
      destruct (IH (x + 1) 0 a2 HF ltac:(lia)) as (r & a' & Hr & Ha' & Hl).
      * replace (8 * (7 - y) + (x + 1) - 0) with (8 * (7 - y) + x + 1) by lia. exact Ha2.
      * intros f Hf. lia.
      * assert (Esp : (if 0 <? spaces then 0 else spaces) = 0) by (destruct (N.ltb_spec 0 spaces); lia).
        rewrite Esp, Hr. cbn [option_map]. eexists. exists a'. split; [reflexivity|split; [exact Ha'|]].
        intros rest. rewrite <- app_assoc, Hl1. cbn [app board_loop]. rewrite Hc2. cbn [obind]. apply Hl.
Qed.
End Rank.

Fixpoint Ranks (c : N) (ys : list N) : Prop :=
  match ys with [] => c = 0 | h :: t => c = h + 1 /\ h <= 7 /\ Ranks h t end.
Lemma Ranks_all : Ranks 8 [7; 6; 5; 4; 3; 2; 1; 0].
Proof. cbn. repeat split; lia. Qed.

Section Board.
Variable np : Position.
Variable mode : bool.
Hypothesis HW : WF np.
Hypothesis HB : HashFacts.BB8 np.
Hypothesis Hturn : turn np = false.

Lemma board_ok : forall ys c a, Ranks c ys -> AccOK np a (8 * (8 - c)) ->
  exists b a', fen_board np ys = Some b /\ AccOK np a' 64 /\ board_loop mode a b = Some a'.
Proof.
  induction ys as [|y t IH]; intros c a HR Hacc; cbn [Ranks] in HR; cbn [fen_board].
  - subst c. exists [], a. split; [reflexivity|split; [exact Hacc|reflexivity]].
  - destruct HR as (-> & Hy & HR).
    destruct (rank_ok np mode HW Hturn y Hy [0; 1; 2; 3; 4; 5; 6; 7] 0 0 a Files_all ltac:(lia)) as (r & a1 & Hr & Ha1 & Hl).
    + replace (8 * (7 - y) + 0 - 0) with (8 * (8 - (y + 1))) by lia. exact Hacc.
    + intros f Hf. lia.
    + rewrite Hr. cbn [obind].
      assert (Ha1' : AccOK np a1 (8 * (8 - y))) by (replace (8 * (8 - y)) with (8 * (7 - y) + 8) by lia; exact Ha1).
      destruct (IH y a1 HR Ha1') as (b & a' & Hb & Ha' & Hlb).
      rewrite Hb. cbn [option_map]. eexists. exists a'. split; [reflexivity|split; [exact Ha'|]].
      rewrite Hl. destruct (N.ltb_spec 0 y) as [Hpos|Hz].
      * cbn [app board_loop]. rewrite (step_slash np mode a1 _ Ha1') by lia. cbn [obind]. exact Hlb.
      * cbn [app]. exact Hlb.
Qed.

Lemma list6_eq (l : list N) v0 v1 v2 v3 v4 v5 : length l = 6%nat ->
  nthN l 0 0 = v0 -> nthN l 1 0 = v1 -> nthN l 2 0 = v2 -> nthN l 3 0 = v3 -> nthN l 4 0 = v4 -> nthN l 5 0 = v5 ->
  l = [v0; v1; v2; v3; v4; v5].
Proof.
  intros Hl. destruct l as [|a0 [|a1 [|a2 [|a3 [|a4 [|a5 [|]]]]]]]; try discriminate Hl.
  intros E0 E1 E2 E3 E4 E5. cbv in E0, E1, E2, E3, E4, E5. subst. reflexivity.
Qed.

Theorem board_field_roundtrip :
  exists b, fen_board np [7; 6; 5; 4; 3; 2; 1; 0] = Some b
    /\ board_loop mode (mkBA 0 0 [0; 0; 0; 0; 0; 0] 0) b
       = Some (mkBA (c_us np) (c_them np) [pawns np; knights np; bishops np; rooks np; queens np; kings np] 64).
Proof.
  destruct (board_ok [7; 6; 5; 4; 3; 2; 1; 0] 8 (mkBA 0 0 [0; 0; 0; 0; 0; 0] 0) Ranks_all) as (b & a' & Hb & [Hidx Hw Hbb Hlen Hpc] & Hl).
  { replace (8 * (8 - 8)) with 0 by lia. apply AccOK_start. }
  exists b. split; [exact Hb|]. rewrite Hl. f_equal.
  destruct HB as (B1 & B2 & B3 & B4 & B5 & B6 & B7 & B8).
  assert (Hfull : forall X Y, Y < TWO64 -> (forall s, N.testbit X s = (s <? 64) && N.testbit Y s && seen 64 s) -> X = Y).
  { intros X Y HY H. apply N.bits_inj. intros s. rewrite H. destruct (N.ltb_spec s 64) as [Hs|Hs].
    - cbn [andb]. unfold seen, ord. destruct (N.ltb_spec (8 * (7 - s / 8) + s mod 8) 64); [apply andb_true_r|lia].
    - cbn [andb]. destruct (N.testbit Y s) eqn:E; [|reflexivity]. pose proof (testbit_lt _ s HY E). lia. }
  destruct a' as [w bl pc idx]. cbn [ba_idx ba_w ba_b ba_pc] in *. subst idx.
  rewrite (Hfull w (c_us np) B1 Hw), (Hfull bl (c_them np) B2 Hbb).
  rewrite (list6_eq pc (pawns np) (knights np) (bishops np) (rooks np) (queens np) (kings np) Hlen); [reflexivity| | | | | |].
  - apply (Hfull _ (pawns np) B3). exact (Hpc 0 ltac:(lia)).
  - apply (Hfull _ (knights np) B4). exact (Hpc 1 ltac:(lia)).
  - apply (Hfull _ (bishops np) B5). exact (Hpc 2 ltac:(lia)).
  - apply (Hfull _ (rooks np) B6). exact (Hpc 3 ltac:(lia)).
  - apply (Hfull _ (queens np) B7). exact (Hpc 4 ltac:(lia)).
  - apply (Hfull _ (kings np) B8). exact (Hpc 5 ltac:(lia)).
Qed.
End Board.
