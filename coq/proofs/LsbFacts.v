(* trailing_zeros on non-empty boards: the lowest set bit, and the only one when exactly one bit is set *)
From Coq Require Import NArith List Bool Lia.
From Rawr Require Import Consts Bits.
Local Open Scope N_scope.

Lemma pop_pos_pos p : 1 <= pop_pos p.
Proof. induction p; cbn [pop_pos]; lia. Qed.

Lemma testbit_tz p : N.testbit (Npos p) (tz_pos p) = true.
Proof.
  induction p as [q IH|q IH|]; cbn [tz_pos].
  - change (Npos q~1) with (2 * Npos q + 1). apply N.testbit_odd_0.
  - change (Npos q~0) with (2 * Npos q). rewrite N.testbit_even_succ by lia. exact IH.
  - reflexivity.
Qed.

Lemma lsb_set x : x <> 0 -> N.testbit x (lsb x) = true.
Proof. destruct x as [|p]; [congruence|]. intros _. apply testbit_tz. Qed.

Lemma single_bit p : pop_pos p = 1 -> forall i, N.testbit (Npos p) i = true -> i = tz_pos p.
Proof.
  induction p as [q IH|q IH|]; cbn [pop_pos tz_pos]; intros H i Hi.
  - pose proof (pop_pos_pos q). lia.
  - change (Npos q~0) with (2 * Npos q) in Hi.
    destruct (N.eq_dec i 0) as [->|Hn]; [rewrite N.testbit_even_0 in Hi; discriminate|].
    replace i with (N.succ (N.pred i)) in Hi |- * by lia.
    rewrite N.testbit_even_succ in Hi by lia. f_equal. apply IH; assumption.
  - destruct (N.eq_dec i 0) as [->|Hn]; [reflexivity|].
    replace i with (N.succ (N.pred i)) in Hi by lia.
    change 1 with (2 * 0 + 1) in Hi. rewrite N.testbit_odd_succ in Hi by lia. rewrite N.bits_0 in Hi. discriminate.
Qed.

Lemma lsb_unique x i : popcount x = 1 -> N.testbit x i = true -> i = lsb x.
Proof. destruct x as [|p]; [cbn; discriminate|]. intros H Hi. exact (single_bit p H i Hi). Qed.

Lemma popcount1_nonzero x : popcount x = 1 -> x <> 0.
Proof. destruct x; [cbn; discriminate|discriminate]. Qed.
