(* C01: the generator emits no move twice (every promotion once per promotion piece).
   The 16 blocks of the generator (GenSane.generator_blocks) are pairwise disjoint because a computable class function
   separates them, each block is duplicate-free by its shape, and the move (from, to, promo) determines the piece tag. *)
From Coq Require Import NArith ZArith List Bool Lia ZifyN ZifyBool.
From Rawr Require Import Consts Bits Magic Position MoveGen MakeMove MakeStages Rules Abs
                         BitsFacts ShiftFacts FlipFacts AbsFacts LsbFacts HashFacts MakeFacts MakeAbs CastleFacts CastleAbs KeyAbs
                         CountFacts GenSane.
Import ListNotations.
Local Open Scope N_scope.
Ltac Zify.zify_post_hook ::= Z.div_mod_to_equations.

(* ------------------------------------------------------------------ lists without repetition *)
Lemma NoDup_bits_pos q : forall i, NoDup (bits_pos q i).
Proof.
  induction q as [q IH|q IH|]; intros i; cbn [bits_pos].
  - constructor; [|apply IH]. intros H. apply bits_pos_ge in H. lia.
  - apply IH.
  - constructor; [intros []|constructor].
Qed.
Lemma NoDup_bits b : NoDup (bits b).
Proof. destruct b; [constructor|apply NoDup_bits_pos]. Qed.

Lemma NoDup_app' {A} (l1 l2 : list A) : NoDup l1 -> NoDup l2 -> (forall x, In x l1 -> In x l2 -> False) -> NoDup (l1 ++ l2).
Proof.
  induction l1 as [|a l1 IH]; intros H1 H2 Hd; cbn [app]; [exact H2|].
  inversion H1 as [|? ? Ha H1']; subst. constructor.
  - intros Hin. apply in_app_or in Hin. destruct Hin as [Hin|Hin]; [exact (Ha Hin)|exact (Hd a (or_introl eq_refl) Hin)].
  - apply IH; [exact H1'|exact H2|intros x Hx; apply Hd; right; exact Hx].
Qed.

Lemma NoDup_flat_map {A B} (f : A -> list B) l : NoDup l -> (forall a, In a l -> NoDup (f a)) ->
  (forall a b x, In a l -> In b l -> In x (f a) -> In x (f b) -> a = b) -> NoDup (flat_map f l).
Proof.
  induction l as [|a l IH]; intros Hl Hf Hd; cbn [flat_map]; [constructor|].
  inversion Hl as [|? ? Ha Hl']; subst. apply NoDup_app'.
  - apply Hf; left; reflexivity.
  - apply IH; [exact Hl'|intros; apply Hf; right; assumption|intros a' b x Ha' Hb; apply Hd; right; assumption].
  - intros x Hx Hx'. apply in_flat_map in Hx'. destruct Hx' as (b & Hb & Hxb).
    assert (a = b) by (apply (Hd a b x); [left; reflexivity|right; exact Hb|exact Hx|exact Hxb]). subst. exact (Ha Hb).
Qed.

Lemma NoDup_map_on {A B} (f : A -> B) l : NoDup l -> (forall a b, In a l -> In b l -> f a = f b -> a = b) -> NoDup (map f l).
Proof.
  induction l as [|a l IH]; intros Hl Hf; cbn [map]; [constructor|].
  inversion Hl as [|? ? Ha Hl']; subst. constructor.
  - intros Hin. apply in_map_iff in Hin. destruct Hin as (b & E & Hb).
    assert (b = a) by (apply Hf; [right; exact Hb|left; reflexivity|exact E]). subst. exact (Ha Hb).
  - apply IH; [exact Hl'|intros; apply Hf; try right; assumption].
Qed.

Lemma NoDup_opt {A} (c : bool) (x : A) : NoDup (if c then [x] else []).
Proof. destruct c; [constructor; [intros []|constructor]|constructor]. Qed.

(* blocks told apart by a class function *)
Lemma NoDup_classes {A} (cls : A -> N) (bs : list (N * list A)) :
  NoDup (map fst bs) -> (forall i b, In (i, b) bs -> NoDup b /\ forall x, In x b -> cls x = i) ->
  NoDup (concat (map snd bs)).
Proof.
  induction bs as [|[i b] bs IH]; intros Hn Hb; cbn [map concat snd]; [constructor|].
  cbn [map fst] in Hn. inversion Hn as [|? ? Hi Hn']; subst.
  destruct (Hb i b (or_introl eq_refl)) as (Hnb & Hcb).
  apply NoDup_app'; [exact Hnb|apply IH; [exact Hn'|intros j c Hj; apply Hb; right; exact Hj]|].
  intros x Hx Hx'. apply in_concat in Hx'. destruct Hx' as (c & Hc & Hxc).
  apply in_map_iff in Hc. destruct Hc as ([j c'] & E & Hj). cbn [snd] in E. subst c'.
  destruct (Hb j c (or_intror Hj)) as (_ & Hcc).
  apply Hi. rewrite <- (Hcb x Hx), (Hcc x Hxc). apply in_map_iff. exists (j, c). split; [reflexivity|exact Hj].
Qed.

(* ------------------------------------------------------------------ the two shapes of a block *)
Lemma NoDup_from_to (k : N) (F : N -> N) froms :
  NoDup (flat_map (fun from => map (fun to => (k, from, to, NOPIECE)) (bits (F from))) (bits froms)).
Proof.
  apply NoDup_flat_map; [apply NoDup_bits| |].
  - intros a _. apply NoDup_map_on; [apply NoDup_bits|]. intros x y _ _ E. injection E. auto.
  - intros a b x _ _ Ha Hb. apply in_map_iff in Ha, Hb. destruct Ha as (t1 & <- & _). destruct Hb as (t2 & E & _).
    injection E. auto.
Qed.

Lemma NoDup_promo_or_plain d to : NoDup (promo_or_plain d to).
Proof.
  unfold promo_or_plain. cbv zeta. destruct (rank_of to =? 7).
  - repeat constructor; cbn [In]; intros H; repeat destruct H as [H|H]; try discriminate H; try contradiction.
  - constructor; [intros []|constructor].
Qed.

Lemma NoDup_pawn_block d B : NoDup (flat_map (promo_or_plain d) (bits B)).
Proof.
  apply NoDup_flat_map; [apply NoDup_bits|intros; apply NoDup_promo_or_plain|].
  intros a b x _ _ Ha Hb. apply promo_or_plain_in in Ha, Hb.
  destruct Ha as (pr & -> & _). destruct Hb as (pr' & E & _). injection E. auto.
Qed.

(* ------------------------------------------------------------------ the class of a generated move: which block emits it *)
Definition cls (p : Position) (g : Gen) : N :=
  let '(k, f, t, pr) := g in
  let gi := gen_info p in
  if k =? PAWN then
    (if t - f =? 8 then 1 else if t - f =? 16 then 2
     else if t - f =? 9 then (if tb p t then 3 else 5) else (if tb p t then 4 else 5))
  else if k =? KNIGHT then 6
  else if k =? BISHOP then (if N.testbit (gi_bpinned gi) f then 7 else 8)
  else if k =? ROOK then (if N.testbit (gi_rpinned gi) f then 9 else 10)
  else if k =? QUEEN then
    (if N.testbit (gi_pinned gi) f then (if N.testbit (batt f (occupied p)) t then 11 else 12) else 13)
  else (if ub p t then (if f <? t then 15 else 16) else 14).

Lemma gi_pinned_eq p : gi_pinned (gen_info p) = N.lor (gi_bpinned (gen_info p)) (gi_rpinned (gen_info p)).
Proof.
  unfold gen_info. cbv zeta.
  repeat match goal with |- context [let '(a, b) := ?x in _] => destruct x end.
  reflexivity.
Qed.

(* bishop and rook walks never share a square *)
Lemma walk_dirs_in dirs sq occ s : sq < 64 -> N.testbit (walk_dirs dirs sq occ) s = true -> exists d, In d dirs /\ In s (ray_of sq d).
Proof.
  intros Hsq. unfold walk_dirs. induction dirs as [|d dirs IH]; cbn [fold_right]; intros H.
  - rewrite N.bits_0 in H. discriminate.
  - rewrite N.lor_spec in H. apply orb_true_iff in H. destruct H as [H|H].
    + exists d. split; [left; reflexivity|]. apply (walk_list_in occ); [|exact H].
      intros y Hy. exact (AttackFacts.ray_squares_lt _ _ _ _ _ y Hy).
    + destruct (IH H) as (d' & Hd & Hs). exists d'. split; [right; exact Hd|exact Hs].
Qed.

Definition rays_apart (sq : N) : bool :=
  forallb (fun d1 => forallb (fun d2 => forallb (fun s => negb (existsb (N.eqb s) (ray_of sq d2))) (ray_of sq d1)) rook_dirs) bishop_dirs.
Lemma rays_apart_all : forallb rays_apart sq64_list = true.
Proof. vm_compute. reflexivity. Qed.

Lemma in_sq64 s : s < 64 -> In s sq64_list.
Proof.
  intros H. unfold sq64_list. apply in_map_iff. exists (N.to_nat s). split; [lia|]. apply in_seq. lia.
Qed.

Lemma batt_ratt_apart from occ to : N.testbit (batt from occ) to = true -> N.testbit (ratt from occ) to = true -> False.
Proof.
  unfold batt, ratt, bishop_walk, rook_walk. destruct (N.ltb_spec from 64) as [Hf|Hf]; [|rewrite N.bits_0; discriminate].
  intros Hb Hr. apply (walk_dirs_in _ _ _ _ Hf) in Hb, Hr. destruct Hb as (d1 & Hd1 & H1). destruct Hr as (d2 & Hd2 & H2).
  pose proof rays_apart_all as HA. rewrite forallb_forall in HA. specialize (HA from (in_sq64 from Hf)).
  unfold rays_apart in HA. rewrite forallb_forall in HA. specialize (HA d1 Hd1).
  rewrite forallb_forall in HA. specialize (HA d2 Hd2). rewrite forallb_forall in HA. specialize (HA to H1).
  apply negb_true_iff in HA. assert (existsb (N.eqb to) (ray_of from d2) = true); [|congruence].
  apply existsb_exists. exists to. split; [exact H2|apply N.eqb_refl].
Qed.

(* ------------------------------------------------------------------ what each block emits *)
Section Shapes.
Variable p : Position.
Hypothesis G : Good p.
Hypothesis CG : CastleGood p.

Definition pawn_shape (g : Gen) (d : N) (cap : bool) : Prop :=
  exists to pr, g = (PAWN, to - d, to, pr) /\ d <= to /\ tb p to = cap.

Lemma empty_tb s : N.testbit (empty_bb p) s = true -> tb p s = false.
Proof.
  unfold empty_bb, occupied. rewrite testbit_bnot, N.lor_spec. intros H. apply andb_true_iff in H. destruct H as [_ H].
  apply negb_true_iff, orb_false_iff in H. exact (proj2 H).
Qed.

Lemma singles_shape g : In g (blk_singles p) -> pawn_shape g 8 false.
Proof.
  unfold blk_singles. intros Hg. apply in_flat_map in Hg. destruct Hg as (to & Hto & Hg).
  destruct (promo_or_plain_in _ _ _ Hg) as (pr & -> & _).
  apply bits_spec in Hto. unfold g_singles in Hto. rewrite !N.land_spec in Hto.
  apply andb_true_iff in Hto. destruct Hto as [Hto _]. apply andb_true_iff in Hto. destruct Hto as [Hn He].
  rewrite testbit_north in Hn. apply andb_true_iff in Hn. destruct Hn as [Hn _]. apply andb_true_iff in Hn. destruct Hn as [_ H8].
  apply N.leb_le in H8. exists to, pr. split; [reflexivity|split; [exact H8|exact (empty_tb to He)]].
Qed.

Lemma doubles_shape g : In g (blk_doubles p) -> pawn_shape g 16 false.
Proof.
  unfold blk_doubles. intros Hg. apply in_map_iff in Hg. destruct Hg as (to & <- & Hto).
  apply bits_spec in Hto. unfold g_doubles in Hto. rewrite !N.land_spec in Hto.
  repeat (apply andb_true_iff in Hto; destruct Hto as [Hto ?]).
  unfold north_north in Hto. rewrite testbit_shl in Hto.
  apply andb_true_iff in Hto. destruct Hto as [Hn _]. apply andb_true_iff in Hn. destruct Hn as [_ H16].
  apply N.leb_le in H16. exists to, NOPIECE. split; [reflexivity|split; [exact H16|]].
  match goal with He : N.testbit (empty_bb p) to = true |- _ => exact (empty_tb to He) end.
Qed.

Lemma cap_shape d shifted g : (forall to, N.testbit shifted to = true -> d <= to) ->
  In g (flat_map (promo_or_plain d) (bits (N.land (N.land shifted (c_them p)) (gi_allowed (gen_info p))))) -> pawn_shape g d true.
Proof.
  intros Hsh Hg. apply in_flat_map in Hg. destruct Hg as (to & Hto & Hg).
  destruct (promo_or_plain_in _ _ _ Hg) as (pr & -> & _).
  apply bits_spec in Hto. rewrite !N.land_spec in Hto.
  apply andb_true_iff in Hto. destruct Hto as [Hto _]. apply andb_true_iff in Hto. destruct Hto as [Hs Ht].
  exists to, pr. split; [reflexivity|split; [exact (Hsh to Hs)|exact Ht]].
Qed.

Lemma cap_ne_shape g : In g (blk_cap_ne p) -> pawn_shape g 9 true.
Proof.
  unfold blk_cap_ne, g_cap_ne. apply cap_shape. intros to H. rewrite east_north, testbit_north_east in H.
  repeat (apply andb_true_iff in H; destruct H as [H ?]).
  match goal with X : (9 <=? to) = true |- _ => apply N.leb_le in X; exact X end.
Qed.

Lemma cap_nw_shape g : In g (blk_cap_nw p) -> pawn_shape g 7 true.
Proof.
  unfold blk_cap_nw, g_cap_nw. apply cap_shape. intros to H. rewrite testbit_north_west in H.
  repeat (apply andb_true_iff in H; destruct H as [H ?]).
  match goal with X : (7 <=? to) = true |- _ => apply N.leb_le in X; exact X end.
Qed.

Lemma ep_cand_shape (ne : bool) e g : ep p = Some e -> In g (ep_candidate p (gen_info p) ne e) ->
  g = (PAWN, e - (if ne then 9 else 7), e, NOPIECE) /\ (if ne then 9 else 7) <= e /\ tb p e = false.
Proof.
  intros Ee Hg. destruct (g_ep p G e Ee) as (_ & Hemp & _).
  unfold ep_candidate in Hg. cbv zeta in Hg.
  match type of Hg with In _ (if is_set ?sh e then _ else _) => destruct (is_set sh e) eqn:Hsh; [|contradiction] end.
  match type of Hg with In _ (if ?c then _ else _) => destruct c; [|contradiction] end.
  destruct Hg as [<-|[]]. split; [reflexivity|]. split; [|exact (proj1 (proj2 Hemp))].
  unfold is_set in Hsh. destruct ne.
  - rewrite testbit_north_east in Hsh. repeat (apply andb_true_iff in Hsh; destruct Hsh as [Hsh ?]).
    match goal with X : (9 <=? e) = true |- _ => apply N.leb_le in X; exact X end.
  - rewrite testbit_north_west in Hsh. repeat (apply andb_true_iff in Hsh; destruct Hsh as [Hsh ?]).
    match goal with X : (7 <=? e) = true |- _ => apply N.leb_le in X; exact X end.
Qed.

Lemma ep_shape g : In g (blk_ep p) -> pawn_shape g 9 false \/ pawn_shape g 7 false.
Proof.
  unfold blk_ep. destruct (ep p) as [e|] eqn:Ee; [|contradiction]. intros Hg. apply in_app_or in Hg. destruct Hg as [Hg|Hg].
  - left. destruct (ep_cand_shape true e g Ee Hg) as (-> & Hd & Ht). exists e, NOPIECE. auto.
  - right. destruct (ep_cand_shape false e g Ee Hg) as (-> & Hd & Ht). exists e, NOPIECE. auto.
Qed.

Lemma NoDup_ep : NoDup (blk_ep p).
Proof.
  unfold blk_ep. destruct (ep p) as [e|] eqn:Ee; [|constructor].
  assert (Hone : forall ne, NoDup (ep_candidate p (gen_info p) ne e)).
  { intros ne. unfold ep_candidate. cbv zeta. destruct (is_set _ e); [|constructor]. apply NoDup_opt. }
  apply NoDup_app'; [apply Hone|apply Hone|]. intros x H1 H2.
  destruct (ep_cand_shape true e x Ee H1) as (-> & Hd & _). destruct (ep_cand_shape false e _ Ee H2) as (E & _ & _).
  injection E. lia.
Qed.

Lemma pawn_cls g d cap : pawn_shape g d cap -> (d = 8 \/ d = 16 \/ d = 9 \/ d = 7) ->
  cls p g = (if d =? 8 then 1 else if d =? 16 then 2 else if d =? 9 then (if cap then 3 else 5) else (if cap then 4 else 5)).
Proof.
  intros (to & pr & -> & Hd & Ht) Hdd. unfold cls. change (PAWN =? PAWN) with true. cbv iota beta.
  replace (to - (to - d)) with d by lia. rewrite Ht. reflexivity.
Qed.

(* pieces *)
Lemma slider_shape k att froms targets g : In g (slider_moves k att p froms targets) ->
  exists from to, g = (k, from, to, NOPIECE) /\ N.testbit froms from = true /\ N.testbit (att from (occupied p)) to = true.
Proof.
  unfold slider_moves. intros Hg. apply in_flat_map in Hg. destruct Hg as (from & Hf & Hg).
  apply in_map_iff in Hg. destruct Hg as (to & <- & Hto). exists from, to. split; [reflexivity|].
  apply bits_spec in Hf, Hto. rewrite N.land_spec in Hto. apply andb_true_iff in Hto. split; [exact Hf|exact (proj1 Hto)].
Qed.

Lemma not_pinned_bits X s : N.testbit (N.land X (bnot (gi_pinned (gen_info p)))) s = true ->
  N.testbit (gi_pinned (gen_info p)) s = false /\ N.testbit (gi_bpinned (gen_info p)) s = false /\ N.testbit (gi_rpinned (gen_info p)) s = false.
Proof.
  rewrite N.land_spec, testbit_bnot. intros H. apply andb_true_iff in H. destruct H as [_ H].
  apply andb_true_iff in H. destruct H as [_ H]. apply negb_true_iff in H. split; [exact H|].
  rewrite gi_pinned_eq, N.lor_spec in H. apply orb_false_iff in H. exact H.
Qed.

Lemma pinned_bits X Y s : N.testbit (N.land X Y) s = true -> N.testbit Y s = true.
Proof. rewrite N.land_spec. intros H. apply andb_true_iff in H. exact (proj2 H). Qed.

Lemma knights_cls g : In g (blk_knights p) -> cls p g = 6.
Proof.
  unfold blk_knights. intros Hg. apply in_flat_map in Hg. destruct Hg as (from & _ & Hg).
  apply in_map_iff in Hg. destruct Hg as (to & <- & _). reflexivity.
Qed.

Lemma bishop_pinned_cls g X T : In g (slider_moves BISHOP batt p (N.land X (gi_bpinned (gen_info p))) T) -> cls p g = 7.
Proof.
  intros Hg. destruct (slider_shape _ _ _ _ _ Hg) as (from & to & -> & Hf & _). apply pinned_bits in Hf.
  unfold cls. change (BISHOP =? PAWN) with false. change (BISHOP =? KNIGHT) with false. change (BISHOP =? BISHOP) with true.
  cbv iota beta. rewrite Hf. reflexivity.
Qed.
Lemma bishop_free_cls g X T : In g (slider_moves BISHOP batt p (N.land X (bnot (gi_pinned (gen_info p)))) T) -> cls p g = 8.
Proof.
  intros Hg. destruct (slider_shape _ _ _ _ _ Hg) as (from & to & -> & Hf & _). apply not_pinned_bits in Hf. destruct Hf as (_ & Hf & _).
  unfold cls. change (BISHOP =? PAWN) with false. change (BISHOP =? KNIGHT) with false. change (BISHOP =? BISHOP) with true.
  cbv iota beta. rewrite Hf. reflexivity.
Qed.
Lemma rook_pinned_cls g X T : In g (slider_moves ROOK ratt p (N.land X (gi_rpinned (gen_info p))) T) -> cls p g = 9.
Proof.
  intros Hg. destruct (slider_shape _ _ _ _ _ Hg) as (from & to & -> & Hf & _). apply pinned_bits in Hf.
  unfold cls. change (ROOK =? PAWN) with false. change (ROOK =? KNIGHT) with false. change (ROOK =? BISHOP) with false. change (ROOK =? ROOK) with true.
  cbv iota beta. rewrite Hf. reflexivity.
Qed.
Lemma rook_free_cls g X T : In g (slider_moves ROOK ratt p (N.land X (bnot (gi_pinned (gen_info p)))) T) -> cls p g = 10.
Proof.
  intros Hg. destruct (slider_shape _ _ _ _ _ Hg) as (from & to & -> & Hf & _). apply not_pinned_bits in Hf. destruct Hf as (_ & _ & Hf).
  unfold cls. change (ROOK =? PAWN) with false. change (ROOK =? KNIGHT) with false. change (ROOK =? BISHOP) with false. change (ROOK =? ROOK) with true.
  cbv iota beta. rewrite Hf. reflexivity.
Qed.

Ltac queen_tag := unfold cls; change (QUEEN =? PAWN) with false; change (QUEEN =? KNIGHT) with false; change (QUEEN =? BISHOP) with false;
  change (QUEEN =? ROOK) with false; change (QUEEN =? QUEEN) with true; cbv iota beta.

Lemma queen_b_cls g X T : In g (slider_moves QUEEN batt p (N.land X (gi_bpinned (gen_info p))) T) -> cls p g = 11.
Proof.
  intros Hg. destruct (slider_shape _ _ _ _ _ Hg) as (from & to & -> & Hf & Ht). apply pinned_bits in Hf.
  queen_tag. rewrite gi_pinned_eq, N.lor_spec, Hf, Ht. reflexivity.
Qed.
Lemma queen_r_cls g X T : In g (slider_moves QUEEN ratt p (N.land X (gi_rpinned (gen_info p))) T) -> cls p g = 12.
Proof.
  intros Hg. destruct (slider_shape _ _ _ _ _ Hg) as (from & to & -> & Hf & Ht). apply pinned_bits in Hf.
  queen_tag. rewrite gi_pinned_eq, N.lor_spec, Hf, orb_true_r.
  destruct (N.testbit (batt from (occupied p)) to) eqn:Hb; [|reflexivity]. destruct (batt_ratt_apart _ _ _ Hb Ht).
Qed.
Lemma queen_free_cls g X T : In g (slider_moves QUEEN qatt p (N.land X (bnot (gi_pinned (gen_info p)))) T) -> cls p g = 13.
Proof.
  intros Hg. destruct (slider_shape _ _ _ _ _ Hg) as (from & to & -> & Hf & _). apply not_pinned_bits in Hf. destruct Hf as (Hf & _ & _).
  queen_tag. rewrite Hf. reflexivity.
Qed.

Ltac king_tag := unfold cls; change (KING =? PAWN) with false; change (KING =? KNIGHT) with false; change (KING =? BISHOP) with false;
  change (KING =? ROOK) with false; change (KING =? QUEEN) with false; cbv iota beta.

Lemma king_steps_cls g : In g (king_steps p) -> cls p g = 14.
Proof.
  unfold king_steps. intros Hg. apply in_flat_map in Hg. destruct Hg as (from & Hf & Hg).
  apply in_flat_map in Hg. destruct Hg as (to & Hto & Hg).
  match type of Hg with In _ (if ?c then _ else _) => destruct c; [|contradiction] end.
  destruct Hg as [<-|[]]. apply bits_spec in Hto. rewrite N.land_spec, testbit_bnot in Hto.
  apply andb_true_iff in Hto. destruct Hto as [_ Hto]. apply andb_true_iff in Hto. destruct Hto as [_ Hnt]. apply negb_true_iff in Hnt.
  king_tag. unfold ub, is_set. rewrite Hnt. reflexivity.
Qed.

Lemma NoDup_king_steps : NoDup (king_steps p).
Proof.
  unfold king_steps. apply NoDup_flat_map; [apply NoDup_bits| |].
  - intros from _. apply NoDup_flat_map; [apply NoDup_bits|intros; apply NoDup_opt|].
    intros a b x _ _ Ha Hb.
    match type of Ha with In _ (if ?c then _ else _) => destruct c; [|contradiction] end.
    match type of Hb with In _ (if ?c then _ else _) => destruct c; [|contradiction] end.
    destruct Ha as [<-|[]]. destruct Hb as [E|[]]. injection E. auto.
  - intros a b x _ _ Ha Hb. apply in_flat_map in Ha, Hb. destruct Ha as (t1 & _ & Ha). destruct Hb as (t2 & _ & Hb).
    match type of Ha with In _ (if ?c then _ else _) => destruct c; [|contradiction] end.
    match type of Hb with In _ (if ?c then _ else _) => destruct c; [|contradiction] end.
    destruct Ha as [<-|[]]. destruct Hb as [E|[]]. injection E. auto.
Qed.

Lemma castle_k_cls g : In g (blk_castle_k p) -> cls p g = 15.
Proof.
  intros Hg. destruct (castle_block_k p G CG g Hg) as (S & Hr).
  unfold blk_castle_k in Hg. destruct (castle_ok _ _ _ _ _ _); [|contradiction]. destruct Hg as [<-|[]].
  destruct (cg_k p CG Hr) as ((_ & Hu & _) & Hlt). rewrite gi_ksq_eq.
  king_tag. rewrite Hu. cbn [negb]. apply N.ltb_lt in Hlt. rewrite Hlt. reflexivity.
Qed.
Lemma castle_q_cls g : In g (blk_castle_q p) -> cls p g = 16.
Proof.
  intros Hg. destruct (castle_block_q p G CG g Hg) as (S & Hr).
  unfold blk_castle_q in Hg. destruct (castle_ok _ _ _ _ _ _); [|contradiction]. destruct Hg as [<-|[]].
  destruct (cg_q p CG Hr) as ((_ & Hu & _) & Hlt & _). rewrite gi_ksq_eq.
  king_tag. rewrite Hu. cbn [negb].
  destruct (N.ltb_spec (lsb (N.land (kings p) (c_us p))) (sq_of (cf1 p) 0)); [lia|reflexivity].
Qed.
End Shapes.

(* ------------------------------------------------------------------ the generator emits no (piece, from, to, promo) twice *)
Definition tagged_blocks (p : Position) : list (N * list Gen) :=
  let gi := gen_info p in
  [ (1, blk_singles p); (2, blk_doubles p); (3, blk_cap_ne p); (4, blk_cap_nw p); (5, blk_ep p); (6, blk_knights p);
    (7, slider_moves BISHOP batt p (N.land (N.land (bishops p) (c_us p)) (gi_bpinned gi)) (N.land (gi_allowed gi) (gi_bxrays gi)));
    (8, slider_moves BISHOP batt p (N.land (N.land (bishops p) (c_us p)) (bnot (gi_pinned gi))) (gi_allowed gi));
    (9, slider_moves ROOK ratt p (N.land (N.land (rooks p) (c_us p)) (gi_rpinned gi)) (N.land (gi_allowed gi) (gi_rxrays gi)));
    (10, slider_moves ROOK ratt p (N.land (N.land (rooks p) (c_us p)) (bnot (gi_pinned gi))) (gi_allowed gi));
    (11, slider_moves QUEEN batt p (N.land (N.land (queens p) (c_us p)) (gi_bpinned gi)) (N.land (gi_allowed gi) (gi_bxrays gi)));
    (12, slider_moves QUEEN ratt p (N.land (N.land (queens p) (c_us p)) (gi_rpinned gi)) (N.land (gi_allowed gi) (gi_rxrays gi)));
    (13, slider_moves QUEEN qatt p (N.land (N.land (queens p) (c_us p)) (bnot (gi_pinned gi))) (gi_allowed gi));
    (14, king_steps p); (15, blk_castle_k p); (16, blk_castle_q p) ].

Lemma generator_tagged p : move_generator p = concat (map snd (tagged_blocks p)).
Proof. rewrite generator_blocks. unfold tagged_blocks. cbn [map snd concat]. rewrite app_nil_r. reflexivity. Qed.

Theorem generator_NoDup p : Good p -> CastleGood p -> NoDup (move_generator p).
Proof.
  intros G CG. rewrite generator_tagged. apply (NoDup_classes (cls p)).
  - vm_compute. repeat constructor; cbn [In]; intros H; repeat destruct H as [H|H]; try discriminate H; try contradiction.
  - intros i b Hb. unfold tagged_blocks in Hb. cbv zeta in Hb. cbn [In] in Hb.
    repeat destruct Hb as [Hb|Hb]; try contradiction; injection Hb as <- <-.
    + split; [apply NoDup_pawn_block|]. intros x Hx. rewrite (pawn_cls p x 8 false (singles_shape p x Hx)) by lia. reflexivity.
    + split; [apply NoDup_map_on; [apply NoDup_bits|intros a c _ _ E; injection E; auto]|].
      intros x Hx. rewrite (pawn_cls p x 16 false (doubles_shape p x Hx)) by lia. reflexivity.
    + split; [apply NoDup_pawn_block|]. intros x Hx. rewrite (pawn_cls p x 9 true (cap_ne_shape p x Hx)) by lia. reflexivity.
    + split; [apply NoDup_pawn_block|]. intros x Hx. rewrite (pawn_cls p x 7 true (cap_nw_shape p x Hx)) by lia. reflexivity.
    + split; [apply (NoDup_ep p G)|]. intros x Hx. destruct (ep_shape p G x Hx) as [S|S].
      * rewrite (pawn_cls p x 9 false S) by lia. reflexivity.
      * rewrite (pawn_cls p x 7 false S) by lia. reflexivity.
    + split; [apply NoDup_from_to|intros x Hx; exact (knights_cls p x Hx)].
    + split; [apply NoDup_from_to|intros x Hx; exact (bishop_pinned_cls p x _ _ Hx)].
    + split; [apply NoDup_from_to|intros x Hx; exact (bishop_free_cls p x _ _ Hx)].
    + split; [apply NoDup_from_to|intros x Hx; exact (rook_pinned_cls p x _ _ Hx)].
    + split; [apply NoDup_from_to|intros x Hx; exact (rook_free_cls p x _ _ Hx)].
    + split; [apply NoDup_from_to|intros x Hx; exact (queen_b_cls p x _ _ Hx)].
    + split; [apply NoDup_from_to|intros x Hx; exact (queen_r_cls p x _ _ Hx)].
    + split; [apply NoDup_from_to|intros x Hx; exact (queen_free_cls p x _ _ Hx)].
    + split; [apply NoDup_king_steps|intros x Hx; exact (king_steps_cls p x Hx)].
    + split; [apply NoDup_opt|intros x Hx; exact (castle_k_cls p G CG x Hx)].
    + split; [apply NoDup_opt|intros x Hx; exact (castle_q_cls p G CG x Hx)].
Qed.

(* the move determines the piece tag: our man of that kind stands on the origin *)
Lemma generated_tag p g : Good p -> CastleGood p -> In g (move_generator p) -> holds p (m_from (gen_mv g)) false (gk g).
Proof.
  intros G CG Hg. destruct (generated_move_cases p g G Hg) as [(S & _)|[H|H]].
  - exact (sn_mover _ _ _ S).
  - destruct (castle_block_k p G CG g H) as (S & _). unfold blk_castle_k in H.
    destruct (castle_ok _ _ _ _ _ _); [|contradiction]. destruct H as [<-|[]]. exact (cs_king _ _ _ S).
  - destruct (castle_block_q p G CG g H) as (S & _). unfold blk_castle_q in H.
    destruct (castle_ok _ _ _ _ _ _); [|contradiction]. destruct H as [<-|[]]. exact (cs_king _ _ _ S).
Qed.

Lemma holds_kind p s t k1 k2 : holds p s t k1 -> holds p s t k2 -> k1 = k2.
Proof.
  intros (Hk & _ & _ & H1) (_ & _ & _ & H2). specialize (H1 k1 Hk). specialize (H2 k1 Hk).
  rewrite H1, N.eqb_refl in H2. symmetry in H2. apply N.eqb_eq in H2. exact H2.
Qed.

(* C01: no move appears twice, every promotion once per promotion piece *)
Theorem legal_moves_NoDup p : Good p -> CastleGood p -> NoDup (legal_moves p).
Proof.
  intros G CG. unfold legal_moves. apply NoDup_map_on; [exact (generator_NoDup p G CG)|].
  intros a b Ha Hb E. pose proof (generated_tag p a G CG Ha) as Ta. pose proof (generated_tag p b G CG Hb) as Tb.
  rewrite E in Ta. pose proof (holds_kind _ _ _ _ _ Ta Tb) as Ek.
  destruct a as [[[ka fa] ta] pa], b as [[[kb fb] tb'] pb']. cbn [gen_mv gk fst] in *. injection E as -> -> ->. subst. reflexivity.
Qed.

Theorem good_pos_NoDup p : good_pos_b p = true -> NoDup (legal_moves p).
Proof. intros H. destruct (good_pos_sound p H) as (G & CG & _). exact (legal_moves_NoDup p G CG). Qed.

(* ------------------------------------------------------------------ promotions: all four, and only on the last rank *)
Lemma pawn_tag_cls p g : gk g = PAWN -> cls p g <= 5.
Proof.
  destruct g as [[[k f] t] pr]. cbn [gk fst]. intros ->. unfold cls. change (PAWN =? PAWN) with true. cbv iota beta.
  repeat match goal with |- context [if ?c then _ else _] => destruct c end; lia.
Qed.

Definition promo_ok (p : Position) (m : Mv) : Prop :=
  if rank_of (m_to m) =? 7
  then 1 <= m_promo m <= 4 /\ forall pr, 1 <= pr <= 4 -> In (mkMv (m_from m) (m_to m) pr) (legal_moves p)
  else m_promo m = NOPIECE.

Lemma promo_or_plain_all d to g : In g (promo_or_plain d to) ->
  exists pr, g = (PAWN, to - d, to, pr) /\
  if rank_of to =? 7 then 1 <= pr <= 4 /\ forall pr', 1 <= pr' <= 4 -> In (PAWN, to - d, to, pr') (promo_or_plain d to)
  else pr = NOPIECE.
Proof.
  unfold promo_or_plain. cbv zeta. destruct (rank_of to =? 7); cbn [In]; intros H.
  - assert (Hall : forall pr', 1 <= pr' <= 4 ->
        (PAWN, to - d, to, QUEEN) = (PAWN, to - d, to, pr') \/ (PAWN, to - d, to, ROOK) = (PAWN, to - d, to, pr') \/
        (PAWN, to - d, to, BISHOP) = (PAWN, to - d, to, pr') \/ (PAWN, to - d, to, KNIGHT) = (PAWN, to - d, to, pr') \/ False).
    { intros pr' Hpr. unfold QUEEN, ROOK, BISHOP, KNIGHT.
      assert (Hc : pr' = 1 \/ pr' = 2 \/ pr' = 3 \/ pr' = 4) by lia.
      destruct Hc as [E|[E|[E|E]]]; subst pr'; auto. }
    repeat destruct H as [<-|H]; try contradiction; eexists; (split; [reflexivity|split; [unfold QUEEN, ROOK, BISHOP, KNIGHT; lia|exact Hall]]).
  - destruct H as [<-|[]]. eexists. split; reflexivity.
Qed.

Lemma rank4_bits to : N.testbit RANK4 to = true -> rank_of to = 3.
Proof.
  intros H. apply bits_spec in H. vm_compute in H. unfold rank_of.
  repeat destruct H as [<-|H]; try reflexivity. contradiction.
Qed.

Lemma in_block_legal p (blk : list Gen) g : (forall x, In x blk -> In x (move_generator p)) -> In g blk -> In (gen_mv g) (legal_moves p).
Proof. intros Hb Hg. unfold legal_moves. apply in_map. exact (Hb g Hg). Qed.

Theorem promotions_exact p m : Good p -> CastleGood p -> (forall e, ep p = Some e -> rank_of e = 5) ->
  In m (legal_moves p) -> holds p (m_from m) false PAWN -> promo_ok p m.
Proof.
  intros G CG Hep Hm Hpawn. unfold legal_moves in Hm. apply in_map_iff in Hm. destruct Hm as (g & <- & Hg).
  pose proof (holds_kind _ _ _ _ _ (generated_tag p g G CG Hg) Hpawn) as Htag.
  pose proof (pawn_tag_cls p g Htag) as Hcls.
  assert (Hflat : forall d B, (forall x, In x (flat_map (promo_or_plain d) (bits B)) -> In x (move_generator p)) ->
                   In g (flat_map (promo_or_plain d) (bits B)) -> promo_ok p (gen_mv g)).
  { intros d B Hsub Hin. apply in_flat_map in Hin. destruct Hin as (to & Hto & Hin).
    destruct (promo_or_plain_all d to g Hin) as (pr & -> & Hpr). unfold promo_ok. cbn [gen_mv m_from m_to m_promo].
    destruct (rank_of to =? 7); [|exact Hpr]. destruct Hpr as (H14 & Hall). split; [exact H14|].
    intros pr' Hpr'. apply (in_block_legal p _ (PAWN, to - d, to, pr') Hsub). apply in_flat_map. exists to. split; [exact Hto|exact (Hall pr' Hpr')]. }
  pose proof Hg as Hg'. rewrite generator_blocks in Hg'.
  repeat (apply in_app_or in Hg'; destruct Hg' as [Hg'|Hg']).
  - apply (Hflat 8 (g_singles p)); [|exact Hg']. intros x Hx. rewrite generator_blocks. apply in_or_app. left. exact Hx.
  - destruct (doubles_shape p g Hg') as (to & pr & -> & _ & _). unfold promo_ok. cbn [gen_mv m_from m_to m_promo].
    unfold blk_doubles in Hg'. apply in_map_iff in Hg'. destruct Hg' as (to' & E & Hto). injection E as <- <-.
    apply bits_spec in Hto. unfold g_doubles in Hto. rewrite !N.land_spec in Hto.
    repeat (apply andb_true_iff in Hto; destruct Hto as [Hto ?]).
    match goal with X : N.testbit RANK4 _ = true |- _ => rewrite (rank4_bits _ X) end. cbv iota beta. change (3 =? 7) with false. cbv iota. congruence.
  - apply (Hflat 9 (g_cap_ne p)); [|exact Hg']. intros x Hx. rewrite generator_blocks. do 2 (apply in_or_app; right). apply in_or_app. left. exact Hx.
  - apply (Hflat 7 (g_cap_nw p)); [|exact Hg']. intros x Hx. rewrite generator_blocks. do 3 (apply in_or_app; right). apply in_or_app. left. exact Hx.
  - unfold blk_ep in Hg'. destruct (ep p) as [e|] eqn:Ee; [|contradiction].
    assert (Hto : m_to (gen_mv g) = e /\ m_promo (gen_mv g) = NOPIECE).
    { apply in_app_or in Hg'. destruct Hg' as [H|H].
      - destruct (ep_cand_shape p G true e g Ee H) as (-> & _). split; reflexivity.
      - destruct (ep_cand_shape p G false e g Ee H) as (-> & _). split; reflexivity. }
    destruct Hto as (Et & Epr). unfold promo_ok. rewrite Et, (Hep e eq_refl). exact Epr.
  - rewrite (knights_cls p g Hg') in Hcls. lia.
  - rewrite (bishop_pinned_cls p g _ _ Hg') in Hcls. lia.
  - rewrite (bishop_free_cls p g _ _ Hg') in Hcls. lia.
  - rewrite (rook_pinned_cls p g _ _ Hg') in Hcls. lia.
  - rewrite (rook_free_cls p g _ _ Hg') in Hcls. lia.
  - rewrite (queen_b_cls p g _ _ Hg') in Hcls. lia.
  - rewrite (queen_r_cls p g _ _ Hg') in Hcls. lia.
  - rewrite (queen_free_cls p g _ _ Hg') in Hcls. lia.
  - rewrite (king_steps_cls p g Hg') in Hcls. lia.
  - rewrite (castle_k_cls p G CG g Hg') in Hcls. lia.
  - rewrite (castle_q_cls p G CG g Hg') in Hcls. lia.
Qed.

(* a non-pawn never promotes *)
Theorem pieces_never_promote p m k : Good p -> CastleGood p -> In m (legal_moves p) -> holds p (m_from m) false k -> k <> PAWN ->
  m_promo m = NOPIECE.
Proof.
  intros G CG Hm Hk Hn. unfold legal_moves in Hm. apply in_map_iff in Hm. destruct Hm as (g & <- & Hg).
  pose proof (holds_kind _ _ _ _ _ (generated_tag p g G CG Hg) Hk) as Htag.
  destruct (generated_move_cases p g G Hg) as [(S & _)|[H|H]].
  - destruct (sn_promo _ _ _ S) as [E|(E & _)]; [exact E|]. rewrite Htag in E. contradiction.
  - destruct (castle_block_k p G CG g H) as (S & _). exact (cs_promo _ _ _ S).
  - destruct (castle_block_q p G CG g H) as (S & _). exact (cs_promo _ _ _ S).
Qed.

Theorem good_pos_promotions p m : good_pos_b p = true -> (forall e, ep p = Some e -> rank_of e = 5) ->
  In m (legal_moves p) -> holds p (m_from m) false PAWN -> promo_ok p m.
Proof. intros H. destruct (good_pos_sound p H) as (G & CG & _). exact (promotions_exact p m G CG). Qed.

Theorem good_pos_pieces_never_promote p m k : good_pos_b p = true -> In m (legal_moves p) ->
  holds p (m_from m) false k -> k <> PAWN -> m_promo m = NOPIECE.
Proof. intros H. destruct (good_pos_sound p H) as (G & CG & _). exact (pieces_never_promote p m k G CG). Qed.
