(* C20, game layer: the tool's own consistency predicate Style.is_valid holds of the statistics after analysing any game
   played from the standard starting position.  is_valid reads the six counting equalities and the towards-king bound of
   StyleInv.SCount, and the first two entries (ranks 0 and 1, seen from the analysed side) of the three pawn-push histograms:
   these stay zero because a pawn of the side to move only ever arrives on rank index 2 or higher (SLow). *)
From Coq Require Import NArith ZArith QArith List Bool Lia ZifyN ZifyBool Lqa.
From Rawr Require Import Consts Bits Magic Position MoveGen MakeMove MakeStages Style StyleGame StyleSpec StyleFacts StyleInv.
From Rawr Require Import GenLegal.
From Rawr Require StylePawns StylePotential StyleCount.
Import ListNotations.

Local Open Scope Q_scope.

Record SLow (s : SStats) : Prop := {
  l_e0 : nthq (early_pawn_pushes s) 0 == 0; l_e1 : nthq (early_pawn_pushes s) 1 == 0;
  l_m0 : nthq (mid_pawn_pushes s) 0 == 0;   l_m1 : nthq (mid_pawn_pushes s) 1 == 0;
  l_l0 : nthq (late_pawn_pushes s) 0 == 0;  l_l1 : nthq (late_pawn_pushes s) 1 == 0 }.

Lemma SLow_empty : SLow empty_stats.
Proof. constructor; reflexivity. Qed.

(* ------------------------------------------------------------------ is_valid from the two records *)
Lemma qeqb_true a b : a == b -> qeqb a b = true.
Proof. intros H. unfold qeqb. apply Qeq_bool_iff. exact H. Qed.
Lemma qltb_zero a : a == 0 -> qltb 0 a = false.
Proof.
  intros H. unfold qltb. assert (L : a <= 0) by lra. apply Qle_bool_iff in L. rewrite L. reflexivity.
Qed.
Lemma qltb_le a b : b <= a -> qltb a b = false.
Proof. intros L. unfold qltb. apply Qle_bool_iff in L. rewrite L. reflexivity. Qed.

Theorem is_valid_of s : SCount s -> SLow s -> is_valid s = true.
Proof.
  intros C L. unfold is_valid.
  rewrite (qeqb_true _ _ (c_games s C)), (qeqb_true _ _ (c_moves s C)), (qeqb_true _ _ (c_checks s C)),
          (qeqb_true _ _ (c_wins s C)), (qeqb_true _ _ (c_len s C)), (qeqb_true _ _ (c_caps s C)).
  rewrite (qltb_zero _ (l_e0 s L)), (qltb_zero _ (l_e1 s L)), (qltb_zero _ (l_m0 s L)), (qltb_zero _ (l_m1 s L)),
          (qltb_zero _ (l_l0 s L)), (qltb_zero _ (l_l1 s L)).
  rewrite (qltb_le _ _ (c_towards s C)). reflexivity.
Qed.

(* ------------------------------------------------------------------ the histograms below rank 2 *)
Lemma bump_low l r i : (2 <= r)%nat -> (i < 2)%nat -> nthq (bump l r) i = nthq l i.
Proof.
  intros Hr Hi. unfold nthq.
  destruct r as [|[|r]]; [lia|lia|].
  destruct l as [|x [|y t]]; [reflexivity|reflexivity|].
  cbn [bump]. destruct i as [|[|i]]; [reflexivity|reflexivity|lia].
Qed.

Lemma bump_if_low c l r i : (c = true -> (2 <= r)%nat) -> (i < 2)%nat -> nthq (bump_if c l r) i = nthq l i.
Proof.
  intros Hc Hi. unfold bump_if. destruct c; [|reflexivity]. apply bump_low; [apply Hc; reflexivity|exact Hi].
Qed.

Lemma add_move_early e s :
  early_pawn_pushes (add_move e s) = bump_if (e_pawn e && (e_ply e <? 40)%N) (early_pawn_pushes s) (e_rank e).
Proof. reflexivity. Qed.
Lemma add_move_mid e s :
  mid_pawn_pushes (add_move e s) = bump_if (e_pawn e && negb (e_ply e <? 40)%N && (e_ply e <? 60)%N) (mid_pawn_pushes s) (e_rank e).
Proof. reflexivity. Qed.
Lemma add_move_late e s :
  late_pawn_pushes (add_move e s) = bump_if (e_pawn e && negb (e_ply e <? 60)%N) (late_pawn_pushes s) (e_rank e).
Proof. reflexivity. Qed.

Lemma add_move_low e s : (e_pawn e = true -> (2 <= e_rank e)%nat) -> SLow s -> SLow (add_move e s).
Proof.
  intros Hp L.
  assert (H1 : forall b, e_pawn e && b = true -> (2 <= e_rank e)%nat).
  { intros b H. apply andb_prop in H. apply Hp. exact (proj1 H). }
  assert (H2 : forall b c, e_pawn e && b && c = true -> (2 <= e_rank e)%nat).
  { intros b c H. apply andb_prop in H. exact (H1 b (proj1 H)). }
  constructor.
  - rewrite add_move_early, (bump_if_low _ _ _ 0%nat (H1 _)) by lia. exact (l_e0 s L).
  - rewrite add_move_early, (bump_if_low _ _ _ 1%nat (H1 _)) by lia. exact (l_e1 s L).
  - rewrite add_move_mid, (bump_if_low _ _ _ 0%nat (H2 _ _)) by lia. exact (l_m0 s L).
  - rewrite add_move_mid, (bump_if_low _ _ _ 1%nat (H2 _ _)) by lia. exact (l_m1 s L).
  - rewrite add_move_late, (bump_if_low _ _ _ 0%nat (H1 _)) by lia. exact (l_l0 s L).
  - rewrite add_move_late, (bump_if_low _ _ _ 1%nat (H1 _)) by lia. exact (l_l1 s L).
Qed.

Lemma end_game_low plies us them o mat s : SLow s -> SLow (end_game plies us them o mat s).
Proof.
  intros L. constructor.
  - exact (l_e0 s L).
  - exact (l_e1 s L).
  - exact (l_m0 s L).
  - exact (l_m1 s L).
  - exact (l_l0 s L).
  - exact (l_l1 s L).
Qed.

(* ------------------------------------------------------------------ a pawn of the side to move lands on rank >= 2 *)
Theorem event_rank_ge2 p m ply : StylePotential.Dom p -> In m (legal_moves p) ->
  e_pawn (move_event p m ply) = true -> (2 <= e_rank (move_event p m ply))%nat.
Proof.
  intros [I D] Hm Hp. rewrite StylePotential.event_pawn in Hp. rewrite StylePotential.event_rank.
  destruct (StylePawns.pawn_our_pawn (turn p) p m I D Hm (Bool.eqb_reflx (turn p)) Hp) as (Ha & Hb & Hfa & Hs & _).
  pose proof (StylePawns.pawn_ranks (turn p) p (m_from m) I D Ha Hfa) as Hr.
  destruct Hs as [E|[E1 E2]].
  - rewrite E. lia.
  - rewrite E2. lia.
Qed.

(* ------------------------------------------------------------------ the move loop *)
Record LInv (g : GState) : Prop := {
  lv_dom : StylePotential.Dom (gs_pos g);
  lv_low : SLow (gs_stats g)
}.

Lemma game_step_low side g m : LInv g -> In m (legal_moves (gs_pos g)) -> LInv (game_step side g m).
Proof.
  intros [I L] Hm. destruct g as [p n cu ct s]. cbn [gs_pos gs_stats] in *.
  pose proof (StylePotential.dom_step p m I Hm) as I'.
  unfold game_step. cbn [gs_pos gs_ply gs_stats gs_us gs_them].
  destruct (Bool.eqb (turn p) side).
  - constructor; cbn [gs_pos gs_stats]; [exact I'|].
    apply add_move_low; [|exact L]. exact (event_rank_ge2 p m n I Hm).
  - constructor; cbn [gs_pos gs_stats]; [exact I'|exact L].
Qed.

Lemma game_fold_low side ms : forall g, LInv g -> gen_seq (gs_pos g) ms -> LInv (fold_left (game_step side) ms g).
Proof.
  induction ms as [|m r IH]; intros g G H; cbn [fold_left]; [exact G|].
  cbn [gen_seq] in H. destruct H as (Hm & Hr).
  apply IH; [exact (game_step_low side g m G Hm)|].
  assert (E : gs_pos (game_step side g m) = makemove true (gs_pos g) m).
  { unfold game_step. destruct (Bool.eqb (turn (gs_pos g)) side); reflexivity. }
  rewrite E. exact Hr.
Qed.

Theorem game_run_low side ms s : gen_seq startpos ms -> SLow s -> LInv (game_run side startpos ms s).
Proof.
  intros H L. unfold game_run. apply game_fold_low; [|exact H].
  constructor; cbn [gs_pos gs_stats]; [exact StylePotential.startpos_dom|exact L].
Qed.

Theorem analyse_game_low side h ms s : gen_seq startpos ms -> SLow s -> SLow (analyse_game side startpos h ms s).
Proof.
  intros H L. unfold analyse_game. cbv zeta. apply end_game_low. exact (lv_low _ (game_run_low side ms s H L)).
Qed.

(* both records together: the statistics stay valid game after game *)
Corollary analyse_game_valid side h ms s : gen_seq startpos ms -> SCount s -> SLow s ->
  is_valid (analyse_game side startpos h ms s) = true.
Proof.
  intros H C L. apply is_valid_of.
  - exact (proj1 (StyleCount.analyse_game_count side startpos h ms s StylePotential.startpos_invR H C)).
  - exact (analyse_game_low side h ms s H L).
Qed.

Print Assumptions is_valid_of.
Print Assumptions analyse_game_low.
Print Assumptions analyse_game_valid.
