(* C01 (soundness half), king steps: a king step emitted by the move generator never leaves the mover's king attacked.
   The generator's test `is_safe to (occupied p xor bit from) P N B R Q K` (their men of the position before) is carried,
   clause by clause, to the square-by-square test `bit_attacked` on the board stage Q = mv_boards u p m (LegalBase.nc_transfer):
   their men in Q are a subset of their men before, and along the rays from `to` the occupancy of Q agrees with
   `occupied p xor bit from` (a ray from a square never contains the square itself). *)
From Coq Require Import NArith ZArith List Bool Lia ZifyN ZifyBool.
From Rawr Require Import Consts Bits Magic Position MoveGen MakeMove MakeStages Rules Abs
                         BitsFacts ShiftFacts LeaperFacts FlipFacts AbsFacts LsbFacts HashFacts MakeFacts MakeAbs KeyAbs KeyMove
                         AttackFacts AttackAbs GenSane Closure EpRetro LegalBase NoKingCapture.
Import ListNotations.
Local Open Scope N_scope.

(* ------------------------------------------------------------------ monotonicity of the square-by-square clauses *)
Lemma at_off_mono x y sq d : (forall i, N.testbit x i = true -> N.testbit y i = true) -> at_off x sq d = true -> at_off y sq d = true.
Proof.
  intros H. unfold at_off. cbv zeta. intros E. apply andb_true_iff in E. destruct E as [E1 E2].
  rewrite E1, (H _ E2). reflexivity.
Qed.

Lemma existsb_false_mono {A} (f g : A -> bool) l : (forall a, In a l -> f a = true -> g a = true) -> existsb g l = false -> existsb f l = false.
Proof.
  intros H E. destruct (existsb f l) eqn:Ef; [|reflexivity].
  apply existsb_exists in Ef. destruct Ef as (a & Ha & Hf).
  assert (X : existsb g l = true) by (apply existsb_exists; exists a; split; [exact Ha|exact (H a Ha Hf)]).
  rewrite X in E. discriminate.
Qed.

Lemma first_hit_mono occ1 occ2 x1 x2 l :
  (forall s, In s l -> N.testbit occ1 s = N.testbit occ2 s) ->
  (forall s, In s l -> N.testbit x1 s = true -> N.testbit x2 s = true) ->
  first_hit occ1 x1 l = true -> first_hit occ2 x2 l = true.
Proof.
  induction l as [|a t IH]; intros Ho Hx H; cbn [first_hit] in *; [discriminate|].
  rewrite <- (Ho a (or_introl eq_refl)). destruct (N.testbit occ1 a).
  - exact (Hx a (or_introl eq_refl) H).
  - apply IH; [intros s Hs; apply Ho; right; exact Hs|intros s Hs; apply Hx; right; exact Hs|exact H].
Qed.

(* ------------------------------------------------------------------ a ray from a square never contains the square *)
Definition no_self (a : N) (d : Z * Z) : bool := negb (existsb (N.eqb a) (ray_of a d)).

Lemma no_self_all : forallb (fun a => forallb (no_self a) (bishop_dirs ++ rook_dirs)) squares64 = true.
Proof. vm_compute. reflexivity. Qed.

Lemma ray_no_self a d : a < 64 -> In d (bishop_dirs ++ rook_dirs) -> ~ In a (ray_of a d).
Proof.
  intros Ha Hd Hin. pose proof no_self_all as H. rewrite forallb_forall in H.
  specialize (H a (in_squares64' a Ha)). rewrite forallb_forall in H. specialize (H d Hd).
  unfold no_self in H. apply negb_true_iff in H.
  assert (X : existsb (N.eqb a) (ray_of a d) = true) by (apply existsb_exists; exists a; split; [exact Hin|apply N.eqb_refl]).
  rewrite X in H. discriminate.
Qed.

(* ------------------------------------------------------------------ the clauses of is_safe, square by square *)
Lemma is_safe_true sq bl pw kn bi ro qu ki : is_safe sq bl pw kn bi ro qu ki = true ->
  is_set (pawns_bb false pw) sq = false
  /\ is_occ (N.land (knights_bb (bit sq)) kn) = false
  /\ is_occ (N.land (batt sq bl) (N.lor bi qu)) = false
  /\ is_occ (N.land (ratt sq bl) (N.lor ro qu)) = false
  /\ is_occ (N.land (adjacent (bit sq)) ki) = false.
Proof.
  unfold is_safe. cbv zeta. intros H.
  destruct (is_set (pawns_bb false pw) sq); [discriminate|].
  destruct (is_occ (N.land (knights_bb (bit sq)) kn)); [discriminate|].
  destruct (is_occ (N.land (batt sq bl) (N.lor bi qu))); [discriminate|].
  destruct (is_occ (N.land (ratt sq bl) (N.lor ro qu))); [discriminate|].
  destruct (is_occ (N.land (adjacent (bit sq)) ki)); [discriminate|].
  repeat split; reflexivity.
Qed.

Lemma pawn_clause sq x : sq < 64 -> x < TWO64 -> is_set (pawns_bb false x) sq = existsb (at_off x sq) (pawn_offs true).
Proof.
  intros Hs Hx. unfold is_set. apply setwise_query; [apply linear_pawns|exact pawn_them_table|exact Hx|exact Hs].
Qed.

Lemma knight_clause sq x : sq < 64 -> is_occ (N.land (knights_bb (bit sq)) x) = existsb (at_off x sq) knight_offs.
Proof.
  intros Hs. pose proof knights_squares as Hp. unfold per_square in Hp. rewrite forallb_forall in Hp.
  specialize (Hp sq (in_squares64' sq Hs)). apply N.eqb_eq in Hp. rewrite Hp. apply leaper_geo_land.
Qed.

Lemma king_clause sq x : sq < 64 -> is_occ (N.land (adjacent (bit sq)) x) = existsb (at_off x sq) king_offs.
Proof.
  intros Hs. pose proof king_squares as Hp. unfold per_square in Hp. rewrite forallb_forall in Hp.
  specialize (Hp sq (in_squares64' sq Hs)). apply N.eqb_eq in Hp. rewrite Hp. apply leaper_geo_land.
Qed.

Lemma bishop_clause sq occ x : sq < 64 -> (forall i, N.testbit x i = true -> N.testbit occ i = true) ->
  is_occ (N.land (batt sq occ) x) = existsb (fun d => first_hit occ x (ray_of sq d)) bishop_dirs.
Proof.
  intros Hs Hsub. unfold batt, bishop_walk. replace (sq <? 64) with true by (symmetry; apply N.ltb_lt; exact Hs).
  apply walk_dirs_query. exact Hsub.
Qed.

Lemma rook_clause sq occ x : sq < 64 -> (forall i, N.testbit x i = true -> N.testbit occ i = true) ->
  is_occ (N.land (ratt sq occ) x) = existsb (fun d => first_hit occ x (ray_of sq d)) rook_dirs.
Proof.
  intros Hs Hsub. unfold ratt, rook_walk. replace (sq <? 64) with true by (symmetry; apply N.ltb_lt; exact Hs).
  apply walk_dirs_query. exact Hsub.
Qed.

(* ------------------------------------------------------------------ what the generator tested *)
Lemma king_step_shape p g : In g (king_steps p) -> exists from to, g = (KING, from, to, NOPIECE) /\
  is_safe to (N.lxor (occupied p) (bit from))
    (N.land (c_them p) (pawns p)) (N.land (c_them p) (knights p)) (N.land (c_them p) (bishops p))
    (N.land (c_them p) (rooks p)) (N.land (c_them p) (queens p)) (N.land (c_them p) (kings p)) = true.
Proof.
  unfold king_steps. intros Hg. apply in_flat_map in Hg. destruct Hg as (from & _ & Hg).
  apply in_flat_map in Hg. destruct Hg as (to & _ & Hg).
  match type of Hg with In _ (if ?c then _ else _) => destruct c eqn:E; [|contradiction] end.
  destruct Hg as [<-|[]]. exists from, to. split; [reflexivity|exact E].
Qed.

(* ------------------------------------------------------------------ the board stage after a king step *)
Section KingStep.
Variables (u : bool) (p : Position) (from to : N).
Let m := mkMv from to NOPIECE.
Hypothesis S : sane p m KING.
Let Q := mv_boards u p m.

Lemma ks_not_ep : mv_is_ep p m = false.
Proof.
  apply (not_ep_piece p from to NOPIECE KING); [unfold KING, PAWN; lia|].
  exact (sn_mover _ _ _ S).
Qed.

(* their men in Q were their men before, and none of them stands on the target *)
Lemma ks_them j s : j <= 5 -> N.testbit (N.land (get_piece Q j) (c_them Q)) s = true ->
  N.testbit (N.land (c_them p) (get_piece p j)) s = true /\ s <> to.
Proof.
  intros Hj H. unfold Q in H. rewrite (Q_them u p m KING S j s Hj) in H.
  apply andb_true_iff in H. destruct H as [H _]. apply andb_true_iff in H. destruct H as [H1 H2].
  split; [rewrite N.land_comm; exact H1|].
  apply negb_true_iff, N.eqb_neq in H2. exact H2.
Qed.

Lemma ks_them_sub j s : j <= 5 -> N.testbit (N.land (get_piece Q j) (c_them Q)) s = true ->
  N.testbit (N.land (c_them p) (get_piece p j)) s = true.
Proof. intros Hj H. exact (proj1 (ks_them j s Hj H)). Qed.

(* off the target square the occupancy of Q is the one the generator used *)
Lemma ks_occ s : s <> to -> N.testbit (occupied Q) s = N.testbit (N.lxor (occupied p) (bit from)) s.
Proof.
  intros Hs. unfold Q. rewrite (Q_occ u p m KING S s), ks_not_ep. cbn [m_to m_from m andb negb].
  destruct (N.eqb_spec s to) as [E|_]; [contradiction|]. cbn [orb]. rewrite andb_true_r.
  rewrite N.lxor_spec, testbit_bit by exact (sn_from _ _ _ S).
  destruct (N.eqb_spec s from) as [E|_]; cbn [negb].
  - destruct (sn_mover _ _ _ S) as (_ & Hu & _). cbn [m_from m negb] in Hu.
    assert (Ho : N.testbit (occupied p) s = true).
    { unfold occupied. rewrite N.lor_spec, E. unfold ub, is_set in Hu. rewrite Hu. reflexivity. }
    rewrite Ho. reflexivity.
  - rewrite andb_true_r, xorb_false_r. reflexivity.
Qed.

(* their men stay in the occupancy the generator used (the origin holds our king) *)
Lemma ks_sub_occ x i : N.testbit (N.land (c_them p) x) i = true -> N.testbit (N.lxor (occupied p) (bit from)) i = true.
Proof.
  rewrite N.land_spec. intros H. apply andb_true_iff in H. destruct H as [Ht _].
  rewrite N.lxor_spec, testbit_bit by exact (sn_from _ _ _ S).
  unfold occupied. rewrite N.lor_spec, Ht, orb_true_r.
  destruct (N.eqb_spec i from) as [E|_]; [|reflexivity].
  destruct (sn_mover _ _ _ S) as (_ & _ & Htb & _). cbn [m_from m] in Htb. unfold tb, is_set in Htb.
  rewrite E, Htb in Ht. discriminate.
Qed.

Lemma lor_them_sub x y i : N.testbit (N.lor (N.land (c_them p) x) (N.land (c_them p) y)) i = true ->
  N.testbit (N.lxor (occupied p) (bit from)) i = true.
Proof.
  rewrite N.lor_spec. intros H. apply orb_true_iff in H. destruct H as [H|H]; exact (ks_sub_occ _ _ H).
Qed.

(* a slider clause of Q at the target follows from the generator's clause *)
Lemma ks_slider (j : N) (dirs : list (Z * Z)) : j <= 5 -> (forall d, In d dirs -> In d (bishop_dirs ++ rook_dirs)) ->
  existsb (fun d => first_hit (N.lxor (occupied p) (bit from))
                      (N.lor (N.land (c_them p) (get_piece p j)) (N.land (c_them p) (queens p))) (ray_of to d)) dirs = false ->
  existsb (fun d => first_hit (occupied Q) (N.land (c_them Q) (N.lor (get_piece Q j) (queens Q))) (ray_of to d)) dirs = false.
Proof.
  intros Hj Hd. apply existsb_false_mono. intros d Hin. apply first_hit_mono.
  - intros s Hs. apply ks_occ. intros E. rewrite E in Hs.
    exact (ray_no_self to d (sn_to _ _ _ S) (Hd d Hin) Hs).
  - intros s _ H. rewrite N.land_spec, N.lor_spec in H. apply andb_true_iff in H. destruct H as [Ht H].
    rewrite N.lor_spec. apply orb_true_iff in H. destruct H as [H|H]; apply orb_true_iff; [left|right].
    + apply (ks_them_sub j s Hj). rewrite N.land_spec, H, Ht. reflexivity.
    + apply (ks_them_sub 4 s ltac:(lia)). cbn [get_piece]. rewrite N.land_spec, H, Ht. reflexivity.
Qed.

Theorem king_step_safe :
  is_safe to (N.lxor (occupied p) (bit from))
    (N.land (c_them p) (pawns p)) (N.land (c_them p) (knights p)) (N.land (c_them p) (bishops p))
    (N.land (c_them p) (rooks p)) (N.land (c_them p) (queens p)) (N.land (c_them p) (kings p)) = true ->
  HashFacts.BB8 p ->
  bit_attacked Q to false = false.
Proof.
  intros Hsafe (_ & B2 & _).
  pose proof (sn_to _ _ _ S) as Ht. cbn [m_to m] in Ht.
  destruct (is_safe_true _ _ _ _ _ _ _ _ Hsafe) as (H1 & H2 & H3 & H4 & H5).
  rewrite (pawn_clause to _ Ht (land_lt_l _ _ B2)) in H1.
  rewrite (knight_clause to _ Ht) in H2.
  rewrite (bishop_clause to _ _ Ht (lor_them_sub _ _)) in H3.
  rewrite (rook_clause to _ _ Ht (lor_them_sub _ _)) in H4.
  rewrite (king_clause to _ Ht) in H5.
  unfold bit_attacked. cbv zeta. cbn [get_side negb].
  assert (E1 : existsb (at_off (N.land (pawns Q) (c_them Q)) to) (pawn_offs true) = false).
  { revert H1. apply existsb_false_mono. intros d _. apply at_off_mono. intros i. exact (ks_them_sub 0 i ltac:(lia)). }
  assert (E2 : existsb (at_off (N.land (knights Q) (c_them Q)) to) knight_offs = false).
  { revert H2. apply existsb_false_mono. intros d _. apply at_off_mono. intros i. exact (ks_them_sub 1 i ltac:(lia)). }
  assert (E3 : existsb (fun d => first_hit (occupied Q) (N.land (c_them Q) (N.lor (bishops Q) (queens Q))) (ray_of to d)) bishop_dirs = false).
  { apply (ks_slider 2 bishop_dirs ltac:(lia)); [intros d Hd; apply in_or_app; left; exact Hd|exact H3]. }
  assert (E4 : existsb (fun d => first_hit (occupied Q) (N.land (c_them Q) (N.lor (rooks Q) (queens Q))) (ray_of to d)) rook_dirs = false).
  { apply (ks_slider 3 rook_dirs ltac:(lia)); [intros d Hd; apply in_or_app; right; exact Hd|exact H4]. }
  assert (E5 : existsb (at_off (N.land (kings Q) (c_them Q)) to) king_offs = false).
  { revert H5. apply existsb_false_mono. intros d _. apply at_off_mono. intros i. exact (ks_them_sub 5 i ltac:(lia)). }
  rewrite E1, E2, E3, E4, E5. reflexivity.
Qed.
End KingStep.

(* ------------------------------------------------------------------ the theorem *)
Theorem king_step_legal u p g : Inv0 p -> In g (king_steps p) -> in_check_them (makemove u p (gen_mv g)) = false.
Proof.
  intros I Hg. pose proof (i0_good p I) as G.
  destruct (king_block p G g Hg) as (S & _).
  assert (Hgen : In g (move_generator p)).
  { rewrite generator_blocks. do 13 (apply in_or_app; right). apply in_or_app. left. exact Hg. }
  pose proof (no_king_capture p g G (i0_cg p I) (i0_tking p I) (i0_safe p I) Hgen) as NVK. fold (tksq p) in NVK.
  destruct (king_step_shape p g Hg) as (from & to & E & Hsafe). subst g.
  cbn [gen_mv gk fst] in *.
  rewrite (nc_transfer u p _ KING S I NVK).
  unfold our_king_after. rewrite N.eqb_refl. cbn [m_to].
  exact (king_step_safe u p from to S Hsafe (g_bb p G)).
Qed.

Print Assumptions king_step_legal.
