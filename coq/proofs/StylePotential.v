(* C20, game layer: the early-pawn-push clause SPush of the statistics invariant is kept by analysing one game played
   from the standard starting position.  The potential argument of spec/StyleSpec.v: every early pawn push of the analysed
   side costs 5 * weight(target rank) and is paid by 31 (one ply of the game, at most 40 of them count) plus the change of
   the potential phi.  The five chess facts about pawns are those of proofs/StylePawns.v, over Dom = InvR and PawnDom. *)
From Coq Require Import NArith ZArith QArith List Bool Lia ZifyN ZifyBool Lqa.
From Rawr Require Import Consts Bits Magic Position MoveGen MakeMove MakeStages Style StyleGame StyleSpec StyleFacts StyleInv.
From Rawr Require Import GenLegal.
From Rawr Require StylePawns.
Import ListNotations.

(* ------------------------------------------------------------------ the potential as a sum over a list of squares *)
Definition cterm (f : N -> bool) (a : N) : Z := if f a then cmin5 (a / 8) else 0%Z.
Definition sumf (f : N -> bool) (l : list N) : Z :=
  fold_right (fun a acc => ((if f a then cmin5 (a / 8) else 0) + acc)%Z) 0%Z l.

Lemma phi_of_sumf f : phi_of f = sumf f sq64_list.
Proof. reflexivity. Qed.
Lemma sumf_cons f a l : sumf f (a :: l) = (cterm f a + sumf f l)%Z.
Proof. reflexivity. Qed.
Lemma sumf_nil f : sumf f [] = 0%Z.
Proof. reflexivity. Qed.

Lemma cmin5_nonneg r : (0 <= cmin5 r)%Z.
Proof.
  unfold cmin5. destruct r as [|q]; [lia|].
  destruct q as [q|q|]; [destruct q as [q|q|]; [destruct q as [q|q|]|destruct q as [q|q|]|]
                        |destruct q as [q|q|]; [destruct q as [q|q|]|destruct q as [q|q|]|]|]; cbv beta iota; lia.
Qed.

Lemma cterm_nonneg f a : (0 <= cterm f a)%Z.
Proof. unfold cterm. destruct (f a); [apply cmin5_nonneg|lia]. Qed.

Lemma sumf_nonneg f l : (0 <= sumf f l)%Z.
Proof.
  induction l as [|y l IH]; [rewrite sumf_nil; lia|]. rewrite sumf_cons. pose proof (cterm_nonneg f y). lia.
Qed.

Lemma sumf_ext f g l : (forall a, In a l -> g a = f a) -> sumf g l = sumf f l.
Proof.
  induction l as [|y l IH]; intros H; [reflexivity|]. rewrite !sumf_cons.
  rewrite IH by (intros a Ha; apply H; right; exact Ha).
  unfold cterm. rewrite (H y (or_introl eq_refl)). reflexivity.
Qed.

Lemma sumf_le f g l : (forall a, In a l -> g a = true -> f a = true) -> (sumf g l <= sumf f l)%Z.
Proof.
  induction l as [|y l IH]; intros H; [rewrite !sumf_nil; lia|]. rewrite !sumf_cons.
  assert (IH' : (sumf g l <= sumf f l)%Z) by (apply IH; intros a Ha; apply H; right; exact Ha).
  assert (Hy : (cterm g y <= cterm f y)%Z).
  { unfold cterm. destruct (g y) eqn:Eg.
    - rewrite (H y (or_introl eq_refl) Eg). lia.
    - destruct (f y); [apply cmin5_nonneg|lia]. }
  lia.
Qed.

Lemma sumf_zero f l : (forall a, In a l -> f a = true -> cmin5 (a / 8) = 0%Z) -> sumf f l = 0%Z.
Proof.
  induction l as [|y l IH]; intros H; [reflexivity|]. rewrite sumf_cons.
  rewrite IH by (intros a Ha; apply H; right; exact Ha).
  unfold cterm. destruct (f y) eqn:E; [rewrite (H y (or_introl eq_refl) E)|]; reflexivity.
Qed.

Lemma sumf_change1 f g x l : NoDup l -> In x l -> (forall a, In a l -> a <> x -> g a = f a) ->
  sumf g l = (sumf f l - cterm f x + cterm g x)%Z.
Proof.
  induction l as [|y l IH]; intros ND Hin Hag; [contradiction|].
  inversion ND as [|y' l' Hny NDl]; subst. rewrite !sumf_cons. destruct Hin as [E|Hin].
  - subst y. rewrite (sumf_ext f g l); [lia|].
    intros a Ha. apply Hag; [right; exact Ha|]. intros E. subst a. contradiction.
  - assert (Hyx : y <> x) by (intros E; subst y; contradiction).
    rewrite (IH NDl Hin) by (intros a Ha Hne; apply Hag; [right; exact Ha|exact Hne]).
    assert (Ey : cterm g y = cterm f y) by (unfold cterm; rewrite (Hag y (or_introl eq_refl) Hyx); reflexivity).
    lia.
Qed.

Lemma in_sq64 a : In a sq64_list <-> (a < 64)%N.
Proof.
  unfold sq64_list. rewrite in_map_iff. split.
  - intros (n & E & Hn). apply in_seq in Hn. lia.
  - intros H. exists (N.to_nat a). split; [apply N2Nat.id|apply in_seq; lia].
Qed.
Lemma nodup_sq64 : NoDup sq64_list.
Proof.
  unfold sq64_list. apply FinFun.Injective_map_NoDup; [intros x y E; apply Nat2N.inj; exact E|apply seq_NoDup].
Qed.

Lemma phi_of_nonneg f : (0 <= phi_of f)%Z.
Proof. rewrite phi_of_sumf. apply sumf_nonneg. Qed.
Lemma phi_of_ext f g : (forall a, (a < 64)%N -> g a = f a) -> phi_of g = phi_of f.
Proof. intros H. rewrite !phi_of_sumf. apply sumf_ext. intros a Ha. apply H. apply in_sq64. exact Ha. Qed.
Lemma phi_of_le f g : (forall a, (a < 64)%N -> g a = true -> f a = true) -> (phi_of g <= phi_of f)%Z.
Proof. intros H. rewrite !phi_of_sumf. apply sumf_le. intros a Ha. apply H. apply in_sq64. exact Ha. Qed.
Lemma phi_of_zero f : (forall a, (a < 64)%N -> f a = true -> cmin5 (a / 8) = 0%Z) -> phi_of f = 0%Z.
Proof. intros H. rewrite phi_of_sumf. apply sumf_zero. intros a Ha. apply H. apply in_sq64. exact Ha. Qed.

(* one square is vacated, one other square is set or cleared, the rest is unchanged *)
Lemma phi_of_move f g a0 b0 (arr : bool) : (a0 < 64)%N -> (b0 < 64)%N -> a0 <> b0 -> f a0 = true ->
  (forall a, (a < 64)%N -> g a = if (a =? a0)%N then false else if (a =? b0)%N then arr else f a) ->
  phi_of g = (phi_of f - cmin5 (a0 / 8) - cterm f b0 + (if arr then cmin5 (b0 / 8) else 0))%Z.
Proof.
  intros Ha Hb Hne Hfa Hg. rewrite !phi_of_sumf.
  set (h := fun a => if (a =? a0)%N then false else f a).
  assert (E1 : sumf h sq64_list = (sumf f sq64_list - cterm f a0 + cterm h a0)%Z).
  { apply sumf_change1; [exact nodup_sq64|apply in_sq64; exact Ha|].
    intros a _ Hn. unfold h. apply N.eqb_neq in Hn. rewrite Hn. reflexivity. }
  assert (E2 : sumf g sq64_list = (sumf h sq64_list - cterm h b0 + cterm g b0)%Z).
  { apply sumf_change1; [exact nodup_sq64|apply in_sq64; exact Hb|].
    intros a Hin Hn. apply in_sq64 in Hin. rewrite (Hg a Hin). unfold h. apply N.eqb_neq in Hn. rewrite Hn. reflexivity. }
  assert (E3 : cterm h a0 = 0%Z) by (unfold cterm, h; rewrite N.eqb_refl; reflexivity).
  assert (E4 : cterm f a0 = cmin5 (a0 / 8)) by (unfold cterm; rewrite Hfa; reflexivity).
  assert (Hba : (b0 =? a0)%N = false) by (apply N.eqb_neq; intros E; apply Hne; symmetry; exact E).
  assert (E5 : cterm h b0 = cterm f b0) by (unfold cterm, h; rewrite Hba; reflexivity).
  assert (E6 : cterm g b0 = (if arr then cmin5 (b0 / 8) else 0)%Z).
  { unfold cterm. rewrite (Hg b0 Hb), Hba, N.eqb_refl. reflexivity. }
  lia.
Qed.

(* the seven possible steps of a pawn *)
Lemma step_cost r r' : (1 <= r <= 6)%N -> (r' = r + 1 \/ (r = 1 /\ r' = 3))%N ->
  (5 * weightZ r' + (if (r' <? 7)%N then cmin5 r' else 0) - cmin5 r <= 31)%Z.
Proof.
  intros Hr Hs.
  assert (C : (r = 1 \/ r = 2 \/ r = 3 \/ r = 4 \/ r = 5 \/ r = 6)%N) by lia.
  destruct Hs as [E|[E1 E2]].
  - subst r'. destruct C as [E|[E|[E|[E|[E|E]]]]]; subst r; vm_compute; intros H; discriminate H.
  - subst r r'. vm_compute. intros H; discriminate H.
Qed.

Lemma phi_of_push f g a0 b0 : (a0 < 64)%N -> (b0 < 64)%N -> f a0 = true -> (1 <= a0 / 8 <= 6)%N ->
  (b0 / 8 = a0 / 8 + 1 \/ (a0 / 8 = 1 /\ b0 / 8 = 3))%N ->
  (forall a, (a < 64)%N -> g a = if (a =? a0)%N then false else if (a =? b0)%N then (b0 / 8 <? 7)%N else f a) ->
  (5 * weightZ (b0 / 8) + phi_of g <= phi_of f + 31)%Z.
Proof.
  intros Ha Hb Hfa Hr Hs Hg.
  assert (Hne : a0 <> b0). { intros E. rewrite E in Hs. lia. }
  rewrite (phi_of_move f g a0 b0 (b0 / 8 <? 7)%N Ha Hb Hne Hfa Hg).
  pose proof (step_cost (a0 / 8) (b0 / 8) Hr Hs). pose proof (cterm_nonneg f b0). lia.
Qed.

(* ------------------------------------------------------------------ the histogram *)
Lemma bump_length l : forall i, length (bump l i) = length l.
Proof.
  induction l as [|x r IH]; intros i; [reflexivity|]. destruct i as [|j]; cbn [bump length]; [reflexivity|].
  rewrite IH. reflexivity.
Qed.
Lemma bump_nonneg l : forall i, nonneg l -> nonneg (bump l i).
Proof.
  unfold nonneg. induction l as [|x r IH]; intros i H; [exact H|]. inversion H as [|x' r' Hx Hr]; subst.
  destruct i as [|j]; cbn [bump]; constructor; try assumption; [lra|apply IH; exact Hr].
Qed.

Definition wq (r : nat) : Q := nth r push_weights 0%Q.
Lemma wq_weightZ r : (r < 8)%nat -> inject_Z (weightZ (N.of_nat r)) = wq r.
Proof.
  intros H. do 8 (destruct r as [|r]; [reflexivity|]). lia.
Qed.
Lemma dot_bump l r : length l = 8%nat -> (r < 8)%nat ->
  (dot push_weights (bump l r) == dot push_weights l + inject_Z (weightZ (N.of_nat r)))%Q.
Proof.
  intros Hl Hr. rewrite (wq_weightZ r Hr).
  destruct l as [|h0 [|h1 [|h2 [|h3 [|h4 [|h5 [|h6 [|h7 [|]]]]]]]]]; cbn in Hl; try discriminate.
  do 8 (destruct r as [|r]; [unfold wq; cbn [bump dot push_weights nth]; lra|]). lia.
Qed.

(* ------------------------------------------------------------------ the game-length table *)
Definition tem (l : list (Q * Q)) : Q :=
  fold_right (fun e acc => ((if Qle_bool (fst e) 40 then fst e else 40) * snd e + acc)%Q) 0%Q l.
Lemma total_early_moves_tem s : total_early_moves s = tem (game_length s).
Proof. reflexivity. Qed.

Lemma Qle_bool_compat a k : (a == k)%Q -> Qle_bool a 40 = Qle_bool k 40.
Proof.
  intros E. destruct (Qle_bool a 40) eqn:Ea, (Qle_bool k 40) eqn:Ek; try reflexivity.
  - apply Qle_bool_iff in Ea. assert (H : (k <= 40)%Q) by lra. apply Qle_bool_iff in H. congruence.
  - apply Qle_bool_iff in Ek. assert (H : (a <= 40)%Q) by lra. apply Qle_bool_iff in H. congruence.
Qed.

Lemma tem_gl_add k l : (tem (gl_add k l) == tem l + (if Qle_bool k 40 then k else 40))%Q.
Proof.
  induction l as [|[a c] r IH].
  - cbn [gl_add tem fold_right fst snd]. destruct (Qle_bool k 40); lra.
  - cbn [gl_add]. destruct (Qeq_bool a k) eqn:E.
    + apply Qeq_bool_iff in E. pose proof (Qle_bool_compat a k E) as Hc.
      unfold tem. cbn [fold_right fst snd]. fold (tem r). rewrite <- Hc.
      destruct (Qle_bool a 40); lra.
    + unfold tem. cbn [fold_right fst snd]. fold (tem (gl_add k r)). fold (tem r). lra.
Qed.

Lemma capped_qN n : ((if Qle_bool (qN n) 40 then qN n else 40) == inject_Z (Z.of_N (N.min n 40)))%Q.
Proof.
  destruct (Qle_bool (qN n) 40) eqn:E.
  - apply Qle_bool_iff in E. unfold qN, Qle in *. cbn [Qnum Qden inject_Z] in E.
    unfold Qeq. cbn [Qnum Qden inject_Z]. lia.
  - assert (H : ~ (qN n <= 40)%Q) by (intros H; apply Qle_bool_iff in H; congruence).
    unfold qN, Qle in H. cbn [Qnum Qden inject_Z] in H. unfold Qeq. cbn [Qnum Qden inject_Z]. lia.
Qed.

Lemma total_early_moves_gl_add n l :
  (tem (gl_add (qN n) l) == tem l + inject_Z (Z.of_N (N.min n 40)))%Q.
Proof. rewrite tem_gl_add, capped_qN. reflexivity. Qed.

(* ------------------------------------------------------------------ projections of the tool's updates *)
Lemma add_move_early e s :
  early_pawn_pushes (add_move e s) = bump_if (e_pawn e && (e_ply e <? 40)%N) (early_pawn_pushes s) (e_rank e).
Proof. reflexivity. Qed.
Lemma add_move_gl e s : game_length (add_move e s) = game_length s.
Proof. reflexivity. Qed.
Lemma add_move_tpp e s : total_pawn_pushes (add_move e s) = (total_pawn_pushes s + q1 (e_pawn e))%Q.
Proof. reflexivity. Qed.
Lemma end_game_early n u t o mat s : early_pawn_pushes (end_game n u t o mat s) = early_pawn_pushes s.
Proof. reflexivity. Qed.
Lemma end_game_gl n u t o mat s : game_length (end_game n u t o mat s) = gl_add (qN n) (game_length s).
Proof. reflexivity. Qed.
Lemma end_game_tpp n u t o mat s : total_pawn_pushes (end_game n u t o mat s) = total_pawn_pushes s.
Proof. reflexivity. Qed.

Lemma event_ply p m n : e_ply (move_event p m n) = n.
Proof. reflexivity. Qed.
Lemma event_rank p m n : e_rank (move_event p m n) = N.to_nat (m_to m / 8).
Proof. reflexivity. Qed.
Lemma event_pawn p m n : e_pawn (move_event p m n) = is_set (pawns p) (m_from m).
Proof.
  unfold move_event. cbn [e_pawn]. unfold piece_on.
  destruct (is_set (pawns p) (m_from m)); [reflexivity|].
  repeat match goal with |- context [if ?b then _ else _] => destruct b end; reflexivity.
Qed.

Lemma end_game_total n u t o mat s :
  (total_early_moves (end_game n u t o mat s) == tem (game_length s) + inject_Z (Z.of_N (N.min n 40)))%Q.
Proof. rewrite total_early_moves_tem, end_game_gl. apply total_early_moves_gl_add. Qed.

(* ------------------------------------------------------------------ the invariant of the move loop *)
(* the positions of a game: the invariant of GenLegal and the pawn-rank facts of StylePawns *)
Definition Dom (p : Position) : Prop := InvR p /\ StylePawns.PawnDom p.
Lemma dom_step p m : Dom p -> In m (legal_moves p) -> Dom (makemove true p m).
Proof. intros [I D] Hm. split; [exact (invR_step p m I Hm)|exact (StylePawns.PawnDom_step p m I D Hm)]. Qed.

Record GInv (side : bool) (s0 : SStats) (g : GState) (W : Z) : Prop := {
  gv_inv : Dom (gs_pos g);
  gv_gl : game_length (gs_stats g) = game_length s0;
  gv_len : length (early_pawn_pushes (gs_stats g)) = 8%nat;
  gv_nn : nonneg (early_pawn_pushes (gs_stats g));
  gv_dot : (dot push_weights (early_pawn_pushes (gs_stats g)) == dot push_weights (early_pawn_pushes s0) + inject_Z W)%Q;
  gv_pot : (5 * W + (if (gs_ply g <=? 40)%N then phi side (gs_pos g) else 0) <= 31 * Z.of_N (N.min (gs_ply g) 40))%Z;
  gv_tpp : (total_pawn_pushes (gs_stats g) == total_pawn_pushes s0)%Q \/ (0 < gs_ply g)%N
}.

Lemma phi_nonneg side p : (0 <= phi side p)%Z.
Proof. unfold phi. apply phi_of_nonneg. Qed.

Lemma startpos_invR : InvR startpos.
Proof. apply invR_b_sound. vm_compute. reflexivity. Qed.
Lemma startpos_dom : Dom startpos.
Proof. split; [exact startpos_invR|exact StylePawns.PawnDom_start]. Qed.

Local Open Scope N_scope.

Lemma pawn_their_move side p m a : Dom p -> In m (legal_moves p) -> Bool.eqb (turn p) side = false -> a < 64 ->
  our_pawn side (makemove true p m) a = true -> our_pawn side p a = true.
Proof. intros [I _]. exact (StylePawns.pawn_their_move side p m a I). Qed.
Lemma pawn_our_other side p m a : Dom p -> In m (legal_moves p) -> Bool.eqb (turn p) side = true -> is_set (pawns p) (m_from m) = false -> a < 64 ->
  our_pawn side (makemove true p m) a = our_pawn side p a.
Proof. intros [I _]. exact (StylePawns.pawn_our_other side p m a I). Qed.
Lemma pawn_our_pawn side p m : Dom p -> In m (legal_moves p) -> Bool.eqb (turn p) side = true -> is_set (pawns p) (m_from m) = true ->
  m_from m < 64 /\ m_to m < 64 /\ our_pawn side p (m_from m) = true /\
  (m_to m / 8 = m_from m / 8 + 1 \/ (m_from m / 8 = 1 /\ m_to m / 8 = 3)) /\
  (forall a, a < 64 -> our_pawn side (makemove true p m) a =
     if a =? m_from m then false else if a =? m_to m then (m_to m / 8 <? 7) else our_pawn side p a).
Proof. intros [I D]. exact (StylePawns.pawn_our_pawn side p m I D). Qed.
Lemma pawn_ranks side p a : Dom p -> a < 64 -> our_pawn side p a = true -> 1 <= a / 8 <= 6.
Proof. intros [I D]. exact (StylePawns.pawn_ranks side p a I D). Qed.
Lemma pawn_start side a : a < 64 -> our_pawn side startpos a = (a / 8 =? 1).
Proof. exact (StylePawns.pawn_start side a). Qed.

Lemma phi_startpos side : phi side startpos = 0%Z.
Proof.
  unfold phi. apply phi_of_zero. intros a Ha H. rewrite (pawn_start side a Ha) in H.
  apply N.eqb_eq in H. rewrite H. reflexivity.
Qed.

Lemma game_start_inv side s : SPush s -> GInv side s (mkGS startpos 0 0 0 s) 0%Z.
Proof.
  intros P. constructor; cbn [gs_pos gs_ply gs_stats].
  - exact startpos_dom.
  - reflexivity.
  - exact (p_len s P).
  - exact (p_nn s P).
  - change (inject_Z 0) with 0%Q. lra.
  - rewrite (phi_startpos side). vm_compute. intros H; discriminate H.
  - left. reflexivity.
Qed.

Lemma game_step_inv side s0 g m W : GInv side s0 g W -> In m (legal_moves (gs_pos g)) ->
  exists W', GInv side s0 (game_step side g m) W'.
Proof.
  intros G Hm. destruct G as [I Hgl Hlen Hnn Hdot Hpot Htpp].
  destruct g as [p n cu ct s]. cbn [gs_pos gs_ply gs_stats] in *.
  pose proof (phi_nonneg side p) as Hp0.
  pose proof (phi_nonneg side (makemove true p m)) as Hp1.
  pose proof (dom_step p m I Hm) as I'.
  unfold game_step. cbn [gs_pos gs_ply gs_stats gs_us gs_them].
  destruct (Bool.eqb (turn p) side) eqn:Et.
  - (* a move of the analysed side *)
    destruct (is_set (pawns p) (m_from m)) eqn:Ep.
    + (* a pawn move *)
      destruct (pawn_our_pawn side p m I Hm Et Ep) as (Ha & Hb & Hfa & Hs & Hg).
      pose proof (pawn_ranks side p (m_from m) I Ha Hfa) as Hr.
      assert (Hcost : (5 * weightZ (m_to m / 8) + phi side (makemove true p m) <= phi side p + 31)%Z).
      { unfold phi. exact (phi_of_push _ _ (m_from m) (m_to m) Ha Hb Hfa Hr Hs Hg). }
      assert (Hrk : (N.to_nat (m_to m / 8) < 8)%nat).
      { assert (m_to m / 8 < 8) by (apply N.div_lt_upper_bound; lia). lia. }
      destruct (n <? 40) eqn:En.
      * exists (W + weightZ (m_to m / 8))%Z. constructor; cbn [gs_pos gs_ply gs_stats].
        -- exact I'.
        -- rewrite add_move_gl. exact Hgl.
        -- rewrite add_move_early, event_pawn, event_ply, event_rank, Ep, En. cbn [andb bump_if].
           rewrite bump_length. exact Hlen.
        -- rewrite add_move_early, event_pawn, event_ply, event_rank, Ep, En. cbn [andb bump_if].
           apply bump_nonneg. exact Hnn.
        -- rewrite add_move_early, event_pawn, event_ply, event_rank, Ep, En. cbn [andb bump_if].
           rewrite (dot_bump _ _ Hlen Hrk), N2Nat.id, inject_Z_plus, Hdot. lra.
        -- apply N.ltb_lt in En.
           destruct (N.leb_spec (n + 1) 40) as [L1|L1]; [|lia].
           destruct (N.leb_spec n 40) as [L2|L2]; [|lia]. lia.
        -- right. lia.
      * exists W. constructor; cbn [gs_pos gs_ply gs_stats].
        -- exact I'.
        -- rewrite add_move_gl. exact Hgl.
        -- rewrite add_move_early, event_pawn, event_ply, event_rank, Ep, En. cbn [andb bump_if]. exact Hlen.
        -- rewrite add_move_early, event_pawn, event_ply, event_rank, Ep, En. cbn [andb bump_if]. exact Hnn.
        -- rewrite add_move_early, event_pawn, event_ply, event_rank, Ep, En. cbn [andb bump_if]. exact Hdot.
        -- apply N.ltb_ge in En.
           destruct (N.leb_spec (n + 1) 40) as [L1|L1]; [lia|].
           destruct (N.leb_spec n 40) as [L2|L2]; lia.
        -- right. lia.
    + (* another man moves *)
      assert (Hphi : phi side (makemove true p m) = phi side p).
      { unfold phi. apply phi_of_ext. intros a Ha. exact (pawn_our_other side p m a I Hm Et Ep Ha). }
      exists W. constructor; cbn [gs_pos gs_ply gs_stats].
      * exact I'.
      * rewrite add_move_gl. exact Hgl.
      * rewrite add_move_early, event_pawn, Ep. cbn [andb bump_if]. exact Hlen.
      * rewrite add_move_early, event_pawn, Ep. cbn [andb bump_if]. exact Hnn.
      * rewrite add_move_early, event_pawn, Ep. cbn [andb bump_if]. exact Hdot.
      * rewrite Hphi.
        destruct (N.leb_spec (n + 1) 40) as [L1|L1]; destruct (N.leb_spec n 40) as [L2|L2]; lia.
      * destruct Htpp as [E|L]; [left|right; lia].
        rewrite add_move_tpp, event_pawn, Ep. cbn [q1]. lra.
  - (* a move of the other side *)
    assert (Hphi : (phi side (makemove true p m) <= phi side p)%Z).
    { unfold phi. apply phi_of_le. intros a Ha. exact (pawn_their_move side p m a I Hm Et Ha). }
    exists W. constructor; cbn [gs_pos gs_ply gs_stats].
    + exact I'.
    + exact Hgl.
    + exact Hlen.
    + exact Hnn.
    + exact Hdot.
    + destruct (N.leb_spec (n + 1) 40) as [L1|L1]; destruct (N.leb_spec n 40) as [L2|L2]; lia.
    + destruct Htpp as [E|L]; [left; exact E|right; lia].
Qed.

Lemma game_fold_inv side s0 ms : forall g W, GInv side s0 g W -> gen_seq (gs_pos g) ms ->
  exists W', GInv side s0 (fold_left (game_step side) ms g) W'.
Proof.
  induction ms as [|m r IH]; intros g W G H; cbn [fold_left]; [exists W; exact G|].
  cbn [gen_seq] in H. destruct H as (Hm & Hr).
  destruct (game_step_inv side s0 g m W G Hm) as (W1 & G1).
  apply (IH _ W1 G1).
  assert (E : gs_pos (game_step side g m) = makemove true (gs_pos g) m).
  { unfold game_step. destruct (Bool.eqb (turn (gs_pos g)) side); reflexivity. }
  rewrite E. exact Hr.
Qed.

Theorem game_run_inv side ms s : gen_seq startpos ms -> SPush s -> exists W, GInv side s (game_run side startpos ms s) W.
Proof.
  intros H P. unfold game_run. apply (game_fold_inv side s ms _ 0%Z (game_start_inv side s P)). exact H.
Qed.

Lemma total_early_nonneg s : SPush s -> (0 <= total_early_moves s)%Q.
Proof.
  intros P. pose proof (nonneg_dot_push _ (p_len s P) (p_nn s P)). pose proof (p_bound s P). lra.
Qed.

Theorem analyse_game_push : forall side h ms s, gen_seq startpos ms -> SPush s -> SPush (analyse_game side startpos h ms s).
Proof.
  intros side h ms s H P. destruct (game_run_inv side ms s H P) as (W & G).
  unfold analyse_game. cbv zeta.
  set (g := game_run side startpos ms s) in *.
  destruct G as [I Hgl Hlen Hnn Hdot Hpot Htpp].
  pose proof (phi_nonneg side (gs_pos g)) as Hp0.
  set (M := Z.of_N (N.min (gs_ply g) 40)) in *.
  assert (HW : (5 * W <= 31 * M)%Z) by (destruct (gs_ply g <=? 40); lia).
  assert (HWq : (5 * inject_Z W <= 31 * inject_Z M)%Q).
  { rewrite Zle_Qle in HW. rewrite !inject_Z_mult in HW. exact HW. }
  assert (HT : forall u t o mat, (total_early_moves (end_game (gs_ply g) u t o mat (gs_stats g)) == total_early_moves s + inject_Z M)%Q).
  { intros u t o mat. rewrite end_game_total, Hgl, total_early_moves_tem. reflexivity. }
  pose proof (total_early_nonneg s P) as H0.
  pose proof (p_bound s P) as Hb.
  constructor.
  - rewrite end_game_early. exact Hlen.
  - rewrite end_game_early. exact Hnn.
  - rewrite end_game_early, HT, Hdot. lra.
  - rewrite end_game_tpp, HT. intros Hpos.
    destruct Htpp as [E|L].
    + rewrite E in Hpos. pose proof (p_early s P Hpos).
      assert (HM : (0 <= M)%Z) by (unfold M; lia). rewrite Zle_Qle in HM. change (inject_Z 0) with 0%Q in HM. lra.
    + assert (HM : (1 <= M)%Z) by (unfold M; lia). rewrite Zle_Qle in HM. change (inject_Z 1) with 1%Q in HM. lra.
Qed.


Print Assumptions analyse_game_push.
