(* bswap (Bitboard::flip): bit j of the result is bit (j xor 56) of the argument; involution; popcount preserved. *)
From Coq Require Import NArith ZArith List Bool Lia.
From Rawr Require Import Consts Bits BitsFacts.
Import ListNotations.
Local Open Scope N_scope.
Ltac Zify.zify_post_hook ::= Z.div_mod_to_equations.

Lemma testbit_255 k : N.testbit 255 k = (k <? 8).
Proof.
  change 255 with (N.ones 8). destruct (N.ltb_spec k 8); [apply N.ones_spec_low|apply N.ones_spec_high]; assumption.
Qed.

Lemma testbit_byte_shift x i sh j :
  N.testbit (N.shiftl (byte_of x i) sh) j = (sh <=? j) && (j - sh <? 8) && N.testbit x (j - sh + 8 * i).
Proof.
  unfold byte_of. destruct (N.leb_spec sh j) as [H|H].
  - rewrite N.shiftl_spec_high' by exact H. rewrite N.land_spec, N.shiftr_spec', testbit_255.
    cbn [andb]. apply andb_comm.
  - rewrite N.shiftl_spec_low by exact H. reflexivity.
Qed.

Lemma testbit_byte7 x j : N.testbit (byte_of x 7) j = (j <? 8) && N.testbit x (j + 56).
Proof. unfold byte_of. rewrite N.land_spec, N.shiftr_spec', testbit_255. apply andb_comm. Qed.

Definition flipbit (j : N) : N := N.lxor j 56.

(* j xor 56 on 0..63: the rank is mirrored *)
Lemma flipbit_arith j : j < 64 -> flipbit j = 8 * (7 - j / 8) + j mod 8.
Proof.
  intros H. assert (Hin : In j (map N.of_nat (seq 0 64))).
  { rewrite <- (N2Nat.id j). apply in_map. apply in_seq. lia. }
  revert Hin. generalize j. apply Forall_forall. vm_compute.
  repeat constructor.
Qed.

Lemma testbit_term x i k sh j : sh = 8 * k ->
  N.testbit (N.shiftl (byte_of x i) sh) j = (j / 8 =? k) && N.testbit x (j - sh + 8 * i).
Proof.
  intros ->. rewrite testbit_byte_shift. f_equal.
  pose proof (N.div_mod j 8 ltac:(lia)) as Hdm. pose proof (N.mod_lt j 8 ltac:(lia)) as Hm.
  destruct (N.leb_spec (8 * k) j) as [H1|H1]; destruct (N.ltb_spec (j - 8 * k) 8) as [H2|H2];
    destruct (N.eqb_spec (j / 8) k) as [H3|H3]; cbn [andb]; try reflexivity; exfalso; lia.
Qed.

Lemma testbit_bswap x j : N.testbit (bswap x) j = (j <? 64) && N.testbit x (flipbit j).
Proof.
  unfold bswap. rewrite !N.lor_spec.
  rewrite (testbit_term x 0 7 56 j eq_refl), (testbit_term x 1 6 48 j eq_refl), (testbit_term x 2 5 40 j eq_refl),
          (testbit_term x 3 4 32 j eq_refl), (testbit_term x 4 3 24 j eq_refl), (testbit_term x 5 2 16 j eq_refl),
          (testbit_term x 6 1 8 j eq_refl), testbit_byte7.
  pose proof (N.div_mod j 8 ltac:(lia)) as Hdm. pose proof (N.mod_lt j 8 ltac:(lia)) as Hm.
  destruct (N.ltb_spec j 64) as [Hj|Hj].
  - rewrite (flipbit_arith j Hj). cbn [andb].
    assert (Hq : j / 8 < 8) by (apply N.div_lt_upper_bound; lia).
    assert (Hcases : j / 8 = 0 \/ j / 8 = 1 \/ j / 8 = 2 \/ j / 8 = 3 \/ j / 8 = 4 \/ j / 8 = 5 \/ j / 8 = 6 \/ j / 8 = 7) by lia.
    destruct (N.ltb_spec j 8) as [H8|H8];
    destruct Hcases as [E|[E|[E|[E|[E|[E|[E|E]]]]]]]; rewrite E in *; cbn [N.eqb Pos.eqb andb orb]; try lia;
      rewrite ?orb_false_r; f_equal; lia.
  - cbn [andb].
    assert (Hq : 8 <= j / 8) by (apply N.div_le_lower_bound; lia).
    destruct (N.ltb_spec j 8) as [H8|H8]; [lia|].
    repeat match goal with |- context [j / 8 =? ?c] => destruct (N.eqb_spec (j / 8) c); [lia|] end.
    reflexivity.
Qed.

Lemma flipbit_invol j : flipbit (flipbit j) = j.
Proof. unfold flipbit. rewrite N.lxor_assoc, N.lxor_nilpotent, N.lxor_0_r. reflexivity. Qed.

Lemma flipbit_lt j : j < 64 -> flipbit j < 64.
Proof. intros H. rewrite flipbit_arith by exact H. pose proof (N.mod_lt j 8 ltac:(lia)). assert (j / 8 < 8) by (apply N.div_lt_upper_bound; lia). lia. Qed.

Lemma bswap_lt x : bswap x < TWO64.
Proof.
  apply testbit_lt64. intros i Hi. rewrite testbit_bswap. destruct (N.ltb_spec i 64); [lia|reflexivity].
Qed.

Lemma bswap_invol x : x < TWO64 -> bswap (bswap x) = x.
Proof.
  intros Hx. apply N.bits_inj. intros j. rewrite !testbit_bswap.
  destruct (N.ltb_spec j 64) as [Hj|Hj].
  - cbn [andb]. rewrite flipbit_invol. destruct (N.ltb_spec (flipbit j) 64) as [H|H]; [reflexivity|].
    pose proof (flipbit_lt j Hj). lia.
  - cbn [andb]. symmetry. apply lt64_testbit_high; assumption.
Qed.

(* ---- popcount as a sum over bit positions *)
Definition b2n (b : bool) : N := if b then 1 else 0.
Fixpoint bitsum (x : N) (n : nat) (i : N) : N :=
  match n with O => 0 | S n' => b2n (N.testbit x i) + bitsum x n' (N.succ i) end.

Lemma pop_div2 x : popcount x = popcount (N.div2 x) + b2n (N.odd x).
Proof.
  destruct x as [|[p|p|]]; cbn [popcount pop_pos N.div2 N.odd Pos.div2 b2n]; try reflexivity.
  - rewrite N.add_1_r. reflexivity.
  - rewrite N.add_0_r. reflexivity.
Qed.

Lemma bitsum_shift x n : forall i, bitsum x n (N.succ i) = bitsum (N.div2 x) n i.
Proof.
  induction n as [|n IH]; intros i; cbn [bitsum]; [reflexivity|].
  rewrite IH. f_equal. f_equal. rewrite N.div2_spec, N.shiftr_spec', N.add_1_r. reflexivity.
Qed.

Lemma popcount_bitsum : forall n x, x < 2 ^ N.of_nat n -> popcount x = bitsum x n 0.
Proof.
  induction n as [|n IH]; intros x Hx.
  - change (2 ^ N.of_nat 0) with 1 in Hx. assert (x = 0) by lia. subst. reflexivity.
  - cbn [bitsum]. rewrite bitsum_shift, pop_div2. rewrite <- IH.
    + rewrite N.bit0_odd. lia.
    + rewrite N.div2_div. apply N.div_lt_upper_bound; [lia|].
      rewrite Nat2N.inj_succ, N.pow_succ_r' in Hx. exact Hx.
Qed.

Lemma popcount_bswap x : x < TWO64 -> popcount (bswap x) = popcount x.
Proof.
  intros Hx.
  rewrite (popcount_bitsum 64 (bswap x)) by apply bswap_lt.
  rewrite (popcount_bitsum 64 x) by exact Hx.
  cbn [bitsum N.succ Pos.succ]. rewrite !testbit_bswap. unfold flipbit.
  repeat match goal with |- context [N.lxor ?a 56] =>
    let v := eval vm_compute in (N.lxor a 56) in change (N.lxor a 56) with v end.
  repeat match goal with |- context [?a <? 64] =>
    let v := eval vm_compute in (a <? 64) in change (a <? 64) with v end.
  cbn [andb]. lia.
Qed.
