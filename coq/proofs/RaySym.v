(* Slider attacks are symmetric: b is in the bishop/rook walk from a iff a is in the walk from b (same occupancy).
   The geometric half is a finite sweep over the 64 x 8 ray lists (the reversed ray from b towards a starts with the
   squares between them, in reverse order, then a); the occupancy half is list reasoning, valid for every occupancy. *)
From Coq Require Import NArith ZArith List Bool Lia.
From Rawr Require Import Consts Bits Magic Position MakeStages BitsFacts AttackFacts GenSane GenNoDup.
Import ListNotations.
Local Open Scope N_scope.

Definition negd (d : Z * Z) : Z * Z := ((- fst d)%Z, (- snd d)%Z).
Definition all_dirs : list (Z * Z) := bishop_dirs ++ rook_dirs.

Fixpoint list_eqb (a b : list N) : bool :=
  match a, b with
  | [], [] => true
  | x :: a', y :: b' => (x =? y) && list_eqb a' b'
  | _, _ => false
  end.
Lemma list_eqb_eq a : forall b, list_eqb a b = true -> a = b.
Proof.
  induction a as [|x a IH]; intros [|y b] H; cbn [list_eqb] in H; try discriminate; [reflexivity|].
  apply andb_true_iff in H. destruct H as [H1 H2]. apply N.eqb_eq in H1. rewrite H1, (IH b H2). reflexivity.
Qed.

(* for every square a, direction d and position k on the ray: the ray back from the k-th square begins with the first k
   squares reversed, then a *)
Definition back_ok (a : N) (d : Z * Z) : bool :=
  let l := ray_of a d in
  forallb (fun k => list_eqb (firstn (S k) (ray_of (nth k l 0) (negd d))) (rev (firstn k l) ++ [a])) (seq 0 (length l)).
Lemma back_ok_all : forallb (fun a => forallb (back_ok a) all_dirs) sq64_list = true.
Proof. vm_compute. reflexivity. Qed.

Lemma back_ray a d l1 b l2 : a < 64 -> In d all_dirs -> ray_of a d = l1 ++ b :: l2 ->
  exists rest, ray_of b (negd d) = rev l1 ++ a :: rest.
Proof.
  intros Ha Hd E. pose proof back_ok_all as H. rewrite forallb_forall in H. specialize (H a (in_sq64 a Ha)).
  rewrite forallb_forall in H. specialize (H d Hd). unfold back_ok in H. cbv zeta in H. rewrite forallb_forall in H.
  specialize (H (length l1)). rewrite E in H.
  assert (Hin : In (length l1) (seq 0 (length (l1 ++ b :: l2)))) by (apply in_seq; rewrite app_length; cbn [length]; lia).
  specialize (H Hin). apply list_eqb_eq in H.
  rewrite app_nth2, Nat.sub_diag in H by lia. cbn [nth] in H.
  rewrite firstn_app, firstn_all, Nat.sub_diag, firstn_O, app_nil_r in H.
  exists (skipn (S (length l1)) (ray_of b (negd d))).
  rewrite <- (firstn_skipn (S (length l1)) (ray_of b (negd d))) at 1. rewrite H, <- app_assoc. reflexivity.
Qed.

(* the occupancy half *)
Lemma walk_list_split occ l s : (forall y, In y l -> y < 64) -> N.testbit (walk_list occ l) s = true ->
  exists l1 l2, l = l1 ++ s :: l2 /\ forall x, In x l1 -> N.testbit occ x = false.
Proof.
  induction l as [|a t IH]; intros Hl H; cbn [walk_list] in H; [rewrite N.bits_0 in H; discriminate|].
  assert (Ha : a < 64) by (apply Hl; left; reflexivity).
  destruct (N.testbit occ a) eqn:Eo.
  - rewrite (testbit_bit a s Ha) in H. apply N.eqb_eq in H. subst s. exists [], t. split; [reflexivity|intros x []].
  - rewrite N.lor_spec, (testbit_bit a s Ha) in H. destruct (N.eqb_spec s a) as [->|Hne].
    + exists [], t. split; [reflexivity|intros x []].
    + cbn [orb] in H. destruct (IH (fun y Hy => Hl y (or_intror Hy)) H) as (l1 & l2 & -> & Hfree).
      exists (a :: l1), l2. split; [reflexivity|]. intros x [<-|Hx]; [exact Eo|exact (Hfree x Hx)].
Qed.

Lemma walk_list_reach occ l1 s l2 : (forall y, In y (l1 ++ s :: l2) -> y < 64) -> (forall x, In x l1 -> N.testbit occ x = false) ->
  N.testbit (walk_list occ (l1 ++ s :: l2)) s = true.
Proof.
  induction l1 as [|a t IH]; intros Hl Hfree; cbn [app walk_list].
  - assert (Hs : s < 64) by (apply Hl; left; reflexivity).
    destruct (N.testbit occ s); [|rewrite N.lor_spec]; rewrite (testbit_bit s s Hs), N.eqb_refl; reflexivity.
  - rewrite (Hfree a (or_introl eq_refl)). rewrite N.lor_spec, IH; [apply orb_true_r|intros y Hy; apply Hl; right; exact Hy|intros x Hx; apply Hfree; right; exact Hx].
Qed.

Lemma walk_dirs_has dirs sq occ d s : In d dirs -> N.testbit (walk_list occ (ray_of sq d)) s = true -> N.testbit (walk_dirs dirs sq occ) s = true.
Proof.
  intros Hd H. unfold walk_dirs. induction dirs as [|d' dirs IH]; [contradiction|]. cbn [fold_right]. rewrite N.lor_spec.
  destruct Hd as [->|Hd]; [rewrite H; reflexivity|rewrite (IH Hd); apply orb_true_r].
Qed.

Lemma walk_dirs_which dirs sq occ s : N.testbit (walk_dirs dirs sq occ) s = true ->
  exists d, In d dirs /\ N.testbit (walk_list occ (ray_of sq d)) s = true.
Proof.
  unfold walk_dirs. induction dirs as [|d dirs IH]; cbn [fold_right]; intros H.
  - rewrite N.bits_0 in H. discriminate.
  - rewrite N.lor_spec in H. apply orb_true_iff in H. destruct H as [H|H].
    + exists d. split; [left; reflexivity|exact H].
    + destruct (IH H) as (d' & Hd & Hs). exists d'. split; [right; exact Hd|exact Hs].
Qed.

Lemma ray_lt sq d y : In y (ray_of sq d) -> y < 64.
Proof. intros H. exact (ray_squares_lt _ _ _ _ _ y H). Qed.

Lemma walk_dirs_sym dirs a b occ : a < 64 -> (forall d, In d dirs -> In d all_dirs /\ In (negd d) dirs) ->
  N.testbit (walk_dirs dirs a occ) b = true -> N.testbit (walk_dirs dirs b occ) a = true.
Proof.
  intros Ha Hdirs H. destruct (walk_dirs_which dirs a occ b H) as (d & Hd & Hw).
  destruct (walk_list_split occ (ray_of a d) b (ray_lt a d) Hw) as (l1 & l2 & E & Hfree).
  destruct (Hdirs d Hd) as (Hall & Hneg).
  destruct (back_ray a d l1 b l2 Ha Hall E) as (rest & Eb).
  apply (walk_dirs_has dirs b occ (negd d) a Hneg). rewrite Eb. apply walk_list_reach.
  - intros y Hy. rewrite <- Eb in Hy. exact (ray_lt b (negd d) y Hy).
  - intros x Hx. apply in_rev in Hx. exact (Hfree x Hx).
Qed.

Theorem batt_sym a b occ : a < 64 -> b < 64 -> N.testbit (batt a occ) b = true -> N.testbit (batt b occ) a = true.
Proof.
  intros Ha Hb. unfold batt, bishop_walk. apply N.ltb_lt in Ha, Hb. rewrite Ha, Hb. apply N.ltb_lt in Ha.
  apply walk_dirs_sym; [exact Ha|]. intros d Hd. unfold all_dirs, bishop_dirs, negd in *. cbn [In] in Hd.
  repeat destruct Hd as [<-|Hd]; try contradiction; cbn; auto 12.
Qed.
Theorem ratt_sym a b occ : a < 64 -> b < 64 -> N.testbit (ratt a occ) b = true -> N.testbit (ratt b occ) a = true.
Proof.
  intros Ha Hb. unfold ratt, rook_walk. apply N.ltb_lt in Ha, Hb. rewrite Ha, Hb. apply N.ltb_lt in Ha.
  apply walk_dirs_sym; [exact Ha|]. intros d Hd. unfold all_dirs, rook_dirs, negd in *. cbn [In] in Hd.
  repeat destruct Hd as [<-|Hd]; try contradiction; cbn; auto 12.
Qed.
