(* C17: the evaluation reads the eight bitboards only, and is odd under passing the turn. *)
From Coq Require Import NArith ZArith List Bool Lia.
From Rawr Require Import Consts Bits Magic Position Eval BitsFacts FlipFacts.
Import ListNotations.
Local Open Scope Z_scope.

Definition same_boards (p q : Position) : Prop :=
  c_us p = c_us q /\ c_them p = c_them q /\ pawns p = pawns q /\ knights p = knights q /\ bishops p = bishops q
  /\ rooks p = rooks q /\ queens p = queens q /\ kings p = kings q.

Definition BB (p : Position) : Prop :=
  (c_us p < TWO64 /\ c_them p < TWO64 /\ pawns p < TWO64 /\ knights p < TWO64 /\ bishops p < TWO64
   /\ rooks p < TWO64 /\ queens p < TWO64 /\ kings p < TWO64)%N.

Lemma eval_us_ext p q : same_boards p q -> eval_us p = eval_us q.
Proof.
  intros (H1 & H2 & H3 & H4 & H5 & H6 & H7 & H8).
  destruct p, q. cbn in H1, H2, H3, H4, H5, H6, H7, H8. subst. reflexivity.
Qed.

Lemma get_phase_ext p q : same_boards p q -> get_phase p = get_phase q.
Proof.
  intros (H1 & H2 & H3 & H4 & H5 & H6 & H7 & H8). unfold get_phase. rewrite H4, H5, H6, H7. reflexivity.
Qed.

Lemma flip_same_boards p q : same_boards p q -> same_boards (flip p) (flip q).
Proof.
  intros (H1 & H2 & H3 & H4 & H5 & H6 & H7 & H8). unfold same_boards, flip. cbn.
  rewrite H1, H2, H3, H4, H5, H6, H7, H8. repeat split.
Qed.

Theorem eval_reads_boards_only p q : same_boards p q -> eval p = eval q.
Proof.
  intros H. unfold eval. rewrite (eval_us_ext p q H), (eval_us_ext (flip p) (flip q) (flip_same_boards p q H)),
    (get_phase_ext p q H). reflexivity.
Qed.

Lemma flip_flip_boards p : BB p -> same_boards (flip (flip p)) p.
Proof.
  intros (H1 & H2 & H3 & H4 & H5 & H6 & H7 & H8). unfold same_boards, flip. cbn.
  rewrite !bswap_invol by assumption. repeat split.
Qed.

Lemma get_phase_flip p : BB p -> get_phase (flip p) = get_phase p.
Proof.
  intros (H1 & H2 & H3 & H4 & H5 & H6 & H7 & H8). unfold get_phase, flip, zpop. cbn.
  rewrite !popcount_bswap by assumption. reflexivity.
Qed.

Lemma taper_opp a b ph : taper (ssub a b) ph = - taper (ssub b a) ph.
Proof.
  unfold taper, ssub. cbn [fst snd].
  replace ((fst a - fst b) * (TAPER_SCALE - ph) + (snd a - snd b) * ph)
     with (- ((fst b - fst a) * (TAPER_SCALE - ph) + (snd b - snd a) * ph)) by ring.
  apply Z.quot_opp_l. unfold TAPER_DIV. lia.
Qed.

(* the same board with the turn passed to the opponent evaluates to the exact negative *)
Theorem eval_antisym p : BB p -> eval (flip p) = - eval p.
Proof.
  intros H. unfold eval.
  rewrite (eval_us_ext (flip (flip p)) p (flip_flip_boards p H)), (get_phase_flip p H).
  apply taper_opp.
Qed.
