(* The "modulo fuel" clauses made precise.
   F1: fuel monotonicity: a result of qsearch / negamax / root, once defined, does not depend on the fuel.
   F2: the quiescence search needs no fuel hypothesis: every capture removes a man, so 33 units of fuel (more than the
       number of men on the board) always suffice on positions satisfying the invariant. *)
From Coq Require Import NArith ZArith List Bool Lia ZifyN ZifyBool Permutation.
From Rawr Require Import Consts Bits Magic Position MoveGen MakeMove MakeStages Eval TT Search Rules Abs GameTree
                         BitsFacts ShiftFacts FlipFacts AbsFacts LsbFacts HashFacts MakeFacts MakeAbs CastleFacts CastleAbs KeyAbs KeyMove
                         AttackFacts BoundFacts CountFacts GenSane GenNoDup NotationFacts NoKingCapture Closure ClosureNull
                         MenCount EpRetro CaptureFacts AlphaBeta SearchFacts SearchBound GenLegal.
Import ListNotations.
Local Open Scope Z_scope.

(* ================================================================== F1: fuel monotonicity *)
Definition QRec := Position -> Stats -> Z -> Z -> Z -> option (Z * Stats).
Definition NRec := Position -> SS -> Z -> Z -> Z -> Z -> bool -> option (Z * SS).

Definition qextends (qrec qrec' : QRec) : Prop :=
  forall q st a b pl r, qrec q st a b pl = Some r -> qrec' q st a b pl = Some r.
Definition nextends (rec rec' : NRec) : Prop :=
  forall q s a b pl d cn r, rec q s a b pl d cn = Some r -> rec' q s a b pl d cn = Some r.

Lemma q_loop_ext qrec qrec' p beta ply : qextends qrec qrec' ->
  forall ms st alpha best r, q_loop qrec p beta ply ms st alpha best = Some r -> q_loop qrec' p beta ply ms st alpha best = Some r.
Proof.
  intros Hq. induction ms as [|m ms IH]; intros st alpha best r H; cbn [q_loop] in H |- *.
  - exact H.
  - destruct (qrec (makemove false p m) (bump_nodes st) (- beta) (- alpha) (ply + 1)) as [[v st0]|] eqn:E; [|discriminate].
    rewrite (Hq _ _ _ _ _ _ E). cbv zeta in H |- *.
    destruct (beta <=? _); [exact H|exact (IH _ _ _ _ H)].
Qed.

Lemma qsearch_ext : forall f, qextends (qsearch f) (qsearch (S f)).
Proof.
  induction f as [|f IH]; intros q st a b pl r H; [discriminate|].
  cbn [qsearch] in H. remember (S f) as f1 eqn:Ef. cbn [qsearch]. cbv zeta in H |- *.
  destruct (b <=? eval q); [exact H|].
  subst f1. exact (q_loop_ext (qsearch f) (qsearch (S f)) q b pl IH _ _ _ _ _ H).
Qed.

Theorem qsearch_fuel_mono : forall f f' p st a b ply r, (f <= f')%nat ->
  qsearch f p st a b ply = Some r -> qsearch f' p st a b ply = Some r.
Proof.
  intros f f' p st a b ply r Hle. induction Hle as [|f' Hle IH]; intros H; [exact H|].
  exact (qsearch_ext f' _ _ _ _ _ _ (IH H)).
Qed.

Section Mono.
Variable stopf : Stats -> bool.

Lemma search_move_ext rec rec' p in_chk beta ply depth idx m np s alpha r : nextends rec rec' ->
  search_move rec p in_chk beta ply depth idx m np s alpha = Some r ->
  search_move rec' p in_chk beta ply depth idx m np s alpha = Some r.
Proof.
  intros Hr H. unfold search_move in H |- *. destruct (idx =? 0).
  - destruct (rec np s (- beta) (- alpha) (ply + 1) (depth - 1) true) as [[v s1]|] eqn:E; [|discriminate].
    rewrite (Hr _ _ _ _ _ _ _ _ E). exact H.
  - cbv zeta in H |- *.
    match type of H with match ?x with _ => _ end = _ => destruct x as [[v s1]|] eqn:E; [|discriminate] end.
    rewrite (Hr _ _ _ _ _ _ _ _ E).
    destruct ((alpha <? - v) && (- v <? beta)); [|exact H].
    destruct (rec np s1 (- beta) (- alpha) (ply + 1) (depth - 1) true) as [[v2 s2]|] eqn:E2; [|discriminate].
    rewrite (Hr _ _ _ _ _ _ _ _ E2). exact H.
Qed.

Lemma n_loop_ext rec rec' p in_chk beta ply depth : nextends rec rec' ->
  forall ms idx s alpha best bm r, n_loop rec p in_chk beta ply depth ms idx s alpha best bm = Some r ->
  n_loop rec' p in_chk beta ply depth ms idx s alpha best bm = Some r.
Proof.
  intros Hr. induction ms as [|m ms IH]; intros idx s alpha best bm r H; cbn [n_loop] in H |- *.
  - exact H.
  - cbv zeta in H |- *.
    match type of H with match ?x with _ => _ end = _ => destruct x as [[score s1]|] eqn:E; [|discriminate] end.
    rewrite (search_move_ext rec rec' _ _ _ _ _ _ _ _ _ _ _ Hr E).
    destruct (if best <? score then (score, Some m) else (best, bm)) as [best' bm'].
    destruct (beta <=? _); [exact H|exact (IH _ _ _ _ _ _ H)].
Qed.

Lemma null_move_ext rec rec' p s is_root cn in_chk beta ply depth r : nextends rec rec' ->
  null_move rec p s is_root cn in_chk beta ply depth = Some r -> null_move rec' p s is_root cn in_chk beta ply depth = Some r.
Proof.
  intros Hr H. unfold null_move in H |- *.
  destruct (negb is_root && cn && (2 <? depth) && negb in_chk && negb (is_endgame p)); [|exact H].
  cbv zeta in H |- *.
  match type of H with match ?x with _ => _ end = _ => destruct x as [[v s1]|] eqn:E; [|discriminate] end.
  rewrite (Hr _ _ _ _ _ _ _ _ E). exact H.
Qed.

Lemma nm_moves_ext rec rec' p s ao alpha beta ply depth in_chk is_root cn ttm r : nextends rec rec' ->
  nm_moves rec p s ao alpha beta ply depth in_chk is_root cn ttm = Some r ->
  nm_moves rec' p s ao alpha beta ply depth in_chk is_root cn ttm = Some r.
Proof.
  intros Hr H. unfold nm_moves in H |- *.
  destruct (null_move rec p s is_root cn in_chk beta ply depth) as [[oc s1]|] eqn:En; [|discriminate].
  rewrite (null_move_ext rec rec' _ _ _ _ _ _ _ _ _ Hr En).
  destruct oc as [cut|]; [exact H|].
  destruct (n_loop rec p in_chk beta ply depth (sort_n p (legal_moves p) ttm) 0 s1 alpha (- INF) None) as [r0|] eqn:El; [|discriminate].
  rewrite (n_loop_ext rec rec' _ _ _ _ _ Hr _ _ _ _ _ _ _ El). exact H.
Qed.

Lemma nm_prune_ext rec rec' qrec qrec' p s ao alpha beta ply depth in_chk is_root is_pv cn ttm r :
  nextends rec rec' -> qextends qrec qrec' ->
  nm_prune stopf rec qrec p s ao alpha beta ply depth in_chk is_root is_pv cn ttm = Some r ->
  nm_prune stopf rec' qrec' p s ao alpha beta ply depth in_chk is_root is_pv cn ttm = Some r.
Proof.
  intros Hr Hq H. unfold nm_prune in H |- *.
  destruct (depth <=? 0).
  - destruct (qrec p (ss_stats s) alpha beta ply) as [[v st]|] eqn:E; [|discriminate].
    rewrite (Hq _ _ _ _ _ _ E). exact H.
  - destruct (stopf (ss_stats s) && negb (is_root && (st_depth (ss_stats s) <=? 1))); [exact H|].
    cbv zeta in H |- *.
    destruct (((100 <=? halfmoves p) || _) && negb is_root); [exact H|].
    destruct (negb is_pv && negb in_chk && (depth <? RFP_DEPTH) && _); [exact H|].
    exact (nm_moves_ext rec rec' _ _ _ _ _ _ _ _ _ _ _ _ Hr H).
Qed.

Lemma nm_probe_ext rec rec' qrec qrec' p s tte alpha beta ply depth in_chk is_root is_pv cn r :
  nextends rec rec' -> qextends qrec qrec' ->
  nm_probe stopf rec qrec p s tte alpha beta ply depth in_chk is_root is_pv cn = Some r ->
  nm_probe stopf rec' qrec' p s tte alpha beta ply depth in_chk is_root is_pv cn = Some r.
Proof.
  intros Hr Hq H. unfold nm_probe in H |- *. cbv zeta in H |- *.
  match type of H with (if ?c then _ else _) = _ => destruct c end; [exact H|].
  match type of H with (if ?c then _ else _) = _ => destruct c end; [exact H|].
  exact (nm_prune_ext rec rec' qrec qrec' _ _ _ _ _ _ _ _ _ _ _ _ _ Hr Hq H).
Qed.

Lemma nm_body_ext rec rec' qrec qrec' p s alpha beta ply depth cn r :
  nextends rec rec' -> qextends qrec qrec' ->
  nm_body stopf rec qrec p s alpha beta ply depth cn = Some r ->
  nm_body stopf rec' qrec' p s alpha beta ply depth cn = Some r.
Proof.
  intros Hr Hq H. unfold nm_body in H |- *. cbv zeta in H |- *.
  match type of H with match ?x with _ => _ end = _ => destruct x as [tte|]; [|discriminate] end.
  exact (nm_probe_ext rec rec' qrec qrec' _ _ _ _ _ _ _ _ _ _ _ _ Hr Hq H).
Qed.

Lemma negamax_ext : forall f, nextends (negamax stopf f) (negamax stopf (S f)).
Proof.
  induction f as [|f IH]; intros q s a b pl d cn r H; [discriminate|].
  cbn [negamax] in H. remember (S f) as f1 eqn:Ef. cbn [negamax]. subst f1.
  exact (nm_body_ext _ _ _ _ _ _ _ _ _ _ _ _ IH (qsearch_ext f) H).
Qed.

Theorem negamax_fuel_mono : forall f f' p s a b ply d cn r, (f <= f')%nat ->
  negamax stopf f p s a b ply d cn = Some r -> negamax stopf f' p s a b ply d cn = Some r.
Proof.
  intros f f' p s a b ply d cn r Hle. induction Hle as [|f' Hle IH]; intros H; [exact H|].
  exact (negamax_ext f' _ _ _ _ _ _ _ _ (IH H)).
Qed.

Lemma root_loop_fuel_mono f f' : (f <= f')%nat ->
  forall n p depth s best infos r, root_loop stopf n f p depth s best infos = Some r -> root_loop stopf n f' p depth s best infos = Some r.
Proof.
  intros Hle. induction n as [|n IH]; intros p depth s best infos r H; cbn [root_loop] in H |- *; [exact H|].
  destruct (MAX_DEPTH <=? depth); [exact H|]. cbv zeta in H |- *.
  match type of H with match ?x with _ => _ end = _ => destruct x as [[score s1]|] eqn:E; [|discriminate] end.
  rewrite (negamax_fuel_mono f f' _ _ _ _ _ _ _ _ Hle E).
  destruct (st_best (ss_stats s1)) as [bm|]; [|exact H].
  destruct ((1 <? depth) && stopf (ss_stats s1)); [exact H|exact (IH _ _ _ _ _ _ H)].
Qed.

Theorem root_fuel_mono : forall f f' p hist tt r, (f <= f')%nat ->
  root stopf f p hist tt = Some r -> root stopf f' p hist tt = Some r.
Proof.
  intros f f' p hist tt r Hle H. unfold root in H |- *. exact (root_loop_fuel_mono f f' Hle _ _ _ _ _ _ _ H).
Qed.

End Mono.

Print Assumptions qsearch_fuel_mono.
Print Assumptions negamax_fuel_mono.
Print Assumptions root_fuel_mono.

(* ================================================================== F2: the quiescence search terminates *)
Local Open Scope N_scope.

(* a capturing move removes one of their men: the strict version of MenCount.nc_their_count *)
Lemma nc_their_count_strict u p m k : sane p m k -> Inv0 p -> tb p (m_to m) = true \/ mv_is_ep p m = true ->
  popcount (c_us (makemove u p m)) < popcount (c_them p).
Proof.
  intros S I Hcap. pose proof (i0_good p I) as G.
  destruct (g_bb p G) as (B1 & B2 & _). destruct (BB8_R u p m) as (R1 & R2 & _).
  pose proof (sn_to _ _ _ S) as Hto.
  (* the victim's square *)
  assert (Hv : exists v, v < 64 /\ tb p v = true /\ (v = m_to m \/ (mv_is_ep p m = true /\ v = m_to m - 8))).
  { destruct Hcap as [Ht|He].
    - exists (m_to m). split; [exact Hto|split; [exact Ht|left; reflexivity]].
    - destruct (sn_ep _ _ _ S He) as (_ & H8 & (_ & _ & Ht & _)). exists (m_to m - 8). split; [lia|split; [exact Ht|right; split; [exact He|reflexivity]]]. }
  destruct Hv as (v & Hv64 & Htv & Hvc).
  rewrite <- (popcount_bswap (c_them p) B2).
  assert (Hbv : N.testbit (bswap (c_them p)) (flip_sq v) = true).
  { rewrite testbit_bswap. pose proof (flip_sq_lt _ Hv64) as L. apply N.ltb_lt in L. rewrite L. cbn [andb].
    change (flipbit (flip_sq v)) with (flip_sq (flip_sq v)). rewrite flip_sq_invol. exact Htv. }
  rewrite (popcount_clear (bswap (c_them p)) (flip_sq v) (bswap_lt _) (flip_sq_lt _ Hv64) Hbv).
  enough (popcount (c_us (makemove u p m)) <= popcount (N.ldiff (bswap (c_them p)) (bit (flip_sq v)))) by lia.
  apply popcount_mono; [exact R1|apply ldiff_lt, bswap_lt|].
  intros j Hj. pose proof (testbit_lt _ j R1 Hj) as Hj64.
  rewrite N.ldiff_spec, (testbit_bit (flip_sq v) j (flip_sq_lt _ Hv64)), testbit_bswap.
  apply N.ltb_lt in Hj64. rewrite Hj64. cbn [andb]. apply N.ltb_lt in Hj64.
  change (flipbit j) with (flip_sq j). set (a := flip_sq j). assert (Ha : a < 64) by (apply flip_sq_lt; exact Hj64).
  assert (Ej : j = flip_sq a) by (unfold a; rewrite flip_sq_invol; reflexivity).
  change (ub (makemove u p m) j = true) in Hj. rewrite Ej in Hj. change (tb p a && negb (j =? flip_sq v) = true).
  destruct (rview_all u p m k S I a Ha) as [E He|E Hh|Hb E He|N2 Hpe He|t j0 N1 N2 N3 Hh Hr].
  - destruct He as (Hu & _). congruence.
  - destruct Hh as (_ & Hu & _). cbn [negb] in Hu. congruence.
  - destruct He as (Hu & _). congruence.
  - destruct He as (Hu & _). congruence.
  - destruct Hr as (_ & Hu & _). destruct Hh as (_ & _ & Ht & _). rewrite Hu in Hj.
    assert (Hne : a <> v) by (destruct Hvc as [->|(He & ->)]; [exact N2|exact (N3 He)]).
    destruct t; [|discriminate]. rewrite Ht. cbn [andb]. apply negb_true_iff, N.eqb_neq. intros E. apply Hne. unfold a. rewrite E, flip_sq_invol. reflexivity.
Qed.

(* every member of the capture list removes a man: the total number of men strictly decreases *)
Definition men (p : Position) : N := popcount (c_us p) + popcount (c_them p).

Lemma capture_fewer_men u p m : Inv0 p -> In m (legal_captures p) -> men (makemove u p m) < men p.
Proof.
  intros I Hm. pose proof (i0_good p I) as G. pose proof (i0_cg p I) as CG.
  rewrite legal_captures_is_filter in Hm. apply in_map_iff in Hm. destruct Hm as (g & <- & Hg).
  apply filter_In in Hg. destruct Hg as (Hg & Hflag). change (cap_flag p g = true) in Hflag. rewrite flag_shape in Hflag.
  unfold men.
  destruct (generated_move_cases p g G Hg) as [NC|[H|H]].
  - pose proof NC as (S & _).
    assert (Hcap : tb p (m_to (gen_mv g)) = true \/ mv_is_ep p (gen_mv g) = true).
    { destruct (tb p (m_to (gen_mv g))) eqn:Ht; [left; reflexivity|right]. cbn [orb] in Hflag.
      rewrite (nc_ep_clause p g G CG Hg NC Ht) in Hflag. exact Hflag. }
    pose proof (nc_their_count_strict u p (gen_mv g) (gk g) S I Hcap).
    pose proof (nc_our_count u p (gen_mv g) (gk g) S I). lia.
  - exfalso. destruct (castle_block_k p G CG g H) as (S & _).
    assert (Hk : gk g = KING).
    { unfold blk_castle_k in H. destruct (castle_ok _ _ _ _ _ _); [|contradiction]. destruct H as [<-|[]]. reflexivity. }
    destruct (cs_rook _ _ _ S) as (_ & _ & Ht & _). rewrite Ht, Hk in Hflag. discriminate.
  - exfalso. destruct (castle_block_q p G CG g H) as (S & _).
    assert (Hk : gk g = KING).
    { unfold blk_castle_q in H. destruct (castle_ok _ _ _ _ _ _); [|contradiction]. destruct H as [<-|[]]. reflexivity. }
    destruct (cs_rook _ _ _ S) as (_ & _ & Ht & _). rewrite Ht, Hk in Hflag. discriminate.
Qed.

(* stage lemma: the capture loop is defined when the recursive call is defined on every position with fewer men *)
Definition qtotal (qrec : QRec) (n : N) : Prop :=
  forall q st a b pl, Inv16R q -> men q < n -> qrec q st a b pl <> None.

Lemma q_loop_total qrec p beta ply n : qtotal qrec n -> Inv16R p -> men p <= n ->
  forall ms st alpha best, (forall m, In m ms -> In m (legal_captures p)) -> q_loop qrec p beta ply ms st alpha best <> None.
Proof.
  intros Hq Hp Hn. induction ms as [|m ms IH]; intros st alpha best Hms; cbn [q_loop].
  - discriminate.
  - assert (Hc : In m (legal_captures p)) by (apply Hms; left; reflexivity).
    assert (Hm : In m (legal_moves p)) by exact (captures_are_moves p m Hc).
    pose proof (i16_inv p (i16r p Hp)) as I.
    assert (Hq' : Inv16R (makemove false p m)).
    { apply inv16R_step; [exact Hp|exact Hm|]. exact (gen_legal false p m I (i16r_ep p Hp) Hm). }
    pose proof (capture_fewer_men false p m I Hc) as Hlt.
    destruct (qrec (makemove false p m) (bump_nodes st) (- beta)%Z (- alpha)%Z (ply + 1)%Z) as [[v st0]|] eqn:E.
    + cbv zeta. destruct (beta <=? _)%Z; [discriminate|]. apply IH. intros x Hx. apply Hms. right. exact Hx.
    + exfalso. apply (Hq _ _ _ _ _ Hq' ltac:(lia) E).
Qed.

Theorem qsearch_total_men : forall fuel, qtotal (qsearch fuel) (N.of_nat fuel).
Proof.
  induction fuel as [|f IH]; intros q st a b pl Hq Hn; [lia|].
  cbn [qsearch]. cbv zeta. destruct (b <=? eval q)%Z; [discriminate|].
  apply (q_loop_total (qsearch f) q b pl (N.of_nat f) IH Hq ltac:(lia)).
  intros m Hm. apply (Permutation_in _ (sort_q_perm q (legal_captures q))). exact Hm.
Qed.

(* F2: on a position satisfying the invariant, with more fuel than men on the board, the quiescence search is defined *)
Theorem qsearch_total : forall p st a b ply fuel, Inv16R p ->
  popcount (c_us p) + popcount (c_them p) < N.of_nat fuel -> qsearch fuel p st a b ply <> None.
Proof. intros p st a b ply fuel Hp Hn. exact (qsearch_total_men fuel p st a b ply Hp Hn). Qed.

Lemma inv16_men_le p : Inv16 p -> men p <= 32.
Proof. intros [_ Hu Ht]. unfold men, zpop in *. lia. Qed.

Theorem qsearch_total_33 : forall p st a b ply fuel, Inv16R p -> (32 < fuel)%nat -> qsearch fuel p st a b ply <> None.
Proof.
  intros p st a b ply fuel Hp Hf. apply qsearch_total; [exact Hp|]. pose proof (inv16_men_le p (i16r p Hp)) as H. unfold men in H. lia.
Qed.

Print Assumptions qsearch_total.
Print Assumptions qsearch_total_33.

(* ------------------------------------------------------------------ the exact capture-tree value: same two facts *)
Definition qgo (f : nat) (p : Position) :=
  fix go (ms : list Mv) (acc : Z) : option Z :=
    match ms with
    | [] => Some acc
    | m :: ms' => match qvalue f (makemove false p m) with
                  | None => None
                  | Some v => go ms' (Z.max acc (- v))
                  end
    end.
Lemma qvalue_S f p : qvalue (S f) p = qgo f p (legal_captures p) (eval p).
Proof. reflexivity. Qed.

Lemma qvalue_ext : forall f p r, qvalue f p = Some r -> qvalue (S f) p = Some r.
Proof.
  induction f as [|f IH]; intros p r H; [discriminate|].
  rewrite qvalue_S in H. rewrite (qvalue_S (S f)). revert H. generalize (eval p). generalize (legal_captures p).
  induction l as [|m ms IHms]; intros acc H; cbn [qgo] in H |- *; [exact H|].
  destruct (qvalue f (makemove false p m)) as [v|] eqn:E; [|discriminate].
  rewrite (IH _ _ E). exact (IHms _ H).
Qed.

Theorem qvalue_fuel_mono : forall f f' p r, (f <= f')%nat -> qvalue f p = Some r -> qvalue f' p = Some r.
Proof.
  intros f f' p r Hle. induction Hle as [|f' Hle IH]; intros H; [exact H|]. exact (qvalue_ext f' p r (IH H)).
Qed.

Theorem qvalue_total : forall fuel p, Inv16R p -> men p < N.of_nat fuel -> qvalue fuel p <> None.
Proof.
  induction fuel as [|f IH]; intros p Hp Hn; [lia|].
  rewrite qvalue_S. pose proof (i16_inv p (i16r p Hp)) as I.
  assert (Hsub : forall m, In m (legal_captures p) -> In m (legal_captures p)) by (intros m Hm; exact Hm).
  revert Hsub. generalize (eval p). generalize (legal_captures p) at 1 3.
  induction l as [|m ms IHms]; intros acc Hms; cbn [qgo]; [discriminate|].
  assert (Hc : In m (legal_captures p)) by (apply Hms; left; reflexivity).
  assert (Hm : In m (legal_moves p)) by exact (captures_are_moves p m Hc).
  assert (Hq' : Inv16R (makemove false p m)).
  { apply inv16R_step; [exact Hp|exact Hm|]. exact (gen_legal false p m I (i16r_ep p Hp) Hm). }
  pose proof (capture_fewer_men false p m I Hc) as Hlt.
  destruct (qvalue f (makemove false p m)) as [v|] eqn:E.
  - apply IHms. intros x Hx. apply Hms. right. exact Hx.
  - exfalso. apply (IH _ Hq' ltac:(lia) E).
Qed.

(* ------------------------------------------------------------------ C19 without "whenever it returns" *)
Local Open Scope Z_scope.

(* beyond 32 units the fuel is irrelevant *)
Theorem qsearch_fuel_indep : forall f f' p st a b ply, Inv16R p -> (32 < f)%nat -> (32 < f')%nat ->
  qsearch f p st a b ply = qsearch f' p st a b ply.
Proof.
  assert (W : forall f f' p st a b ply, Inv16R p -> (32 < f)%nat -> (f <= f')%nat -> qsearch f p st a b ply = qsearch f' p st a b ply).
  { intros f f' p st a b ply Hp Hf Hle. destruct (qsearch f p st a b ply) as [r|] eqn:E.
    - symmetry. exact (qsearch_fuel_mono f f' p st a b ply r Hle E).
    - exfalso. exact (qsearch_total_33 p st a b ply f Hp Hf E). }
  intros f f' p st a b ply Hp Hf Hf'. destruct (Nat.le_ge_cases f f') as [H|H]; [apply W; assumption|symmetry; apply W; assumption].
Qed.

Theorem qvalue_fuel_indep : forall f f' p, Inv16R p -> (32 < f)%nat -> (32 < f')%nat -> qvalue f p = qvalue f' p.
Proof.
  assert (T : forall f p, Inv16R p -> (32 < f)%nat -> qvalue f p <> None).
  { intros f p Hp Hf. apply qvalue_total; [exact Hp|]. pose proof (inv16_men_le p (i16r p Hp)). lia. }
  assert (W : forall f f' p, Inv16R p -> (32 < f)%nat -> (f <= f')%nat -> qvalue f p = qvalue f' p).
  { intros f f' p Hp Hf Hle. destruct (qvalue f p) as [r|] eqn:E.
    - symmetry. exact (qvalue_fuel_mono f f' p r Hle E).
    - exfalso. exact (T f p Hp Hf E). }
  intros f f' p Hp Hf Hf'. destruct (Nat.le_ge_cases f f') as [H|H]; [apply W; assumption|symmetry; apply W; assumption].
Qed.

(* the value of the capture-only game, with no fuel parameter *)
Definition qval (p : Position) : Z := match qvalue 33 p with Some m => m | None => 0 end.

Lemma qvalue_qval fuel p : Inv16R p -> (32 < fuel)%nat -> qvalue fuel p = Some (qval p).
Proof.
  intros Hp Hf. unfold qval. rewrite (qvalue_fuel_indep fuel 33 p Hp Hf ltac:(lia)).
  destruct (qvalue 33 p) as [m|] eqn:E; [reflexivity|]. exfalso.
  apply (qvalue_total 33 p Hp); [|exact E]. pose proof (inv16_men_le p (i16r p Hp)). lia.
Qed.

(* C19, total form: on a position satisfying the invariant, for every window and every fuel above 32, the quiescence
   search returns, and its result is exact inside the window, an upper bound at or below alpha, a lower bound at or above beta *)
Theorem qsearch_sound_total : forall fuel p st alpha beta ply, Inv16R p -> (32 < fuel)%nat -> alpha < beta ->
  exists v st', qsearch fuel p st alpha beta ply = Some (v, st') /\
    (alpha < v < beta -> v = qval p) /\ (v <= alpha -> qval p <= v) /\ (beta <= v -> v <= qval p).
Proof.
  intros fuel p st a b ply Hp Hf Hab.
  destruct (qsearch fuel p st a b ply) as [[v st']|] eqn:E; [|exfalso; exact (qsearch_total_33 p st a b ply fuel Hp Hf E)].
  exists v, st'. split; [reflexivity|].
  exact (qsearch_sound fuel p st a b ply v st' (qval p) Hab E (qvalue_qval fuel p Hp Hf)).
Qed.

Theorem qsearch_full_window_total : forall fuel p st ply, Inv16R p -> (32 < fuel)%nat -> - QINF < qval p < QINF ->
  exists st', qsearch fuel p st (- QINF) QINF ply = Some (qval p, st').
Proof.
  intros fuel p st ply Hp Hf Hr.
  destruct (qsearch fuel p st (- QINF) QINF ply) as [[v st']|] eqn:E; [|exfalso; exact (qsearch_total_33 p st _ _ ply fuel Hp Hf E)].
  exists st'. rewrite (qsearch_full_window_exact fuel p st ply v st' (qval p) E (qvalue_qval fuel p Hp Hf) Hr). reflexivity.
Qed.

Print Assumptions qvalue_fuel_mono.
Print Assumptions qvalue_total.
Print Assumptions qsearch_fuel_indep.
Print Assumptions qsearch_sound_total.
Print Assumptions qsearch_full_window_total.

(* F3, the contraposed form of F1: an undefined result stays undefined on less fuel *)
Corollary negamax_none_down stopf : forall f f' p s a b ply d cn, (f' <= f)%nat ->
  negamax stopf f p s a b ply d cn = None -> negamax stopf f' p s a b ply d cn = None.
Proof.
  intros f f' p s a b ply d cn Hle H. destruct (negamax stopf f' p s a b ply d cn) as [r|] eqn:E; [|reflexivity].
  rewrite (negamax_fuel_mono stopf f' f p s a b ply d cn r Hle E) in H. discriminate.
Qed.

Corollary root_none_down stopf : forall f f' p hist tt, (f' <= f)%nat ->
  root stopf f p hist tt = None -> root stopf f' p hist tt = None.
Proof.
  intros f f' p hist tt Hle H. destruct (root stopf f' p hist tt) as [r|] eqn:E; [|reflexivity].
  rewrite (root_fuel_mono stopf f' f p hist tt r Hle E) in H. discriminate.
Qed.
