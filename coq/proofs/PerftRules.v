(* C08: the engine's perft counts the leaves of the RULES' legal move tree (spec/Rules.v, `leaves`).

   Part 1 (the rules list no move twice): `pseudo_moves s` is duplicate-free for EVERY state s (no hypothesis on the
   board at all), hence so is `legal s`.  Pure list/integer reasoning on spec/Rules.v, no bitboards.
   Part 2 (counting): the generated moves, decoded, are a permutation of the rules' legal moves (MovegenComplete,
   MovegenSound, the generator's NoDup, part 1); sums over permuted lists agree; the invariant (Inv0, ep_ok_b) is kept
   by every generated move; `makemove` refines `apply` (GenSane.legal_moves_refine); the bulk counter at depth 1 is the
   length of the generated list (CountFacts). *)
From Coq Require Import NArith ZArith List Bool Lia Permutation.
From Rawr Require Import Consts Bits Magic Position MoveGen MakeMove MakeStages Rules Abs
                         GenSane GenNoDup Closure EpRetro GenLegal LegalBridge MovegenSound MovegenComplete CountFacts.
Import ListNotations.
Local Open Scope Z_scope.

(* ================================================================== generic list facts *)
Lemma NoDup_app_disj {A} (l1 l2 : list A) :
  NoDup l1 -> NoDup l2 -> (forall x, In x l1 -> In x l2 -> False) -> NoDup (l1 ++ l2).
Proof.
  induction l1 as [|a l1 IH]; intros H1 H2 Hd; [exact H2|].
  inversion H1 as [|? ? Ha Hl]; subst. cbn [app]. constructor.
  - rewrite in_app_iff. intros [H|H]; [exact (Ha H)|]. exact (Hd a (or_introl eq_refl) H).
  - apply IH; [exact Hl|exact H2|]. intros x Hx Hx'. exact (Hd x (or_intror Hx) Hx').
Qed.

Lemma NoDup_flat_map_disj {A B} (g : A -> list B) (l : list A) :
  NoDup l -> (forall x, In x l -> NoDup (g x)) ->
  (forall x y z, In x l -> In y l -> In z (g x) -> In z (g y) -> x = y) ->
  NoDup (flat_map g l).
Proof.
  induction 1 as [|a l Ha Hl IH]; intros Hg Hd; cbn [flat_map]; [constructor|].
  apply NoDup_app_disj.
  - apply Hg. left. reflexivity.
  - apply IH.
    + intros x Hx. apply Hg. right. exact Hx.
    + intros x y z Hx Hy. apply Hd; right; assumption.
  - intros z Hz Hz'. apply in_flat_map in Hz'. destruct Hz' as (y & Hy & Hzy).
    assert (E : a = y) by (apply (Hd a y z); [left; reflexivity|right; exact Hy|exact Hz|exact Hzy]).
    subst y. exact (Ha Hy).
Qed.

Lemma NoDup_map_on {A B} (f : A -> B) (l : list A) :
  NoDup l -> (forall x y, In x l -> In y l -> f x = f y -> x = y) -> NoDup (map f l).
Proof.
  induction 1 as [|a l Ha Hl IH]; intros Hinj; cbn [map]; constructor.
  - intros H. apply in_map_iff in H. destruct H as (y & E & Hy).
    assert (y = a) by (apply Hinj; [right; exact Hy|left; reflexivity|exact E]). subst y. exact (Ha Hy).
  - apply IH. intros x y Hx Hy. apply Hinj; right; assumption.
Qed.

Lemma NoDup_if_nil {A} (c : bool) (l : list A) : NoDup l -> NoDup (if c then l else []).
Proof. intros H. destruct c; [exact H|constructor]. Qed.

Lemma NoDup_single {A} (x : A) : NoDup [x].
Proof. constructor; [intros []|constructor]. Qed.

(* ================================================================== part 1: the rules list no move twice *)
Section RulesNoDup.

(* ---- sliders *)
Lemma slide_in n : forall b c f0 r0 f r df dr m, In m (slide n b c f0 r0 f r df dr) ->
  mf m = f0 /\ mr m = r0 /\
  exists k, 1 <= k <= Z.of_nat n /\ tf m = f + k * df /\ tr m = r + k * dr.
Proof.
  induction n as [|n IH]; intros b c f0 r0 f r df dr m H; [destruct H|].
  cbn [slide] in H. cbv zeta in H.
  destruct (onb (f + df) (r + dr)); [|destruct H].
  destruct (at_ b (f + df) (r + dr)) as [[c' k']|].
  - destruct (colour_eqb c c'); [destruct H|]. destruct H as [<-|[]]. cbn [mf mr tf tr].
    split; [reflexivity|split; [reflexivity|]]. exists 1. lia.
  - destruct H as [<-|H].
    + cbn [mf mr tf tr]. split; [reflexivity|split; [reflexivity|]]. exists 1. lia.
    + apply IH in H. destruct H as (H1 & H2 & k & Hk & Ht & Hr).
      split; [exact H1|split; [exact H2|]]. exists (k + 1). rewrite Ht, Hr. lia.
Qed.

Lemma slide_nodup n : forall b c f0 r0 f r df dr, (df <> 0 \/ dr <> 0) -> NoDup (slide n b c f0 r0 f r df dr).
Proof.
  induction n as [|n IH]; intros b c f0 r0 f r df dr Hd; [constructor|].
  cbn [slide]. cbv zeta.
  destruct (onb (f + df) (r + dr)); [|constructor].
  destruct (at_ b (f + df) (r + dr)) as [[c' k']|].
  - destruct (colour_eqb c c'); [constructor|apply NoDup_single].
  - constructor; [|apply IH; exact Hd].
    intros H. apply slide_in in H. destruct H as (_ & _ & k & Hk & Ht & Hr). cbn [tf tr] in Ht, Hr.
    assert (k * df = 0) by lia. assert (k * dr = 0) by lia. nia.
Qed.

Definition all_d : list (Z * Z) := diag_d ++ orth_d.

Lemma all_d_nz d : In d all_d -> fst d <> 0 \/ snd d <> 0.
Proof.
  unfold all_d, diag_d, orth_d. cbn [app In].
  intros H. repeat (destruct H as [<-|H]; [cbn [fst snd]; lia|]). destruct H.
Qed.

Lemma all_d_sep d d' k k' : In d all_d -> In d' all_d -> 1 <= k <= 7 -> 1 <= k' <= 7 ->
  k * fst d = k' * fst d' -> k * snd d = k' * snd d' -> d = d'.
Proof.
  unfold all_d, diag_d, orth_d. cbn [app In]. intros H H' Hk Hk'.
  repeat (destruct H as [<-|H]; [|]); try (destruct H);
  (repeat (destruct H' as [<-|H']; [|]); try (destruct H'));
  cbn [fst snd]; intros E1 E2; first [reflexivity|exfalso; lia].
Qed.

Lemma slides_nodup b c f r ds : NoDup ds -> incl ds all_d ->
  NoDup (flat_map (fun d => slide 7 b c f r f r (fst d) (snd d)) ds).
Proof.
  intros Hn Hi. apply NoDup_flat_map_disj.
  - exact Hn.
  - intros d Hd. apply slide_nodup. apply all_d_nz. apply Hi. exact Hd.
  - intros d d' z Hd Hd' Hz Hz'.
    apply slide_in in Hz. destruct Hz as (_ & _ & k & Hk & Ht & Hr).
    apply slide_in in Hz'. destruct Hz' as (_ & _ & k' & Hk' & Ht' & Hr').
    change (Z.of_nat 7) with 7 in Hk, Hk'.
    apply (all_d_sep d d' k k' (Hi d Hd) (Hi d' Hd') Hk Hk'); lia.
Qed.

Lemma slides_origin b c f r ds z : In z (flat_map (fun d => slide 7 b c f r f r (fst d) (snd d)) ds) ->
  mf z = f /\ mr z = r.
Proof.
  intros H. apply in_flat_map in H. destruct H as (d & _ & H). apply slide_in in H.
  destruct H as (H1 & H2 & _). split; assumption.
Qed.

Lemma pair_neq (a b c d : Z) : (a, b) = (c, d) -> a = c /\ b = d.
Proof. intros H. split; [exact (f_equal fst H)|exact (f_equal snd H)]. Qed.

Lemma diag_nodup : NoDup diag_d.
Proof.
  unfold diag_d. repeat constructor; cbn [In]; intros H;
  repeat (destruct H as [H|H]; [apply pair_neq in H; lia|]); exact H.
Qed.
Lemma orth_nodup : NoDup orth_d.
Proof.
  unfold orth_d. repeat constructor; cbn [In]; intros H;
  repeat (destruct H as [H|H]; [apply pair_neq in H; lia|]); exact H.
Qed.
Lemma all_d_nodup : NoDup all_d.
Proof.
  unfold all_d, diag_d, orth_d. cbn [app]. repeat constructor; cbn [In]; intros H;
  repeat (destruct H as [H|H]; [apply pair_neq in H; lia|]); exact H.
Qed.
Lemma knight_nodup : NoDup knight_d.
Proof.
  unfold knight_d. repeat constructor; cbn [In]; intros H;
  repeat (destruct H as [H|H]; [apply pair_neq in H; lia|]); exact H.
Qed.
Lemma king_nodup : NoDup king_d.
Proof.
  unfold king_d. repeat constructor; cbn [In]; intros H;
  repeat (destruct H as [H|H]; [apply pair_neq in H; lia|]); exact H.
Qed.

(* ---- leapers *)
Lemma step_in b c f r ds m : In m (step_moves b c f r ds) ->
  exists d, In d ds /\ m = mkM f r (f + fst d) (r + snd d) None
            /\ is_col c (at_ b (f + fst d) (r + snd d)) = false.
Proof.
  unfold step_moves. intros H. apply in_flat_map in H. destruct H as (d & Hd & H). cbv zeta in H.
  exists d. split; [exact Hd|].
  destruct (onb (f + fst d) (r + snd d)); [|destruct H].
  destruct (is_col c (at_ b (f + fst d) (r + snd d))); [destruct H|].
  cbn [negb andb] in H. destruct H as [<-|[]]. split; reflexivity.
Qed.

Lemma step_nodup b c f r ds : NoDup ds -> NoDup (step_moves b c f r ds).
Proof.
  intros Hn. unfold step_moves. apply NoDup_flat_map_disj.
  - exact Hn.
  - intros d _. cbv zeta. apply NoDup_if_nil. apply NoDup_single.
  - intros d d' z _ _ Hz Hz'. cbv zeta in Hz, Hz'.
    destruct (onb (f + fst d) (r + snd d) && negb (is_col c (at_ b (f + fst d) (r + snd d)))); [|destruct Hz].
    destruct (onb (f + fst d') (r + snd d') && negb (is_col c (at_ b (f + fst d') (r + snd d')))); [|destruct Hz'].
    destruct Hz as [<-|[]]. destruct Hz' as [E|[]].
    pose proof (f_equal tf E) as E1. pose proof (f_equal tr E) as E2. cbn [tf tr] in E1, E2.
    destruct d as (a, b0). destruct d' as (a', b'). cbn [fst snd] in E1, E2.
    f_equal; lia.
Qed.

Lemma step_origin b c f r ds z : In z (step_moves b c f r ds) -> mf z = f /\ mr z = r.
Proof. intros H. apply step_in in H. destruct H as (d & _ & -> & _). split; reflexivity. Qed.

(* ---- pawns *)
Lemma with_promo_in c m x : In x (with_promo c m) ->
  mf x = mf m /\ mr x = mr m /\ tf x = tf m /\ tr x = tr m.
Proof.
  unfold with_promo. destruct (tr m =? home (opp c)).
  - cbn [map In]. intros H. repeat (destruct H as [<-|H]; [cbn [mf mr tf tr]; repeat split; reflexivity|]). destruct H.
  - intros [<-|[]]. repeat split; reflexivity.
Qed.

Lemma with_promo_nodup c m : NoDup (with_promo c m).
Proof.
  unfold with_promo. destruct (tr m =? home (opp c)); [|apply NoDup_single].
  cbn [map]. repeat constructor; cbn [In]; intros H;
  repeat (destruct H as [H|H]; [discriminate H|]); exact H.
Qed.

Definition pdir (s : sstate) : Z := match s_turn s with White => 1 | Black => -1 end.
Definition p_one (s : sstate) (f r : Z) : list smove :=
  if onb f (r + pdir s) && is_empty (at_ (s_board s) f (r + pdir s))
  then with_promo (s_turn s) (mkM f r f (r + pdir s) None) else [].
Definition p_two (s : sstate) (f r : Z) : list smove :=
  if (r =? match s_turn s with White => 1 | Black => 6 end)
     && is_empty (at_ (s_board s) f (r + pdir s)) && is_empty (at_ (s_board s) f (r + 2 * pdir s))
  then [mkM f r f (r + 2 * pdir s) None] else [].
Definition p_cap (s : sstate) (f r df : Z) : list smove :=
  let f' := f + df in let r' := r + pdir s in
  if onb f' r' then
    if is_col (opp (s_turn s)) (at_ (s_board s) f' r') then with_promo (s_turn s) (mkM f r f' r' None)
    else match s_ep s with
         | Some (ef, er) => if (ef =? f') && (er =? r') && is_empty (at_ (s_board s) f' r') then [mkM f r f' r' None] else []
         | None => []
         end
  else [].

Lemma pawn_moves_parts s f r :
  pawn_moves s f r = p_one s f r ++ p_two s f r ++ p_cap s f r 1 ++ p_cap s f r (-1).
Proof. reflexivity. Qed.

Lemma pdir_cases s : pdir s = 1 \/ pdir s = -1.
Proof. unfold pdir. destruct (s_turn s); [left|right]; reflexivity. Qed.

Definition from_to (x : smove) (f r f' r' : Z) : Prop := mf x = f /\ mr x = r /\ tf x = f' /\ tr x = r'.

Lemma p_one_in s f r x : In x (p_one s f r) -> from_to x f r f (r + pdir s).
Proof.
  unfold p_one. destruct (onb f (r + pdir s) && is_empty (at_ (s_board s) f (r + pdir s))); [|intros []].
  intros H. apply with_promo_in in H. exact H.
Qed.
Lemma p_two_in s f r x : In x (p_two s f r) -> from_to x f r f (r + 2 * pdir s).
Proof.
  unfold p_two.
  destruct ((r =? match s_turn s with White => 1 | Black => 6 end)
     && is_empty (at_ (s_board s) f (r + pdir s)) && is_empty (at_ (s_board s) f (r + 2 * pdir s))); [|intros []].
  intros [<-|[]]. repeat split; reflexivity.
Qed.
Lemma p_cap_in s f r df x : In x (p_cap s f r df) -> from_to x f r (f + df) (r + pdir s).
Proof.
  unfold p_cap. cbv zeta. destruct (onb (f + df) (r + pdir s)); [|intros []].
  destruct (is_col (opp (s_turn s)) (at_ (s_board s) (f + df) (r + pdir s))).
  - intros H. apply with_promo_in in H. exact H.
  - destruct (s_ep s) as [[ef er]|]; [|intros []].
    destruct ((ef =? f + df) && (er =? r + pdir s) && is_empty (at_ (s_board s) (f + df) (r + pdir s))); [|intros []].
    intros [<-|[]]. repeat split; reflexivity.
Qed.

Lemma p_one_nodup s f r : NoDup (p_one s f r).
Proof. unfold p_one. apply NoDup_if_nil. apply with_promo_nodup. Qed.
Lemma p_two_nodup s f r : NoDup (p_two s f r).
Proof. unfold p_two. apply NoDup_if_nil. apply NoDup_single. Qed.
Lemma p_cap_nodup s f r df : NoDup (p_cap s f r df).
Proof.
  unfold p_cap. cbv zeta. apply NoDup_if_nil.
  destruct (is_col (opp (s_turn s)) (at_ (s_board s) (f + df) (r + pdir s))); [apply with_promo_nodup|].
  destruct (s_ep s) as [[ef er]|]; [|constructor]. apply NoDup_if_nil. apply NoDup_single.
Qed.

Lemma pawn_nodup s f r : NoDup (pawn_moves s f r).
Proof.
  rewrite pawn_moves_parts. pose proof (pdir_cases s) as Hd.
  apply NoDup_app_disj; [apply p_one_nodup| |].
  - apply NoDup_app_disj; [apply p_two_nodup| |].
    + apply NoDup_app_disj; [apply p_cap_nodup|apply p_cap_nodup|].
      intros x H1 H2. apply p_cap_in in H1. apply p_cap_in in H2. unfold from_to in *. lia.
    + intros x H1 H2. apply p_two_in in H1. apply in_app_or in H2.
      destruct H2 as [H2|H2]; apply p_cap_in in H2; unfold from_to in *; lia.
  - intros x H1 H2. apply p_one_in in H1. apply in_app_or in H2. destruct H2 as [H2|H2].
    + apply p_two_in in H2. unfold from_to in *. lia.
    + apply in_app_or in H2. destruct H2 as [H2|H2]; apply p_cap_in in H2; unfold from_to in *; lia.
Qed.

Lemma pawn_origin s f r z : In z (pawn_moves s f r) -> mf z = f /\ mr z = r.
Proof.
  rewrite pawn_moves_parts. intros H.
  apply in_app_or in H. destruct H as [H|H]; [apply p_one_in in H; unfold from_to in H; tauto|].
  apply in_app_or in H. destruct H as [H|H]; [apply p_two_in in H; unfold from_to in H; tauto|].
  apply in_app_or in H. destruct H as [H|H]; apply p_cap_in in H; unfold from_to in H; tauto.
Qed.

(* ---- castling *)
Lemma castle_in s kf right kside m : In m (castle_moves s kf right kside) ->
  exists rf, m = mkM kf (home (s_turn s)) rf (home (s_turn s)) None
             /\ is_man (s_turn s) Rook (at_ (s_board s) rf (home (s_turn s))) = true
             /\ (if kside then kf <? rf else rf <? kf) = true.
Proof.
  unfold castle_moves. destruct right as [rf|]; [|intros []]. cbv zeta.
  match goal with |- In _ (if ?c then _ else _) -> _ => destruct c eqn:E end; [|intros []].
  intros [<-|[]]. exists rf.
  apply andb_prop in E. destruct E as (E & _). apply andb_prop in E. destruct E as (E & _).
  apply andb_prop in E. destruct E as (E1 & E2).
  split; [reflexivity|split; [exact E1|exact E2]].
Qed.

Lemma castle_nodup s kf right kside : NoDup (castle_moves s kf right kside).
Proof.
  unfold castle_moves. destruct right as [rf|]; [|constructor]. cbv zeta.
  apply NoDup_if_nil. apply NoDup_single.
Qed.

Lemma is_man_col c k o : is_man c k o = true -> is_col c o = true.
Proof.
  destruct o as [[c' k']|]; cbn [is_man is_col]; [|discriminate].
  intros H. apply andb_prop in H. exact (proj1 H).
Qed.

Definition king_list (s : sstate) (f r : Z) : list smove :=
  step_moves (s_board s) (s_turn s) f r king_d
  ++ (if r =? home (s_turn s)
      then castle_moves s f (kright s (s_turn s)) true ++ castle_moves s f (qright s (s_turn s)) false else []).

Lemma king_list_nodup s f r : NoDup (king_list s f r).
Proof.
  unfold king_list. apply NoDup_app_disj.
  - apply step_nodup. exact king_nodup.
  - apply NoDup_if_nil. apply NoDup_app_disj; [apply castle_nodup|apply castle_nodup|].
    intros x H1 H2. apply castle_in in H1. apply castle_in in H2.
    destruct H1 as (rf & -> & _ & L1). destruct H2 as (rf' & E & _ & L2).
    pose proof (f_equal tf E) as E1. cbn [tf] in E1. lia.
  - intros x H1 H2. destruct (r =? home (s_turn s)) eqn:Er; [|destruct H2].
    apply Z.eqb_eq in Er.
    apply step_in in H1. destruct H1 as (d & _ & -> & Hc).
    apply in_app_or in H2. destruct H2 as [H2|H2]; apply castle_in in H2; destruct H2 as (rf & E & Hm & _);
    pose proof (f_equal tf E) as E1; pose proof (f_equal tr E) as E2; cbn [tf tr] in E1, E2;
    rewrite E1, E2 in Hc; apply is_man_col in Hm; rewrite Hm in Hc; discriminate Hc.
Qed.

Lemma king_list_origin s f r z : In z (king_list s f r) -> mf z = f /\ mr z = r.
Proof.
  unfold king_list. intros H. apply in_app_or in H. destruct H as [H|H]; [exact (step_origin _ _ _ _ _ _ H)|].
  destruct (r =? home (s_turn s)) eqn:Er; [|destruct H]. apply Z.eqb_eq in Er.
  apply in_app_or in H. destruct H as [H|H]; apply castle_in in H; destruct H as (rf & -> & _);
  cbn [mf mr]; split; [reflexivity|symmetry; exact Er|reflexivity|symmetry; exact Er].
Qed.

(* ---- the squares *)
Lemma files_nodup : NoDup [0; 1; 2; 3; 4; 5; 6; 7].
Proof. repeat constructor; cbn [In]; lia. Qed.

Lemma all_squares_nodup : NoDup all_squares.
Proof.
  unfold all_squares. apply NoDup_flat_map_disj.
  - exact files_nodup.
  - intros r _. apply NoDup_map_on; [exact files_nodup|]. intros x y _ _ E. exact (f_equal fst E).
  - intros r r' z _ _ Hz Hz'. apply in_map_iff in Hz. apply in_map_iff in Hz'.
    destruct Hz as (x & <- & _). destruct Hz' as (y & E & _). exact (eq_sym (f_equal snd E)).
Qed.

(* the list of moves of the man on one square *)
Definition moves_from (s : sstate) (sq : Z * Z) : list smove :=
  let b := s_board s in
  let c := s_turn s in
  let f := fst sq in let r := snd sq in
  match at_ b f r with
  | Some (c', k) =>
    if colour_eqb c c' then
      match k with
      | Pawn => pawn_moves s f r
      | Knight => step_moves b c f r knight_d
      | Bishop => flat_map (fun d => slide 7 b c f r f r (fst d) (snd d)) diag_d
      | Rook => flat_map (fun d => slide 7 b c f r f r (fst d) (snd d)) orth_d
      | Queen => flat_map (fun d => slide 7 b c f r f r (fst d) (snd d)) (diag_d ++ orth_d)
      | King => king_list s f r
      end
    else []
  | None => []
  end.

Lemma pseudo_moves_from s : pseudo_moves s = flat_map (moves_from s) all_squares.
Proof. reflexivity. Qed.

Lemma moves_from_nodup s sq : NoDup (moves_from s sq).
Proof.
  unfold moves_from. cbv zeta.
  destruct (at_ (s_board s) (fst sq) (snd sq)) as [[c' k]|]; [|constructor].
  destruct (colour_eqb (s_turn s) c'); [|constructor].
  destruct k.
  - apply pawn_nodup.
  - apply step_nodup. exact knight_nodup.
  - apply slides_nodup; [exact diag_nodup|]. intros d Hd. unfold all_d. apply in_or_app. left. exact Hd.
  - apply slides_nodup; [exact orth_nodup|]. intros d Hd. unfold all_d. apply in_or_app. right. exact Hd.
  - apply slides_nodup; [exact all_d_nodup|]. intros d Hd. exact Hd.
  - apply king_list_nodup.
Qed.

Lemma moves_from_origin s sq z : In z (moves_from s sq) -> mf z = fst sq /\ mr z = snd sq.
Proof.
  unfold moves_from. cbv zeta.
  destruct (at_ (s_board s) (fst sq) (snd sq)) as [[c' k]|]; [|intros []].
  destruct (colour_eqb (s_turn s) c'); [|intros []].
  destruct k.
  - apply pawn_origin.
  - apply step_origin.
  - apply slides_origin.
  - apply slides_origin.
  - apply slides_origin.
  - apply king_list_origin.
Qed.

(* the rules never list a pseudo-legal move twice, on any state whatsoever *)
Theorem pseudo_nodup s : NoDup (pseudo_moves s).
Proof.
  rewrite pseudo_moves_from. apply NoDup_flat_map_disj.
  - exact all_squares_nodup.
  - intros sq _. apply moves_from_nodup.
  - intros sq sq' z _ _ Hz Hz'. apply moves_from_origin in Hz. apply moves_from_origin in Hz'.
    destruct Hz as (A1 & A2). destruct Hz' as (B1 & B2).
    destruct sq as (a, b). destruct sq' as (a', b'). cbn [fst snd] in *. f_equal; congruence.
Qed.

Theorem legal_nodup s : NoDup (legal s).
Proof. unfold legal. apply NoDup_filter. apply pseudo_nodup. Qed.

End RulesNoDup.

(* ================================================================== part 2: counting *)
Section Sums.

Lemma foldZ_shift {A} (f : A -> Z) (l : list A) : forall a,
  fold_left (fun acc x => acc + f x) l a = a + fold_left (fun acc x => acc + f x) l 0.
Proof.
  induction l as [|x l IH]; intros a; cbn [fold_left]; [lia|].
  rewrite (IH (a + f x)), (IH (0 + f x)). lia.
Qed.

Lemma foldZ_perm {A} (f : A -> Z) (l l' : list A) : Permutation l l' ->
  fold_left (fun acc x => acc + f x) l 0 = fold_left (fun acc x => acc + f x) l' 0.
Proof.
  induction 1 as [|x l l' _ IH|x y l|l l' l'' _ IH1 _ IH2]; cbn [fold_left].
  - reflexivity.
  - rewrite (foldZ_shift f l), (foldZ_shift f l'), IH. reflexivity.
  - rewrite (foldZ_shift f l (0 + f y + f x)), (foldZ_shift f l (0 + f x + f y)). lia.
  - rewrite IH1. exact IH2.
Qed.

Lemma foldZ_map {A B} (g : A -> B) (f : B -> Z) (l : list A) : forall a,
  fold_left (fun acc x => acc + f x) (map g l) a = fold_left (fun acc x => acc + f (g x)) l a.
Proof. induction l as [|x l IH]; intros a; cbn [map fold_left]; [reflexivity|apply IH]. Qed.

Lemma foldZ_ext {A} (f g : A -> Z) (l : list A) : (forall x, In x l -> f x = g x) -> forall a,
  fold_left (fun acc x => acc + f x) l a = fold_left (fun acc x => acc + g x) l a.
Proof.
  induction l as [|x l IH]; intros H a; cbn [fold_left]; [reflexivity|].
  rewrite (H x (or_introl eq_refl)). apply IH. intros y Hy. apply H. right. exact Hy.
Qed.

Lemma foldN_Z {A} (f : A -> N) (l : list A) : forall a,
  Z.of_N (fold_left (fun acc x => (acc + f x)%N) l a) = fold_left (fun acc x => acc + Z.of_N (f x)) l (Z.of_N a).
Proof.
  induction l as [|x l IH]; intros a; cbn [fold_left]; [reflexivity|].
  rewrite IH, N2Z.inj_add. reflexivity.
Qed.

Lemma foldN_length {A} (l : list A) : forall a,
  fold_left (fun acc (_ : A) => (acc + 1)%N) l a = (a + N.of_nat (length l))%N.
Proof.
  induction l as [|x l IH]; intros a; cbn [fold_left length]; [lia|]. rewrite IH. lia.
Qed.

End Sums.

(* perft by plain recursion: the bulk counter at depth 1 is the same as recursing to depth 0 *)
Lemma perft_succ d p :
  perft (S d) p = fold_left (fun acc m => (acc + perft d (makemove false p m))%N) (legal_moves p) 0%N.
Proof.
  destruct d as [|d]; [|reflexivity].
  change (perft 1 p) with (count_moves p). rewrite count_moves_is_number_of_legal_moves.
  change (fun acc m => (acc + perft 0 (makemove false p m))%N) with (fun acc (_ : Mv) => (acc + 1)%N).
  rewrite foldN_length. lia.
Qed.

(* every generated move, decoded, is a legal move of the rules *)
Lemma dec_legal p m : Inv0 p -> ep_ok_b p = true -> In m (legal_moves p) -> In (dec p m) (legal (abs_state p)).
Proof.
  intros I He Hm. unfold legal. apply filter_In. split.
  - exact (generated_pseudo p m I Hm).
  - rewrite (check_filter_bridge false p m I Hm (gen_legal false p m I He Hm)). reflexivity.
Qed.

(* the generated moves, decoded, are the rules' legal moves up to order *)
Theorem decoded_moves_perm p : Inv0 p -> ep_ok_b p = true -> NoDup (legal (abs_state p)) ->
  Permutation (map (dec p) (legal_moves p)) (legal (abs_state p)).
Proof.
  intros I He Hn. pose proof (i0_good p I) as G. pose proof (i0_cg p I) as CG.
  apply NoDup_Permutation.
  - apply NoDup_map_on; [exact (legal_moves_NoDup p G CG)|].
    intros x y Hx Hy E. rewrite <- (enc_dec_generated p x G CG Hx), <- (enc_dec_generated p y G CG Hy), E. reflexivity.
  - exact Hn.
  - intros sm. split.
    + intros H. apply in_map_iff in H. destruct H as (m & <- & Hm). exact (dec_legal p m I He Hm).
    + intros H. destruct (legal_generated p sm I He H) as (m & Hm & <-). apply in_map. exact Hm.
Qed.

(* the invariant pair is kept by every generated move *)
Lemma inv_pair_step p m : Inv0 p -> ep_ok_b p = true -> In m (legal_moves p) ->
  Inv0 (makemove false p m) /\ ep_ok_b (makemove false p m) = true.
Proof.
  intros I He Hm. split.
  - exact (inv0_step false p m I Hm (gen_legal false p m I He Hm)).
  - exact (ep_ok_step false p m I Hm).
Qed.

Theorem perft_is_rules_leaves_if d : forall p,
  (forall q, Inv0 q -> ep_ok_b q = true -> NoDup (legal (abs_state q))) ->
  Inv0 p -> ep_ok_b p = true -> Z.of_N (perft d p) = leaves d (abs_state p).
Proof.
  induction d as [|d IH]; intros p HN I He; [reflexivity|].
  rewrite perft_succ. rewrite foldN_Z. change (Z.of_N 0) with 0.
  change (leaves (S d) (abs_state p))
    with (fold_left (fun acc sm => acc + leaves d (apply (abs_state p) sm)) (legal (abs_state p)) 0).
  rewrite <- (foldZ_perm _ _ _ (decoded_moves_perm p I He (HN p I He))).
  rewrite foldZ_map. apply foldZ_ext. intros m Hm.
  destruct (inv_pair_step p m I He Hm) as (I' & He').
  rewrite (IH (makemove false p m) HN I' He').
  rewrite (legal_moves_refine false p m (i0_good p I) (i0_cg p I) Hm). reflexivity.
Qed.

(* C08: perft = the number of leaves of the rules' legal move tree *)
Theorem perft_is_rules_leaves d p : Inv0 p -> ep_ok_b p = true -> Z.of_N (perft d p) = leaves d (abs_state p).
Proof. apply perft_is_rules_leaves_if. intros q _ _. apply legal_nodup. Qed.

(* depth 1: the bulk counter counts the rules' legal moves *)
Corollary count_moves_is_rules_count p : Inv0 p -> ep_ok_b p = true ->
  count_moves p = N.of_nat (length (legal (abs_state p))).
Proof.
  intros I He. rewrite count_moves_is_number_of_legal_moves. f_equal.
  rewrite <- (map_length (dec p)). apply Permutation_length. apply decoded_moves_perm; [exact I|exact He|apply legal_nodup].
Qed.

Print Assumptions pseudo_nodup.
Print Assumptions legal_nodup.
Print Assumptions decoded_moves_perm.
Print Assumptions perft_is_rules_leaves_if.
Print Assumptions perft_is_rules_leaves.
Print Assumptions count_moves_is_rules_count.
