(* C01 (completeness direction of the comparison, castling): with White to move the two castling moves of the generator
   are pseudo-legal by the rules (Rules.castle_moves), and conversely a castling move of the rules satisfies every
   conjunct of the generator's castle_ok except the pin test. *)
From Coq Require Import NArith ZArith List Bool Lia ZifyN ZifyBool.
From Rawr Require Import Consts Bits Magic Position MoveGen MakeMove MakeStages Rules Abs
                         BitsFacts ShiftFacts FlipFacts AbsFacts LsbFacts HashFacts MakeFacts MakeAbs CastleFacts CastleAbs KeyAbs KeyMove
                         AttackFacts AttackAbs AttackSets RayFacts GenSane GenNoDup Closure EpRetro LegalBase PinFacts PseudoBase LegalCastle.
Import ListNotations.
Local Open Scope N_scope.
Ltac Zify.zify_post_hook ::= Z.div_mod_to_equations.

(* ------------------------------------------------------------------ 1. gi_in_check is the attack query on the king's square *)
Lemma proj_let (X : N * N) (f : N -> N -> GenInfo) :
  gi_in_check (let '(a, b) := X in f a b) = gi_in_check (f (fst X) (snd X)).
Proof. destruct X; reflexivity. Qed.

Lemma gi_in_check_eq p : gi_in_check (gen_info p) = is_occ (g_all p).
Proof.
  unfold gen_info. rewrite !proj_let. cbv beta zeta. cbn [gi_in_check].
  unfold g_all, g_patt, g_natt, g_batt, g_ratt, g_brays, g_rrays, g_kray, g_kbb.
  change (g_chk p (fst e_ne)) with (g_bq p). change (g_chk p (fst e_sw)) with (g_bq p).
  change (g_chk p (fst e_nw)) with (g_bq p). change (g_chk p (fst e_se)) with (g_bq p).
  change (g_chk p (fst e_n)) with (g_rq p). change (g_chk p (fst e_s)) with (g_rq p).
  change (g_chk p (fst e_e)) with (g_rq p). change (g_chk p (fst e_w)) with (g_rq p).
  cbn [snd e_ne e_sw e_nw e_se e_n e_s e_e e_w]. unfold g_k, g_bq, g_rq.
  reflexivity.
Qed.

Lemma is_occ_false Y : is_occ Y = false -> Y = 0.
Proof. unfold is_occ. intros H. apply negb_false_iff, N.eqb_eq in H. exact H. Qed.

Lemma bool_eq_iff (a b : bool) : (a = true <-> b = true) -> a = b.
Proof. destruct a, b; intros [H1 H2]; try reflexivity; [symmetry; apply H1; reflexivity|apply H2; reflexivity]. Qed.

Section InCheck.
Variable p : Position.
Hypothesis G : Good p.
Let k := lsb (N.land (kings p) (c_us p)).

Lemma ic_k64 : k < 64.
Proof. exact (ksq_lt p (g_bb p G) (g_king p G)). Qed.

Lemma ic_kbb : g_kbb p = bit k.
Proof.
  unfold g_kbb. rewrite N.land_comm. destruct (g_bb p G) as (B1 & _).
  assert (BK : N.land (kings p) (c_us p) < TWO64) by (apply land_lt_r; exact B1).
  apply N.bits_inj. intros i. rewrite (single_bit_test _ i BK (g_king p G)), testbit_bit by exact ic_k64. reflexivity.
Qed.

Lemma ic_pawns : is_occ (g_patt p) = is_set (pawns_bb false (N.land (pawns p) (c_them p))) k.
Proof.
  pose proof ic_k64 as Hk. destruct (g_bb p G) as (B1 & B2 & B3 & _).
  assert (BX : N.land (pawns p) (c_them p) < TWO64) by (apply land_lt_r; exact B2).
  unfold is_set. rewrite testbit_pawns_them. apply bool_eq_iff. split.
  - intros H. destruct (is_occ_exists _ H) as (s & Hs). unfold g_patt in Hs. rewrite ic_kbb in Hs.
    rewrite !N.land_spec, N.lor_spec, testbit_north_east, testbit_north_west, !testbit_bit in Hs by exact Hk.
    rewrite !N.land_spec.
    apply andb_true_iff in Hs. destruct Hs as [Hs Hp]. apply andb_true_iff in Hs. destruct Hs as [Hs Hth].
    apply orb_true_iff in Hs. destruct Hs as [Hs|Hs].
    + repeat (apply andb_true_iff in Hs; destruct Hs as [Hs ?]).
      assert (E : s = k + 9) by lia. subst s. rewrite Hp, Hth.
      replace (k <? 64) with true by lia. replace (k mod 8 =? 7) with false by lia. cbn. apply orb_true_r.
    + repeat (apply andb_true_iff in Hs; destruct Hs as [Hs ?]).
      assert (E : s = k + 7) by lia. subst s. rewrite Hp, Hth.
      replace (k <? 64) with true by lia. replace (k mod 8 =? 0) with false by lia. reflexivity.
  - intros H. apply andb_true_iff in H. destruct H as [_ H]. apply orb_true_iff in H. destruct H as [H|H];
      apply andb_true_iff in H; destruct H as [Hm HX]; pose proof (testbit_lt _ _ BX HX) as Hlt;
      rewrite N.land_spec in HX; apply andb_true_iff in HX; destruct HX as [Hp Hth].
    + apply (is_occ_bit _ (k + 7)). unfold g_patt. rewrite ic_kbb.
      rewrite !N.land_spec, N.lor_spec, testbit_north_east, testbit_north_west, !testbit_bit by exact Hk.
      rewrite Hp, Hth, !andb_true_r. apply orb_true_iff. right. lia.
    + apply (is_occ_bit _ (k + 9)). unfold g_patt. rewrite ic_kbb.
      rewrite !N.land_spec, N.lor_spec, testbit_north_east, testbit_north_west, !testbit_bit by exact Hk.
      rewrite Hp, Hth, !andb_true_r. apply orb_true_iff. left. lia.
Qed.

Lemma ic_bishops : is_occ (g_batt p) = is_occ (N.land (batt k (occupied p)) (N.land (c_them p) (N.lor (bishops p) (queens p)))).
Proof.
  pose proof ic_k64 as Hk. unfold g_batt, g_brays, g_kray.
  change (g_chk p (fst e_ne)) with (g_bq p). change (g_chk p (fst e_sw)) with (g_bq p).
  change (g_chk p (fst e_nw)) with (g_bq p). change (g_chk p (fst e_se)) with (g_bq p).
  cbn [snd e_ne e_sw e_nw e_se]. change (g_k p) with k.
  destruct (is_occ (g_bq p)) eqn:Eo.
  - f_equal. unfold batt, bishop_walk. replace (k <? 64) with true by lia. unfold walk_dirs, bishop_dirs. cbn [fold_right].
    rewrite (ray_ne_exact k _ Hk), (ray_nw_exact k _ Hk), (ray_se_exact k _ Hk), (ray_sw_exact k _ Hk).
    apply N.bits_inj. intros i. rewrite !N.land_spec, !N.lor_spec, N.bits_0.
    repeat match goal with |- context [N.testbit ?a ?b] => generalize (N.testbit a b); intro end.
    repeat match goal with b : bool |- _ => match goal with |- context [b] => destruct b end end; reflexivity.
  - apply is_occ_false in Eo. unfold g_bq in Eo. rewrite Eo, N.land_0_r. reflexivity.
Qed.

Lemma ic_rooks : is_occ (g_ratt p) = is_occ (N.land (ratt k (occupied p)) (N.land (c_them p) (N.lor (rooks p) (queens p)))).
Proof.
  pose proof ic_k64 as Hk. unfold g_ratt, g_rrays, g_kray.
  change (g_chk p (fst e_n)) with (g_rq p). change (g_chk p (fst e_s)) with (g_rq p).
  change (g_chk p (fst e_e)) with (g_rq p). change (g_chk p (fst e_w)) with (g_rq p).
  cbn [snd e_n e_s e_e e_w]. change (g_k p) with k.
  destruct (is_occ (g_rq p)) eqn:Eo.
  - f_equal. unfold ratt, rook_walk. replace (k <? 64) with true by lia. unfold walk_dirs, rook_dirs. cbn [fold_right].
    rewrite (ray_n_exact k _ Hk), (ray_s_exact k _ Hk), (ray_e_exact k _ Hk), (ray_w_exact k _ Hk).
    apply N.bits_inj. intros i. rewrite !N.land_spec, !N.lor_spec, N.bits_0.
    repeat match goal with |- context [N.testbit ?a ?b] => generalize (N.testbit a b); intro end.
    repeat match goal with b : bool |- _ => match goal with |- context [b] => destruct b end end; reflexivity.
  - apply is_occ_false in Eo. unfold g_rq in Eo. rewrite Eo, N.land_0_r. reflexivity.
Qed.

(* the generator's in-check flag against the attack query: they differ by the enemy king's adjacency only *)
Lemma ic_query : is_sq_attacked p k false =
  gi_in_check (gen_info p) || is_set (adjacent (bit (lsb (N.land (kings p) (c_them p))))) k.
Proof.
  rewrite is_sq_or. cbv zeta. change (get_side p false) with (c_them p).
  rewrite gi_in_check_eq. unfold g_all. rewrite !is_occ_lor, ic_pawns, ic_bishops, ic_rooks.
  unfold g_natt. change (g_k p) with k. reflexivity.
Qed.
End InCheck.

(* under Inv0 the enemy king is not adjacent (our king does not attack theirs) *)
Lemma in_check_flag p : Inv0 p ->
  gi_in_check (gen_info p) = is_sq_attacked p (lsb (N.land (kings p) (c_us p))) false.
Proof.
  intros I. pose proof (i0_good p I) as G. rewrite (ic_query p G).
  assert (Hk : lsb (N.land (kings p) (c_us p)) < 64) by exact (ic_k64 p G).
  assert (Ht : lsb (N.land (kings p) (c_them p)) < 64).
  { destruct (g_bb p G) as (_ & B2 & _). apply lsb_lt64; [apply land_lt_r; exact B2|apply popcount1_nonzero; exact (i0_tking p I)]. }
  pose proof (i0_safe p I) as Hs. unfold in_check_them in Hs. rewrite is_sq_or in Hs. cbv zeta in Hs.
  change (get_side p true) with (c_us p) in Hs.
  apply orb_false_iff in Hs. destruct Hs as [_ Hs]. unfold is_set in *.
  rewrite (sym_use adjacent _ _ adjacent_sym Ht Hk), Hs, orb_false_r. reflexivity.
Qed.

(* ------------------------------------------------------------------ 2. the rules' paths against line_between on the home rank *)
Definition zin (x : Z) (l : list Z) : bool := existsb (Z.eqb x) l.
Lemma zin_In x l : zin x l = true <-> In x l.
Proof.
  unfold zin. rewrite existsb_exists. split.
  - intros (y & Hy & E). apply Z.eqb_eq in E. subst y. exact Hy.
  - intros H. exists x. split; [exact H|apply Z.eqb_refl].
Qed.

Definition path_ok (a b : N) : bool :=
  (line_between a b <? 256)
  && forallb (fun x => Bool.eqb (zin (Z.of_N x) (between_incl (Z.of_N a) (Z.of_N b))) ((x =? a) || N.testbit (line_between a b) x)) low8.
Lemma path_sweep : forallb (fun a => forallb (path_ok a) low8) low8 = true.
Proof. vm_compute. reflexivity. Qed.

Lemma path_use a b : a < 8 -> b < 8 ->
  line_between a b < 256
  /\ forall x, x < 8 -> zin (Z.of_N x) (between_incl (Z.of_N a) (Z.of_N b)) = (x =? a) || N.testbit (line_between a b) x.
Proof.
  intros Ha Hb. pose proof path_sweep as A. rewrite forallb_forall in A. specialize (A a (in_low8 a Ha)).
  rewrite forallb_forall in A. specialize (A b (in_low8 b Hb)). unfold path_ok in A.
  apply andb_true_iff in A. destruct A as [A1 A2]. apply N.ltb_lt in A1. split; [exact A1|].
  intros x Hx. rewrite forallb_forall in A2. apply Bool.eqb_prop. exact (A2 x (in_low8 x Hx)).
Qed.

Lemma between_low a b x : In x (between_incl a b) -> exists x', x = Z.of_N x' /\ x' < 8.
Proof.
  unfold between_incl. cbv zeta. intros H. apply filter_In in H. destruct H as [H _]. cbn [In] in H.
  destruct H as [<-|[<-|[<-|[<-|[<-|[<-|[<-|[<-|[]]]]]]]]];
    [exists 0|exists 1|exists 2|exists 3|exists 4|exists 5|exists 6|exists 7]; split; (reflexivity || lia).
Qed.

(* a file of the rules' path is the starting square or a bit of line_between *)
Lemma path_in a b x : a < 8 -> b < 8 -> In x (between_incl (Z.of_N a) (Z.of_N b)) ->
  exists x', x = Z.of_N x' /\ x' < 8 /\ (x' = a \/ N.testbit (line_between a b) x' = true).
Proof.
  intros Ha Hb Hin. destruct (between_low _ _ _ Hin) as (x' & -> & Hx). exists x'. split; [reflexivity|split; [exact Hx|]].
  destruct (path_use a b Ha Hb) as (_ & A). apply zin_In in Hin. rewrite (A x' Hx) in Hin.
  apply orb_true_iff in Hin. destruct Hin as [E|E]; [left; apply N.eqb_eq; exact E|right; exact E].
Qed.

Lemma low_bits n x : n < 256 -> N.testbit n x = true -> x < 8.
Proof.
  intros Hn Hx. destruct (N.lt_ge_cases x 8) as [H|H]; [exact H|]. exfalso.
  rewrite <- (N.mod_small n (2 ^ 8)) in Hx by exact Hn. rewrite N.mod_pow2_bits_high in Hx by exact H. discriminate.
Qed.

Lemma path_out a b x : a < 8 -> b < 8 -> x = a \/ N.testbit (line_between a b) x = true ->
  x < 8 /\ In (Z.of_N x) (between_incl (Z.of_N a) (Z.of_N b)).
Proof.
  intros Ha Hb Hx. destruct (path_use a b Ha Hb) as (L & A).
  assert (Hx8 : x < 8) by (destruct Hx as [->|Hx]; [exact Ha|exact (low_bits _ _ L Hx)]).
  split; [exact Hx8|]. apply zin_In. rewrite (A x Hx8). apply orb_true_iff.
  destruct Hx as [->|Hx]; [left; apply N.eqb_refl|right; exact Hx].
Qed.

Lemma fz_low x : x < 8 -> fz x = Z.of_N x. Proof. unfold fz. intros H. rewrite N.mod_small by exact H. reflexivity. Qed.
Lemma rz_low x : x < 8 -> rz x = 0%Z. Proof. unfold rz. intros H. rewrite N.div_small by exact H. reflexivity. Qed.
Lemma sq_of_0 f : sq_of f 0 = f. Proof. unfold sq_of. lia. Qed.

(* ------------------------------------------------------------------ 3. castle_ok and the rules' condition *)
Lemma castle_ok_iff p right rs kto rto : castle_ok p (gen_info p) right rs kto rto = true <->
  right = true /\ gi_in_check (gen_info p) = false /\ is_set (gi_hpinned (gen_info p)) rs = false
  /\ is_emp (N.land (N.land (N.land (occupied p)
         (N.lor (line_between (lsb (N.land (kings p) (c_us p))) kto) (line_between rs rto)))
         (bnot (bit (lsb (N.land (kings p) (c_us p)))))) (bnot (bit rs))) = true
  /\ is_bb_attacked p (line_between (lsb (N.land (kings p) (c_us p))) kto) false = false.
Proof.
  unfold castle_ok. cbv zeta. rewrite gi_ksq_eq. rewrite !andb_true_iff, !negb_true_iff. tauto.
Qed.

(* the condition of Rules.castle_moves for White *)
Definition castle_cond (b : board) (kf rf : Z) (kside : bool) : bool :=
  is_man White Rook (at_ b rf 0)
  && (if kside then (kf <? rf)%Z else (rf <? kf)%Z)
  && forallb (fun x => (x =? kf)%Z || (x =? rf)%Z || is_empty (at_ b x 0))
       (between_incl kf (if kside then 6 else 2)%Z ++ between_incl rf (if kside then 5 else 3)%Z)
  && forallb (fun x => negb (attacked b Black x 0)) (between_incl kf (if kside then 6 else 2)%Z).

Lemma castle_moves_white s kf rf kside : s_turn s = White ->
  castle_moves s kf (Some rf) kside = if castle_cond (s_board s) kf rf kside then [mkM kf 0 rf 0 None] else [].
Proof. intros H. unfold castle_moves, castle_cond. cbv zeta. rewrite H. reflexivity. Qed.

Lemma kt_Z (kside : bool) : (if kside then 6 else 2)%Z = Z.of_N (c_kt kside). Proof. destruct kside; reflexivity. Qed.
Lemma rt_Z (kside : bool) : (if kside then 5 else 3)%Z = Z.of_N (c_rt kside). Proof. destruct kside; reflexivity. Qed.

Section WhiteCastle.
Variable p : Position.
Hypothesis Ht : turn p = false.
Hypothesis I : Inv0 p.
Local Notation k := (lsb (N.land (kings p) (c_us p))).

Lemma wc_good : Good p. Proof. exact (i0_good p I). Qed.
Lemma wc_wf : KeyAbs.WF p. Proof. exact (g_wf p (i0_good p I)). Qed.
Lemma wc_bbp : BBp p. Proof. apply BBp_of_BB8. exact (g_bb p (i0_good p I)). Qed.

(* the attack query on a square of the home rank, in the rules' words *)
Lemma wc_attacked x : x < 8 -> is_sq_attacked p x false = attacked (board_of p) Black (Z.of_N x) 0.
Proof.
  intros Hx. rewrite (attack_query_is_the_rules p x false wc_wf wc_bbp ltac:(lia) (i0_tking p I)).
  unfold spec_attacked. cbv zeta. rewrite (rel_id p Ht), Ht. cbn [negb colour_of_turn].
  change (Z.of_N (x mod 8)) with (fz x). change (Z.of_N (x / 8)) with (rz x). rewrite (fz_low x Hx), (rz_low x Hx). reflexivity.
Qed.

Lemma wc_at x : x < 8 -> at_ (board_of p) (Z.of_N x) 0 = man_at p x.
Proof. intros Hx. rewrite <- (at_sq p x ltac:(lia)), (fz_low x Hx), (rz_low x Hx). reflexivity. Qed.

Section Side.
Variables (flag : bool) (cf : N) (kside : bool).
Hypothesis Hcf : cf <= 7.
Hypothesis Hgeo : flag = true -> holds p cf false ROOK /\ (if kside then k < cf else cf < k) /\ k < 8.
Local Notation kt := (c_kt kside).
Local Notation rt := (c_rt kside).

Lemma castle_rules : castle_ok p (gen_info p) flag cf kt rt = true ->
  castle_cond (board_of p) (Z.of_N k) (Z.of_N cf) kside = true.
Proof.
  intros Hc. apply castle_ok_iff in Hc. destruct Hc as (Hf & Hchk & _ & Hemp & Hatt).
  destruct (Hgeo Hf) as (Hrook & Hside & Hk8).
  pose proof (cb_kt8 kside) as Hkt. pose proof (cb_rt8 kside) as Hrt.
  assert (Hcf8 : cf < 8) by lia.
  unfold castle_cond. rewrite kt_Z, rt_Z. repeat (apply andb_true_iff; split).
  - rewrite (wc_at cf Hcf8), (man_ours p Ht cf ROOK Hrook). reflexivity.
  - destruct kside; apply Z.ltb_lt; lia.
  - apply forallb_forall. intros x Hin.
    assert (Hx : exists x', x = Z.of_N x' /\ x' < 8 /\ (x' = k \/ x' = cf \/ N.testbit (N.lor (line_between k kt) (line_between cf rt)) x' = true)).
    { apply in_app_or in Hin. destruct Hin as [Hin|Hin].
      - destruct (path_in k kt x Hk8 Hkt Hin) as (x' & E & H8 & [H|H]); exists x'; (split; [exact E|split; [exact H8|]]); [left; exact H|].
        right; right. rewrite N.lor_spec, H. reflexivity.
      - destruct (path_in cf rt x Hcf8 Hrt Hin) as (x' & E & H8 & [H|H]); exists x'; (split; [exact E|split; [exact H8|]]); [right; left; exact H|].
        right; right. rewrite N.lor_spec, H. apply orb_true_r. }
    destruct Hx as (x' & -> & H8 & Hx).
    assert (Hcase : x' = k \/ x' = cf \/ empty_at p x').
    { destruct Hx as [E|[E|Hb]]; [left; exact E|right; left; exact E|].
      exact (path_square p wc_good cf kt rt x' Hemp ltac:(lia) ltac:(lia) Hb). }
    destruct Hcase as [->|[->|He]].
    + rewrite Z.eqb_refl. reflexivity.
    + rewrite Z.eqb_refl, orb_true_r. reflexivity.
    + rewrite (wc_at x' H8), (man_empty p Ht x' He). cbn [is_empty]. rewrite !orb_true_r. reflexivity.
  - apply forallb_forall. intros x Hin.
    destruct (path_in k kt x Hk8 Hkt Hin) as (x' & -> & H8 & Hx).
    rewrite <- (wc_attacked x' H8). apply negb_true_iff. destruct Hx as [->|Hb].
    + rewrite <- (in_check_flag p I). exact Hchk.
    + rewrite (is_bb_attacked_squares p _ false wc_bbp (line_between_lt _ _) (i0_tking p I)) in Hatt.
      rewrite existsb_false in Hatt. apply Hatt. apply bits_spec. exact Hb.
Qed.

Lemma castle_in_rules : castle_ok p (gen_info p) flag cf kt rt = true ->
  In (mkM (fz k) (rz k) (fz cf) (rz cf) None) (castle_moves (abs_state p) (fz k) (right_of flag cf) kside).
Proof.
  intros Hc. pose proof (castle_rules Hc) as Hr. apply castle_ok_iff in Hc. destruct Hc as (Hf & _).
  destruct (Hgeo Hf) as (_ & _ & Hk8). assert (Hcf8 : cf < 8) by lia.
  rewrite Hf. unfold right_of. rewrite (castle_moves_white _ _ _ _ (s_turn_white p Ht)), (s_board_white p).
  rewrite (fz_low k Hk8), (rz_low k Hk8), (fz_low cf Hcf8), (rz_low cf Hcf8), Hr. left. reflexivity.
Qed.

(* the converse, the pin test aside: a castling move of the rules passes the generator's other tests *)
Lemma rules_castle : castle_moves (abs_state p) (fz k) (right_of flag cf) kside <> [] ->
  flag = true /\ gi_in_check (gen_info p) = false
  /\ is_emp (N.land (N.land (N.land (occupied p) (N.lor (line_between k kt) (line_between cf rt))) (bnot (bit k))) (bnot (bit cf))) = true
  /\ is_bb_attacked p (line_between k kt) false = false.
Proof.
  intros Hne.
  assert (Hf : flag = true) by (destruct flag; [reflexivity|exfalso; apply Hne; reflexivity]).
  destruct (Hgeo Hf) as (Hrook & Hside & Hk8). assert (Hcf8 : cf < 8) by lia.
  pose proof (cb_kt8 kside) as Hkt. pose proof (cb_rt8 kside) as Hrt.
  rewrite Hf in Hne. unfold right_of in Hne.
  rewrite (castle_moves_white _ _ _ _ (s_turn_white p Ht)), (s_board_white p), (fz_low k Hk8) in Hne.
  destruct (castle_cond (board_of p) (Z.of_N k) (Z.of_N cf) kside) eqn:Hc; [|exfalso; apply Hne; reflexivity].
  unfold castle_cond in Hc. rewrite kt_Z, rt_Z in Hc.
  apply andb_true_iff in Hc. destruct Hc as [Hc H4]. apply andb_true_iff in Hc. destruct Hc as [Hc H3].
  rewrite forallb_forall in H3, H4.
  assert (Hsafe : forall x, x = k \/ N.testbit (line_between k kt) x = true -> is_sq_attacked p x false = false).
  { intros x Hx. destruct (path_out k kt x Hk8 Hkt Hx) as (H8 & Hin).
    rewrite (wc_attacked x H8). apply negb_true_iff. exact (H4 _ Hin). }
  split; [exact Hf|split; [|split]].
  - rewrite (in_check_flag p I). apply Hsafe. left. reflexivity.
  - unfold is_emp. apply N.eqb_eq. apply N.bits_inj. intros i. rewrite N.bits_0.
    destruct (N.testbit (N.lor (line_between k kt) (line_between cf rt)) i) eqn:Hb;
      [|rewrite !N.land_spec, Hb, andb_false_r; reflexivity].
    assert (Hi : i < 8 /\ In (Z.of_N i) (between_incl (Z.of_N k) (Z.of_N kt) ++ between_incl (Z.of_N cf) (Z.of_N rt))).
    { rewrite N.lor_spec in Hb. apply orb_true_iff in Hb. destruct Hb as [Hb|Hb].
      - destruct (path_out k kt i Hk8 Hkt (or_intror Hb)) as (H8 & Hin). split; [exact H8|apply in_or_app; left; exact Hin].
      - destruct (path_out cf rt i Hcf8 Hrt (or_intror Hb)) as (H8 & Hin). split; [exact H8|apply in_or_app; right; exact Hin]. }
    destruct Hi as (H8 & Hin). pose proof (H3 _ Hin) as Hv.
    rewrite !N.land_spec, !testbit_bnot, !testbit_bit by lia.
    destruct (N.eqb_spec i k) as [E1|N1]; [cbn [negb]; rewrite !andb_false_r; reflexivity|].
    destruct (N.eqb_spec i cf) as [E2|N2]; [cbn [negb]; rewrite !andb_false_r; reflexivity|].
    replace (Z.of_N i =? Z.of_N k)%Z with false in Hv by lia. replace (Z.of_N i =? Z.of_N cf)%Z with false in Hv by lia.
    cbn [orb] in Hv. rewrite (wc_at i H8) in Hv.
    rewrite (occupied_man p Ht wc_wf i ltac:(lia)). destruct (man_at p i); [discriminate|reflexivity].
  - rewrite (is_bb_attacked_squares p _ false wc_bbp (line_between_lt _ _) (i0_tking p I)). apply existsb_false.
    intros x Hx. apply bits_spec in Hx. apply Hsafe. right. exact Hx.
Qed.
End Side.

Lemma wc_kright : kright (abs_state p) White = right_of (us_ksc p) (cf0 p).
Proof. unfold abs_state. cbn [kright s_wk]. rewrite Ht. reflexivity. Qed.
Lemma wc_qright : qright (abs_state p) White = right_of (us_qsc p) (cf1 p).
Proof. unfold abs_state. cbn [qright s_wq]. rewrite Ht. reflexivity. Qed.

Lemma wc_geo_k : us_ksc p = true -> holds p (cf0 p) false ROOK /\ k < cf0 p /\ k < 8.
Proof.
  intros H. destruct (cg_k p (i0_cg p I) H) as (Hr & Hlt). rewrite sq_of_0 in Hr, Hlt.
  destruct (g_cf p (i0_good p I)) as (C0 & _). split; [exact Hr|split; [exact Hlt|lia]].
Qed.
Lemma wc_geo_q : us_qsc p = true -> holds p (cf1 p) false ROOK /\ cf1 p < k /\ k < 8.
Proof.
  intros H. destruct (cg_q p (i0_cg p I) H) as (Hr & Hlt & Hk8). rewrite sq_of_0 in Hr, Hlt.
  split; [exact Hr|split; [exact Hlt|exact Hk8]].
Qed.

(* a king's move of the rules' castling half is pseudo-legal *)
Lemma wc_king_castle sm :
  In sm (castle_moves (abs_state p) (fz k) (kright (abs_state p) White) true
         ++ castle_moves (abs_state p) (fz k) (qright (abs_state p) White) false) ->
  k < 8 -> In sm (pseudo_moves (abs_state p)).
Proof.
  intros Hin Hk8. destruct (king_holds p (i0_good p I)) as (Hking & Hk64).
  apply (pseudo_white p Ht k KING sm Hk64 Hking). change (kind_of_N KING) with King.
  unfold piece_moves. cbv zeta. rewrite (s_turn_white p Ht), (rz_low k Hk8).
  change (0 =? home White)%Z with true. cbv iota. apply in_or_app. right. exact Hin.
Qed.

Theorem castle_k_pseudo g : In g (blk_castle_k p) -> In (dec p (gen_mv g)) (pseudo_moves (abs_state p)).
Proof.
  unfold blk_castle_k. destruct (castle_ok p (gen_info p) (us_ksc p) (sq_of (cf0 p) 0) G1 F1) eqn:Hc; [|contradiction].
  intros [<-|[]]. cbn [gen_mv]. rewrite gi_ksq_eq, (dec_white p Ht). cbn [m_from m_to]. rewrite sq_of_0 in *.
  destruct (g_cf p (i0_good p I)) as (C0 & _).
  assert (Hf : us_ksc p = true) by (apply castle_ok_iff in Hc; exact (proj1 Hc)).
  apply wc_king_castle; [|exact (proj2 (proj2 (wc_geo_k Hf)))]. apply in_or_app. left. rewrite wc_kright.
  exact (castle_in_rules (us_ksc p) (cf0 p) true C0 wc_geo_k Hc).
Qed.

Theorem castle_q_pseudo g : In g (blk_castle_q p) -> In (dec p (gen_mv g)) (pseudo_moves (abs_state p)).
Proof.
  unfold blk_castle_q. destruct (castle_ok p (gen_info p) (us_qsc p) (sq_of (cf1 p) 0) C1 D1) eqn:Hc; [|contradiction].
  intros [<-|[]]. cbn [gen_mv]. rewrite gi_ksq_eq, (dec_white p Ht). cbn [m_from m_to]. rewrite sq_of_0 in *.
  destruct (g_cf p (i0_good p I)) as (_ & C1' & _).
  assert (Hf : us_qsc p = true) by (apply castle_ok_iff in Hc; exact (proj1 Hc)).
  apply wc_king_castle; [|exact (proj2 (proj2 (wc_geo_q Hf)))]. apply in_or_app. right. rewrite wc_qright.
  exact (castle_in_rules (us_qsc p) (cf1 p) false C1' wc_geo_q Hc).
Qed.

(* the converse packaged: a castling move listed by the rules whose rook is not pinned along the rank is generated *)
Lemma castle_moves_shape s kf right kside sm : s_turn s = White ->
  In sm (castle_moves s kf right kside) -> exists rf, right = Some rf /\ sm = mkM kf 0 rf 0 None.
Proof.
  intros Hw Hin. destruct right as [rf|]; [|contradiction]. exists rf. split; [reflexivity|].
  rewrite (castle_moves_white s kf rf kside Hw) in Hin. destruct (castle_cond (s_board s) kf rf kside); [|contradiction].
  destruct Hin as [<-|[]]. reflexivity.
Qed.

Theorem castle_k_complete sm :
  In sm (castle_moves (abs_state p) (fz k) (kright (abs_state p) White) true) ->
  is_set (gi_hpinned (gen_info p)) (sq_of (cf0 p) 0) = false ->
  exists g, In g (blk_castle_k p) /\ dec p (gen_mv g) = sm.
Proof.
  intros Hin Hpin. destruct (g_cf p (i0_good p I)) as (C0 & _).
  destruct (castle_moves_shape _ _ _ _ _ (s_turn_white p Ht) Hin) as (rf & Er & ->).
  rewrite wc_kright in Hin, Er.
  assert (Hne : castle_moves (abs_state p) (fz k) (right_of (us_ksc p) (cf0 p)) true <> []) by (intros E; rewrite E in Hin; contradiction).
  destruct (rules_castle (us_ksc p) (cf0 p) true C0 wc_geo_k Hne) as (Hf & Hchk & Hemp & Hatt).
  assert (Hc : castle_ok p (gen_info p) (us_ksc p) (sq_of (cf0 p) 0) G1 F1 = true).
  { apply castle_ok_iff. rewrite sq_of_0 in *. repeat split; assumption. }
  exists (KING, gi_ksq (gen_info p), sq_of (cf0 p) 0, NOPIECE). split.
  - unfold blk_castle_k. rewrite Hc. left. reflexivity.
  - cbn [gen_mv]. rewrite gi_ksq_eq, (dec_white p Ht). cbn [m_from m_to]. rewrite sq_of_0.
    destruct (wc_geo_k Hf) as (_ & _ & Hk8). rewrite Hf in Er. unfold right_of in Er. injection Er as <-.
    rewrite (rz_low k Hk8), (fz_low (cf0 p)), (rz_low (cf0 p)) by lia. reflexivity.
Qed.

Theorem castle_q_complete sm :
  In sm (castle_moves (abs_state p) (fz k) (qright (abs_state p) White) false) ->
  is_set (gi_hpinned (gen_info p)) (sq_of (cf1 p) 0) = false ->
  exists g, In g (blk_castle_q p) /\ dec p (gen_mv g) = sm.
Proof.
  intros Hin Hpin. destruct (g_cf p (i0_good p I)) as (_ & C1' & _).
  destruct (castle_moves_shape _ _ _ _ _ (s_turn_white p Ht) Hin) as (rf & Er & ->).
  rewrite wc_qright in Hin, Er.
  assert (Hne : castle_moves (abs_state p) (fz k) (right_of (us_qsc p) (cf1 p)) false <> []) by (intros E; rewrite E in Hin; contradiction).
  destruct (rules_castle (us_qsc p) (cf1 p) false C1' wc_geo_q Hne) as (Hf & Hchk & Hemp & Hatt).
  assert (Hc : castle_ok p (gen_info p) (us_qsc p) (sq_of (cf1 p) 0) C1 D1 = true).
  { apply castle_ok_iff. rewrite sq_of_0 in *. repeat split; assumption. }
  exists (KING, gi_ksq (gen_info p), sq_of (cf1 p) 0, NOPIECE). split.
  - unfold blk_castle_q. rewrite Hc. left. reflexivity.
  - cbn [gen_mv]. rewrite gi_ksq_eq, (dec_white p Ht). cbn [m_from m_to]. rewrite sq_of_0.
    destruct (wc_geo_q Hf) as (_ & _ & Hk8). rewrite Hf in Er. unfold right_of in Er. injection Er as <-.
    rewrite (rz_low k Hk8), (fz_low (cf1 p)), (rz_low (cf1 p)) by lia. reflexivity.
Qed.
End WhiteCastle.

Print Assumptions castle_k_pseudo.
Print Assumptions castle_q_pseudo.
Print Assumptions castle_k_complete.
Print Assumptions castle_q_complete.
