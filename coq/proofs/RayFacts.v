(* C10, ray-fill helpers of rays.rs: the seven-fold shift fill equals the coordinate walk up to and including the
   first blocker, for every square and EVERY blocker board.  Locality (the fill only reads blockers on its own line;
   from monotonicity of the shifts) + a finite sweep over the subsets of each line. *)
From Coq Require Import NArith ZArith List Bool Lia.
From Rawr Require Import Consts Bits Magic Position BitsFacts MagicFacts LeaperFacts.
Import ListNotations.
Local Open Scope N_scope.

Definition subset (x y : N) : Prop := forall i, N.testbit x i = true -> N.testbit y i = true.

Lemma linear_monotone f : linear f -> forall x y, subset x y -> subset (f x) (f y).
Proof.
  intros [_ Hl] x y Hs i Hi. assert (E : y = N.lor x y).
  { apply N.bits_inj. intros j. rewrite N.lor_spec. destruct (N.testbit x j) eqn:Ex; [rewrite (Hs j Ex); reflexivity|reflexivity]. }
  rewrite E, Hl, N.lor_spec, Hi. reflexivity.
Qed.

Definition fill_step (step : N -> N) (nb m : N) : N := N.lor m (step (N.land m nb)).
Fixpoint fill_iter (k : nat) (step : N -> N) (nb m : N) : N :=
  match k with O => m | S k' => fill_iter k' step nb (fill_step step nb m) end.

Lemma fill7_iter step sq b : fill7 step sq b = fill_iter 6 step (bnot b) (step (bit sq)).
Proof. reflexivity. Qed.

Section Locality.
Variable step : N -> N.
Hypothesis Hlin : linear step.

Lemma fill_step_mono nb nb' m m' : subset m m' -> subset nb nb' -> subset (fill_step step nb m) (fill_step step nb' m').
Proof.
  intros Hm Hn i Hi. unfold fill_step in *. rewrite N.lor_spec in *. apply orb_prop in Hi. destruct Hi as [Hi|Hi].
  - rewrite (Hm i Hi). reflexivity.
  - apply orb_true_intro. right. revert i Hi. apply (linear_monotone step Hlin).
    intros j Hj. rewrite N.land_spec in *. apply andb_prop in Hj. destruct Hj as [H1 H2]. rewrite (Hm j H1), (Hn j H2). reflexivity.
Qed.

Lemma fill_iter_mono k : forall nb nb' m m', subset m m' -> subset nb nb' -> subset (fill_iter k step nb m) (fill_iter k step nb' m').
Proof. induction k as [|k IH]; intros nb nb' m m' Hm Hn; cbn [fill_iter]; [exact Hm|]. apply IH; [apply fill_step_mono; assumption|exact Hn]. Qed.

(* with L any superset of the fill on the empty board, only the blockers inside L matter *)
Lemma fill_iter_local k : forall b m L,
  (forall j, (j <= k)%nat -> subset (fill_iter j step (bnot 0) m) L) ->
  fill_iter k step (bnot b) m = fill_iter k step (bnot (N.land b L)) m.
Proof.
  induction k as [|k IH]; intros b m L HL; cbn [fill_iter]; [reflexivity|].
  assert (Hm : subset m L) by (apply (HL 0%nat); lia).
  assert (E : fill_step step (bnot b) m = fill_step step (bnot (N.land b L)) m).
  { unfold fill_step. f_equal. f_equal. apply N.bits_inj. intros i. rewrite !N.land_spec, !testbit_bnot, N.land_spec.
    destruct (N.testbit m i) eqn:Em; [|reflexivity]. rewrite (Hm i Em). rewrite andb_true_r. reflexivity. }
  rewrite E. apply IH. intros j Hj.
  assert (Hs : subset (fill_step step (bnot (N.land b L)) m) (fill_step step (bnot 0) m)).
  { apply fill_step_mono; [intros i Hi; exact Hi|]. intros i Hi. rewrite testbit_bnot in *. apply andb_prop in Hi. destruct Hi as [H1 _].
    rewrite H1, N.bits_0. reflexivity. }
  intros i Hi. apply (HL (S j) ltac:(lia)). cbn [fill_iter].
  revert i Hi. apply fill_iter_mono; [exact Hs|intros i Hi; exact Hi].
Qed.
End Locality.

(* ---- the eight directions *)
Definition dirs8 : list ((N -> N) * (Z * Z)) :=
  [(north_east, (1, 1)%Z); (north_west, (-1, 1)%Z); (south_east, (1, -1)%Z); (south_west, (-1, -1)%Z);
   (north, (0, 1)%Z); (south, (0, -1)%Z); (east, (1, 0)%Z); (west, (-1, 0)%Z)].

Definition line_of (step : N -> N) (sq : N) : N := fill7 step sq 0.

(* finite facts: the line contains every intermediate fill on the empty board and every square of the coordinate ray;
   on every subset of the line the fill equals the walk *)
Definition ray_sweep (sd : (N -> N) * (Z * Z)) : bool :=
  let '(step, d) := sd in
  forallb (fun sq =>
    let L := line_of step sq in
    forallb (fun j => N.ldiff (fill_iter j step (bnot 0) (step (bit sq))) L =? 0) (seq 0 7)
    && forallb (fun s => N.testbit L s) (ray_of sq d)
    && forallb (fun b => b <? 64) (bits L)
    && sweep (bits L) 0 (fun sub => fill7 step sq sub =? walk_list sub (ray_of sq d)))
  squares64.

Lemma ray_sweep_ok : forallb ray_sweep dirs8 = true.
Proof. vm_cast_no_check (eq_refl true). Qed.

Lemma subset_of_ldiff x L : N.ldiff x L = 0 -> subset x L.
Proof.
  intros H i Hi. assert (Hb : N.testbit (N.ldiff x L) i = false) by (rewrite H; apply N.bits_0).
  rewrite N.ldiff_spec, Hi in Hb. cbn [andb] in Hb. destruct (N.testbit L i); [reflexivity|discriminate].
Qed.

Theorem ray_fill_exact step d sq b :
  In (step, d) dirs8 -> linear step -> sq < 64 ->
  fill7 step sq b = walk_list b (ray_of sq d).
Proof.
  intros Hin Hlin Hsq.
  pose proof ray_sweep_ok as Hs. rewrite forallb_forall in Hs. specialize (Hs _ Hin). unfold ray_sweep in Hs.
  rewrite forallb_forall in Hs. specialize (Hs sq (in_squares64 sq Hsq)). cbv zeta in Hs.
  apply andb_prop in Hs. destruct Hs as [Hs Hsw]. apply andb_prop in Hs. destruct Hs as [Hs Hb64].
  apply andb_prop in Hs. destruct Hs as [Hfill Hray].
  rewrite forallb_forall in Hfill, Hray, Hb64.
  set (L := line_of step sq) in *.
  rewrite fill7_iter. rewrite (fill_iter_local step Hlin 6 b (step (bit sq)) L).
  - rewrite <- fill7_iter.
    rewrite (walk_list_ext b (N.land b L) (ray_of sq d)).
    + assert (HP : (fun sub => fill7 step sq sub =? walk_list sub (ray_of sq d)) (N.lor 0 (N.land b L)) = true).
      { apply (sweep_complete _ _ _ Hsw).
        - intros x Hx. apply N.ltb_lt. apply Hb64. exact Hx.
        - intros i Hi. apply bits_spec. rewrite N.land_spec in Hi. apply andb_prop in Hi. apply Hi. }
      rewrite N.lor_0_l in HP. apply N.eqb_eq in HP. exact HP.
    + intros s Hs'. rewrite N.land_spec. rewrite (Hray s); [rewrite andb_true_r; reflexivity|].
      clear - Hs'. induction (ray_of sq d) as [|x l IH]; [destruct Hs'|]. destruct l as [|y l']; [destruct Hs'|].
      destruct Hs' as [<-|H]; [left; reflexivity|right; apply IH; exact H].
  - intros j Hj. apply subset_of_ldiff. apply N.eqb_eq. apply Hfill. apply in_seq. lia.
Qed.

Theorem ray_ne_exact sq b : sq < 64 -> ray_ne sq b = walk_list b (ray_of sq (1, 1)%Z).
Proof. apply (ray_fill_exact north_east); [cbn; auto|apply linear_ne]. Qed.
Theorem ray_nw_exact sq b : sq < 64 -> ray_nw sq b = walk_list b (ray_of sq (-1, 1)%Z).
Proof. apply (ray_fill_exact north_west); [cbn; auto|apply linear_nw]. Qed.
Theorem ray_se_exact sq b : sq < 64 -> ray_se sq b = walk_list b (ray_of sq (1, -1)%Z).
Proof. apply (ray_fill_exact south_east); [cbn; auto|apply linear_se]. Qed.
Theorem ray_sw_exact sq b : sq < 64 -> ray_sw sq b = walk_list b (ray_of sq (-1, -1)%Z).
Proof. apply (ray_fill_exact south_west); [cbn; auto 10|apply linear_sw]. Qed.
Theorem ray_n_exact sq b : sq < 64 -> ray_n sq b = walk_list b (ray_of sq (0, 1)%Z).
Proof. apply (ray_fill_exact north); [cbn; auto 10|apply linear_north]. Qed.
Theorem ray_s_exact sq b : sq < 64 -> ray_s sq b = walk_list b (ray_of sq (0, -1)%Z).
Proof. apply (ray_fill_exact south); [cbn; auto 10|apply linear_south]. Qed.
Theorem ray_e_exact sq b : sq < 64 -> ray_e sq b = walk_list b (ray_of sq (1, 0)%Z).
Proof. apply (ray_fill_exact east); [cbn; auto 10|apply linear_east]. Qed.
Theorem ray_w_exact sq b : sq < 64 -> ray_w sq b = walk_list b (ray_of sq (-1, 0)%Z).
Proof. apply (ray_fill_exact west); [cbn; auto 10|apply linear_west]. Qed.
