(* C02/C04: the invariant under which every generated move refines the rules and keeps the key is itself kept by every
   generated move that does not leave the mover's king attacked -- so the C02/C04 theorems hold along every sequence of
   generated legal moves from a position satisfying it (no per-position premise left but the legality of the move made,
   which is C01's open half). *)
From Coq Require Import NArith ZArith List Bool Lia ZifyN ZifyBool.
From Rawr Require Import Consts Bits Magic Position MoveGen MakeMove MakeStages Rules Abs
                         BitsFacts ShiftFacts FlipFacts AbsFacts LsbFacts HashFacts MakeFacts MakeAbs CastleFacts CastleAbs KeyAbs KeyMove
                         AttackFacts CountFacts GenSane GenNoDup CaptureFacts AttackSets NotationFacts NotationMoves RaySym NoKingCapture.
Import ListNotations.
Local Open Scope N_scope.
Ltac Zify.zify_post_hook ::= Z.div_mod_to_equations.

(* ------------------------------------------------------------------ one-bit boards *)
Lemma bit_facts_all : forallb (fun k => (popcount (bit k) =? 1) && (lsb (bit k) =? k)) sq64_list = true.
Proof. vm_compute. reflexivity. Qed.
Lemma bit_facts k : k < 64 -> popcount (bit k) = 1 /\ lsb (bit k) = k.
Proof.
  intros H. pose proof bit_facts_all as A. rewrite forallb_forall in A. specialize (A k (in_sq64 k H)).
  apply andb_true_iff in A. destruct A as [A1 A2]. apply N.eqb_eq in A1, A2. split; assumption.
Qed.
Lemma board_is_bit X k : X < TWO64 -> k < 64 -> (forall i, i < 64 -> N.testbit X i = (i =? k)) -> X = bit k.
Proof.
  intros HX Hk H. apply N.bits_inj. intros i. rewrite (testbit_bit k i Hk).
  destruct (N.ltb_spec i 64) as [Hi|Hi]; [exact (H i Hi)|].
  destruct (N.eqb_spec i k); [lia|]. destruct (N.testbit X i) eqn:E; [|reflexivity].
  pose proof (testbit_lt X i HX E). lia.
Qed.

(* the king of one side, located by the square views *)
Lemma king_by_view q K (side : bool) : HashFacts.BB8 q -> K < 64 ->
  (forall i, i < 64 -> pb q 5 i && (if side then ub q i else tb q i) = (i =? K)) ->
  popcount (N.land (kings q) (if side then c_us q else c_them q)) = 1 /\ lsb (N.land (kings q) (if side then c_us q else c_them q)) = K.
Proof.
  intros (B1 & B2 & _ & _ & _ & _ & _ & B8) HK H.
  assert (E : N.land (kings q) (if side then c_us q else c_them q) = bit K).
  { apply board_is_bit; [apply land_lt_l; exact B8|exact HK|]. intros i Hi. rewrite N.land_spec, <- (H i Hi).
    unfold pb, ub, tb, is_set. cbn [get_piece]. destruct side; reflexivity. }
  rewrite E. exact (bit_facts K HK).
Qed.

Lemma view_of_king q (side : bool) : HashFacts.BB8 q -> popcount (N.land (kings q) (if side then c_us q else c_them q)) = 1 ->
  forall i, pb q 5 i && (if side then ub q i else tb q i) = (i =? lsb (N.land (kings q) (if side then c_us q else c_them q))).
Proof.
  intros (B1 & B2 & _ & _ & _ & _ & _ & B8) Hp i.
  rewrite <- (single_bit_test _ i (land_lt_l _ _ B8) Hp), N.land_spec. unfold pb, ub, tb, is_set. cbn [get_piece]. destruct side; reflexivity.
Qed.

(* the result seen through the flip *)
Lemma R_holds u p m a t j : a < 64 -> holds (mv_boards u p m) a t j -> holds (makemove u p m) (flip_sq a) (negb t) j.
Proof.
  intros Ha H. rewrite R_eq. apply holds_flip; [apply flip_sq_lt; exact Ha|]. rewrite flip_sq_invol. exact H.
Qed.
Lemma R_empty u p m a : a < 64 -> empty_at (mv_boards u p m) a -> empty_at (makemove u p m) (flip_sq a).
Proof.
  intros Ha H. rewrite R_eq. apply empty_flip; [apply flip_sq_lt; exact Ha|]. rewrite flip_sq_invol. exact H.
Qed.

Lemma holds_same p q s t k : same_at p q s -> holds p s t k -> holds q s t k.
Proof.
  intros (Hu & Ht & Hp) (Hk & Ku & Kt & Kp). split; [exact Hk|split; [rewrite Hu; exact Ku|split; [rewrite Ht; exact Kt|]]].
  intros j Hj. rewrite (Hp j Hj). exact (Kp j Hj).
Qed.
Lemma empty_same p q s : same_at p q s -> empty_at p s -> empty_at q s.
Proof.
  intros (Hu & Ht & Hp) (Eu & Et & Ep). split; [rewrite Hu; exact Eu|split; [rewrite Ht; exact Et|]].
  intros j Hj. rewrite (Hp j Hj). exact (Ep j Hj).
Qed.

Lemma holds_excl p s t1 k1 t2 k2 : holds p s t1 k1 -> holds p s t2 k2 -> t1 = t2 /\ k1 = k2.
Proof.
  intros (Hk & Hu & Ht & Hp) (Hk' & Hu' & Ht' & Hp'). split.
  - rewrite Ht in Ht'. exact Ht'.
  - specialize (Hp k1 Hk). specialize (Hp' k1 Hk). rewrite Hp, N.eqb_refl in Hp'. symmetry in Hp'. apply N.eqb_eq in Hp'. exact Hp'.
Qed.
Lemma holds_not_empty p s t k : holds p s t k -> empty_at p s -> False.
Proof. intros (Hk & _ & _ & Hp) (_ & _ & Ep). specialize (Hp k Hk). rewrite (Ep k Hk), N.eqb_refl in Hp. discriminate. Qed.

(* ------------------------------------------------------------------ the invariant *)
Definition tksq (p : Position) : N := lsb (N.land (kings p) (c_them p)).
Definition uksq (p : Position) : N := lsb (N.land (kings p) (c_us p)).

Record Inv (p : Position) : Prop := {
  iv_good : Good p;
  iv_cg : CastleGood p;
  iv_kg : KeyGood p;
  iv_tking : popcount (N.land (kings p) (c_them p)) = 1;
  (* their castling rights: rook on the recorded file of their home rank, their king on that rank on the proper side *)
  iv_tk : them_ksc p = true -> holds p (sq_of (cf2 p) 7) true ROOK /\ 56 <= tksq p < sq_of (cf2 p) 7;
  iv_tq : them_qsc p = true -> holds p (sq_of (cf3 p) 7) true ROOK /\ sq_of (cf3 p) 7 < tksq p;
  (* the side not to move is not in check *)
  iv_safe : in_check_them p = false
}.

(* the same without the stored key (what the move itself needs; the quiescence search makes moves without updating the key) *)
Record Inv0 (p : Position) : Prop := {
  i0_good : Good p;
  i0_cg : CastleGood p;
  i0_tking : popcount (N.land (kings p) (c_them p)) = 1;
  i0_tk : them_ksc p = true -> holds p (sq_of (cf2 p) 7) true ROOK /\ 56 <= tksq p < sq_of (cf2 p) 7;
  i0_tq : them_qsc p = true -> holds p (sq_of (cf3 p) 7) true ROOK /\ sq_of (cf3 p) 7 < tksq p;
  i0_safe : in_check_them p = false
}.
Lemma Inv_Inv0 p : Inv p -> Inv0 p.
Proof. intros I. constructor; [exact (iv_good p I)|exact (iv_cg p I)|exact (iv_tking p I)|exact (iv_tk p I)|exact (iv_tq p I)|exact (iv_safe p I)]. Qed.
Lemma Inv0_Inv p : Inv0 p -> hash p = calculate_hash p -> Inv p.
Proof.
  intros I H. constructor; [exact (i0_good p I)|exact (i0_cg p I)| |exact (i0_tking p I)|exact (i0_tk p I)|exact (i0_tq p I)|exact (i0_safe p I)].
  constructor; [| |exact H].
  - intros F. destruct (i0_tk p I F) as ((_ & _ & Ht & _) & _). exact Ht.
  - intros F. destruct (i0_tq p I F) as ((_ & _ & Ht & _) & _). exact Ht.
Qed.

Lemma R_cf u p m : let R := makemove u p m in cf0 R = cf2 p /\ cf1 R = cf3 p /\ cf2 R = cf0 p /\ cf3 R = cf1 p.
Proof.
  cbv zeta. rewrite R_eq. cbn [flip cf0 cf1 cf2 cf3 set_clocks_ep_rights].
  pose proof (meta_boards u p m) as H. unfold meta in H. inversion H. repeat split; reflexivity.
Qed.

Lemma WF_disjoint q : WF q -> HashFacts.BB8 q -> colours_disjoint q.
Proof.
  intros HW (B1 & B2 & _). unfold colours_disjoint. apply N.bits_inj. intros i. rewrite N.bits_0, N.land_spec.
  destruct (N.ltb_spec i 64) as [Hi|Hi].
  - destruct (HW i Hi) as [(Hu & _)|(t & k & (_ & Hu & Ht & _))].
    + unfold ub, is_set in Hu. rewrite Hu. reflexivity.
    + unfold ub, tb, is_set in Hu, Ht. rewrite Hu, Ht. destruct t; reflexivity.
  - destruct (N.testbit (c_us q) i) eqn:E; [|reflexivity]. pose proof (testbit_lt _ i B1 E). lia.
Qed.

Lemma their_king_holds p : WF p -> HashFacts.BB8 p -> popcount (N.land (kings p) (c_them p)) = 1 ->
  holds p (tksq p) true KING /\ tksq p < 64.
Proof.
  intros HW HB Hk. destruct HB as (B1 & B2 & B3 & B4 & B5 & B6 & B7 & B8).
  assert (Hset : N.testbit (N.land (kings p) (c_them p)) (tksq p) = true) by (apply lsb_set, popcount1_nonzero; exact Hk).
  assert (Hlt : tksq p < 64) by (apply (testbit_lt _ _ (land_lt_l _ _ B8) Hset)).
  split; [|exact Hlt]. rewrite N.land_spec in Hset. apply andb_true_iff in Hset. destruct Hset as [Hkb Htb].
  destruct (HW _ Hlt) as [(_ & Ht & _)|(t & k & Hh)].
  - unfold tb, is_set in Ht. congruence.
  - pose proof Hh as (Hk5 & Hu & Ht & Hp). unfold tb, is_set in Ht. rewrite Htb in Ht. subst t.
    specialize (Hp 5 ltac:(lia)). unfold pb, is_set in Hp. cbn [get_piece] in Hp. rewrite Hkb in Hp. symmetry in Hp. apply N.eqb_eq in Hp.
    subst k. exact Hh.
Qed.

Lemma flip_home c : c <= 7 -> flip_sq (sq_of c 7) = sq_of c 0 /\ flip_sq (sq_of c 0) = sq_of c 7.
Proof.
  intros Hc. unfold sq_of. change flip_sq with flipbit. rewrite !flipbit_arith by lia. split; lia.
Qed.
Lemma flip_low x : x < 8 -> flip_sq x = x + 56.
Proof. intros H. change flip_sq with flipbit. rewrite flipbit_arith by lia. lia. Qed.
Lemma flip_high x : 56 <= x < 64 -> flip_sq x = x - 56.
Proof. intros H. change flip_sq with flipbit. rewrite flipbit_arith by lia. lia. Qed.

Lemma keeps_right_true flag f t ks rs : keeps_right flag f t ks rs = true -> flag = true /\ f <> ks /\ f <> rs /\ t <> rs.
Proof.
  unfold keeps_right. intros H. repeat (apply andb_true_iff in H; destruct H as [H ?]).
  repeat match goal with X : negb (_ =? _) = true |- _ => apply negb_true_iff, N.eqb_neq in X end. auto.
Qed.


(* ------------------------------------------------------------------ an ordinary (non-castling) move *)
Section NC.
Variables (u : bool) (p : Position) (m : Mv) (k : N).
Hypothesis S : sane p m k.
Hypothesis I : Inv0 p.
Hypothesis NVK : m_to m <> tksq p.
Let R := makemove u p m.
Let from := m_from m.
Let to := m_to m.
Let G := i0_good p I.

Lemma nc_from_lt : from < 64. Proof. exact (sn_from _ _ _ S). Qed.
Lemma nc_to_lt : to < 64. Proof. exact (sn_to _ _ _ S). Qed.
Lemma nc_vic : mv_is_ep p m = true -> holds p (to - 8) true PAWN /\ 8 <= to.
Proof. intros Hb. destruct (sn_ep _ _ _ S Hb) as (_ & H8 & Hv). split; assumption. Qed.

(* how every square of the result looks, seen from the square of the old frame *)
Inductive rview (a : N) : Prop :=
| RvFrom : a = from -> empty_at R (flip_sq a) -> rview a
| RvTo : a = to -> holds R (flip_sq a) true (landed k (m_promo m)) -> rview a
| RvVic : mv_is_ep p m = true -> a = to - 8 -> empty_at R (flip_sq a) -> rview a
| RvEmpty : a <> to -> empty_at p a -> empty_at R (flip_sq a) -> rview a
| RvMan t j : a <> from -> a <> to -> (mv_is_ep p m = true -> a <> to - 8) -> holds p a t j -> holds R (flip_sq a) (negb t) j -> rview a.

Lemma rview_all a : a < 64 -> rview a.
Proof.
  intros Ha.
  destruct (N.eq_dec a from) as [E|N1]; [apply RvFrom; [exact E|subst a; apply R_empty; [exact nc_from_lt|exact (after_from u p m k S)]]|].
  destruct (N.eq_dec a to) as [E|N2]; [apply RvTo; [exact E|subst a; apply (R_holds u p m to false); [exact nc_to_lt|exact (after_to u p m k S)]]|].
  assert (Hbc : mv_is_ep p m = true \/ mv_is_ep p m = false) by (destruct (mv_is_ep p m); [left|right]; reflexivity).
  assert (Hoth : (mv_is_ep p m = true -> a <> to - 8) -> rview a).
  { intros N3. pose proof (after_other u p m k S a N1 N2 N3) as Hs.
    destruct (g_wf p G a Ha) as [He|(t & j & Hh)].
    - apply RvEmpty; [exact N2|exact He|apply R_empty; [exact Ha|exact (empty_same _ _ _ Hs He)]].
    - apply (RvMan a t j N1 N2 N3 Hh). apply R_holds; [exact Ha|exact (holds_same _ _ _ _ _ Hs Hh)]. }
  destruct Hbc as [Hb|Hb].
  - destruct (N.eq_dec a (to - 8)) as [E|N3]; [|apply Hoth; intros _; exact N3].
    apply (RvVic a Hb E). subst a. apply R_empty; [exact Ha|exact (after_vic u p m k S Hb)].
  - apply Hoth. rewrite Hb. discriminate.
Qed.

Lemma flip_flip_lt i : i < 64 -> flip_sq i < 64. Proof. apply flip_sq_lt. Qed.

(* their king stays where it is *)
Lemma nc_their_king : popcount (N.land (kings R) (c_us R)) = 1 /\ uksq R = flip_sq (tksq p).
Proof.
  destruct (their_king_holds p (g_wf p G) (g_bb p G) (i0_tking p I)) as (HK & HK64).
  apply (king_by_view R (flip_sq (tksq p)) true (BB8_R u p m) (flip_sq_lt _ HK64)).
  intros i Hi. set (a := flip_sq i). assert (Ha : a < 64) by (apply flip_sq_lt; exact Hi).
  assert (Ei : i = flip_sq a) by (unfold a; rewrite flip_sq_invol; reflexivity).
  assert (Eq : (i =? flip_sq (tksq p)) = (a =? tksq p)).
  { destruct (N.eqb_spec i (flip_sq (tksq p))) as [E|E]; destruct (N.eqb_spec a (tksq p)) as [E'|E']; try reflexivity; exfalso.
    - apply E'. unfold a. rewrite E, flip_sq_invol. reflexivity.
    - apply E. rewrite Ei, E'. reflexivity. }
  rewrite Eq, Ei.
  destruct (rview_all a Ha) as [E He|E Hh|Hb E He|N2 Hpe He|t j N1 N2 N3 Hh Hr].
  - destruct He as (_ & _ & Hp). rewrite (Hp 5 ltac:(lia)). cbn [andb]. symmetry. apply N.eqb_neq. intros E'.
    pose proof (sn_mover _ _ _ S) as Hm. fold from in Hm. rewrite <- E, E' in Hm. destruct (holds_excl _ _ _ _ _ _ Hm HK). discriminate.
  - destruct Hh as (_ & Hu & _). rewrite Hu, andb_false_r. symmetry. apply N.eqb_neq. rewrite E. exact NVK.
  - destruct He as (_ & _ & Hp). rewrite (Hp 5 ltac:(lia)). cbn [andb]. symmetry. apply N.eqb_neq. intros E'.
    destruct (nc_vic Hb) as (Hv & _). rewrite <- E, E' in Hv. destruct (holds_excl _ _ _ _ _ _ Hv HK) as (_ & X). discriminate X.
  - destruct He as (_ & _ & Hp). rewrite (Hp 5 ltac:(lia)). cbn [andb]. symmetry. apply N.eqb_neq. intros E'.
    rewrite E' in Hpe. exact (holds_not_empty _ _ _ _ HK Hpe).
  - destruct Hr as (Hj & Hu & _ & Hp). rewrite Hu, (Hp 5 ltac:(lia)).
    pose proof (view_of_king p false (g_bb p G) (i0_tking p I) a) as Hv. cbv iota in Hv. fold (tksq p) in Hv. rewrite <- Hv.
    destruct Hh as (_ & _ & Ht & Hp'). rewrite Ht, (Hp' 5 ltac:(lia)). destruct t; cbn [negb]; [reflexivity|rewrite !andb_false_r; reflexivity].
Qed.

Definition our_king_after : N := if k =? KING then to else uksq p.

Lemma nc_from_king : (from =? uksq p) = (k =? KING).
Proof.
  pose proof (view_of_king p true (g_bb p G) (g_king p G) from) as Hv. cbv iota in Hv. fold (uksq p) in Hv. rewrite <- Hv.
  destruct (sn_mover _ _ _ S) as (Hk & Hu & _ & Hp). fold from in Hu, Hp. rewrite Hu, (Hp 5 ltac:(lia)), andb_true_r. cbn [negb].
  rewrite N.eqb_sym. reflexivity.
Qed.

Lemma our_king_holds : holds p (uksq p) false KING /\ uksq p < 64.
Proof. exact (king_holds p G). Qed.

Lemma landed_king : (5 =? landed k (m_promo m)) = (k =? KING).
Proof.
  unfold landed. destruct (sn_promo _ _ _ S) as [E|(Ek & E)].
  - rewrite E. change (NOPIECE =? NOPIECE) with true. cbv iota. rewrite N.eqb_sym. reflexivity.
  - rewrite Ek. destruct (N.eqb_spec (m_promo m) NOPIECE) as [E'|E']; [unfold NOPIECE in E'; lia|].
    change (PAWN =? KING) with false. apply N.eqb_neq. lia.
Qed.

Lemma nc_our_king : popcount (N.land (kings R) (c_them R)) = 1 /\ tksq R = flip_sq our_king_after.
Proof.
  destruct our_king_holds as (HK & HK64).
  assert (HK' : our_king_after < 64) by (unfold our_king_after; destruct (k =? KING); [exact nc_to_lt|exact HK64]).
  apply (king_by_view R (flip_sq our_king_after) false (BB8_R u p m) (flip_sq_lt _ HK')).
  intros i Hi. set (a := flip_sq i). assert (Ha : a < 64) by (apply flip_sq_lt; exact Hi).
  assert (Ei : i = flip_sq a) by (unfold a; rewrite flip_sq_invol; reflexivity).
  assert (Eq : (i =? flip_sq our_king_after) = (a =? our_king_after)).
  { destruct (N.eqb_spec i (flip_sq our_king_after)) as [E|E]; destruct (N.eqb_spec a our_king_after) as [E'|E']; try reflexivity; exfalso.
    - apply E'. unfold a. rewrite E, flip_sq_invol. reflexivity.
    - apply E. rewrite Ei, E'. reflexivity. }
  rewrite Eq, Ei. pose proof nc_from_king as Hfk. unfold our_king_after.
  destruct (rview_all a Ha) as [E He|E Hh|Hb E He|N2 Hpe He|t j N1 N2 N3 Hh Hr].
  - destruct He as (_ & _ & Hp). rewrite (Hp 5 ltac:(lia)). cbn [andb]. symmetry. rewrite E.
    destruct (k =? KING); [apply N.eqb_neq; exact (sn_ne _ _ _ S)|exact Hfk].
  - destruct Hh as (_ & _ & Ht & Hp). rewrite Ht, (Hp 5 ltac:(lia)), andb_true_r, landed_king, E.
    destruct (N.eqb_spec k KING) as [Ek|Ek]; [rewrite N.eqb_refl; reflexivity|]. symmetry. apply N.eqb_neq. intros E'.
    destruct (sn_target _ _ _ S) as [Hemp|(c & Hc)]; fold to in Hemp || fold to in Hc.
    + rewrite E' in Hemp. exact (holds_not_empty _ _ _ _ HK Hemp).
    + rewrite E' in Hc. destruct (holds_excl _ _ _ _ _ _ Hc HK). discriminate.
  - destruct He as (_ & _ & Hp). rewrite (Hp 5 ltac:(lia)). cbn [andb]. symmetry. destruct (nc_vic Hb) as (Hv & H8). rewrite E.
    destruct (k =? KING); [apply N.eqb_neq; lia|]. apply N.eqb_neq. intros E'. rewrite E' in Hv.
    destruct (holds_excl _ _ _ _ _ _ Hv HK). discriminate.
  - destruct He as (_ & _ & Hp). rewrite (Hp 5 ltac:(lia)). cbn [andb]. symmetry.
    destruct (k =? KING); [apply N.eqb_neq; exact N2|]. apply N.eqb_neq. intros E'. rewrite E' in Hpe. exact (holds_not_empty _ _ _ _ HK Hpe).
  - destruct Hr as (Hj & _ & Ht & Hp). rewrite Ht, (Hp 5 ltac:(lia)).
    pose proof (view_of_king p true (g_bb p G) (g_king p G) a) as Hv. cbv iota in Hv. fold (uksq p) in Hv.
    destruct Hh as (_ & Hu & _ & Hp'). rewrite Hu, (Hp' 5 ltac:(lia)) in Hv. rewrite Hv.
    destruct (N.eqb_spec k KING) as [Ek|Ek]; [|reflexivity].
    apply N.eqb_eq in Hfk. rewrite <- Hfk.
    destruct (N.eqb_spec a from); [contradiction|]. destruct (N.eqb_spec a to); [contradiction|reflexivity].
Qed.

(* men that do not take part in the move *)
Lemma their_man_stays a j : a < 64 -> holds p a true j -> a <> to -> (mv_is_ep p m = true -> a <> to - 8) -> holds R (flip_sq a) false j.
Proof.
  intros Ha Hh N2 N3.
  assert (N1 : a <> from).
  { intros E. pose proof (sn_mover _ _ _ S) as Hm. fold from in Hm. rewrite <- E in Hm. destruct (holds_excl _ _ _ _ _ _ Hh Hm). discriminate. }
  apply (R_holds u p m a true j Ha). exact (holds_same _ _ _ _ _ (after_other u p m k S a N1 N2 N3) Hh).
Qed.
Lemma our_man_stays a j : a < 64 -> holds p a false j -> a <> from -> holds R (flip_sq a) true j.
Proof.
  intros Ha Hh N1.
  assert (N2 : a <> to).
  { intros E. destruct (sn_target _ _ _ S) as [Hemp|(c & Hc)]; fold to in Hemp || fold to in Hc; rewrite <- E in *.
    - exact (holds_not_empty _ _ _ _ Hh Hemp).
    - destruct (holds_excl _ _ _ _ _ _ Hh Hc). discriminate. }
  assert (N3 : mv_is_ep p m = true -> a <> to - 8).
  { intros Hb E. destruct (nc_vic Hb) as (Hv & _). rewrite <- E in Hv. destruct (holds_excl _ _ _ _ _ _ Hh Hv). discriminate. }
  apply (R_holds u p m a false j Ha). exact (holds_same _ _ _ _ _ (after_other u p m k S a N1 N2 N3) Hh).
Qed.

Hypothesis Hpw : k = PAWN -> rank_of to = rank_of from + 1 \/ to = from + 16.
Hypothesis Hskip : k = PAWN -> to = from + 16 -> empty_at p (from + 8) /\ m_promo m = NOPIECE.
Hypothesis Hlegal : in_check_them R = false.

Lemma nc_not_ep_double : to = from + 16 -> mv_is_ep p m = false.
Proof.
  intros E. unfold mv_is_ep. fold from to. replace (file_of from =? file_of to) with true; [rewrite andb_false_r; reflexivity|].
  symmetry. apply N.eqb_eq. unfold file_of. rewrite E. replace (from + 16) with (from + 2 * 8) by lia. rewrite N.mod_add by lia. reflexivity.
Qed.

Lemma nc_good : Good R.
Proof.
  destruct (R_cf u p m) as (C0 & C1 & C2 & C3). destruct (g_cf p G) as (D0 & D1 & D2 & D3).
  constructor.
  - exact (WF_R u p m k S (g_wf p G)).
  - exact (BB8_R u p m).
  - apply WF_disjoint; [exact (WF_R u p m k S (g_wf p G))|exact (BB8_R u p m)].
  - exact (proj1 nc_their_king).
  - fold R in C0, C1, C2, C3. rewrite C0, C1, C2, C3. auto.
  - intros e He. destruct (R_fields u p m) as (_ & Eep & _). fold R in Eep. rewrite Eep in He.
    unfold mv_new_ep in He. rewrite (sane_piece p m k S) in He. fold from to in He.
    destruct ((k =? PAWN) && (to - from =? 16)) eqn:Ec; [|discriminate]. injection He as <-.
    apply andb_true_iff in Ec. destruct Ec as [Ek Ed]. apply N.eqb_eq in Ek, Ed.
    pose proof nc_to_lt as Ht. pose proof nc_from_lt as Hf.
    assert (E16 : to = from + 16) by lia.
    destruct (Hskip Ek E16) as (Hemp & Hpr).
    assert (Hflip : flip_sq (to - 8) = flip_sq to + 8 /\ 8 <= flip_sq (to - 8) < 64).
    { change flip_sq with flipbit. rewrite !flipbit_arith by lia. split; lia. }
    destruct Hflip as (Hfl & Hrange). split; [exact Hrange|]. split.
    + apply R_empty; [lia|]. apply (empty_same p); [|replace (to - 8) with (from + 8) by lia; exact Hemp].
      apply (after_other u p m k S); fold from to; try lia. rewrite (nc_not_ep_double E16). discriminate.
    + rewrite Hfl. replace (flip_sq to + 8 - 8) with (flip_sq to) by lia.
      pose proof (after_to u p m k S) as Hat. unfold landed in Hat. rewrite Hpr in Hat. change (NOPIECE =? NOPIECE) with true in Hat. cbv iota in Hat.
      rewrite Ek in Hat. exact (R_holds u p m to false PAWN Ht Hat).
Qed.

Lemma their_ksq_comm : lsb (N.land (c_them p) (kings p)) = tksq p.
Proof. unfold tksq. rewrite N.land_comm. reflexivity. Qed.
Lemma our_ksq_comm : lsb (N.land (c_us p) (kings p)) = uksq p.
Proof. unfold uksq. rewrite N.land_comm. reflexivity. Qed.

Lemma nc_castlegood : CastleGood R.
Proof.
  destruct (R_cf u p m) as (C0 & C1 & C2 & C3). destruct (g_cf p G) as (D0 & D1 & D2 & D3). fold R in C0, C1, C2, C3.
  destruct (R_fields u p m) as (_ & _ & Ek & Eq & _ & _). fold R in Ek, Eq. rewrite their_ksq_comm in Ek, Eq.
  destruct nc_their_king as (_ & EK). unfold uksq in EK.
  constructor.
  - intros H. rewrite Ek in H. destruct (keeps_right_true _ _ _ _ _ H) as (Hflag & _ & _ & Hto).
    destruct (i0_tk p I Hflag) as (Hrook & Hlo & Hhi). rewrite C0, EK. destruct (flip_home (cf2 p) D2) as (F7 & F0).
    split.
    + rewrite <- F7. apply their_man_stays; [unfold sq_of; lia|exact Hrook|intros E; apply Hto; symmetry; exact E|].
      intros Hb E. destruct (nc_vic Hb) as (Hv & _). fold to in Hto. rewrite <- E in Hv. destruct (holds_excl _ _ _ _ _ _ Hrook Hv) as (_ & X). discriminate X.
    + rewrite flip_high by (unfold sq_of in *; lia). unfold sq_of in *. lia.
  - intros H. rewrite Eq in H. destruct (keeps_right_true _ _ _ _ _ H) as (Hflag & _ & _ & Hto).
    destruct (i0_tq p I Hflag) as (Hrook & Hlo). rewrite C1, EK. destruct (flip_home (cf3 p) D3) as (F7 & F0).
    destruct (their_king_holds p (g_wf p G) (g_bb p G) (i0_tking p I)) as (_ & HK64).
    split.
    + rewrite <- F7. apply their_man_stays; [unfold sq_of; lia|exact Hrook|intros E; apply Hto; symmetry; exact E|].
      intros Hb E. destruct (nc_vic Hb) as (Hv & _). rewrite <- E in Hv. destruct (holds_excl _ _ _ _ _ _ Hrook Hv) as (_ & X). discriminate X.
    + rewrite flip_high by (unfold sq_of in *; lia). unfold sq_of in *. lia.
Qed.

Theorem nc_inv0 : Inv0 R.
Proof.
  destruct (R_cf u p m) as (C0 & C1 & C2 & C3). destruct (g_cf p G) as (D0 & D1 & D2 & D3). fold R in C0, C1, C2, C3.
  destruct (R_fields u p m) as (_ & _ & _ & _ & Ek & Eq). fold R in Ek, Eq. rewrite our_ksq_comm in Ek, Eq.
  destruct nc_our_king as (HK1 & EK).
  constructor.
  - exact nc_good.
  - exact nc_castlegood.
  - exact HK1.
  - intros H. rewrite Ek in H. destruct (keeps_right_true _ _ _ _ _ H) as (Hflag & Hfk & Hfr & _).
    destruct (cg_k p (i0_cg p I) Hflag) as (Hrook & Hlt). fold (uksq p) in Hlt. rewrite C2, EK. destruct (flip_home (cf0 p) D0) as (F7 & F0).
    assert (Hnk : (k =? KING) = false) by (rewrite <- nc_from_king; apply N.eqb_neq; exact Hfk).
    unfold our_king_after. rewrite Hnk. split.
    + rewrite <- F0. apply our_man_stays; [unfold sq_of; lia|exact Hrook|intros E; apply Hfr; symmetry; exact E].
    + rewrite flip_low by (unfold sq_of in *; lia). unfold sq_of in *. lia.
  - intros H. rewrite Eq in H. destruct (keeps_right_true _ _ _ _ _ H) as (Hflag & Hfk & Hfr & _).
    destruct (cg_q p (i0_cg p I) Hflag) as (Hrook & Hlt & H8). fold (uksq p) in Hlt, H8. rewrite C3, EK. destruct (flip_home (cf1 p) D1) as (F7 & F0).
    assert (Hnk : (k =? KING) = false) by (rewrite <- nc_from_king; apply N.eqb_neq; exact Hfk).
    unfold our_king_after. rewrite Hnk. split.
    + rewrite <- F0. apply our_man_stays; [unfold sq_of; lia|exact Hrook|intros E; apply Hfr; symmetry; exact E].
    + rewrite flip_low by lia. unfold sq_of in *. lia.
  - exact Hlegal.
Qed.
End NC.

(* ------------------------------------------------------------------ a castling move *)
Section CA.
Variables (u : bool) (p : Position) (m : Mv) (kside : bool).
Hypothesis S : csane p m kside.
Hypothesis I : Inv0 p.
Let R := makemove u p m.
Let from := m_from m.
Let to := m_to m.
Let kt := c_kt kside.
Let rt := c_rt kside.
Let G := i0_good p I.

Lemma ca_from_lt : from < 64. Proof. exact (cs_from64 p m kside S). Qed.
Lemma ca_to_lt : to < 64. Proof. exact (cs_to64 p m kside S). Qed.
Lemma ca_kt_lt : kt < 64. Proof. exact (kt64 p m kside S). Qed.
Lemma ca_rt_lt : rt < 64. Proof. exact (rt64 p m kside S). Qed.
Lemma ca_kt8 : kt < 8. Proof. unfold kt, c_kt, G1, C1. destruct kside; lia. Qed.
Lemma ca_rt8 : rt < 8. Proof. unfold rt, c_rt, F1, D1. destruct kside; lia. Qed.

Inductive cview (a : N) : Prop :=
| CvKing : a = kt -> holds R (flip_sq a) true KING -> cview a
| CvRook : a = rt -> holds R (flip_sq a) true ROOK -> cview a
| CvVac : a = from \/ a = to -> a <> kt -> a <> rt -> empty_at R (flip_sq a) -> cview a
| CvEmpty : a <> from -> a <> to -> a <> kt -> a <> rt -> empty_at p a -> empty_at R (flip_sq a) -> cview a
| CvMan t j : a <> from -> a <> to -> a <> kt -> a <> rt -> holds p a t j -> holds R (flip_sq a) (negb t) j -> cview a.

Lemma cview_all a : a < 64 -> cview a.
Proof.
  intros Ha.
  destruct (N.eq_dec a kt) as [E|N3]; [apply CvKing; [exact E|subst a; apply (R_holds u p m kt false KING ca_kt_lt); exact (castle_king_target u p m kside S)]|].
  destruct (N.eq_dec a rt) as [E|N4]; [apply CvRook; [exact E|subst a; apply (R_holds u p m rt false ROOK ca_rt_lt); exact (castle_rook_target u p m kside S)]|].
  destruct (N.eq_dec a from) as [E|N1].
  { apply CvVac; [left; exact E|exact N3|exact N4|]. apply R_empty; [exact Ha|]. apply (castle_vacated u p m kside S); [left; exact E|exact N3|exact N4]. }
  destruct (N.eq_dec a to) as [E|N2].
  { apply CvVac; [right; exact E|exact N3|exact N4|]. apply R_empty; [exact Ha|]. apply (castle_vacated u p m kside S); [right; exact E|exact N3|exact N4]. }
  pose proof (castle_other u p m kside S a N1 N2 N3 N4) as Hs.
  destruct (g_wf p G a Ha) as [He|(t & j & Hh)].
  - apply CvEmpty; try assumption. apply R_empty; [exact Ha|exact (empty_same _ _ _ Hs He)].
  - apply (CvMan a t j); try assumption. apply R_holds; [exact Ha|exact (holds_same _ _ _ _ _ Hs Hh)].
Qed.

(* a castling target square holds nothing of theirs before the move *)
Lemma ca_target_not_theirs x j : x = kt \/ x = rt -> holds p x true j -> False.
Proof.
  intros Hx Hh.
  assert (Hc : x = from \/ x = to \/ empty_at p x).
  { destruct Hx as [->| ->]; [exact (cs_kt _ _ _ S)|exact (cs_rt _ _ _ S)]. }
  destruct Hc as [->|[->|He]].
  - destruct (holds_excl _ _ _ _ _ _ Hh (cs_king _ _ _ S)). discriminate.
  - destruct (holds_excl _ _ _ _ _ _ Hh (cs_rook _ _ _ S)). discriminate.
  - exact (holds_not_empty _ _ _ _ Hh He).
Qed.

Lemma ca_their_king : popcount (N.land (kings R) (c_us R)) = 1 /\ uksq R = flip_sq (tksq p).
Proof.
  destruct (their_king_holds p (g_wf p G) (g_bb p G) (i0_tking p I)) as (HK & HK64).
  apply (king_by_view R (flip_sq (tksq p)) true (BB8_R u p m) (flip_sq_lt _ HK64)).
  intros i Hi. set (a := flip_sq i). assert (Ha : a < 64) by (apply flip_sq_lt; exact Hi).
  assert (Ei : i = flip_sq a) by (unfold a; rewrite flip_sq_invol; reflexivity).
  assert (Eq : (i =? flip_sq (tksq p)) = (a =? tksq p)).
  { destruct (N.eqb_spec i (flip_sq (tksq p))) as [E|E]; destruct (N.eqb_spec a (tksq p)) as [E'|E']; try reflexivity; exfalso.
    - apply E'. unfold a. rewrite E, flip_sq_invol. reflexivity.
    - apply E. rewrite Ei, E'. reflexivity. }
  rewrite Eq, Ei.
  destruct (cview_all a Ha) as [E Hh|E Hh|E N3 N4 He|N1 N2 N3 N4 Hpe He|t j N1 N2 N3 N4 Hh Hr].
  - destruct Hh as (_ & Hu & _). rewrite Hu, andb_false_r. symmetry. apply N.eqb_neq. intros E'. rewrite E' in E.
    rewrite E in HK. exact (ca_target_not_theirs kt KING (or_introl eq_refl) HK).
  - destruct Hh as (_ & Hu & _). rewrite Hu, andb_false_r. symmetry. apply N.eqb_neq. intros E'. rewrite E' in E.
    rewrite E in HK. exact (ca_target_not_theirs rt KING (or_intror eq_refl) HK).
  - destruct He as (_ & _ & Hp). rewrite (Hp 5 ltac:(lia)). cbn [andb]. symmetry. apply N.eqb_neq. intros E'. rewrite E' in E.
    destruct E as [E|E]; rewrite E in HK.
    + destruct (holds_excl _ _ _ _ _ _ HK (cs_king _ _ _ S)). discriminate.
    + destruct (holds_excl _ _ _ _ _ _ HK (cs_rook _ _ _ S)). discriminate.
  - destruct He as (_ & _ & Hp). rewrite (Hp 5 ltac:(lia)). cbn [andb]. symmetry. apply N.eqb_neq. intros E'.
    rewrite E' in Hpe. exact (holds_not_empty _ _ _ _ HK Hpe).
  - destruct Hr as (Hj & Hu & _ & Hp). rewrite Hu, (Hp 5 ltac:(lia)).
    pose proof (view_of_king p false (g_bb p G) (i0_tking p I) a) as Hv. cbv iota in Hv. fold (tksq p) in Hv. rewrite <- Hv.
    destruct Hh as (_ & _ & Ht & Hp'). rewrite Ht, (Hp' 5 ltac:(lia)). destruct t; cbn [negb]; [reflexivity|rewrite !andb_false_r; reflexivity].
Qed.

Lemma ca_from_uksq : from = uksq p.
Proof. exact (csane_from_ksq p m kside G S). Qed.

Lemma ca_our_king : popcount (N.land (kings R) (c_them R)) = 1 /\ tksq R = flip_sq kt.
Proof.
  apply (king_by_view R (flip_sq kt) false (BB8_R u p m) (flip_sq_lt _ ca_kt_lt)).
  intros i Hi. set (a := flip_sq i). assert (Ha : a < 64) by (apply flip_sq_lt; exact Hi).
  assert (Ei : i = flip_sq a) by (unfold a; rewrite flip_sq_invol; reflexivity).
  assert (Eq : (i =? flip_sq kt) = (a =? kt)).
  { destruct (N.eqb_spec i (flip_sq kt)) as [E|E]; destruct (N.eqb_spec a kt) as [E'|E']; try reflexivity; exfalso.
    - apply E'. unfold a. rewrite E, flip_sq_invol. reflexivity.
    - apply E. rewrite Ei, E'. reflexivity. }
  rewrite Eq, Ei.
  destruct (cview_all a Ha) as [E Hh|E Hh|E N3 N4 He|N1 N2 N3 N4 Hpe He|t j N1 N2 N3 N4 Hh Hr].
  - destruct Hh as (_ & _ & Ht & Hp). rewrite Ht, (Hp 5 ltac:(lia)). change (5 =? KING) with true. rewrite E, N.eqb_refl. reflexivity.
  - destruct Hh as (_ & _ & Ht & Hp). rewrite Ht, (Hp 5 ltac:(lia)). change (5 =? ROOK) with false. cbn [andb]. symmetry. apply N.eqb_neq.
    rewrite E. intros E'. exact (kt_ne_rt p m kside S (eq_sym E')).
  - destruct He as (_ & _ & Hp). rewrite (Hp 5 ltac:(lia)). cbn [andb]. symmetry. apply N.eqb_neq. exact N3.
  - destruct He as (_ & _ & Hp). rewrite (Hp 5 ltac:(lia)). cbn [andb]. symmetry. apply N.eqb_neq. exact N3.
  - destruct Hr as (Hj & _ & Ht & Hp). rewrite Ht, (Hp 5 ltac:(lia)).
    pose proof (view_of_king p true (g_bb p G) (g_king p G) a) as Hv. cbv iota in Hv. fold (uksq p) in Hv.
    destruct Hh as (_ & Hu & _ & Hp'). rewrite Hu, (Hp' 5 ltac:(lia)) in Hv. rewrite Hv, <- ca_from_uksq.
    destruct (N.eqb_spec a from); [contradiction|]. destruct (N.eqb_spec a kt); [contradiction|reflexivity].
Qed.

Lemma ca_their_man_stays a j : a < 64 -> 8 <= a -> holds p a true j -> holds R (flip_sq a) false j.
Proof.
  intros Ha H8 Hh. pose proof (cs_from _ _ _ S). pose proof (cs_to _ _ _ S). pose proof ca_kt8. pose proof ca_rt8.
  apply (R_holds u p m a true j Ha). apply (holds_same p); [|exact Hh].
  apply (castle_other u p m kside S); fold kt rt; lia.
Qed.

Hypothesis Hlegal : in_check_them R = false.

Lemma ca_good : Good R.
Proof.
  destruct (R_cf u p m) as (C0 & C1 & C2 & C3). destruct (g_cf p G) as (D0 & D1 & D2 & D3). fold R in C0, C1, C2, C3.
  constructor.
  - exact (cWF_makemove u p m kside S (g_wf p G)).
  - exact (BB8_R u p m).
  - apply WF_disjoint; [exact (cWF_makemove u p m kside S (g_wf p G))|exact (BB8_R u p m)].
  - exact (proj1 ca_their_king).
  - rewrite C0, C1, C2, C3. auto.
  - intros e He. destruct (R_fields u p m) as (_ & Eep & _). fold R in Eep. rewrite Eep, (c_no_new_ep p m kside S) in He. discriminate.
Qed.

Lemma ca_rights_kept flag cf : keeps_right flag from to (lsb (N.land (c_them p) (kings p))) (sq_of cf 7) = flag.
Proof.
  assert (Hku : popcount (N.land (c_us p) (kings p)) = 1) by (rewrite king_comm; exact (g_king p G)).
  unfold keeps_right, from, to.
  rewrite (from_not_their_king0 p m KING (cs_from64 p m kside S) (cs_to64 p m kside S) (cs_king _ _ _ S) Hku).
  pose proof (cs_from _ _ _ S). pose proof (cs_to _ _ _ S).
  replace (m_from m =? sq_of cf 7) with false by (symmetry; apply N.eqb_neq; unfold sq_of; lia).
  replace (m_to m =? sq_of cf 7) with false by (symmetry; apply N.eqb_neq; unfold sq_of; lia).
  cbn [negb]. rewrite !andb_true_r. reflexivity.
Qed.

Lemma ca_castlegood : CastleGood R.
Proof.
  destruct (R_cf u p m) as (C0 & C1 & C2 & C3). destruct (g_cf p G) as (D0 & D1 & D2 & D3). fold R in C0, C1, C2, C3.
  destruct (R_fields u p m) as (_ & _ & Ek & Eq & _ & _). fold R from to in Ek, Eq. rewrite ca_rights_kept in Ek, Eq.
  destruct ca_their_king as (_ & EK). unfold uksq in EK.
  constructor.
  - intros H. rewrite Ek in H. destruct (i0_tk p I H) as (Hrook & Hlo & Hhi). rewrite C0, EK. destruct (flip_home (cf2 p) D2) as (F7 & F0).
    split.
    + rewrite <- F7. apply ca_their_man_stays; [unfold sq_of; lia|unfold sq_of; lia|exact Hrook].
    + rewrite flip_high by (unfold sq_of in *; lia). unfold sq_of in *. lia.
  - intros H. rewrite Eq in H. destruct (i0_tq p I H) as (Hrook & Hlo). rewrite C1, EK. destruct (flip_home (cf3 p) D3) as (F7 & F0).
    destruct (their_king_holds p (g_wf p G) (g_bb p G) (i0_tking p I)) as (_ & HK64).
    split.
    + rewrite <- F7. apply ca_their_man_stays; [unfold sq_of; lia|unfold sq_of; lia|exact Hrook].
    + rewrite flip_high by (unfold sq_of in *; lia). unfold sq_of in *. lia.
Qed.

Lemma ca_rights_lost : them_ksc R = false /\ them_qsc R = false.
Proof.
  assert (Hku : popcount (N.land (c_us p) (kings p)) = 1) by (rewrite king_comm; exact (g_king p G)).
  destruct (R_fields u p m) as (_ & _ & _ & _ & Ek & Eq). fold R in Ek, Eq.
  rewrite (c_keeps_us p m kside S Hku) in Ek, Eq. split; assumption.
Qed.

Theorem ca_inv0 : Inv0 R.
Proof.
  destruct ca_rights_lost as (L1 & L2). destruct ca_our_king as (HK1 & _).
  constructor.
  - exact ca_good.
  - exact ca_castlegood.
  - exact HK1.
  - rewrite L1. discriminate.
  - rewrite L2. discriminate.
  - exact Hlegal.
Qed.
End CA.

(* ------------------------------------------------------------------ a double push comes from the doubles block *)
Lemma double_push_facts p g : Good p -> CastleGood p -> In g (move_generator p) -> gk g = PAWN ->
  m_to (gen_mv g) = m_from (gen_mv g) + 16 -> empty_at p (m_from (gen_mv g) + 8) /\ m_promo (gen_mv g) = NOPIECE.
Proof.
  intros G CG Hg Ek H16.
  destruct (in_generator_block p g Hg) as (i & b & Hib & Hgb).
  pose proof (cls_double p g Ek H16) as Hc.
  assert (Hdb : In g (blk_doubles p)).
  { unfold tagged_blocks in Hib. cbv zeta in Hib. cbn [In] in Hib.
    repeat destruct Hib as [Hib|Hib]; try contradiction; injection Hib as <- <-; try exact Hgb; exfalso.
    - rewrite (pawn_cls p g 8 false (singles_shape p g Hgb)) in Hc by lia. discriminate.
    - rewrite (pawn_cls p g 9 true (cap_ne_shape p g Hgb)) in Hc by lia. discriminate.
    - rewrite (pawn_cls p g 7 true (cap_nw_shape p g Hgb)) in Hc by lia. discriminate.
    - destruct (ep_shape p G g Hgb) as [X|X]; [rewrite (pawn_cls p g 9 false X) in Hc by lia|rewrite (pawn_cls p g 7 false X) in Hc by lia]; discriminate.
    - rewrite (knights_cls p g Hgb) in Hc. discriminate.
    - rewrite (bishop_pinned_cls p g _ _ Hgb) in Hc. discriminate.
    - rewrite (bishop_free_cls p g _ _ Hgb) in Hc. discriminate.
    - rewrite (rook_pinned_cls p g _ _ Hgb) in Hc. discriminate.
    - rewrite (rook_free_cls p g _ _ Hgb) in Hc. discriminate.
    - rewrite (queen_b_cls p g _ _ Hgb) in Hc. discriminate.
    - rewrite (queen_r_cls p g _ _ Hgb) in Hc. discriminate.
    - rewrite (queen_free_cls p g _ _ Hgb) in Hc. discriminate.
    - rewrite (king_steps_cls p g Hgb) in Hc. discriminate.
    - rewrite (castle_k_cls p G CG g Hgb) in Hc. discriminate.
    - rewrite (castle_q_cls p G CG g Hgb) in Hc. discriminate. }
  unfold blk_doubles in Hdb. apply in_map_iff in Hdb. destruct Hdb as (to & <- & Hto). cbn [gen_mv m_from m_to m_promo] in *.
  split; [|reflexivity].
  apply bits_spec in Hto. unfold g_doubles in Hto. rewrite !N.land_spec in Hto.
  repeat (apply andb_true_iff in Hto; destruct Hto as [Hto ?]).
  match goal with X : N.testbit (north (empty_bb p)) to = true |- _ => rewrite testbit_north in X;
    apply andb_true_iff in X; destruct X as [X Xe]; apply andb_true_iff in X; destruct X as [Xl X8]; apply N.ltb_lt in Xl; apply N.leb_le in X8 end.
  replace (to - 16 + 8) with (to - 8) by lia.
  apply (vacant_empty p (g_wf p G)); [lia|exact (empty_bit p _ Xe)|exact (empty_tb p _ Xe)].
Qed.

(* ------------------------------------------------------------------ the step *)
Theorem inv0_step u p m : Inv0 p -> In m (legal_moves p) -> in_check_them (makemove u p m) = false -> Inv0 (makemove u p m).
Proof.
  intros I Hm Hlegal. pose proof (i0_good p I) as G. pose proof (i0_cg p I) as CG.
  unfold legal_moves in Hm. apply in_map_iff in Hm. destruct Hm as (g & <- & Hg).
  destruct (generated_move_cases p g G Hg) as [(S & Hpw)|[H|H]].
  - apply (nc_inv0 u p (gen_mv g) (gk g) S I).
    + exact (no_king_capture p g G CG (i0_tking p I) (i0_safe p I) Hg).
    + exact Hpw.
    + exact (double_push_facts p g G CG Hg).
    + exact Hlegal.
  - destruct (castle_block_k p G CG g H) as (S & _). exact (ca_inv0 u p (gen_mv g) true S I Hlegal).
  - destruct (castle_block_q p G CG g H) as (S & _). exact (ca_inv0 u p (gen_mv g) false S I Hlegal).
Qed.

Theorem inv_step p m : Inv p -> In m (legal_moves p) -> in_check_them (makemove true p m) = false -> Inv (makemove true p m).
Proof.
  intros I Hm Hlegal. apply Inv0_Inv; [exact (inv0_step true p m (Inv_Inv0 p I) Hm Hlegal)|].
  exact (legal_moves_keep_key_invariant p m (iv_good p I) (iv_cg p I) (iv_kg p I) Hm).
Qed.

(* ------------------------------------------------------------------ the executable invariant *)
Theorem inv_b_sound p : inv_b p = true -> Inv p.
Proof.
  unfold inv_b. cbv zeta. intros H.
  apply andb_true_iff in H. destruct H as [H Hsafe]. apply andb_true_iff in H. destruct H as [H Hq].
  apply andb_true_iff in H. destruct H as [H Hk]. apply andb_true_iff in H. destruct H as [Hgood Hpop].
  destruct (good_pos_sound p Hgood) as (G & CG & KG). apply N.eqb_eq in Hpop. apply negb_true_iff in Hsafe.
  constructor; try assumption.
  - intros Hf. rewrite Hf in Hk. unfold implb' in Hk. cbn [negb orb] in Hk.
    apply andb_true_iff in Hk. destruct Hk as [Hk H2]. apply andb_true_iff in Hk. destruct Hk as [Hk H1].
    split; [exact (holds_b_sound _ _ _ _ Hk)|]. unfold tksq. split; [apply N.leb_le|apply N.ltb_lt]; assumption.
  - intros Hf. rewrite Hf in Hq. unfold implb' in Hq. cbn [negb orb] in Hq.
    apply andb_true_iff in Hq. destruct Hq as [Hq H1].
    split; [exact (holds_b_sound _ _ _ _ Hq)|]. unfold tksq. apply N.ltb_lt. assumption.
Qed.

(* ------------------------------------------------------------------ along every sequence of generated legal moves *)
Fixpoint legal_seq (p : Position) (ms : list Mv) : Prop :=
  match ms with
  | [] => True
  | m :: r => In m (legal_moves p) /\ in_check_them (makemove true p m) = false /\ legal_seq (makemove true p m) r
  end.

Theorem inv_run ms : forall p, Inv p -> legal_seq p ms -> Inv (fold_left (makemove true) ms p).
Proof.
  induction ms as [|m r IH]; intros p I H; cbn [fold_left]; [exact I|].
  destruct H as (Hm & Hl & Hr). apply IH; [exact (inv_step p m I Hm Hl)|exact Hr].
Qed.

(* what the rules make of the same sequence *)
Fixpoint spec_run (p : Position) (ms : list Mv) (s : sstate) : sstate :=
  match ms with
  | [] => s
  | m :: r => spec_run (makemove true p m) r (apply s (dec p m))
  end.

Theorem run_refines ms : forall p, Inv p -> legal_seq p ms ->
  abs_state (fold_left (makemove true) ms p) = spec_run p ms (abs_state p).
Proof.
  induction ms as [|m r IH]; intros p I H; cbn [fold_left spec_run]; [reflexivity|].
  destruct H as (Hm & Hl & Hr).
  rewrite <- (legal_moves_refine true p m (iv_good p I) (iv_cg p I) Hm).
  apply IH; [exact (inv_step p m I Hm Hl)|exact Hr].
Qed.

Theorem run_keys ms p : Inv p -> legal_seq p ms ->
  let q := fold_left (makemove true) ms p in
  hash q = calculate_hash q /\ calculate_hash q = KeySpec.spec_key (abs_state q).
Proof.
  intros I H. cbv zeta. pose proof (inv_run ms p I H) as Iq. set (q := fold_left (makemove true) ms p) in *.
  split; [exact (kg_hash q (iv_kg q Iq))|].
  pose proof (iv_good q Iq) as G. apply key_of_abs; [exact (g_bb q G)|exact (g_wf q G)|].
  intros e He. destruct (g_ep q G e He) as ((_ & Hlt) & _). exact Hlt.
Qed.
