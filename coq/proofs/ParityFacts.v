(* C07: the colour boards and the piece boards produced by the FEN board loop are consistent -- for EVERY string,
   with or without wrap-around of the square index.  Each board character toggles one colour bit and one piece bit
   of the same square, so  white xor black = xor of the six piece boards  is an invariant of the loop; validate's
   disjointness tests turn the xors into unions. *)
From Coq Require Import NArith ZArith List Bool Lia.
From Rawr Require Import Consts Bits Magic Position MoveGen MakeMove Fen BitsFacts FlipFacts FenFacts.
Import ListNotations.
Local Open Scope N_scope.

Definition lxor6 (l : list N) : N := fold_right N.lxor 0 l.

Definition BInv (a : BoardAcc) : Prop :=
  length (ba_pc a) = 6%nat /\ N.lxor (ba_w a) (ba_b a) = lxor6 (ba_pc a).

Lemma lxor6_upd l k bb : length l = 6%nat -> k < 6 ->
  lxor6 (upd6 l k (N.lxor (nthN l k 0) bb)) = N.lxor (lxor6 l) bb /\ length (upd6 l k (N.lxor (nthN l k 0) bb)) = 6%nat.
Proof.
  intros Hl Hk. destruct l as [|a [|b [|c [|d [|e [|f [|]]]]]]]; try discriminate Hl.
  assert (Hc : k = 0 \/ k = 1 \/ k = 2 \/ k = 3 \/ k = 4 \/ k = 5) by lia.
  split; [|reflexivity].
  destruct Hc as [->|[->|[->|[->|[->| ->]]]]]; unfold upd6, nthN, lxor6; simpl;
    rewrite ?N.lxor_0_r; apply N.bits_inj; intros i; rewrite !N.lxor_spec, ?N.bits_0;
    repeat match goal with |- context [N.testbit ?x i] => destruct (N.testbit x i) end; reflexivity.
Qed.

Lemma piece_of_char_lt c black pc : piece_of_char c = Some (black, pc) -> pc < 6.
Proof.
  unfold piece_of_char. intros H.
  repeat match type of H with
  | match ?x with _ => _ end = _ => destruct x; try discriminate H
  end; injection H as _ <-; reflexivity.
Qed.

Lemma board_char_inv mode a c a' : BInv a -> board_char mode a c = Some a' -> BInv a'.
Proof.
  intros [Hl Hx] H. unfold board_char in H.
  destruct (u8_sub mode 7 (ba_idx a / 8)) as [r7|]; cbn [obind] in H; [|discriminate].
  destruct (u8_mul mode 8 r7) as [r8|]; cbn [obind] in H; [|discriminate].
  destruct (u8_add mode r8 (ba_idx a mod 8)) as [sq|]; cbn [obind] in H; [|discriminate].
  destruct (bit_m mode sq) as [bb|]; cbn [obind] in H; [|discriminate].
  destruct (piece_of_char c) as [[black pc]|] eqn:Ep.
  - destruct (u8_add mode (ba_idx a) 1) as [idx'|]; cbn [obind] in H; [|discriminate].
    injection H as <-. pose proof (piece_of_char_lt _ _ _ Ep) as Hpc.
    destruct (lxor6_upd (ba_pc a) pc bb Hl Hpc) as [Hu Hlen].
    split; cbn [ba_pc ba_w ba_b]; [exact Hlen|]. rewrite Hu, <- Hx.
    destruct black; apply N.bits_inj; intros i; rewrite !N.lxor_spec;
      destruct (N.testbit (ba_w a) i), (N.testbit (ba_b a) i), (N.testbit bb i); reflexivity.
  - destruct ((49 <=? c) && (c <=? 56)).
    + destruct (u8_add mode (ba_idx a) (c - 48)) as [idx'|]; cbn [obind] in H; [|discriminate].
      injection H as <-. split; assumption.
    + destruct (c =? 47); [|discriminate]. injection H as <-. split; assumption.
Qed.

Lemma board_loop_inv mode : forall s a a', BInv a -> board_loop mode a s = Some a' -> BInv a'.
Proof.
  induction s as [|c s IH]; intros a a' Hi H; cbn [board_loop] in H.
  - injection H as <-. exact Hi.
  - destruct (board_char mode a c) as [a1|] eqn:E; cbn [obind] in H; [|discriminate].
    apply (IH a1); [apply (board_char_inv mode a c); assumption|exact H].
Qed.

Lemma BInv_init : BInv (mkBA 0 0 [0; 0; 0; 0; 0; 0] 0).
Proof. split; reflexivity. Qed.

(* xor = union for disjoint sets *)
Lemma lxor_lor_disjoint a b : N.land a b = 0 -> N.lxor a b = N.lor a b.
Proof.
  intros H. apply N.bits_inj. intros i. rewrite N.lxor_spec, N.lor_spec.
  assert (Hi : N.testbit (N.land a b) i = false) by (rewrite H; apply N.bits_0).
  rewrite N.land_spec in Hi. destruct (N.testbit a i), (N.testbit b i); try reflexivity. discriminate.
Qed.

Lemma land_lor_0 a b c : N.land a c = 0 -> N.land b c = 0 -> N.land (N.lor a b) c = 0.
Proof. intros H1 H2. rewrite N.land_lor_distr_l, H1, H2. reflexivity. Qed.

(* the XOR identity survives the flip for Black to move *)
Lemma bswap_lxor a b : bswap (N.lxor a b) = N.lxor (bswap a) (bswap b).
Proof. apply N.bits_inj. intros i. rewrite N.lxor_spec, !testbit_bswap, N.lxor_spec. destruct (i <? 64); reflexivity. Qed.

Definition xor_consistent (p : Position) : Prop :=
  N.lxor (c_us p) (c_them p)
  = N.lxor (pawns p) (N.lxor (knights p) (N.lxor (bishops p) (N.lxor (rooks p) (N.lxor (queens p) (kings p))))).

Lemma xor_consistent_flip p : xor_consistent p -> xor_consistent (flip p).
Proof.
  unfold xor_consistent, flip. cbn. intros H. rewrite <- !bswap_lxor. rewrite <- H. rewrite N.lxor_comm. reflexivity.
Qed.

Lemma xor_consistent_set_hash p h : xor_consistent p -> xor_consistent (set_hash p h).
Proof. destruct p. exact (fun H => H). Qed.

Lemma finish_fen_keeps mode p q : finish_fen mode p = Some q -> xor_consistent p -> xor_consistent q.
Proof.
  unfold finish_fen. cbv zeta.
  destruct (match ep (set_hash p (calculate_hash p)) with Some e => bit_m mode e | None => Some 0 end); [|discriminate].
  destruct (validate (set_hash p (calculate_hash p))); [discriminate|].
  intros H Hc. injection H as <-. apply xor_consistent_set_hash. exact Hc.
Qed.

Lemma set_fen_raw_xor mode frc s q : set_fen_raw mode frc s = Some q -> xor_consistent q.
Proof.
  unfold set_fen_raw. intros H.
  destruct (split_sp s []) as [|board rest]; [discriminate|].
  destruct (board_loop mode (mkBA 0 0 [0; 0; 0; 0; 0; 0] 0) board) as [ba|] eqn:Eb; cbn [obind] in H; [|discriminate].
  pose proof (board_loop_inv mode board _ ba BInv_init Eb) as [Hl Hx].
  peel H.
  all: match goal with H : finish_fen _ _ = Some _ |- _ => apply finish_fen_keeps in H; [exact H|] end.
  all: destruct (ba_pc ba) as [|x0 [|x1 [|x2 [|x3 [|x4 [|x5 [|]]]]]]]; try discriminate Hl.
  all: match goal with |- xor_consistent (if ?bb then _ else _) => destruct bb | _ => idtac end.
  all: try (apply xor_consistent_flip).
  all: unfold xor_consistent, nthN; simpl; unfold lxor6 in Hx; simpl in Hx; rewrite N.lxor_0_r in Hx; exact Hx.
Qed.

(* consistency as unions, from the XOR identity and what validate guarantees *)
Theorem parse_consistent mode frc s q :
  set_fen mode frc s = Some q ->
  N.lor (c_us q) (c_them q)
  = N.lor (pawns q) (N.lor (knights q) (N.lor (bishops q) (N.lor (rooks q) (N.lor (queens q) (kings q))))).
Proof.
  intros H. pose proof (parse_validated mode frc s q H) as [Hv _].
  assert (Hx : xor_consistent q).
  { unfold set_fen in H. destruct (str_eqb s STARTPOS_STR); apply set_fen_raw_xor in H; exact H. }
  pose proof (validate_sound q Hv) as (_ & Hwb & H1 & H2 & H3 & H4 & H5 & H6 & H7 & H8 & H9 & H10 & H11 & H12 & H13 & H14 & H15 & _).
  unfold emp2 in *. unfold xor_consistent in Hx.
  assert (Hcol : N.land (c_us q) (c_them q) = 0).
  { unfold get_white, get_black in Hwb. destruct (turn q); [rewrite N.land_comm|]; exact Hwb. }
  rewrite <- (lxor_lor_disjoint _ _ Hcol), Hx.
  rewrite (lxor_lor_disjoint (queens q) (kings q)) by assumption.
  rewrite (lxor_lor_disjoint (rooks q)) by (rewrite N.land_comm; apply land_lor_0; rewrite N.land_comm; assumption).
  rewrite (lxor_lor_disjoint (bishops q)) by (rewrite N.land_comm; repeat apply land_lor_0; rewrite N.land_comm; assumption).
  rewrite (lxor_lor_disjoint (knights q)) by (rewrite N.land_comm; repeat apply land_lor_0; rewrite N.land_comm; assumption).
  rewrite (lxor_lor_disjoint (pawns q)) by (rewrite N.land_comm; repeat apply land_lor_0; rewrite N.land_comm; assumption).
  reflexivity.
Qed.
