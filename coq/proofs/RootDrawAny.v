(* C11 for ANY bounded transposition table.

   If every legal move of the root position p leads to a position that is drawn by rule (fifty-move clock >= 100, or
   a repetition inside the successor's look-back window of the game history), every uninterrupted iteration of depth
   two or more reports - DRAW_SCORE, whatever bounded entries the transposition table holds (`TBnd`), and the search
   still answers with a legal move.  Compared with RootDraw.root_all_drawn the premises `table_empty` and `no_clash`
   are gone; the price is that the stop predicate must be one that does not fire inside an iteration (a depth limit,
   or no limit).

   Why the table cannot spoil the result (model/Search.v): in a node the table is probed first, but its entry is used
   for a cut-off only at a non-PV node; then come the horizon test, the stop test and the rule-draw test.  So a
   rule-drawn child searched as a PV node (window wider than one) with positive depth and not interrupted answers
   DRAW_SCORE and stores nothing (`drawn_child_pv`).  At the root (window (-INF, INF)) the first move is searched
   with the full window: score - DRAW_SCORE = 50.  Every later move is first searched on the zero window
   (- alpha - 1, - alpha) with alpha = 50: a non-PV node, where a table entry may answer anything within the bounds;
   but if that answer beats alpha the move is searched again on (- INF, - alpha), a PV window, and scores 50 again; if it
   does not beat alpha it is ignored.  So best = alpha = 50 throughout, the best move is the first move of the
   ordering, the loop never breaks (beta = INF), and the iteration stores and returns 50. *)
From Coq Require Import NArith ZArith List Bool Lia Permutation.
From Rawr Require Import Consts Bits Magic Position MoveGen MakeMove MakeStages Eval TT Search
                         Closure MenCount EpRetro TTFacts SearchFacts SearchFacts2 SearchBound RootDraw WindowHonest MateInOne.
From Rawr Require GenLegal.
Import ListNotations.
Local Open Scope Z_scope.

(* ------------------------------------------------------------------ a rule-drawn PV node below the root *)
Lemma drawn_child_pv stopf f c s a b ply d cn v s1 :
  rule_drawn_at c (ss_hist s) -> ply <> 0 -> b <> a + 1 -> 0 < (if in_check c then d + 1 else d) ->
  stopf (ss_stats (upd s ply)) = false ->
  negamax stopf (S f) c s a b ply d cn = Some (v, s1) -> v = DRAW_SCORE /\ s1 = upd s ply.
Proof.
  intros Hdr Hply Hpv Hd Hstop H. cbn [negamax] in H. unfold nm_body in H. cbv zeta in H.
  fold (upd s ply) in H.
  match type of H with match ?x with _ => _ end = _ => destruct x as [tte|]; [|discriminate] end.
  unfold nm_probe in H. cbv zeta in H.
  rewrite (proj2 (Z.eqb_neq b (a + 1)) Hpv) in H. cbn [negb] in H. rewrite !andb_false_r in H. cbn [andb] in H.
  rewrite (proj2 (Z.eqb_neq ply 0) Hply) in H.
  apply prune_drawn in H; [|exact Hdr].
  destruct H as [(Hd0 & _)|(_ & -> & ->)]; [exfalso; lia|].
  rewrite Hstop. split; reflexivity.
Qed.

(* ------------------------------------------------------------------ one iteration at the root *)
Section Root.
Variable stopf : Stats -> bool.
Variable p : Position.
Variable hist : list N.
Variable D : Z.                                  (* the depth of the iteration *)

Hypothesis Hp : InvSR p.
Hypothesis Hne : legal_moves p <> [].
Hypothesis Hdrawn : forall m, In m (legal_moves p) -> rule_drawn (makemove true p m) hist.
Hypothesis Hstop : forall st, st_depth st = D -> stopf st = false.

(* the child of a root move as a PV node *)
Lemma child_pv f m s a b d v s1 : In m (legal_moves p) -> b <> a + 1 -> 1 <= d ->
  ss_hist s = hash (makemove true p m) :: hist -> st_depth (ss_stats s) = D ->
  negamax stopf f (makemove true p m) s a b 1 d true = Some (v, s1) -> v = DRAW_SCORE /\ s1 = upd s 1.
Proof.
  intros Hm Hpv Hd Hh Hsd H. destruct f as [|f]; [discriminate|].
  apply (drawn_child_pv stopf f (makemove true p m) s a b 1 d true v s1); [|lia|exact Hpv| | |exact H].
  - rewrite Hh. exact (Hdrawn m Hm).
  - destruct (in_check (makemove true p m)); lia.
  - apply Hstop. rewrite upd_depth. exact Hsd.
Qed.

(* the score of one root move: the draw value, or (not for the first move) something that does not beat alpha *)
Lemma search_move_drawn f in_chk depth idx m s alpha score s' :
  Z.of_nat f + 1 <= 2 * VB -> In m (legal_moves p) -> 2 <= depth -> alpha < INF - 1 ->
  TBnd (ss_tt s) -> ss_hist s = hash (makemove true p m) :: hist -> st_depth (ss_stats s) = D ->
  search_move (negamax stopf f) p in_chk INF 0 depth idx m (makemove true p m) s alpha = Some (score, s') ->
  score = - DRAW_SCORE \/ (idx <> 0 /\ score <= alpha).
Proof.
  intros Hf Hm Hd Hal Ht Hh Hsd H.
  pose proof (eq_refl : INF = 10000000) as HI. pose proof (eq_refl : VB = 1000000) as HV.
  pose proof (negamax_nbnd_rec stopf f (2 * VB) ltac:(lia)) as Hr.
  assert (Hnp : InvSR (makemove true p m)) by exact (child_inv p m Hp Hm).
  unfold search_move in H. change (0 + 1) with 1 in H. destruct (Z.eqb_spec idx 0) as [Ei|Ei].
  - match type of H with match ?x with _ => _ end = _ => destruct x as [[v1 s1]|] eqn:E1; [|discriminate] end.
    destruct (some_pair_inv _ _ _ _ H) as [<- _]. left.
    destruct (child_pv f m s (- INF) (- alpha) (depth - 1) v1 s1 Hm ltac:(lia) ltac:(lia) Hh Hsd E1) as (-> & _). reflexivity.
  - cbv zeta in H.
    match type of H with match ?x with _ => _ end = _ => destruct x as [[v1 s1]|] eqn:E1; [|discriminate] end.
    assert (Hpl : 0 <= 1 <= 2 * VB - Z.of_nat f) by lia.
    pose proof (Hr _ _ _ _ _ _ _ _ _ Hnp Ht Hpl E1) as (Hv1 & Ht1).
    pose proof (negamax_keeps_history stopf f _ _ _ _ _ _ _ _ _ E1) as Hh1.
    pose proof (negamax_K stopf f _ _ _ _ _ _ _ _ _ E1) as (_ & Hsd1).
    destruct ((alpha <? - v1) && (- v1 <? INF)) eqn:Ec.
    + match type of H with match ?x with _ => _ end = _ => destruct x as [[v2 s2]|] eqn:E2; [|discriminate] end.
      destruct (some_pair_inv _ _ _ _ H) as [<- _]. left.
      destruct (child_pv f m s1 (- INF) (- alpha) (depth - 1) v2 s2 Hm ltac:(lia) ltac:(lia) (eq_trans Hh1 Hh) (eq_trans Hsd1 Hsd) E2) as (-> & _). reflexivity.
    + destruct (some_pair_inv _ _ _ _ H) as [<- _]. right. split; [exact Ei|].
      apply andb_false_iff in Ec. destruct Ec as [Ec|Ec]; [apply Z.ltb_ge in Ec; exact Ec|apply Z.ltb_ge in Ec; lia].
Qed.

(* the root's move loop after the first move: alpha = best = the draw value, and nothing changes that *)
Lemma root_rest_drawn f in_chk depth : Z.of_nat f + 1 <= 2 * VB -> 2 <= depth ->
  forall ms idx s bm r, (forall m, In m ms -> In m (legal_moves p)) -> 1 <= idx ->
  TBnd (ss_tt s) -> ss_hist s = hist -> st_depth (ss_stats s) = D ->
  n_loop (negamax stopf f) p in_chk INF 0 depth ms idx s (- DRAW_SCORE) (- DRAW_SCORE) bm = Some r ->
  snd (fst (fst r)) = - DRAW_SCORE /\ snd (fst r) = bm.
Proof.
  intros Hf Hd.
  pose proof (eq_refl : INF = 10000000) as HI. pose proof (eq_refl : VB = 1000000) as HV.
  pose proof (eq_refl : DRAW_SCORE = -50) as HD.
  pose proof (negamax_nbnd_rec stopf f (2 * VB) ltac:(lia)) as Hr.
  assert (Hpl : 0 <= 0 + 1 <= 2 * VB - Z.of_nat f) by lia.
  induction ms as [|m ms IH]; intros idx s bm r Hms Hidx Ht Hh Hsd H; cbn [n_loop] in H.
  - injection H as <-. cbn [fst snd]. split; reflexivity.
  - match type of H with match ?x with _ => _ end = _ => destruct x as [[score s1]|] eqn:E; [|discriminate] end.
    assert (Hm : In m (legal_moves p)) by (apply Hms; left; reflexivity).
    assert (Hnp : InvSR (makemove true p m)) by exact (child_inv p m Hp Hm).
    set (s0 := push_hist (bump_nodes_ss s) (hash (makemove true p m))) in *.
    assert (Ht0 : TBnd (ss_tt s0)) by exact Ht.
    assert (Hh0 : ss_hist s0 = hash (makemove true p m) :: hist) by (unfold s0; cbn [ss_hist push_hist]; rewrite <- Hh; reflexivity).
    assert (Hsd0 : st_depth (ss_stats s0) = D) by exact Hsd.
    pose proof (search_move_bnd GenLegal.gen_legal _ _ _ _ _ _ _ _ _ _ _ _ _ _ Hr Hnp Ht0 Hpl E) as (_ & Ht1).
    pose proof (search_move_hist _ _ _ _ _ _ _ _ _ _ _ _ _ (negamax_keeps_history stopf f) E) as Hh1.
    pose proof (search_move_K _ _ _ _ _ _ _ _ _ _ _ _ _ (negamax_K stopf f) E) as (_ & Hsd1).
    assert (Ht1' : TBnd (ss_tt (pop_hist s1))) by exact Ht1.
    assert (Hh1' : ss_hist (pop_hist s1) = hist) by (unfold pop_hist; cbn [ss_hist]; rewrite Hh1, Hh0; reflexivity).
    assert (Hsd1' : st_depth (ss_stats (pop_hist s1)) = D) by (unfold pop_hist; cbn [ss_stats]; rewrite Hsd1; exact Hsd0).
    assert (Hsc : score <= - DRAW_SCORE).
    { destruct (search_move_drawn f in_chk depth idx m s0 (- DRAW_SCORE) score s1 Hf Hm Hd ltac:(lia) Ht0 Hh0 Hsd0 E) as [->|(_ & X)]; lia. }
    cbn zeta in H.
    destruct (Z.ltb_spec (- DRAW_SCORE) score) as [X|_]; [exfalso; lia|].
    destruct (Z.leb_spec INF (- DRAW_SCORE)) as [X|_]; [exfalso; lia|].
    assert (Hidx' : 1 <= idx + 1) by lia.
    exact (IH _ _ _ _ (fun x Hx => Hms x (or_intror Hx)) Hidx' Ht1' Hh1' Hsd1' H).
Qed.

(* the whole iteration *)
Lemma root_iter_drawn fuel s v s1 : Z.of_nat fuel <= 2 * VB -> 2 <= D ->
  TBnd (ss_tt s) -> ss_hist s = hist -> st_depth (ss_stats s) = D ->
  negamax stopf fuel p s (- INF) INF 0 D false = Some (v, s1) ->
  v = - DRAW_SCORE /\ (exists m, st_best (ss_stats s1) = Some m /\ In m (legal_moves p)) /\
  TBnd (ss_tt s1) /\ ss_hist s1 = hist /\ st_depth (ss_stats s1) = D.
Proof.
  intros Hf HD Ht Hh Hsd H.
  pose proof (eq_refl : INF = 10000000) as HI. pose proof (eq_refl : VB = 1000000) as HV.
  pose proof (eq_refl : DRAW_SCORE = -50) as HDS.
  pose proof (negamax_bnd stopf GenLegal.gen_legal fuel (2 * VB) ltac:(lia) p s _ _ 0 _ _ _ _ Hp Ht ltac:(lia) ltac:(lia) H) as (_ & Ht1).
  pose proof (negamax_keeps_history stopf fuel _ _ _ _ _ _ _ _ _ H) as Hh1.
  pose proof (negamax_K stopf fuel _ _ _ _ _ _ _ _ _ H) as (_ & Hsd1).
  assert (Hrest : v = - DRAW_SCORE /\ exists m, st_best (ss_stats s1) = Some m /\ In m (legal_moves p)).
  { destruct fuel as [|f]; [discriminate|]. rewrite Nat2Z.inj_succ in Hf.
    apply root_node in H; [|lia].
    destruct H as [(Es & _)|(tte & r & _ & El & Hfin)].
    { rewrite (Hstop _ (eq_trans (upd_depth s 0) Hsd)) in Es. discriminate. }
    set (d' := if in_check p then D + 1 else D) in *.
    assert (Hd' : 2 <= d') by (unfold d'; destruct (in_check p); lia).
    pose proof (sort_n_perm p (legal_moves p) (ttm_of p tte)) as Hperm.
    remember (sort_n p (legal_moves p) (ttm_of p tte)) as ms eqn:Ems. clear Ems.
    destruct ms as [|m0 ms]; [exfalso; apply Hne; exact (Permutation_nil Hperm)|].
    assert (Hleg : forall m, In m (m0 :: ms) -> In m (legal_moves p)) by (intros m Hm; exact (Permutation_in _ Hperm Hm)).
    assert (Hm0 : In m0 (legal_moves p)) by (apply Hleg; left; reflexivity).
    assert (Hnp : InvSR (makemove true p m0)) by exact (child_inv p m0 Hp Hm0).
    pose proof (negamax_nbnd_rec stopf f (2 * VB) ltac:(lia)) as Hr.
    assert (Hpl : 0 <= 0 + 1 <= 2 * VB - Z.of_nat f) by lia.
    cbn [n_loop] in El.
    match type of El with match ?x with _ => _ end = _ => destruct x as [[score sx]|] eqn:E; [|discriminate] end.
    set (s0 := push_hist (bump_nodes_ss (upd s 0)) (hash (makemove true p m0))) in *.
    assert (Ht0 : TBnd (ss_tt s0)) by exact Ht.
    assert (Hh0 : ss_hist s0 = hash (makemove true p m0) :: hist) by (unfold s0; cbn [ss_hist push_hist]; rewrite <- Hh; reflexivity).
    assert (Hsd0 : st_depth (ss_stats s0) = D) by exact Hsd.
    pose proof (search_move_bnd GenLegal.gen_legal _ _ _ _ _ _ _ _ _ _ _ _ _ _ Hr Hnp Ht0 Hpl E) as (_ & Htx).
    pose proof (search_move_hist _ _ _ _ _ _ _ _ _ _ _ _ _ (negamax_keeps_history stopf f) E) as Hhx.
    pose proof (search_move_K _ _ _ _ _ _ _ _ _ _ _ _ _ (negamax_K stopf f) E) as (_ & Hsdx).
    assert (Htx' : TBnd (ss_tt (pop_hist sx))) by exact Htx.
    assert (Hhx' : ss_hist (pop_hist sx) = hist) by (unfold pop_hist; cbn [ss_hist]; rewrite Hhx, Hh0; reflexivity).
    assert (Hsdx' : st_depth (ss_stats (pop_hist sx)) = D) by (unfold pop_hist; cbn [ss_stats]; rewrite Hsdx; exact Hsd0).
    assert (Hsc : score = - DRAW_SCORE).
    { destruct (search_move_drawn f (in_check p) d' 0 m0 s0 (- INF) score sx ltac:(lia) Hm0 Hd' ltac:(lia) Ht0 Hh0 Hsd0 E) as [X|(X & _)];
        [exact X|exfalso; apply X; reflexivity]. }
    subst score. cbn zeta in El.
    destruct (Z.ltb_spec (- INF) (- DRAW_SCORE)) as [_|X]; [|exfalso; lia].
    destruct (Z.leb_spec INF (- DRAW_SCORE)) as [X|_]; [exfalso; lia|].
    apply (root_rest_drawn f (in_check p) d' ltac:(lia) Hd') in El;
      [|exact (fun x Hx => Hleg x (or_intror Hx))|lia|exact Htx'|exact Hhx'|exact Hsdx'].
    destruct El as (Eb & Ebm). destruct r as [[[al be] bm] sL]. cbn [fst snd] in *. subst be bm.
    unfold nm_finish in Hfin.
    match type of Hfin with match ?x with _ => _ end = _ => destruct x as [tt'|]; [|discriminate] end.
    destruct (some_pair_inv _ _ _ _ Hfin) as [<- <-]. split; [reflexivity|].
    exists m0. cbn [ss_stats set_best st_best]. split; [reflexivity|exact Hm0]. }
  destruct Hrest as (Hv & Hbm). split; [exact Hv|]. split; [exact Hbm|]. split; [exact Ht1|].
  split; [rewrite Hh1; exact Hh|rewrite Hsd1; exact Hsd].
Qed.

End Root.

(* ------------------------------------------------------------------ all iterations *)
Section Iterations.
Variable stopf : Stats -> bool.
Variable p : Position.
Variable hist : list N.
Variable d : Z.                                  (* the iterations 1 .. d are not interrupted *)

Hypothesis Hp : InvSR p.
Hypothesis Hne : legal_moves p <> [].
Hypothesis Hdrawn : forall m, In m (legal_moves p) -> rule_drawn (makemove true p m) hist.
(* the stop predicate is false up to iteration d, and from iteration d + 1 on (if there is one) it is true *)
Hypothesis HA : forall st, st_depth st <= d -> stopf st = false.
Hypothesis HB : MAX_DEPTH <= d + 1 \/ forall st, d < st_depth st -> stopf st = true.

Definition AllDrawn (l : list Info) : Prop := forall i, In i l -> 2 <= i_depth i -> i_score i = - DRAW_SCORE.

Lemma ret_drawn best infos s : AllDrawn infos -> AllDrawn (rr_infos (mkRR best (rev infos) s)).
Proof. intros Hi i Hin. cbn [rr_infos] in Hin. apply in_rev in Hin. exact (Hi i Hin). Qed.

Lemma root_loop_drawn_any : 1 <= d -> forall n fuel depth s best infos r, Z.of_nat fuel <= 2 * VB -> 1 <= depth <= d + 1 ->
  TBnd (ss_tt s) -> ss_hist s = hist -> AllDrawn infos ->
  root_loop stopf n fuel p depth s best infos = Some r -> AllDrawn (rr_infos r).
Proof.
  intros Hd1.
  induction n as [|n IH]; intros fuel depth s best infos r Hf Hd Ht Hh Hi H; cbn [root_loop] in H.
  - injection H as <-. exact (ret_drawn best infos s Hi).
  - destruct (Z.leb_spec MAX_DEPTH depth) as [Hmax|Hmax]; [injection H as <-; exact (ret_drawn best infos s Hi)|].
    cbv zeta in H.
    match type of H with match ?x with _ => _ end = _ => destruct x as [[score s1]|] eqn:E; [|discriminate] end.
    match type of E with negamax _ _ _ ?s0' _ _ _ _ _ = _ => set (s0 := s0') in * end.
    assert (Ht0 : TBnd (ss_tt s0)) by exact Ht.
    assert (Hh0 : ss_hist s0 = hist) by exact Hh.
    assert (Hsd0 : st_depth (ss_stats s0) = depth) by reflexivity.
    pose proof (negamax_K stopf fuel _ _ _ _ _ _ _ _ _ E) as (_ & Hsd1). rewrite Hsd0 in Hsd1.
    destruct (Z_le_gt_dec depth d) as [Hle|Hgt].
    + assert (Hst : forall st, st_depth st = depth -> stopf st = false) by (intros st Es; apply HA; lia).
      assert (Hfacts : TBnd (ss_tt s1) /\ ss_hist s1 = hist /\ (2 <= depth -> score = - DRAW_SCORE)).
      { destruct (Z_le_gt_dec 2 depth) as [H2|H2].
        - destruct (root_iter_drawn stopf p hist depth Hp Hne Hdrawn Hst fuel s0 score s1 Hf H2 Ht0 Hh0 Hsd0 E) as (Hv & _ & Ht1 & Hh1 & _).
          split; [exact Ht1|]. split; [exact Hh1|]. intros _. exact Hv.
        - pose proof (negamax_bnd stopf GenLegal.gen_legal fuel (2 * VB) ltac:(lia) p s0 _ _ 0 _ _ _ _ Hp Ht0 ltac:(lia) ltac:(lia) E) as (_ & Ht1).
          pose proof (negamax_keeps_history stopf fuel _ _ _ _ _ _ _ _ _ E) as Hh1.
          split; [exact Ht1|]. split; [rewrite Hh1; exact Hh0|]. intros X. exfalso. lia. }
      destruct Hfacts as (Ht1 & Hh1 & Hv).
      destruct (st_best (ss_stats s1)) as [bm|]; [|injection H as <-; exact (ret_drawn None infos s1 Hi)].
      destruct ((1 <? depth) && stopf (ss_stats s1)); [injection H as <-; exact (ret_drawn best infos s1 Hi)|].
      refine (IH _ _ _ _ _ _ Hf _ Ht1 Hh1 _ H); [lia|].
      intros i [<-|Hin]; [|exact (Hi i Hin)]. cbn [i_depth i_score]. rewrite Hsd1. exact Hv.
    + destruct HB as [HB1|HB2]; [exfalso; lia|].
      assert (Es1 : stopf (ss_stats s1) = true) by (apply HB2; lia).
      destruct (st_best (ss_stats s1)) as [bm|]; [|injection H as <-; exact (ret_drawn None infos s1 Hi)].
      rewrite Es1 in H. destruct (Z.ltb_spec 1 depth) as [_|X]; [|exfalso; lia]. cbn [andb] in H.
      injection H as <-. exact (ret_drawn best infos s1 Hi).
Qed.

Theorem root_drawn_any fuel tt r : Z.of_nat fuel <= 2 * VB -> 1 <= d -> TBnd tt ->
  root stopf fuel p hist tt = Some r -> AllDrawn (rr_infos r).
Proof.
  intros Hf Hd Ht H. unfold root in H.
  refine (root_loop_drawn_any Hd 128 fuel 1 (mkSS hist tt stats0) None [] r Hf _ Ht eq_refl _ H); [lia|].
  intros i [].
Qed.

End Iterations.

(* ------------------------------------------------------------------ C11, any bounded table *)
(* depth limit d >= 1 ("go depth d"): the iterations 1 .. d are searched; those of depth >= 2 report the draw value *)
Theorem root_all_drawn_any_table d fuel p hist tt r :
  InvSR p -> TBnd tt -> Z.of_nat fuel <= 2 * MATE_SCORE -> legal_moves p <> [] ->
  (forall m, In m (legal_moves p) -> rule_drawn (makemove true p m) hist) ->
  1 <= d ->
  root (stop_of (LDepth d)) fuel p hist tt = Some r ->
  (forall i, In i (rr_infos r) -> 2 <= i_depth i -> i_score i = - DRAW_SCORE)
  /\ exists m, rr_best r = Some m /\ In m (legal_moves p).
Proof.
  intros Hp Ht Hf Hne Hdr Hd H. split.
  - refine (root_drawn_any (stop_of (LDepth d)) p hist d Hp Hne Hdr _ _ fuel tt r Hf ltac:(lia) Ht H).
    + intros st Hs. cbn [stop_of]. apply Z.ltb_ge. exact Hs.
    + right. intros st Hs. cbn [stop_of]. apply Z.ltb_lt. exact Hs.
  - exact (GenLegal.search_answers_with_a_legal_move (stop_of (LDepth d)) fuel p hist tt r Hp Ht Hf Hne H).
Qed.

(* no limit ("go infinite" in the model: all 127 iterations) *)
Theorem root_all_drawn_any_table_unlimited fuel p hist tt r :
  InvSR p -> TBnd tt -> Z.of_nat fuel <= 2 * MATE_SCORE -> legal_moves p <> [] ->
  (forall m, In m (legal_moves p) -> rule_drawn (makemove true p m) hist) ->
  root (stop_of LNever) fuel p hist tt = Some r ->
  (forall i, In i (rr_infos r) -> 2 <= i_depth i -> i_score i = - DRAW_SCORE)
  /\ exists m, rr_best r = Some m /\ In m (legal_moves p).
Proof.
  intros Hp Ht Hf Hne Hdr H. split.
  - refine (root_drawn_any (stop_of LNever) p hist 127 Hp Hne Hdr _ _ fuel tt r Hf ltac:(lia) Ht H).
    + intros st _. reflexivity.
    + left. unfold MAX_DEPTH. lia.
  - exact (GenLegal.search_answers_with_a_legal_move (stop_of LNever) fuel p hist tt r Hp Ht Hf Hne H).
Qed.

Print Assumptions root_all_drawn_any_table.
Print Assumptions root_all_drawn_any_table_unlimited.

(* ------------------------------------------------------------------ a worked example: the position of RootDraw.v (K+R v K,
   fifty-move clock at 99: every one of the 15 legal moves brings the clock to 100) on a table that is bounded but
   misleading: under the key of EVERY successor it holds an exact entry of depth 100 saying "the side to move here is
   being mated" (score - 900000).  RootDraw.root_all_drawn does not apply (the table is not empty); the theorem above
   does.  The first iteration believes nothing either way (horizon: quiescence); iterations 2 .. 4 report 50: the
   zero-window searches of the later moves do return the misleading 900000, the re-search on the open window corrects
   it. *)
Definition ex_poison (t : TTable) (m : Mv) : TTable :=
  let k := hash (makemove true RootDraw.ex_pos m) in
  match tt_add t k (mkTT k 0 0 0 (- 900000) 100 0) with Some t' => t' | None => t end.

Definition ex_table : TTable := fold_left ex_poison (legal_moves RootDraw.ex_pos) (tt_new 1).

Lemma ex_poison_TBnd t m : TBnd t -> TBnd (ex_poison t m).
Proof.
  intros Ht. unfold ex_poison. cbv zeta.
  match goal with |- context [tt_add ?t0 ?k ?e] => destruct (tt_add t0 k e) as [t'|] eqn:E; [|exact Ht];
    refine (TBnd_add t0 k e t' Ht _ E) end.
  unfold VB, MATE_SCORE. cbn [e_score]. lia.
Qed.

Lemma ex_table_TBnd : TBnd ex_table.
Proof.
  unfold ex_table. generalize (TBnd_new 1). generalize (tt_new 1).
  induction (legal_moves RootDraw.ex_pos) as [|m l IH]; intros t Ht; cbn [fold_left]; [exact Ht|].
  apply IH. exact (ex_poison_TBnd t m Ht).
Qed.

(* every successor's entry is really there *)
Example ex_table_poisoned :
  forallb (fun m => match tt_poll ex_table (hash (makemove true RootDraw.ex_pos m)) with
                    | Some e => (e_hash e =? hash (makemove true RootDraw.ex_pos m))%N && (e_score e =? - 900000)
                    | None => false
                    end) (legal_moves RootDraw.ex_pos) = true.
Proof. vm_compute. reflexivity. Qed.

Example ex_run_poisoned :
  match root (stop_of (LDepth 4)) 50 RootDraw.ex_pos [hash RootDraw.ex_pos] ex_table with
  | Some r => map (fun i => (i_depth i, i_score i)) (rr_infos r)
  | None => []
  end = [(1, 512); (2, 50); (3, 50); (4, 50)].
Proof. vm_compute. reflexivity. Qed.

Example ex_theorem_poisoned d fuel r : Z.of_nat fuel <= 2 * MATE_SCORE -> 1 <= d ->
  root (stop_of (LDepth d)) fuel RootDraw.ex_pos [hash RootDraw.ex_pos] ex_table = Some r ->
  (forall i, In i (rr_infos r) -> 2 <= i_depth i -> i_score i = - DRAW_SCORE)
  /\ exists m, rr_best r = Some m /\ In m (legal_moves RootDraw.ex_pos).
Proof.
  intros Hf Hd H. destruct RootDraw.ex_premises as (Hp & Hne & _ & Hdr).
  exact (root_all_drawn_any_table d fuel RootDraw.ex_pos [hash RootDraw.ex_pos] ex_table r Hp ex_table_TBnd Hf Hne Hdr Hd H).
Qed.
