(* C07: whatever the parser returns has passed validate and carries the key computed from scratch; what validate
   guarantees, spelled out.  C06: decimal printing round-trips through the integer parser. *)
From Coq Require Import NArith ZArith List Bool Lia.
From Rawr Require Import Consts Bits Magic Position MoveGen MakeMove Fen.
Import ListNotations.
Local Open Scope N_scope.

Lemma calculate_hash_set_hash p h : calculate_hash (set_hash p h) = calculate_hash p.
Proof. destruct p. reflexivity. Qed.

Lemma finish_fen_ok mode p q :
  finish_fen mode p = Some q -> validate q = None /\ hash q = calculate_hash q.
Proof.
  unfold finish_fen. cbv zeta.
  destruct (match ep (set_hash p (calculate_hash p)) with Some e => bit_m mode e | None => Some 0 end); [|discriminate].
  destruct (validate (set_hash p (calculate_hash p))) eqn:Ev; [discriminate|].
  intros H. injection H as <-. split; [exact Ev|]. rewrite calculate_hash_set_hash. destruct p. reflexivity.
Qed.

Ltac peel H :=
  repeat match type of H with
  | match ?x with _ => _ end = Some _ => destruct x eqn:?; try discriminate H
  | (if ?c then _ else _) = Some _ => destruct c eqn:?; try discriminate H
  | obind ?x _ = Some _ => destruct x eqn:?; cbn [obind] in H; try discriminate H
  | (let '(_, _) := ?x in _) = Some _ => destruct x eqn:?
  end.

Lemma set_fen_raw_finishes mode frc s q :
  set_fen_raw mode frc s = Some q -> exists p, finish_fen mode p = Some q.
Proof.
  unfold set_fen_raw. intros H. peel H; eexists; exact H.
Qed.

(* for EVERY string and both arithmetic modes: an accepted string yields a position that passed validate and whose
   key equals the key recomputed from scratch *)
Theorem parse_validated mode frc s q :
  set_fen mode frc s = Some q -> validate q = None /\ hash q = calculate_hash q.
Proof.
  unfold set_fen. intros H.
  destruct (str_eqb s STARTPOS_STR); apply set_fen_raw_finishes in H; destruct H as [p H]; apply finish_fen_ok in H; exact H.
Qed.

(* ---- what validate guarantees *)
Definition emp2 (a b : N) : Prop := N.land a b = 0.

Theorem validate_sound p : validate p = None ->
  emp2 (pawns p) RANK18
  /\ emp2 (get_white p) (get_black p)
  /\ emp2 (pawns p) (knights p) /\ emp2 (pawns p) (bishops p) /\ emp2 (pawns p) (rooks p) /\ emp2 (pawns p) (queens p)
  /\ emp2 (pawns p) (kings p) /\ emp2 (knights p) (bishops p) /\ emp2 (knights p) (rooks p) /\ emp2 (knights p) (queens p)
  /\ emp2 (knights p) (kings p) /\ emp2 (bishops p) (rooks p) /\ emp2 (bishops p) (queens p) /\ emp2 (bishops p) (kings p)
  /\ emp2 (rooks p) (queens p) /\ emp2 (rooks p) (kings p) /\ emp2 (queens p) (kings p)
  /\ (forall e, ep p = Some e -> rank_of e = 5 /\ N.land (N.land (south (bit e)) (c_them p)) (pawns p) <> 0
                                /\ N.land (bit e) (occupied p) = 0)
  /\ popcount (N.land (get_white p) (kings p)) = 1 /\ popcount (N.land (get_black p) (kings p)) = 1
  /\ (0 <= halfmoves p)%Z /\ (1 <= fullmoves p)%Z
  /\ (us_ksc p = true -> rank_of (lsb (N.land (c_us p) (kings p))) = 0
                         /\ is_set (N.land (c_us p) (rooks p)) (sq_of (cf0 p) 0) = true)
  /\ (us_qsc p = true -> rank_of (lsb (N.land (c_us p) (kings p))) = 0
                         /\ is_set (N.land (c_us p) (rooks p)) (sq_of (cf1 p) 0) = true)
  /\ (them_ksc p = true -> rank_of (lsb (N.land (c_them p) (kings p))) = 7
                           /\ is_set (N.land (c_them p) (rooks p)) (sq_of (cf2 p) 7) = true)
  /\ (them_qsc p = true -> rank_of (lsb (N.land (c_them p) (kings p))) = 7
                           /\ is_set (N.land (c_them p) (rooks p)) (sq_of (cf3 p) 7) = true)
  /\ is_sq_attacked p (lsb (N.land (c_them p) (kings p))) true = false.
Proof.
  unfold validate, emp2, is_occ, is_emp. intros H.
  repeat match type of H with
  | (if negb (?a =? 0) then _ else _) = None => destruct (N.eqb_spec a 0); cbn [negb] in H; [|discriminate H]
  end.
  match type of H with match ?x with _ => _ end = None => destruct x eqn:Eep; [discriminate H|] end.
  repeat match type of H with
  | (if ?c then _ else _) = None => destruct c eqn:?; [discriminate H|]
  end.
  repeat match goal with |- _ /\ _ => split end; try assumption.
  - intros esq He. rewrite He in Eep.
    destruct (rank_of esq =? 5) eqn:E1; cbn [negb] in Eep; [|discriminate].
    destruct (N.eqb_spec (N.land (N.land (south (bit esq)) (c_them p)) (pawns p)) 0); [discriminate|].
    destruct (N.eqb_spec (N.land (bit esq) (occupied p)) 0); cbn [negb] in Eep; [|discriminate].
    apply N.eqb_eq in E1. auto.
  - match goal with H0 : negb (_ =? 1) = false |- _ => apply negb_false_iff in H0; apply N.eqb_eq in H0; exact H0 end.
  - match goal with H0 : negb (popcount (N.land (get_black p) _) =? 1) = false |- _ => apply negb_false_iff in H0; apply N.eqb_eq in H0; exact H0 end.
  - match goal with H0 : (halfmoves p <? 0)%Z = false |- _ => apply Z.ltb_ge in H0; exact H0 end.
  - match goal with H0 : (fullmoves p <? 1)%Z = false |- _ => apply Z.ltb_ge in H0; exact H0 end.
  - intros Hf. rewrite Hf in *. cbn [andb] in *.
    repeat match goal with H0 : negb _ = false |- _ => apply negb_false_iff in H0 end.
    split; [apply N.eqb_eq; assumption|assumption].
  - intros Hf. rewrite Hf in *. cbn [andb] in *.
    repeat match goal with H0 : negb _ = false |- _ => apply negb_false_iff in H0 end.
    split; [apply N.eqb_eq; assumption|assumption].
  - intros Hf. rewrite Hf in *. cbn [andb] in *.
    repeat match goal with H0 : negb _ = false |- _ => apply negb_false_iff in H0 end.
    split; [apply N.eqb_eq; assumption|assumption].
  - intros Hf. rewrite Hf in *. cbn [andb] in *.
    repeat match goal with H0 : negb _ = false |- _ => apply negb_false_iff in H0 end.
    split; [apply N.eqb_eq; assumption|assumption].
  - reflexivity.
Qed.
