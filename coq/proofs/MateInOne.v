(* C12: a mate in one is found and played.

   If the side to move at the root p has a move M that checkmates, the search (any iteration that is not interrupted)
   answers with a move that checkmates and reports MATE_SCORE - 1, whatever bounded entries the transposition table
   holds.  The root is a PV node on the window (- INF, INF); by proofs/WindowHonest.v a score of a root move that
   exceeds the running alpha is honest, so nothing can beat MATE_SCORE - 1 and only a mating move can reach it; and
   the mated child itself always answers - MATE_SCORE + 1 provided (premises, all needed):
     (P1) the fifty-move counter of p is below 99, so the child's counter is below 100 (no fifty-move draw there);
     (P2) the mated position is not seen as a repetition by the child's draw test;
     (P3) the table never answers for the key k of the mated position: no entry carries k initially (`NoKey`), and no
          position of the search tree that has a legal move (only such positions are stored) has the key k (`SafeN`,
          a no-collision premise; the mated position itself is never stored because it has no move);
     (P4) the stop predicate does not fire during the iteration.

   About (P3), the tree.  `SafeN fuel k p` speaks only about the positions that are at most `fuel` plies (generated
   moves, and null moves out of check) away from the root p, where `fuel` is the fuel argument `root` is run with:
   `negamax (S f)` searches the children of its node with `negamax f`, so a run with fuel `fuel` cannot reach (let alone
   store) anything further away.  It concerns collisions with ONE key, the key k of the mated position: nothing is
   assumed about two other positions of the tree sharing a key.  The result of `root` does not depend on the fuel once
   it is defined (proofs/FuelFacts.v, `root_fuel_mono`), so the premise may be checked for the smallest fuel with which
   the search returns: this is `mate_in_one_is_played_anyfuel` below (`root` with fuel0 returns, `SafeN fuel0`, and the
   conclusion holds for every run with fuel >= fuel0, with no bound on that fuel).
   `SafeN n k p` is decidable by enumeration for small n (`safeb`, `safeb_sound`); in the worked example at the end of
   the file it is discharged by computation for fuel 3 (`ex_closed`: no premise about the tree is left).
   The earlier, much stronger premise `Safe k p` (NO position reachable from p by any number of moves has the key k -- in
   a middlegame that set is so large that the premise is practically false) implies `SafeN n k p` for every n
   (`Safe_SafeN`); the statements with that premise are kept as the corollaries `mate_in_one_is_played_safe`,
   `mate_in_one_is_played_unlimited_safe`, `mate_in_one_is_played_fresh_safe`. *)
From Coq Require Import NArith ZArith List Bool Lia Permutation.
From Rawr Require Import Consts Bits Magic Position MoveGen MakeMove MakeStages Eval TT Search
                         Closure MenCount EpRetro TTFacts SearchFacts SearchFacts2 SearchBound RootDraw WindowHonest.
From Rawr Require GenLegal SearchTotal FuelFacts.
Import ListNotations.
Local Open Scope Z_scope.

(* ------------------------------------------------------------------ (P3) the table never answers for the key k *)
Definition NoKey (k : N) (t : TTable) : Prop := forall i, e_hash (slot TTEntry tt_default t i) <> k.

(* the positions the main search can visit from p: generated moves, and null moves out of check (quiescence nodes
   never touch the table) *)
Inductive Reach (p : Position) : Position -> Prop :=
| reach_refl : Reach p p
| reach_move q m : Reach p q -> In m (legal_moves q) -> Reach p (makemove true q m)
| reach_null q : Reach p q -> in_check q = false -> Reach p (makenull q).

Definition Safe (k : N) (p : Position) : Prop := forall q, Reach p q -> legal_moves q <> [] -> hash q <> k.

Lemma Reach_trans p q r : Reach p q -> Reach q r -> Reach p r.
Proof.
  intros Hpq Hqr. induction Hqr as [|r m _ IH Hm|r _ IH Hc]; [exact Hpq|exact (reach_move p r m IH Hm)|exact (reach_null p r IH Hc)].
Qed.

Lemma Safe_move k p m : Safe k p -> In m (legal_moves p) -> Safe k (makemove true p m).
Proof. intros H Hm q Hq. apply H. exact (Reach_trans p _ q (reach_move p p m (reach_refl p) Hm) Hq). Qed.
Lemma Safe_null k p : Safe k p -> in_check p = false -> Safe k (makenull p).
Proof. intros H Hc q Hq. apply H. exact (Reach_trans p _ q (reach_null p p (reach_refl p) Hc) Hq). Qed.
Lemma Safe_self k p : Safe k p -> legal_moves p <> [] -> hash p <> k.
Proof. intros H. exact (H p (reach_refl p)). Qed.

(* the same, counting the steps: `ReachN p n q` = q is reachable from p in at most n steps.  The search started with
   fuel n visits only such positions *)
Inductive ReachN (p : Position) : nat -> Position -> Prop :=
| reachn_refl n : ReachN p n p
| reachn_move n q m : ReachN p n q -> In m (legal_moves q) -> ReachN p (S n) (makemove true q m)
| reachn_null n q : ReachN p n q -> in_check q = false -> ReachN p (S n) (makenull q).

Definition SafeN (n : nat) (k : N) (p : Position) : Prop := forall q, ReachN p n q -> legal_moves q <> [] -> hash q <> k.

Lemma ReachN_S p n q : ReachN p n q -> ReachN p (S n) q.
Proof.
  intros H. induction H as [n|n q m _ IH Hm|n q _ IH Hc];
    [exact (reachn_refl p (S n))|exact (reachn_move p (S n) q m IH Hm)|exact (reachn_null p (S n) q IH Hc)].
Qed.
Lemma ReachN_le p n n' q : (n <= n')%nat -> ReachN p n q -> ReachN p n' q.
Proof. intros Hle H. induction Hle as [|n' _ IH]; [exact H|exact (ReachN_S p n' q IH)]. Qed.
Lemma ReachN_trans p a q b r : ReachN p a q -> ReachN q b r -> ReachN p (a + b) r.
Proof.
  intros Hpq Hqr. induction Hqr as [b|b r m _ IH Hm|b r _ IH Hc].
  - exact (ReachN_le p a (a + b) q (Nat.le_add_r a b) Hpq).
  - rewrite Nat.add_succ_r. exact (reachn_move p (a + b) r m IH Hm).
  - rewrite Nat.add_succ_r. exact (reachn_null p (a + b) r IH Hc).
Qed.
Lemma ReachN_Reach p n q : ReachN p n q -> Reach p q.
Proof.
  intros H. induction H as [n|n q m _ IH Hm|n q _ IH Hc]; [exact (reach_refl p)|exact (reach_move p q m IH Hm)|exact (reach_null p q IH Hc)].
Qed.
Lemma Reach_ReachN p q : Reach p q -> exists n, ReachN p n q.
Proof.
  intros H. induction H as [|q m _ (n & IH) Hm|q _ (n & IH) Hc];
    [exists 0%nat; exact (reachn_refl p 0)|exists (S n); exact (reachn_move p n q m IH Hm)|exists (S n); exact (reachn_null p n q IH Hc)].
Qed.

Lemma SafeN_move n k p m : SafeN (S n) k p -> In m (legal_moves p) -> SafeN n k (makemove true p m).
Proof. intros H Hm q Hq. apply H. exact (ReachN_trans p 1 _ n q (reachn_move p 0 p m (reachn_refl p 0) Hm) Hq). Qed.
Lemma SafeN_null n k p : SafeN (S n) k p -> in_check p = false -> SafeN n k (makenull p).
Proof. intros H Hc q Hq. apply H. exact (ReachN_trans p 1 _ n q (reachn_null p 0 p (reachn_refl p 0) Hc) Hq). Qed.
Lemma SafeN_self n k p : SafeN n k p -> legal_moves p <> [] -> hash p <> k.
Proof. intros H. exact (H p (reachn_refl p n)). Qed.
Lemma SafeN_S n k p : SafeN (S n) k p -> SafeN n k p.
Proof. intros H q Hq. apply H. exact (ReachN_S p n q Hq). Qed.
Lemma SafeN_le n n' k p : (n <= n')%nat -> SafeN n' k p -> SafeN n k p.
Proof. intros Hle H q Hq. apply H. exact (ReachN_le p n n' q Hle Hq). Qed.
(* the old premise is the conjunction of the new ones over all n *)
Lemma Safe_SafeN n k p : Safe k p -> SafeN n k p.
Proof. intros H q Hq. apply H. exact (ReachN_Reach p n q Hq). Qed.
Lemma SafeN_all_Safe k p : (forall n, SafeN n k p) -> Safe k p.
Proof. intros H q Hq. destruct (Reach_ReachN p q Hq) as (n & Hn). exact (H n q Hn). Qed.

(* `SafeN n k p` is decidable by enumeration (feasible for small n): the positions are taken from the root outwards *)
Fixpoint safeb (n : nat) (k : N) (p : Position) : bool :=
  (match legal_moves p with [] => true | _ => negb (hash p =? k)%N end) &&
  match n with
  | O => true
  | S n' => forallb (fun m => safeb n' k (makemove true p m)) (legal_moves p) && (in_check p || safeb n' k (makenull p))
  end.

Lemma ReachN_head p n q : ReachN p n q ->
  q = p \/ exists n', n = S n' /\ ((exists m, In m (legal_moves p) /\ ReachN (makemove true p m) n' q)
                                   \/ (in_check p = false /\ ReachN (makenull p) n' q)).
Proof.
  intros H. induction H as [n|n q m H IH Hm|n q H IH Hc].
  - left. reflexivity.
  - right. exists n. split; [reflexivity|]. destruct IH as [->|(n' & -> & [(m0 & Hm0 & Hr)|(Hc0 & Hr)])].
    + left. exists m. split; [exact Hm|exact (reachn_refl _ n)].
    + left. exists m0. split; [exact Hm0|exact (reachn_move _ n' q m Hr Hm)].
    + right. split; [exact Hc0|exact (reachn_move _ n' q m Hr Hm)].
  - right. exists n. split; [reflexivity|]. destruct IH as [->|(n' & -> & [(m0 & Hm0 & Hr)|(Hc0 & Hr)])].
    + right. split; [exact Hc|exact (reachn_refl _ n)].
    + left. exists m0. split; [exact Hm0|exact (reachn_null _ n' q Hr Hc)].
    + right. split; [exact Hc0|exact (reachn_null _ n' q Hr Hc)].
Qed.

Lemma safeb_sound k : forall n p, safeb n k p = true -> SafeN n k p.
Proof.
  induction n as [|n IH]; intros p H q Hq Hne; cbn [safeb] in H; apply andb_true_iff in H; destruct H as [H0 H1].
  - destruct (ReachN_head p 0 q Hq) as [->|(n' & E & _)]; [|discriminate E].
    destruct (legal_moves p); [exfalso; apply Hne; reflexivity|]. apply negb_true_iff in H0. apply N.eqb_neq. exact H0.
  - destruct (ReachN_head p (S n) q Hq) as [->|(n' & E & Hr)].
    + destruct (legal_moves p); [exfalso; apply Hne; reflexivity|]. apply negb_true_iff in H0. apply N.eqb_neq. exact H0.
    + injection E as <-. apply andb_true_iff in H1. destruct H1 as [Hm Hn]. destruct Hr as [(m & Hin & Hr)|(Hc & Hr)].
      * rewrite forallb_forall in Hm. exact (IH _ (Hm m Hin) q Hr Hne).
      * rewrite Hc in Hn. cbn [orb] in Hn. exact (IH _ Hn q Hr Hne).
Qed.

Lemma NoKey_add k t key e t' : NoKey k t -> e_hash e <> k -> tt_add t key e = Some t' -> NoKey k t'.
Proof.
  intros Ht He H. unfold tt_add, t_add in H. destruct (get_idx TTEntry t key) as [i|]; [|discriminate]. injection H as <-.
  intros j. rewrite (slot_add TTEntry tt_default t i e j). destruct (j =? i)%N; [exact He|exact (Ht j)].
Qed.
Lemma NoKey_poll k t key e : NoKey k t -> tt_poll t key = Some e -> e_hash e <> k.
Proof.
  intros Ht H. unfold tt_poll, t_poll in H. destruct (get_idx TTEntry t key) as [i|]; [|discriminate]. injection H as <-. exact (Ht i).
Qed.

Section NoKeyThread.
Variable stopf : Stats -> bool.
Variable k : N.

(* n = the number of plies below its node that rec may explore *)
Definition nkey (rec : NRec) (n : nat) : Prop :=
  forall q s a b pl d cn v s', rec q s a b pl d cn = Some (v, s') -> NoKey k (ss_tt s) -> SafeN n k q -> NoKey k (ss_tt s').

Lemma search_move_nk rec n p in_chk beta ply depth idx m np s alpha score s' : nkey rec n -> SafeN n k np -> NoKey k (ss_tt s) ->
  search_move rec p in_chk beta ply depth idx m np s alpha = Some (score, s') -> NoKey k (ss_tt s').
Proof.
  intros Hr Hs Ht H. unfold search_move in H. destruct (idx =? 0).
  - destruct (rec np s (- beta) (- alpha) (ply + 1) (depth - 1) true) as [[v s1]|] eqn:E; [|discriminate].
    destruct (some_pair_inv _ _ _ _ H) as [_ <-]. exact (Hr _ _ _ _ _ _ _ _ _ E Ht Hs).
  - match type of H with match ?r with _ => _ end = _ => destruct r as [[v s1]|] eqn:E; [|discriminate] end.
    pose proof (Hr _ _ _ _ _ _ _ _ _ E Ht Hs) as Ht1. cbn zeta in H.
    destruct ((alpha <? - v) && (- v <? beta)).
    + destruct (rec np s1 (- beta) (- alpha) (ply + 1) (depth - 1) true) as [[v2 s2]|] eqn:E2; [|discriminate].
      destruct (some_pair_inv _ _ _ _ H) as [_ <-]. exact (Hr _ _ _ _ _ _ _ _ _ E2 Ht1 Hs).
    + destruct (some_pair_inv _ _ _ _ H) as [_ <-]. exact Ht1.
Qed.

Lemma n_loop_nk rec n p in_chk beta ply depth : nkey rec n -> SafeN (S n) k p ->
  forall ms idx s alpha best bm r, (forall m, In m ms -> In m (legal_moves p)) -> NoKey k (ss_tt s) ->
  n_loop rec p in_chk beta ply depth ms idx s alpha best bm = Some r -> NoKey k (ss_tt (snd r)).
Proof.
  intros Hr Hs. induction ms as [|m ms IH]; intros idx s alpha best bm r Hms Ht H; cbn [n_loop] in H.
  - injection H as <-. cbn [snd]. exact Ht.
  - match type of H with match ?x with _ => _ end = _ => destruct x as [[score s1]|] eqn:E; [|discriminate] end.
    assert (Hm : In m (legal_moves p)) by (apply Hms; left; reflexivity).
    apply (search_move_nk rec n) in E; [|exact Hr|exact (SafeN_move n k p m Hs Hm)|exact Ht].
    assert (Ht1 : NoKey k (ss_tt (pop_hist s1))) by exact E.
    cbn zeta in H.
    destruct (best <? score).
    + destruct (beta <=? _) in H.
      * injection H as <-. cbn [snd]. exact Ht1.
      * exact (IH _ _ _ _ _ _ (fun x Hx => Hms x (or_intror Hx)) Ht1 H).
    + destruct (beta <=? _) in H.
      * injection H as <-. cbn [snd]. exact Ht1.
      * exact (IH _ _ _ _ _ _ (fun x Hx => Hms x (or_intror Hx)) Ht1 H).
Qed.

Lemma null_move_nk rec n p s is_root cn beta ply depth r s' : nkey rec n -> SafeN (S n) k p -> NoKey k (ss_tt s) ->
  null_move rec p s is_root cn (in_check p) beta ply depth = Some (r, s') -> NoKey k (ss_tt s').
Proof.
  intros Hr Hs Ht H. unfold null_move in H.
  destruct (negb is_root && cn && (2 <? depth) && negb (in_check p) && negb (is_endgame p)) eqn:Ec.
  - match type of H with match ?x with _ => _ end = _ => destruct x as [[v s1]|] eqn:E; [|discriminate] end.
    assert (Hchk : in_check p = false).
    { apply andb_true_iff in Ec. destruct Ec as [Ec _]. apply andb_true_iff in Ec. destruct Ec as [_ Ec]. apply negb_true_iff in Ec. exact Ec. }
    pose proof (Hr _ (push_hist s (hash (makenull p))) _ _ _ _ _ _ _ E Ht (SafeN_null n k p Hs Hchk)) as Ht1. cbn zeta in H.
    destruct (beta <=? - v); destruct (some_pair_inv _ _ _ _ H) as [_ <-]; exact Ht1.
  - destruct (some_pair_inv _ _ _ _ H) as [_ <-]. exact Ht.
Qed.

Lemma nm_finish_nk p ao beta ply depth in_chk best bm s v s' : NoKey k (ss_tt s) -> (bm <> None -> hash p <> k) ->
  nm_finish p ao beta ply depth in_chk best bm s = Some (v, s') -> NoKey k (ss_tt s').
Proof.
  intros Ht Hb. unfold nm_finish. destruct bm as [bmv|].
  - match goal with |- context [tt_add ?t ?key ?e] => remember e as ent eqn:Eent; destruct (tt_add t key ent) as [tt'|] eqn:Ea; [|discriminate] end.
    intros H. destruct (some_pair_inv _ _ _ _ H) as [_ <-]. cbn [ss_tt].
    refine (NoKey_add k (ss_tt s) (hash p) ent tt' Ht _ Ea). rewrite Eent. cbn [e_hash]. apply Hb. discriminate.
  - intros H. destruct (some_pair_inv _ _ _ _ H) as [_ <-]. exact Ht.
Qed.

Lemma nm_moves_nk rec n p s ao alpha beta ply depth is_root cn ttm v s' : nkey rec n -> SafeN (S n) k p -> NoKey k (ss_tt s) ->
  nm_moves rec p s ao alpha beta ply depth (in_check p) is_root cn ttm = Some (v, s') -> NoKey k (ss_tt s').
Proof.
  intros Hr Hs Ht H. unfold nm_moves in H.
  destruct (null_move rec p s is_root cn (in_check p) beta ply depth) as [[oc s1]|] eqn:En; [|discriminate].
  apply (null_move_nk rec n) in En; [|exact Hr|exact Hs|exact Ht].
  destruct oc as [cut|].
  - destruct (some_pair_inv _ _ _ _ H) as [_ <-]. exact En.
  - destruct (n_loop rec p (in_check p) beta ply depth (sort_n p (legal_moves p) ttm) 0 s1 alpha (- INF) None) as [r|] eqn:El; [|discriminate].
    assert (Hleg : forall m, In m (sort_n p (legal_moves p) ttm) -> In m (legal_moves p)).
    { intros m Hm. apply (Permutation_in _ (sort_n_perm p (legal_moves p) ttm)). exact Hm. }
    pose proof (n_loop_best_in _ _ _ _ _ _ _ _ _ _ _ _ _ El) as Hbm.
    apply (n_loop_nk rec n) in El; [|exact Hr|exact Hs|exact Hleg|exact En].
    apply (nm_finish_nk _ _ _ _ _ _ _ _ _ _ _ El) in H; [exact H|].
    intros Hne. destruct Hbm as [Hbm|(m & _ & Hin)]; [contradiction|].
    apply (SafeN_self (S n) k p Hs). intros E. apply Hleg in Hin. rewrite E in Hin. exact Hin.
Qed.

Lemma nm_prune_nk rec n qrec p s ao alpha beta ply depth is_root is_pv cn ttm v s' : nkey rec n -> SafeN (S n) k p -> NoKey k (ss_tt s) ->
  nm_prune stopf rec qrec p s ao alpha beta ply depth (in_check p) is_root is_pv cn ttm = Some (v, s') -> NoKey k (ss_tt s').
Proof.
  intros Hr Hs Ht H. unfold nm_prune in H.
  destruct (depth <=? 0).
  - destruct (qrec p (ss_stats s) alpha beta ply) as [[v0 st]|]; [|discriminate].
    destruct (some_pair_inv _ _ _ _ H) as [_ <-]. exact Ht.
  - destruct (stopf (ss_stats s) && negb (is_root && (st_depth (ss_stats s) <=? 1))).
    { destruct (some_pair_inv _ _ _ _ H) as [_ <-]. exact Ht. }
    cbv zeta in H.
    destruct (((100 <=? halfmoves p) || _) && negb is_root).
    { destruct (some_pair_inv _ _ _ _ H) as [_ <-]. exact Ht. }
    match type of H with (if ?c then _ else _) = _ => destruct c end.
    { destruct (some_pair_inv _ _ _ _ H) as [_ <-]. exact Ht. }
    exact (nm_moves_nk rec n p s ao alpha beta ply depth is_root cn ttm v s' Hr Hs Ht H).
Qed.

Lemma nm_body_nk rec n qrec p s alpha beta ply depth cn v s' : nkey rec n -> SafeN (S n) k p -> NoKey k (ss_tt s) ->
  nm_body stopf rec qrec p s alpha beta ply depth cn = Some (v, s') -> NoKey k (ss_tt s').
Proof.
  intros Hr Hs Ht H. unfold nm_body in H. cbv zeta in H.
  match type of H with match ?x with _ => _ end = _ => destruct x as [tte|]; [|discriminate] end.
  unfold nm_probe in H. cbv zeta in H.
  match type of H with (if ?c then _ else _) = _ => destruct c end.
  { destruct (some_pair_inv _ _ _ _ H) as [_ <-]. exact Ht. }
  match type of H with (if ?c then _ else _) = _ => destruct c end.
  { destruct (some_pair_inv _ _ _ _ H) as [_ <-]. exact Ht. }
  apply (nm_prune_nk rec n) in H; assumption.
Qed.

Theorem negamax_nk : forall fuel, nkey (negamax stopf fuel) fuel.
Proof.
  induction fuel as [|f IH]; intros q s a b pl d cn v s' H Ht Hs; [discriminate|].
  cbn [negamax] in H. exact (nm_body_nk (negamax stopf f) f (qsearch f) q s a b pl d cn v s' IH Hs Ht H).
Qed.

End NoKeyThread.

(* ------------------------------------------------------------------ (P2) and the mated child *)
(* the child's repetition test does not fire: fewer than two occurrences (itself included) of its key among the
   positions with the same side to move inside the look-back window of the history it is given *)
Definition NoRep (c : Position) (h : list N) : Prop := count_rep (Z.to_nat (halfmoves c + 1)) h (hash c) true < 2.

Lemma count_rep_notin h key : ~ In key h -> forall n e, count_rep n h key e = 0.
Proof.
  induction h as [|x t IH]; intros Hn n e; destruct n as [|n]; cbn [count_rep]; try reflexivity.
  rewrite (IH (fun X => Hn (or_intror X))).
  destruct (N.eqb_spec x key) as [E|E]; [exfalso; apply Hn; left; exact E|]. rewrite andb_false_r. reflexivity.
Qed.

(* sufficient for (P2): the key of the mated position does not occur in the game history at all *)
Lemma notin_NoRep c h : ~ In (hash c) h -> NoRep c (hash c :: h).
Proof.
  intros Hn. unfold NoRep. destruct (Z.to_nat (halfmoves c + 1)) as [|n]; cbn [count_rep]; [lia|].
  rewrite (count_rep_notin h (hash c) Hn). destruct (true && (hash c =? hash c)%N); lia.
Qed.

Lemma upd_tt s ply : ss_tt (upd s ply) = ss_tt s. Proof. reflexivity. Qed.
Lemma upd_hist s ply : ss_hist (upd s ply) = ss_hist s. Proof. reflexivity. Qed.
Lemma upd_depth s ply : st_depth (ss_stats (upd s ply)) = st_depth (ss_stats s). Proof. reflexivity. Qed.
Lemma upd_best s ply : st_best (ss_stats (upd s ply)) = st_best (ss_stats s). Proof. reflexivity. Qed.

Section Mated.
Variable stopf : Stats -> bool.

(* Key lemma A: a checkmated node that is not the root, not interrupted, not drawn by rule, on a table that has no
   entry with its key, searched with a depth argument >= 0 (the check extension makes it positive): the value is
   "mated at this ply", and nothing is stored *)
Lemma mated_child f c s a b ply d cn v s1 :
  mated c -> ply <> 0 -> 0 <= d -> halfmoves c < 100 -> NoRep c (ss_hist s) -> NoKey (hash c) (ss_tt s) ->
  stopf (ss_stats (upd s ply)) = false ->
  negamax stopf (S f) c s a b ply d cn = Some (v, s1) -> v = lo ply /\ s1 = upd s ply.
Proof.
  intros (Hnil & Hchk) Hply Hd Hhm Hrep Hnk Hstop H. cbn [negamax] in H. unfold nm_body in H. cbv zeta in H.
  fold (upd s ply) in H.
  match type of H with match ?x with _ => _ end = _ => destruct x as [tte|] eqn:Epoll; [|discriminate] end.
  rewrite upd_tt in Epoll. pose proof (NoKey_poll _ _ _ _ Hnk Epoll) as Hne.
  unfold nm_probe in H. cbv zeta in H. rewrite (proj2 (N.eqb_neq _ _) Hne) in H. cbn [andb] in H.
  rewrite Hchk in H. unfold nm_prune in H.
  destruct (Z.leb_spec (d + 1) 0) as [X|_]; [lia|].
  rewrite Hstop in H. cbn [andb] in H. cbv zeta in H.
  rewrite (proj2 (Z.eqb_neq ply 0) Hply) in H.
  destruct (Z.leb_spec 100 (halfmoves c)) as [X|_]; [lia|]. cbn [orb] in H.
  rewrite upd_hist in H.
  destruct (Z.leb_spec 2 (count_rep (Z.to_nat (halfmoves c + 1)) (ss_hist s) (hash c) true)) as [X|_]; [unfold NoRep in Hrep; lia|].
  cbn [andb negb] in H. rewrite andb_false_r in H. cbn [andb] in H.
  rewrite (no_legal_moves_value (negamax stopf f) c (upd s ply) a a b ply (d + 1) true false cn None Hnil
             (no_null_move_in_check (negamax stopf f) c (upd s ply) false cn b ply (d + 1))) in H.
  destruct (some_pair_inv _ _ _ _ H) as [<- <-]. split; reflexivity.
Qed.
End Mated.

(* ------------------------------------------------------------------ one iteration at the root *)
Section Root.
Variable stopf : Stats -> bool.
Variable p : Position.
Variable hist : list N.
Variable M : Mv.
Variable D : Z.                                  (* the depth of the iteration *)
Local Notation c := (makemove true p M).         (* the mated position *)
Local Notation k := (hash (makemove true p M)).  (* its key *)

Hypothesis Hp : InvSR p.
Hypothesis HM : In M (legal_moves p).
Hypothesis Hmate : mates p M.
Hypothesis Hhm : halfmoves c < 100.                        (* from (P1) *)
Hypothesis Hrep : NoRep c (k :: hist).                     (* (P2) *)
Hypothesis Hstop : forall st, st_depth st = D -> stopf st = false.   (* (P4) *)
(* (P3), the tree, is a premise of the lemmas below, for the fuel they are stated with *)

(* the score of the mating move, in whichever way the root searches it *)
Lemma score_M f in_chk depth idx s alpha score s' :
  1 <= depth -> NoKey k (ss_tt s) -> ss_hist s = k :: hist -> st_depth (ss_stats s) = D ->
  search_move (negamax stopf f) p in_chk INF 0 depth idx M c s alpha = Some (score, s') -> score = hi 0.
Proof.
  intros Hd Hnk Hh Hsd H.
  assert (HA : forall s0 a0 b0 d0 v0 s0', 0 <= d0 -> NoKey k (ss_tt s0) -> ss_hist s0 = k :: hist -> st_depth (ss_stats s0) = D ->
               negamax stopf f c s0 a0 b0 1 d0 true = Some (v0, s0') -> v0 = lo 1 /\ s0' = upd s0 1).
  { intros s0 a0 b0 d0 v0 s0' Hd0 Hnk0 Hh0 Hsd0 H0. destruct f as [|f]; [discriminate|].
    apply (mated_child stopf f c s0 a0 b0 1 d0 true v0 s0'); try assumption.
    - lia.
    - rewrite Hh0. exact Hrep.
    - apply Hstop. rewrite upd_depth. exact Hsd0. }
  assert (Hval : - lo 1 = hi 0) by (unfold lo, hi; lia).
  assert (Hd1 : 0 <= depth - 1) by lia.
  unfold search_move in H. change (0 + 1) with 1 in H. destruct (idx =? 0).
  - match type of H with match ?x with _ => _ end = _ => destruct x as [[v1 s1]|] eqn:E1; [|discriminate] end.
    destruct (some_pair_inv _ _ _ _ H) as [<- _].
    destruct (HA _ _ _ _ _ _ Hd1 Hnk Hh Hsd E1) as (-> & _). exact Hval.
  - cbv zeta in H.
    match type of H with context [if ?c then 0 else 1] =>
      assert (Hred : 0 <= depth - 1 - (if c then 0 else 1)) end.
    { match goal with |- context [if ?c then 0 else 1] => destruct c eqn:Er end; [lia|].
      apply orb_false_iff in Er. destruct Er as [Er _]. apply orb_false_iff in Er. destruct Er as [Er _].
      apply orb_false_iff in Er. destruct Er as [Er _]. apply orb_false_iff in Er. destruct Er as [_ Er].
      apply Z.ltb_ge in Er. lia. }
    match type of H with match ?x with _ => _ end = _ => destruct x as [[v1 s1]|] eqn:E1; [|discriminate] end.
    destruct (HA _ _ _ _ _ _ Hred Hnk Hh Hsd E1) as (-> & ->).
    destruct ((alpha <? - lo 1) && (- lo 1 <? INF)).
    + match type of H with match ?x with _ => _ end = _ => destruct x as [[v2 s2]|] eqn:E2; [|discriminate] end.
      destruct (some_pair_inv _ _ _ _ H) as [<- _].
      destruct (HA _ _ _ _ _ _ Hd1 (eq_ind_r (fun t => NoKey k t) Hnk (upd_tt s 1)) (eq_trans (upd_hist s 1) Hh) (eq_trans (upd_depth s 1) Hsd) E2) as (-> & _). exact Hval.
    + destruct (some_pair_inv _ _ _ _ H) as [<- _]. exact Hval.
Qed.

(* invariant of the root's move loop: nothing beats the mate-in-one score, and a best move reaching it mates *)
Definition RI (best : Z) (bm : option Mv) : Prop :=
  best <= hi 0 /\ (best = hi 0 -> exists m, bm = Some m /\ In m (legal_moves p) /\ mates p m).

Lemma RI_init : RI (- INF) None.
Proof. unfold RI, hi, INF, MATE_SCORE. split; [lia|]. intros E. exfalso. lia. Qed.

Lemma root_moves_mate f in_chk depth : Z.of_nat f + 1 <= PLYMAX -> 1 <= depth -> SafeN (S f) k p ->
  forall ms idx s best bm r, (forall m, In m ms -> In m (legal_moves p)) ->
  TBnd (ss_tt s) -> NoKey k (ss_tt s) -> ss_hist s = hist -> st_depth (ss_stats s) = D ->
  RI best bm -> In M ms \/ best = hi 0 ->
  n_loop (negamax stopf f) p in_chk INF 0 depth ms idx s best best bm = Some r ->
  snd (fst (fst r)) = hi 0 /\ RI (snd (fst (fst r))) (snd (fst r)).
Proof.
  intros Hf Hd Hsafe.
  pose proof (negamax_whon_rec stopf f PLYMAX ltac:(lia)) as Hw.
  pose proof (negamax_nbnd_rec stopf f PLYMAX ltac:(unfold PLYMAX, VB, MATE_SCORE; lia)) as Hr.
  assert (Hpl : 0 <= 0 + 1 <= PLYMAX - Z.of_nat f) by lia.
  induction ms as [|m ms IH]; intros idx s best bm r Hms Ht Hnk Hh Hsd Hi Hfl H; cbn [n_loop] in H.
  - injection H as <-. cbn [fst snd]. destruct Hfl as [[]|Hfl]. split; [exact Hfl|exact Hi].
  - match type of H with match ?x with _ => _ end = _ => destruct x as [[score s1]|] eqn:E; [|discriminate] end.
    assert (Hm : In m (legal_moves p)) by (apply Hms; left; reflexivity).
    assert (Hnp : InvSR (makemove true p m)) by exact (child_inv p m Hp Hm).
    set (s0 := push_hist (bump_nodes_ss s) (hash (makemove true p m))) in *.
    assert (Ht0 : TBnd (ss_tt s0)) by exact Ht.
    assert (Hnk0 : NoKey k (ss_tt s0)) by exact Hnk.
    assert (Hh0 : ss_hist s0 = hash (makemove true p m) :: hist) by (unfold s0; cbn [ss_hist push_hist]; rewrite <- Hh; reflexivity).
    assert (Hsd0 : st_depth (ss_stats s0) = D) by exact Hsd.
    pose proof (search_move_bnd GenLegal.gen_legal _ _ _ _ _ _ _ _ _ _ _ _ _ _ Hr Hnp Ht0 Hpl E) as (Hsb & Ht1).
    pose proof (search_move_hon _ _ _ _ _ _ _ _ _ _ _ _ _ _ Hw Hr Hnp Ht0 Hpl E) as Hhon.
    pose proof (search_move_nk k _ f _ _ _ _ _ _ _ _ _ _ _ _ (negamax_nk stopf k f) (SafeN_move f k p m Hsafe Hm) Hnk0 E) as Hnk1.
    pose proof (search_move_hist _ _ _ _ _ _ _ _ _ _ _ _ _ (negamax_keeps_history stopf f) E) as Hh1.
    pose proof (search_move_K _ _ _ _ _ _ _ _ _ _ _ _ _ (negamax_K stopf f) E) as (_ & Hsd1).
    assert (Ht1' : TBnd (ss_tt (pop_hist s1))) by exact Ht1.
    assert (Hnk1' : NoKey k (ss_tt (pop_hist s1))) by exact Hnk1.
    assert (Hh1' : ss_hist (pop_hist s1) = hist) by (unfold pop_hist; cbn [ss_hist]; rewrite Hh1, Hh0; reflexivity).
    assert (Hsd1' : st_depth (ss_stats (pop_hist s1)) = D) by (unfold pop_hist; cbn [ss_stats]; rewrite Hsd1; exact Hsd0).
    assert (Hle : best < score -> score <= hi 0 /\ (score = hi 0 -> mates p m)).
    { intros Hlt. destruct (Hhon ltac:(unfold VB, MATE_SCORE, INF in *; lia)) as (B & Mt). split; [lia|exact Mt]. }
    assert (HsM : m = M -> score = hi 0).
    { intros ->. exact (score_M f in_chk depth idx s0 best score s1 Hd Hnk0 Hh0 Hsd0 E). }
    destruct Hi as (Hi1 & Hi2).
    assert (Hnew : RI (if best <? score then score else best) (if best <? score then Some m else bm)
                   /\ (In M ms \/ (if best <? score then score else best) = hi 0)).
    { destruct (Z.ltb_spec best score) as [Hlt|Hge].
      - destruct (Hle Hlt) as (B & Mt). split.
        + split; [exact B|]. intros Es. exists m. split; [reflexivity|]. split; [exact Hm|exact (Mt Es)].
        + destruct Hfl as [[Em|Hin]|Eb]; [right; exact (HsM Em)|left; exact Hin|exfalso; lia].
      - split; [split; [exact Hi1|exact Hi2]|].
        destruct Hfl as [[Em|Hin]|Eb]; [right; specialize (HsM Em); lia|left; exact Hin|right; exact Eb]. }
    cbn zeta in H. destruct Hnew as (Hn1 & Hn2).
    destruct (best <? score).
    + destruct (Z.leb_spec INF score) as [X|_]; [exfalso; unfold VB, MATE_SCORE, INF in *; lia|].
      exact (IH _ _ _ _ _ (fun x Hx => Hms x (or_intror Hx)) Ht1' Hnk1' Hh1' Hsd1' Hn1 Hn2 H).
    + destruct (Z.leb_spec INF best) as [X|_]; [exfalso; unfold hi, MATE_SCORE, INF in *; lia|].
      exact (IH _ _ _ _ _ (fun x Hx => Hms x (or_intror Hx)) Ht1' Hnk1' Hh1' Hsd1' Hn1 Hn2 H).
Qed.

(* Key lemma B: the whole iteration *)
Lemma root_iter_mate fuel s v s1 : Z.of_nat fuel <= PLYMAX -> 1 <= D -> SafeN fuel k p ->
  TBnd (ss_tt s) -> NoKey k (ss_tt s) -> ss_hist s = hist -> st_depth (ss_stats s) = D ->
  negamax stopf fuel p s (- INF) INF 0 D false = Some (v, s1) ->
  v = MATE_SCORE - 1 /\ (exists bm, st_best (ss_stats s1) = Some bm /\ In bm (legal_moves p) /\ mates p bm) /\
  TBnd (ss_tt s1) /\ NoKey k (ss_tt s1) /\ ss_hist s1 = hist /\ st_depth (ss_stats s1) = D.
Proof.
  intros Hf HD Hsafe Ht Hnk Hh Hsd H.
  pose proof (negamax_bnd stopf GenLegal.gen_legal fuel (2 * VB) ltac:(lia) p s _ _ 0 _ _ _ _ Hp Ht ltac:(lia)
                ltac:(unfold PLYMAX, VB, MATE_SCORE in *; lia) H) as (_ & Ht1).
  pose proof (negamax_nk stopf k fuel _ _ _ _ _ _ _ _ _ H Hnk Hsafe) as Hnk1.
  pose proof (negamax_keeps_history stopf fuel _ _ _ _ _ _ _ _ _ H) as Hh1.
  pose proof (negamax_K stopf fuel _ _ _ _ _ _ _ _ _ H) as (_ & Hsd1).
  assert (Hrest : v = MATE_SCORE - 1 /\ exists bm, st_best (ss_stats s1) = Some bm /\ In bm (legal_moves p) /\ mates p bm).
  { destruct fuel as [|f]; [discriminate|].
    apply root_node in H; [|exact HD].
    destruct H as [(Es & _)|(tte & r & _ & El & Hfin)].
    { rewrite (Hstop _ (eq_trans (upd_depth s 0) Hsd)) in Es. discriminate. }
    set (d' := if in_check p then D + 1 else D) in *.
    assert (Hd' : 1 <= d') by (unfold d'; destruct (in_check p); lia).
    assert (Hleg : forall m, In m (sort_n p (legal_moves p) (ttm_of p tte)) -> In m (legal_moves p)).
    { intros m Hm. exact (Permutation_in _ (sort_n_perm p (legal_moves p) _) Hm). }
    assert (HMin : In M (sort_n p (legal_moves p) (ttm_of p tte))).
    { exact (Permutation_in _ (Permutation_sym (sort_n_perm p (legal_moves p) _)) HM). }
    apply (root_moves_mate f (in_check p) d') in El;
      [|rewrite Nat2Z.inj_succ in Hf; lia|exact Hd'|exact Hsafe|exact Hleg|exact Ht|exact Hnk|exact Hh|exact (eq_trans (upd_depth s 0) Hsd)|exact RI_init|left; exact HMin].
    destruct El as (Eb & _ & Hbm). destruct r as [[[al be] bm] sL]. cbn [fst snd] in *.
    destruct (Hbm Eb) as (m0 & -> & Hin0 & Hm0).
    unfold nm_finish in Hfin.
    match type of Hfin with match ?x with _ => _ end = _ => destruct x as [tt'|]; [|discriminate] end.
    destruct (some_pair_inv _ _ _ _ Hfin) as [<- <-]. split; [rewrite Eb; unfold hi; lia|].
    exists m0. cbn [ss_stats set_best st_best]. split; [reflexivity|]. split; [exact Hin0|exact Hm0]. }
  destruct Hrest as (Hv & Hbm). split; [exact Hv|]. split; [exact Hbm|]. split; [exact Ht1|]. split; [exact Hnk1|].
  split; [rewrite Hh1; exact Hh|rewrite Hsd1; exact Hsd].
Qed.

End Root.

(* ------------------------------------------------------------------ an interrupted iteration at the root changes nothing but the selective depth *)
Lemma root_stopped stopf p f s depth v s1 : 1 <= depth -> stopf (ss_stats (upd s 0)) = true -> 1 < st_depth (ss_stats s) ->
  negamax stopf (S f) p s (- INF) INF 0 depth false = Some (v, s1) -> s1 = upd s 0.
Proof.
  intros Hd Hs Hsd H. cbn [negamax] in H. unfold nm_body in H. cbv zeta in H. fold (upd s 0) in H.
  match type of H with match ?x with _ => _ end = _ => destruct x as [tte|]; [|discriminate] end.
  unfold nm_probe in H. cbv zeta in H. change (0 =? 0) with true in H. rewrite !andb_false_r in H. cbn [andb] in H.
  unfold nm_prune in H.
  set (d' := if in_check p then depth + 1 else depth) in *.
  assert (Hd' : 1 <= d') by (unfold d'; destruct (in_check p); lia).
  destruct (Z.leb_spec d' 0) as [X|_]; [lia|].
  rewrite Hs, upd_depth in H. destruct (Z.leb_spec (st_depth (ss_stats s)) 1) as [X|_]; [lia|].
  cbn [andb negb] in H. destruct (some_pair_inv _ _ _ _ H) as [_ <-]. reflexivity.
Qed.

(* ------------------------------------------------------------------ all iterations *)
Section Iterations.
Variable stopf : Stats -> bool.
Variable p : Position.
Variable hist : list N.
Variable M : Mv.
Variable d : Z.                                  (* the iterations 1 .. d are not interrupted *)
Local Notation c := (makemove true p M).
Local Notation k := (hash (makemove true p M)).

Hypothesis Hp : InvSR p.
Hypothesis HM : In M (legal_moves p).
Hypothesis Hmate : mates p M.
Hypothesis Hhm : halfmoves c < 100.
Hypothesis Hrep : NoRep c (k :: hist).
(* (P4): the stop predicate is false up to iteration d, and from iteration d + 1 on (if there is one) it is true *)
Hypothesis HA : forall st, st_depth st <= d -> stopf st = false.
Hypothesis HB : MAX_DEPTH <= d + 1 \/ forall st, d < st_depth st -> stopf st = true.

Definition GoodBest (b : option Mv) : Prop := exists bm, b = Some bm /\ In bm (legal_moves p) /\ mates p bm.

Definition AllMate (l : list Info) : Prop := forall i, In i l -> i_score i = MATE_SCORE - 1.

Lemma ret_ok best infos s : GoodBest best -> AllMate infos -> infos <> [] ->
  GoodBest (rr_best (mkRR best (rev infos) s)) /\ AllMate (rr_infos (mkRR best (rev infos) s)) /\ rr_infos (mkRR best (rev infos) s) <> [].
Proof.
  intros Hb Hi Hne. cbn [rr_best rr_infos]. split; [exact Hb|]. split.
  - intros i Hin. apply in_rev in Hin. exact (Hi i Hin).
  - intros E. apply Hne. rewrite <- (rev_involutive infos), E. reflexivity.
Qed.

Lemma root_loop_mate : forall n fuel depth s best infos r, Z.of_nat fuel <= PLYMAX -> 2 <= depth <= d + 1 -> SafeN fuel k p ->
  TBnd (ss_tt s) -> NoKey k (ss_tt s) -> ss_hist s = hist -> GoodBest best -> st_best (ss_stats s) <> None ->
  AllMate infos -> infos <> [] ->
  root_loop stopf n fuel p depth s best infos = Some r ->
  GoodBest (rr_best r) /\ AllMate (rr_infos r) /\ rr_infos r <> [].
Proof.
  induction n as [|n IH]; intros fuel depth s best infos r Hf Hd Hsafe Ht Hnk Hh Hb Hsb Hi Hne H; cbn [root_loop] in H.
  - injection H as <-. exact (ret_ok best infos s Hb Hi Hne).
  - destruct (Z.leb_spec MAX_DEPTH depth) as [Hmax|Hmax]; [injection H as <-; exact (ret_ok best infos s Hb Hi Hne)|].
    cbv zeta in H.
    match type of H with match ?x with _ => _ end = _ => destruct x as [[score s1]|] eqn:E; [|discriminate] end.
    destruct (Z_le_gt_dec depth d) as [Hle|Hgt].
    + assert (Hst : forall st, st_depth st = depth -> stopf st = false) by (intros st Es; apply HA; lia).
      apply (root_iter_mate stopf p hist M depth Hp HM Hmate Hhm Hrep Hst) in E;
        [|exact Hf|lia|exact Hsafe|exact Ht|exact Hnk|exact Hh|reflexivity].
      destruct E as (-> & (bm & Ebm & Hin & Hmt) & Ht1 & Hnk1 & Hh1 & Hsd1).
      rewrite Ebm in H. rewrite (Hst _ Hsd1), andb_false_r in H.
      apply IH in H; [exact H|exact Hf|lia|exact Hsafe|exact Ht1|exact Hnk1|exact Hh1| | | |].
      * exists bm. split; [reflexivity|split; [exact Hin|exact Hmt]].
      * rewrite Ebm. discriminate.
      * intros i [<-|Hin']; [reflexivity|exact (Hi i Hin')].
      * discriminate.
    + destruct HB as [HB1|HB2]; [exfalso; lia|].
      destruct fuel as [|f]; [discriminate|].
      apply root_stopped in E; [|lia|apply HB2; rewrite upd_depth; cbn [ss_stats with_stats st_depth]; lia|cbn [ss_stats with_stats st_depth]; lia].
      assert (Es1 : stopf (ss_stats s1) = true).
      { apply HB2. rewrite E, upd_depth. cbn [ss_stats with_stats st_depth]. lia. }
      assert (Eb1 : st_best (ss_stats s1) = st_best (ss_stats s)) by (rewrite E; reflexivity).
      destruct (st_best (ss_stats s1)) as [bm|]; [|exfalso; apply Hsb; symmetry; exact Eb1].
      rewrite Es1 in H. destruct (Z.ltb_spec 1 depth) as [_|X]; [|lia]. cbn [andb] in H.
      injection H as <-. exact (ret_ok best infos s1 Hb Hi Hne).
Qed.

Theorem root_mate fuel tt r : Z.of_nat fuel <= PLYMAX -> 1 <= d -> TBnd tt -> NoKey k tt -> SafeN fuel k p ->
  root stopf fuel p hist tt = Some r ->
  GoodBest (rr_best r) /\ AllMate (rr_infos r) /\ rr_infos r <> [].
Proof.
  intros Hf Hd Ht Hnk Hsafe H. unfold root in H.
  change 128%nat with (S 127) in H. remember 127%nat as n127 eqn:En. clear En. cbn [root_loop] in H.
  change (MAX_DEPTH <=? 1) with false in H. cbv zeta in H. cbv iota in H.
  match type of H with match ?x with _ => _ end = _ => destruct x as [[score s1]|] eqn:E; [|discriminate] end.
  assert (Hst : forall st, st_depth st = 1 -> stopf st = false) by (intros st Es; apply HA; lia).
  apply (root_iter_mate stopf p hist M 1 Hp HM Hmate Hhm Hrep Hst) in E;
    [|exact Hf|lia|exact Hsafe|exact Ht|exact Hnk|reflexivity|reflexivity].
  destruct E as (-> & (bm & Ebm & Hin & Hmt) & Ht1 & Hnk1 & Hh1 & Hsd1).
  rewrite Ebm in H. change (1 <? 1) with false in H. cbn [andb] in H.
  apply root_loop_mate in H; [exact H|exact Hf|lia|exact Hsafe|exact Ht1|exact Hnk1|exact Hh1| | | |].
  - exists bm. split; [reflexivity|split; [exact Hin|exact Hmt]].
  - rewrite Ebm. discriminate.
  - intros i [<-|[]]. reflexivity.
  - discriminate.
Qed.

End Iterations.

(* ------------------------------------------------------------------ C12 *)
(* (P1): with the counter of p below 99 the mated child's counter is below 100 *)
Lemma child_halfmoves p m : InvSR p -> In m (legal_moves p) -> halfmoves p < 99 -> halfmoves (makemove true p m) < 100.
Proof.
  intros Hp Hm Hh. destruct (SearchTotal.child_clock true p m (SearchTotal.InvSR_Inv0 p Hp) Hm) as [(E & _)|(E & _)]; rewrite E; lia.
Qed.

(* depth limit d >= 1 ("go depth d"): the iterations 1 .. d are searched, all of them report the mate score, and the answer mates.
   (P3) speaks about the positions within `fuel` plies of p only, for the fuel `root` is run with *)
Theorem mate_in_one_is_played d fuel p hist tt r M :
  InvSR p -> TBnd tt -> Z.of_nat fuel <= 599998 ->
  halfmoves p < 99 ->                                                   (* P1 *)
  In M (legal_moves p) -> mates p M ->
  NoRep (makemove true p M) (hash (makemove true p M) :: hist) ->       (* P2 *)
  NoKey (hash (makemove true p M)) tt -> SafeN fuel (hash (makemove true p M)) p ->   (* P3 *)
  1 <= d ->
  root (stop_of (LDepth d)) fuel p hist tt = Some r ->                  (* P4: the limit is a depth limit *)
  (exists bm, rr_best r = Some bm /\ In bm (legal_moves p) /\ mates p bm) /\
  (forall i, In i (rr_infos r) -> i_score i = MATE_SCORE - 1) /\ rr_infos r <> [].
Proof.
  intros Hp Ht Hf Hh HM Hmate Hrep Hnk Hsafe Hd H.
  refine (root_mate (stop_of (LDepth d)) p hist M d Hp HM Hmate (child_halfmoves p M Hp HM Hh) Hrep _ _ fuel tt r Hf Hd Ht Hnk Hsafe H).
  - intros st Hs. cbn [stop_of]. apply Z.ltb_ge. exact Hs.
  - right. intros st Hs. cbn [stop_of]. apply Z.ltb_lt. exact Hs.
Qed.

(* no limit ("go infinite" in the model: all 127 iterations) *)
Theorem mate_in_one_is_played_unlimited fuel p hist tt r M :
  InvSR p -> TBnd tt -> Z.of_nat fuel <= 599998 ->
  halfmoves p < 99 -> In M (legal_moves p) -> mates p M ->
  NoRep (makemove true p M) (hash (makemove true p M) :: hist) ->
  NoKey (hash (makemove true p M)) tt -> SafeN fuel (hash (makemove true p M)) p ->
  root (stop_of LNever) fuel p hist tt = Some r ->
  (exists bm, rr_best r = Some bm /\ In bm (legal_moves p) /\ mates p bm) /\
  (forall i, In i (rr_infos r) -> i_score i = MATE_SCORE - 1) /\ rr_infos r <> [].
Proof.
  intros Hp Ht Hf Hh HM Hmate Hrep Hnk Hsafe H.
  refine (root_mate (stop_of LNever) p hist M 127 Hp HM Hmate (child_halfmoves p M Hp HM Hh) Hrep _ _ fuel tt r Hf ltac:(lia) Ht Hnk Hsafe H).
  - intros st _. reflexivity.
  - left. unfold MAX_DEPTH. lia.
Qed.

(* the same with the simple form of (P2): the key of the mated position does not occur in the game history *)
Corollary mate_in_one_is_played_fresh d fuel p hist tt r M :
  InvSR p -> TBnd tt -> Z.of_nat fuel <= 599998 -> halfmoves p < 99 -> In M (legal_moves p) -> mates p M ->
  ~ In (hash (makemove true p M)) hist ->
  NoKey (hash (makemove true p M)) tt -> SafeN fuel (hash (makemove true p M)) p -> 1 <= d ->
  root (stop_of (LDepth d)) fuel p hist tt = Some r ->
  (exists bm, rr_best r = Some bm /\ In bm (legal_moves p) /\ mates p bm) /\
  (forall i, In i (rr_infos r) -> i_score i = MATE_SCORE - 1) /\ rr_infos r <> [].
Proof.
  intros Hp Ht Hf Hh HM Hmate Hni. exact (mate_in_one_is_played d fuel p hist tt r M Hp Ht Hf Hh HM Hmate (notin_NoRep _ hist Hni)).
Qed.

(* The fuel in (P3) may be the smallest one that makes the search return: the result of `root` does not depend on the
   fuel once it is defined (FuelFacts.root_fuel_mono).  If the search returns with fuel0 and no position with a legal move
   within fuel0 plies of p has the key k, every run with at least that much fuel (no upper bound) plays a mate *)
Corollary mate_in_one_is_played_anyfuel d fuel0 fuel p hist tt r0 r M :
  InvSR p -> TBnd tt -> Z.of_nat fuel0 <= 599998 -> halfmoves p < 99 -> In M (legal_moves p) -> mates p M ->
  NoRep (makemove true p M) (hash (makemove true p M) :: hist) ->
  NoKey (hash (makemove true p M)) tt -> SafeN fuel0 (hash (makemove true p M)) p -> 1 <= d ->
  root (stop_of (LDepth d)) fuel0 p hist tt = Some r0 -> (fuel0 <= fuel)%nat ->
  root (stop_of (LDepth d)) fuel p hist tt = Some r ->
  (exists bm, rr_best r = Some bm /\ In bm (legal_moves p) /\ mates p bm) /\
  (forall i, In i (rr_infos r) -> i_score i = MATE_SCORE - 1) /\ rr_infos r <> [].
Proof.
  intros Hp Ht Hf Hh HM Hmate Hrep Hnk Hsafe Hd H0 Hle H.
  pose proof (FuelFacts.root_fuel_mono (stop_of (LDepth d)) fuel0 fuel p hist tt r0 Hle H0) as H1.
  assert (E : r = r0) by (rewrite H1 in H; apply (f_equal (fun o => match o with Some x => x | None => r end)) in H; symmetry; exact H).
  rewrite E. exact (mate_in_one_is_played d fuel0 p hist tt r0 M Hp Ht Hf Hh HM Hmate Hrep Hnk Hsafe Hd H0).
Qed.

(* the statements with the old premise `Safe` (nothing reachable from p, at any distance, has the key k) *)
Corollary mate_in_one_is_played_safe d fuel p hist tt r M :
  InvSR p -> TBnd tt -> Z.of_nat fuel <= 599998 -> halfmoves p < 99 -> In M (legal_moves p) -> mates p M ->
  NoRep (makemove true p M) (hash (makemove true p M) :: hist) ->
  NoKey (hash (makemove true p M)) tt -> Safe (hash (makemove true p M)) p -> 1 <= d ->
  root (stop_of (LDepth d)) fuel p hist tt = Some r ->
  (exists bm, rr_best r = Some bm /\ In bm (legal_moves p) /\ mates p bm) /\
  (forall i, In i (rr_infos r) -> i_score i = MATE_SCORE - 1) /\ rr_infos r <> [].
Proof.
  intros Hp Ht Hf Hh HM Hmate Hrep Hnk Hsafe.
  exact (mate_in_one_is_played d fuel p hist tt r M Hp Ht Hf Hh HM Hmate Hrep Hnk (Safe_SafeN fuel _ p Hsafe)).
Qed.

Corollary mate_in_one_is_played_unlimited_safe fuel p hist tt r M :
  InvSR p -> TBnd tt -> Z.of_nat fuel <= 599998 -> halfmoves p < 99 -> In M (legal_moves p) -> mates p M ->
  NoRep (makemove true p M) (hash (makemove true p M) :: hist) ->
  NoKey (hash (makemove true p M)) tt -> Safe (hash (makemove true p M)) p ->
  root (stop_of LNever) fuel p hist tt = Some r ->
  (exists bm, rr_best r = Some bm /\ In bm (legal_moves p) /\ mates p bm) /\
  (forall i, In i (rr_infos r) -> i_score i = MATE_SCORE - 1) /\ rr_infos r <> [].
Proof.
  intros Hp Ht Hf Hh HM Hmate Hrep Hnk Hsafe.
  exact (mate_in_one_is_played_unlimited fuel p hist tt r M Hp Ht Hf Hh HM Hmate Hrep Hnk (Safe_SafeN fuel _ p Hsafe)).
Qed.

Corollary mate_in_one_is_played_fresh_safe d fuel p hist tt r M :
  InvSR p -> TBnd tt -> Z.of_nat fuel <= 599998 -> halfmoves p < 99 -> In M (legal_moves p) -> mates p M ->
  ~ In (hash (makemove true p M)) hist ->
  NoKey (hash (makemove true p M)) tt -> Safe (hash (makemove true p M)) p -> 1 <= d ->
  root (stop_of (LDepth d)) fuel p hist tt = Some r ->
  (exists bm, rr_best r = Some bm /\ In bm (legal_moves p) /\ mates p bm) /\
  (forall i, In i (rr_infos r) -> i_score i = MATE_SCORE - 1) /\ rr_infos r <> [].
Proof.
  intros Hp Ht Hf Hh HM Hmate Hni Hnk Hsafe.
  exact (mate_in_one_is_played_fresh d fuel p hist tt r M Hp Ht Hf Hh HM Hmate Hni Hnk (Safe_SafeN fuel _ p Hsafe)).
Qed.

(* (P3) for the tables the engine starts from: an empty table has no entry with key k unless k = 0 (the default entry
   carries the key 0) *)
Lemma NoKey_empty k t : k <> 0%N -> table_empty t -> NoKey k t.
Proof. intros Hk He i. rewrite (He i). cbn [e_hash tt_default]. intros E. apply Hk. symmetry. exact E. Qed.
Lemma NoKey_new k mb : k <> 0%N -> NoKey k (tt_new mb).
Proof. intros Hk. exact (NoKey_empty k _ Hk (table_empty_new mb)). Qed.
Lemma NoKey_clear k t : k <> 0%N -> NoKey k (tt_clear t).
Proof. intros Hk. exact (NoKey_empty k _ Hk (table_empty_clear t)). Qed.

Print Assumptions mate_in_one_is_played.
Print Assumptions mate_in_one_is_played_unlimited.
Print Assumptions mate_in_one_is_played_fresh.
Print Assumptions mate_in_one_is_played_anyfuel.
Print Assumptions mate_in_one_is_played_safe.
Print Assumptions mate_in_one_is_played_unlimited_safe.
Print Assumptions mate_in_one_is_played_fresh_safe.

(* ------------------------------------------------------------------ a worked example, and why (P3) cannot be dropped.
   White: Ke1 Ra1, Black: Kg8 f7 g7 h7; Ra8 is mate.  All premises except `SafeN fuel` (a statement about the search
   tree: no position with a legal move within `fuel` plies of the root has the key of the mated position) are checked
   by computation.
   On a new table the model reports 999999 = MATE_SCORE - 1 at every iteration and answers a1a8.
   On a table that satisfies TBnd but holds ONE misleading entry under the key of the mated position (score 900000 for
   the mated side, depth 100, exact) the search does NOT find the mate: a1a8 is not the first move in the ordering, so it
   is searched on a zero window, i.e. at a non-PV node, where the table entry is believed; the score stays below alpha
   and no re-search happens.  So "whatever the table contains" is false without (P3). *)
From Coq Require Import String.
From Rawr Require Fen Uci.

Definition ex_pos : Position :=
  match Fen.set_fen false false (Uci.lit "6k1/5ppp/8/8/8/8/8/R3K3 w - - 0 1"%string) with Some q => q | None => startpos end.
Definition ex_M : Mv := mkMv 0 56 NOPIECE.
Definition ex_k : N := hash (makemove true ex_pos ex_M).

Lemma ex_premises :
  InvSR ex_pos /\ halfmoves ex_pos < 99 /\ In ex_M (legal_moves ex_pos) /\ mates ex_pos ex_M
  /\ ~ In ex_k [hash ex_pos] /\ NoKey ex_k (tt_new 1).
Proof.
  split; [apply invr_b_sound; vm_compute; reflexivity|].
  split; [vm_compute; reflexivity|].
  split; [vm_compute; tauto|].
  split; [split; vm_compute; reflexivity|].
  split.
  - intros [E|[]]. apply N.eqb_eq in E. vm_compute in E. discriminate.
  - apply NoKey_new. intros E. apply N.eqb_eq in E. vm_compute in E. discriminate.
Qed.

Example ex_theorem d fuel r : Z.of_nat fuel <= 599998 -> 1 <= d -> SafeN fuel ex_k ex_pos ->
  root (stop_of (LDepth d)) fuel ex_pos [hash ex_pos] (tt_new 1) = Some r ->
  (exists bm, rr_best r = Some bm /\ In bm (legal_moves ex_pos) /\ mates ex_pos bm) /\
  (forall i, In i (rr_infos r) -> i_score i = MATE_SCORE - 1) /\ rr_infos r <> [].
Proof.
  intros Hf Hd Hs. destruct ex_premises as (Hp & Hh & HM & Hm & Hn & Hk).
  exact (mate_in_one_is_played_fresh d fuel ex_pos [hash ex_pos] (tt_new 1) r ex_M Hp (TBnd_new 1) Hf Hh HM Hm Hn Hk Hs Hd).
Qed.

(* ... and here `SafeN` can be checked too.  With depth limit 3 the search returns with fuel 3; the positions within 3 plies
   of the root are enumerated (`safeb`), none with a legal move has the key of the mated position; so for EVERY fuel >= 3
   with which `root` returns, it plays a mate: no premise about the search tree is left *)
Lemma ex_safe3 : SafeN 3 ex_k ex_pos.
Proof. apply safeb_sound. vm_compute. reflexivity. Qed.

Lemma is_some_ex {A} (o : option A) : (match o with Some _ => true | None => false end) = true -> exists x, o = Some x.
Proof. destruct o as [x|]; [intros _; exists x; reflexivity|discriminate]. Qed.

Example ex_closed fuel r : (3 <= fuel)%nat ->
  root (stop_of (LDepth 3)) fuel ex_pos [hash ex_pos] (tt_new 1) = Some r ->
  (exists bm, rr_best r = Some bm /\ In bm (legal_moves ex_pos) /\ mates ex_pos bm) /\
  (forall i, In i (rr_infos r) -> i_score i = MATE_SCORE - 1) /\ rr_infos r <> [].
Proof.
  intros Hf H. destruct ex_premises as (Hp & Hh & HM & Hm & Hn & Hk).
  assert (H0 : exists r0, root (stop_of (LDepth 3)) 3 ex_pos [hash ex_pos] (tt_new 1) = Some r0).
  { apply is_some_ex. vm_compute. reflexivity. }
  destruct H0 as (r0 & H0).
  exact (mate_in_one_is_played_anyfuel 3 3 fuel ex_pos [hash ex_pos] (tt_new 1) r0 r ex_M Hp (TBnd_new 1) ltac:(cbn; lia) Hh HM Hm
           (notin_NoRep _ _ Hn) Hk ex_safe3 ltac:(lia) H0 Hf H).
Qed.
Print Assumptions ex_closed.

Definition ex_show (o : option RootResult) : option Mv * list (Z * Z) :=
  match o with
  | Some r => (rr_best r, map (fun i => (i_depth i, i_score i)) (rr_infos r))
  | None => (None, [])
  end.

Example ex_run :
  ex_show (root (stop_of (LDepth 3)) 50 ex_pos [hash ex_pos] (tt_new 1))
  = (Some ex_M, [(1, 999999); (2, 999999); (3, 999999)]).
Proof. vm_compute. reflexivity. Qed.

(* the misleading table: one entry, within the score bounds *)
Definition ex_entry : TTEntry := mkTT ex_k 0 0 0 900000 100 0.
Definition ex_poisoned : TTable :=
  match tt_add (tt_new 1) ex_k ex_entry with Some t => t | None => tt_new 1 end.

Lemma ex_poisoned_TBnd : TBnd ex_poisoned.
Proof.
  unfold ex_poisoned. destruct (tt_add (tt_new 1) ex_k ex_entry) as [t|] eqn:E; [|exact (TBnd_new 1)].
  refine (TBnd_add (tt_new 1) ex_k ex_entry t (TBnd_new 1) _ E). unfold VB, MATE_SCORE. cbn. lia.
Qed.

Example ex_poisoned_run :
  ex_show (root (stop_of (LDepth 3)) 50 ex_pos [hash ex_pos] ex_poisoned)
  = (Some (mkMv 0 48 NOPIECE), [(1, 265); (2, 237); (3, 252)]).
Proof. vm_compute. reflexivity. Qed.
