(* C04 at the level of the command loop: in every state the session reaches along any script, the stored key of the position is
   the key recomputed from scratch, and that is the specification's key of the abstract position. *)
From Coq Require Import NArith ZArith List Bool.
From Rawr Require Import Consts Bits Magic Position MoveGen MakeMove MakeStages Abs Closure GenLegal DomainInv DomainClosed Eval MenCount EpRetro Uci SessionInv KeySpec.
Import ListNotations.

Theorem session_state_keys s : SessInv s ->
  hash (u_pos s) = calculate_hash (u_pos s) /\ calculate_hash (u_pos s) = spec_key (abs_state (u_pos s)).
Proof. intros I. exact (gen_run_keys [] (u_pos s) (in_D_InvR _ (si_pos s I)) Logic.I). Qed.

Theorem session_keys mode lines s s' : SessInv s -> script_dom mode s lines -> Reached mode s lines s' ->
  hash (u_pos s') = calculate_hash (u_pos s') /\ calculate_hash (u_pos s') = spec_key (abs_state (u_pos s')).
Proof. intros I Hd Hr. exact (session_state_keys s' (reached_inv mode lines s s' I Hd Hr)). Qed.

(* C17 at the level of the command loop: the evaluation of every position the session reaches is within the bound the search relies on *)
Theorem session_eval_bounded mode lines s s' : SessInv s -> script_dom mode s lines -> Reached mode s lines s' ->
  (Z.abs (eval (u_pos s')) <= 400000)%Z.
Proof.
  intros I Hd Hr. pose proof (reached_inv mode lines s s' I Hd Hr) as I'.
  exact (inv16_eval _ (i16r _ (InvSR_16R _ (invr_b_sound _ (in_D_invr _ (si_pos s' I')))))).
Qed.

Print Assumptions session_keys.
Print Assumptions session_eval_bounded.
