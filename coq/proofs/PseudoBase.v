(* C01: the rules' pseudo-legal move list read in the White-to-move frame (stored frame = absolute frame), so that the
   generator's blocks can be compared with it block by block.  The Black-to-move frame follows by proofs/RulesMirror.v. *)
From Coq Require Import NArith ZArith List Bool Lia ZifyN ZifyBool.
From Rawr Require Import Consts Bits Magic Position MoveGen MakeMove MakeStages Rules Abs
                         BitsFacts AbsFacts HashFacts MakeFacts MakeAbs KeyAbs GenSane GenNoDup.
Import ListNotations.
Local Open Scope N_scope.
Ltac Zify.zify_post_hook ::= Z.div_mod_to_equations.

(* coordinates of a square *)
Definition fz (a : N) : Z := Z.of_N (a mod 8).
Definition rz (a : N) : Z := Z.of_N (a / 8).

Lemma fz_rz_onb a : a < 64 -> onb (fz a) (rz a) = true.
Proof. intros H. unfold onb, fz, rz. repeat (apply andb_true_iff; split); lia. Qed.
Lemma zsq_fz_rz a : a < 64 -> zsq (fz a) (rz a) = a.
Proof. intros H. unfold zsq, fz, rz. lia. Qed.
Lemma fz_zsq f r : on_board f r = true -> fz (zsq f r) = f.
Proof. unfold on_board, fz, zsq. intros H. repeat (apply andb_true_iff in H; destruct H as [H ?]). lia. Qed.
Lemma rz_zsq f r : on_board f r = true -> rz (zsq f r) = r.
Proof. unfold on_board, rz, zsq. intros H. repeat (apply andb_true_iff in H; destruct H as [H ?]). lia. Qed.
Lemma coords_inj a b : a < 64 -> b < 64 -> fz a = fz b -> rz a = rz b -> a = b.
Proof. unfold fz, rz. intros. lia. Qed.

Definition all_sq_ok (a : N) : bool := existsb (fun s => (fst s =? fz a)%Z && (snd s =? rz a)%Z) all_squares.
Lemma all_sq_ok_all : forallb all_sq_ok sq64_list = true.
Proof. vm_compute. reflexivity. Qed.
Lemma sq_in_all a : a < 64 -> In (fz a, rz a) all_squares.
Proof.
  intros Ha. pose proof all_sq_ok_all as H. rewrite forallb_forall in H. specialize (H a (in_sq64 a Ha)).
  unfold all_sq_ok in H. apply existsb_exists in H. destruct H as ([f r] & Hin & E). cbn [fst snd] in E.
  apply andb_true_iff in E. destruct E as [E1 E2]. apply Z.eqb_eq in E1, E2. subst. exact Hin.
Qed.
Lemma all_sq_onb f r : In (f, r) all_squares -> onb f r = true.
Proof.
  intros H. unfold all_squares in H. apply in_flat_map in H. destruct H as (r' & Hr & H). apply in_map_iff in H.
  destruct H as (f' & E & Hf). injection E as <- <-. unfold onb.
  cbn [In] in Hr, Hf. repeat (destruct Hr as [<-|Hr]; [repeat (destruct Hf as [<-|Hf]; [reflexivity|]); contradiction|]). contradiction.
Qed.

(* the moves the rules list for the man of kind k on (f, r): the body of pseudo_moves *)
Definition piece_moves (s : sstate) (f r : Z) (k : kind) : list smove :=
  let b := s_board s in
  let c := s_turn s in
  match k with
  | Pawn => pawn_moves s f r
  | Knight => step_moves b c f r knight_d
  | Bishop => flat_map (fun d => slide 7 b c f r f r (fst d) (snd d)) diag_d
  | Rook => flat_map (fun d => slide 7 b c f r f r (fst d) (snd d)) orth_d
  | Queen => flat_map (fun d => slide 7 b c f r f r (fst d) (snd d)) (diag_d ++ orth_d)
  | King => step_moves b c f r king_d
            ++ (if (r =? home c)%Z then castle_moves s f (kright s c) true ++ castle_moves s f (qright s c) false else [])
  end.

Lemma colour_eqb_refl c : colour_eqb c c = true. Proof. destruct c; reflexivity. Qed.
Lemma colour_eqb_eq c c' : colour_eqb c c' = true -> c = c'. Proof. destruct c, c'; intros H; try discriminate; reflexivity. Qed.

Lemma pseudo_intro s f r k sm : In (f, r) all_squares -> at_ (s_board s) f r = Some (s_turn s, k) ->
  In sm (piece_moves s f r k) -> In sm (pseudo_moves s).
Proof.
  intros Hin Hat Hm. unfold pseudo_moves. cbv zeta. apply in_flat_map. exists (f, r). split; [exact Hin|].
  cbn [fst snd]. rewrite Hat, colour_eqb_refl. unfold piece_moves in Hm. cbv zeta in Hm. exact Hm.
Qed.
Lemma pseudo_elim s sm : In sm (pseudo_moves s) ->
  exists f r k, In (f, r) all_squares /\ at_ (s_board s) f r = Some (s_turn s, k) /\ In sm (piece_moves s f r k).
Proof.
  unfold pseudo_moves. cbv zeta. intros H. apply in_flat_map in H. destruct H as ([f r] & Hin & H). cbn [fst snd] in H.
  destruct (at_ (s_board s) f r) as [[c' k]|] eqn:Hat; [|contradiction].
  destruct (colour_eqb (s_turn s) c') eqn:Ec; [|contradiction]. apply colour_eqb_eq in Ec. subst c'.
  exists f, r, k. split; [exact Hin|split; [exact Hat|]]. unfold piece_moves. cbv zeta. exact H.
Qed.

(* ------------------------------------------------------------------ White to move: the stored frame is the absolute frame *)
Section White.
Variable p : Position.
Hypothesis Ht : turn p = false.

Lemma rel_id a : rel_sq p a = a.
Proof. unfold rel_sq. rewrite Ht. reflexivity. Qed.
Lemma s_turn_white : s_turn (abs_state p) = White.
Proof. unfold abs_state. cbn [s_turn]. rewrite Ht. reflexivity. Qed.
Lemma s_board_white : s_board (abs_state p) = board_of p.
Proof. reflexivity. Qed.
Lemma at_sq a : a < 64 -> at_ (board_of p) (fz a) (rz a) = man_at p a.
Proof. exact (at_board p a). Qed.
Lemma man_ours a k : holds p a false k -> man_at p a = Some (White, kind_of_N k).
Proof. intros H. rewrite (man_at_holds p a false k) by (rewrite rel_id; exact H). rewrite Ht. reflexivity. Qed.
Lemma man_theirs a k : holds p a true k -> man_at p a = Some (Black, kind_of_N k).
Proof. intros H. rewrite (man_at_holds p a true k) by (rewrite rel_id; exact H). rewrite Ht. reflexivity. Qed.
Lemma man_empty a : empty_at p a -> man_at p a = None.
Proof. intros H. apply man_at_empty. rewrite rel_id. exact H. Qed.
(* the board read at arbitrary coordinates *)
Lemma at_coords f r : at_ (board_of p) f r = if on_board f r then man_at p (zsq f r) else None.
Proof.
  unfold at_. change (onb f r) with (on_board f r). destruct (on_board f r) eqn:Hb; [|reflexivity].
  assert (Hlt : zsq f r < 64).
  { unfold on_board in Hb. repeat (apply andb_true_iff in Hb; destruct Hb as [Hb ?]). unfold zsq. lia. }
  unfold on_board in Hb. repeat (apply andb_true_iff in Hb; destruct Hb as [Hb ?]).
  unfold idx. rewrite nth_board by (unfold zsq in Hlt; lia). f_equal. unfold zsq. lia.
Qed.

Definition promo_of (m : Mv) : option kind := if m_promo m =? NOPIECE then None else Some (kind_of_N (m_promo m)).
Lemma dec_white m : dec p m = mkM (fz (m_from m)) (rz (m_from m)) (fz (m_to m)) (rz (m_to m)) (promo_of m).
Proof. unfold dec, promo_of, fz, rz. rewrite !rel_id. reflexivity. Qed.

(* a move of our man of kind k standing on a is pseudo-legal as soon as it is in the rules' list for that man *)
Lemma pseudo_white a k sm : a < 64 -> holds p a false k ->
  In sm (piece_moves (abs_state p) (fz a) (rz a) (kind_of_N k)) -> In sm (pseudo_moves (abs_state p)).
Proof.
  intros Ha Hh Hm. apply (pseudo_intro (abs_state p) (fz a) (rz a) (kind_of_N k) sm (sq_in_all a Ha)); [|exact Hm].
  rewrite s_board_white, s_turn_white, (at_sq a Ha). exact (man_ours a k Hh).
Qed.
End White.
