(* C06: for a position without castling rights the printed FEN parses back to the position itself (both arithmetic
   modes): board field (FenBoard), side, the "-" castling field, the en-passant square, both clocks, the key. *)
From Coq Require Import NArith ZArith List Bool Lia ZifyN ZifyBool.
From Rawr Require Import Consts Bits Magic Position MoveGen MakeMove MakeStages Fen
                         BitsFacts ShiftFacts FlipFacts AbsFacts HashFacts MakeFacts KeyAbs NotationFacts FenFacts GenSane Closure FenBoard.
Import ListNotations.
Local Open Scope N_scope.
Ltac Zify.zify_post_hook ::= Z.div_mod_to_equations.

(* ------------------------------------------------------------------ splitting at spaces *)
Definition no32 (f : str) : Prop := ~ In 32 f.

Lemma split_sp_field f : no32 f -> forall rest cur, split_sp (f ++ 32 :: rest) cur = (rev cur ++ f) :: split_sp rest [].
Proof.
  induction f as [|c t IH]; intros Hn rest cur; cbn [app split_sp].
  - rewrite app_nil_r. reflexivity.
  - destruct (N.eqb_spec c 32) as [->|Hne]; [exfalso; apply Hn; left; reflexivity|].
    rewrite IH by (intros H; apply Hn; right; exact H). cbn [rev]. rewrite <- app_assoc. reflexivity.
Qed.
Lemma split_sp_last f : no32 f -> forall cur, split_sp f cur = [rev cur ++ f].
Proof.
  induction f as [|c t IH]; intros Hn cur; cbn [split_sp].
  - rewrite app_nil_r. reflexivity.
  - destruct (N.eqb_spec c 32) as [->|Hne]; [exfalso; apply Hn; left; reflexivity|].
    rewrite IH by (intros H; apply Hn; right; exact H). cbn [rev]. rewrite <- app_assoc. reflexivity.
Qed.

Lemma board_char_32 mode a : board_char mode a 32 = None.
Proof.
  unfold board_char. cbv zeta.
  destruct (u8_sub mode 7 (ba_idx a / 8)) as [r7|]; [|reflexivity]. cbn [obind].
  destruct (u8_mul mode 8 r7) as [r8|]; [|reflexivity]. cbn [obind].
  destruct (u8_add mode r8 (ba_idx a mod 8)) as [sq|]; [|reflexivity]. cbn [obind].
  destruct (bit_m mode sq) as [bb|]; reflexivity.
Qed.
Lemma board_loop_no32 mode : forall b a a', board_loop mode a b = Some a' -> no32 b.
Proof.
  induction b as [|c t IH]; intros a a' H; [intros []|]. cbn [board_loop] in H.
  destruct (board_char mode a c) as [a1|] eqn:E; [|discriminate]. cbn [obind] in H.
  intros [->|Hin]; [rewrite board_char_32 in E; discriminate|exact (IH _ _ H Hin)].
Qed.

Lemma dec_digits_no32 : forall fuel n acc, no32 acc -> no32 (dec_digits fuel n acc).
Proof.
  induction fuel as [|f IH]; intros n acc Ha; cbn [dec_digits]; [exact Ha|]. cbv zeta.
  assert (Hn : no32 ((48 + n mod 10) :: acc)) by (intros [E|H]; [lia|exact (Ha H)]).
  destruct (n / 10 =? 0); [exact Hn|apply IH; exact Hn].
Qed.
Lemma show_Z_no32 z : no32 (show_Z z).
Proof.
  unfold show_Z, show_N. destruct z; try (apply dec_digits_no32; intros []).
  intros [E|H]; [discriminate|]. revert H. apply dec_digits_no32. intros [].
Qed.
Lemma show_sq_no32 s : no32 (show_sq s).
Proof. unfold show_sq. intros [E|[E|[]]]; lia. Qed.

(* ------------------------------------------------------------------ flipping twice *)
Lemma flip_flip p : HashFacts.BB8 p -> (forall e, ep p = Some e -> e < 64) -> flip (flip p) = p.
Proof.
  intros (B1 & B2 & B3 & B4 & B5 & B6 & B7 & B8) He. destruct p. unfold flip. cbn in *.
  rewrite !bswap_invol by assumption. rewrite negb_involutive.
  assert (Eep : match match ep with Some s => Some (flip_sq s) | None => None end with Some s => Some (flip_sq s) | None => None end = ep).
  { destruct ep as [e|]; [rewrite flip_sq_invol|]; reflexivity. }
  rewrite Eep. reflexivity.
Qed.

Record RT (p : Position) : Prop := {
  rt_wf : WF p;
  rt_bb : HashFacts.BB8 p;
  rt_rights : us_ksc p = false /\ us_qsc p = false /\ them_ksc p = false /\ them_qsc p = false;
  rt_files : cf0 p = 7 /\ cf1 p = 0 /\ cf2 p = 7 /\ cf3 p = 0;
  rt_valid : validate p = None;
  rt_hash : hash p = calculate_hash p;
  rt_hm : (0 <= halfmoves p <= I32_MAX)%Z;
  rt_fm : (0 <= fullmoves p <= I32_MAX)%Z;
  rt_ep : forall e, ep p = Some e -> e < 64
}.

Lemma WF_flip' q : WF q -> WF (flip q). Proof. apply KeyMove.WF_flip. Qed.

Lemma castle_dash w b r k a : castle_loop w b r k a [] [45] = Some a.
Proof.
  cbn [castle_loop existsb]. unfold castle_char. cbv zeta.
  change (45 =? 75) with false. change (45 =? 81) with false. change (45 =? 107) with false. change (45 =? 113) with false.
  change ((65 <=? 45) && (45 <=? 72)) with false. change ((97 <=? 45) && (45 <=? 104)) with false. change (45 =? 45) with true.
  cbv iota. reflexivity.
Qed.

Lemma is_emp_false_of_pop X : popcount X = 1 -> is_emp X = false.
Proof. intros H. unfold is_emp. destruct (N.eqb_spec X 0) as [->|]; [discriminate H|reflexivity]. Qed.

Section Round.
Variable mode : bool.
Variable p : Position.
Hypothesis H : RT p.
Let np := if turn p then flip p else p.

Lemma np_turn : turn np = false.
Proof. unfold np. destruct (turn p) eqn:E; [cbn; rewrite E; reflexivity|exact E]. Qed.
Lemma np_wf : WF np.
Proof. unfold np. destruct (turn p); [apply WF_flip'|]; exact (rt_wf p H). Qed.
Lemma np_bb : HashFacts.BB8 np.
Proof. unfold np. destruct (turn p); [apply KeyMove.BB8_flip|exact (rt_bb p H)]. Qed.

Lemma np_fields : us_ksc np = false /\ us_qsc np = false /\ them_ksc np = false /\ them_qsc np = false
  /\ cf0 np = 7 /\ cf1 np = 0 /\ cf2 np = 7 /\ cf3 np = 0 /\ halfmoves np = halfmoves p /\ fullmoves np = fullmoves p /\ is_frc np = is_frc p.
Proof.
  destruct (rt_rights p H) as (R1 & R2 & R3 & R4). destruct (rt_files p H) as (F0 & F1 & F2 & F3).
  unfold np. destruct (turn p); cbn; repeat split; assumption.
Qed.

Lemma np_kings : is_emp (N.land (c_us np) (kings np)) = false /\ is_emp (N.land (c_them np) (kings np)) = false.
Proof.
  pose proof (validate_sound p (rt_valid p H)) as V.
  repeat match type of V with _ /\ _ => let X := fresh "V" in destruct V as [X V] end.
  destruct (rt_bb p H) as (B1 & B2 & _ & _ & _ & _ & _ & B8).
  match goal with W : popcount (N.land (get_white p) (kings p)) = 1 |- _ => rename W into Wk end.
  match goal with W : popcount (N.land (get_black p) (kings p)) = 1 |- _ => rename W into Bk end.
  unfold get_white, get_black in Wk, Bk. unfold np. destruct (turn p); cbn [flip c_us c_them kings].
  - rewrite <- !bswap_land, !is_emp_false_of_pop; [split; reflexivity| |].
    + rewrite popcount_bswap by (apply land_lt_l; exact B1). exact Bk.
    + rewrite popcount_bswap by (apply land_lt_l; exact B2). exact Wk.
  - rewrite !is_emp_false_of_pop by assumption. split; reflexivity.
Qed.
End Round.

(* the parser, stage by stage *)
Definition ep_parse (mode : bool) (epf : str) : option (option N) :=
  if str_eqb epf [45] then Some None
  else if byte_len epf =? 2 then
    match epf with
    | [c1; c2] =>
      obind (u8_sub mode (c1 mod 256) 97) (fun file =>
      obind (u8_sub mode (c2 mod 256) 49) (fun rank =>
      obind (u8_mul mode 8 rank) (fun r8 =>
      obind (u8_add mode r8 file) (fun idx => Some (Some idx)))))
    | _ => None
    end
  else None.

Lemma set_fen_stages mode frc fen b c cas epf hmf fmf ba flipb ca epv hm fm :
  split_sp fen [] = [b; [c]; cas; epf; hmf; fmf] ->
  board_loop mode (mkBA 0 0 [0; 0; 0; 0; 0; 0] 0) b = Some ba -> ba_idx ba = 64 ->
  (if (c =? 119) || (c =? 87) then Some false else if (c =? 98) || (c =? 66) then Some true else None) = Some flipb ->
  is_emp (N.land (ba_w ba) (nthN (ba_pc ba) 5 0)) = false -> is_emp (N.land (ba_b ba) (nthN (ba_pc ba) 5 0)) = false ->
  castle_loop (ba_w ba) (ba_b ba) (nthN (ba_pc ba) 3 0) (nthN (ba_pc ba) 5 0) (mkCA false false false false 7 0 7 0) [] cas = Some ca ->
  ep_parse mode epf = Some epv -> parse_i32 hmf = Some hm -> (hm <? 0)%Z = false -> parse_i32 fmf = Some fm -> (fm <? 0)%Z = false ->
  set_fen_raw mode frc fen =
  finish_fen mode
    (let q := mkPos (ba_w ba) (ba_b ba) (nthN (ba_pc ba) 0 0) (nthN (ba_pc ba) 1 0) (nthN (ba_pc ba) 2 0) (nthN (ba_pc ba) 3 0)
                    (nthN (ba_pc ba) 4 0) (nthN (ba_pc ba) 5 0) hm fm false epv (ca_uk ca) (ca_uq ca) (ca_tk ca) (ca_tq ca)
                    (ca_f0 ca) (ca_f1 ca) (ca_f2 ca) (ca_f3 ca) 0 frc in
     if flipb then flip q else q).
Proof.
  intros Hs Hb Hi Hside Hk1 Hk2 Hc He Hh Hh0 Hf Hf0.
  unfold set_fen_raw. rewrite Hs, Hb. cbn [obind]. rewrite Hi. change (negb (64 =? 64)) with false. cbv iota.
  rewrite Hside. cbv zeta. rewrite Hk1, Hk2, Hc. cbn [obind].
  fold (ep_parse mode epf). rewrite He. cbn [obind]. rewrite Hh, Hh0, Hf, Hf0. reflexivity.
Qed.

Lemma ep_parse_dash mode : ep_parse mode [45] = Some None.
Proof. reflexivity. Qed.

Lemma ep_parse_sq mode e : e < 64 -> ep_parse mode (show_sq e) = Some (Some e).
Proof.
  intros He. pose proof (ep_field_roundtrip mode e He) as Hr. unfold ep_roundtrip_ok in Hr.
  unfold ep_parse, show_sq in *. cbn [str_eqb]. rewrite andb_false_r.
  assert (Hlen : byte_len [97 + e mod 8; 49 + e / 8] = 2).
  { unfold byte_len. cbn [fold_left]. unfold utf8_len.
    destruct (N.ltb_spec (97 + e mod 8) 128); [|lia]. destruct (N.ltb_spec (49 + e / 8) 128); [|lia]. reflexivity. }
  rewrite Hlen. change (2 =? 2) with true. cbv iota.
  destruct (u8_sub mode ((97 + e mod 8) mod 256) 97) as [file|]; [|discriminate]. cbn [obind] in *.
  destruct (u8_sub mode ((49 + e / 8) mod 256) 49) as [rank|]; [|discriminate]. cbn [obind] in *.
  destruct (u8_mul mode 8 rank) as [r8|]; [|discriminate]. cbn [obind] in *.
  destruct (u8_add mode r8 file) as [idx|]; [|discriminate]. cbn [obind]. apply N.eqb_eq in Hr. rewrite Hr. reflexivity.
Qed.

Lemma mk_np q frc : turn q = false -> us_ksc q = false -> us_qsc q = false -> them_ksc q = false -> them_qsc q = false ->
  cf0 q = 7 -> cf1 q = 0 -> cf2 q = 7 -> cf3 q = 0 -> frc = is_frc q ->
  mkPos (c_us q) (c_them q) (pawns q) (knights q) (bishops q) (rooks q) (queens q) (kings q)
        (halfmoves q) (fullmoves q) false (ep q) false false false false 7 0 7 0 0 frc = set_hash q 0.
Proof. destruct q. cbn. intros. subst. reflexivity. Qed.

Theorem fen_roundtrip_no_rights mode p : RT p ->
  exists s, get_fen p = Some s /\ set_fen_raw mode (is_frc p) s = Some p.
Proof.
  intros H. set (np := if turn p then flip p else p).
  pose proof (np_turn p) as Ht. pose proof (np_wf p H) as Hw. pose proof (np_bb p H) as Hb. fold np in Ht, Hw, Hb.
  destruct (np_fields p H) as (R1 & R2 & R3 & R4 & F0 & F1 & F2 & F3 & Ehm & Efm & Efrc). fold np in R1, R2, R3, R4, F0, F1, F2, F3, Ehm, Efm, Efrc.
  destruct (np_kings p H) as (K1 & K2). fold np in K1, K2.
  destruct (board_field_roundtrip np mode Hw Hb Ht) as (b & Hfb & Hl).
  set (c := if turn p then 98 else 119).
  set (epf := match ep np with Some e => show_sq e | None => [45] end).
  set (hmf := show_Z (halfmoves np)). set (fmf := show_Z (fullmoves np)).
  assert (Hget : get_fen p = Some (b ++ 32 :: [c] ++ 32 :: [45] ++ 32 :: epf ++ 32 :: hmf ++ 32 :: fmf)).
  { unfold get_fen. fold np. rewrite Hfb. cbn [obind]. rewrite R1, R2, R3, R4. cbn [negb andb]. cbv iota.
    f_equal. f_equal. unfold c, epf, hmf, fmf. destruct (turn p); destruct (ep np); reflexivity. }
  eexists. split; [exact Hget|].
  assert (Hsplit : split_sp (b ++ 32 :: [c] ++ 32 :: [45] ++ 32 :: epf ++ 32 :: hmf ++ 32 :: fmf) [] = [b; [c]; [45]; epf; hmf; fmf]).
  { rewrite (split_sp_field b (board_loop_no32 mode _ _ _ Hl)).
    rewrite (split_sp_field [c]) by (unfold c; destruct (turn p); intros [E|[]]; discriminate).
    rewrite (split_sp_field [45]) by (intros [E|[]]; discriminate).
    rewrite (split_sp_field epf) by (unfold epf; destruct (ep np); [apply show_sq_no32|intros [E|[]]; discriminate]).
    rewrite (split_sp_field hmf) by apply show_Z_no32.
    rewrite (split_sp_last fmf) by apply show_Z_no32. reflexivity. }
  assert (Hep : forall e, ep np = Some e -> e < 64).
  { intros e He. unfold np in He. destruct (turn p); [|exact (rt_ep p H e He)].
    cbn [flip ep] in He. destruct (ep p) as [e0|] eqn:E0; [|discriminate]. injection He as <-. apply flip_sq_lt. exact (rt_ep p H e0 E0). }
  rewrite (set_fen_stages mode (is_frc p) _ b c [45] epf hmf fmf _ (turn p) (mkCA false false false false 7 0 7 0) (ep np) (halfmoves np) (fullmoves np) Hsplit Hl).
  - (* the parsed record is np with key 0; flipped back and re-keyed it is p *)
    cbn [ba_w ba_b ba_pc ca_uk ca_uq ca_tk ca_tq ca_f0 ca_f1 ca_f2 ca_f3]. cbv zeta.
    change (nthN [pawns np; knights np; bishops np; rooks np; queens np; kings np] 0 0) with (pawns np).
    change (nthN [pawns np; knights np; bishops np; rooks np; queens np; kings np] 1 0) with (knights np).
    change (nthN [pawns np; knights np; bishops np; rooks np; queens np; kings np] 2 0) with (bishops np).
    change (nthN [pawns np; knights np; bishops np; rooks np; queens np; kings np] 3 0) with (rooks np).
    change (nthN [pawns np; knights np; bishops np; rooks np; queens np; kings np] 4 0) with (queens np).
    change (nthN [pawns np; knights np; bishops np; rooks np; queens np; kings np] 5 0) with (kings np).
    set (Q := mkPos (c_us np) (c_them np) (pawns np) (knights np) (bishops np) (rooks np) (queens np) (kings np)
                      (halfmoves np) (fullmoves np) false (ep np) false false false false 7 0 7 0 0 (is_frc p)).
    assert (Eq : (if turn p then flip Q else Q) = set_hash p 0).
    { assert (Enp : Q = set_hash np 0) by (apply mk_np; try assumption; symmetry; exact Efrc).
      rewrite Enp. unfold np. destruct (turn p) eqn:Et.
      - transitivity (set_hash (flip (flip p)) 0); [destruct (flip p); reflexivity|]. rewrite (flip_flip p (rt_bb p H) (rt_ep p H)). reflexivity.
      - reflexivity. }
    rewrite Eq. unfold finish_fen. rewrite calculate_hash_set_hash, <- (rt_hash p H).
    assert (Es : set_hash (set_hash p 0) (hash p) = p) by (destruct p; reflexivity). rewrite Es.
    assert (Ebit : match ep p with Some e => bit_m mode e | None => Some 0 end <> None).
    { destruct (ep p) as [e|] eqn:E; [|discriminate]. unfold bit_m. pose proof (rt_ep p H e E) as L. apply N.ltb_lt in L. rewrite L. discriminate. }
    destruct (match ep p with Some e => bit_m mode e | None => Some 0 end); [|contradiction]. rewrite (rt_valid p H). reflexivity.
  - reflexivity.
  - unfold c. destruct (turn p); reflexivity.
  - cbn [ba_w ba_pc]. change (nthN [pawns np; knights np; bishops np; rooks np; queens np; kings np] 5 0) with (kings np). exact K1.
  - cbn [ba_b ba_pc]. change (nthN [pawns np; knights np; bishops np; rooks np; queens np; kings np] 5 0) with (kings np). exact K2.
  - apply castle_dash.
  - unfold epf. destruct (ep np) as [e|] eqn:E; [exact (ep_parse_sq mode e (Hep e eq_refl))|exact (ep_parse_dash mode)].
  - unfold hmf. rewrite Ehm. apply parse_show_Z. exact (rt_hm p H).
  - rewrite Ehm. apply Z.ltb_ge. exact (proj1 (rt_hm p H)).
  - unfold fmf. rewrite Efm. apply parse_show_Z. exact (rt_fm p H).
  - rewrite Efm. apply Z.ltb_ge. exact (proj1 (rt_fm p H)).
Qed.

(* the same through set_fen / from_fen (the printed string is never the word "startpos": it contains a space) *)
Lemma str_eqb_eq' a : forall b, str_eqb a b = true -> a = b.
Proof.
  induction a as [|x a IH]; intros [|y b] H; cbn [str_eqb] in H; try discriminate; [reflexivity|].
  apply andb_true_iff in H. destruct H as [H1 H2]. apply N.eqb_eq in H1. rewrite H1, (IH b H2). reflexivity.
Qed.

Theorem fen_roundtrip mode p : RT p -> exists s, get_fen p = Some s /\ set_fen mode (is_frc p) s = Some p.
Proof.
  intros H. destruct (fen_roundtrip_no_rights mode p H) as (s & Hg & Hs). exists s. split; [exact Hg|].
  unfold set_fen. destruct (str_eqb s STARTPOS_STR) eqn:E; [|exact Hs]. exfalso.
  apply str_eqb_eq' in E. subst s.
  unfold get_fen in Hg. destruct (fen_board _ _) as [b|]; [|discriminate]. cbn [obind] in Hg. injection Hg as Hg.
  assert (Hin : In 32 STARTPOS_STR).
  { rewrite <- Hg. apply in_or_app. right. destruct (turn p); left; reflexivity. }
  vm_compute in Hin. repeat destruct Hin as [Hin|Hin]; try discriminate Hin. exact Hin.
Qed.
