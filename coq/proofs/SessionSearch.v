(* C13 at the level of the command loop: a `go` command, whatever kind and however the search ends, leaves the position, the game
   history, the Hash option and the Chess960 flag of the session exactly as they were; only the table may change. *)
From Coq Require Import NArith ZArith List Bool String.
From Rawr Require Import Consts Bits Magic Position MoveGen MakeMove Fen Eval TT Search SearchFacts Uci.
Import ListNotations.

Lemma cont_inj_state s1 o1 s2 o2 : Cont s1 o1 = Cont s2 o2 -> s1 = s2.
Proof. intros H. injection H as H1 _. exact H1. Qed.

Definition same_game (s s' : UState) : Prop :=
  u_pos s' = u_pos s /\ u_hist s' = u_hist s /\ u_hash s' = u_hash s /\ u_frc s' = u_frc s.

Theorem go_search_keeps_game s l s' o : go_search s l = Cont s' o -> same_game s s'.
Proof.
  unfold go_search. destruct (root (stop_of l) SEARCH_FUEL (u_pos s) (u_hist s) (u_tt s)) as [r|] eqn:E; [|intros H; discriminate H].
  intros H. apply cont_inj_state in H. subst s'. unfold same_game. cbn [u_pos u_hist u_hash u_frc].
  split; [reflexivity|]. split; [exact (root_keeps_history _ _ _ _ _ _ E)|]. split; reflexivity.
Qed.

Theorem go_cmd_keeps_game s toks s' o : go_cmd s toks = Cont s' o -> same_game s s'.
Proof.
  unfold go_cmd. destruct (parse_go toks) as [[wt bt mtg|t|d|n| |d|d]|].
  all: try (intros H; exact (go_search_keeps_game _ _ _ _ H)).
  all: try (intros H; apply cont_inj_state in H; subst s'; repeat split; reflexivity).
  all: intros H; discriminate H.
Qed.

Lemma step_go mode s args : step mode s (lit "go"%string :: args) = go_cmd s args.
Proof. reflexivity. Qed.

Theorem step_go_keeps_game mode s args s' o : step mode s (lit "go"%string :: args) = Cont s' o -> same_game s s'.
Proof. rewrite step_go. exact (go_cmd_keeps_game s args s' o). Qed.

Print Assumptions go_cmd_keeps_game.
Print Assumptions step_go_keeps_game.
