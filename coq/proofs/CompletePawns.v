(* C01 (completeness half): pawn pushes, double pushes and ordinary pawn captures.  A pawn move of one of these three
   shapes that does not leave the mover's king attacked is emitted by the generator (engine level, frame independent).
   The converse pin theory of LegalConv turns "our king is safe afterwards" into the bit conditions that the
   pawn blocks of the generator test; the rest reverses LegalBlocks.singles_legal / doubles_legal / cap_ne_legal /
   cap_nw_legal.  En passant is not treated here. *)
From Coq Require Import NArith ZArith List Bool Lia ZifyN ZifyBool.
From Rawr Require Import Consts Bits Magic Position MoveGen MakeMove MakeStages
                         BitsFacts ShiftFacts LsbFacts HashFacts MakeFacts KeyAbs AttackFacts RayFacts CountFacts
                         GenSane GenNoDup RaySym NoKingCapture Closure EpRetro LegalBase RayGeo PinFacts LegalPin LegalConv
                         PseudoPawns.
Import ListNotations.
Local Open Scope N_scope.
Ltac Zify.zify_post_hook ::= Z.div_mod_to_equations.

(* ------------------------------------------------------------------ small facts *)
Lemma promo_cond_range b pr : promo_cond b pr -> pr = NOPIECE \/ 1 <= pr <= 4.
Proof. unfold promo_cond. destruct (rank_of b =? 7); intros H; [right|left]; exact H. Qed.

(* promo_or_plain emits every move that satisfies promo_cond *)
Lemma promo_mem delta from to pr : from = to - delta -> promo_cond to pr -> In (PAWN, from, to, pr) (promo_or_plain delta to).
Proof.
  intros -> H. unfold promo_cond in H. unfold promo_or_plain. cbv zeta. destruct (rank_of to =? 7).
  - assert (E : pr = 4 \/ pr = 3 \/ pr = 2 \/ pr = 1) by lia.
    destruct E as [-> | [-> | [-> | ->]]]; cbn [In].
    + left. reflexivity.
    + right. left. reflexivity.
    + right. right. left. reflexivity.
    + right. right. right. left. reflexivity.
  - rewrite H. left. reflexivity.
Qed.

Lemma ltb64 a : a < 64 -> (a <? 64) = true.
Proof. intros H. apply N.ltb_lt. exact H. Qed.

Lemma pawn_bits p a : holds p a false PAWN -> N.testbit (pawns p) a = true /\ N.testbit (c_us p) a = true.
Proof.
  intros (_ & Hu & _ & Hp). specialize (Hp 0 ltac:(lia)). split; [exact Hp|exact Hu].
Qed.

Lemma empty_bits p s : empty_at p s -> N.testbit (c_us p) s = false /\ N.testbit (c_them p) s = false.
Proof. intros (Hu & Ht & _). split; [exact Hu|exact Ht]. Qed.

Lemma empty_bb_bit p s : s < 64 -> empty_at p s -> N.testbit (empty_bb p) s = true.
Proof.
  intros Hs He. destruct (empty_bits p s He) as (Hu & Ht).
  unfold empty_bb, occupied. rewrite testbit_bnot, N.lor_spec, Hu, Ht, (ltb64 s Hs). reflexivity.
Qed.

(* the pawn move, once its target is known not to be ours and it is not an en-passant capture, is sane *)
Lemma pawn_sane p a b pr : Good p -> holds p a false PAWN -> a < 64 -> b < 64 -> ub p b = false ->
  mv_is_ep p (mkMv a b pr) = false -> promo_cond b pr -> (rank_of b = rank_of a + 1 \/ b = a + 16) ->
  sane p (mkMv a b pr) PAWN.
Proof.
  intros G Ha Ha64 Hb64 Hub Hnep Hpr Hgeo. destruct (pawn_bits p a Ha) as (Hp & Hu).
  exact (proj1 (pawn_move_sane p G a b pr Ha64 Hb64 Hu Hp Hub Hnep (promo_cond_range b pr Hpr) Hgeo)).
Qed.

(* an empty square is not the square of their king *)
Lemma empty_not_tksq p s : Inv0 p -> empty_at p s -> s <> tksq p.
Proof.
  intros I He E. pose proof (i0_good p I) as G.
  destruct (their_king_holds p (g_wf p G) (g_bb p G) (i0_tking p I)) as ((_ & _ & Ht & _) & _).
  destruct He as (_ & Ht' & _). rewrite <- E in Ht. rewrite Ht in Ht'. discriminate.
Qed.

(* a square attacked by one of our pawns is not the square of their king *)
Lemma pawn_ne_not_tksq p a : Inv0 p -> holds p a false PAWN -> a + 9 < 64 -> a mod 8 <> 7 -> a + 9 <> tksq p.
Proof.
  intros I Ha Hb Hf E. destruct (pawn_bits p a Ha) as (Hp & Hu).
  assert (Hbit : N.testbit (north_east (N.land (pawns p) (c_us p))) (a + 9) = true).
  { rewrite testbit_north_east, N.add_sub, N.land_spec, Hp, Hu, (ltb64 _ Hb).
    replace (9 <=? a + 9) with true by (symmetry; apply N.leb_le; lia).
    replace ((a + 9) mod 8 =? 0) with false by (symmetry; apply N.eqb_neq; lia). reflexivity. }
  pose proof (attacked_by_pawn p (a + 9) (pawn_ne_attacks p _ (a + 9) (fun s H => H) Hbit)) as Hatt.
  pose proof (i0_safe p I) as Hs. unfold in_check_them in Hs. rewrite E in Hatt. unfold tksq in Hatt. rewrite Hatt in Hs. discriminate.
Qed.

Lemma pawn_nw_not_tksq p a : Inv0 p -> holds p a false PAWN -> a + 7 < 64 -> a mod 8 <> 0 -> a + 7 <> tksq p.
Proof.
  intros I Ha Hb Hf E. destruct (pawn_bits p a Ha) as (Hp & Hu).
  assert (Hbit : N.testbit (north_west (N.land (pawns p) (c_us p))) (a + 7) = true).
  { rewrite testbit_north_west, N.add_sub, N.land_spec, Hp, Hu, (ltb64 _ Hb).
    replace (7 <=? a + 7) with true by (symmetry; apply N.leb_le; lia).
    replace ((a + 7) mod 8 =? 7) with false by (symmetry; apply N.eqb_neq; lia). reflexivity. }
  pose proof (attacked_by_pawn p (a + 7) (pawn_nw_attacks p _ (a + 7) (fun s H => H) Hbit)) as Hatt.
  pose proof (i0_safe p I) as Hs. unfold in_check_them in Hs. rewrite E in Hatt. unfold tksq in Hatt. rewrite Hatt in Hs. discriminate.
Qed.

Lemma pawn_not_king : PAWN <> KING.
Proof. unfold PAWN, KING. lia. Qed.

(* bit a of the pushers *)
Lemma pushers_bit p a : holds p a false PAWN -> a < 64 ->
  N.testbit (gi_hpinned (gen_info p)) a = false -> N.testbit (gi_bpinned (gen_info p)) a = false ->
  N.testbit (g_pushers p) a = true.
Proof.
  intros Ha Ha64 Hh Hb. destruct (pawn_bits p a Ha) as (Hp & Hu).
  unfold g_pushers. rewrite !N.land_spec, testbit_bnot, N.lor_spec, Hp, Hu, Hh, Hb, (ltb64 a Ha64). reflexivity.
Qed.

(* bit a of the capture sources *)
Lemma capsrc_bit p X a : holds p a false PAWN -> a < 64 ->
  N.testbit (gi_rpinned (gen_info p)) a = false ->
  (N.testbit (gi_bpinned (gen_info p)) a = false \/ N.testbit X a = true) ->
  N.testbit (g_capsrc p X) a = true.
Proof.
  intros Ha Ha64 Hr Hb. destruct (pawn_bits p a Ha) as (Hp & Hu).
  unfold g_capsrc. rewrite !N.land_spec, N.lor_spec, !testbit_bnot, Hp, Hu, Hr, (ltb64 a Ha64). cbn [andb negb].
  destruct Hb as [Hb|Hb]; rewrite Hb; [reflexivity|apply orb_true_r].
Qed.

(* from a block to the move list *)
Lemma in_legal_moves p g : In g (move_generator p) -> In (gen_mv g) (legal_moves p).
Proof. intros H. unfold legal_moves. apply in_map. exact H. Qed.

(* ------------------------------------------------------------------ single pushes *)
Theorem push_block_complete u p a pr : Inv0 p -> holds p a false PAWN -> a + 8 < 64 -> empty_at p (a + 8) -> promo_cond (a + 8) pr ->
  in_check_them (makemove u p (mkMv a (a + 8) pr)) = false -> In (PAWN, a, a + 8, pr) (blk_singles p).
Proof.
  intros I Ha Hb He Hpr Hsafe. pose proof (i0_good p I) as G.
  assert (Ha64 : a < 64) by lia.
  assert (Hnep : mv_is_ep p (mkMv a (a + 8) pr) = false).
  { apply same_file_not_ep. unfold file_of. lia. }
  assert (S : sane p (mkMv a (a + 8) pr) PAWN).
  { apply pawn_sane; try assumption.
    - exact (proj1 (empty_bits p _ He)).
    - left. unfold rank_of. lia. }
  pose proof (empty_not_tksq p (a + 8) I He) as NVK.
  pose proof (conv_allowed u p _ PAWN I S NVK pawn_not_king Hnep Hsafe) as Hall.
  destruct (conv_push u p _ PAWN I S NVK pawn_not_king Hnep Hsafe (or_introl eq_refl)) as (Hh & Hbp).
  cbn [m_from m_to] in Hall, Hh, Hbp.
  unfold blk_singles. apply in_flat_map. exists (a + 8). split.
  - apply bits_spec. unfold g_singles. rewrite !N.land_spec, testbit_north, N.add_sub.
    rewrite (pushers_bit p a Ha Ha64 Hh Hbp), (empty_bb_bit p _ Hb He), Hall, (ltb64 _ Hb).
    replace (8 <=? a + 8) with true by (symmetry; apply N.leb_le; lia). reflexivity.
  - apply promo_mem; [lia|exact Hpr].
Qed.

Theorem push_complete u p a pr : Inv0 p -> holds p a false PAWN -> a + 8 < 64 -> empty_at p (a + 8) -> promo_cond (a + 8) pr ->
  in_check_them (makemove u p (mkMv a (a + 8) pr)) = false -> In (mkMv a (a + 8) pr) (legal_moves p).
Proof.
  intros I Ha Hb He Hpr Hsafe.
  apply (in_legal_moves p (PAWN, a, a + 8, pr)). rewrite generator_blocks. apply in_or_app. left.
  exact (push_block_complete u p a pr I Ha Hb He Hpr Hsafe).
Qed.
Print Assumptions push_complete.

(* ------------------------------------------------------------------ double pushes *)
Theorem double_block_complete u p a : Inv0 p -> holds p a false PAWN -> rank_of a = 1 -> empty_at p (a + 8) -> empty_at p (a + 16) ->
  in_check_them (makemove u p (mkMv a (a + 16) NOPIECE)) = false -> In (PAWN, a, a + 16, NOPIECE) (blk_doubles p).
Proof.
  intros I Ha Hr He1 He2 Hsafe. pose proof (i0_good p I) as G.
  unfold rank_of in Hr.
  assert (Ha64 : a < 64) by lia. assert (Hb1 : a + 8 < 64) by lia. assert (Hb : a + 16 < 64) by lia.
  assert (Hnep : mv_is_ep p (mkMv a (a + 16) NOPIECE) = false).
  { apply same_file_not_ep. unfold file_of. lia. }
  assert (S : sane p (mkMv a (a + 16) NOPIECE) PAWN).
  { apply pawn_sane; try assumption.
    - exact (proj1 (empty_bits p _ He2)).
    - unfold promo_cond. replace (rank_of (a + 16) =? 7) with false by (symmetry; apply N.eqb_neq; unfold rank_of; lia). reflexivity.
    - right. reflexivity. }
  pose proof (empty_not_tksq p (a + 16) I He2) as NVK.
  pose proof (conv_allowed u p _ PAWN I S NVK pawn_not_king Hnep Hsafe) as Hall.
  destruct (conv_push u p _ PAWN I S NVK pawn_not_king Hnep Hsafe (or_intror eq_refl)) as (Hh & Hbp).
  cbn [m_from m_to] in Hall, Hh, Hbp.
  unfold blk_doubles. apply in_map_iff. exists (a + 16). split.
  - rewrite N.add_sub. reflexivity.
  - apply bits_spec. unfold g_doubles, north_north. rewrite !N.land_spec, testbit_shl, testbit_north, testbit_RANK4, N.add_sub.
    replace (a + 16 - 8) with (a + 8) by lia.
    rewrite (pushers_bit p a Ha Ha64 Hh Hbp), (empty_bb_bit p _ Hb He2), (empty_bb_bit p _ Hb1 He1), Hall, (ltb64 _ Hb).
    replace (16 <=? a + 16) with true by (symmetry; apply N.leb_le; lia).
    replace (8 <=? a + 16) with true by (symmetry; apply N.leb_le; lia).
    replace (24 <=? a + 16) with true by (symmetry; apply N.leb_le; lia).
    replace (a + 16 <? 32) with true by (symmetry; apply N.ltb_lt; lia). reflexivity.
Qed.

Theorem double_complete u p a : Inv0 p -> holds p a false PAWN -> rank_of a = 1 -> empty_at p (a + 8) -> empty_at p (a + 16) ->
  in_check_them (makemove u p (mkMv a (a + 16) NOPIECE)) = false -> In (mkMv a (a + 16) NOPIECE) (legal_moves p).
Proof.
  intros I Ha Hr He1 He2 Hsafe.
  apply (in_legal_moves p (PAWN, a, a + 16, NOPIECE)). rewrite generator_blocks. apply in_or_app. right. apply in_or_app. left.
  exact (double_block_complete u p a I Ha Hr He1 He2 Hsafe).
Qed.
Print Assumptions double_complete.

(* ------------------------------------------------------------------ captures *)
(* what the two capture directions share: sanity of the move and the pin / evasion bits *)
Lemma capture_common u p a b pr : Inv0 p -> holds p a false PAWN -> a < 64 -> b < 64 ->
  (b = a + 9 \/ b = a + 7) -> rank_of b = rank_of a + 1 -> b <> tksq p -> tb p b = true -> promo_cond b pr ->
  in_check_them (makemove u p (mkMv a b pr)) = false ->
  N.testbit (gi_allowed (gen_info p)) b = true /\ N.testbit (gi_rpinned (gen_info p)) a = false /\
  (N.testbit (gi_bpinned (gen_info p)) a = false \/ N.testbit (gi_bxrays (gen_info p)) b = true).
Proof.
  intros I Ha Ha64 Hb Hgeo Hrk NVK Ht Hpr Hsafe. pose proof (i0_good p I) as G.
  destruct (theirs_holds p (g_wf p G) b Hb Ht) as (c & Hc).
  pose proof (occupied_not_ep p a b pr c Hc) as Hnep.
  assert (S : sane p (mkMv a b pr) PAWN).
  { apply pawn_sane; try assumption.
    - exact (them_not_us p (g_dis p G) b Ht).
    - left. exact Hrk. }
  pose proof (conv_allowed u p _ PAWN I S NVK pawn_not_king Hnep Hsafe) as Hall.
  pose proof (conv_pcap u p _ PAWN I S NVK pawn_not_king Hnep Hsafe Hgeo) as Hrp.
  pose proof (conv_bpinned u p _ PAWN I S NVK pawn_not_king Hnep Hsafe) as Hbx.
  cbn [m_from m_to] in Hall, Hrp, Hbx.
  split; [exact Hall|split; [exact Hrp|]].
  destruct (N.testbit (gi_bpinned (gen_info p)) a) eqn:E; [right; exact (Hbx eq_refl)|left; reflexivity].
Qed.

Theorem cap_ne_block_complete u p a pr : Inv0 p -> holds p a false PAWN -> a + 9 < 64 -> a mod 8 <> 7 ->
  tb p (a + 9) = true -> promo_cond (a + 9) pr ->
  in_check_them (makemove u p (mkMv a (a + 9) pr)) = false -> In (PAWN, a, a + 9, pr) (blk_cap_ne p).
Proof.
  intros I Ha Hb Hf Ht Hpr Hsafe.
  assert (Ha64 : a < 64) by lia.
  assert (Hrk : rank_of (a + 9) = rank_of a + 1) by (unfold rank_of; lia).
  pose proof (pawn_ne_not_tksq p a I Ha Hb Hf) as NVK.
  destruct (capture_common u p a (a + 9) pr I Ha Ha64 Hb (or_introl eq_refl) Hrk NVK Ht Hpr Hsafe) as (Hall & Hrp & Hbp).
  unfold blk_cap_ne. apply in_flat_map. exists (a + 9). split.
  - apply bits_spec. unfold g_cap_ne. rewrite !N.land_spec, east_north, testbit_north_east, N.add_sub.
    rewrite (capsrc_bit p _ a Ha Ha64 Hrp).
    + unfold tb, is_set in Ht. rewrite Ht, Hall, (ltb64 _ Hb).
      replace (9 <=? a + 9) with true by (symmetry; apply N.leb_le; lia).
      replace ((a + 9) mod 8 =? 0) with false by (symmetry; apply N.eqb_neq; lia). reflexivity.
    + destruct Hbp as [Hbp|Hbp]; [left; exact Hbp|right].
      rewrite testbit_south_west, Hbp, (ltb64 a Ha64).
      replace (a mod 8 =? 7) with false by (symmetry; apply N.eqb_neq; exact Hf). reflexivity.
  - apply promo_mem; [lia|exact Hpr].
Qed.

Theorem cap_nw_block_complete u p a pr : Inv0 p -> holds p a false PAWN -> a + 7 < 64 -> a mod 8 <> 0 ->
  tb p (a + 7) = true -> promo_cond (a + 7) pr ->
  in_check_them (makemove u p (mkMv a (a + 7) pr)) = false -> In (PAWN, a, a + 7, pr) (blk_cap_nw p).
Proof.
  intros I Ha Hb Hf Ht Hpr Hsafe.
  assert (Ha64 : a < 64) by lia.
  assert (Hrk : rank_of (a + 7) = rank_of a + 1) by (unfold rank_of; lia).
  pose proof (pawn_nw_not_tksq p a I Ha Hb Hf) as NVK.
  destruct (capture_common u p a (a + 7) pr I Ha Ha64 Hb (or_intror eq_refl) Hrk NVK Ht Hpr Hsafe) as (Hall & Hrp & Hbp).
  unfold blk_cap_nw. apply in_flat_map. exists (a + 7). split.
  - apply bits_spec. unfold g_cap_nw. rewrite !N.land_spec, testbit_north_west, N.add_sub.
    rewrite (capsrc_bit p _ a Ha Ha64 Hrp).
    + unfold tb, is_set in Ht. rewrite Ht, Hall, (ltb64 _ Hb).
      replace (7 <=? a + 7) with true by (symmetry; apply N.leb_le; lia).
      replace ((a + 7) mod 8 =? 7) with false by (symmetry; apply N.eqb_neq; lia). reflexivity.
    + destruct Hbp as [Hbp|Hbp]; [left; exact Hbp|right].
      rewrite testbit_south_east, Hbp, (ltb64 a Ha64).
      replace (a mod 8 =? 0) with false by (symmetry; apply N.eqb_neq; exact Hf). reflexivity.
  - apply promo_mem; [lia|exact Hpr].
Qed.

Theorem capture_complete u p a b pr : Inv0 p -> holds p a false PAWN -> b < 64 ->
  (b = a + 9 /\ a mod 8 <> 7 \/ b = a + 7 /\ a mod 8 <> 0) -> tb p b = true -> promo_cond b pr ->
  in_check_them (makemove u p (mkMv a b pr)) = false -> In (mkMv a b pr) (legal_moves p).
Proof.
  intros I Ha Hb Hgeo Ht Hpr Hsafe.
  apply (in_legal_moves p (PAWN, a, b, pr)). rewrite generator_blocks.
  destruct Hgeo as [(-> & Hf)|(-> & Hf)].
  - do 2 (apply in_or_app; right). apply in_or_app. left.
    exact (cap_ne_block_complete u p a pr I Ha Hb Hf Ht Hpr Hsafe).
  - do 3 (apply in_or_app; right). apply in_or_app. left.
    exact (cap_nw_block_complete u p a pr I Ha Hb Hf Ht Hpr Hsafe).
Qed.
Print Assumptions capture_complete.

(* ------------------------------------------------------------------ packaged: the non-en-passant disjuncts of pawn_case *)
Definition pawn_case_plain (p : Position) (a b pr : N) : Prop :=
  b = a + 8 /\ empty_at p b /\ promo_cond b pr \/
  b = a + 16 /\ rank_of a = 1 /\ empty_at p (a + 8) /\ empty_at p b /\ pr = NOPIECE \/
  (b = a + 9 /\ a mod 8 <> 7 \/ b = a + 7 /\ a mod 8 <> 0) /\ tb p b = true /\ promo_cond b pr.

(* pawn_case is pawn_case_plain or the en-passant disjunct *)
Lemma pawn_case_split p a b pr : pawn_case p a b pr <->
  pawn_case_plain p a b pr \/
  (b = a + 9 /\ a mod 8 <> 7 \/ b = a + 7 /\ a mod 8 <> 0) /\ ep p = Some b /\ tb p b = false /\ pr = NOPIECE.
Proof. unfold pawn_case, pawn_case_plain. tauto. Qed.

Theorem pawn_plain_complete u p a b pr : Inv0 p -> holds p a false PAWN -> b < 64 -> pawn_case_plain p a b pr ->
  in_check_them (makemove u p (mkMv a b pr)) = false -> In (mkMv a b pr) (legal_moves p).
Proof.
  intros I Ha Hb [(-> & He & Hpr)|[(-> & Hr & He1 & He2 & ->)|(Hgeo & Ht & Hpr)]] Hsafe.
  - exact (push_complete u p a pr I Ha Hb He Hpr Hsafe).
  - exact (double_complete u p a I Ha Hr He1 He2 Hsafe).
  - exact (capture_complete u p a b pr I Ha Hb Hgeo Ht Hpr Hsafe).
Qed.
Print Assumptions pawn_plain_complete.
