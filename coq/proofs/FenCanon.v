(* C06, second sentence: for the canonical FEN of a valid position -- the string the printer writes for it -- parsing and
   printing reproduces the string.  The parse gives the record with the files of lost rights reset (FenCastle.v), and the
   printer does not read those. *)
From Coq Require Import NArith ZArith List Bool.
From Rawr Require Import Consts Bits Magic Position MoveGen MakeMove MakeStages Fen Abs FenCastle FenDomain.
Import ListNotations.

Theorem canonical_string_reprints mode p s : RTW p -> get_fen p = Some s ->
  exists q, set_fen mode (is_frc p) s = Some q /\ get_fen q = Some s /\ q = norm_files p.
Proof.
  intros H Hg. destruct (fen_roundtrip_modulo_dead_files mode p H) as (s' & Hg' & Hs).
  assert (E : s' = s) by congruence. subst s'.
  exists (norm_files p). split; [exact Hs|]. split; [rewrite get_fen_norm; exact Hg|reflexivity].
Qed.

Print Assumptions canonical_string_reprints.

(* for the positions of D, and hence every position reached by play from D, whose clocks fit an i32 *)
Theorem canonical_string_of_D_reprints mode p s :
  in_D p = true -> (halfmoves p <= I32_MAX)%Z -> (fullmoves p <= I32_MAX)%Z -> get_fen p = Some s ->
  exists q, set_fen mode (is_frc p) s = Some q /\ get_fen q = Some s.
Proof.
  intros HD Hh Hf Hg. destruct (canonical_string_reprints mode p s (in_D_RTW p HD Hh Hf) Hg) as (q & H1 & H2 & _).
  exists q. split; [exact H1|exact H2].
Qed.

Print Assumptions canonical_string_of_D_reprints.
