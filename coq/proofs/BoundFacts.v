(* C17, third clause: the evaluation lies strictly inside the range reserved below mate scores, for every position
   with at most 16 men per side (boards below 2^64, each side's men inside its colour board). *)
From Coq Require Import NArith ZArith List Bool Lia.
From Rawr Require Import Consts Bits Magic Position Eval BitsFacts FlipFacts EvalFacts.
Import ListNotations.
Local Open Scope Z_scope.

(* ---- popcount is monotone under intersection *)
Lemma bitsum_le x y n : forall i, (forall j, N.testbit x j = true -> N.testbit y j = true) -> (bitsum x n i <= bitsum y n i)%N.
Proof.
  induction n as [|n IH]; intros i H; cbn [bitsum]; [lia|].
  specialize (IH (N.succ i) H). unfold b2n. destruct (N.testbit x i) eqn:E; [rewrite (H i E)|destruct (N.testbit y i)]; lia.
Qed.

Lemma popcount_land_le x y : (x < TWO64)%N -> (popcount (N.land x y) <= popcount x)%N.
Proof.
  intros Hx. rewrite (popcount_bitsum 64 (N.land x y)), (popcount_bitsum 64 x); [|exact Hx|apply land_lt_l; exact Hx].
  apply bitsum_le. intros j Hj. rewrite N.land_spec in Hj. apply andb_prop in Hj. apply Hj.
Qed.

Lemma popcount_land_le_r x y : (y < TWO64)%N -> (popcount (N.land x y) <= popcount y)%N.
Proof. intros H. rewrite N.land_comm. apply popcount_land_le. exact H. Qed.

Lemma popcount_le_64 x : (x < TWO64)%N -> (popcount x <= 64)%N.
Proof.
  intros Hx. rewrite (popcount_bitsum 64 x Hx).
  assert (H : forall n i, (bitsum x n i <= N.of_nat n)%N).
  { induction n as [|n IH]; intros i; cbn [bitsum]; [lia|]. specialize (IH (N.succ i)). unfold b2n. destruct (N.testbit x i); lia. }
  apply (H 64%nat 0%N).
Qed.

Lemma bitsum_lor_disjoint x y n : forall i, (forall j, N.testbit x j && N.testbit y j = false) ->
  (bitsum (N.lor x y) n i = bitsum x n i + bitsum y n i)%N.
Proof.
  induction n as [|n IH]; intros i H; cbn [bitsum]; [reflexivity|].
  rewrite (IH (N.succ i) H), N.lor_spec. pose proof (H i) as Hi. unfold b2n.
  destruct (N.testbit x i), (N.testbit y i); cbn [andb orb] in *; try discriminate Hi; lia.
Qed.

Lemma popcount_lor_disjoint x y : (x < TWO64)%N -> (y < TWO64)%N -> N.land x y = 0%N ->
  popcount (N.lor x y) = (popcount x + popcount y)%N.
Proof.
  intros Hx Hy Hd. rewrite (popcount_bitsum 64 (N.lor x y)), (popcount_bitsum 64 x), (popcount_bitsum 64 y); try assumption.
  - apply bitsum_lor_disjoint. intros j. rewrite <- N.land_spec, Hd. apply N.bits_0.
  - apply lor_lt; assumption.
Qed.

(* ---- sums of bounded table entries *)
Definition sb (lo hi : Z) (s : Score) : Prop := lo <= fst s <= hi /\ lo <= snd s <= hi.

Lemma fold_sadd_bound (f : N -> Score) lo hi l acc alo ahi :
  lo <= 0 <= hi -> (forall x, In x l -> sb lo hi (f x)) -> sb alo ahi acc ->
  sb (alo + lo * Z.of_nat (length l)) (ahi + hi * Z.of_nat (length l)) (fold_left (fun a x => sadd a (f x)) l acc).
Proof.
  intros H0. revert acc alo ahi. induction l as [|x l IH]; intros acc alo ahi Hf Ha; cbn [fold_left length].
  - unfold sb in *. lia.
  - assert (Hx : sb lo hi (f x)) by (apply Hf; left; reflexivity).
    specialize (IH (sadd acc (f x)) (alo + lo) (ahi + hi) (fun y Hy => Hf y (or_intror Hy))).
    assert (Hs : sb (alo + lo) (ahi + hi) (sadd acc (f x))) by (unfold sb, sadd in *; cbn [fst snd]; lia).
    specialize (IH Hs). unfold sb in *. rewrite Nat2Z.inj_succ. lia.
Qed.

(* every entry of the generated tables is within +-BIG *)
Definition BIG : Z := 200.
Definition in_big (s : Score) : bool := (- BIG <=? fst s) && (fst s <=? BIG) && (- BIG <=? snd s) && (snd s <=? BIG).

Lemma tables_bounded :
  forallb (fun t => forallb in_big t) PST = true /\ forallb in_big PASSED_PAWNS = true
  /\ in_big KING_PAWN_SHIELD = true /\ in_big ROOK_OPEN_FILE = true
  /\ forallb (fun s => (0 <=? fst s) && (fst s <=? 900) && (0 <=? snd s) && (snd s <=? 900)) PIECE_VALUES = true.
Proof. vm_compute. repeat split. Qed.

Lemma in_big_sb s : in_big s = true -> sb (- BIG) BIG s.
Proof. unfold in_big, sb. intros H. repeat (apply andb_prop in H; destruct H as [H ?]). lia. Qed.

Lemma nth_forallb {A} (P : A -> bool) l i d : forallb P l = true -> P d = true -> P (nth i l d) = true.
Proof. revert i. induction l as [|x l IH]; intros i Hl Hd; destruct i; cbn in *; try assumption; apply andb_prop in Hl; destruct Hl; auto. Qed.

Lemma pst_entry i sq : sb (- BIG) BIG (nthN (nthN PST i []) sq (0, 0)).
Proof.
  apply in_big_sb. unfold nthN. apply nth_forallb; [|reflexivity].
  apply (nth_forallb (fun t => forallb in_big t)); [apply tables_bounded|reflexivity].
Qed.
Lemma passed_entry r : sb (- BIG) BIG (nthN PASSED_PAWNS r (0, 0)).
Proof. apply in_big_sb. unfold nthN. apply nth_forallb; [apply tables_bounded|reflexivity]. Qed.
Lemma value_entry i : sb 0 900 (nthN PIECE_VALUES i (0, 0)).
Proof.
  pose proof (proj2 (proj2 (proj2 (proj2 tables_bounded)))) as H.
  assert (Hn := nth_forallb _ PIECE_VALUES (N.to_nat i) (0, 0) H eq_refl). cbv beta in Hn. unfold nthN, sb.
  repeat (apply andb_prop in Hn; destruct Hn as [Hn ?]). lia.
Qed.

Lemma zpop_land_le x y : (x < TWO64)%N -> zpop (N.land y x) <= zpop x.
Proof. intros H. unfold zpop. apply N2Z.inj_le. apply popcount_land_le_r. exact H. Qed.
Lemma zpop_nonneg x : 0 <= zpop x. Proof. unfold zpop. lia. Qed.
Lemma length_bits_zpop b : Z.of_nat (length (bits b)) = zpop b.
Proof.
  unfold zpop. destruct b as [|q]; [reflexivity|]. cbn [bits popcount].
  assert (H : forall p i, N.of_nat (length (bits_pos p i)) = pop_pos p).
  { induction p as [p IH|p IH|]; intros i; cbn [bits_pos pop_pos length]; [rewrite Nat2N.inj_succ, IH; reflexivity|apply IH|reflexivity]. }
  rewrite <- (H q 0%N). rewrite nat_N_Z. reflexivity.
Qed.

(* ---- one side's score: every component is bounded by a constant times the number of that side's men *)
Definition MEN : Z := 16.

Lemma prod_bound lo hi n u v : lo <= 0 <= hi -> lo <= u <= hi -> 0 <= v <= n -> lo * n <= u * v <= hi * n.
Proof.
  intros H0 Hu Hv.
  assert (u * v <= hi * v) by (apply Z.mul_le_mono_nonneg_r; lia).
  assert (lo * v <= u * v) by (apply Z.mul_le_mono_nonneg_r; lia).
  assert (hi * v <= hi * n) by (apply Z.mul_le_mono_nonneg_l; lia).
  assert (lo * n <= lo * v) by (apply Z.mul_le_mono_nonpos_l; lia). lia.
Qed.

Definition pieces_disjoint (p : Position) : Prop :=
  N.land (pawns p) (knights p) = 0%N /\ N.land (pawns p) (bishops p) = 0%N /\ N.land (pawns p) (rooks p) = 0%N
  /\ N.land (pawns p) (queens p) = 0%N /\ N.land (pawns p) (kings p) = 0%N /\ N.land (knights p) (bishops p) = 0%N
  /\ N.land (knights p) (rooks p) = 0%N /\ N.land (knights p) (queens p) = 0%N /\ N.land (knights p) (kings p) = 0%N
  /\ N.land (bishops p) (rooks p) = 0%N /\ N.land (bishops p) (queens p) = 0%N /\ N.land (bishops p) (kings p) = 0%N
  /\ N.land (rooks p) (queens p) = 0%N /\ N.land (rooks p) (kings p) = 0%N /\ N.land (queens p) (kings p) = 0%N.

Lemma land_land_0 a b u : N.land a b = 0%N -> N.land (N.land a u) (N.land b u) = 0%N.
Proof.
  intros H. apply N.bits_inj. intros i. rewrite !N.land_spec, N.bits_0.
  assert (Hi : N.testbit (N.land a b) i = false) by (rewrite H; apply N.bits_0). rewrite N.land_spec in Hi.
  destruct (N.testbit a i), (N.testbit b i), (N.testbit u i); try reflexivity; discriminate.
Qed.

Lemma land_lor_0' a b c : N.land a c = 0%N -> N.land b c = 0%N -> N.land (N.lor a b) c = 0%N.
Proof. intros H1 H2. rewrite N.land_lor_distr_l, H1, H2. reflexivity. Qed.

(* the men of one side, counted by kind, add up to at most the size of its colour board *)
Lemma kinds_sum_le p us : (us < TWO64)%N -> pieces_disjoint p ->
  zpop (N.land (pawns p) us) + zpop (N.land (knights p) us) + zpop (N.land (bishops p) us)
  + zpop (N.land (rooks p) us) + zpop (N.land (queens p) us) + zpop (N.land (kings p) us) <= zpop us.
Proof.
  intros Hu (D1 & D2 & D3 & D4 & D5 & D6 & D7 & D8 & D9 & D10 & D11 & D12 & D13 & D14 & D15).
  set (P := N.land (pawns p) us). set (Nn := N.land (knights p) us). set (B := N.land (bishops p) us).
  set (R := N.land (rooks p) us). set (Q := N.land (queens p) us). set (K := N.land (kings p) us).
  assert (LP : (P < TWO64)%N) by (apply land_lt_r; exact Hu). assert (LN : (Nn < TWO64)%N) by (apply land_lt_r; exact Hu).
  assert (LB : (B < TWO64)%N) by (apply land_lt_r; exact Hu). assert (LR : (R < TWO64)%N) by (apply land_lt_r; exact Hu).
  assert (LQ : (Q < TWO64)%N) by (apply land_lt_r; exact Hu). assert (LK : (K < TWO64)%N) by (apply land_lt_r; exact Hu).
  assert (U : N.lor (N.lor (N.lor (N.lor (N.lor P Nn) B) R) Q) K = N.land (N.lor (N.lor (N.lor (N.lor (N.lor (pawns p) (knights p)) (bishops p)) (rooks p)) (queens p)) (kings p)) us).
  { unfold P, Nn, B, R, Q, K. rewrite !N.land_lor_distr_l. reflexivity. }
  assert (S1 : popcount (N.lor P Nn) = (popcount P + popcount Nn)%N) by (apply popcount_lor_disjoint; try assumption; apply land_land_0; exact D1).
  assert (L1 : (N.lor P Nn < TWO64)%N) by (apply lor_lt; assumption).
  assert (S2 : popcount (N.lor (N.lor P Nn) B) = (popcount (N.lor P Nn) + popcount B)%N).
  { apply popcount_lor_disjoint; try assumption. apply land_lor_0'; apply land_land_0; assumption. }
  assert (L2 : (N.lor (N.lor P Nn) B < TWO64)%N) by (apply lor_lt; assumption).
  assert (S3 : popcount (N.lor (N.lor (N.lor P Nn) B) R) = (popcount (N.lor (N.lor P Nn) B) + popcount R)%N).
  { apply popcount_lor_disjoint; try assumption. repeat apply land_lor_0'; apply land_land_0; assumption. }
  assert (L3 : (N.lor (N.lor (N.lor P Nn) B) R < TWO64)%N) by (apply lor_lt; assumption).
  assert (S4 : popcount (N.lor (N.lor (N.lor (N.lor P Nn) B) R) Q) = (popcount (N.lor (N.lor (N.lor P Nn) B) R) + popcount Q)%N).
  { apply popcount_lor_disjoint; try assumption. repeat apply land_lor_0'; apply land_land_0; assumption. }
  assert (L4 : (N.lor (N.lor (N.lor (N.lor P Nn) B) R) Q < TWO64)%N) by (apply lor_lt; assumption).
  assert (S5 : popcount (N.lor (N.lor (N.lor (N.lor (N.lor P Nn) B) R) Q) K) = (popcount (N.lor (N.lor (N.lor (N.lor P Nn) B) R) Q) + popcount K)%N).
  { apply popcount_lor_disjoint; try assumption. repeat apply land_lor_0'; apply land_land_0; assumption. }
  assert (Hle : (popcount (N.lor (N.lor (N.lor (N.lor (N.lor P Nn) B) R) Q) K) <= popcount us)%N).
  { rewrite U. apply popcount_land_le_r. exact Hu. }
  unfold zpop. lia.
Qed.

Theorem eval_us_bounded p :
  (c_us p < TWO64)%N -> pieces_disjoint p -> zpop (c_us p) <= MEN ->
  sb (- 12800) 27200 (eval_us p).
Proof.
  intros Hlt Hdis Hmen. unfold eval_us. cbv zeta.
  pose proof (kinds_sum_le p (c_us p) Hlt Hdis) as Hsum.
  set (us := c_us p) in *.
  (* passed pawns *)
  assert (H1 : sb (0 + - BIG * Z.of_nat (length (bits (get_passed_pawns (N.land (pawns p) us) (N.land (pawns p) (c_them p))))))
                  (0 + BIG * Z.of_nat (length (bits (get_passed_pawns (N.land (pawns p) us) (N.land (pawns p) (c_them p))))))
                  (fold_left (fun acc sq => sadd acc (nthN PASSED_PAWNS (rank_of sq) (0, 0)))
                             (bits (get_passed_pawns (N.land (pawns p) us) (N.land (pawns p) (c_them p)))) (0, 0))).
  { apply (fold_sadd_bound (fun sq => nthN PASSED_PAWNS (rank_of sq) (0, 0))); [unfold BIG; lia| |unfold sb; cbn; lia].
    intros x _. apply passed_entry. }
  rewrite length_bits_zpop in H1.
  assert (Hpp : zpop (get_passed_pawns (N.land (pawns p) us) (N.land (pawns p) (c_them p))) <= MEN).
  { unfold get_passed_pawns. cbv zeta.
    eapply Z.le_trans; [|exact Hmen]. unfold zpop. apply N2Z.inj_le.
    eapply N.le_trans; [apply popcount_land_le; apply land_lt_r; exact Hlt|]. apply popcount_land_le_r. exact Hlt. }
  set (acc0 := sadd (sadd _ (smul KING_PAWN_SHIELD _)) (smul ROOK_OPEN_FILE _)).
  assert (Hsh : zpop (N.land (get_king_shield (lsb (N.land (kings p) us))) (N.land (pawns p) us)) <= MEN).
  { eapply Z.le_trans; [|exact Hmen]. eapply Z.le_trans; [apply zpop_land_le; apply land_lt_r; exact Hlt|]. apply zpop_land_le. exact Hlt. }
  assert (Hro : zpop (N.land (N.land (get_open_files (pawns p)) us) (rooks p)) <= MEN).
  { eapply Z.le_trans; [|exact Hmen]. unfold zpop. apply N2Z.inj_le.
    eapply N.le_trans; [apply popcount_land_le; apply land_lt_r; exact Hlt|]. apply popcount_land_le_r. exact Hlt. }
  pose proof (in_big_sb _ (proj1 (proj2 (proj2 tables_bounded)))) as Hks.
  pose proof (in_big_sb _ (proj1 (proj2 (proj2 (proj2 tables_bounded))))) as Hrf.
  assert (Hacc0 : sb (- BIG * MEN * 3) (BIG * MEN * 3) acc0).
  { unfold acc0.
    pose proof (zpop_nonneg (N.land (get_king_shield (lsb (N.land (kings p) us))) (N.land (pawns p) us))) as Z1.
    pose proof (zpop_nonneg (N.land (N.land (get_open_files (pawns p)) us) (rooks p))) as Z2.
    pose proof (zpop_nonneg (get_passed_pawns (N.land (pawns p) us) (N.land (pawns p) (c_them p)))) as Z3.
    destruct Hks as [K1 K2]. destruct Hrf as [R1 R2]. destruct H1 as [P1 P2].
    pose proof (prod_bound (- BIG) BIG MEN _ _ ltac:(unfold BIG; lia) K1 (conj Z1 Hsh)). pose proof (prod_bound (- BIG) BIG MEN _ _ ltac:(unfold BIG; lia) K2 (conj Z1 Hsh)).
    pose proof (prod_bound (- BIG) BIG MEN _ _ ltac:(unfold BIG; lia) R1 (conj Z2 Hro)). pose proof (prod_bound (- BIG) BIG MEN _ _ ltac:(unfold BIG; lia) R2 (conj Z2 Hro)).
    unfold sb, sadd, smul in *. cbn [fst snd] in *. unfold BIG, MEN in *. lia. }
  clearbody acc0. clear H1.
  (* one iteration adds value * count + the PST entries of `count` squares *)
  assert (Hstep : forall i acc lo hi, sb lo hi acc ->
     sb (lo - BIG * zpop (N.land (get_piece p i) us)) (hi + (900 + BIG) * zpop (N.land (get_piece p i) us))
        (fold_left (fun a sq => sadd a (nthN (nthN PST i []) sq (0, 0))) (bits (N.land (get_piece p i) us))
                   (sadd acc (smul (nthN PIECE_VALUES i (0, 0)) (zpop (N.land (get_piece p i) us)))))).
  { intros i acc lo hi Ha.
    pose proof (zpop_nonneg (N.land (get_piece p i) us)) as Hc0.
    pose proof (value_entry i) as Hv.
    pose proof (fold_sadd_bound (fun sq => nthN (nthN PST i []) sq (0, 0)) (- BIG) BIG (bits (N.land (get_piece p i) us))
                 (sadd acc (smul (nthN PIECE_VALUES i (0, 0)) (zpop (N.land (get_piece p i) us)))) lo (hi + 900 * zpop (N.land (get_piece p i) us))
                 ltac:(unfold BIG; lia) (fun x _ => pst_entry i x)) as Hf.
    rewrite length_bits_zpop in Hf.
    assert (Hin : sb lo (hi + 900 * zpop (N.land (get_piece p i) us)) (sadd acc (smul (nthN PIECE_VALUES i (0, 0)) (zpop (N.land (get_piece p i) us))))).
    { destruct Hv as [V1 V2]. destruct Ha as [A1 A2].
      pose proof (prod_bound 0 900 (zpop (N.land (get_piece p i) us)) _ _ ltac:(lia) V1 (conj Hc0 (Z.le_refl _))).
      pose proof (prod_bound 0 900 (zpop (N.land (get_piece p i) us)) _ _ ltac:(lia) V2 (conj Hc0 (Z.le_refl _))).
      unfold sb, sadd, smul. cbn [fst snd]. lia. }
    specialize (Hf Hin). unfold sb in *. unfold BIG in *. lia. }
  cbn [fold_left].
  pose proof (Hstep 0%N _ _ _ Hacc0) as S0. pose proof (Hstep 1%N _ _ _ S0) as S1. pose proof (Hstep 2%N _ _ _ S1) as S2.
  pose proof (Hstep 3%N _ _ _ S2) as S3. pose proof (Hstep 4%N _ _ _ S3) as S4. pose proof (Hstep 5%N _ _ _ S4) as S5.
  cbn [get_piece] in *.
  pose proof (zpop_nonneg (N.land (pawns p) us)). pose proof (zpop_nonneg (N.land (knights p) us)).
  pose proof (zpop_nonneg (N.land (bishops p) us)). pose proof (zpop_nonneg (N.land (rooks p) us)).
  pose proof (zpop_nonneg (N.land (queens p) us)). pose proof (zpop_nonneg (N.land (kings p) us)).
  unfold sb in *. unfold BIG, MEN in *. lia.
Qed.

(* ------------------------------------------------------------------ the other side: flip preserves the hypotheses *)
Lemma bswap_land a b : N.land (bswap a) (bswap b) = bswap (N.land a b).
Proof.
  apply N.bits_inj. intros i. rewrite N.land_spec, !testbit_bswap, N.land_spec.
  destruct (i <? 64)%N; cbn [andb]; reflexivity.
Qed.
Lemma bswap_0 : bswap 0 = 0%N. Proof. vm_compute. reflexivity. Qed.
Lemma bswap_disj a b : N.land a b = 0%N -> N.land (bswap a) (bswap b) = 0%N.
Proof. intros H. rewrite bswap_land, H. exact bswap_0. Qed.

Lemma pieces_disjoint_flip p : pieces_disjoint p -> pieces_disjoint (flip p).
Proof.
  unfold pieces_disjoint, flip. cbn [pawns knights bishops rooks queens kings].
  intros (D1 & D2 & D3 & D4 & D5 & D6 & D7 & D8 & D9 & D10 & D11 & D12 & D13 & D14 & D15).
  repeat split; apply bswap_disj; assumption.
Qed.

(* what the bound needs of a position: boards below 2^64, one kind per square, colours disjoint and covering
   exactly the piece boards, at most 16 men a side *)
Definition Men16 (p : Position) : Prop :=
  BB p /\ pieces_disjoint p /\ N.land (c_us p) (c_them p) = 0%N
  /\ N.lor (c_us p) (c_them p) = N.lor (N.lor (N.lor (pawns p) (knights p)) (N.lor (bishops p) (rooks p))) (N.lor (queens p) (kings p))
  /\ zpop (c_us p) <= MEN /\ zpop (c_them p) <= MEN.

Lemma eval_them_bounded p : Men16 p -> sb (- 12800) 27200 (eval_us (flip p)).
Proof.
  intros ((Hu & Ht & _) & Hd & _ & _ & _ & Hm).
  apply eval_us_bounded.
  - unfold flip. cbn [c_us]. apply bswap_lt.
  - apply pieces_disjoint_flip. exact Hd.
  - unfold flip. cbn [c_us]. unfold zpop. rewrite popcount_bswap by exact Ht. exact Hm.
Qed.

(* ------------------------------------------------------------------ the phase *)
Lemma land_absorb6 a b c d e f x :
  (x = a \/ x = b \/ x = c \/ x = d \/ x = e \/ x = f) ->
  N.land x (N.lor (N.lor (N.lor a b) (N.lor c d)) (N.lor e f)) = x.
Proof.
  intros H. apply N.bits_inj. intros i. rewrite N.land_spec, !N.lor_spec.
  destruct H as [-> | [-> | [-> | [-> | [-> | ->]]]]];
  destruct (N.testbit a i), (N.testbit b i), (N.testbit c i), (N.testbit d i), (N.testbit e i), (N.testbit f i); reflexivity.
Qed.

Lemma minor_major_count p : Men16 p ->
  0 <= zpop (knights p) /\ 0 <= zpop (bishops p) /\ 0 <= zpop (rooks p) /\ 0 <= zpop (queens p)
  /\ zpop (knights p) + zpop (bishops p) + zpop (rooks p) + zpop (queens p) <= 2 * MEN.
Proof.
  intros ((Hu & Ht & _) & Hd & Hut & Hocc & Hmu & Hmt).
  set (occ := N.lor (c_us p) (c_them p)).
  assert (Ho : (occ < TWO64)%N) by (apply lor_lt; assumption).
  pose proof (kinds_sum_le p occ Ho Hd) as Hs.
  assert (Hpo : zpop occ = zpop (c_us p) + zpop (c_them p)).
  { unfold zpop, occ. rewrite popcount_lor_disjoint by assumption. lia. }
  unfold occ in Hs at 1 2 3 4 5 6. rewrite Hocc in Hs.
  rewrite !land_absorb6 in Hs by tauto.
  pose proof (zpop_nonneg (pawns p)). pose proof (zpop_nonneg (kings p)).
  pose proof (zpop_nonneg (knights p)). pose proof (zpop_nonneg (bishops p)).
  pose proof (zpop_nonneg (rooks p)). pose proof (zpop_nonneg (queens p)).
  repeat split; try assumption. lia.
Qed.

Lemma phase_bounded p : Men16 p -> -1110 <= get_phase p <= 256.
Proof.
  intros H. destruct (minor_major_count p H) as (H1 & H2 & H3 & H4 & H5).
  unfold get_phase. cbv zeta.
  unfold PHASE_TOTAL, PHASE_ROOK, PHASE_QUEEN, PHASE_SCALE, PHASE_ROUND, PHASE_DIV, MEN in *.
  set (r := 24 - zpop (knights p) - zpop (bishops p) - zpop (rooks p) * 2 - zpop (queens p) * 4).
  assert (Hr : -104 <= r <= 24) by (unfold r; lia).
  clearbody r.
  split.
  - apply Z.quot_le_lower_bound; clear - Hr; lia.
  - apply Z.le_trans with (Z.quot 6156 24); [apply Z.quot_le_mono; clear - Hr; lia | vm_compute; discriminate].
Qed.

(* ------------------------------------------------------------------ the taper *)
Lemma mul_abs_bound a b A B : Z.abs a <= A -> Z.abs b <= B -> Z.abs (a * b) <= A * B.
Proof.
  intros Ha Hb. rewrite Z.abs_mul. apply Z.mul_le_mono_nonneg; try assumption; apply Z.abs_nonneg.
Qed.

Lemma quot_abs_bound x d M : 0 < d -> Z.abs x <= M * d -> Z.abs (Z.quot x d) <= M.
Proof.
  intros Hd Hx.
  destruct (Z.le_ge_cases 0 x) as [Hp | Hn].
  - rewrite Z.abs_eq in Hx by exact Hp. rewrite Z.abs_eq by (apply Z.quot_pos; lia).
    apply Z.quot_le_upper_bound; lia.
  - assert (Hq : Z.quot x d = - Z.quot (- x) d) by (rewrite Z.quot_opp_l by lia; lia).
    rewrite Hq, Z.abs_opp. rewrite Z.abs_neq in Hx by exact Hn.
    rewrite Z.abs_eq by (apply Z.quot_pos; lia).
    apply Z.quot_le_upper_bound; lia.
Qed.

Theorem eval_bounded p : Men16 p -> Z.abs (eval p) <= 400000.
Proof.
  intros H.
  pose proof (phase_bounded p H) as Hph.
  pose proof (eval_them_bounded p H) as Hth.
  destruct H as (HBB & Hd & Hut & Hocc & Hmu & Hmt).
  assert (Hus : sb (- 12800) 27200 (eval_us p)) by (apply eval_us_bounded; [apply HBB|exact Hd|exact Hmu]).
  unfold eval, taper, ssub. cbn [fst snd]. unfold TAPER_SCALE, TAPER_DIV.
  destruct Hus as [U1 U2]. destruct Hth as [T1 T2].
  set (mg := fst (eval_us p) - fst (eval_us (flip p))). set (eg := snd (eval_us p) - snd (eval_us (flip p))).
  assert (Hmg : Z.abs mg <= 40000) by (unfold mg; lia). assert (Heg : Z.abs eg <= 40000) by (unfold eg; lia).
  set (ph := get_phase p) in *.
  assert (Ha : Z.abs (256 - ph) <= 1366) by lia. assert (Hb : Z.abs ph <= 1110) by lia.
  pose proof (mul_abs_bound _ _ _ _ Hmg Ha) as P1. pose proof (mul_abs_bound _ _ _ _ Heg Hb) as P2.
  apply quot_abs_bound; [lia|].
  eapply Z.le_trans; [apply Z.abs_triangle|]. lia.
Qed.

Corollary eval_inside_mate_range p : Men16 p -> - (MATE_SCORE - MAX_DEPTH) < eval p < MATE_SCORE - MAX_DEPTH.
Proof. intros H. pose proof (eval_bounded p H). unfold MATE_SCORE, MAX_DEPTH. lia. Qed.

(* ------------------------------------------------------------------ every position of the domain D qualifies *)
From Rawr Require Import Rules Abs FenFacts.

Lemma in_D_men16 p : in_D p = true -> Men16 p.
Proof.
  unfold in_D, valid_b, material. intros H.
  repeat match type of H with (_ && _) = true => apply andb_true_iff in H; destruct H as [H ?] end.
  destruct (validate p) eqn:Hv; [discriminate H|].
  pose proof (validate_sound p Hv) as (_ & Hwb & D1 & D2 & D3 & D4 & D5 & D6 & D7 & D8 & D9 & D10 & D11 & D12 & D13 & D14 & D15 & _).
  match goal with Hc : consistent p = true |- _ => unfold consistent, lt64 in Hc;
    repeat match type of Hc with (_ && _) = true => apply andb_true_iff in Hc; destruct Hc as [Hc ?] end end.
  repeat match goal with Hx : (_ && _) = true |- _ => apply andb_true_iff in Hx; destruct Hx end.
  repeat match goal with Hm : material_side p _ = true |- _ => unfold material_side in Hm;
    repeat match type of Hm with (_ && _) = true => apply andb_true_iff in Hm; destruct Hm as [Hm ?] end end.
  repeat match goal with Hl : (_ <? _)%N = true |- _ => apply N.ltb_lt in Hl end.
  repeat match goal with Hl : (_ <=? _)%N = true |- _ => apply N.leb_le in Hl end.
  repeat match goal with Hl : (_ =? _)%N = true |- _ => apply N.eqb_eq in Hl end.
  unfold Men16, BB, pieces_disjoint, MEN, zpop. unfold emp2 in *.
  repeat split; try assumption; try lia.
  unfold get_white, get_black in Hwb. destruct (turn p); [rewrite N.land_comm|]; exact Hwb.
Qed.

Theorem eval_bounded_on_D p : in_D p = true -> - (MATE_SCORE - MAX_DEPTH) < eval p < MATE_SCORE - MAX_DEPTH.
Proof. intros H. apply eval_inside_mate_range, in_D_men16, H. Qed.
