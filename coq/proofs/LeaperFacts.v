(* C10, leaper clause: the set-wise knight / king / pawn attack functions of rays.rs and bitboard.rs and the
   per-square tables of magic.rs equal board geometry (coordinate offsets that stay on the board: no wrap-around),
   for EVERY bitboard below 2^64.  Linearity of the shifts over union + 64 finite facts per piece. *)
From Coq Require Import NArith ZArith List Bool Lia.
From Rawr Require Import Consts Bits Magic Position BitsFacts.
Import ListNotations.
Local Open Scope N_scope.

Definition lorfold (l : list N) : N := fold_right N.lor 0 l.

Lemma testbit_lorfold l i : N.testbit (lorfold l) i = existsb (fun x => N.testbit x i) l.
Proof. induction l as [|x l IH]; cbn [lorfold fold_right existsb]; [apply N.bits_0|]. rewrite N.lor_spec, <- IH. reflexivity. Qed.

(* a bitboard is the union of its single bits *)
Lemma bb_decompose b : b < TWO64 -> b = lorfold (map bit (bits b)).
Proof.
  intros Hb. apply N.bits_inj. intros i. rewrite testbit_lorfold.
  destruct (N.testbit b i) eqn:E.
  - symmetry. apply existsb_exists. exists (bit i). split.
    + apply in_map. apply bits_spec. exact E.
    + rewrite testbit_bit; [apply N.eqb_refl|]. apply (bits_lt64 b i Hb). apply bits_spec. exact E.
  - symmetry. apply not_true_is_false. intros H. apply existsb_exists in H. destruct H as (x & Hx & Hi).
    apply in_map_iff in Hx. destruct Hx as (s & <- & Hs).
    assert (s < 64) by (apply (bits_lt64 b s Hb Hs)).
    rewrite testbit_bit in Hi by assumption. apply N.eqb_eq in Hi. subst s.
    apply bits_spec in Hs. congruence.
Qed.

(* linear = distributes over union and maps the empty board to itself *)
Definition linear (f : N -> N) : Prop := f 0 = 0 /\ forall a b, f (N.lor a b) = N.lor (f a) (f b).

Lemma linear_lorfold f l : linear f -> f (lorfold l) = lorfold (map f l).
Proof. intros [H0 Hl]. induction l as [|x l IH]; cbn [lorfold fold_right map]; [exact H0|]. rewrite Hl. f_equal. exact IH. Qed.

Lemma linear_shl n : linear (fun b => shl b n).
Proof. split; [unfold shl; rewrite N.shiftl_0_l; reflexivity|]. intros a b. unfold shl. rewrite N.shiftl_lor, N.land_lor_distr_l. reflexivity. Qed.
Lemma linear_shr n : linear (fun b => shr b n).
Proof. split; [unfold shr; apply N.shiftr_0_l|]. intros a b. unfold shr. apply N.shiftr_lor. Qed.
Lemma linear_land m f : linear f -> linear (fun b => N.land (f b) m).
Proof. intros [H0 Hl]. split; [rewrite H0; reflexivity|]. intros a b. rewrite Hl, N.land_lor_distr_l. reflexivity. Qed.
Lemma linear_comp f g : linear f -> linear g -> linear (fun b => f (g b)).
Proof. intros [F0 Fl] [G0 Gl]. split; [rewrite G0; exact F0|]. intros a b. rewrite Gl, Fl. reflexivity. Qed.
Lemma linear_lor f g : linear f -> linear g -> linear (fun b => N.lor (f b) (g b)).
Proof.
  intros [F0 Fl] [G0 Gl]. split; [rewrite F0, G0; reflexivity|]. intros a b. rewrite Fl, Gl.
  apply N.bits_inj. intros i. rewrite !N.lor_spec.
  destruct (N.testbit (f a) i), (N.testbit (f b) i), (N.testbit (g a) i), (N.testbit (g b) i); reflexivity.
Qed.

Lemma linear_shift_by l a m : linear (shift_by l a m).
Proof. unfold shift_by. destruct l; apply (linear_land m); [apply linear_shl|apply linear_shr]. Qed.

Lemma linear_north : linear north. Proof. apply linear_shl. Qed.
Lemma linear_south : linear south. Proof. apply linear_shr. Qed.
Lemma linear_east : linear east. Proof. apply linear_shift_by. Qed.
Lemma linear_west : linear west. Proof. apply linear_shift_by. Qed.
Lemma linear_ne : linear north_east. Proof. apply linear_shift_by. Qed.
Lemma linear_nw : linear north_west. Proof. apply linear_shift_by. Qed.
Lemma linear_se : linear south_east. Proof. apply linear_shift_by. Qed.
Lemma linear_sw : linear south_west. Proof. apply linear_shift_by. Qed.

Lemma linear_knights : linear knights_bb.
Proof.
  unfold knights_bb.
  repeat apply linear_lor;
    first [apply (linear_comp north_east north) | apply (linear_comp north_west north) | apply (linear_comp south_east south)
          | apply (linear_comp south_west south) | apply (linear_comp north_east east) | apply (linear_comp south_east east)
          | apply (linear_comp north_west west) | apply (linear_comp south_west west)];
    first [apply linear_north | apply linear_south | apply linear_east | apply linear_west
          | apply linear_ne | apply linear_nw | apply linear_se | apply linear_sw].
Qed.

Lemma linear_pawns us : linear (pawns_bb us).
Proof. unfold pawns_bb. destruct us; apply linear_lor; first [apply linear_ne | apply linear_nw | apply linear_se | apply linear_sw]. Qed.

Lemma linear_adjacent : linear adjacent.
Proof.
  unfold adjacent.
  repeat first [apply linear_lor | apply (linear_land NOT_H) | apply (linear_land NOT_A)];
    first [apply (linear_shl 8) | apply (linear_shr 8) | apply (linear_shl 7) | apply (linear_shr 9) | apply (linear_shr 1)
          | apply (linear_shr 7) | apply (linear_shl 9) | apply (linear_shl 1)].
Qed.

(* the 64 finite facts per piece *)
Definition per_square (f : N -> N) (offs : list (Z * Z)) : bool :=
  forallb (fun sq => f (bit sq) =? leaper_geo offs sq) squares64.

Lemma knights_squares : per_square knights_bb knight_offs = true. Proof. vm_compute. reflexivity. Qed.
Lemma king_squares : per_square adjacent king_offs = true. Proof. vm_compute. reflexivity. Qed.
Lemma pawns_us_squares : per_square (pawns_bb true) (pawn_offs true) = true. Proof. vm_compute. reflexivity. Qed.
Lemma pawns_them_squares : per_square (pawns_bb false) (pawn_offs false) = true. Proof. vm_compute. reflexivity. Qed.
Lemma knight_table_squares : forallb (fun sq => knight_moves sq =? leaper_geo knight_offs sq) squares64 = true.
Proof. vm_compute. reflexivity. Qed.
Lemma king_table_squares : forallb (fun sq => king_moves sq =? leaper_geo king_offs sq) squares64 = true.
Proof. vm_compute. reflexivity. Qed.

Lemma in_squares64' sq : sq < 64 -> In sq squares64.
Proof. intros H. unfold squares64. rewrite <- (N2Nat.id sq). apply in_map. apply in_seq. lia. Qed.

(* set-wise: the attack set of a board is the union, over its squares, of the geometric attack set of each square *)
Theorem leaper_setwise f offs bb :
  linear f -> per_square f offs = true -> bb < TWO64 ->
  f bb = lorfold (map (leaper_geo offs) (bits bb)).
Proof.
  intros Hl Hp Hb. rewrite (bb_decompose bb Hb) at 1. rewrite (linear_lorfold f _ Hl), map_map.
  f_equal. apply map_ext_in. intros s Hs.
  unfold per_square in Hp. rewrite forallb_forall in Hp. apply N.eqb_eq. apply Hp.
  apply in_squares64'. apply (bits_lt64 bb s Hb Hs).
Qed.

Theorem knights_exact bb : bb < TWO64 -> knights_bb bb = lorfold (map (leaper_geo knight_offs) (bits bb)).
Proof. apply leaper_setwise; [apply linear_knights|apply knights_squares]. Qed.
Theorem adjacent_exact bb : bb < TWO64 -> adjacent bb = lorfold (map (leaper_geo king_offs) (bits bb)).
Proof. apply leaper_setwise; [apply linear_adjacent|apply king_squares]. Qed.
Theorem pawns_exact us bb : bb < TWO64 -> pawns_bb us bb = lorfold (map (leaper_geo (pawn_offs us)) (bits bb)).
Proof. destruct us; apply leaper_setwise; first [apply linear_pawns|apply pawns_us_squares|apply pawns_them_squares]. Qed.

Theorem knight_table_exact sq : sq < 64 -> knight_moves sq = leaper_geo knight_offs sq.
Proof. intros H. pose proof knight_table_squares as Hp. rewrite forallb_forall in Hp. apply N.eqb_eq. apply Hp. apply in_squares64'. exact H. Qed.
Theorem king_table_exact sq : sq < 64 -> king_moves sq = leaper_geo king_offs sq.
Proof. intros H. pose proof king_table_squares as Hp. rewrite forallb_forall in Hp. apply N.eqb_eq. apply Hp. apply in_squares64'. exact H. Qed.
