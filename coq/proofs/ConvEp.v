(* C01 (completeness half), en passant: an en-passant capture that does not leave the mover's king attacked is emitted by
   the generator -- the converse of LegalEp.ep_legal.
   Notation as in LegalEp.v: k our king, e the en-passant square, v = e - 8 the captured pawn, a = e - 9 / e - 7 the capturing
   pawn, o = e + 8 the square the captured pawn came from.
   The hypothesis becomes `is_sq_attacked Q k false = false` on the board stage Q (LegalBase.nc_transfer_sq); from it
   * no pawn or knight of theirs other than v attacks k in the position before (`safe_leaper`),
   * no slider of theirs is the first man of a king ray whose squares before it are vacant in Q (`safe_slider`).
   Each of the generator's tests is then shown by contradiction:
   1. the capturing pawn is not pinned along a file or rank, and when pinned along a diagonal the pin is the capture's own
      diagonal (`pins_struct`: a bit of the pin fold comes with the whole structure of its ray);
   2. e or v lies in `allowed` (no check / one checker / two checkers, the last with ep_ok_b);
   3. the two rank tests are the slider facts along the rank. *)
From Coq Require Import NArith ZArith List Bool Lia ZifyN ZifyBool.
From Rawr Require Import Consts Bits Magic Position MoveGen MakeMove MakeStages Rules Abs
                         BitsFacts ShiftFacts LeaperFacts FlipFacts AbsFacts LsbFacts HashFacts MakeFacts MakeAbs KeyAbs KeyMove
                         AttackFacts AttackAbs AttackSets RayFacts GenSane GenNoDup Closure EpRetro LegalBase NoKingCapture
                         RaySym RayGeo PinFacts LegalEp.
Import ListNotations.
Local Open Scope N_scope.
Ltac Zify.zify_post_hook ::= Z.div_mod_to_equations.

(* ------------------------------------------------------------------ geometry: sweeps *)
(* two squares one diagonal step apart on one ray from k: the ray runs along that diagonal *)
Definition step_ok (k : N) (d : Z * Z) : bool :=
  forallb (fun s =>
    (negb (memb (s + 9) (ray_of k d) && negb (s mod 8 =? 7)) || dir_eqb d (1, 1)%Z || dir_eqb d (-1, -1)%Z)
    && (negb (memb (s + 7) (ray_of k d) && negb (s mod 8 =? 0)) || dir_eqb d (-1, 1)%Z || dir_eqb d (1, -1)%Z))
  (ray_of k d).
Lemma step_ok_all : forallb (fun k => forallb (step_ok k) all_dirs) sq64_list = true.
Proof. vm_compute. reflexivity. Qed.
Lemma ray_step9 k d s : k < 64 -> In d all_dirs -> In s (ray_of k d) -> In (s + 9) (ray_of k d) -> s mod 8 <> 7 ->
  d = (1, 1)%Z \/ d = (-1, -1)%Z.
Proof.
  intros Hk Hd H1 H2 Hm. pose proof step_ok_all as A. rewrite forallb_forall in A. specialize (A k (in_sq64 k Hk)).
  rewrite forallb_forall in A. specialize (A d Hd). unfold step_ok in A. rewrite forallb_forall in A. specialize (A s H1).
  apply andb_true_iff in A. destruct A as [A _].
  apply memb_in in H2. apply N.eqb_neq in Hm. rewrite H2, Hm in A. cbn [negb andb orb] in A.
  apply orb_true_iff in A. destruct A as [A|A]; apply dir_eqb_eq in A; [left|right]; exact A.
Qed.
Lemma ray_step7 k d s : k < 64 -> In d all_dirs -> In s (ray_of k d) -> In (s + 7) (ray_of k d) -> s mod 8 <> 0 ->
  d = (-1, 1)%Z \/ d = (1, -1)%Z.
Proof.
  intros Hk Hd H1 H2 Hm. pose proof step_ok_all as A. rewrite forallb_forall in A. specialize (A k (in_sq64 k Hk)).
  rewrite forallb_forall in A. specialize (A d Hd). unfold step_ok in A. rewrite forallb_forall in A. specialize (A s H1).
  apply andb_true_iff in A. destruct A as [_ A].
  apply memb_in in H2. apply N.eqb_neq in Hm. rewrite H2, Hm in A. cbn [negb andb orb] in A.
  apply orb_true_iff in A. destruct A as [A|A]; apply dir_eqb_eq in A; [left|right]; exact A.
Qed.

(* two squares of one file one rank apart on one ray from k: they are on the king's file *)
Definition file8_ok (k : N) (d : Z * Z) : bool :=
  forallb (fun s => negb (memb (s + 8) (ray_of k d)) || (s mod 8 =? k mod 8)) (ray_of k d).
Lemma file8_ok_all : forallb (fun k => forallb (file8_ok k) all_dirs) sq64_list = true.
Proof. vm_compute. reflexivity. Qed.
Lemma ray_file8 k d s : k < 64 -> In d all_dirs -> In s (ray_of k d) -> In (s + 8) (ray_of k d) -> s mod 8 = k mod 8.
Proof.
  intros Hk Hd H1 H2. pose proof file8_ok_all as A. rewrite forallb_forall in A. specialize (A k (in_sq64 k Hk)).
  rewrite forallb_forall in A. specialize (A d Hd). unfold file8_ok in A. rewrite forallb_forall in A. specialize (A s H1).
  apply memb_in in H2. rewrite H2 in A. cbn [negb orb] in A. apply N.eqb_eq in A. exact A.
Qed.

(* the first squares of the two rays along the rank *)
Definition side_head_ok (a : N) : bool :=
  match ray_of a (1, 0)%Z with [] => true | h :: _ => h =? a + 1 end
  && match ray_of a (-1, 0)%Z with [] => true | h :: _ => h + 1 =? a end.
Lemma side_head_all : forallb side_head_ok sq64_list = true.
Proof. vm_compute. reflexivity. Qed.
Lemma e_head a h t : a < 64 -> ray_of a (1, 0)%Z = h :: t -> h = a + 1.
Proof.
  intros Ha E. pose proof side_head_all as A. rewrite forallb_forall in A. specialize (A a (in_sq64 a Ha)).
  unfold side_head_ok in A. apply andb_true_iff in A. destruct A as [A _]. rewrite E in A. apply N.eqb_eq in A. exact A.
Qed.
Lemma w_head a h t : a < 64 -> ray_of a (-1, 0)%Z = h :: t -> h + 1 = a.
Proof.
  intros Ha E. pose proof side_head_all as A. rewrite forallb_forall in A. specialize (A a (in_sq64 a Ha)).
  unfold side_head_ok in A. apply andb_true_iff in A. destruct A as [_ A]. rewrite E in A. apply N.eqb_eq in A. exact A.
Qed.

(* the line through a man on a ray from k (LegalEp.line_head without its section) *)
Lemma line_head' k d l1 b l2a x l2b uu : k < 64 -> In d all_dirs -> ray_of k d = l1 ++ b :: l2a ++ x :: l2b -> uu = d \/ uu = negd d ->
  exists h t, ray_of b uu = h :: t /\ (In h l1 \/ h = k \/ In h l2a \/ h = x).
Proof.
  intros Hk Hd El [->| ->].
  - pose proof (fwd_ray k d l1 b _ Hk Hd El) as E. destruct (l2a ++ x :: l2b) as [|h t] eqn:E2; [destruct l2a; discriminate|].
    exists h, t. split; [exact E|]. destruct (head_split _ _ _ _ _ E2); tauto.
  - destruct (back_ray k d l1 b _ Hk Hd El) as (rest & Eb). destruct (rev l1) as [|h' t'] eqn:Er; cbn [app] in Eb.
    + exists k, rest. split; [exact Eb|tauto].
    + exists h', (t' ++ k :: rest). split; [exact Eb|left; apply in_rev; rewrite Er; left; reflexivity].
Qed.

(* ------------------------------------------------------------------ list facts *)
Lemma walk_list_pre occ l1 x l2 s : (forall y, In y (l1 ++ x :: l2) -> y < 64) -> (forall y, In y l1 -> N.testbit occ y = false) ->
  In s l1 \/ s = x -> N.testbit (walk_list occ (l1 ++ x :: l2)) s = true.
Proof.
  intros Hl H1 [Hs| ->]; [|apply walk_list_reach; assumption].
  destruct (in_split s l1 Hs) as (m1 & m2 & Em). rewrite Em, <- app_assoc. cbn [app]. apply walk_list_reach.
  - intros y Hy. apply Hl. rewrite Em, <- app_assoc. exact Hy.
  - intros y Hy. apply H1. rewrite Em. apply in_or_app. left. exact Hy.
Qed.

Lemma first_occ_unique occ (l1 : list N) y1 l2 l1' y2 l2' : (forall y, In y (l1 ++ y1 :: l2) -> y < 64) ->
  l1 ++ y1 :: l2 = l1' ++ y2 :: l2' ->
  (forall s, In s l1 -> N.testbit occ s = false) -> (forall s, In s l1' -> N.testbit occ s = false) ->
  N.testbit occ y1 = true -> N.testbit occ y2 = true -> y1 = y2.
Proof.
  intros Hl E V1 V2 O1 O2.
  assert (W : N.testbit (walk_list occ (l1 ++ y1 :: l2)) y2 = true).
  { rewrite E. apply walk_list_reach; [rewrite <- E; exact Hl|exact V2]. }
  destruct (walk_prefix occ l1 y1 l2 y2 Hl V1 O1 W) as [Hin|Eq]; [|symmetry; exact Eq].
  rewrite (V1 y2 Hin) in O2. discriminate.
Qed.

(* a board with at least two men has two distinct squares *)
Lemma pos_has_bit q : exists i, N.testbit (Npos q) i = true.
Proof. exists (N.log2 (Npos q)). apply N.bit_log2. discriminate. Qed.
Lemma pop_two q : 1 < pop_pos q -> exists i j, i <> j /\ N.testbit (Npos q) i = true /\ N.testbit (Npos q) j = true.
Proof.
  induction q as [q IH|q IH|]; cbn [pop_pos]; intros H.
  - destruct (pos_has_bit q) as (i & Hi). exists 0, (N.succ i). split; [lia|split; [reflexivity|]].
    change (Npos q~1) with (2 * Npos q + 1). rewrite N.testbit_odd_succ by lia. exact Hi.
  - destruct (IH H) as (i & j & Hij & Hi & Hj). exists (N.succ i), (N.succ j). split; [lia|].
    change (Npos q~0) with (2 * Npos q). rewrite !N.testbit_even_succ by lia. split; assumption.
  - lia.
Qed.
Lemma popcount_two Y : (1 <? popcount Y) = true -> exists i j, i <> j /\ N.testbit Y i = true /\ N.testbit Y j = true.
Proof.
  intros H. apply N.ltb_lt in H. destruct Y as [|q]; [cbn [popcount] in H; lia|]. exact (pop_two q H).
Qed.

(* ------------------------------------------------------------------ the pin fold, strong soundness *)
Definition pin_struct (p : Position) (X : N) (d : Z * Z) (s : N) : Prop :=
  exists l1 l2a x l2b, ray_of (g_k p) d = l1 ++ s :: l2a ++ x :: l2b
    /\ (forall y, In y l1 -> N.testbit (occupied p) y = false) /\ (forall y, In y l2a -> N.testbit (occupied p) y = false)
    /\ ub p s = true /\ N.testbit X x = true.

Section PinStruct.
Variable p : Position.
Hypothesis Hk : g_k p < 64.
Variable X : N.

Lemma pin_dir_struct e acc s : In e dir_tab -> X = g_chk p (fst e) ->
  N.testbit (fst (pin_dir (snd e) p (g_kray p e) X acc)) s = true -> N.testbit (fst acc) s = true \/ pin_struct p X (fst e) s.
Proof.
  intros He HX. unfold pin_dir. destruct acc as [pn xr]. cbn [fst snd].
  destruct (is_occ (N.land (g_kray p e) (c_us p))) eqn:E1; [|left; assumption].
  set (sq := lsb (N.land (g_kray p e) (c_us p))).
  assert (Hsq : N.testbit (g_kray p e) sq = true /\ ub p sq = true).
  { unfold is_occ in E1. apply negb_true_iff, N.eqb_neq in E1. pose proof (lsb_set _ E1) as Hs. fold sq in Hs.
    rewrite N.land_spec in Hs. apply andb_true_iff in Hs. exact Hs. }
  destruct Hsq as (Hkr & Hu).
  destruct (kray_in p e He X HX Hk sq Hkr) as (Hin & Hw & _).
  assert (Hsq64 : sq < 64) by exact (RaySym.ray_lt _ _ sq Hin).
  destruct (is_occ (N.land (snd e sq (occupied p)) X)) eqn:E2; [|left; assumption]. cbn [fst].
  rewrite N.lor_spec. intros H. apply orb_true_iff in H. destruct H as [H|H]; [left; exact H|right].
  rewrite (testbit_bit sq s Hsq64) in H. apply N.eqb_eq in H. subst s.
  destruct (walk_list_split (occupied p) _ sq (RaySym.ray_lt (g_k p) (fst e)) Hw) as (l1 & l2 & El & V1).
  pose proof (fwd_ray (g_k p) (fst e) l1 sq l2 Hk (dir_tab_dirs e He) El) as Er.
  rewrite (dir_tab_exact e He _ _ Hsq64), Er in E2.
  destruct (is_occ_exists _ E2) as (x & Hx). rewrite N.land_spec in Hx. apply andb_true_iff in Hx. destruct Hx as [Hxw HxX].
  assert (Hl2 : forall y, In y l2 -> y < 64).
  { intros y Hy. apply (RaySym.ray_lt (g_k p) (fst e)). rewrite El. apply in_or_app. right. right. exact Hy. }
  destruct (walk_list_split (occupied p) l2 x Hl2 Hxw) as (l2a & l2b & El2 & V2).
  exists l1, l2a, x, l2b. rewrite <- El2. split; [exact El|split; [exact V1|split; [exact V2|split; [exact Hu|exact HxX]]]].
Qed.

Lemma pins_struct ds s : (forall e, In e ds -> In e dir_tab /\ X = g_chk p (fst e)) ->
  N.testbit (fst (pins p ds X)) s = true -> exists e, In e ds /\ pin_struct p X (fst e) s.
Proof.
  induction ds as [|e ds IH]; intros Hds; cbn [pins fold_right fst].
  - rewrite N.bits_0. discriminate.
  - fold (pins p ds X). destruct (Hds e (or_introl eq_refl)) as (He & HX). intros H.
    destruct (pin_dir_struct e (pins p ds X) s He HX H) as [H'|H'].
    + destruct IH as (e' & A & B); [intros e' He'; apply Hds; right; exact He'|exact H'|]. exists e'. split; [right; exact A|exact B].
    + exists e. split; [left; reflexivity|exact H'].
Qed.

(* where the x-ray half lies (LegalPin.bxrays_on_diag without its section) *)
Lemma pins_x_on ds s : (forall e, In e ds -> In e dir_tab /\ X = g_chk p (fst e)) ->
  N.testbit (snd (pins p ds X)) s = true -> exists e, In e ds /\ In s (ray_of (g_k p) (fst e)).
Proof. intros Hds. exact (proj2 (pins_sound p Hk X ds s Hds)). Qed.
End PinStruct.

Lemma horiz_entries p en : In en [e_w; e_e] -> In en dir_tab /\ g_rq p = g_chk p (fst en).
Proof. unfold dir_tab. cbn [In]. intros [<-|[<-|[]]]; (split; [tauto|reflexivity]). Qed.

(* ------------------------------------------------------------------ the set `allowed`, as equalities *)
Section AllowedEq.
Variable p : Position.
Hypothesis G : Good p.
Local Notation k := (g_k p).
Local Notation occ := (occupied p).

Lemma all_lt y : N.testbit (g_all p) y = true -> y < 64.
Proof.
  apply testbit_lt. destruct (g_bb p G) as (B1 & B2 & B3 & B4 & B5 & B6 & B7 & B8).
  unfold g_all, g_patt, g_natt, g_batt, g_ratt. repeat apply lor_lt; first [apply land_lt_r; assumption|apply land_lt_l, land_lt_r; assumption].
Qed.

(* no checker: every square that is not ours *)
Lemma allowed_nocheck : is_occ (g_all p) = false -> gi_allowed (gen_info p) = bnot (c_us p).
Proof.
  intros H0. assert (E0 : g_all p = 0) by (unfold is_occ in H0; apply negb_false_iff, N.eqb_eq in H0; exact H0).
  rewrite allowed_chain, H0, E0. change (1 <? popcount 0) with false. cbv iota.
  apply chain_none. intros r a Hin. apply in_map_iff in Hin. destruct Hin as (e' & Ee & He'). unfold g_entry in Ee. injection Ee as <- <-.
  destruct (is_occ (N.land (g_kray p e') (g_att p (fst e')))) eqn:Ht; [|reflexivity]. exfalso.
  destruct (is_occ_exists _ Ht) as (z & Hz). rewrite N.land_spec in Hz. apply andb_true_iff in Hz. destruct Hz as [_ Hz2].
  pose proof (att_in_all _ _ _ Hz2) as Hz. rewrite E0, N.bits_0 in Hz. discriminate.
Qed.

(* one checker, a pawn or a knight: its square *)
Lemma allowed_leaper_eq y : N.testbit (N.lor (g_patt p) (g_natt p)) y = true -> (1 <? popcount (g_all p)) = false ->
  gi_allowed (gen_info p) = g_all p /\ N.testbit (g_all p) y = true.
Proof.
  intros Hy Ep.
  assert (Hya : N.testbit (g_all p) y = true).
  { unfold g_all. rewrite !N.lor_spec. rewrite N.lor_spec in Hy. rewrite Hy. reflexivity. }
  split; [|exact Hya].
  assert (Hone : forall z, N.testbit (g_all p) z = true -> z = y) by (intros z Hz; exact (popcount_le1_single _ y z Ep Hya Hz)).
  rewrite allowed_chain, Ep, (is_occ_bit _ y Hya).
  apply chain_none. intros r a Hin. apply in_map_iff in Hin. destruct Hin as (e' & Ee & He'). unfold g_entry in Ee. injection Ee as <- <-.
  destruct (is_occ (N.land (g_kray p e') (g_att p (fst e')))) eqn:Ht; [|reflexivity]. exfalso.
  destruct (is_occ_exists _ Ht) as (z & Hz). rewrite N.land_spec in Hz. apply andb_true_iff in Hz. destruct Hz as [_ Hz2].
  pose proof (Hone z (att_in_all _ _ _ Hz2)) as ->.
  pose proof (all_lt y Hya) as Hy64.
  assert (Hpn : pb p 0 y = true \/ pb p 1 y = true).
  { rewrite N.lor_spec in Hy. apply orb_true_iff in Hy. unfold g_patt, g_natt in Hy. destruct Hy as [Hy|Hy]; rewrite !N.land_spec in Hy.
    - left. apply andb_true_iff in Hy. exact (proj2 Hy).
    - right. apply andb_true_iff in Hy. destruct Hy as [Hy _]. apply andb_true_iff in Hy. exact (proj2 Hy). }
  assert (Hbrq : pb p 2 y = true \/ pb p 3 y = true \/ pb p 4 y = true).
  { unfold g_att, g_batt, g_ratt in Hz2. destruct (is_diag (fst e')); rewrite !N.land_spec, N.lor_spec in Hz2;
      apply andb_true_iff in Hz2; destruct Hz2 as [_ Hz2]; apply orb_true_iff in Hz2; unfold pb, is_set; cbn [get_piece]; tauto. }
  destruct (g_wf p G y Hy64) as [(_ & _ & Hemp)|(t & j & Hj & _ & _ & Hp)].
  + destruct Hpn as [H|H]; [rewrite (Hemp 0) in H by lia|rewrite (Hemp 1) in H by lia]; discriminate.
  + assert (E01 : j = 0 \/ j = 1).
    { destruct Hpn as [H|H]; [rewrite (Hp 0) in H by lia|rewrite (Hp 1) in H by lia]; apply N.eqb_eq in H; lia. }
    destruct Hbrq as [H|[H|H]]; [rewrite (Hp 2) in H by lia|rewrite (Hp 3) in H by lia|rewrite (Hp 4) in H by lia]; apply N.eqb_eq in H; lia.
Qed.

(* one checker, a slider along e: that ray's walk *)
Lemma allowed_slider_eq e : In e dir_tab -> first_hit occ (g_chk p (fst e)) (ray_of k (fst e)) = true ->
  (1 <? popcount (g_all p)) = false -> gi_allowed (gen_info p) = walk_list occ (ray_of k (fst e)).
Proof.
  intros He Hf Ep. destruct (checker_in_att p G e He Hf) as (l1 & x & l2 & El & H1 & Hox & HX & Hkx & Hax & Ekr).
  rewrite allowed_chain, Ep.
  assert (Hone : forall y, N.testbit (g_all p) y = true -> y = x).
  { intros y Hy. exact (popcount_le1_single _ x y Ep (att_in_all _ _ _ Hax) Hy). }
  rewrite <- Ekr. apply chain_sel.
  - exists (g_att p (fst e)). split; [apply (in_map (g_entry p)); apply chain_order_tab; exact He|].
    apply (is_occ_bit _ x). rewrite N.land_spec, Hkx, Hax. reflexivity.
  - intros r' a' Hin Ht. apply in_map_iff in Hin. destruct Hin as (e' & Ee & He'). apply chain_order_tab in He'.
    unfold g_entry in Ee. injection Ee as <- <-.
    destruct (is_occ_exists _ Ht) as (y & Hy). rewrite N.land_spec in Hy. apply andb_true_iff in Hy. destruct Hy as [Hy1 Hy2].
    pose proof (Hone y (att_in_all _ _ _ Hy2)) as ->.
    destruct (kray_in p e' He' _ eq_refl (gk_lt p G) x Hy1) as (Hin' & _ & Hocc').
    assert (Ed : fst e' = fst e).
    { apply (rays_disjoint k (fst e') (fst e) x (gk_lt p G) (dir_tab_dirs e' He') (dir_tab_dirs e He) Hin'). rewrite El. apply in_or_app. right. left. reflexivity. }
    unfold g_kray. rewrite (dir_tab_exact e' He' _ _ (gk_lt p G)), (dir_tab_exact e He _ _ (gk_lt p G)), Ed. reflexivity.
Qed.

(* what a bit of the attacker set is *)
Lemma kray_struct e y : In e dir_tab -> N.testbit (g_kray p e) y = true ->
  exists l1 l2, ray_of k (fst e) = l1 ++ y :: l2 /\ (forall s, In s l1 -> N.testbit occ s = false).
Proof.
  intros He Hy. destruct (kray_in p e He _ eq_refl (gk_lt p G) y Hy) as (_ & Hw & _).
  exact (walk_list_split occ _ y (RaySym.ray_lt k (fst e)) Hw).
Qed.

Lemma all_struct y : N.testbit (g_all p) y = true ->
  N.testbit (N.lor (g_patt p) (g_natt p)) y = true
  \/ exists e l1 l2, In e dir_tab /\ ray_of k (fst e) = l1 ++ y :: l2 /\ (forall s, In s l1 -> N.testbit occ s = false)
       /\ N.testbit (g_chk p (fst e)) y = true.
Proof.
  unfold g_all. rewrite !N.lor_spec. intros H. apply orb_true_iff in H. destruct H as [H|H].
  - apply orb_true_iff in H. destruct H as [H|H]; [left; exact H|right].
    unfold g_batt in H. rewrite !N.land_spec in H. apply andb_true_iff in H. destruct H as [H HX]. apply andb_true_iff in H. destruct H as [Hr Ht].
    assert (HXy : N.testbit (g_bq p) y = true) by (unfold g_bq; rewrite N.land_spec, Ht, HX; reflexivity).
    unfold g_brays in Hr. rewrite !N.lor_spec in Hr.
    assert (Hc : exists e, In e [e_sw; e_se; e_nw; e_ne] /\ N.testbit (g_kray p e) y = true).
    { apply orb_true_iff in Hr. destruct Hr as [Hr|Hr]; [|exists e_se; cbn [In]; tauto].
      apply orb_true_iff in Hr. destruct Hr as [Hr|Hr]; [|exists e_nw; cbn [In]; tauto].
      apply orb_true_iff in Hr. destruct Hr as [Hr|Hr]; [exists e_ne|exists e_sw]; cbn [In]; tauto. }
    destruct Hc as (e & Hin & Hkr). destruct (diag_entries p e Hin) as (He & EX).
    destruct (kray_struct e y He Hkr) as (l1 & l2 & El & V1). exists e, l1, l2. rewrite <- EX. tauto.
  - right. unfold g_ratt in H. rewrite !N.land_spec in H. apply andb_true_iff in H. destruct H as [H HX]. apply andb_true_iff in H. destruct H as [Hr Ht].
    assert (HXy : N.testbit (g_rq p) y = true) by (unfold g_rq; rewrite N.land_spec, Ht, HX; reflexivity).
    unfold g_rrays in Hr. rewrite !N.lor_spec in Hr.
    assert (Hc : exists e, (In e [e_s; e_n] \/ In e [e_w; e_e]) /\ N.testbit (g_kray p e) y = true).
    { apply orb_true_iff in Hr. destruct Hr as [Hr|Hr]; [|exists e_w; cbn [In]; tauto].
      apply orb_true_iff in Hr. destruct Hr as [Hr|Hr]; [|exists e_e; cbn [In]; tauto].
      apply orb_true_iff in Hr. destruct Hr as [Hr|Hr]; [exists e_n|exists e_s]; cbn [In]; tauto. }
    destruct Hc as (e & Hin & Hkr).
    assert (HeX : In e dir_tab /\ g_rq p = g_chk p (fst e)) by (destruct Hin as [Hin|Hin]; [exact (vert_entries p e Hin)|exact (horiz_entries p e Hin)]).
    destruct HeX as (He & EX).
    destruct (kray_struct e y He Hkr) as (l1 & l2 & El & V1). exists e, l1, l2. rewrite <- EX. tauto.
Qed.
End AllowedEq.

(* ------------------------------------------------------------------ the generator's test, introduction form *)
Lemma ep_cand_intro p (ne : bool) e :
  N.testbit (if ne then north_east (ep_cand_set p ne) else north_west (ep_cand_set p ne)) e = true ->
  (N.testbit (gi_allowed (gen_info p)) e = true \/ N.testbit (north (gi_allowed (gen_info p))) e = true) ->
  is_emp (N.land (ray_e (g_k p) (ep_blockers p ne e)) (g_rq p)) = true ->
  is_emp (N.land (ray_w (g_k p) (ep_blockers p ne e)) (g_rq p)) = true ->
  In (PAWN, e - (if ne then 9 else 7), e, NOPIECE) (ep_candidate p (gen_info p) ne e).
Proof.
  intros Hsh Hal H3 H4. unfold ep_candidate. cbv zeta. rewrite gi_ksq_eq. fold (g_k p). fold (g_rq p). fold (ep_cand_set p ne). fold (ep_blockers p ne e).
  unfold is_set. rewrite Hsh, H3, H4.
  assert (Ho : N.testbit (gi_allowed (gen_info p)) e || N.testbit (north (gi_allowed (gen_info p))) e = true) by (apply orb_true_iff; exact Hal).
  rewrite Ho. cbn [andb]. left. reflexivity.
Qed.

Lemma dir_class' d : In d all_dirs -> (is_diag d = true /\ In d bishop_dirs) \/ (is_diag d = false /\ In d rook_dirs).
Proof.
  intros H. destruct (in_all_dirs_cases d H) as [->|[->|[->|[->|[->|[->|[->| ->]]]]]]]; unfold bishop_dirs, rook_dirs; cbn [In];
    first [left; split; [reflexivity|tauto]|right; split; [reflexivity|tauto]].
Qed.

(* ------------------------------------------------------------------ one en-passant capture that leaves the king safe *)
Section Conv.
Variables (u : bool) (p : Position) (e : N) (ne : bool).
Hypothesis I : Inv0 p.
Hypothesis Hok : ep_ok_b p = true.
Hypothesis Ee : ep p = Some e.
Local Notation G := (i0_good p I).
Local Notation k := (g_k p).
Local Notation a := (e - (if ne then 9 else 7)).
Local Notation v := (e - 8).
Local Notation m := (mkMv (e - (if ne then 9 else 7)) e NOPIECE).
Local Notation Q := (mv_boards u p (mkMv (e - (if ne then 9 else 7)) e NOPIECE)).
Local Notation occ := (occupied p).
Local Notation bx := (gi_bxrays (gen_info p)).
Local Notation al := (gi_allowed (gen_info p)).
Hypothesis Hd : (if ne then 9 else 7) <= e.
Hypothesis Hm : (e - (if ne then 9 else 7)) mod 8 <> (if ne then 7 else 0).
Hypothesis Ha : holds p (e - (if ne then 9 else 7)) false PAWN.
Hypothesis Hsafe : in_check_them (makemove u p (mkMv (e - (if ne then 9 else 7)) e NOPIECE)) = false.

Lemma c_e_rng : 8 <= e < 64. Proof. exact (proj1 (g_ep p G e Ee)). Qed.
Lemma c_e_empty : empty_at p e. Proof. exact (proj1 (proj2 (g_ep p G e Ee))). Qed.
Lemma c_v_pawn : holds p v true PAWN. Proof. exact (proj2 (proj2 (g_ep p G e Ee))). Qed.
Lemma c_k_lt : k < 64. Proof. exact (gk_lt p G). Qed.

Lemma c_arith : a < 64 /\ a <> e /\ a <> v /\ v <> e /\ v < 64 /\ (a + 1 = v \/ v + 1 = a) /\ v + 8 = e
  /\ a + (if ne then 9 else 7) = e /\ e mod 8 <> (if ne then 0 else 7) /\ v mod 8 = e mod 8.
Proof. pose proof c_e_rng as He. pose proof Hd as Hd'. pose proof Hm as Hm'. destruct ne; repeat split; lia. Qed.

Lemma c_ua : ub p a = true. Proof. destruct Ha as (_ & Hu & _). exact Hu. Qed.
Lemma c_pa : pb p 0 a = true. Proof. destruct Ha as (_ & _ & _ & Hp). rewrite (Hp 0) by lia. reflexivity. Qed.
Lemma c_occ_a : N.testbit occ a = true. Proof. rewrite occ_bits, c_ua. reflexivity. Qed.
Lemma c_occ_v : N.testbit occ v = true.
Proof. destruct c_v_pawn as (_ & _ & Ht & _). rewrite occ_bits, Ht. apply orb_true_r. Qed.
Lemma c_occ_e : N.testbit occ e = false.
Proof. destruct c_e_empty as (Hu & Ht & _). rewrite occ_bits, Hu, Ht. reflexivity. Qed.
Lemma c_us_occ s : ub p s = true -> N.testbit occ s = true.
Proof. intros H. rewrite occ_bits, H. reflexivity. Qed.

(* the move *)
Lemma c_S : sane p m PAWN.
Proof.
  destruct c_arith as (Ha64 & _). pose proof c_e_rng as He.
  apply (mk_sane p G); [unfold PAWN; lia|exact Ha64|lia|exact c_ua|exact c_pa|exact (proj1 c_e_empty)|intros _; exact Ee|left; reflexivity].
Qed.
Lemma c_is_ep : mv_is_ep p m = true.
Proof.
  unfold mv_is_ep. rewrite (sane_piece p m PAWN c_S). cbn [m_from m_to]. rewrite (empty_piece_on p e c_e_empty).
  change (PAWN =? PAWN) with true. cbn [andb]. rewrite andb_true_r. apply negb_true_iff, N.eqb_neq.
  destruct c_arith as (_ & _ & _ & _ & _ & _ & _ & Hae & Hme & _). pose proof Hm as Hm'. unfold file_of. destruct ne; lia.
Qed.
Lemma c_NVK : m_to m <> tksq p.
Proof.
  cbn [m_to]. intros E. destruct (their_king_holds p (g_wf p G) (g_bb p G) (i0_tking p I)) as (HK & _).
  rewrite <- E in HK. exact (holds_not_empty _ _ _ _ HK c_e_empty).
Qed.

(* the board stage *)
Lemma c_Qocc s : N.testbit (occupied Q) s = (s =? e) || (N.testbit occ s && negb (s =? a) && negb (s =? v)).
Proof. rewrite (Q_occ u p m PAWN c_S s), c_is_ep. reflexivity. Qed.
Lemma c_Qthem j s : j <= 5 ->
  N.testbit (N.land (get_piece Q j) (c_them Q)) s = N.testbit (N.land (get_piece p j) (c_them p)) s && negb (s =? e) && negb (s =? v).
Proof. intros Hj. rewrite (Q_them u p m PAWN c_S j s Hj), c_is_ep. reflexivity. Qed.
Lemma vacQ s : s <> e -> (N.testbit occ s = false \/ s = a \/ s = v) -> N.testbit (occupied Q) s = false.
Proof.
  intros He H. rewrite c_Qocc. destruct (N.eqb_spec s e); [contradiction|]. cbn [orb].
  destruct H as [H|[H|H]]; [rewrite H; reflexivity|rewrite H, N.eqb_refl; cbn [negb]; rewrite andb_false_r; reflexivity|rewrite H, N.eqb_refl; apply andb_false_r].
Qed.

Lemma c_chk_not_v d : N.testbit (g_chk p d) v = false.
Proof.
  destruct c_v_pawn as (_ & _ & _ & Hp). pose proof (Hp 2 ltac:(lia)) as H2. pose proof (Hp 3 ltac:(lia)) as H3. pose proof (Hp 4 ltac:(lia)) as H4.
  unfold pb, is_set in H2, H3, H4. cbn [get_piece] in H2, H3, H4. change (2 =? PAWN) with false in H2. change (3 =? PAWN) with false in H3. change (4 =? PAWN) with false in H4.
  unfold g_chk, g_bq, g_rq. destruct (is_diag d); rewrite N.land_spec, N.lor_spec, ?H2, ?H3, ?H4; apply andb_false_r.
Qed.
Lemma c_e_not_k : e <> k.
Proof. intros E. destruct (king_holds p G) as (HK & _). fold (g_k p) in HK. rewrite <- E in HK. exact (holds_not_empty _ _ _ _ HK c_e_empty). Qed.
Lemma c_v_not_k : v <> k.
Proof. intros E. destruct (king_holds p G) as (HK & _). fold (g_k p) in HK. rewrite <- E in HK. destruct (holds_excl _ _ _ _ _ _ HK c_v_pawn) as (X & _). discriminate X. Qed.

(* their sliders of the position before, in Q *)
Definition XQ (d : Z * Z) : N := N.land (c_them Q) (N.lor (get_piece Q (if is_diag d then 2 else 3)) (queens Q)).
Lemma XQ_bit d s : N.testbit (g_chk p d) s = true -> s <> e -> s <> v -> N.testbit (XQ d) s = true.
Proof.
  intros H He Hv. unfold XQ. unfold g_chk, g_bq, g_rq in H.
  pose proof (c_Qthem 2 s ltac:(lia)) as H2. pose proof (c_Qthem 3 s ltac:(lia)) as H3. pose proof (c_Qthem 4 s ltac:(lia)) as H4.
  cbn [get_piece] in H2, H3, H4. rewrite !N.land_spec in H2, H3, H4.
  destruct (N.eqb_spec s e); [contradiction|]. destruct (N.eqb_spec s v); [contradiction|]. cbn [negb] in H2, H3, H4. rewrite !andb_true_r in H2, H3, H4.
  destruct (is_diag d); cbn [get_piece]; rewrite N.land_spec, N.lor_spec in H |- *.
  - destruct (N.testbit (c_them Q) s), (N.testbit (bishops Q) s), (N.testbit (queens Q) s), (N.testbit (c_them p) s), (N.testbit (bishops p) s), (N.testbit (queens p) s); cbn in *; congruence.
  - destruct (N.testbit (c_them Q) s), (N.testbit (rooks Q) s), (N.testbit (queens Q) s), (N.testbit (c_them p) s), (N.testbit (rooks p) s), (N.testbit (queens p) s); cbn in *; congruence.
Qed.

(* ------------------------------------------------------------------ the hypothesis, test by test *)
Lemma safe_parts :
  is_set (pawns_bb false (N.land (pawns Q) (c_them Q))) k = false
  /\ is_occ (N.land (N.land (knights_bb (bit k)) (knights Q)) (c_them Q)) = false
  /\ existsb (fun d => first_hit (occupied Q) (N.land (c_them Q) (N.lor (bishops Q) (queens Q))) (ray_of k d)) bishop_dirs = false
  /\ existsb (fun d => first_hit (occupied Q) (N.land (c_them Q) (N.lor (rooks Q) (queens Q))) (ray_of k d)) rook_dirs = false.
Proof.
  pose proof Hsafe as H. rewrite (nc_transfer_sq u p m PAWN c_S I c_NVK) in H.
  unfold our_king_after in H. change (PAWN =? KING) with false in H. cbv iota in H. change (uksq p) with k in H.
  rewrite is_sq_or in H. cbv zeta in H. change (get_side Q false) with (c_them Q) in H.
  apply orb_false_iff in H. destruct H as [H _]. apply orb_false_iff in H. destruct H as [H H4].
  apply orb_false_iff in H. destruct H as [H H3]. apply orb_false_iff in H. destruct H as [H1 H2].
  unfold batt, bishop_walk in H3. unfold ratt, rook_walk in H4.
  replace (k <? 64) with true in H3, H4 by (symmetry; apply N.ltb_lt; exact c_k_lt).
  rewrite walk_dirs_query in H3, H4 by (apply them_sub).
  split; [exact H1|split; [exact H2|split; [exact H3|exact H4]]].
Qed.

Lemma slider_tests d : In d all_dirs -> first_hit (occupied Q) (XQ d) (ray_of k d) = false.
Proof.
  intros Hd0. destruct safe_parts as (_ & _ & H3 & H4). unfold XQ.
  destruct (dir_class' d Hd0) as [(-> & Hin)|(-> & Hin)]; cbn [get_piece].
  - exact (existsb_false' _ _ H3 d Hin).
  - exact (existsb_false' _ _ H4 d Hin).
Qed.

(* no slider of theirs stands first on a king ray that is open in Q *)
Lemma safe_slider d l1 x l2 : In d all_dirs -> ray_of k d = l1 ++ x :: l2 ->
  (forall s, In s l1 -> N.testbit (occupied Q) s = false) -> N.testbit (g_chk p d) x = true -> False.
Proof.
  intros Hd0 El V HX. destruct (chk_sub p d x HX) as (Ht & Ho).
  assert (Hxv : x <> v) by (intros E; rewrite E, c_chk_not_v in HX; discriminate).
  assert (Hxe : x <> e) by (intros E; rewrite E, c_occ_e in Ho; discriminate).
  assert (Hxa : x <> a) by (intros E; pose proof (them_not_us p (g_dis p G) x Ht) as Hu; rewrite E, c_ua in Hu; discriminate).
  assert (HoQ : N.testbit (occupied Q) x = true).
  { rewrite c_Qocc, Ho. destruct (N.eqb_spec x a); [contradiction|]. destruct (N.eqb_spec x v); [contradiction|]. apply orb_true_r. }
  pose proof (slider_tests d Hd0) as Hf. rewrite El, (first_hit_intro _ _ l1 x l2 V HoQ), (XQ_bit d x HX Hxe Hxv) in Hf. discriminate.
Qed.

(* the king's board *)
Lemma kbb_only z : N.testbit (g_kbb p) z = true -> z = k.
Proof.
  unfold g_kbb. rewrite N.land_comm. intros H. destruct (g_bb p G) as (B1 & _).
  rewrite (single_bit_test _ z (land_lt_r _ _ B1) (g_king p G)) in H. apply N.eqb_eq in H. exact H.
Qed.
Lemma patt_geo y : N.testbit (g_patt p) y = true ->
  N.testbit (N.land (pawns p) (c_them p)) y = true /\ ((y = k + 9 /\ y mod 8 <> 0) \/ (y = k + 7 /\ y mod 8 <> 7)).
Proof.
  unfold g_patt. rewrite !N.land_spec, N.lor_spec, testbit_north_east, testbit_north_west. intros H.
  apply andb_true_iff in H. destruct H as [H Hp]. apply andb_true_iff in H. destruct H as [H Ht]. rewrite Hp, Ht. split; [reflexivity|].
  apply orb_true_iff in H. destruct H as [H|H]; repeat (apply andb_true_iff in H; destruct H as [H ?]).
  - left. match goal with X : N.testbit (g_kbb p) _ = true |- _ => apply kbb_only in X; rename X into Hk end.
    match goal with X : (9 <=? y) = true |- _ => apply N.leb_le in X end.
    match goal with X : negb (y mod 8 =? 0) = true |- _ => apply negb_true_iff, N.eqb_neq in X end. split; [lia|assumption].
  - right. match goal with X : N.testbit (g_kbb p) _ = true |- _ => apply kbb_only in X; rename X into Hk end.
    match goal with X : (7 <=? y) = true |- _ => apply N.leb_le in X end.
    match goal with X : negb (y mod 8 =? 7) = true |- _ => apply negb_true_iff, N.eqb_neq in X end. split; [lia|assumption].
Qed.

(* no pawn or knight of theirs other than the captured pawn attacks the king *)
Lemma safe_leaper y : N.testbit (N.lor (g_patt p) (g_natt p)) y = true -> y <> v -> False.
Proof.
  intros Hy Hyv. destruct safe_parts as (P1 & P2 & _). rewrite N.lor_spec in Hy. apply orb_true_iff in Hy. destruct Hy as [Hy|Hy].
  - destruct (patt_geo y Hy) as (Hpt & Hgeo).
    assert (Hye : y <> e).
    { intros E. rewrite N.land_spec in Hpt. apply andb_true_iff in Hpt. destruct Hpt as [_ Ht]. destruct c_e_empty as (_ & Ht' & _). unfold tb, is_set in Ht'. rewrite E, Ht' in Ht. discriminate. }
    assert (HQ : N.testbit (N.land (pawns Q) (c_them Q)) y = true).
    { pose proof (c_Qthem 0 y ltac:(lia)) as H0. cbn [get_piece] in H0. rewrite H0, Hpt.
      destruct (N.eqb_spec y e); [contradiction|]. destruct (N.eqb_spec y v); [contradiction|]. reflexivity. }
    unfold is_set in P1. rewrite testbit_pawns_them in P1. pose proof c_k_lt as Hk64.
    assert (X : (k <? 64) && (negb (k mod 8 =? 0) && N.testbit (N.land (pawns Q) (c_them Q)) (k + 7)
                               || negb (k mod 8 =? 7) && N.testbit (N.land (pawns Q) (c_them Q)) (k + 9)) = true).
    { apply andb_true_iff. split; [apply N.ltb_lt; exact Hk64|]. apply orb_true_iff.
      destruct Hgeo as [(E & Hmod)|(E & Hmod)]; [right|left]; rewrite <- E, HQ, andb_true_r; apply negb_true_iff, N.eqb_neq; lia. }
    rewrite X in P1. discriminate.
  - unfold g_natt in Hy. rewrite !N.land_spec in Hy. apply andb_true_iff in Hy. destruct Hy as [Hy Ht]. apply andb_true_iff in Hy. destruct Hy as [Hkn Hn].
    assert (Hye : y <> e).
    { intros E. destruct c_e_empty as (_ & Ht' & _). unfold tb, is_set in Ht'. rewrite E, Ht' in Ht. discriminate. }
    assert (HQ : N.testbit (N.land (knights Q) (c_them Q)) y = true).
    { pose proof (c_Qthem 1 y ltac:(lia)) as H0. cbn [get_piece] in H0. rewrite H0, N.land_spec, Hn, Ht.
      destruct (N.eqb_spec y e); [contradiction|]. destruct (N.eqb_spec y v); [contradiction|]. reflexivity. }
    assert (X : is_occ (N.land (N.land (knights_bb (bit k)) (knights Q)) (c_them Q)) = true).
    { apply (is_occ_bit _ y). rewrite <- N.land_assoc, N.land_spec, Hkn, HQ. reflexivity. }
    rewrite X in P2. discriminate.
Qed.

(* ------------------------------------------------------------------ test 3: the two rays along the rank *)
Lemma c_blockers_bits s : N.testbit (ep_blockers p ne e) s = N.testbit (occupied Q) s.
Proof.
  pose proof c_e_rng as He. destruct c_arith as (Ha64 & Hae & Hav & Hve & Hv64 & Hadj & Hv8 & Hd' & Hme & _). pose proof Hm as Hm'. pose proof Hd as Hd''.
  assert (E3 : N.testbit (if ne then south_west (bit e) else south_east (bit e)) s = (s =? a)).
  { destruct ne.
    - rewrite testbit_south_west. destruct (N.eqb_spec s (e - 9)) as [->|Hn].
      + rewrite testbit_bit by lia. replace (e - 9 + 9) with e by lia. rewrite N.eqb_refl, andb_true_r.
        apply andb_true_iff. split; [apply N.ltb_lt; lia|apply negb_true_iff, N.eqb_neq; lia].
      + rewrite testbit_bit by lia. destruct (N.eqb_spec (s + 9) e); [lia|]. apply andb_false_r.
    - rewrite testbit_south_east. destruct (N.eqb_spec s (e - 7)) as [->|Hn].
      + rewrite testbit_bit by lia. replace (e - 7 + 7) with e by lia. rewrite N.eqb_refl, andb_true_r.
        apply andb_true_iff. split; [apply N.ltb_lt; lia|apply negb_true_iff, N.eqb_neq; lia].
      + rewrite testbit_bit by lia. destruct (N.eqb_spec (s + 7) e); [lia|]. apply andb_false_r. }
  unfold ep_blockers. rewrite !N.lxor_spec, E3, (testbit_vic e s) by lia. rewrite (testbit_bit e s) by lia. rewrite c_Qocc.
  destruct (N.eqb_spec s e) as [->|N1].
  - rewrite c_occ_e. destruct (N.eqb_spec e v); [lia|]. destruct (N.eqb_spec e a); [lia|]. reflexivity.
  - destruct (N.eqb_spec s v) as [->|N2].
    + rewrite c_occ_v. destruct (N.eqb_spec v a); [lia|]. reflexivity.
    + destruct (N.eqb_spec s a) as [->|N3]; [rewrite c_occ_a; reflexivity|]. cbn [negb orb]. rewrite !andb_true_r, !xorb_false_r. reflexivity.
Qed.

Lemma rank_test d : d = (1, 0)%Z \/ d = (-1, 0)%Z -> is_emp (N.land (walk_list (ep_blockers p ne e) (ray_of k d)) (g_rq p)) = true.
Proof.
  intros Hd0.
  assert (Hall : In d all_dirs) by (destruct Hd0 as [->| ->]; unfold all_dirs, bishop_dirs, rook_dirs; cbn [In app]; tauto).
  assert (EX : g_chk p d = g_rq p) by (destruct Hd0 as [->| ->]; reflexivity).
  assert (Hsub : forall i, N.testbit (g_rq p) i = true -> N.testbit (ep_blockers p ne e) i = true).
  { intros i Hi. rewrite c_blockers_bits. rewrite <- EX in Hi. destruct (chk_sub p d i Hi) as (Ht & Ho).
    rewrite c_Qocc, Ho.
    destruct (N.eqb_spec i a) as [E|_]; [exfalso; pose proof (them_not_us p (g_dis p G) i Ht) as Hu; rewrite E, c_ua in Hu; discriminate|].
    destruct (N.eqb_spec i v) as [E|_]; [exfalso; rewrite E, c_chk_not_v in Hi; discriminate|]. apply orb_true_r. }
  pose proof (walk_first (ep_blockers p ne e) (g_rq p) (ray_of k d) (RaySym.ray_lt k d) Hsub) as W.
  destruct (first_hit (ep_blockers p ne e) (g_rq p) (ray_of k d)) eqn:Hf.
  - exfalso. destruct (first_hit_split _ _ _ Hf) as (l1 & x & l2 & El & V & _ & HX).
    apply (safe_slider d l1 x l2 Hall El); [|rewrite EX; exact HX]. intros s Hs. rewrite <- c_blockers_bits. exact (V s Hs).
  - unfold is_occ in W. apply negb_false_iff in W. exact W.
Qed.

(* ------------------------------------------------------------------ test 1: the pins of the capturing pawn *)
Lemma e_off d : In d all_dirs -> In a (ray_of k d) -> In e (ray_of k d) ->
  if ne then d = (1, 1)%Z \/ d = (-1, -1)%Z else d = (-1, 1)%Z \/ d = (1, -1)%Z.
Proof.
  intros Hd0 H1 H2. destruct c_arith as (_ & _ & _ & _ & _ & _ & _ & Hae & _). pose proof Hm as Hm'. rewrite <- Hae in H2. destruct ne.
  - exact (ray_step9 k d _ c_k_lt Hd0 H1 H2 Hm').
  - exact (ray_step7 k d _ c_k_lt Hd0 H1 H2 Hm').
Qed.

(* the pawn is the only man between the king and a slider along d, and e is off that ray: the capture opens the ray *)
Lemma pin_open d X : pin_struct p X d a -> X = g_chk p d -> In d all_dirs -> ~ In e (ray_of k d) -> False.
Proof.
  intros (l1 & l2a & x & l2b & El & V1 & V2 & _ & HX) EX Hd0 Hne.
  apply (safe_slider d (l1 ++ a :: l2a) x l2b Hd0); [rewrite El, <- app_assoc; reflexivity| |rewrite <- EX; exact HX].
  intros s Hs.
  assert (Hse : s <> e).
  { intros E. subst s. apply Hne. rewrite El. apply in_app_or in Hs. apply in_or_app. destruct Hs as [Hs|[Hs|Hs]]; [left; exact Hs|right; left; exact Hs|right; right; apply in_or_app; left; exact Hs]. }
  apply vacQ; [exact Hse|]. apply in_app_or in Hs. destruct Hs as [Hs|[Hs|Hs]]; [left; exact (V1 s Hs)|right; left; symmetry; exact Hs|left; exact (V2 s Hs)].
Qed.

Lemma pin_on d X : pin_struct p X d a -> In a (ray_of k d).
Proof. intros (l1 & l2a & x & l2b & El & _). rewrite El. apply in_or_app. right. left. reflexivity. Qed.

Lemma not_rpinned : N.testbit (gi_rpinned (gen_info p)) a = false.
Proof.
  destruct (N.testbit (gi_rpinned (gen_info p)) a) eqn:H; [exfalso|reflexivity].
  destruct (gi_pins p) as (_ & _ & _ & Erp & _). rewrite Erp, N.lor_spec in H. apply orb_true_iff in H. destruct H as [H|H].
  - (* along the file *)
    destruct (pins_struct p c_k_lt (g_rq p) [e_s; e_n] a (vert_entries p) H) as (en & Hin & St).
    destruct (vert_entries p en Hin) as (Hen & EX).
    apply (pin_open (fst en) (g_rq p) St EX (dir_tab_dirs en Hen)). intros Hine.
    pose proof (e_off (fst en) (dir_tab_dirs en Hen) (pin_on _ _ St) Hine) as Hc.
    cbn [In] in Hin. destruct Hin as [<-|[<-|[]]]; cbn [fst e_s e_n] in Hc; destruct ne; destruct Hc as [Hc|Hc]; discriminate Hc.
  - (* along the rank: the captured pawn stands next to the capturing pawn *)
    destruct (pins_struct p c_k_lt (g_rq p) [e_w; e_e] a (horiz_entries p) H) as (en & Hin & St).
    destruct (horiz_entries p en Hin) as (Hen & EX).
    destruct St as (l1 & l2a & x & l2b & El & V1 & V2 & _ & HX).
    destruct c_arith as (Ha64 & _ & _ & _ & _ & Hadj & _).
    assert (Hline : In v l1 \/ v = k \/ In v l2a \/ v = x).
    { destruct Hadj as [E|E].
      - destruct (line_head' k (fst en) l1 a l2a x l2b (1, 0)%Z c_k_lt (dir_tab_dirs en Hen) El) as (h & t & Eh & Hh).
        { cbn [In] in Hin. destruct Hin as [<-|[<-|[]]]; [right|left]; reflexivity. }
        rewrite (e_head a h t Ha64 Eh), E in Hh. exact Hh.
      - destruct (line_head' k (fst en) l1 a l2a x l2b (-1, 0)%Z c_k_lt (dir_tab_dirs en Hen) El) as (h & t & Eh & Hh).
        { cbn [In] in Hin. destruct Hin as [<-|[<-|[]]]; [left|right]; reflexivity. }
        pose proof (w_head a h t Ha64 Eh) as E'. replace h with v in Hh by lia. exact Hh. }
    destruct Hline as [Hl|[Hl|[Hl|Hl]]].
    + pose proof (V1 _ Hl) as Z. rewrite c_occ_v in Z. discriminate.
    + exact (c_v_not_k Hl).
    + pose proof (V2 _ Hl) as Z. rewrite c_occ_v in Z. discriminate.
    + rewrite <- Hl, EX, c_chk_not_v in HX. discriminate.
Qed.

Lemma bx_on w : N.testbit bx w = true -> w = k \/ exists d', In d' bishop_dirs /\ In w (ray_of k d').
Proof.
  destruct (gi_pins p) as (_ & E2 & _). rewrite E2, N.lor_spec. intros H. apply orb_true_iff in H. destruct H as [H|H].
  - right. destruct (pins_x_on p c_k_lt (g_bq p) _ w (diag_entries p) H) as (e0 & H0 & Hin). exists (fst e0). split; [|exact Hin].
    cbn [In] in H0. unfold bishop_dirs. repeat (destruct H0 as [<-|H0]; [cbn; tauto|]). contradiction.
  - left. exact (kbb_only w H).
Qed.

(* the pin runs along the capture's own diagonal: the square beside the pawn on the other diagonal is no x-ray square *)
Lemma capture_line d od w : In d bishop_dirs -> In a (ray_of k d) -> In od bishop_dirs -> od <> d -> od <> negd d ->
  In w (ray_of a od) -> N.testbit bx w = true -> False.
Proof.
  intros Hd0 Hon Hod N1 N2 Hw Hb.
  assert (Hcl : class_dirs d = bishop_dirs).
  { unfold bishop_dirs in Hd0. cbn [In] in Hd0. repeat (destruct Hd0 as [<-|Hd0]; [reflexivity|]). contradiction. }
  assert (Hall : In d all_dirs) by (unfold all_dirs; apply in_or_app; left; exact Hd0).
  destruct (bx_on w Hb) as [Ek|(d' & Hd' & Hin')].
  - assert (Hdd : In d (class_dirs d)) by (rewrite Hcl; exact Hd0).
    assert (Hodd : In od (class_dirs d)) by (rewrite Hcl; exact Hod).
    exact (proj1 (cross_rays k d a od w d c_k_lt Hall Hon Hodd N1 N2 Hw Hdd) Ek).
  - assert (Hdd : In d' (class_dirs d)) by (rewrite Hcl; exact Hd').
    assert (Hodd : In od (class_dirs d)) by (rewrite Hcl; exact Hod).
    exact (proj2 (cross_rays k d a od w d' c_k_lt Hall Hon Hodd N1 N2 Hw Hdd) Hin').
Qed.

Lemma bpin_other : N.testbit (gi_bpinned (gen_info p)) a = true -> N.testbit (if ne then south_east bx else south_west bx) a = false.
Proof.
  intros Hbp. destruct (N.testbit (if ne then south_east bx else south_west bx) a) eqn:Hod; [exfalso|reflexivity].
  destruct (gi_pins p) as (Ebp & _). rewrite Ebp in Hbp. unfold pinsB in Hbp.
  destruct (pins_struct p c_k_lt (g_bq p) _ a (diag_entries p) Hbp) as (en & Hin & St).
  destruct (diag_entries p en Hin) as (Hen & EX).
  pose proof (pin_on _ _ St) as Hon. pose proof (dir_tab_dirs en Hen) as Hall.
  assert (Hopen : ~ In e (ray_of k (fst en)) -> False) by exact (pin_open (fst en) (g_bq p) St EX Hall).
  pose proof (e_off (fst en) Hall Hon) as Hoff.
  assert (Hw64 : forall w, N.testbit bx w = true -> w < 64).
  { intros w Hw. destruct (bx_on w Hw) as [->|(d' & _ & Hin')]; [exact c_k_lt|exact (RaySym.ray_lt k d' w Hin')]. }
  destruct c_arith as (Ha64 & _).
  assert (Hbd : In (fst en) bishop_dirs).
  { cbn [In] in Hin. unfold bishop_dirs. repeat (destruct Hin as [<-|Hin]; [cbn; tauto|]). contradiction. }
  pose proof capture_line as CL.
  destruct ne.
  - rewrite testbit_south_east in Hod. apply andb_true_iff in Hod. destruct Hod as [Hod Hb]. apply andb_true_iff in Hod. destruct Hod as [_ Hmod].
    apply negb_true_iff, N.eqb_neq in Hmod. destruct (ray_nw_head (e - 9) (Hw64 _ Hb) Hmod) as (t & Et).
    assert (Hwin : In (e - 9 + 7) (ray_of (e - 9) (-1, 1)%Z)) by (rewrite Et; left; reflexivity).
    assert (Hod : In (-1, 1)%Z bishop_dirs) by (unfold bishop_dirs; cbn [In]; tauto).
    cbn [In] in Hin. destruct Hin as [<-|[<-|[<-|[<-|[]]]]]; cbn [fst e_sw e_se e_nw e_ne] in *.
    + apply (CL (-1, -1)%Z (-1, 1)%Z (e - 9 + 7) Hbd Hon Hod); [intros X; discriminate X|intros X; discriminate X|exact Hwin|exact Hb].
    + apply Hopen. intros Hine. destruct (Hoff Hine) as [X|X]; discriminate X.
    + apply Hopen. intros Hine. destruct (Hoff Hine) as [X|X]; discriminate X.
    + apply (CL (1, 1)%Z (-1, 1)%Z (e - 9 + 7) Hbd Hon Hod); [intros X; discriminate X|intros X; discriminate X|exact Hwin|exact Hb].
  - rewrite testbit_south_west in Hod. apply andb_true_iff in Hod. destruct Hod as [Hod Hb]. apply andb_true_iff in Hod. destruct Hod as [_ Hmod].
    apply negb_true_iff, N.eqb_neq in Hmod. destruct (ray_ne_head (e - 7) (Hw64 _ Hb) Hmod) as (t & Et).
    assert (Hwin : In (e - 7 + 9) (ray_of (e - 7) (1, 1)%Z)) by (rewrite Et; left; reflexivity).
    assert (Hod : In (1, 1)%Z bishop_dirs) by (unfold bishop_dirs; cbn [In]; tauto).
    cbn [In] in Hin. destruct Hin as [<-|[<-|[<-|[<-|[]]]]]; cbn [fst e_sw e_se e_nw e_ne] in *.
    + apply Hopen. intros Hine. destruct (Hoff Hine) as [X|X]; discriminate X.
    + apply (CL (1, -1)%Z (1, 1)%Z (e - 7 + 9) Hbd Hon Hod); [intros X; discriminate X|intros X; discriminate X|exact Hwin|exact Hb].
    + apply (CL (-1, 1)%Z (1, 1)%Z (e - 7 + 9) Hbd Hon Hod); [intros X; discriminate X|intros X; discriminate X|exact Hwin|exact Hb].
    + apply Hopen. intros Hine. destruct (Hoff Hine) as [X|X]; discriminate X.
Qed.

Lemma cand_test : N.testbit (if ne then north_east (ep_cand_set p ne) else north_west (ep_cand_set p ne)) e = true.
Proof.
  pose proof c_e_rng as He. destruct c_arith as (Ha64 & _ & _ & _ & _ & _ & _ & _ & Hme & _). pose proof Hd as Hd'.
  assert (Hc : N.testbit (ep_cand_set p ne) a = true).
  { unfold ep_cand_set. rewrite !N.land_spec, N.lor_spec, !testbit_bnot.
    pose proof c_ua as Hu. pose proof c_pa as Hp. unfold ub, pb, is_set in Hu, Hp. cbn [get_piece] in Hp. rewrite Hu, Hp, not_rpinned.
    replace (a <? 64) with true by (symmetry; apply N.ltb_lt; exact Ha64). cbn [andb negb].
    destruct (N.testbit (gi_bpinned (gen_info p)) a) eqn:Hb; [|reflexivity]. rewrite (bpin_other Hb). reflexivity. }
  destruct ne.
  - rewrite testbit_north_east, Hc, andb_true_r. apply andb_true_iff. split; [apply andb_true_iff; split|]; [apply N.ltb_lt; lia|apply negb_true_iff, N.eqb_neq; exact Hme|apply N.leb_le; exact Hd'].
  - rewrite testbit_north_west, Hc, andb_true_r. apply andb_true_iff. split; [apply andb_true_iff; split|]; [apply N.ltb_lt; lia|apply negb_true_iff, N.eqb_neq; exact Hme|apply N.leb_le; exact Hd'].
Qed.

(* ------------------------------------------------------------------ the position before the double push (ep_ok_b) *)
Local Notation U := (unpush p e).
Definition XU (d : Z * Z) : N := N.land (c_them U) (N.lor (get_piece U (if is_diag d then 2 else 3)) (queens U)).

Lemma o_vacant : N.testbit occ (e + 8) = false.
Proof.
  pose proof Hok as H. unfold ep_ok_b in H. rewrite Ee in H. apply andb_true_iff in H. destruct H as [H _].
  apply negb_true_iff in H. exact H.
Qed.

Lemma unpush_tests d : In d all_dirs -> first_hit (occupied U) (XU d) (ray_of k d) = false.
Proof.
  intros Hd0. pose proof Hok as H. unfold ep_ok_b in H. rewrite Ee in H. apply andb_true_iff in H. destruct H as [_ H]. apply negb_true_iff in H.
  fold (g_k p) in H. rewrite is_sq_or in H. cbv zeta in H.
  apply orb_false_iff in H. destruct H as [H _]. apply orb_false_iff in H. destruct H as [H H4]. apply orb_false_iff in H. destruct H as [_ H3].
  change (get_side (unpush p e) false) with (c_them (unpush p e)) in H3, H4.
  unfold batt, bishop_walk in H3. unfold ratt, rook_walk in H4.
  replace (k <? 64) with true in H3, H4 by (symmetry; apply N.ltb_lt; exact c_k_lt).
  rewrite walk_dirs_query in H3, H4 by (apply them_sub).
  unfold XU. destruct (dir_class' d Hd0) as [(-> & Hin)|(-> & Hin)]; cbn [get_piece].
  - exact (existsb_false' _ _ H3 d Hin).
  - exact (existsb_false' _ _ H4 d Hin).
Qed.

Lemma U_tb s : s < 64 -> s <> v -> s <> e + 8 -> tb U s = tb p s.
Proof.
  intros Hs Hv Ho. rewrite unpush_eq, tb_xor_piece, tb_xor_them, (unpush_bb_bit e s Hs).
  destruct (N.eqb_spec s v); [contradiction|]. destruct (N.eqb_spec s (e + 8)); [contradiction|]. apply xorb_false_r.
Qed.
Lemma U_pb j s : j <= 5 -> s < 64 -> s <> v -> s <> e + 8 -> pb U j s = pb p j s.
Proof.
  intros Hj Hs Hv Ho. rewrite unpush_eq, pb_xor_piece, pb_xor_them, (unpush_bb_bit e s Hs) by (unfold PAWN; lia).
  destruct (N.eqb_spec s v); [contradiction|]. destruct (N.eqb_spec s (e + 8)); [contradiction|]. cbn [orb]. rewrite andb_false_r. apply xorb_false_r.
Qed.
Lemma XU_bit d s : s < 64 -> s <> v -> s <> e + 8 -> N.testbit (XU d) s = N.testbit (g_chk p d) s.
Proof.
  intros Hs Hv Ho. unfold XU, g_chk, g_bq, g_rq.
  pose proof (U_tb s Hs Hv Ho) as Ht. pose proof (U_pb 2 s ltac:(lia) Hs Hv Ho) as H2. pose proof (U_pb 3 s ltac:(lia) Hs Hv Ho) as H3. pose proof (U_pb 4 s ltac:(lia) Hs Hv Ho) as H4.
  unfold tb, pb, is_set in Ht, H2, H3, H4. cbn [get_piece] in H2, H3, H4.
  destruct (is_diag d); cbn [get_piece]; rewrite !N.land_spec, !N.lor_spec, Ht, H4, ?H2, ?H3; reflexivity.
Qed.

(* the captured pawn gives check and a slider gives check along a ray through e: excluded by ep_ok_b *)
Lemma two_checks_contra d l1 y l2 : In d all_dirs -> ray_of k d = l1 ++ y :: l2 ->
  (forall s, In s l1 -> N.testbit occ s = false) -> N.testbit (g_chk p d) y = true -> In e l1 ->
  N.testbit (g_patt p) v = true -> False.
Proof.
  intros Hd0 El V1 HX Hine Hpv. destruct (chk_sub p d y HX) as (_ & Hoy).
  assert (Hl64 : forall s, In s (ray_of k d) -> s < 64) by exact (RaySym.ray_lt k d).
  assert (Hyv : y <> v) by (intros E; rewrite E, c_chk_not_v in HX; discriminate).
  assert (Hyo : y <> e + 8) by (intros E; rewrite E, o_vacant in Hoy; discriminate).
  assert (Hy64 : y < 64) by (apply Hl64; rewrite El; apply in_or_app; right; left; reflexivity).
  destruct (in_dec N.eq_dec (e + 8) l1) as [Hino|Hno].
  - (* e and e + 8 on one ray from k: the king's file; but the pawn on v = e - 8 attacks the king *)
    assert (H1 : In e (ray_of k d)) by (rewrite El; apply in_or_app; left; exact Hine).
    assert (H2 : In (e + 8) (ray_of k d)) by (rewrite El; apply in_or_app; left; exact Hino).
    pose proof (ray_file8 k d e c_k_lt Hd0 H1 H2) as Hf.
    destruct c_arith as (_ & _ & _ & _ & _ & _ & Hv8 & _ & _ & Hvm).
    destruct (patt_geo v Hpv) as (_ & [(E & Hmod)|(E & Hmod)]); pose proof c_k_lt; lia.
  - pose proof (unpush_tests d Hd0) as Hf. rewrite El, first_hit_intro in Hf.
    + rewrite (XU_bit d y Hy64 Hyv Hyo), HX in Hf. discriminate.
    + intros s Hs. assert (Hs64 : s < 64) by (apply Hl64; rewrite El; apply in_or_app; left; exact Hs).
      assert (Hso : s <> e + 8) by (intros E; apply Hno; rewrite <- E; exact Hs).
      rewrite (unpush_occ p e I Ee s Hs64 Hso), (V1 s Hs). reflexivity.
    + rewrite (unpush_occ p e I Ee y Hy64 Hyo), Hoy. destruct (N.eqb_spec y v); [contradiction|reflexivity].
Qed.

Lemma all_v : N.testbit (g_all p) v = true -> N.testbit (g_patt p) v = true.
Proof.
  intros H. destruct (all_struct p G v H) as [Hl|(e0 & l1 & l2 & _ & _ & _ & HX)].
  - rewrite N.lor_spec in Hl. apply orb_true_iff in Hl. destruct Hl as [Hl|Hl]; [exact Hl|exfalso].
    unfold g_natt in Hl. rewrite !N.land_spec in Hl. apply andb_true_iff in Hl. destruct Hl as [Hl _]. apply andb_true_iff in Hl. destruct Hl as [_ Hn].
    destruct c_v_pawn as (_ & _ & _ & Hp). pose proof (Hp 1 ltac:(lia)) as H1. unfold pb, is_set in H1. cbn [get_piece] in H1.
    change (1 =? PAWN) with false in H1. rewrite Hn in H1. discriminate H1.
  - rewrite c_chk_not_v in HX. discriminate.
Qed.

(* ------------------------------------------------------------------ test 2: the target or the captured pawn is allowed *)
Lemma allowed_ev' : N.testbit al e = true \/ N.testbit al v = true.
Proof.
  destruct (1 <? popcount (g_all p)) eqn:Ep.
  - (* two checkers *)
    exfalso. destruct (popcount_two _ Ep) as (y1 & y2 & Hne & H1 & H2).
    assert (Hcls : forall y, N.testbit (g_all p) y = true ->
              y = v \/ exists e0 l1 l2, In e0 dir_tab /\ ray_of k (fst e0) = l1 ++ y :: l2 /\ (forall s, In s l1 -> N.testbit occ s = false)
                         /\ N.testbit (g_chk p (fst e0)) y = true /\ In e l1).
    { intros y Hy. destruct (all_struct p G y Hy) as [Hl|(e0 & l1 & l2 & He0 & El & V1 & HX)].
      - left. destruct (N.eq_dec y v) as [E|n]; [exact E|exfalso; exact (safe_leaper y Hl n)].
      - right. exists e0, l1, l2. split; [exact He0|split; [exact El|split; [exact V1|split; [exact HX|]]]].
        destruct (in_dec N.eq_dec e l1) as [Hi|Hn]; [exact Hi|exfalso].
        apply (safe_slider (fst e0) l1 y l2 (dir_tab_dirs e0 He0) El); [|exact HX].
        intros s Hs. apply vacQ; [intros E; apply Hn; rewrite <- E; exact Hs|left; exact (V1 s Hs)]. }
    destruct (Hcls y1 H1) as [E1|(e1 & l1 & l2 & He1 & El1 & V1 & HX1 & Hi1)]; destruct (Hcls y2 H2) as [E2|(e2 & l1' & l2' & He2 & El2 & V2 & HX2 & Hi2)].
    + congruence.
    + rewrite E1 in H1. exact (two_checks_contra (fst e2) l1' y2 l2' (dir_tab_dirs e2 He2) El2 V2 HX2 Hi2 (all_v H1)).
    + rewrite E2 in H2. exact (two_checks_contra (fst e1) l1 y1 l2 (dir_tab_dirs e1 He1) El1 V1 HX1 Hi1 (all_v H2)).
    + assert (Ed : fst e1 = fst e2).
      { apply (rays_disjoint k (fst e1) (fst e2) e c_k_lt (dir_tab_dirs e1 He1) (dir_tab_dirs e2 He2)).
        - rewrite El1. apply in_or_app. left. exact Hi1.
        - rewrite El2. apply in_or_app. left. exact Hi2. }
      apply Hne. rewrite Ed in El1.
      apply (first_occ_unique occ l1 y1 l2 l1' y2 l2'); [rewrite <- El1; exact (RaySym.ray_lt k (fst e2))|rewrite <- El1; exact El2|exact V1|exact V2| |].
      * exact (proj2 (chk_sub p _ y1 HX1)).
      * exact (proj2 (chk_sub p _ y2 HX2)).
  - destruct (is_occ (g_all p)) eqn:E0.
    + (* one checker *)
      destruct (is_occ_exists _ E0) as (y & Hy). destruct (all_struct p G y Hy) as [Hl|(e0 & l1 & l2 & He0 & El & V1 & HX)].
      * destruct (allowed_leaper_eq p G y Hl Ep) as (Eal & Hya). right.
        destruct (N.eq_dec y v) as [E|n]; [rewrite Eal, <- E; exact Hya|exfalso; exact (safe_leaper y Hl n)].
      * left. destruct (chk_sub p _ y HX) as (_ & Hoy).
        assert (Hf : first_hit occ (g_chk p (fst e0)) (ray_of k (fst e0)) = true) by (rewrite El, (first_hit_intro occ _ l1 y l2 V1 Hoy); exact HX).
        rewrite (allowed_slider_eq p G e0 He0 Hf Ep), El.
        apply walk_list_pre; [rewrite <- El; exact (RaySym.ray_lt k (fst e0))|exact V1|left].
        destruct (in_dec N.eq_dec e l1) as [Hi|Hn]; [exact Hi|exfalso].
        apply (safe_slider (fst e0) l1 y l2 (dir_tab_dirs e0 He0) El); [|exact HX].
        intros s Hs. apply vacQ; [intros E; apply Hn; rewrite <- E; exact Hs|left; exact (V1 s Hs)].
    + (* no check *)
      left. rewrite (allowed_nocheck p E0), testbit_bnot. pose proof c_e_rng as He. destruct c_e_empty as (Hu & _). unfold ub, is_set in Hu.
      rewrite Hu. replace (e <? 64) with true by (symmetry; apply N.ltb_lt; lia). reflexivity.
Qed.

(* ------------------------------------------------------------------ the candidate is emitted *)
Theorem ep_conv : In (PAWN, e - (if ne then 9 else 7), e, NOPIECE) (ep_candidate p (gen_info p) ne e).
Proof.
  apply ep_cand_intro.
  - exact cand_test.
  - destruct allowed_ev' as [H|H]; [left; exact H|right]. pose proof c_e_rng as He.
    rewrite testbit_north, H, andb_true_r. apply andb_true_iff. split; [apply N.ltb_lt; lia|apply N.leb_le; lia].
  - rewrite (ray_e_exact k _ c_k_lt). exact (rank_test (1, 0)%Z (or_introl eq_refl)).
  - rewrite (ray_w_exact k _ c_k_lt). exact (rank_test (-1, 0)%Z (or_intror eq_refl)).
Qed.
End Conv.

(* ------------------------------------------------------------------ the theorem *)
Theorem ep_complete u p e (ne : bool) : Inv0 p -> ep_ok_b p = true -> ep p = Some e ->
  let a := if ne then e - 9 else e - 7 in
  (if ne then 9 <= e /\ (e - 9) mod 8 <> 7 else 7 <= e /\ (e - 7) mod 8 <> 0) ->
  holds p a false PAWN ->
  in_check_them (makemove u p (mkMv a e NOPIECE)) = false ->
  In (PAWN, a, e, NOPIECE) (ep_candidate p (gen_info p) ne e).
Proof.
  intros I Hok Ee a. subst a. destruct ne; intros (Hd & Hm) Ha Hs.
  - exact (ep_conv u p e true I Hok Ee Hd Hm Ha Hs).
  - exact (ep_conv u p e false I Hok Ee Hd Hm Ha Hs).
Qed.

Corollary ep_complete_blk u p e (ne : bool) : Inv0 p -> ep_ok_b p = true -> ep p = Some e ->
  let a := if ne then e - 9 else e - 7 in
  (if ne then 9 <= e /\ (e - 9) mod 8 <> 7 else 7 <= e /\ (e - 7) mod 8 <> 0) ->
  holds p a false PAWN ->
  in_check_them (makemove u p (mkMv a e NOPIECE)) = false ->
  In (PAWN, a, e, NOPIECE) (blk_ep p).
Proof.
  intros I Hok Ee a Hside Ha Hs. pose proof (ep_complete u p e ne I Hok Ee Hside Ha Hs) as H. fold a in H.
  unfold blk_ep. rewrite Ee. apply in_or_app. destruct ne; [left|right]; exact H.
Qed.

Print Assumptions ep_complete.
Print Assumptions ep_complete_blk.
