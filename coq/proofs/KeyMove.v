(* C04: the key predicted for a move (zobrist.rs predict_hash), which makemove stores, equals the key recomputed from
   scratch on the position after the move. *)
From Coq Require Import NArith ZArith List Bool Lia ZifyN ZifyBool Btauto.
From Rawr Require Import Consts Bits Magic Position MoveGen MakeMove MakeStages Rules Abs KeySpec
                         BitsFacts FlipFacts AbsFacts LsbFacts MakeFacts MakeAbs CastleFacts CastleAbs HashFacts HashSum KeyAbs.
Import ListNotations.
Local Open Scope N_scope.
Ltac Zify.zify_post_hook ::= Z.div_mod_to_equations.

(* ------------------------------------------------------------------ sums that differ at a few squares *)
Definition updf (g : N -> N) (s v : N) : N -> N := fun a => if a =? s then v else g a.

Lemma XA_updf g s v : s < 64 -> XA (updf g s v) = N.lxor (N.lxor (XA g) (g s)) v.
Proof. apply XA_single. Qed.

Lemma is_black_turn t : is_black (colour_of_turn t) = t.
Proof. destruct t; reflexivity. Qed.

(* ------------------------------------------------------------------ the board sum after a non-castling move *)
Section BoardSum.
Variables (u : bool) (p0 : Position) (m : Mv) (k : N).
Hypothesis S : sane p0 m k.
Let from := m_from m.
Let to := m_to m.
Let t := turn p0.
Let Q := mv_boards u p0 m.
Let af := rel_sq p0 from.
Let at' := rel_sq p0 to.
Let av := rel_sq p0 (to - 8).
Let b := mv_is_ep p0 m.
Let g0 := fun a => mkey (man_at p0 a) a.

Lemma bs_af_lt : af < 64. Proof. apply rel_sq_lt. exact (sn_from _ _ _ S). Qed.
Lemma bs_at_lt : at' < 64. Proof. apply rel_sq_lt. exact (sn_to _ _ _ S). Qed.
Lemma bs_af_ne_at : af <> at'.
Proof. intros E. apply (sn_ne _ _ _ S). exact (rel_sq_inj _ _ _ E). Qed.

Lemma g0_from : g0 af = key t k af.
Proof.
  unfold g0. rewrite (man_at_holds p0 af false k).
  - unfold mkey. rewrite xorb_false_r, is_black_turn, N_of_kind_of_N by exact (sane_k p0 m k S). reflexivity.
  - unfold af. rewrite rel_sq_invol. exact (sn_mover _ _ _ S).
Qed.

Lemma g0_to : g0 at' = if tb p0 to then key (negb t) (mv_cap p0 m) at' else 0.
Proof.
  unfold g0. destruct (target_cases u p0 m k S) as [He | (Hc & _)].
  - rewrite (man_at_empty p0 at') by (unfold at'; rewrite rel_sq_invol; exact He).
    destruct He as (_ & Ht & _). fold to in Ht. rewrite Ht. reflexivity.
  - rewrite (man_at_holds p0 at' true (mv_cap p0 m)) by (unfold at'; rewrite rel_sq_invol; exact Hc).
    destruct Hc as (Hk & _ & Ht & _). fold to in Ht. rewrite Ht.
    unfold mkey. rewrite xorb_true_r, is_black_turn, N_of_kind_of_N by exact Hk. reflexivity.
Qed.

Lemma g0_vic : b = true -> g0 av = key (negb t) PAWN av /\ av < 64 /\ av <> af /\ av <> at'.
Proof.
  intros Hb. destruct (sane_ep_facts p0 m k S Hb) as (_ & H8 & Hv & _ & _ & Hne).
  pose proof (sn_to _ _ _ S) as Ht. fold to in Ht, H8.
  split; [|split; [|split]].
  - unfold g0. rewrite (man_at_holds p0 av true PAWN) by (unfold av; rewrite rel_sq_invol; exact Hv).
    unfold mkey. rewrite xorb_true_r, is_black_turn. reflexivity.
  - unfold av. apply rel_sq_lt. lia.
  - intros E. apply Hne. symmetry. exact (rel_sq_inj _ _ _ E).
  - intros E. pose proof (rel_sq_inj _ _ _ E). lia.
Qed.

Definition landed_key : N := key t (landed k (m_promo m)) at'.

Lemma Q_men a : a < 64 ->
  mkey (man_at Q a) a = updf (if b then updf (updf g0 af 0) av 0 else updf g0 af 0) at' landed_key a.
Proof.
  intros Ha. unfold updf.
  destruct (N.eqb_spec a at') as [->|N2].
  { unfold Q, at', to. rewrite (man_to u p0 m k S). fold to at'. unfold mkey, landed_key. rewrite is_black_turn, N_of_kind_of_N; [reflexivity|].
    exact (proj1 (after_to u p0 m k S)). }
  assert (Hbc : b = true \/ b = false) by (destruct b; [left|right]; reflexivity).
  destruct Hbc as [Hb|Hb]; rewrite Hb.
  - destruct (N.eqb_spec a av) as [->|N3].
    { unfold Q, av, to. rewrite (man_vic u p0 m k S Hb). reflexivity. }
    destruct (N.eqb_spec a af) as [->|N1].
    { unfold Q, af, from. rewrite (man_from u p0 m k S). reflexivity. }
    unfold Q. rewrite (man_other u p0 m k S a N1 N2 (fun _ => N3)). reflexivity.
  - destruct (N.eqb_spec a af) as [->|N1].
    { unfold Q, af, from. rewrite (man_from u p0 m k S). reflexivity. }
    unfold Q. rewrite (man_other u p0 m k S a N1 N2); [reflexivity|]. fold b. rewrite Hb. discriminate.
Qed.

(* the board part of the key after the move, from the board part before *)
Theorem board_sum_after :
  bsum (board_of Q) 0 =
  N.lxor (N.lxor (N.lxor (N.lxor (bsum (board_of p0) 0) (key t k af))
                         (if b then key (negb t) PAWN av else 0))
                 (if tb p0 to then key (negb t) (mv_cap p0 m) at' else 0))
         landed_key.
Proof.
  rewrite !bsum_board_of. fold g0.
  rewrite (XA_ext _ _ Q_men).
  rewrite XA_updf by exact bs_at_lt.
  assert (Hbc : b = true \/ b = false) by (destruct b; [left|right]; reflexivity).
  destruct Hbc as [Hb|Hb]; rewrite Hb.
  - destruct (g0_vic Hb) as (Gv & Lv & N1 & N2).
    rewrite XA_updf by exact Lv. rewrite XA_updf by exact bs_af_lt.
    unfold updf at 1 2 3.
    replace (at' =? av) with false by (symmetry; apply N.eqb_neq; intros E; apply N2; symmetry; exact E).
    replace (at' =? af) with false by (symmetry; apply N.eqb_neq; intros E; apply bs_af_ne_at; symmetry; exact E).
    replace (av =? af) with false by (symmetry; apply N.eqb_neq; exact N1).
    rewrite g0_from, Gv, g0_to, !N.lxor_0_r. reflexivity.
  - rewrite XA_updf by exact bs_af_lt.
    unfold updf at 1.
    replace (at' =? af) with false by (symmetry; apply N.eqb_neq; intros E; apply bs_af_ne_at; symmetry; exact E).
    rewrite g0_from, g0_to, !N.lxor_0_r. reflexivity.
Qed.
End BoardSum.

(* ------------------------------------------------------------------ the result of makemove meets the premises of key_of_abs *)
Lemma BB8_flip q : BB8 (flip q).
Proof. unfold BB8, flip. cbn [c_us c_them pawns knights bishops rooks queens kings]. repeat split; apply bswap_lt. Qed.

Lemma ub_flip q s : s < 64 -> ub (flip q) s = tb q (flip_sq s).
Proof. intros Hs. unfold ub, tb. change (c_us (flip q)) with (bswap (c_them q)). apply is_set_bswap. exact Hs. Qed.
Lemma tb_flip q s : s < 64 -> tb (flip q) s = ub q (flip_sq s).
Proof. intros Hs. unfold ub, tb. change (c_them (flip q)) with (bswap (c_us q)). apply is_set_bswap. exact Hs. Qed.
Lemma pb_flip q j s : s < 64 -> j <= 5 -> pb (flip q) j s = pb q j (flip_sq s).
Proof.
  intros Hs Hj. unfold pb. kinds j Hj; cbn [get_piece];
  [change (pawns (flip q)) with (bswap (pawns q))|change (knights (flip q)) with (bswap (knights q))
  |change (bishops (flip q)) with (bswap (bishops q))|change (rooks (flip q)) with (bswap (rooks q))
  |change (queens (flip q)) with (bswap (queens q))|change (kings (flip q)) with (bswap (kings q))];
  apply is_set_bswap; exact Hs.
Qed.

Lemma holds_flip q s t k : s < 64 -> holds q (flip_sq s) t k -> holds (flip q) s (negb t) k.
Proof.
  intros Hs (Hk & Hu & Ht & Hp). split; [exact Hk|split; [|split]].
  - rewrite ub_flip by exact Hs. rewrite Ht, negb_involutive. reflexivity.
  - rewrite tb_flip by exact Hs. exact Hu.
  - intros j Hj. rewrite pb_flip by assumption. exact (Hp j Hj).
Qed.

Lemma empty_flip q s : s < 64 -> empty_at q (flip_sq s) -> empty_at (flip q) s.
Proof.
  intros Hs (Hu & Ht & Hp). split; [|split].
  - rewrite ub_flip by exact Hs. exact Ht.
  - rewrite tb_flip by exact Hs. exact Hu.
  - intros j Hj. rewrite pb_flip by assumption. exact (Hp j Hj).
Qed.

Lemma WF_flip q : WF q -> WF (flip q).
Proof.
  intros H s Hs. assert (Hf : flip_sq s < 64) by (apply flipbit_lt; exact Hs).
  destruct (H _ Hf) as [He | (t & k & Hh)].
  - left. apply empty_flip; assumption.
  - right. exists (negb t), k. apply holds_flip; assumption.
Qed.

Lemma wf_same p q s : same_at p q s -> wf_sq p s -> wf_sq q s.
Proof.
  intros (Hu & Ht & Hp) [(Eu & Et & Ep) | (t & k & (Hk & Ku & Kt & Kp))].
  - left. split; [rewrite Hu; exact Eu|split; [rewrite Ht; exact Et|]]. intros j Hj. rewrite (Hp j Hj). exact (Ep j Hj).
  - right. exists t, k. split; [exact Hk|split; [rewrite Hu; exact Ku|split; [rewrite Ht; exact Kt|]]].
    intros j Hj. rewrite (Hp j Hj). exact (Kp j Hj).
Qed.

(* set_clocks_ep_rights and set_hash leave the boards alone *)
Lemma wf_clocks q hm fm e a b c d s : wf_sq q s -> wf_sq (set_clocks_ep_rights q hm fm e a b c d) s.
Proof. intros H. exact H. Qed.
Lemma WF_clocks q hm fm e a b c d : WF q -> WF (set_clocks_ep_rights q hm fm e a b c d).
Proof. intros H s Hs. exact (H s Hs). Qed.

Section ResultWF.
Variables (u : bool) (p0 : Position) (m : Mv) (k : N).
Hypothesis S : sane p0 m k.
Hypothesis HW : WF p0.

Lemma WF_boards : WF (mv_boards u p0 m).
Proof.
  intros s Hs.
  destruct (N.eq_dec s (m_from m)) as [->|N1]; [left; exact (after_from u p0 m k S)|].
  destruct (N.eq_dec s (m_to m)) as [->|N2]; [right; eexists; eexists; exact (after_to u p0 m k S)|].
  assert (Hbc : mv_is_ep p0 m = true \/ mv_is_ep p0 m = false) by (destruct (mv_is_ep p0 m); [left|right]; reflexivity).
  destruct Hbc as [Hb|Hb].
  - destruct (N.eq_dec s (m_to m - 8)) as [->|N3]; [left; exact (after_vic u p0 m k S Hb)|].
    apply (wf_same p0); [exact (after_other u p0 m k S s N1 N2 (fun _ => N3))|exact (HW s Hs)].
  - apply (wf_same p0); [apply (after_other u p0 m k S s N1 N2); rewrite Hb; discriminate|exact (HW s Hs)].
Qed.

Lemma WF_makemove : WF (makemove u p0 m).
Proof. rewrite makemove_stages. apply WF_flip, WF_clocks, WF_boards. Qed.
End ResultWF.

(* ------------------------------------------------------------------ fields of the result *)
Lemma R_fields u p0 m :
  let R := makemove u p0 m in
  turn R = negb (turn p0)
  /\ ep R = match mv_new_ep p0 m with Some s => Some (flip_sq s) | None => None end
  /\ us_ksc R = keeps_right (them_ksc p0) (m_from m) (m_to m) (lsb (N.land (c_them p0) (kings p0))) (sq_of (cf2 p0) 7)
  /\ us_qsc R = keeps_right (them_qsc p0) (m_from m) (m_to m) (lsb (N.land (c_them p0) (kings p0))) (sq_of (cf3 p0) 7)
  /\ them_ksc R = keeps_right (us_ksc p0) (m_from m) (m_to m) (lsb (N.land (c_us p0) (kings p0))) (sq_of (cf0 p0) 0)
  /\ them_qsc R = keeps_right (us_qsc p0) (m_from m) (m_to m) (lsb (N.land (c_us p0) (kings p0))) (sq_of (cf1 p0) 0).
Proof.
  cbv zeta. rewrite makemove_stages. cbn [turn ep us_ksc us_qsc them_ksc them_qsc flip set_clocks_ep_rights].
  rewrite turn_boards. repeat split; reflexivity.
Qed.

Lemma testbit_xor_if (c : bool) k h i : N.testbit (xor_if c k h) i = xorb (N.testbit h i) (c && N.testbit k i).
Proof. destruct c; cbn [xor_if andb]; [apply N.lxor_spec|rewrite xorb_false_r; reflexivity]. Qed.
Lemma testbit_if (c : bool) k i : N.testbit (if c then k else 0) i = c && N.testbit k i.
Proof. destruct c; [reflexivity|apply N.bits_0]. Qed.

Lemma file_flip x : x < 64 -> file_of (flip_sq x) = file_of x.
Proof. intros H. unfold file_of. change (flip_sq x) with (flipbit x). rewrite flipbit_arith by exact H. lia. Qed.

Lemma maybe_flip_rel p s : maybe_flip s (turn p) = rel_sq p s.
Proof. reflexivity. Qed.

(* ------------------------------------------------------------------ predict_hash, stage by stage *)
Definition ph_squares (p : Position) (m : Mv) : N :=
  let t := turn p in
  let piece := mv_piece p m in
  let from := maybe_flip (m_from m) t in
  let to := maybe_flip (m_to m) t in
  let h := N.lxor (N.lxor (hash p) (key t piece from)) (key t piece to) in
  let h := xor_if (is_set (c_them p) (m_to m)) (key (negb t) (mv_cap p m) to) h in
  let h := match ep p with Some e => N.lxor h (ep_key e) | None => h end in
  let h := xor_if (mv_is_ep p m) (key (negb t) PAWN (maybe_flip (m_to m - 8) t)) h in
  xor_if ((piece =? PAWN) && (m_to m - m_from m =? 16)) (ep_key (m_to m)) h.

Definition ph_castle (p : Position) (m : Mv) (h : N) : N :=
  let t := turn p in
  let piece := mv_piece p m in
  let from := maybe_flip (m_from m) t in
  let to := maybe_flip (m_to m) t in
  let ksc_sq := sq_of (cf0 p) 0 in
  let qsc_sq := sq_of (cf1 p) 0 in
  if (piece =? KING) && us_ksc p && (m_to m =? ksc_sq) then
    N.lxor (N.lxor (N.lxor (N.lxor (N.lxor (N.lxor h (key t KING from)) (key t KING to)) (key t KING from))
                           (key t KING (maybe_flip G1 t))) (key t ROOK (maybe_flip ksc_sq t))) (key t ROOK (maybe_flip F1 t))
  else if (piece =? KING) && us_qsc p && (m_to m =? qsc_sq) then
    N.lxor (N.lxor (N.lxor (N.lxor (N.lxor (N.lxor h (key t KING from)) (key t KING to)) (key t KING from))
                           (key t KING (maybe_flip C1 t))) (key t ROOK (maybe_flip qsc_sq t))) (key t ROOK (maybe_flip D1 t))
  else h.

Definition ph_promo (p : Position) (m : Mv) (h : N) : N :=
  let t := turn p in
  let to := maybe_flip (m_to m) t in
  if negb (m_promo m =? NOPIECE) then N.lxor (N.lxor h (key t PAWN to)) (key t (m_promo m) to) else h.

Definition ph_rights (p : Position) (m : Mv) (h : N) : N :=
  let t := turn p in
  let piece := mv_piece p m in
  let h := xor_if (us_ksc p && (m_from m =? sq_of (cf0 p) 0)) (castle_key t false) h in
  let h := xor_if (us_qsc p && (m_from m =? sq_of (cf1 p) 0)) (castle_key t true) h in
  let h := xor_if (us_ksc p && (piece =? KING)) (castle_key t false) h in
  let h := xor_if (us_qsc p && (piece =? KING)) (castle_key t true) h in
  let h := xor_if (them_ksc p && (m_to m =? sq_of (cf2 p) 7)) (castle_key (negb t) false) h in
  xor_if (them_qsc p && (m_to m =? sq_of (cf3 p) 7)) (castle_key (negb t) true) h.

Theorem predict_stages p m :
  predict_hash p m = N.lxor (ph_rights p m (ph_promo p m (ph_castle p m (ph_squares p m)))) KEYS_TURN.
Proof. reflexivity. Qed.

(* ------------------------------------------------------------------ predicted key = recomputed key, non-castling moves *)
Section PredictNC.
Variables (u : bool) (p0 : Position) (m : Mv) (k : N).
Hypothesis S : sane p0 m k.
Hypothesis Hdis : colours_disjoint p0.
Hypothesis Hku : popcount (N.land (c_us p0) (kings p0)) = 1.
Hypothesis HB : BB8 p0.
Hypothesis HW : WF p0.
Hypothesis Hepl : forall e, ep p0 = Some e -> e < 64.
(* castling rights are backed by a rook of the right colour on the square they refer to *)
Hypothesis Hbk : us_ksc p0 = true -> holds p0 (sq_of (cf0 p0) 0) false ROOK.
Hypothesis Hbq : us_qsc p0 = true -> holds p0 (sq_of (cf1 p0) 0) false ROOK.
Hypothesis Htk : them_ksc p0 = true -> tb p0 (sq_of (cf2 p0) 7) = true.
Hypothesis Htq : them_qsc p0 = true -> tb p0 (sq_of (cf3 p0) 7) = true.
Hypothesis Hpawn : k = PAWN -> rank_of (m_to m) = rank_of (m_from m) + 1 \/ m_to m = m_from m + 16.
Let from := m_from m.
Let to := m_to m.
Let t := turn p0.

Lemma target_not_ours : ub p0 to = false.
Proof.
  destruct (sn_target _ _ _ S) as [(Hu & _) | (c & _ & Hu & _)]; exact Hu.
Qed.

Lemma to_ne_own_rook flag cf : (flag = true -> holds p0 (sq_of cf 0) false ROOK) -> flag && (to =? sq_of cf 0) = false.
Proof.
  intros H. destruct flag; [|reflexivity]. cbn [andb]. apply N.eqb_neq. intros E.
  destruct (H eq_refl) as (_ & Hu & _). rewrite <- E, target_not_ours in Hu. discriminate.
Qed.

Lemma rook_not_king flag cf : (flag = true -> holds p0 (sq_of cf 0) false ROOK) ->
  flag && (from =? sq_of cf 0) && (k =? KING) = false.
Proof.
  intros H. destruct flag; [|reflexivity]. cbn [andb].
  destruct (N.eqb_spec from (sq_of cf 0)) as [E|]; [|reflexivity]. cbn [andb].
  destruct (H eq_refl) as (_ & _ & _ & Hp). destruct (sn_mover _ _ _ S) as (Hk & _ & _ & Hq).
  fold from in Hq. rewrite <- E in Hp. specialize (Hp k Hk). rewrite (Hq k Hk), N.eqb_refl in Hp.
  apply N.eqb_neq. intros Ek. rewrite Ek in Hp. discriminate.
Qed.

Lemma keeps_us flag cf : (flag = true -> holds p0 (sq_of cf 0) false ROOK) ->
  keeps_right flag from to (lsb (N.land (c_us p0) (kings p0))) (sq_of cf 0)
  = flag && negb (k =? KING) && negb (from =? sq_of cf 0).
Proof.
  intros H. unfold keeps_right, from, to.
  rewrite (from_is_king0 p0 m k (sn_from _ _ _ S) (sn_to _ _ _ S) (sn_mover _ _ _ S) Hku). fold from to.
  pose proof (to_ne_own_rook flag cf H) as Ht.
  destruct flag; [|reflexivity]. cbn [andb] in *. rewrite Ht. cbn [negb]. rewrite andb_true_r. reflexivity.
Qed.

Lemma keeps_them flag cf : (flag = true -> tb p0 (sq_of cf 7) = true) ->
  keeps_right flag from to (lsb (N.land (c_them p0) (kings p0))) (sq_of cf 7) = flag && negb (to =? sq_of cf 7).
Proof.
  intros H. unfold keeps_right, from, to.
  rewrite (from_not_their_king0 p0 m k (sn_from _ _ _ S) (sn_to _ _ _ S) (sn_mover _ _ _ S) Hku). fold from to.
  destruct flag; [|reflexivity]. cbn [andb negb].
  replace (from =? sq_of cf 7) with false; [reflexivity|].
  symmetry. apply N.eqb_neq. intros E. pose proof (H eq_refl) as Hb. rewrite <- E in Hb.
  destruct (sn_mover _ _ _ S) as (_ & _ & Ht & _). fold from in Ht. rewrite Ht in Hb. discriminate.
Qed.

Let R := makemove u p0 m.
Let Q := mv_boards u p0 m.
Let af := rel_sq p0 from.
Let at' := rel_sq p0 to.

Lemma BB8_R : BB8 R.
Proof. unfold R. rewrite makemove_stages. apply BB8_flip. Qed.
Lemma WF_R : WF R.
Proof. exact (WF_makemove u p0 m k S HW). Qed.

(* the recomputed key of the result, spelled out *)
Lemma calc_R :
  calculate_hash R =
  xor_if (negb t) KEYS_TURN
   (xor_if (keeps_right (us_qsc p0) from to (lsb (N.land (c_us p0) (kings p0))) (sq_of (cf1 p0) 0)) (castle_key t true)
    (xor_if (keeps_right (us_ksc p0) from to (lsb (N.land (c_us p0) (kings p0))) (sq_of (cf0 p0) 0)) (castle_key t false)
     (xor_if (keeps_right (them_qsc p0) from to (lsb (N.land (c_them p0) (kings p0))) (sq_of (cf3 p0) 7)) (castle_key (negb t) true)
      (xor_if (keeps_right (them_ksc p0) from to (lsb (N.land (c_them p0) (kings p0))) (sq_of (cf2 p0) 7)) (castle_key (negb t) false)
       (match mv_new_ep p0 m with Some s => N.lxor (bsum (board_of Q) 0) (ep_key (flip_sq s)) | None => bsum (board_of Q) 0 end))))).
Proof.
  pose proof (pieces_key R BB8_R WF_R) as HP. cbv zeta in HP.
  unfold calculate_hash. cbv zeta. rewrite HP. clear HP.
  destruct (R_fields u p0 m) as (F1 & F2 & F3 & F4 & F5 & F6). fold R from to in F1, F2, F3, F4, F5, F6.
  rewrite F1, F2, F3, F4, F5, F6. fold t. rewrite negb_involutive.
  unfold R. rewrite (board_makemove u p0 m k S Hdis). fold Q.
  destruct (mv_new_ep p0 m); reflexivity.
Qed.

Lemma calc_p0 :
  calculate_hash p0 =
  xor_if t KEYS_TURN
   (xor_if (them_qsc p0) (castle_key (negb t) true)
    (xor_if (them_ksc p0) (castle_key (negb t) false)
     (xor_if (us_qsc p0) (castle_key t true)
      (xor_if (us_ksc p0) (castle_key t false)
       (match ep p0 with Some e => N.lxor (bsum (board_of p0) 0) (ep_key e) | None => bsum (board_of p0) 0 end))))).
Proof.
  pose proof (pieces_key p0 HB HW) as HP. cbv zeta in HP.
  unfold calculate_hash. cbv zeta. rewrite HP. reflexivity.
Qed.

Hypothesis Hh : hash p0 = calculate_hash p0.

Lemma no_castle_key h : ph_castle p0 m h = h.
Proof.
  unfold ph_castle. cbv zeta. rewrite (sane_piece p0 m k S).
  pose proof (to_ne_own_rook (us_ksc p0) (cf0 p0) Hbk) as H1. pose proof (to_ne_own_rook (us_qsc p0) (cf1 p0) Hbq) as H2.
  fold to. rewrite <- !andb_assoc, H1, H2, !andb_false_r. reflexivity.
Qed.

Definition ep_old (p : Position) : N := match ep p with Some e => ep_key e | None => 0 end.

Lemma ph_squares_form :
  ph_squares p0 m =
  N.lxor (N.lxor (N.lxor (N.lxor (N.lxor (N.lxor (hash p0) (key t k af)) (key t k at'))
                                 (if tb p0 to then key (negb t) (mv_cap p0 m) at' else 0))
                         (ep_old p0))
                 (if mv_is_ep p0 m then key (negb t) PAWN (rel_sq p0 (to - 8)) else 0))
         (if (k =? PAWN) && (to - from =? 16) then ep_key to else 0).
Proof.
  unfold ph_squares. cbv zeta. rewrite (sane_piece p0 m k S). rewrite !xor_if_alt. unfold ep_old.
  destruct (ep p0); [reflexivity|]. rewrite N.lxor_0_r. reflexivity.
Qed.

Lemma ph_promo_form h :
  ph_promo p0 m h = N.lxor h (if negb (m_promo m =? NOPIECE) then N.lxor (key t PAWN at') (key t (m_promo m) at') else 0).
Proof.
  unfold ph_promo. cbv zeta. destruct (negb (m_promo m =? NOPIECE)); [|rewrite N.lxor_0_r; reflexivity].
  rewrite N.lxor_assoc. reflexivity.
Qed.

(* the square the pawn lands on and what lands there *)
Lemma landing : N.lxor (key t k at') (if negb (m_promo m =? NOPIECE) then N.lxor (key t PAWN at') (key t (m_promo m) at') else 0)
                = landed_key p0 m k.
Proof.
  unfold landed_key, landed. fold t to at'.
  destruct (sn_promo _ _ _ S) as [E|[Ek E]].
  - rewrite E. cbn [N.eqb NOPIECE Pos.eqb negb]. apply N.lxor_0_r.
  - assert (En : (m_promo m =? NOPIECE) = false) by (apply N.eqb_neq; unfold NOPIECE; lia).
    rewrite En. cbn [negb]. rewrite Ek. rewrite <- N.lxor_assoc, N.lxor_nilpotent, N.lxor_0_l. reflexivity.
Qed.

Lemma new_ep_key :
  match mv_new_ep p0 m with Some s => ep_key (flip_sq s) | None => 0 end
  = if (k =? PAWN) && (to - from =? 16) then ep_key to else 0.
Proof.
  unfold mv_new_ep. rewrite (sane_piece p0 m k S). fold from to.
  destruct ((k =? PAWN) && (to - from =? 16)) eqn:E; [|reflexivity].
  apply andb_true_iff in E. destruct E as [_ E]. apply N.eqb_eq in E.
  pose proof (sn_to _ _ _ S) as Ht. fold to in Ht.
  unfold ep_key. rewrite file_flip by lia. unfold file_of.
  replace to with (to - 8 + 1 * 8) at 2 by lia. rewrite N.mod_add by lia. reflexivity.
Qed.

Lemma rook_sq_form flag cf : (flag = true -> holds p0 (sq_of cf 0) false ROOK) ->
  flag && (from =? sq_of cf 0) = flag && (from =? sq_of cf 0) && negb (k =? KING).
Proof.
  intros H. pose proof (rook_not_king flag cf H) as X.
  destruct flag, (from =? sq_of cf 0), (k =? KING); try reflexivity; discriminate X.
Qed.

Theorem predict_noncastling : predict_hash p0 m = calculate_hash R.
Proof.
  rewrite predict_stages, no_castle_key, ph_promo_form, ph_squares_form.
  rewrite calc_R. unfold Q. rewrite (board_sum_after u p0 m k S). fold from to t af at'.
  rewrite <- landing.
  replace (match mv_new_ep p0 m with
           | Some s => N.lxor (N.lxor (N.lxor (N.lxor (N.lxor (bsum (board_of p0) 0) (key t k af))
                         (if mv_is_ep p0 m then key (negb t) PAWN (rel_sq p0 (to - 8)) else 0))
                         (if tb p0 to then key (negb t) (mv_cap p0 m) at' else 0))
                         (N.lxor (key t k at') (if negb (m_promo m =? NOPIECE) then N.lxor (key t PAWN at') (key t (m_promo m) at') else 0)))
                       (ep_key (flip_sq s))
           | None => N.lxor (N.lxor (N.lxor (N.lxor (bsum (board_of p0) 0) (key t k af))
                         (if mv_is_ep p0 m then key (negb t) PAWN (rel_sq p0 (to - 8)) else 0))
                         (if tb p0 to then key (negb t) (mv_cap p0 m) at' else 0))
                         (N.lxor (key t k at') (if negb (m_promo m =? NOPIECE) then N.lxor (key t PAWN at') (key t (m_promo m) at') else 0))
           end)
    with (N.lxor (N.lxor (N.lxor (N.lxor (N.lxor (bsum (board_of p0) 0) (key t k af))
                         (if mv_is_ep p0 m then key (negb t) PAWN (rel_sq p0 (to - 8)) else 0))
                         (if tb p0 to then key (negb t) (mv_cap p0 m) at' else 0))
                         (N.lxor (key t k at') (if negb (m_promo m =? NOPIECE) then N.lxor (key t PAWN at') (key t (m_promo m) at') else 0)))
                 (if (k =? PAWN) && (to - from =? 16) then ep_key to else 0))
    by (rewrite <- new_ep_key; destruct (mv_new_ep p0 m); [reflexivity|rewrite N.lxor_0_r; reflexivity]).
  rewrite (keeps_us (us_ksc p0) (cf0 p0) Hbk), (keeps_us (us_qsc p0) (cf1 p0) Hbq).
  rewrite (keeps_them (them_ksc p0) (cf2 p0) Htk), (keeps_them (them_qsc p0) (cf3 p0) Htq).
  unfold ph_rights. cbv zeta. rewrite (sane_piece p0 m k S). fold from to t.
  rewrite (rook_sq_form (us_ksc p0) (cf0 p0) Hbk), (rook_sq_form (us_qsc p0) (cf1 p0) Hbq).
  rewrite Hh, calc_p0. fold (ep_old p0).
  replace (match ep p0 with Some e => N.lxor (bsum (board_of p0) 0) (ep_key e) | None => bsum (board_of p0) 0 end)
    with (N.lxor (bsum (board_of p0) 0) (ep_old p0)) by (unfold ep_old; destruct (ep p0); [reflexivity|apply N.lxor_0_r]).
  apply N.bits_inj. intros i.
  rewrite ?N.lxor_spec, ?testbit_xor_if, ?testbit_if, ?N.lxor_spec, ?testbit_xor_if, ?testbit_if, ?N.lxor_spec.
  btauto.
Qed.
End PredictNC.

(* ------------------------------------------------------------------ castling *)
Section CastleSum.
Variables (u : bool) (p0 : Position) (m : Mv) (kside : bool).
Hypothesis S : csane p0 m kside.
Let from := m_from m.
Let to := m_to m.
Let t := turn p0.
Let kt := c_kt kside.
Let rt := c_rt kside.
Let Q := mv_boards u p0 m.
Let af := rel_sq p0 from.
Let at' := rel_sq p0 to.
Let akt := rel_sq p0 kt.
Let art := rel_sq p0 rt.
Let g0 := fun a => mkey (man_at p0 a) a.

Lemma c_af_lt : af < 64. Proof. apply rel_sq_lt. exact (cs_from64 p0 m kside S). Qed.
Lemma c_at_lt : at' < 64. Proof. apply rel_sq_lt. exact (cs_to64 p0 m kside S). Qed.
Lemma c_akt_lt : akt < 64. Proof. apply rel_sq_lt. exact (kt64 p0 m kside S). Qed.
Lemma c_art_lt : art < 64. Proof. apply rel_sq_lt. exact (rt64 p0 m kside S). Qed.

Lemma cg0_from : g0 af = key t KING af.
Proof.
  unfold g0. rewrite (man_at_holds p0 af false KING).
  - unfold mkey. rewrite xorb_false_r, is_black_turn. reflexivity.
  - unfold af. rewrite rel_sq_invol. exact (cs_king _ _ _ S).
Qed.
Lemma cg0_to : g0 at' = key t ROOK at'.
Proof.
  unfold g0. rewrite (man_at_holds p0 at' false ROOK).
  - unfold mkey. rewrite xorb_false_r, is_black_turn. reflexivity.
  - unfold at'. rewrite rel_sq_invol. exact (cs_rook _ _ _ S).
Qed.

Lemma cg0_empty x : empty_at p0 x -> g0 (rel_sq p0 x) = 0.
Proof. intros H. unfold g0. rewrite (man_at_empty p0 (rel_sq p0 x)); [reflexivity|]. rewrite rel_sq_invol. exact H. Qed.

Lemma cQ_men a : a < 64 ->
  mkey (man_at Q a) a = updf (updf (updf (updf g0 af 0) at' 0) akt (key t KING akt)) art (key t ROOK art) a.
Proof.
  intros Ha. unfold updf.
  destruct (N.eqb_spec a art) as [->|N4].
  { unfold Q, art, rt. rewrite (cman_rt u p0 m kside S). unfold mkey. rewrite is_black_turn. reflexivity. }
  destruct (N.eqb_spec a akt) as [->|N3].
  { unfold Q, akt, kt. rewrite (cman_kt u p0 m kside S). unfold mkey. rewrite is_black_turn. reflexivity. }
  destruct (N.eqb_spec a at') as [->|N2].
  { unfold Q. rewrite (cman_vacated u p0 m kside S); [reflexivity|right; reflexivity|exact N3|exact N4]. }
  destruct (N.eqb_spec a af) as [->|N1].
  { unfold Q. rewrite (cman_vacated u p0 m kside S); [reflexivity|left; reflexivity|exact N3|exact N4]. }
  unfold Q. rewrite (cman_other u p0 m kside S a N1 N2 N3 N4). reflexivity.
Qed.

Lemma rel_eq x y : rel_sq p0 x = rel_sq p0 y -> x = y.
Proof. apply rel_sq_inj. Qed.

(* what the updated sum reads on the king's and the rook's target before they are filled: nothing *)
Lemma vacated_or_empty x : (x = from \/ x = to \/ empty_at p0 x) ->
  updf (updf g0 af 0) at' 0 (rel_sq p0 x) = 0.
Proof.
  intros H. unfold updf.
  destruct (N.eqb_spec (rel_sq p0 x) at') as [|N2]; [reflexivity|].
  destruct (N.eqb_spec (rel_sq p0 x) af) as [|N1]; [reflexivity|].
  destruct H as [E|[E|E]].
  - exfalso. apply N1. unfold af. rewrite E. reflexivity.
  - exfalso. apply N2. unfold at'. rewrite E. reflexivity.
  - apply cg0_empty. exact E.
Qed.

Theorem cboard_sum_after :
  bsum (board_of Q) 0 =
  N.lxor (N.lxor (N.lxor (N.lxor (bsum (board_of p0) 0) (key t KING af)) (key t ROOK at')) (key t KING akt)) (key t ROOK art).
Proof.
  rewrite !bsum_board_of. fold g0.
  rewrite (XA_ext _ _ cQ_men).
  rewrite XA_updf by exact c_art_lt. rewrite XA_updf by exact c_akt_lt.
  rewrite XA_updf by exact c_at_lt. rewrite XA_updf by exact c_af_lt.
  (* the old contents read at each step *)
  assert (E1 : updf g0 af 0 at' = key t ROOK at').
  { unfold updf. replace (at' =? af) with false; [exact cg0_to|].
    symmetry. apply N.eqb_neq. intros E. apply (cs_ne _ _ _ S). symmetry. exact (rel_eq _ _ E). }
  assert (E2 : updf (updf g0 af 0) at' 0 akt = 0) by (apply vacated_or_empty; exact (cs_kt _ _ _ S)).
  assert (E3 : updf (updf (updf g0 af 0) at' 0) akt (key t KING akt) art = 0).
  { unfold updf at 1. replace (art =? akt) with false.
    - apply vacated_or_empty. exact (cs_rt _ _ _ S).
    - symmetry. apply N.eqb_neq. intros E. apply (kt_ne_rt p0 m kside S). symmetry. exact (rel_eq _ _ E). }
  rewrite E1, E2, E3, cg0_from, !N.lxor_0_r. reflexivity.
Qed.
End CastleSum.

Lemma calc_result u p0 m :
  WF (makemove u p0 m) -> board_of (makemove u p0 m) = board_of (mv_boards u p0 m) ->
  calculate_hash (makemove u p0 m) =
  xor_if (negb (turn p0)) KEYS_TURN
   (xor_if (keeps_right (us_qsc p0) (m_from m) (m_to m) (lsb (N.land (c_us p0) (kings p0))) (sq_of (cf1 p0) 0)) (castle_key (turn p0) true)
    (xor_if (keeps_right (us_ksc p0) (m_from m) (m_to m) (lsb (N.land (c_us p0) (kings p0))) (sq_of (cf0 p0) 0)) (castle_key (turn p0) false)
     (xor_if (keeps_right (them_qsc p0) (m_from m) (m_to m) (lsb (N.land (c_them p0) (kings p0))) (sq_of (cf3 p0) 7)) (castle_key (negb (turn p0)) true)
      (xor_if (keeps_right (them_ksc p0) (m_from m) (m_to m) (lsb (N.land (c_them p0) (kings p0))) (sq_of (cf2 p0) 7)) (castle_key (negb (turn p0)) false)
       (match mv_new_ep p0 m with Some s => N.lxor (bsum (board_of (mv_boards u p0 m)) 0) (ep_key (flip_sq s))
                                | None => bsum (board_of (mv_boards u p0 m)) 0 end))))).
Proof.
  intros HWR Hb.
  assert (HBR : BB8 (makemove u p0 m)) by (rewrite makemove_stages; apply BB8_flip).
  pose proof (pieces_key (makemove u p0 m) HBR HWR) as HP. cbv zeta in HP.
  unfold calculate_hash. cbv zeta. rewrite HP. clear HP.
  destruct (R_fields u p0 m) as (F1 & F2 & F3 & F4 & F5 & F6).
  rewrite F1, F2, F3, F4, F5, F6. rewrite negb_involutive. rewrite Hb.
  destruct (mv_new_ep p0 m); reflexivity.
Qed.

Section PredictCastle.
Variables (u : bool) (p0 : Position) (m : Mv) (kside : bool).
Hypothesis S : csane p0 m kside.
Hypothesis Hdis : colours_disjoint p0.
Hypothesis Hku : popcount (N.land (c_us p0) (kings p0)) = 1.
Hypothesis HB : BB8 p0.
Hypothesis HW : WF p0.
Hypothesis Hbk : us_ksc p0 = true -> holds p0 (sq_of (cf0 p0) 0) false ROOK.
Hypothesis Hbq : us_qsc p0 = true -> holds p0 (sq_of (cf1 p0) 0) false ROOK.
(* the right used is held; the king stands between the two rooks the rights refer to *)
Hypothesis Hflag : (if kside then us_ksc p0 else us_qsc p0) = true.
Hypothesis Hgk : us_ksc p0 = true -> m_from m < sq_of (cf0 p0) 0.
Hypothesis Hgq : us_qsc p0 = true -> sq_of (cf1 p0) 0 < m_from m.
Hypothesis Hh : hash p0 = calculate_hash p0.
Let from := m_from m.
Let to := m_to m.
Let t := turn p0.

Lemma cWF_boards : WF (mv_boards u p0 m).
Proof.
  intros s Hs.
  destruct (N.eq_dec s (c_rt kside)) as [->|N4]; [right; eexists; eexists; exact (castle_rook_target u p0 m kside S)|].
  destruct (N.eq_dec s (c_kt kside)) as [->|N3]; [right; eexists; eexists; exact (castle_king_target u p0 m kside S)|].
  destruct (N.eq_dec s (m_from m)) as [->|N1]; [left; apply (castle_vacated u p0 m kside S); [left; reflexivity|exact N3|exact N4]|].
  destruct (N.eq_dec s (m_to m)) as [->|N2]; [left; apply (castle_vacated u p0 m kside S); [right; reflexivity|exact N3|exact N4]|].
  apply (wf_same p0); [exact (castle_other u p0 m kside S s N1 N2 N3 N4)|exact (HW s Hs)].
Qed.

Lemma cWF_makemove : WF (makemove u p0 m).
Proof. rewrite makemove_stages. apply WF_flip, WF_clocks, cWF_boards. Qed.

Lemma c_piece : mv_piece p0 m = KING. Proof. exact (cs_piece p0 m kside S). Qed.

Lemma c_to_is : to = sq_of (if kside then cf0 p0 else cf1 p0) 0. Proof. exact (cs_rsq _ _ _ S). Qed.

(* the castling stage of predict_hash picks the wing being castled to *)
Lemma castle_stage h :
  ph_castle p0 m h =
  N.lxor (N.lxor (N.lxor (N.lxor (N.lxor (N.lxor h (key t KING (rel_sq p0 from))) (key t KING (rel_sq p0 to))) (key t KING (rel_sq p0 from)))
                         (key t KING (rel_sq p0 (c_kt kside)))) (key t ROOK (rel_sq p0 to))) (key t ROOK (rel_sq p0 (c_rt kside))).
Proof.
  unfold ph_castle. cbv zeta. rewrite c_piece. cbn [N.eqb KING Pos.eqb andb]. fold to t.
  pose proof c_to_is as Ht. pose proof (cs_side _ _ _ S) as Hs. fold from to in Hs.
  destruct kside.
  - rewrite Hflag. cbn [andb]. rewrite <- Ht, N.eqb_refl. reflexivity.
  - (* queen side: the king-side test must fail *)
    assert (H1 : us_ksc p0 && (to =? sq_of (cf0 p0) 0) = false).
    { destruct (us_ksc p0) eqn:Ek; [|reflexivity]. cbn [andb]. apply N.eqb_neq. intros E.
      pose proof (Hgk eq_refl) as G. fold from in G. rewrite <- E in G.
      symmetry in Hs. apply N.ltb_ge in Hs. lia. }
    rewrite H1. rewrite Hflag. cbn [andb]. rewrite <- Ht, N.eqb_refl. reflexivity.
Qed.

Lemma c_from8 : from < 8. Proof. exact (cs_from _ _ _ S). Qed.
Lemma c_to8 : to < 8. Proof. exact (cs_to _ _ _ S). Qed.

Lemma c_squares_form :
  ph_squares p0 m = N.lxor (N.lxor (N.lxor (hash p0) (key t KING (rel_sq p0 from))) (key t KING (rel_sq p0 to))) (ep_old p0).
Proof.
  unfold ph_squares. cbv zeta. rewrite c_piece, (cs_not_ep p0 m kside S).
  change (is_set (c_them p0) (m_to m)) with (tb p0 (m_to m)).
  rewrite (proj1 (proj2 (proj2 (cs_rook _ _ _ S)))). cbn [N.eqb KING PAWN Pos.eqb andb xor_if].
  unfold ep_old. destruct (ep p0); [reflexivity|rewrite N.lxor_0_r; reflexivity].
Qed.

Lemma c_promo_id h : ph_promo p0 m h = h.
Proof. unfold ph_promo. rewrite (cs_promo _ _ _ S). reflexivity. Qed.

Lemma c_rights_form h :
  ph_rights p0 m h = xor_if (us_qsc p0) (castle_key t true) (xor_if (us_ksc p0) (castle_key t false) h).
Proof.
  unfold ph_rights. cbv zeta. rewrite c_piece. cbn [N.eqb KING Pos.eqb]. rewrite !andb_true_r. fold from to t.
  assert (H1 : us_ksc p0 && (from =? sq_of (cf0 p0) 0) = false).
  { destruct (us_ksc p0) eqn:E; [|reflexivity]. cbn [andb]. apply N.eqb_neq. pose proof (Hgk eq_refl). unfold from. lia. }
  assert (H2 : us_qsc p0 && (from =? sq_of (cf1 p0) 0) = false).
  { destruct (us_qsc p0) eqn:E; [|reflexivity]. cbn [andb]. apply N.eqb_neq. pose proof (Hgq eq_refl). unfold from. lia. }
  assert (H3 : forall cf, (to =? sq_of cf 7) = false).
  { intros cf. apply N.eqb_neq. pose proof c_to8. unfold sq_of. lia. }
  rewrite H1, H2, !H3, !andb_false_r. cbn [xor_if]. reflexivity.
Qed.

Lemma c_keeps_us flag sq : keeps_right flag from to (lsb (N.land (c_us p0) (kings p0))) sq = false.
Proof.
  unfold keeps_right, from, to.
  rewrite (from_is_king0 p0 m KING (cs_from64 p0 m kside S) (cs_to64 p0 m kside S) (cs_king _ _ _ S) Hku).
  cbn [N.eqb KING Pos.eqb negb]. rewrite andb_false_r. reflexivity.
Qed.

Lemma c_keeps_them flag cf : keeps_right flag from to (lsb (N.land (c_them p0) (kings p0))) (sq_of cf 7) = flag.
Proof.
  unfold keeps_right, from, to.
  rewrite (from_not_their_king0 p0 m KING (cs_from64 p0 m kside S) (cs_to64 p0 m kside S) (cs_king _ _ _ S) Hku).
  pose proof c_from8. pose proof c_to8. unfold from, to in *.
  replace (m_from m =? sq_of cf 7) with false by (symmetry; apply N.eqb_neq; unfold sq_of; lia).
  replace (m_to m =? sq_of cf 7) with false by (symmetry; apply N.eqb_neq; unfold sq_of; lia).
  cbn [negb]. rewrite !andb_true_r. reflexivity.
Qed.

Lemma c_no_new_ep : mv_new_ep p0 m = None.
Proof. unfold mv_new_ep. rewrite c_piece. reflexivity. Qed.

Theorem predict_castling : predict_hash p0 m = calculate_hash (makemove u p0 m).
Proof.
  rewrite predict_stages, c_rights_form, c_promo_id, castle_stage, c_squares_form.
  rewrite (calc_result u p0 m cWF_makemove (cboard_makemove u p0 m kside S Hdis)).
  fold from to t. rewrite !c_keeps_us, !c_keeps_them, c_no_new_ep.
  rewrite (cboard_sum_after u p0 m kside S). fold from to t.
  rewrite Hh, (calc_p0 p0 HB HW). fold t. fold (ep_old p0).
  replace (match ep p0 with Some e => N.lxor (bsum (board_of p0) 0) (ep_key e) | None => bsum (board_of p0) 0 end)
    with (N.lxor (bsum (board_of p0) 0) (ep_old p0)) by (unfold ep_old; destruct (ep p0); [reflexivity|apply N.lxor_0_r]).
  apply N.bits_inj. intros i.
  rewrite ?N.lxor_spec, ?testbit_xor_if, ?N.lxor_spec, ?testbit_xor_if, ?N.lxor_spec. cbn [andb]. rewrite ?xorb_false_r.
  btauto.
Qed.
End PredictCastle.

(* ------------------------------------------------------------------ makemove stores the predicted key *)
Lemma hash_xor_piece p i bb : hash (xor_piece p i bb) = hash p.
Proof. unfold xor_piece, set_piece. destruct i as [|[[[]|[]|]|[[]|[]|]|]]; reflexivity. Qed.
Lemma hash_castle_fix p a b c d e : hash (castle_fix p a b c d e) = hash p.
Proof. unfold castle_fix. cbv zeta. rewrite !hash_xor_piece. reflexivity. Qed.

Lemma hash_st_move p ft k : hash (st_move p ft k) = hash p.
Proof. unfold st_move. rewrite hash_xor_piece. reflexivity. Qed.
Lemma hash_st_capture p to c : hash (st_capture p to c) = hash p.
Proof. unfold st_capture. destruct (is_set (c_them p) to); [rewrite hash_xor_piece|]; reflexivity. Qed.
Lemma hash_st_ep p b vic : hash (st_ep p b vic) = hash p.
Proof. unfold st_ep. destruct b; [rewrite hash_xor_piece|]; reflexivity. Qed.
Lemma hash_st_castle p p0 from to : hash (st_castle p p0 from to) = hash p.
Proof.
  unfold st_castle.
  destruct (is_occ (N.land (kings p) (rooks p)) && (from <? to)); [apply hash_castle_fix|].
  destruct (is_occ (N.land (kings p) (rooks p)) && (to <? from)); [apply hash_castle_fix|reflexivity].
Qed.
Lemma hash_st_promo p promo bb : hash (st_promo p promo bb) = hash p.
Proof. unfold st_promo. destruct (negb (promo =? NOPIECE)); [rewrite !hash_xor_piece|]; reflexivity. Qed.

Lemma hash_boards u p0 m : hash (mv_boards u p0 m) = hash (mv_start u p0 m).
Proof.
  unfold mv_boards. cbv zeta.
  rewrite hash_st_promo, hash_st_castle, hash_st_ep, hash_st_capture, hash_st_move. reflexivity.
Qed.

Theorem makemove_stores_prediction p0 m : hash (makemove true p0 m) = predict_hash p0 m.
Proof. rewrite makemove_stages. cbn [hash flip set_clocks_ep_rights]. rewrite hash_boards. reflexivity. Qed.

(* ------------------------------------------------------------------ under the executable premises *)
Lemma wf_b_sound p s : wf_b p s = true -> wf_sq p s.
Proof.
  unfold wf_b. intros H. apply orb_true_iff in H. destruct H as [H|H]; [left; apply empty_b_sound; exact H|right].
  apply existsb_exists in H. destruct H as (k & _ & H). apply orb_true_iff in H.
  destruct H as [H|H]; [exists false, k|exists true, k]; apply holds_b_sound; exact H.
Qed.

Lemma WF_sound p : forallb (wf_b p) sq64_list = true -> WF p.
Proof.
  intros H s Hs. rewrite forallb_forall in H. apply wf_b_sound, H.
  unfold sq64_list. apply in_map_iff. exists (N.to_nat s). split; [apply N2Nat.id|]. apply in_seq. lia.
Qed.

Lemma bb8_sound p : bb8_b p = true -> BB8 p.
Proof.
  unfold bb8_b, BB8. intros H.
  repeat match type of H with (_ && _) = true => let H' := fresh "P" in apply andb_true_iff in H; destruct H as [H H'] end.
  repeat match goal with X : (_ <? _) = true |- _ => apply N.ltb_lt in X end.
  repeat split; assumption.
Qed.

Lemma implb_sound (a b : bool) (P : Prop) : (b = true -> P) -> implb' a b = true -> a = true -> P.
Proof. intros HP H Ha. rewrite Ha in H. cbn in H. apply HP. exact H. Qed.

Theorem predict_correct u p m : key_move_b p m = true -> predict_hash p m = calculate_hash (makemove u p m).
Proof.
  unfold key_move_b, key_pos_b. intros H.
  apply andb_true_iff in H. destruct H as [H Hm].
  repeat match type of H with (_ && _) = true => let H' := fresh "P" in apply andb_true_iff in H; destruct H as [H H'] end.
  pose proof (bb8_sound p H) as HB. pose proof (WF_sound p P5) as HW.
  assert (Hepl : forall e, ep p = Some e -> e < 64) by (intros e E; rewrite E in P4; apply N.ltb_lt; exact P4).
  pose proof (implb_sound _ _ _ (holds_b_sound p _ false ROOK) P3) as Hbk.
  pose proof (implb_sound _ _ _ (holds_b_sound p _ false ROOK) P2) as Hbq.
  pose proof (implb_sound _ _ _ (fun x => x) P1) as Htk.
  pose proof (implb_sound _ _ _ (fun x => x) P0) as Htq.
  apply N.eqb_eq in P.
  apply orb_true_iff in Hm. destruct Hm as [Hm|Hm].
  - (* non-castling: unpack premises_b as in makemove_refines_premises *)
    unfold premises_b in Hm. cbv zeta in Hm. destruct (piece_on p (m_from m)) as [k|] eqn:Ek; [|discriminate].
    repeat match type of Hm with (_ && _) = true => let H' := fresh "Q" in apply andb_true_iff in Hm; destruct Hm as [Hm H'] end.
    repeat match goal with
    | X : (_ <? _) = true |- _ => apply N.ltb_lt in X
    | X : (_ <=? _) = true |- _ => apply N.leb_le in X
    | X : negb (_ =? _) = true |- _ => apply negb_true_iff, N.eqb_neq in X
    | X : (_ =? _) = true |- _ => apply N.eqb_eq in X
    | X : holds_b _ _ _ _ = true |- _ => apply holds_b_sound in X
    end.
    assert (Htarget : empty_at p (m_to m) \/ exists c, holds p (m_to m) true c).
    { match goal with X : empty_b _ _ || _ = true |- _ => apply orb_true_iff in X; destruct X as [E|E] end;
      [left; apply empty_b_sound; exact E|right].
      destruct (piece_on p (m_to m)) as [c|]; [|discriminate]. exists c. apply holds_b_sound. exact E. }
    assert (Hep : mv_is_ep p m = true -> ep p = Some (m_to m) /\ 8 <= m_to m /\ holds p (m_to m - 8) true PAWN).
    { intros Hb. match goal with X : negb (mv_is_ep _ _) || _ = true |- _ => rewrite Hb in X; cbn [negb orb] in X;
        apply andb_true_iff in X; destruct X as [X V]; apply andb_true_iff in X; destruct X as [E L] end.
      destruct (ep p) as [e|]; [|discriminate]. apply N.eqb_eq in E. apply N.leb_le in L. apply holds_b_sound in V.
      subst e. split; [reflexivity|split; assumption]. }
    assert (Hpromo : m_promo m = NOPIECE \/ (k = PAWN /\ 1 <= m_promo m <= 4)).
    { match goal with X : (m_promo m =? NOPIECE) || _ = true |- _ => apply orb_true_iff in X; destruct X as [E|E] end;
      [left; apply N.eqb_eq; exact E|right].
      apply andb_true_iff in E. destruct E as [E L2]. apply andb_true_iff in E. destruct E as [E L1].
      apply N.eqb_eq in E. apply N.leb_le in L1, L2. split; [exact E|split; assumption]. }
    assert (Hpw : k = PAWN -> rank_of (m_to m) = rank_of (m_from m) + 1 \/ m_to m = m_from m + 16).
    { intros Ek'. match goal with X : negb (k =? PAWN) || _ || _ = true |- _ => rewrite Ek', N.eqb_refl in X; cbn [negb orb] in X;
        apply orb_true_iff in X; destruct X as [E|E]; [left|right]; apply N.eqb_eq; exact E end. }
    assert (Ssane : sane p m k) by (constructor; assumption).
    apply (predict_noncastling u p m k Ssane); assumption.
  - (* castling *)
    repeat match type of Hm with (_ && _) = true => let H' := fresh "Q" in apply andb_true_iff in Hm; destruct Hm as [Hm H'] end.
    assert (Hgk : us_ksc p = true -> m_from m < sq_of (cf0 p) 0) by (intros E; rewrite E in Q0; apply N.ltb_lt; exact Q0).
    assert (Hgq : us_qsc p = true -> sq_of (cf1 p) 0 < m_from m) by (intros E; rewrite E in Q; apply N.ltb_lt; exact Q).
    unfold cpremises_b in Hm. cbv zeta in Hm.
    repeat match type of Hm with (_ && _) = true => let H' := fresh "C" in apply andb_true_iff in Hm; destruct Hm as [Hm H'] end.
    repeat match goal with
    | X : (_ <? _) = true |- _ => apply N.ltb_lt in X
    | X : (_ <=? _) = true |- _ => apply N.leb_le in X
    | X : negb (_ =? _) = true |- _ => apply negb_true_iff, N.eqb_neq in X
    | X : holds_b _ _ _ _ = true |- _ => apply holds_b_sound in X
    end.
    assert (Hkt : c_kt (m_from m <? m_to m) = m_from m \/ c_kt (m_from m <? m_to m) = m_to m \/ empty_at p (c_kt (m_from m <? m_to m))).
    { match goal with X : (c_kt _ =? _) || _ || _ = true |- _ => apply orb_true_iff in X; destruct X as [X|X];
        [apply orb_true_iff in X; destruct X as [X|X]; [left|right; left]; apply N.eqb_eq; exact X|right; right; apply empty_b_sound; exact X] end. }
    assert (Hrt : c_rt (m_from m <? m_to m) = m_from m \/ c_rt (m_from m <? m_to m) = m_to m \/ empty_at p (c_rt (m_from m <? m_to m))).
    { match goal with X : (c_rt _ =? _) || _ || _ = true |- _ => apply orb_true_iff in X; destruct X as [X|X];
        [apply orb_true_iff in X; destruct X as [X|X]; [left|right; left]; apply N.eqb_eq; exact X|right; right; apply empty_b_sound; exact X] end. }
    repeat match goal with X : (_ =? _) = true |- _ => apply N.eqb_eq in X end.
    assert (Scs : csane p m (m_from m <? m_to m)) by (constructor; try assumption; reflexivity).
    apply (predict_castling u p m (m_from m <? m_to m) Scs); assumption.
Qed.

(* the invariant "stored key = recomputed key" survives every move that passes the test *)
Theorem key_invariant_step p m :
  key_move_b p m = true -> hash (makemove true p m) = calculate_hash (makemove true p m).
Proof. intros H. rewrite makemove_stores_prediction. apply predict_correct. exact H. Qed.
