(* The rules' `attacked` is invariant under mirroring the board top to bottom while swapping the colours
   (spec-level fact, used to carry the attack theorem from the White-to-move frame to the Black-to-move frame). *)
From Coq Require Import ZArith List Bool Lia Btauto.
From Rawr Require Import Rules.
Import ListNotations.
Local Open Scope Z_scope.

Definition swapc (o : option man) : option man :=
  match o with Some (c, k) => Some (opp c, k) | None => None end.

(* b' is the mirror image of b *)
Definition mirrored (b b' : board) : Prop := forall f r, at_ b' f r = swapc (at_ b f (7 - r)).

Lemma onb_mirror f r : onb f (7 - r) = onb f r.
Proof. unfold onb. destruct (0 <=? f), (f <? 8); cbn [andb]; try reflexivity.
  destruct (Z.leb_spec 0 (7 - r)), (Z.ltb_spec (7 - r) 8), (Z.leb_spec 0 r), (Z.ltb_spec r 8); try reflexivity; lia. Qed.

Lemma is_man_swap c k o : is_man (opp c) k (swapc o) = is_man c k o.
Proof. destruct o as [[c' k']|]; [|reflexivity]. cbn [swapc is_man]. destruct c, c'; reflexivity. Qed.

Lemma first_on_ray_mirror b b' : mirrored b b' -> forall n f r df dr,
  first_on_ray n b' f (7 - r) df (- dr) = swapc (first_on_ray n b f r df dr).
Proof.
  intros Hm. induction n as [|n IH]; intros f r df dr; cbn [first_on_ray]; [reflexivity|]. cbv zeta.
  replace (7 - r + - dr) with (7 - (r + dr)) by lia. rewrite onb_mirror.
  destruct (onb (f + df) (r + dr)); [|reflexivity].
  rewrite Hm. replace (7 - (7 - (r + dr))) with (r + dr) by lia.
  destruct (at_ b (f + df) (r + dr)) as [[c k]|]; [reflexivity|]. cbn [swapc]. apply IH.
Qed.

Lemma existsb_perm8 (g : Z * Z -> bool) a1 a2 a3 a4 a5 a6 a7 a8 b1 b2 b3 b4 b5 b6 b7 b8 :
  g a1 = g b1 -> g a2 = g b2 -> g a3 = g b3 -> g a4 = g b4 -> g a5 = g b5 -> g a6 = g b6 -> g a7 = g b7 -> g a8 = g b8 ->
  existsb g [a1; a2; a3; a4; a5; a6; a7; a8] = existsb g [b1; b2; b3; b4; b5; b6; b7; b8].
Proof. intros. cbn [existsb]. congruence. Qed.

Theorem attacked_mirror b b' c f r : mirrored b b' -> attacked b' (opp c) f (7 - r) = attacked b c f r.
Proof.
  intros Hm. unfold attacked. cbv zeta.
  assert (L : forall k x y y', y' = 7 - y -> is_man (opp c) k (at_ b' x y') = is_man c k (at_ b x y))
    by (intros k x y y' ->; rewrite Hm; replace (7 - (7 - y)) with y by lia; apply is_man_swap).
  assert (R : forall k df dr dr', dr' = - dr -> is_man (opp c) k (first_on_ray 7 b' f (7 - r) df dr') = is_man c k (first_on_ray 7 b f r df dr))
    by (intros k df dr dr' ->; rewrite (first_on_ray_mirror b b' Hm); apply is_man_swap).
  assert (EK : existsb (fun d => is_man (opp c) Knight (at_ b' (f + fst d) (7 - r + snd d))) knight_d
             = existsb (fun d => is_man c Knight (at_ b (f + fst d) (r + snd d))) knight_d).
  { unfold knight_d. cbn [existsb fst snd].
    rewrite (L Knight (f + 1) (r + -2)), (L Knight (f + -1) (r + -2)), (L Knight (f + 2) (r + -1)), (L Knight (f + 2) (r + 1)),
            (L Knight (f + -2) (r + -1)), (L Knight (f + -2) (r + 1)), (L Knight (f + 1) (r + 2)), (L Knight (f + -1) (r + 2)) by lia.
    repeat match goal with |- context [is_man c ?k ?m] => generalize (is_man c k m); intro end. btauto. }
  assert (EG : existsb (fun d => is_man (opp c) King (at_ b' (f + fst d) (7 - r + snd d))) king_d
             = existsb (fun d => is_man c King (at_ b (f + fst d) (r + snd d))) king_d).
  { unfold king_d. cbn [existsb fst snd].
    rewrite (L King (f + 0) (r + -1)), (L King (f + -1) (r + -1)), (L King (f + 1) (r + -1)), (L King (f + -1) (r + 0)),
            (L King (f + 1) (r + 0)), (L King (f + 0) (r + 1)), (L King (f + -1) (r + 1)), (L King (f + 1) (r + 1)) by lia.
    repeat match goal with |- context [is_man c ?k ?m] => generalize (is_man c k m); intro end. btauto. }
  assert (ED : existsb (fun d => is_man (opp c) Bishop (first_on_ray 7 b' f (7 - r) (fst d) (snd d)) || is_man (opp c) Queen (first_on_ray 7 b' f (7 - r) (fst d) (snd d))) diag_d
             = existsb (fun d => is_man c Bishop (first_on_ray 7 b f r (fst d) (snd d)) || is_man c Queen (first_on_ray 7 b f r (fst d) (snd d))) diag_d).
  { unfold diag_d. cbn [existsb fst snd]. cbv zeta.
    rewrite (R Bishop 1 (-1) 1), (R Queen 1 (-1) 1), (R Bishop (-1) (-1) 1), (R Queen (-1) (-1) 1),
            (R Bishop 1 1 (-1)), (R Queen 1 1 (-1)), (R Bishop (-1) 1 (-1)), (R Queen (-1) 1 (-1)) by reflexivity.
    repeat match goal with |- context [is_man c ?k ?m] => generalize (is_man c k m); intro end. btauto. }
  assert (EO : existsb (fun d => is_man (opp c) Rook (first_on_ray 7 b' f (7 - r) (fst d) (snd d)) || is_man (opp c) Queen (first_on_ray 7 b' f (7 - r) (fst d) (snd d))) orth_d
             = existsb (fun d => is_man c Rook (first_on_ray 7 b f r (fst d) (snd d)) || is_man c Queen (first_on_ray 7 b f r (fst d) (snd d))) orth_d).
  { unfold orth_d. cbn [existsb fst snd]. cbv zeta.
    rewrite (R Rook 0 (-1) 1), (R Queen 0 (-1) 1), (R Rook 0 1 (-1)), (R Queen 0 1 (-1)),
            (R Rook 1 0 0), (R Queen 1 0 0), (R Rook (-1) 0 0), (R Queen (-1) 0 0) by reflexivity.
    repeat match goal with |- context [is_man c ?k ?m] => generalize (is_man c k m); intro end. btauto. }
  rewrite EK, EG, ED, EO.
  rewrite (L Pawn (f - 1) (r + match c with White => -1 | Black => 1 end)) by (destruct c; cbn [opp]; lia).
  rewrite (L Pawn (f + 1) (r + match c with White => -1 | Black => 1 end)) by (destruct c; cbn [opp]; lia).
  reflexivity.
Qed.
