(* C07 on the domain D: every position of D (spec/Abs.v `in_D`) whose two clocks fit into an i32 satisfies the hypotheses
   RTW of FenCastle.fen_roundtrip_modulo_dead_files, so its printed FEN is accepted by the parser and yields the same
   position with the castle files of rights that are not held reset (`norm_files`), in both arithmetic modes; by the
   closure of D (DomainClosed.in_D_ops) the same holds for every position reached by generated moves and null moves out
   of check from a position of D, as long as the clocks stay in range. *)
From Coq Require Import NArith ZArith List Bool Lia ZifyN ZifyBool.
From Rawr Require Import Consts Bits Magic Position MoveGen MakeMove MakeStages Fen Abs
                         HashFacts MakeFacts KeyAbs FenFacts GenSane Closure ClosureNull FenCastle DomainInv DomainClosed.
Import ListNotations.
Local Open Scope N_scope.

(* the wing conditions of the held rights, from rights_geometry *)
Lemma in_D_CasW p : in_D p = true -> CasW p.
Proof.
  intros HD. pose proof (in_D_facts p HD) as F. destruct (df_cf p F) as (L0 & L1 & L2 & L3).
  unfold CasW, kfile. split; [|split; [|split]].
  - intros H. split; [exact (df_uk p F H)|exact L0].
  - intros H. exact (df_uq p F H).
  - intros H. split; [exact (df_tk p F H)|exact L2].
  - intros H. exact (df_tq p F H).
Qed.

Theorem in_D_RTW p : in_D p = true -> (halfmoves p <= I32_MAX)%Z -> (fullmoves p <= I32_MAX)%Z -> RTW p.
Proof.
  intros HD Hh Hf. pose proof (in_D_facts p HD) as F.
  pose proof (iv_good p (inv_b_sound p (in_D_inv p HD))) as G.
  destruct (validate_sound p (df_valid p F))
    as (_ & _ & _ & _ & _ & _ & _ & _ & _ & _ & _ & _ & _ & _ & _ & _ & _ & _ & _ & _ & Hh0 & Hf1 & _).
  constructor.
  - exact (g_wf p G).
  - exact (g_bb p G).
  - exact (in_D_CasW p HD).
  - exact (df_valid p F).
  - exact (df_hash p F).
  - split; [exact Hh0|exact Hh].
  - split; [lia|exact Hf].
  - exact (df_ep p F).
Qed.

Theorem fen_of_D_is_accepted mode p : in_D p = true -> (halfmoves p <= I32_MAX)%Z -> (fullmoves p <= I32_MAX)%Z ->
  exists s, get_fen p = Some s /\ set_fen mode (is_frc p) s = Some (norm_files p).
Proof. intros HD Hh Hf. exact (fen_roundtrip_modulo_dead_files mode p (in_D_RTW p HD Hh Hf)). Qed.

Theorem fen_of_reached_position_is_accepted mode os p : in_D p = true -> gen_ops p os ->
  let q := fold_left play_op os p in (halfmoves q <= I32_MAX)%Z -> (fullmoves q <= I32_MAX)%Z ->
  exists s, get_fen q = Some s /\ set_fen mode (is_frc q) s = Some (norm_files q).
Proof. intros HD Ho q Hh Hf. exact (fen_of_D_is_accepted mode q (in_D_ops os p HD Ho) Hh Hf). Qed.

Print Assumptions in_D_RTW.
Print Assumptions fen_of_D_is_accepted.
Print Assumptions fen_of_reached_position_is_accepted.
