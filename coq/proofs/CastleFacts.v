(* C02 (move clause), part 3: castling, written king-takes-own-rook, in both geometries (standard and Chess960,
   including the cases where the king or the rook already stands on one of the two target squares). *)
From Coq Require Import NArith ZArith List Bool Lia.
From Rawr Require Import Consts Bits Magic Position MoveGen MakeMove MakeStages BitsFacts MakeFacts.
Import ListNotations.
Local Open Scope N_scope.

(* ---- castle_fix, bit by bit *)
Lemma king_le5 : KING <= 5. Proof. unfold KING. lia. Qed.
Lemma rook_le5 : ROOK <= 5. Proof. unfold ROOK. lia. Qed.
Lemma le35 : 3 <= 5. Proof. lia. Qed.
Lemma le55 : 5 <= 5. Proof. lia. Qed.

Section Fix.
Variables (p : Position) (from to rs kt rt : N).
Hypotheses (Hf : from < 64) (Ht : to < 64) (Hrs : rs < 64) (Hkt : kt < 64) (Hrt : rt < 64).

Lemma tb_fix s : tb (castle_fix p from to rs kt rt) s = tb p s.
Proof. unfold castle_fix. cbv zeta. rewrite !tb_xor_piece. reflexivity. Qed.

Lemma ub_fix s : ub (castle_fix p from to rs kt rt) s =
  xorb (xorb (xorb (xorb (xorb (ub p s) ((s =? from) || (s =? to))) (s =? from)) (s =? kt)) (s =? rs)) (s =? rt).
Proof.
  unfold castle_fix. cbv zeta.
  rewrite !ub_xor_piece, !ub_xor_us, !ub_xor_piece, !ub_xor_us, !ub_xor_piece, !ub_xor_us.
  rewrite testbit_ft by (exact Hf || exact Ht).
  rewrite !testbit_bit by (exact Hf || exact Hkt || exact Hrs || exact Hrt). reflexivity.
Qed.


Lemma pb_fix j s : j <= 5 -> pb (castle_fix p from to rs kt rt) j s =
  xorb (xorb (xorb (xorb (xorb (pb p j s) ((5 =? j) && ((s =? from) || (s =? to)))) ((5 =? j) && (s =? from))) ((5 =? j) && (s =? kt)))
             ((3 =? j) && (s =? rs))) ((3 =? j) && (s =? rt)).
Proof.
  intros Hj. unfold castle_fix. cbv zeta.
  rewrite !pb_xor_piece by (exact Hj || exact king_le5 || exact rook_le5).
  rewrite !pb_xor_us. rewrite !pb_xor_piece by (exact Hj || exact king_le5 || exact rook_le5).
  rewrite !pb_xor_us. rewrite !pb_xor_piece by (exact Hj || exact king_le5 || exact rook_le5).
  rewrite !pb_xor_us.
  rewrite testbit_ft by (exact Hf || exact Ht).
  rewrite !testbit_bit by (exact Hf || exact Hkt || exact Hrs || exact Hrt). reflexivity.
Qed.
End Fix.

(* ------------------------------------------------------------------ a castling move *)

Record csane (p0 : Position) (m : Mv) (kside : bool) : Prop := {
  cs_from : m_from m < 8;                                   (* the king stands on its (relative) home rank *)
  cs_to : m_to m < 8;
  cs_ne : m_from m <> m_to m;
  cs_king : holds p0 (m_from m) false KING;
  cs_rook : holds p0 (m_to m) false ROOK;
  cs_side : kside = (m_from m <? m_to m);
  cs_rsq : m_to m = sq_of (if kside then cf0 p0 else cf1 p0) 0;       (* the rook the right refers to *)
  cs_kt : c_kt kside = m_from m \/ c_kt kside = m_to m \/ empty_at p0 (c_kt kside);
  cs_rt : c_rt kside = m_from m \/ c_rt kside = m_to m \/ empty_at p0 (c_rt kside);
  cs_promo : m_promo m = NOPIECE
}.

Section Castling.
Variables (u : bool) (p0 : Position) (m : Mv) (kside : bool).
Hypothesis S : csane p0 m kside.
Let from := m_from m.
Let to := m_to m.
Let kt := c_kt kside.
Let rt := c_rt kside.
Let Q := mv_boards u p0 m.

Lemma cs_from64 : from < 64. Proof. pose proof (cs_from _ _ _ S). unfold from. lia. Qed.
Lemma cs_to64 : to < 64. Proof. pose proof (cs_to _ _ _ S). unfold to. lia. Qed.
Lemma kt64 : kt < 64. Proof. unfold kt, c_kt, G1, C1. destruct kside; lia. Qed.
Lemma rt64 : rt < 64. Proof. unfold rt, c_rt, F1, D1. destruct kside; lia. Qed.
Lemma kt_ne_rt : kt <> rt. Proof. unfold kt, rt, c_kt, c_rt, G1, F1, C1, D1. destruct kside; lia. Qed.

Lemma cs_piece : mv_piece p0 m = KING.
Proof. unfold mv_piece. rewrite (holds_piece_on _ _ _ _ (cs_king _ _ _ S)). reflexivity. Qed.
Lemma cs_not_ep : mv_is_ep p0 m = false.
Proof. unfold mv_is_ep. rewrite cs_piece. reflexivity. Qed.

(* stage 1 leaves the rook's square with a king bit and a rook bit: the fix-up fires *)
Let P1 := st_move (mv_start u p0 m) (N.lor (bit from) (bit to)) KING.

Lemma P1_to_tb : tb P1 to = false.
Proof.
  unfold P1. rewrite tb_move, tb_start. exact (proj1 (proj2 (proj2 (cs_rook _ _ _ S)))).
Qed.

Lemma P1_castle_test : is_occ (N.land (kings P1) (rooks P1)) = true.
Proof.
  unfold is_occ. apply negb_true_iff, N.eqb_neq. intros E.
  assert (H : N.testbit (N.land (kings P1) (rooks P1)) to = false) by (rewrite E; apply N.bits_0).
  rewrite N.land_spec in H. change (pb P1 5 to && pb P1 3 to = false) in H.
  unfold P1 in H. rewrite !pb_move in H by (exact cs_from64 || exact cs_to64 || exact king_le5 || exact le35 || exact le55).
  rewrite !pb_start in H.
  destruct (cs_rook _ _ _ S) as (_ & _ & _ & Hp). fold to in Hp. rewrite (Hp 5), (Hp 3) in H by lia.
  rewrite (N.eqb_refl to), orb_true_r in H. cbn in H. discriminate.
Qed.

Lemma boards_castle :
  Q = castle_fix P1 from to (sq_of (if kside then cf0 p0 else cf1 p0) 0) kt rt.
Proof.
  unfold Q, mv_boards. cbv zeta. rewrite cs_piece, cs_not_ep. fold from to P1.
  unfold st_capture. change (is_set (c_them P1) to) with (tb P1 to). rewrite P1_to_tb.
  unfold st_ep. unfold st_castle. rewrite P1_castle_test. cbn [andb].
  unfold st_promo. rewrite (cs_promo _ _ _ S). cbn [N.eqb NOPIECE Pos.eqb negb].
  pose proof (cs_side _ _ _ S) as Hs. fold from to in Hs.
  destruct kside.
  - rewrite <- Hs. reflexivity.
  - rewrite <- Hs.
    assert (Hlt : (to <? from) = true).
    { apply N.ltb_lt. symmetry in Hs. apply N.ltb_ge in Hs. pose proof (cs_ne _ _ _ S). unfold from, to in *. lia. }
    rewrite Hlt. reflexivity.
Qed.

(* ---- the three relevant bits of every square afterwards *)
Lemma rs_is_to : sq_of (if kside then cf0 p0 else cf1 p0) 0 = to.
Proof. symmetry. exact (cs_rsq _ _ _ S). Qed.

Lemma Q_ub s : ub Q s = xorb (xorb (xorb (xorb (ub p0 s) (s =? from)) (s =? kt)) (s =? to)) (s =? rt).
Proof.
  rewrite boards_castle, rs_is_to.
  rewrite ub_fix by (exact cs_from64 || exact cs_to64 || exact kt64 || exact rt64).
  unfold P1. rewrite ub_move by (exact cs_from64 || exact cs_to64). rewrite ub_start.
  destruct (ub p0 s), (s =? from), (s =? to), (s =? kt), (s =? rt); reflexivity.
Qed.

Lemma Q_tb s : tb Q s = tb p0 s.
Proof. rewrite boards_castle, tb_fix. unfold P1. rewrite tb_move, tb_start. reflexivity. Qed.

Lemma Q_pb j s : j <= 5 ->
  pb Q j s = xorb (xorb (pb p0 j s) ((5 =? j) && xorb (s =? from) (s =? kt))) ((3 =? j) && xorb (s =? to) (s =? rt)).
Proof.
  intros Hj. rewrite boards_castle, rs_is_to.
  rewrite pb_fix by (exact Hj || exact cs_from64 || exact cs_to64 || exact kt64 || exact rt64).
  unfold P1. rewrite pb_move by (exact Hj || exact cs_from64 || exact cs_to64 || exact king_le5). rewrite pb_start.
  unfold KING.
  destruct (pb p0 j s), (5 =? j), (3 =? j), (s =? from), (s =? to), (s =? kt), (s =? rt); reflexivity.
Qed.

(* ---- what stood on the four squares involved *)
Definition involved (s : N) : Prop := s = from \/ s = to \/ s = kt \/ s = rt.

Lemma from_bits : ub p0 from = true /\ tb p0 from = false /\ forall j, j <= 5 -> pb p0 j from = (j =? 5).
Proof. destruct (cs_king _ _ _ S) as (_ & Hu & Ht & Hp). repeat split; assumption. Qed.
Lemma to_bits : ub p0 to = true /\ tb p0 to = false /\ forall j, j <= 5 -> pb p0 j to = (j =? 3).
Proof. destruct (cs_rook _ _ _ S) as (_ & Hu & Ht & Hp). repeat split; assumption. Qed.

Lemma from_ne_to : (from =? to) = false. Proof. apply N.eqb_neq. exact (cs_ne _ _ _ S). Qed.
Lemma to_ne_from : (to =? from) = false. Proof. rewrite N.eqb_sym. exact from_ne_to. Qed.

Lemma orig_bits s : involved s ->
  ub p0 s = (s =? from) || (s =? to) /\ tb p0 s = false
  /\ forall j, j <= 5 -> pb p0 j s = ((j =? 5) && (s =? from)) || ((j =? 3) && (s =? to)).
Proof.
  destruct from_bits as (Fu & Ft & Fp). destruct to_bits as (Tu & Tt & Tp).
  assert (Hfrom : ub p0 from = (from =? from) || (from =? to) /\ tb p0 from = false
            /\ forall j, j <= 5 -> pb p0 j from = ((j =? 5) && (from =? from)) || ((j =? 3) && (from =? to))).
  { rewrite N.eqb_refl, from_ne_to. split; [exact Fu|split; [exact Ft|]]. intros j Hj. rewrite (Fp j Hj), andb_true_r, andb_false_r, orb_false_r. reflexivity. }
  assert (Hto : ub p0 to = (to =? from) || (to =? to) /\ tb p0 to = false
            /\ forall j, j <= 5 -> pb p0 j to = ((j =? 5) && (to =? from)) || ((j =? 3) && (to =? to))).
  { rewrite N.eqb_refl, to_ne_from. split; [exact Tu|split; [exact Tt|]]. intros j Hj. rewrite (Tp j Hj), andb_true_r, andb_false_r. reflexivity. }
  assert (Hempty : forall x, empty_at p0 x -> ub p0 x = (x =? from) || (x =? to) /\ tb p0 x = false
            /\ forall j, j <= 5 -> pb p0 j x = ((j =? 5) && (x =? from)) || ((j =? 3) && (x =? to))).
  { intros x (Eu & Et & Ep).
    assert (N1 : (x =? from) = false) by (apply N.eqb_neq; intros E; rewrite E, Fu in Eu; discriminate).
    assert (N2 : (x =? to) = false) by (apply N.eqb_neq; intros E; rewrite E, Tu in Eu; discriminate).
    rewrite N1, N2. split; [exact Eu|split; [exact Et|]]. intros j Hj. rewrite (Ep j Hj), !andb_false_r. reflexivity. }
  intros [E|[E|[E|E]]].
  - rewrite E. exact Hfrom.
  - rewrite E. exact Hto.
  - rewrite E. destruct (cs_kt _ _ _ S) as [K|[K|K]]; fold kt in K; [rewrite K; exact Hfrom|rewrite K; exact Hto|exact (Hempty _ K)].
  - rewrite E. destruct (cs_rt _ _ _ S) as [K|[K|K]]; fold rt in K; [rewrite K; exact Hfrom|rewrite K; exact Hto|exact (Hempty _ K)].
Qed.

(* ---- afterwards, on an involved square: the colour bit is "king target or rook target", the kinds accordingly *)
Lemma Q_involved s : involved s ->
  ub Q s = xorb (s =? kt) (s =? rt) /\ tb Q s = false
  /\ forall j, j <= 5 -> pb Q j s = xorb ((j =? 5) && (s =? kt)) ((j =? 3) && (s =? rt)).
Proof.
  intros Hs. destruct (orig_bits s Hs) as (Ou & Ot & Op).
  assert (X : (s =? from) && (s =? to) = false).
  { destruct (N.eqb_spec s from) as [E1|]; [|reflexivity]. destruct (N.eqb_spec s to) as [E2|]; [|reflexivity].
    exfalso. apply (cs_ne _ _ _ S). unfold from, to in *. congruence. }
  split; [|split].
  - rewrite Q_ub, Ou. destruct (s =? from), (s =? to), (s =? kt), (s =? rt); try reflexivity; discriminate X.
  - rewrite Q_tb. exact Ot.
  - intros j Hj. rewrite Q_pb, (Op j Hj) by exact Hj. rewrite (N.eqb_sym 5 j), (N.eqb_sym 3 j).
    assert (Y : (j =? 5) && (j =? 3) = false).
    { destruct (N.eqb_spec j 5) as [E1|]; [|reflexivity]. destruct (N.eqb_spec j 3) as [E2|]; [|reflexivity]. lia. }
    destruct (j =? 5), (j =? 3), (s =? from), (s =? to), (s =? kt), (s =? rt); try reflexivity; try discriminate X; discriminate Y.
Qed.

Theorem castle_rook_target : holds Q rt false ROOK.
Proof.
  destruct (Q_involved rt) as (Hu & Ht & Hp); [right; right; right; reflexivity|].
  assert (N1 : (rt =? kt) = false) by (apply N.eqb_neq; intros E; apply kt_ne_rt; symmetry; exact E).
  rewrite N.eqb_refl, N1 in Hu.
  split; [exact rook_le5|split; [exact Hu|split; [exact Ht|]]].
  intros j Hj. rewrite (Hp j Hj), N.eqb_refl, N1, andb_false_r, andb_true_r. destruct (j =? 3) eqn:E; unfold ROOK; rewrite E; reflexivity.
Qed.

Theorem castle_king_target : holds Q kt false KING.
Proof.
  destruct (Q_involved kt) as (Hu & Ht & Hp); [right; right; left; reflexivity|].
  assert (N1 : (kt =? rt) = false) by (apply N.eqb_neq; exact kt_ne_rt).
  rewrite N.eqb_refl, N1 in Hu.
  split; [exact king_le5|split; [exact Hu|split; [exact Ht|]]].
  intros j Hj. rewrite (Hp j Hj), N.eqb_refl, N1, andb_false_r, andb_true_r, xorb_false_r. reflexivity.
Qed.

Theorem castle_vacated s : s = from \/ s = to -> s <> kt -> s <> rt -> empty_at Q s.
Proof.
  intros Hs N1 N2. apply N.eqb_neq in N1, N2.
  destruct (Q_involved s) as (Hu & Ht & Hp); [destruct Hs; [left|right; left]; assumption|].
  rewrite N1, N2 in Hu.
  split; [exact Hu|split; [exact Ht|]].
  intros j Hj. rewrite (Hp j Hj), N1, N2, !andb_false_r. reflexivity.
Qed.

Theorem castle_other s : s <> from -> s <> to -> s <> kt -> s <> rt -> same_at p0 Q s.
Proof.
  intros N1 N2 N3 N4. apply N.eqb_neq in N1, N2, N3, N4.
  split; [|split].
  - rewrite Q_ub, N1, N2, N3, N4, !xorb_false_r. reflexivity.
  - apply Q_tb.
  - intros j Hj. rewrite Q_pb by exact Hj. rewrite N1, N2, N3, N4. cbn [xorb]. rewrite !andb_false_r, !xorb_false_r. reflexivity.
Qed.
End Castling.
