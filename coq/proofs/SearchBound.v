(* C03/C14: every value the search returns, stores or reports lies within the mate bounds, hence strictly inside
   (-INF, INF) -- for every table content the engine itself can have produced, every history, every limit and every
   depth -- on positions satisfying the invariant of Closure.v/MenCount.v.  The one hypothesis, `GenLegal`, is the
   soundness half of C01 (a generated move never leaves the mover's king attacked). *)
From Coq Require Import NArith ZArith List Bool Lia Permutation FMapPositive.
From Rawr Require Import Consts Bits Magic Position MoveGen MakeMove MakeStages Eval TT Search
                         BitsFacts AbsFacts HashFacts MakeFacts KeyAbs NotationFacts AttackFacts AttackAbs BoundFacts GenSane Closure ClosureNull MenCount EpRetro
                         TTFacts SearchFacts SearchFacts2.
Import ListNotations.
Local Open Scope Z_scope.

Definition EVB : Z := 400000.
Definition VB : Z := MATE_SCORE.

Definition TBnd (t : TTable) : Prop := forall i, Z.abs (e_score (slot TTEntry tt_default t i)) <= VB.

Lemma TBnd_add t k e t' : TBnd t -> Z.abs (e_score e) <= VB -> tt_add t k e = Some t' -> TBnd t'.
Proof.
  intros Ht He H. unfold tt_add, t_add in H. destruct (get_idx TTEntry t k) as [i|]; [|discriminate]. injection H as <-.
  intros j. rewrite (slot_add TTEntry tt_default t i e j). destruct (j =? i)%N; [exact He|exact (Ht j)].
Qed.
Lemma TBnd_poll t k e : TBnd t -> tt_poll t k = Some e -> Z.abs (e_score e) <= VB.
Proof.
  intros Ht H. unfold tt_poll, t_poll in H. destruct (get_idx TTEntry t k) as [i|]; [|discriminate]. injection H as <-. exact (Ht i).
Qed.

Lemma captures_are_moves p m : In m (legal_captures p) -> In m (legal_moves p).
Proof.
  rewrite legal_captures_is_filter. unfold legal_moves. intros H. apply in_map_iff in H. destruct H as (g & <- & Hg).
  apply filter_In in Hg. apply in_map. exact (proj1 Hg).
Qed.

Lemma some_pair_inv {A B} (a a' : A) (b b' : B) : Some (a, b) = Some (a', b') -> a = a' /\ b = b'.
Proof. intros H. inversion H. split; reflexivity. Qed.

Section Bound.
Variable stopf : Stats -> bool.
(* C01, soundness half: a generated move never leaves the mover's own king attacked *)
Hypothesis GenLegal : forall u p m, Inv0 p -> ep_ok_b p = true -> In m (legal_moves p) -> in_check_them (makemove u p m) = false.

(* ------------------------------------------------------------------ quiescence *)
Definition qbnd (qrec : Position -> Stats -> Z -> Z -> Z -> option (Z * Stats)) : Prop :=
  forall q st a b pl v st', Inv16R q -> qrec q st a b pl = Some (v, st') -> Z.abs v <= EVB.

Lemma q_loop_bnd qrec p beta ply : qbnd qrec -> Inv16R p ->
  forall ms st alpha best v st', (forall m, In m ms -> In m (legal_moves p)) -> Z.abs best <= EVB ->
  q_loop qrec p beta ply ms st alpha best = Some (v, st') -> Z.abs v <= EVB.
Proof.
  intros Hq Hp. induction ms as [|m ms IH]; intros st alpha best v st' Hms Hb H; cbn [q_loop] in H.
  - injection H as <- _. exact Hb.
  - match type of H with match ?x with _ => _ end = _ => destruct x as [[v0 st0]|] eqn:E; [|discriminate] end.
    assert (Hm : In m (legal_moves p)) by (apply Hms; left; reflexivity).
    assert (Hv0 : Z.abs v0 <= EVB).
    { apply (Hq _ _ _ _ _ _ _ (inv16R_step false p m Hp Hm (GenLegal false p m (i16_inv p (i16r p Hp)) (i16r_ep p Hp) Hm)) E). }
    cbv zeta in H.
    assert (Hb' : Z.abs (if best <? - v0 then - v0 else best) <= EVB) by (destruct (best <? - v0); lia).
    destruct (beta <=? _).
    + injection H as <- _. exact Hb'.
    + apply (IH _ _ _ _ _ (fun x Hx => Hms x (or_intror Hx)) Hb' H).
Qed.

Theorem qsearch_bnd : forall fuel, qbnd (qsearch fuel).
Proof.
  induction fuel as [|f IH]; intros q st a b pl v st' Hq H; [discriminate|]. cbn [qsearch] in H. cbv zeta in H.
  pose proof (inv16_eval q (i16r q Hq)) as He. fold EVB in He.
  destruct (b <=? eval q); [injection H as <- _; exact He|].
  apply (q_loop_bnd (qsearch f) q b pl IH Hq _ _ _ _ _ _) in H; [exact H| |exact He].
  intros m Hm. apply captures_are_moves. apply (Permutation_in _ (sort_q_perm q (legal_captures q))). exact Hm.
Qed.

(* ------------------------------------------------------------------ the main search *)
Definition nbnd (rec : Position -> SS -> Z -> Z -> Z -> Z -> bool -> option (Z * SS)) (plymax : Z) : Prop :=
  forall q s a b pl d cn v s', InvSR q -> TBnd (ss_tt s) -> 0 <= pl <= plymax ->
  rec q s a b pl d cn = Some (v, s') -> Z.abs v <= VB /\ TBnd (ss_tt s').

Lemma search_move_bnd rec plymax p in_chk beta ply depth idx m np s alpha score s' :
  nbnd rec plymax -> InvSR np -> TBnd (ss_tt s) -> 0 <= ply + 1 <= plymax ->
  search_move rec p in_chk beta ply depth idx m np s alpha = Some (score, s') -> Z.abs score <= VB /\ TBnd (ss_tt s').
Proof.
  intros Hr Hnp Ht Hpl H. unfold search_move in H. destruct (idx =? 0).
  - destruct (rec np s (- beta) (- alpha) (ply + 1) (depth - 1) true) as [[v s1]|] eqn:E; [|discriminate].
    destruct (some_pair_inv _ _ _ _ H) as [<- <-]. destruct (Hr _ _ _ _ _ _ _ _ _ Hnp Ht Hpl E) as (Hv & Ht1). split; [lia|exact Ht1].
  - match type of H with match ?r with _ => _ end = _ => destruct r as [[v s1]|] eqn:E; [|discriminate] end.
    destruct (Hr _ _ _ _ _ _ _ _ _ Hnp Ht Hpl E) as (Hv & Ht1). cbn zeta in H.
    destruct ((alpha <? - v) && (- v <? beta)).
    + destruct (rec np s1 (- beta) (- alpha) (ply + 1) (depth - 1) true) as [[v2 s2]|] eqn:E2; [|discriminate].
      destruct (some_pair_inv _ _ _ _ H) as [<- <-]. destruct (Hr _ _ _ _ _ _ _ _ _ Hnp Ht1 Hpl E2) as (Hv2 & Ht2). split; [lia|exact Ht2].
    + destruct (some_pair_inv _ _ _ _ H) as [<- <-]. split; [lia|exact Ht1].
Qed.

Definition best_ok (best : Z) (bm : option Mv) : Prop := bm = None \/ Z.abs best <= VB.

Lemma n_loop_bnd rec plymax p in_chk beta ply depth : nbnd rec plymax -> InvSR p -> 0 <= ply + 1 <= plymax ->
  forall ms idx s alpha best bm r, (forall m, In m ms -> In m (legal_moves p)) -> TBnd (ss_tt s) -> best_ok best bm ->
  n_loop rec p in_chk beta ply depth ms idx s alpha best bm = Some r ->
  TBnd (ss_tt (snd r)) /\ best_ok (snd (fst (fst r))) (snd (fst r)).
Proof.
  intros Hr Hp Hpl. induction ms as [|m ms IH]; intros idx s alpha best bm r Hms Ht Hb H; cbn [n_loop] in H.
  - injection H as <-. cbn [fst snd]. split; assumption.
  - match type of H with match ?x with _ => _ end = _ => destruct x as [[score s1]|] eqn:E; [|discriminate] end.
    assert (Hm : In m (legal_moves p)) by (apply Hms; left; reflexivity).
    assert (Hnp : InvSR (makemove true p m)).
    { apply invSR_step; [exact Hp|exact Hm|]. apply GenLegal; [exact (Inv_Inv0 p (is_inv p (isr p Hp)))|exact (isr_ep p Hp)|exact Hm]. }
    apply (search_move_bnd rec plymax) in E; [|exact Hr|exact Hnp|exact Ht|exact Hpl].
    destruct E as (Hs & Ht1). cbn zeta in H.
    assert (Ht1' : TBnd (ss_tt (pop_hist s1))) by exact Ht1.
    destruct (best <? score) eqn:Eb.
    + destruct (beta <=? _) in H.
      * injection H as <-. cbn [fst snd]. split; [exact Ht1'|right; exact Hs].
      * apply (IH _ _ _ _ _ _ (fun x Hx => Hms x (or_intror Hx)) Ht1') in H; [exact H|right; exact Hs].
    + destruct (beta <=? _) in H.
      * injection H as <-. cbn [fst snd]. split; [exact Ht1'|exact Hb].
      * apply (IH _ _ _ _ _ _ (fun x Hx => Hms x (or_intror Hx)) Ht1') in H; [exact H|exact Hb].
Qed.

Lemma null_move_bnd rec plymax p s is_root cn beta ply depth r s' : nbnd rec plymax -> InvSR p -> TBnd (ss_tt s) -> 0 <= ply + 1 <= plymax ->
  null_move rec p s is_root cn (in_check p) beta ply depth = Some (r, s') ->
  TBnd (ss_tt s') /\ match r with Some cut => Z.abs cut <= VB | None => True end.
Proof.
  intros Hr Hp Ht Hpl H. unfold null_move in H.
  destruct (negb is_root && cn && (2 <? depth) && negb (in_check p) && negb (is_endgame p)) eqn:Ec.
  - match type of H with match ?x with _ => _ end = _ => destruct x as [[v s1]|] eqn:E; [|discriminate] end.
    assert (Hchk : in_check p = false).
    { apply andb_true_iff in Ec. destruct Ec as [Ec _]. apply andb_true_iff in Ec. destruct Ec as [_ Ec]. apply negb_true_iff in Ec. exact Ec. }
    assert (Hnp : InvSR (makenull p)) by exact (invSR_null p Hp Hchk).
    destruct (Hr _ (push_hist s (hash (makenull p))) _ _ _ _ _ _ _ Hnp Ht Hpl E) as (Hv & Ht1). cbn zeta in H.
    destruct (beta <=? - v); destruct (some_pair_inv _ _ _ _ H) as [<- <-]; (split; [exact Ht1|]); [lia|exact I].
  - destruct (some_pair_inv _ _ _ _ H) as [<- <-]. split; [exact Ht|exact I].
Qed.

Lemma nm_finish_bnd p ao beta ply depth in_chk best bm s v s' : TBnd (ss_tt s) -> best_ok best bm -> 0 <= ply <= 2 * VB ->
  nm_finish p ao beta ply depth in_chk best bm s = Some (v, s') -> Z.abs v <= VB /\ TBnd (ss_tt s').
Proof.
  intros Ht Hb Hpl. unfold nm_finish. destruct bm as [bmv|].
  - destruct Hb as [Hb|Hb]; [discriminate|].
    match goal with |- context [tt_add ?t ?k ?e] => remember e as ent eqn:Eent; destruct (tt_add t k ent) as [tt'|] eqn:Ea; [|discriminate] end.
    intros H. destruct (some_pair_inv _ _ _ _ H) as [<- <-]. split; [exact Hb|]. cbn [ss_tt].
    pose proof (TBnd_add (ss_tt s) (hash p) ent tt' Ht) as X.
    assert (He : Z.abs (e_score ent) <= VB) by (rewrite Eent; exact Hb).
    exact (X He Ea).
  - intros H. destruct (some_pair_inv _ _ _ _ H) as [<- <-]. split; [|exact Ht]. unfold VB, MATE_SCORE, DRAW_SCORE in *. destruct in_chk; lia.
Qed.

Lemma nm_moves_bnd rec plymax p s ao alpha beta ply depth is_root cn ttm v s' : nbnd rec plymax -> InvSR p -> TBnd (ss_tt s) ->
  0 <= ply -> ply + 1 <= plymax -> plymax <= 2 * VB ->
  nm_moves rec p s ao alpha beta ply depth (in_check p) is_root cn ttm = Some (v, s') -> Z.abs v <= VB /\ TBnd (ss_tt s').
Proof.
  intros Hr Hp Ht Hp0 Hp1 Hpm H. unfold nm_moves in H.
  destruct (null_move rec p s is_root cn (in_check p) beta ply depth) as [[oc s1]|] eqn:En; [|discriminate].
  apply (null_move_bnd rec plymax) in En; [|exact Hr|exact Hp|exact Ht|lia]. destruct En as (Ht1 & Hc).
  destruct oc as [cut|].
  - destruct (some_pair_inv _ _ _ _ H) as [<- <-]. split; assumption.
  - destruct (n_loop rec p (in_check p) beta ply depth (sort_n p (legal_moves p) ttm) 0 s1 alpha (- INF) None) as [r|] eqn:El; [|discriminate].
    apply (n_loop_bnd rec plymax) in El; [|exact Hr|exact Hp|lia| |exact Ht1|left; reflexivity].
    + destruct El as (Ht2 & Hb). apply (nm_finish_bnd _ _ _ _ _ _ _ _ _ _ _ Ht2 Hb) in H; [exact H|lia].
    + intros m Hm. apply (Permutation_in _ (sort_n_perm p (legal_moves p) ttm)). exact Hm.
Qed.

Lemma nm_prune_bnd rec qrec plymax p s ao alpha beta ply depth is_root is_pv cn ttm v s' : nbnd rec plymax -> qbnd qrec -> InvSR p -> TBnd (ss_tt s) ->
  0 <= ply -> ply + 1 <= plymax -> plymax <= 2 * VB ->
  nm_prune stopf rec qrec p s ao alpha beta ply depth (in_check p) is_root is_pv cn ttm = Some (v, s') -> Z.abs v <= VB /\ TBnd (ss_tt s').
Proof.
  intros Hr Hq Hp Ht Hp0 Hp1 Hpm H. unfold nm_prune in H.
  destruct (depth <=? 0) eqn:Ed.
  - destruct (qrec p (ss_stats s) alpha beta ply) as [[v0 st]|] eqn:E; [|discriminate].
    destruct (some_pair_inv _ _ _ _ H) as [<- <-]. apply Hq in E; [|exact (InvSR_16R p Hp)]. split; [unfold EVB, VB, MATE_SCORE in *; lia|exact Ht].
  - destruct (stopf (ss_stats s) && negb (is_root && (st_depth (ss_stats s) <=? 1))).
    { destruct (some_pair_inv _ _ _ _ H) as [<- <-]. split; [unfold VB, MATE_SCORE; lia|exact Ht]. }
    cbv zeta in H.
    destruct (((100 <=? halfmoves p) || _) && negb is_root).
    { destruct (some_pair_inv _ _ _ _ H) as [<- <-]. split; [unfold VB, MATE_SCORE, DRAW_SCORE; lia|exact Ht]. }
    destruct (negb is_pv && negb (in_check p) && (depth <? RFP_DEPTH) && _) eqn:Er.
    { destruct (some_pair_inv _ _ _ _ H) as [<- <-]. split; [|exact Ht]. pose proof (invS_eval p (isr p Hp)) as He.
      apply andb_true_iff in Er. destruct Er as [Er _]. apply andb_true_iff in Er. destruct Er as [_ Er]. apply Z.ltb_lt in Er. apply Z.leb_gt in Ed.
      unfold VB, MATE_SCORE, RFP_DEPTH, RFP_MARGIN in *. lia. }
    apply (nm_moves_bnd rec plymax) in H; assumption.
Qed.

Lemma nm_body_bnd rec qrec plymax p s alpha beta ply depth cn v s' : nbnd rec plymax -> qbnd qrec -> InvSR p -> TBnd (ss_tt s) ->
  0 <= ply -> ply + 1 <= plymax -> plymax <= 2 * VB ->
  nm_body stopf rec qrec p s alpha beta ply depth cn = Some (v, s') -> Z.abs v <= VB /\ TBnd (ss_tt s').
Proof.
  intros Hr Hq Hp Ht Hp0 Hp1 Hpm H. unfold nm_body in H. cbv zeta in H.
  match type of H with match ?x with _ => _ end = _ => destruct x as [tte|] eqn:Epoll; [|discriminate] end.
  cbn [ss_tt with_stats] in Epoll. pose proof (TBnd_poll _ _ _ Ht Epoll) as Hte.
  unfold nm_probe in H. cbv zeta in H.
  match type of H with (if ?c then _ else _) = _ => destruct c end.
  { destruct (some_pair_inv _ _ _ _ H) as [<- <-]. split; [exact Hte|exact Ht]. }
  match type of H with (if ?c then _ else _) = _ => destruct c end.
  { destruct (some_pair_inv _ _ _ _ H) as [<- <-]. split; [exact Hte|exact Ht]. }
  apply (nm_prune_bnd rec qrec plymax) in H; try assumption.
Qed.

Theorem negamax_bnd : forall fuel plymax, plymax <= 2 * VB ->
  forall q s a b pl d cn v s', InvSR q -> TBnd (ss_tt s) -> 0 <= pl -> pl + Z.of_nat fuel <= plymax ->
  negamax stopf fuel q s a b pl d cn = Some (v, s') -> Z.abs v <= VB /\ TBnd (ss_tt s').
Proof.
  induction fuel as [|f IH]; intros plymax Hpm q s a b pl d cn v s' Hq Ht Hp0 Hp1 H; [discriminate|].
  cbn [negamax] in H.
  apply (nm_body_bnd (negamax stopf f) (qsearch f) (plymax - Z.of_nat f)) in H; try assumption; try lia.
  - intros q' s0 a0 b0 pl0 d0 cn0 v0 s0' Hq' Ht' Hpl' H'.
    apply (IH plymax Hpm q' s0 a0 b0 pl0 d0 cn0 v0 s0' Hq' Ht'); [lia|lia|exact H'].
  - apply qsearch_bnd.
Qed.

(* ------------------------------------------------------------------ the root: every reported score is within the mate bounds *)
Lemma root_loop_scores : forall n fuel p depth s best infos r, InvSR p -> TBnd (ss_tt s) -> Z.of_nat fuel <= 2 * VB ->
  (forall i, In i infos -> Z.abs (i_score i) <= VB) ->
  root_loop stopf n fuel p depth s best infos = Some r ->
  (forall i, In i (rr_infos r) -> Z.abs (i_score i) <= VB) /\ TBnd (ss_tt (rr_state r)).
Proof.
  induction n as [|n IH]; intros fuel p depth s best infos r Hp Ht Hf Hi H; cbn [root_loop] in H.
  - injection H as <-. cbn [rr_infos rr_state]. split; [|exact Ht]. intros i Hin. apply in_rev in Hin. exact (Hi i Hin).
  - destruct (MAX_DEPTH <=? depth).
    { injection H as <-. cbn [rr_infos rr_state]. split; [|exact Ht]. intros i Hin. apply in_rev in Hin. exact (Hi i Hin). }
    cbv zeta in H.
    match type of H with match ?x with _ => _ end = _ => destruct x as [[score s1]|] eqn:E; [|discriminate] end.
    apply (negamax_bnd fuel (2 * VB) ltac:(lia)) in E; [|exact Hp|exact Ht|lia|lia]. destruct E as (Hs & Ht1).
    destruct (st_best (ss_stats s1)) as [bm|].
    + destruct ((1 <? depth) && stopf (ss_stats s1)).
      * injection H as <-. cbn [rr_infos rr_state]. split; [|exact Ht1]. intros i Hin. apply in_rev in Hin. exact (Hi i Hin).
      * apply IH in H; [exact H|exact Hp|exact Ht1|exact Hf|].
        intros i [<-|Hin]; [exact Hs|exact (Hi i Hin)].
    + injection H as <-. cbn [rr_infos rr_state]. split; [|exact Ht1]. intros i Hin. apply in_rev in Hin. exact (Hi i Hin).
Qed.

Theorem root_scores_bounded fuel p hist tt r : InvSR p -> TBnd tt -> Z.of_nat fuel <= 2 * VB ->
  root stopf fuel p hist tt = Some r ->
  (forall i, In i (rr_infos r) -> - MATE_SCORE <= i_score i <= MATE_SCORE /\ - INF < i_score i < INF) /\ TBnd (ss_tt (rr_state r)).
Proof.
  intros Hp Ht Hf H. unfold root in H. apply root_loop_scores in H; [|exact Hp|exact Ht|exact Hf|intros i []].
  destruct H as (Hs & Ht'). split; [|exact Ht']. intros i Hi. specialize (Hs i Hi). unfold VB, MATE_SCORE, INF in *. lia.
Qed.
(* ------------------------------------------------------------------ C03: the root answers with a legal move whenever there is one *)
Lemma n_loop_first_sets rec plymax p in_chk beta ply depth m ms s alpha r : nbnd rec plymax -> InvSR p -> 0 <= ply + 1 <= plymax ->
  (forall x, In x (m :: ms) -> In x (legal_moves p)) -> TBnd (ss_tt s) ->
  n_loop rec p in_chk beta ply depth (m :: ms) 0 s alpha (- INF) None = Some r -> snd (fst r) <> None.
Proof.
  intros Hr Hp Hpl Hms Ht H. cbn [n_loop] in H.
  match type of H with match ?x with _ => _ end = _ => destruct x as [[score s1]|] eqn:E; [|discriminate] end.
  assert (Hm : In m (legal_moves p)) by (apply Hms; left; reflexivity).
  assert (Hnp : InvSR (makemove true p m)).
  { apply invSR_step; [exact Hp|exact Hm|]. apply GenLegal; [exact (Inv_Inv0 p (is_inv p (isr p Hp)))|exact (isr_ep p Hp)|exact Hm]. }
  apply (search_move_bnd rec plymax) in E; [|exact Hr|exact Hnp|exact Ht|exact Hpl]. destruct E as (Hs & _).
  cbv zeta in H.
  assert (Hlt : (- INF <? score) = true) by (apply Z.ltb_lt; unfold VB, MATE_SCORE, INF in *; lia).
  rewrite Hlt in H. destruct (beta <=? _) in H.
  - injection H as <-. discriminate.
  - apply n_loop_keeps_some in H; [exact H|discriminate].
Qed.

(* one iteration at the root: either it was stopped (only possible from the second iteration on) or the statistics carry a
   move that is legal in the root position *)
Lemma root_iteration fuel p s depth v s' : InvSR p -> TBnd (ss_tt s) -> Z.of_nat fuel <= 2 * VB -> legal_moves p <> [] ->
  1 <= depth -> st_depth (ss_stats s) = depth ->
  negamax stopf fuel p s (- INF) INF 0 depth false = Some (v, s') ->
  (1 < depth /\ stopf (ss_stats s') = true /\ st_best (ss_stats s') = st_best (ss_stats s) /\ TBnd (ss_tt s'))
  \/ (exists m, st_best (ss_stats s') = Some m /\ In m (legal_moves p)).
Proof.
  intros Hp Ht Hf Hne Hd Hsd H. destruct fuel as [|f]; [discriminate|]. cbn [negamax] in H.
  unfold nm_body in H. cbv zeta in H.
  match type of H with match ?x with _ => _ end = _ => destruct x as [tte|] eqn:Epoll; [|discriminate] end.
  unfold nm_probe in H. cbv zeta in H. change (0 =? 0) with true in H. rewrite !andb_false_r in H. cbn [andb] in H.
  unfold nm_prune in H.
  set (d' := if in_check p then depth + 1 else depth) in *.
  assert (Hd' : 1 <= d') by (unfold d'; destruct (in_check p); lia).
  destruct (Z.leb_spec d' 0); [lia|].
  match type of H with (if ?c then _ else _) = _ => destruct c eqn:Estop end.
  { left. destruct (some_pair_inv _ _ _ _ H) as [_ <-]. apply andb_true_iff in Estop. destruct Estop as [E1 E2].
    cbn [ss_stats with_stats set_seld st_depth] in E2. rewrite Hsd in E2. cbn [andb] in E2. apply negb_true_iff, Z.leb_gt in E2.
    split; [exact E2|split; [exact E1|split; [reflexivity|exact Ht]]]. }
  cbv zeta in H. rewrite andb_false_r in H.
  change (negb (INF =? - INF + 1)) with true in H. cbn [negb andb] in H.
  right.
  assert (Hnb : nbnd (negamax stopf f) (2 * VB - Z.of_nat f)).
  { intros q' s0 a0 b0 pl0 d0 cn0 v0 s0' Hq' Ht' Hpl' H'.
    apply (negamax_bnd f (2 * VB) ltac:(lia) q' s0 a0 b0 pl0 d0 cn0 v0 s0' Hq' Ht'); [lia|lia|exact H']. }
  destruct (root_node_best_legal (negamax stopf f) p _ _ _ _ _ _ _ _ _ _ _ H) as [Hok|(r & Hr & Hnone)]; [exact Hok|].
  exfalso.
  assert (Hs : sort_n p (legal_moves p) None <> [] \/ True) by (right; exact I).
  remember (sort_n p (legal_moves p) (if (e_hash tte =? hash p)%N then Some {| m_from := e_from tte; m_to := e_to tte; m_promo := e_promo tte |} else None)) as ms eqn:Ems.
  assert (Hperm : Permutation ms (legal_moves p)) by (rewrite Ems; apply sort_n_perm).
  destruct ms as [|m ms]; [apply Permutation_nil in Hperm; apply Hne; rewrite Hperm; reflexivity|].
  apply (n_loop_first_sets (negamax stopf f) (2 * VB - Z.of_nat f) p _ _ _ _ m ms _ _ r Hnb Hp) in Hr; [exact (Hr Hnone)|lia| |exact Ht].
  intros x Hx. apply (Permutation_in _ Hperm). exact Hx.
Qed.


Lemma root_loop_legal : forall n fuel p depth s best infos r, InvSR p -> TBnd (ss_tt s) -> Z.of_nat fuel <= 2 * VB -> legal_moves p <> [] ->
  1 <= depth ->
  (1 < depth -> (exists m, best = Some m /\ In m (legal_moves p)) /\ st_best (ss_stats s) <> None) ->
  root_loop stopf n fuel p depth s best infos = Some r ->
  rr_best r = best \/ exists m, rr_best r = Some m /\ In m (legal_moves p).
Proof.
  induction n as [|n IH]; intros fuel p depth s best infos r Hp Ht Hf Hne Hd HJ H; cbn [root_loop] in H.
  - injection H as <-. left. reflexivity.
  - destruct (MAX_DEPTH <=? depth); [injection H as <-; left; reflexivity|].
    cbv zeta in H.
    match type of H with match ?x with _ => _ end = _ => destruct x as [[score s1]|] eqn:E; [|discriminate] end.
    pose proof E as E'.
    apply (negamax_bnd fuel (2 * VB) ltac:(lia)) in E'; [|exact Hp|exact Ht|lia|lia]. destruct E' as (_ & Ht1).
    apply root_iteration in E; [|exact Hp|exact Ht|exact Hf|exact Hne|exact Hd|reflexivity].
    destruct E as [(H1 & Hstop & Hsb & _)|(m & Hm & Hin)].
    + destruct (HJ H1) as (Hbest & Hsome). cbn [ss_stats with_stats st_best] in Hsb. rewrite <- Hsb in Hsome.
      destruct (st_best (ss_stats s1)) as [bm|]; [|contradiction].
      apply Z.ltb_lt in H1. rewrite H1, Hstop in H. cbn [andb] in H. injection H as <-. left. reflexivity.
    + rewrite Hm in H. destruct ((1 <? depth) && stopf (ss_stats s1)) eqn:Es.
      * injection H as <-. left. reflexivity.
      * apply IH in H; [|exact Hp|exact Ht1|exact Hf|exact Hne|lia|].
        -- right. destruct H as [H|H]; [exists m; split; [exact H|exact Hin]|exact H].
        -- intros _. split; [exists m; split; [reflexivity|exact Hin]|rewrite Hm; discriminate].
Qed.

Theorem root_answers_legal fuel p hist tt r : InvSR p -> TBnd tt -> Z.of_nat fuel <= 2 * VB -> legal_moves p <> [] ->
  root stopf fuel p hist tt = Some r -> exists m, rr_best r = Some m /\ In m (legal_moves p).
Proof.
  intros Hp Ht Hf Hne H. unfold root in H.
  (* the first iteration cannot be stopped and cannot be skipped *)
  change 128%nat with (S 127) in H. remember 127%nat as n127 eqn:En. clear En. cbn [root_loop] in H. change (MAX_DEPTH <=? 1) with false in H. cbv zeta in H. cbv iota in H.
  match type of H with match ?x with _ => _ end = _ => destruct x as [[score s1]|] eqn:E; [|discriminate] end.
  pose proof E as E'.
  apply (negamax_bnd fuel (2 * VB) ltac:(lia)) in E'; [|exact Hp|exact Ht|lia|lia]. destruct E' as (_ & Ht1).
  apply root_iteration in E; [|exact Hp|exact Ht|exact Hf|exact Hne|lia|reflexivity].
  destruct E as [(H1 & _)|(m & Hm & Hin)]; [lia|].
  rewrite Hm in H. change (1 <? 1) with false in H. cbn [andb] in H.
  apply root_loop_legal in H; [|exact Hp|exact Ht1|exact Hf|exact Hne|lia|].
  - destruct H as [H|H]; [exists m; split; [exact H|exact Hin]|exact H].
  - intros _. split; [exists m; split; [reflexivity|exact Hin]|rewrite Hm; discriminate].
Qed.

End Bound.

(* an empty table, a cleared table and a resized table satisfy the table invariant *)
Lemma default_score : Z.abs (e_score tt_default) <= VB.
Proof. unfold VB, MATE_SCORE. cbn. lia. Qed.

Lemma TBnd_clear t : TBnd (tt_clear t).
Proof.
  intros i. unfold tt_clear. rewrite (proj1 (clear_empties TTEntry tt_default t i)). exact default_score.
Qed.

Lemma TBnd_resize t mb : TBnd t -> TBnd (tt_resize t mb).
Proof.
  intros Ht i. unfold tt_resize.
  destruct (resize_keeps_provenance TTEntry tt_default TTENTRY_BYTES_DEFAULT t mb i) as [E|(_ & E)]; rewrite E; [exact default_score|exact (Ht i)].
Qed.

Lemma TBnd_empty : TBnd (t_new_empty TTEntry).
Proof. intros i. unfold slot, t_new_empty. cbn [t_map]. rewrite PositiveMap.gempty. exact default_score. Qed.

Lemma TBnd_new mb : TBnd (tt_new mb).
Proof. unfold tt_new, t_new. apply (TBnd_resize (t_new_empty TTEntry) mb). exact TBnd_empty. Qed.
