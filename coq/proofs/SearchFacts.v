(* Facts about the search model: quiescence = generic alpha-beta (C19), history preservation (C13),
   shape of the root loop (C14, C03). *)
From Coq Require Import NArith ZArith List Bool Lia Permutation.
From Rawr Require Import Consts Bits Magic Position MoveGen MakeMove Eval TT Search Rules Abs GameTree AlphaBeta.
Import ListNotations.
Local Open Scope Z_scope.

(* ------------------------------------------------------------------ move ordering is a permutation *)
Lemma find_best_bound : forall (l : list (Z * Mv)) i best acc k,
  find_best l i best acc = Some k -> acc = Some k \/ (i <= k < i + length l)%nat.
Proof.
  induction l as [|x t IH]; intros i best acc k H; cbn [find_best] in H.
  - left. exact H.
  - destruct (best <? fst x).
    + apply IH in H. destruct H as [H|H]; [inversion H; subst; right; cbn; lia|right; cbn; lia].
    + apply IH in H. destruct H as [H|H]; [left; exact H|right; cbn; lia].
Qed.

Lemma swap_perm {A} (x : A) : forall (l : list A) k, (k < length l)%nat ->
  Permutation (nth k l x :: replace_nth k x l) (x :: l).
Proof.
  induction l as [|y t IH]; intros k Hk; [cbn in Hk; lia|].
  destruct k as [|k]; cbn [nth replace_nth].
  - apply perm_swap.
  - cbn in Hk. specialize (IH k ltac:(lia)).
    apply perm_trans with (y :: nth k t x :: replace_nth k x t); [apply perm_swap|].
    apply perm_trans with (y :: x :: t); [apply perm_skip; exact IH|apply perm_swap].
Qed.

Lemma sel_sort_perm : forall n (l : list (Z * Mv)), Permutation (sel_sort n l) l.
Proof.
  induction n as [|n IH]; intros l; destruct l as [|x rest]; cbn [sel_sort]; try apply Permutation_refl.
  destruct (find_best rest 0 (fst x) None) as [k|] eqn:E.
  - apply find_best_bound in E. destruct E as [E|E]; [discriminate|].
    apply perm_trans with (nth k rest x :: replace_nth k x rest); [apply perm_skip; apply IH|].
    apply swap_perm. lia.
  - apply perm_skip. apply IH.
Qed.

Lemma sort_q_perm p ms : Permutation (sort_q p ms) ms.
Proof.
  unfold sort_q.
  apply perm_trans with (map snd (map (fun m => (order_score ORDER_VALUES_QSEARCH p m, m)) ms)).
  - apply Permutation_map. apply sel_sort_perm.
  - rewrite map_map. cbn. rewrite map_id. apply Permutation_refl.
Qed.

Lemma sort_n_perm p ms tm : Permutation (sort_n p ms tm) ms.
Proof.
  unfold sort_n.
  match goal with |- Permutation (map snd (sel_sort _ (map ?f ms))) ms =>
    apply perm_trans with (map snd (map f ms)); [apply Permutation_map; apply sel_sort_perm|] end.
  rewrite map_map. cbn. rewrite map_id. apply Permutation_refl.
Qed.

(* ------------------------------------------------------------------ quiescence = the generic algorithm *)
Definition kids (p : Position) : list Position := map (makemove false p) (sort_q p (legal_captures p)).

Definition gloop (f : nat) (b : Z) :=
  fix loop (cs : list Position) (alpha best : Z) : option Z :=
    match cs with
    | [] => Some best
    | c :: cs' =>
      match qs Position eval kids f c (- b) (- alpha) with
      | None => None
      | Some v =>
        let score := - v in
        let best' := if best <? score then score else best in
        let alpha' := if alpha <? score then score else alpha in
        if b <=? alpha' then Some best' else loop cs' alpha' best'
      end
    end.

Lemma q_loop_erase f p b ply
  (IH : forall c st a b' pl v st', qsearch f c st a b' pl = Some (v, st') -> qs Position eval kids f c a b' = Some v) :
  forall ms st alpha best v st',
    q_loop (qsearch f) p b ply ms st alpha best = Some (v, st') ->
    gloop f b (map (makemove false p) ms) alpha best = Some v.
Proof.
  induction ms as [|m ms IHms]; intros st alpha best v st' H; cbn [q_loop map gloop] in *.
  - inversion H; reflexivity.
  - destruct (qsearch f (makemove false p m) (bump_nodes st) (- b) (- alpha) (ply + 1)) as [[vc stc]|] eqn:E; [|discriminate].
    rewrite (IH _ _ _ _ _ _ _ E). cbn zeta in H |- *.
    destruct (b <=? (if alpha <? - vc then - vc else alpha)).
    + inversion H; reflexivity.
    + apply (IHms _ _ _ _ _ H).
Qed.

Lemma qsearch_erase : forall fuel p st a b ply v st',
  qsearch fuel p st a b ply = Some (v, st') -> qs Position eval kids fuel p a b = Some v.
Proof.
  induction fuel as [|f IH]; intros p st a b ply v st' H; [discriminate|].
  cbn [qsearch qs] in *.
  destruct (b <=? eval p); [inversion H; reflexivity|].
  exact (q_loop_erase f p b ply IH _ _ _ _ _ _ H).
Qed.

(* the exact capture-tree value of spec/GameTree.v is the generic unpruned value over the ordered children *)
Lemma qvalue_is_mm : forall fuel p, qvalue fuel p = mm Position eval kids fuel p.
Proof.
  induction fuel as [|f IH]; intros p; [reflexivity|].
  cbn [qvalue mm]. unfold kids.
  transitivity ((fix go (cs : list Position) (acc : Z) : option Z :=
     match cs with [] => Some acc
     | c :: cs' => match mm Position eval kids f c with None => None | Some v => go cs' (Z.max acc (- v)) end end)
     (map (makemove false p) (legal_captures p)) (eval p)).
  - generalize (eval p). induction (legal_captures p) as [|m ms IHms]; intros acc; cbn [map]; [reflexivity|].
    rewrite IH. destruct (mm Position eval kids f (makemove false p m)); [apply IHms|reflexivity].
  - apply (go_max_perm Position (mm Position eval kids f)). apply Permutation_map. apply Permutation_sym. apply sort_q_perm.
Qed.

Theorem qsearch_sound : forall fuel p st a b ply v st' m,
  a < b -> qsearch fuel p st a b ply = Some (v, st') -> qvalue fuel p = Some m ->
  (a < v < b -> v = m) /\ (v <= a -> m <= v) /\ (b <= v -> v <= m).
Proof.
  intros fuel p st a b ply v st' m Hab Hq Hm.
  apply qsearch_erase in Hq. rewrite qvalue_is_mm in Hm.
  exact (qs_sound Position eval kids fuel p a b v m Hab Hq Hm).
Qed.

Corollary qsearch_full_window_exact : forall fuel p st ply v st' m,
  qsearch fuel p st (- QINF) QINF ply = Some (v, st') -> qvalue fuel p = Some m ->
  - QINF < m < QINF -> v = m.
Proof.
  intros fuel p st ply v st' m Hq Hm Hr.
  destruct (qsearch_sound fuel p st (- QINF) QINF ply v st' m ltac:(unfold QINF; lia) Hq Hm) as (H1 & H2 & H3).
  destruct (Z_lt_le_dec (- QINF) v) as [Hl|Hl]; [destruct (Z_lt_le_dec v QINF) as [Hu|Hu]|].
  - apply H1. lia.
  - specialize (H3 Hu). lia.
  - specialize (H2 Hl). lia.
Qed.

(* ------------------------------------------------------------------ history preservation (C13) *)
Lemma some_pair_snd {A B} (a a' : A) (b b' : B) : Some (a, b) = Some (a', b') -> b = b'.
Proof. intros H. inversion H. reflexivity. Qed.

Section Hist.
Variable stopf : Stats -> bool.

Definition keeps_hist (rec : Position -> SS -> Z -> Z -> Z -> Z -> bool -> option (Z * SS)) : Prop :=
  forall p s a b ply d cn v s', rec p s a b ply d cn = Some (v, s') -> ss_hist s' = ss_hist s.

Lemma search_move_hist rec p in_chk beta ply depth idx m np s alpha score s' :
  keeps_hist rec -> search_move rec p in_chk beta ply depth idx m np s alpha = Some (score, s') -> ss_hist s' = ss_hist s.
Proof.
  intros Hk H. unfold search_move in H. destruct (idx =? 0).
  - destruct (rec np s (- beta) (- alpha) (ply + 1) (depth - 1) true) as [[v s1]|] eqn:E; [|discriminate].
    inversion H; subst. apply (Hk _ _ _ _ _ _ _ _ _ E).
  - match type of H with match ?r with _ => _ end = _ => destruct r as [[v s1]|] eqn:E; [|discriminate] end.
    pose proof (Hk _ _ _ _ _ _ _ _ _ E) as H1. cbn zeta in H.
    destruct ((alpha <? - v) && (- v <? beta)).
    + destruct (rec np s1 (- beta) (- alpha) (ply + 1) (depth - 1) true) as [[v2 s2]|] eqn:E2; [|discriminate].
      inversion H; subst. rewrite (Hk _ _ _ _ _ _ _ _ _ E2). exact H1.
    + inversion H; subst. exact H1.
Qed.

Lemma n_loop_hist rec p in_chk beta ply depth : keeps_hist rec ->
  forall ms idx s alpha best bm a' b' bm' s',
  n_loop rec p in_chk beta ply depth ms idx s alpha best bm = Some (a', b', bm', s') -> ss_hist s' = ss_hist s.
Proof.
  intros Hk. induction ms as [|m ms IH]; intros idx s alpha best bm a' b' bm' s' H; cbn [n_loop] in H.
  - inversion H; reflexivity.
  - match type of H with match ?r with _ => _ end = _ => destruct r as [[score s1]|] eqn:E; [|discriminate] end.
    apply search_move_hist in E; [|exact Hk]. cbn zeta in H.
    assert (Hp : ss_hist (pop_hist s1) = ss_hist s).
    { unfold pop_hist. cbn. rewrite E. reflexivity. }
    destruct (best <? score); destruct (beta <=? _) in H.
    + inversion H; subst. exact Hp.
    + apply IH in H. rewrite H. exact Hp.
    + inversion H; subst. exact Hp.
    + apply IH in H. rewrite H. exact Hp.
Qed.

Lemma null_move_hist rec p s is_root cn in_chk beta ply depth r s' : keeps_hist rec ->
  null_move rec p s is_root cn in_chk beta ply depth = Some (r, s') -> ss_hist s' = ss_hist s.
Proof.
  intros Hk H. unfold null_move in H.
  destruct (negb is_root && cn && (2 <? depth) && negb in_chk && negb (is_endgame p)); [|inversion H; reflexivity].
  match type of H with match ?r with _ => _ end = _ => destruct r as [[v s1]|] eqn:E; [|discriminate] end.
  apply Hk in E. cbn zeta in H.
  assert (Hp : ss_hist (pop_hist s1) = ss_hist s) by (unfold pop_hist; cbn; rewrite E; reflexivity).
  destruct (beta <=? - v); inversion H; subst; exact Hp.
Qed.

Lemma nm_finish_hist p ao beta ply depth in_chk best bm s v s' :
  nm_finish p ao beta ply depth in_chk best bm s = Some (v, s') -> ss_hist s' = ss_hist s.
Proof.
  unfold nm_finish. destruct bm as [bmv|].
  - destruct (tt_add (ss_tt s) (hash p) _) as [tt'|]; [|discriminate].
    intros H. apply some_pair_snd in H. rewrite <- H. reflexivity.
  - intros H. apply some_pair_snd in H. rewrite <- H. reflexivity.
Qed.

Lemma n_loop_hist' rec p in_chk beta ply depth : keeps_hist rec ->
  forall ms idx s alpha best bm r,
  n_loop rec p in_chk beta ply depth ms idx s alpha best bm = Some r -> ss_hist (snd r) = ss_hist s.
Proof.
  intros Hk ms idx s alpha best bm r H. destruct r as [[[a' b'] bm'] s'].
  apply (n_loop_hist rec p in_chk beta ply depth Hk _ _ _ _ _ _ _ _ _ _ H).
Qed.

Lemma nm_moves_hist rec p s ao alpha beta ply depth in_chk is_root cn ttm v s' : keeps_hist rec ->
  nm_moves rec p s ao alpha beta ply depth in_chk is_root cn ttm = Some (v, s') -> ss_hist s' = ss_hist s.
Proof.
  intros Hk H. unfold nm_moves in H.
  destruct (null_move rec p s is_root cn in_chk beta ply depth) as [[oc s1]|] eqn:En; [|discriminate].
  apply null_move_hist in En; [|exact Hk].
  destruct oc as [cut|].
  - apply some_pair_snd in H. rewrite <- H. exact En.
  - destruct (n_loop rec p in_chk beta ply depth (sort_n p (legal_moves p) ttm) 0 s1 alpha (- INF) None) as [r|] eqn:El; [|discriminate].
    apply n_loop_hist' in El; [|exact Hk].
    apply nm_finish_hist in H. rewrite H, El. exact En.
Qed.

Lemma nm_prune_hist rec qrec p s ao alpha beta ply depth in_chk is_root is_pv cn ttm v s' : keeps_hist rec ->
  nm_prune stopf rec qrec p s ao alpha beta ply depth in_chk is_root is_pv cn ttm = Some (v, s') -> ss_hist s' = ss_hist s.
Proof.
  intros Hk H. unfold nm_prune in H.
  destruct (depth <=? 0).
  - destruct (qrec p (ss_stats s) alpha beta ply) as [[v0 st]|]; [|discriminate]. inversion H; subst. reflexivity.
  - destruct (stopf (ss_stats s) && negb (is_root && (st_depth (ss_stats s) <=? 1))); [inversion H; reflexivity|].
    cbv zeta in H.
    destruct (((100 <=? halfmoves p) || _) && negb is_root); [inversion H; reflexivity|].
    destruct (negb is_pv && negb in_chk && (depth <? RFP_DEPTH) && _); [inversion H; reflexivity|].
    apply nm_moves_hist in H; assumption.
Qed.

Lemma nm_probe_hist rec qrec p s tte alpha beta ply depth in_chk is_root is_pv cn v s' : keeps_hist rec ->
  nm_probe stopf rec qrec p s tte alpha beta ply depth in_chk is_root is_pv cn = Some (v, s') -> ss_hist s' = ss_hist s.
Proof.
  intros Hk H. unfold nm_probe in H. cbv zeta in H.
  match type of H with (if ?c then _ else _) = _ => destruct c end; [inversion H; reflexivity|].
  match type of H with (if ?c then _ else _) = _ => destruct c end; [inversion H; reflexivity|].
  apply nm_prune_hist in H; assumption.
Qed.

Lemma nm_body_hist rec qrec p s alpha beta ply depth cn v s' : keeps_hist rec ->
  nm_body stopf rec qrec p s alpha beta ply depth cn = Some (v, s') -> ss_hist s' = ss_hist s.
Proof.
  intros Hk H. unfold nm_body in H. cbv zeta in H.
  match type of H with match ?x with _ => _ end = _ => destruct x as [tte|]; [|discriminate] end.
  apply nm_probe_hist in H; [|exact Hk]. exact H.
Qed.

Theorem negamax_keeps_history : forall fuel, keeps_hist (negamax stopf fuel).
Proof.
  induction fuel as [|f IH]; intros p s a b ply d cn v s' H; [discriminate|].
  cbn [negamax] in H. apply nm_body_hist in H; [exact H|exact IH].
Qed.

(* ---- the root loop *)
Lemma root_loop_hist : forall n fuel p depth s best infos r,
  root_loop stopf n fuel p depth s best infos = Some r -> ss_hist (rr_state r) = ss_hist s.
Proof.
  induction n as [|n IH]; intros fuel p depth s best infos r H; cbn [root_loop] in H.
  - inversion H; reflexivity.
  - destruct (MAX_DEPTH <=? depth); [inversion H; reflexivity|].
    match type of H with match ?x with _ => _ end = _ => destruct x as [[score s1]|] eqn:E; [|discriminate] end.
    apply negamax_keeps_history in E. cbn in E.
    destruct (st_best (ss_stats s1)) as [bm|]; [|inversion H; subst; exact E].
    destruct ((1 <? depth) && stopf (ss_stats s1)); [inversion H; subst; exact E|].
    apply IH in H. rewrite H. exact E.
Qed.

Theorem root_keeps_history fuel p hist tt r :
  root stopf fuel p hist tt = Some r -> ss_hist (rr_state r) = hist.
Proof. unfold root. intros H. apply root_loop_hist in H. exact H. Qed.

End Hist.

(* ------------------------------------------------------------------ what a search leaves unchanged besides the
   history: the table length and the iteration depth recorded in the statistics (C14, C16) *)
Definition K (s s' : SS) : Prop :=
  t_len (ss_tt s') = t_len (ss_tt s) /\ st_depth (ss_stats s') = st_depth (ss_stats s).

Lemma K_refl s : K s s. Proof. split; reflexivity. Qed.
Lemma K_trans a b c : K a b -> K b c -> K a c.
Proof. intros [H1 H2] [H3 H4]. split; congruence. Qed.

Lemma q_loop_depth rec p beta ply
  (Hrec : forall c st a b pl v st', rec c st a b pl = Some (v, st') -> st_depth st' = st_depth st) :
  forall ms st alpha best v st', q_loop rec p beta ply ms st alpha best = Some (v, st') -> st_depth st' = st_depth st.
Proof.
  induction ms as [|m ms IH]; intros st alpha best v st' H; cbn [q_loop] in H.
  - apply some_pair_snd in H. rewrite <- H. reflexivity.
  - destruct (rec (makemove false p m) (bump_nodes st) (- beta) (- alpha) (ply + 1)) as [[vc stc]|] eqn:E; [|discriminate].
    apply Hrec in E. cbn zeta in H.
    destruct (beta <=? _) in H.
    + apply some_pair_snd in H. rewrite <- H. rewrite E. reflexivity.
    + apply IH in H. rewrite H, E. reflexivity.
Qed.

Lemma qsearch_depth : forall fuel p st a b ply v st', qsearch fuel p st a b ply = Some (v, st') -> st_depth st' = st_depth st.
Proof.
  induction fuel as [|f IH]; intros p st a b ply v st' H; [discriminate|].
  cbn [qsearch] in H. destruct (b <=? eval p).
  - apply some_pair_snd in H. rewrite <- H. reflexivity.
  - apply (q_loop_depth (qsearch f) p b ply IH) in H. rewrite H. reflexivity.
Qed.

Section Keep.
Variable stopf : Stats -> bool.

Definition keepsK (rec : Position -> SS -> Z -> Z -> Z -> Z -> bool -> option (Z * SS)) : Prop :=
  forall p s a b ply d cn v s', rec p s a b ply d cn = Some (v, s') -> K s s'.

Lemma search_move_K rec p in_chk beta ply depth idx m np s alpha score s' :
  keepsK rec -> search_move rec p in_chk beta ply depth idx m np s alpha = Some (score, s') -> K s s'.
Proof.
  intros Hk H. unfold search_move in H. destruct (idx =? 0).
  - destruct (rec np s (- beta) (- alpha) (ply + 1) (depth - 1) true) as [[v s1]|] eqn:E; [|discriminate].
    apply some_pair_snd in H. rewrite <- H. apply (Hk _ _ _ _ _ _ _ _ _ E).
  - match type of H with match ?r with _ => _ end = _ => destruct r as [[v s1]|] eqn:E; [|discriminate] end.
    pose proof (Hk _ _ _ _ _ _ _ _ _ E) as H1. cbn zeta in H.
    destruct ((alpha <? - v) && (- v <? beta)).
    + destruct (rec np s1 (- beta) (- alpha) (ply + 1) (depth - 1) true) as [[v2 s2]|] eqn:E2; [|discriminate].
      apply some_pair_snd in H. rewrite <- H. eapply K_trans; [exact H1|apply (Hk _ _ _ _ _ _ _ _ _ E2)].
    + apply some_pair_snd in H. rewrite <- H. exact H1.
Qed.

Lemma n_loop_K rec p in_chk beta ply depth : keepsK rec ->
  forall ms idx s alpha best bm r,
  n_loop rec p in_chk beta ply depth ms idx s alpha best bm = Some r -> K s (snd r).
Proof.
  intros Hk. induction ms as [|m ms IH]; intros idx s alpha best bm r H; cbn [n_loop] in H.
  - injection H as <-. apply K_refl.
  - match type of H with match ?x with _ => _ end = _ => destruct x as [[score s1]|] eqn:E; [|discriminate] end.
    apply search_move_K in E; [|exact Hk]. cbn zeta in H.
    assert (Hp : K s (pop_hist s1)).
    { destruct E as [E1 E2]. split; cbn in *; [exact E1|exact E2]. }
    destruct (best <? score); destruct (beta <=? _) in H.
    + injection H as <-. exact Hp.
    + apply IH in H. eapply K_trans; eassumption.
    + injection H as <-. exact Hp.
    + apply IH in H. eapply K_trans; eassumption.
Qed.

Lemma null_move_K rec p s is_root cn in_chk beta ply depth r s' : keepsK rec ->
  null_move rec p s is_root cn in_chk beta ply depth = Some (r, s') -> K s s'.
Proof.
  intros Hk H. unfold null_move in H.
  destruct (negb is_root && cn && (2 <? depth) && negb in_chk && negb (is_endgame p)).
  - match type of H with match ?x with _ => _ end = _ => destruct x as [[v s1]|] eqn:E; [|discriminate] end.
    apply Hk in E. cbn zeta in H.
    assert (Hp : K s (pop_hist s1)) by (destruct E as [E1 E2]; split; cbn in *; assumption).
    destruct (beta <=? - v); apply some_pair_snd in H; rewrite <- H; exact Hp.
  - apply some_pair_snd in H. rewrite <- H. apply K_refl.
Qed.

Lemma nm_finish_K p ao beta ply depth in_chk best bm s v s' :
  nm_finish p ao beta ply depth in_chk best bm s = Some (v, s') -> K s s'.
Proof.
  unfold nm_finish. destruct bm as [bmv|].
  - unfold tt_add, t_add, get_idx. destruct (t_len (ss_tt s) =? 0)%N; [discriminate|].
    intros H. apply some_pair_snd in H. rewrite <- H. split; reflexivity.
  - intros H. apply some_pair_snd in H. rewrite <- H. apply K_refl.
Qed.

Lemma nm_moves_K rec p s ao alpha beta ply depth in_chk is_root cn ttm v s' : keepsK rec ->
  nm_moves rec p s ao alpha beta ply depth in_chk is_root cn ttm = Some (v, s') -> K s s'.
Proof.
  intros Hk H. unfold nm_moves in H.
  destruct (null_move rec p s is_root cn in_chk beta ply depth) as [[oc s1]|] eqn:En; [|discriminate].
  apply null_move_K in En; [|exact Hk].
  destruct oc as [cut|].
  - apply some_pair_snd in H. rewrite <- H. exact En.
  - destruct (n_loop rec p in_chk beta ply depth (sort_n p (legal_moves p) ttm) 0 s1 alpha (- INF) None) as [r|] eqn:El; [|discriminate].
    apply n_loop_K in El; [|exact Hk]. apply nm_finish_K in H.
    eapply K_trans; [exact En|]. eapply K_trans; eassumption.
Qed.

Lemma nm_prune_K rec qrec p s ao alpha beta ply depth in_chk is_root is_pv cn ttm v s' : keepsK rec ->
  (forall c st a b pl v st', qrec c st a b pl = Some (v, st') -> st_depth st' = st_depth st) ->
  nm_prune stopf rec qrec p s ao alpha beta ply depth in_chk is_root is_pv cn ttm = Some (v, s') -> K s s'.
Proof.
  intros Hk Hq H. unfold nm_prune in H.
  destruct (depth <=? 0).
  - destruct (qrec p (ss_stats s) alpha beta ply) as [[v0 st]|] eqn:E; [|discriminate].
    apply Hq in E. apply some_pair_snd in H. rewrite <- H. split; [reflexivity|exact E].
  - destruct (stopf (ss_stats s) && negb (is_root && (st_depth (ss_stats s) <=? 1))).
    { apply some_pair_snd in H. rewrite <- H. apply K_refl. }
    cbv zeta in H.
    destruct (((100 <=? halfmoves p) || _) && negb is_root).
    { apply some_pair_snd in H. rewrite <- H. apply K_refl. }
    destruct (negb is_pv && negb in_chk && (depth <? RFP_DEPTH) && _).
    { apply some_pair_snd in H. rewrite <- H. apply K_refl. }
    apply nm_moves_K in H; assumption.
Qed.

Lemma nm_body_K rec qrec p s alpha beta ply depth cn v s' : keepsK rec ->
  (forall c st a b pl v st', qrec c st a b pl = Some (v, st') -> st_depth st' = st_depth st) ->
  nm_body stopf rec qrec p s alpha beta ply depth cn = Some (v, s') -> K s s'.
Proof.
  intros Hk Hq H. unfold nm_body in H. cbv zeta in H.
  match type of H with match ?x with _ => _ end = _ => destruct x as [tte|]; [|discriminate] end.
  unfold nm_probe in H. cbv zeta in H.
  match type of H with (if ?c then _ else _) = _ => destruct c end.
  { apply some_pair_snd in H. rewrite <- H. split; reflexivity. }
  match type of H with (if ?c then _ else _) = _ => destruct c end.
  { apply some_pair_snd in H. rewrite <- H. split; reflexivity. }
  apply nm_prune_K in H; [|exact Hk|exact Hq]. destruct H as [H1 H2]. split; [exact H1|exact H2].
Qed.

Theorem negamax_K : forall fuel, keepsK (negamax stopf fuel).
Proof.
  induction fuel as [|f IH]; intros p s a b ply d cn v s' H; [discriminate|].
  cbn [negamax] in H. apply nm_body_K in H; [exact H|exact IH|apply qsearch_depth].
Qed.

(* ---- shape of the root loop: iterations are reported in order without gaps, the answer is the move of the last
   reported principal variation, and the table keeps its length *)
Fixpoint consecutive (d : Z) (l : list Info) : Prop :=
  match l with [] => True | i :: t => i_depth i = d /\ consecutive (d + 1) t end.

Lemma root_loop_shape : forall n fuel p depth s best infos r,
  root_loop stopf n fuel p depth s best infos = Some r ->
  exists new, rr_infos r = rev infos ++ new
    /\ consecutive depth new
    /\ (rr_best r = None \/ rr_best r = match rev new with [] => best | i :: _ => Some (i_pv i) end)
    /\ t_len (ss_tt (rr_state r)) = t_len (ss_tt s).
Proof.
  induction n as [|n IH]; intros fuel p depth s best infos r H; cbn [root_loop] in H.
  - injection H as <-. exists []. cbn. rewrite app_nil_r. auto.
  - destruct (MAX_DEPTH <=? depth); [injection H as <-; exists []; cbn; rewrite app_nil_r; auto|].
    match type of H with match ?x with _ => _ end = _ => destruct x as [[score s1]|] eqn:E; [|discriminate] end.
    apply negamax_K in E. destruct E as [El Ed]. cbn in El, Ed.
    destruct (st_best (ss_stats s1)) as [bm|] eqn:Eb.
    + destruct ((1 <? depth) && stopf (ss_stats s1)); [injection H as <-; exists []; cbn; rewrite app_nil_r; auto|].
      apply IH in H. destruct H as (new & H1 & H2 & H3 & H4).
      eexists (_ :: new). split; [|split; [|split]].
      * rewrite H1. cbn [rev]. rewrite <- app_assoc. reflexivity.
      * cbn [consecutive i_depth]. split; [exact Ed|exact H2].
      * destruct H3 as [H3|H3]; [left; exact H3|right]. rewrite H3. cbn [rev].
        destruct (rev new) as [|i t] eqn:Er; cbn; reflexivity.
      * rewrite H4. exact El.
    + injection H as <-. exists []. cbn. rewrite app_nil_r. split; [reflexivity|]. split; [exact I|]. split; [left; reflexivity|exact El].
Qed.

Theorem root_iterations_in_order fuel p hist tt r :
  root stopf fuel p hist tt = Some r ->
  consecutive 1 (rr_infos r)
  /\ (rr_best r = None \/ rr_best r = match rev (rr_infos r) with [] => None | i :: _ => Some (i_pv i) end)
  /\ t_len (ss_tt (rr_state r)) = t_len tt.
Proof.
  unfold root. intros H. apply root_loop_shape in H. destruct H as (new & H1 & H2 & H3 & H4).
  cbn in H1. rewrite H1. auto.
Qed.

End Keep.

(* every reported iteration after the first was reported with the stop predicate false on its own statistics *)
Section Reported.
Variable stopf : Stats -> bool.

Definition stats_of_info (i : Info) : Stats := mkStats (i_depth i) (i_seldepth i) (i_nodes i) (Some (i_pv i)).

Lemma root_loop_reported : forall n fuel p depth s best infos r,
  root_loop stopf n fuel p depth s best infos = Some r ->
  (forall i, In i infos -> 1 < i_depth i -> stopf (stats_of_info i) = false) ->
  1 <= depth ->
  forall i, In i (rr_infos r) -> 1 < i_depth i -> stopf (stats_of_info i) = false.
Proof.
  induction n as [|n IH]; intros fuel p depth s best infos r H Hold Hd; cbn [root_loop] in H.
  - injection H as <-. cbn. intros i Hi. apply Hold. apply in_rev. exact Hi.
  - destruct (MAX_DEPTH <=? depth); [injection H as <-; cbn; intros i Hi; apply Hold; apply in_rev; exact Hi|].
    match type of H with match ?x with _ => _ end = _ => destruct x as [[score s1]|] eqn:E; [|discriminate] end.
    apply negamax_K in E. destruct E as [_ Ed]. cbn in Ed.
    destruct (st_best (ss_stats s1)) as [bm|] eqn:Eb.
    + destruct ((1 <? depth) && stopf (ss_stats s1)) eqn:Es; [injection H as <-; cbn; intros i Hi; apply Hold; apply in_rev; exact Hi|].
      intros i0 Hi0 Hgt0. refine (IH _ _ _ _ _ _ _ H _ _ i0 Hi0 Hgt0); [|lia].
      intros i [<-|Hi] Hgt; [|apply Hold; assumption].
      unfold stats_of_info in *. cbn [i_depth i_seldepth i_nodes i_pv] in *.
      apply andb_false_iff in Es. destruct Es as [Es|Es].
      * apply Z.ltb_ge in Es. rewrite Ed in Hgt. lia.
      * destruct (ss_stats s1) as [d sd nn bb]. cbn in *. subst bb. exact Es.
    + injection H as <-. cbn. intros i Hi. apply Hold. apply in_rev. exact Hi.
Qed.

Theorem root_reported_not_stopped fuel p hist tt r :
  root stopf fuel p hist tt = Some r ->
  forall i, In i (rr_infos r) -> 1 < i_depth i -> stopf (stats_of_info i) = false.
Proof. unfold root. intros H. apply (root_loop_reported _ _ _ _ _ _ _ _ H); [intros i []|lia]. Qed.
End Reported.

Corollary nodes_limit_honoured fuel p hist tt n r :
  root (stop_of (LNodes n)) fuel p hist tt = Some r ->
  forall i, In i (rr_infos r) -> 1 < i_depth i -> (i_nodes i < n)%N.
Proof.
  intros H i Hi Hd. pose proof (root_reported_not_stopped _ _ _ _ _ _ H i Hi Hd) as Hs.
  cbn in Hs. apply N.leb_gt in Hs. exact Hs.
Qed.

Corollary depth_limit_honoured fuel p hist tt d r :
  root (stop_of (LDepth d)) fuel p hist tt = Some r ->
  forall i, In i (rr_infos r) -> 1 < i_depth i -> i_depth i <= d.
Proof.
  intros H i Hi Hd. pose proof (root_reported_not_stopped _ _ _ _ _ _ H i Hi Hd) as Hs.
  cbn in Hs. apply Z.ltb_ge in Hs. exact Hs.
Qed.

Corollary root_keeps_table_size (stopf : Stats -> bool) fuel p hist tt r :
  root stopf fuel p hist tt = Some r -> t_len (ss_tt (rr_state r)) = t_len tt.
Proof. intros H. apply (root_iterations_in_order stopf fuel p hist tt r H). Qed.

Corollary answer_is_last_pv (stopf : Stats -> bool) fuel p hist tt r :
  root stopf fuel p hist tt = Some r ->
  rr_best r = None \/ rr_best r = match rev (rr_infos r) with [] => None | i :: _ => Some (i_pv i) end.
Proof. intros H. apply (root_iterations_in_order stopf fuel p hist tt r H). Qed.
